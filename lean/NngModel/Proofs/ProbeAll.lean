/- the probe `j ↦ (5j+1) mod 2^n` is a single cycle through all 2^n cells, for every n
   (2-adic lifting: the orbit of 0 modulo 2^(n+1) is the orbit modulo 2^n followed by the same
   orbit shifted by 2^n, because T^(2^n)(0) = (5^(2^n) − 1)/4 = 2^n · odd) -/
import NngModel.Proofs.Probe
namespace Nng.IdHash

/-- the orbit of 0 under x ↦ 5x+1 over the naturals (no reduction) -/
def orb : Nat → Nat
  | 0 => 0
  | k + 1 => orb k * 5 + 1

theorem idNext_pow (n j : Nat) : idNext (2 ^ n) j = (j * 5 + 1) % 2 ^ n := by
  unfold idNext
  rw [Nat.and_two_pow_sub_one_eq_mod]
  rfl

theorem iter_zero_eq (n : Nat) : ∀ k, iter (2 ^ n) k 0 = orb k % 2 ^ n
  | 0 => by simp [iter, orb]
  | k + 1 => by
    rw [iter, iter_zero_eq n k, idNext_pow, orb]
    conv => lhs; rw [Nat.add_mod, Nat.mul_mod, Nat.mod_mod]
    conv => rhs; rw [Nat.add_mod, Nat.mul_mod]

theorem four_orb : ∀ k, 4 * orb k + 1 = 5 ^ k
  | 0 => rfl
  | k + 1 => by
    have := four_orb k
    rw [orb, Nat.pow_succ]
    omega

theorem orb_add (a : Nat) : ∀ b, orb (a + b) = 5 ^ b * orb a + orb b
  | 0 => by simp [orb]
  | b + 1 => by
    rw [← Nat.add_assoc, orb, orb_add a b, orb, Nat.pow_succ]
    grind

/-- 5^(2^n) = 1 + 2^(n+2)·odd -/
theorem five_pow_two_pow : ∀ n, ∃ u, u % 2 = 1 ∧ 5 ^ (2 ^ n) = 1 + 2 ^ (n + 2) * u
  | 0 => ⟨1, rfl, rfl⟩
  | n + 1 => by
    obtain ⟨u, hu, h⟩ := five_pow_two_pow n
    refine ⟨u + 2 * (2 ^ n * u * u), by omega, ?_⟩
    have e1 : 2 ^ (n + 2) = 4 * 2 ^ n := by rw [Nat.pow_add]; omega
    have e2 : 2 ^ (n + 1 + 2) = 8 * 2 ^ n := by rw [Nat.pow_add]; omega
    rw [Nat.pow_succ, Nat.pow_mul, h, e1, e2]
    generalize 2 ^ n = p
    grind

/-- T^(2^n)(0) = 2^n·odd -/
theorem orb_two_pow (n : Nat) : ∃ u, u % 2 = 1 ∧ orb (2 ^ n) = 2 ^ n * u := by
  obtain ⟨u, hu, h⟩ := five_pow_two_pow n
  refine ⟨u, hu, ?_⟩
  have h4 := four_orb (2 ^ n)
  have e : 2 ^ (n + 2) * u = 4 * (2 ^ n * u) := by grind
  rw [h, e] at h4
  omega

theorem orb_shift (n i : Nat) : orb (2 ^ n + i) % 2 ^ (n + 1) = (2 ^ n + orb i) % 2 ^ (n + 1) := by
  obtain ⟨u, hu, h⟩ := orb_two_pow n
  have h5 : 5 ^ i % 2 = 1 := by rw [Nat.pow_mod]; simp
  have hodd : (5 ^ i * u) % 2 = 1 := by rw [Nat.mul_mod, h5, hu]
  have hq : 5 ^ i * u = 2 * (5 ^ i * u / 2) + 1 := by omega
  have e : 5 ^ i * (2 ^ n * u) = 2 ^ (n + 1) * (5 ^ i * u / 2) + 2 ^ n := by
    have : 5 ^ i * (2 ^ n * u) = 2 ^ n * (5 ^ i * u) := by grind
    rw [this, hq, Nat.pow_succ]
    generalize 5 ^ i * u / 2 = q
    grind
  rw [orb_add, h, e, Nat.add_assoc, Nat.mul_add_mod]

theorem orb_close (n : Nat) : orb (2 ^ n) % 2 ^ n = 0 := by
  obtain ⟨u, _, h⟩ := orb_two_pow n
  rw [h, Nat.mul_mod_right]

theorem mod_cases {M t : Nat} (ht : t < 2 * M) : t = t % M ∨ t = t % M + M := by
  by_cases h : t < M
  · exact Or.inl (Nat.mod_eq_of_lt h).symm
  · right
    rw [Nat.mod_eq_sub_mod (by omega), Nat.mod_eq_of_lt (by omega)]
    omega

theorem orb_reach : ∀ n t, t < 2 ^ n → ∃ i, i < 2 ^ n ∧ orb i % 2 ^ n = t
  | 0 => by
    intro t ht
    exact ⟨0, by simp, by simp at ht; simp [orb, ht]⟩
  | n + 1 => by
    intro t ht
    have hM : 0 < 2 ^ n := Nat.two_pow_pos n
    have e2 : 2 ^ (n + 1) = 2 * 2 ^ n := by rw [Nat.pow_succ]; omega
    have ht0 : t % 2 ^ n < 2 ^ n := Nat.mod_lt _ hM
    obtain ⟨i, hi, hio⟩ := orb_reach n (t % 2 ^ n) ht0
    have hr : orb i % 2 ^ (n + 1) % 2 ^ n = orb i % 2 ^ n :=
      Nat.mod_mod_of_dvd _ ⟨2, by rw [Nat.pow_succ]⟩
    have hrlt : orb i % 2 ^ (n + 1) < 2 * 2 ^ n := by rw [← e2]; exact Nat.mod_lt _ (by omega)
    have c1 := mod_cases (M := 2 ^ n) (t := t) (by omega)
    have c2 := mod_cases (M := 2 ^ n) (t := orb i % 2 ^ (n + 1)) hrlt
    rw [hr, hio] at c2
    by_cases heq : orb i % 2 ^ (n + 1) = t
    · exact ⟨i, by omega, heq⟩
    · refine ⟨2 ^ n + i, by omega, ?_⟩
      rw [orb_shift, Nat.add_mod]
      generalize orb i % 2 ^ (n + 1) = r at *
      have hMM : 2 ^ n % 2 ^ (n + 1) = 2 ^ n := Nat.mod_eq_of_lt (by omega)
      rw [hMM]
      generalize t % 2 ^ n = t0 at *
      rcases c1 with c1 | c1 <;> rcases c2 with c2 | c2
      · omega
      · rw [Nat.mod_eq_sub_mod (by omega), Nat.mod_eq_of_lt (by omega)]; omega
      · rw [Nat.mod_eq_of_lt (by omega)]; omega
      · omega

/-- the probe of idhash.c covers the table for every power-of-two capacity (Hull–Dobell for
    a = 5, c = 1, m = 2^n) -/
theorem probeCovers_two_pow (n : Nat) : ProbeCovers (2 ^ n) := by
  refine probeCovers_of_zero ?_ ?_
  · rw [iter_zero_eq, orb_close]
  · intro t ht
    obtain ⟨i, hi, hio⟩ := orb_reach n t ht
    exact ⟨i, hi, by rw [iter_zero_eq]; exact hio⟩

end Nng.IdHash
