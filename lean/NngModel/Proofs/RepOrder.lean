/-
  P5: requests are delivered in arrival order, each at most once (ghost arrival numbers), and the
  bookkeeping behind the "second concurrent receive" rule: a context with a receive pending is on the
  socket's receive queue, and receivers wait only while no request is held.
-/
import NngModel.Proofs.RepInv
namespace Nng.RepProofs
open Nng Nng.Proto Nng.Rep

structure Inv3 (s : State) : Prop where
  D : s.delivered.Pairwise (fun a b => a.2.gid < b.2.gid)
  DB : ∀ d ∈ s.delivered, d.2.gid < s.narrive
  HP : s.recvpipes.Pairwise (fun a b => a.gid < b.gid)
  HB : ∀ r ∈ s.recvpipes, r.gid < s.narrive
  DH : ∀ d ∈ s.delivered, ∀ r ∈ s.recvpipes, d.2.gid < r.gid
  Q : s.recvq ≠ [] → s.recvpipes = []
  RQ : ∀ k, (s.ctx k).raio.isSome = true → k ∈ s.recvq

theorem inv3_init : Inv3 ({} : State) := by
  constructor <;> simp

theorem inv3_transfer {s s' : State} (hd : s'.delivered = s.delivered) (hrp : s'.recvpipes = s.recvpipes)
    (hn : s'.narrive = s.narrive) (hq : s'.recvq = s.recvq) (hr : ∀ k, (s'.ctx k).raio = (s.ctx k).raio)
    (h : Inv3 s) : Inv3 s' := by
  constructor
  · rw [hd]; exact h.D
  · rw [hd, hn]; exact h.DB
  · rw [hrp]; exact h.HP
  · rw [hrp, hn]; exact h.HB
  · rw [hd, hrp]; exact h.DH
  · rw [hq, hrp]; exact h.Q
  · intro k hk; rw [hr] at hk; rw [hq]; exact h.RQ k hk

theorem inv3_same {s s' : State} (hd : s'.delivered = s.delivered) (hrp : s'.recvpipes = s.recvpipes)
    (hn : s'.narrive = s.narrive) (hq : s'.recvq = s.recvq) (hc : s'.ctx = s.ctx) (h : Inv3 s) : Inv3 s' :=
  inv3_transfer hd hrp hn hq (fun k => by rw [hc]) h

theorem inv3_setCtx (s : State) (k : Nat) (c : Ctx) (hr : c.raio = (s.ctx k).raio) (h : Inv3 s) : Inv3 (setCtx s k c) := by
  refine inv3_transfer (s := s) rfl rfl rfl rfl ?_ h
  intro k'
  rw [setCtx_ctx, upd_apply]
  by_cases hk : k' = k
  · rw [if_pos hk]; subst hk; exact hr
  · rw [if_neg hk]

theorem inv3_setPipe (s : State) (p : Nat) (pp : Pipe) (h : Inv3 s) : Inv3 (setPipe s p pp) :=
  inv3_same (s := s) rfl rfl rfl rfl rfl h

/-- a request leaves the receive side: fewer held requests -/
theorem inv3_sub_recvpipes (s : State) (l : List Req) (hl : l.Sublist s.recvpipes) (h : Inv3 s) :
    Inv3 { s with recvpipes := l } := by
  constructor
  · exact h.D
  · exact h.DB
  · exact h.HP.sublist hl
  · intro r hr; exact h.HB r (hl.subset hr)
  · intro d hd r hr; exact h.DH d hd r (hl.subset hr)
  · intro hq
    have := h.Q hq
    rw [this] at hl
    exact List.sublist_nil.mp hl
  · exact h.RQ

/-! #### deliver -/
theorem deliver_raio (s : State) (k : Nat) (r : Req) (k' : Nat) : ((deliver s k r).ctx k').raio = (s.ctx k').raio := by
  rw [deliver_ctx, upd_apply]
  by_cases hk : k' = k
  · rw [if_pos hk, hk]
  · rw [if_neg hk]

theorem deliver_inv3 (s : State) (k : Nat) (r : Req) (h : Inv3 s) (h1 : ∀ d ∈ s.delivered, d.2.gid < r.gid)
    (h2 : r.gid < s.narrive) (h3 : ∀ r' ∈ s.recvpipes, r.gid < r'.gid) : Inv3 (deliver s k r) := by
  obtain ⟨_, _, hw3, _, hw5, _, _, hw8, hw9, _⟩ := deliver_wire s k r
  constructor
  · rw [hw3, List.pairwise_append]
    refine ⟨h.D, List.pairwise_singleton _ _, ?_⟩
    intro a ha b hb
    rw [List.mem_singleton] at hb; subst hb
    exact h1 a ha
  · rw [hw3, hw9]
    intro d hd
    rw [List.mem_append, List.mem_singleton] at hd
    cases hd with
    | inl hd => exact h.DB d hd
    | inr hd => subst hd; exact h2
  · rw [hw5]; exact h.HP
  · rw [hw5, hw9]; exact h.HB
  · rw [hw3, hw5]
    intro d hd r' hr'
    rw [List.mem_append, List.mem_singleton] at hd
    cases hd with
    | inl hd => exact h.DH d hd r' hr'
    | inr hd => subst hd; exact h3 r' hr'
  · rw [hw8, hw5]; exact h.Q
  · intro k' hk'
    rw [deliver_raio] at hk'
    rw [hw8]; exact h.RQ k' hk'

/-! #### closePipe -/
theorem dropHeld_inv3 (s : State) (p : Nat) (h : Inv3 s) : Inv3 (dropHeld s p) := by
  unfold dropHeld
  split
  · dsimp only
    have hsub : (s.recvpipes.filter (·.pipe != p)).Sublist s.recvpipes := List.filter_sublist
    have h1 := inv3_sub_recvpipes s _ hsub h
    split
    · exact inv3_same (s := { s with recvpipes := s.recvpipes.filter (·.pipe != p) }) rfl rfl rfl rfl rfl h1
    · exact inv3_same (s := { s with recvpipes := s.recvpipes.filter (·.pipe != p) }) rfl rfl rfl rfl rfl h1
  · exact h

theorem closePipe_inv3 (s : State) (p : Nat) (h : Inv3 s) : Inv3 (closePipe s p).1 := by
  unfold closePipe
  split
  · exact h
  · dsimp only
    have hf := clearSaio_frame (s.pipe p).sendq (dropHeld s p)
    have h1 := dropHeld_inv3 s p h
    have h2 : Inv3 (clearSaio (dropHeld s p) (s.pipe p).sendq) :=
      inv3_transfer (s := dropHeld s p) hf.delivered hf.recvpipes hf.narrive hf.recvq hf.raio h1
    have h3 : Inv3 (addDiscarded (clearSaio (dropHeld s p) (s.pipe p).sendq) ((s.pipe p).sendq.map (wireOf p))) :=
      inv3_same (s := clearSaio (dropHeld s p) (s.pipe p).sendq) rfl rfl rfl rfl rfl h2
    have hr := raiseIfSock_frame (addDiscarded (clearSaio (dropHeld s p) (s.pipe p).sendq) ((s.pipe p).sendq.map (wireOf p))) p
    apply inv3_setPipe
    exact inv3_same (s := addDiscarded _ _) hr.2.2.2.2.1 hr.2.2.2.2.2.2.1 hr.2.2.2.2.2.2.2.2.2.2.1 hr.2.2.2.2.2.2.2.2.2.1 hr.1 h3

/-! #### pipeRecv / ctxRecv -/
theorem pipeRecv_inv3 (s : State) (p : Nat) (b : Bytes) (h : Inv3 s) : Inv3 (pipeRecv s p b).1 := by
  have h0 : Inv3 (setPipe s p { s.pipe p with armed := false }) := inv3_setPipe s p _ h
  unfold pipeRecv
  dsimp only
  generalize setPipe s p { s.pipe p with armed := false } = s0 at h0 ⊢
  split
  · exact inv3_setPipe s0 p _ h0
  · exact closePipe_inv3 _ _ h0
  · rename_i hdr body _
    split
    · rename_i hq
      -- hold
      constructor
      · exact h0.D
      · intro d hd; exact Nat.lt_succ_of_lt (h0.DB d hd)
      · show (s0.recvpipes ++ _).Pairwise _
        rw [List.pairwise_append]
        refine ⟨h0.HP, List.pairwise_singleton _ _, ?_⟩
        intro a ha b' hb
        rw [List.mem_singleton] at hb; subst hb
        exact h0.HB a ha
      · intro r hr
        have hr' : r ∈ s0.recvpipes ++ [⟨s0.narrive, p, hdr, body⟩] := hr
        rw [List.mem_append, List.mem_singleton] at hr'
        cases hr' with
        | inl hr' => exact Nat.lt_succ_of_lt (h0.HB r hr')
        | inr hr' => subst hr'; exact Nat.lt_succ_self _
      · intro d hd r hr
        have hr' : r ∈ s0.recvpipes ++ [⟨s0.narrive, p, hdr, body⟩] := hr
        rw [List.mem_append, List.mem_singleton] at hr'
        cases hr' with
        | inl hr' => exact h0.DH d hd r hr'
        | inr hr' => subst hr'; exact h0.DB d hd
      · intro hne; exact absurd hq hne
      · exact h0.RQ
    · rename_i k rest hq
      have hrp : s0.recvpipes = [] := h0.Q (by rw [hq]; simp)
      split
      · exact inv3_same (s := s0) rfl rfl rfl rfl rfl h0
        |> fun h' => by
          constructor
          · exact h0.D
          · intro d hd; exact Nat.lt_succ_of_lt (h0.DB d hd)
          · exact h0.HP
          · intro r hr; exact Nat.lt_succ_of_lt (h0.HB r hr)
          · exact h0.DH
          · exact h0.Q
          · exact h0.RQ
      · rename_i pk hraio
        dsimp only
        apply deliver_inv3
        · -- state before deliver: arrival counted, receiver taken off the queue
          constructor
          · exact h0.D
          · intro d hd; exact Nat.lt_succ_of_lt (h0.DB d hd)
          · exact h0.HP
          · intro r hr; exact Nat.lt_succ_of_lt (h0.HB r hr)
          · exact h0.DH
          · intro _; exact hrp
          · intro k' hk'
            rw [setCtx_ctx, upd_apply] at hk'
            by_cases hkk : k' = k
            · rw [if_pos hkk] at hk'; simp at hk'
            · rw [if_neg hkk] at hk'
              have := h0.RQ k' hk'
              rw [hq] at this
              cases this with
              | head => exact absurd rfl hkk
              | tail _ hm => exact hm
        · intro d hd; exact h0.DB d hd
        · exact Nat.lt_succ_self _
        · intro r' hr'
          have : r' ∈ s0.recvpipes := hr'
          rw [hrp] at this; cases this

theorem ctxRecv_inv3 (s : State) (k a : Nat) (mode : Mode) (h : Inv3 s) : Inv3 (ctxRecv s k a mode).1 := by
  unfold ctxRecv
  split
  · rename_i hrp
    split
    · exact h
    · exact h
    · split
      · exact h
      · dsimp only
        constructor
        · exact h.D
        · exact h.DB
        · exact h.HP
        · exact h.HB
        · exact h.DH
        · intro _; exact hrp
        · intro k' hk'
          show k' ∈ s.recvq ++ [k]
          rw [setCtx_ctx, upd_apply] at hk'
          by_cases hkk : k' = k
          · subst hkk; simp
          · rw [if_neg hkk] at hk'
            exact List.mem_append_left _ (h.RQ k' hk')
  · rename_i r rest hrp
    dsimp only
    have hsub : rest.Sublist s.recvpipes := by rw [hrp]; exact List.sublist_cons_self r rest
    have h1 := inv3_sub_recvpipes s rest hsub h
    have hmem : r ∈ s.recvpipes := by rw [hrp]; exact List.mem_cons_self
    have hP := h.HP
    rw [hrp, List.pairwise_cons] at hP
    apply deliver_inv3
    · split
      · exact inv3_same (s := { s with recvpipes := rest }) rfl rfl rfl rfl rfl h1
      · exact h1
    · intro d hd
      have hd' : d ∈ s.delivered := by
        revert hd; split <;> exact id
      exact h.DH d hd' r hmem
    · have : r.gid < s.narrive := h.HB r hmem
      revert this; split <;> exact id
    · intro r' hr'
      have hr'' : r' ∈ rest := by
        revert hr'; split <;> exact id
      exact hP.1 r' hr''

/-! #### ctxSend / pipeSent: receive side untouched -/
theorem ctxSend_inv3 (s : State) (k a : Nat) (m : WMsg) (mode : Mode) (h : Inv3 s) : Inv3 (ctxSend s k a m mode).1 := by
  have h2 : Inv3 (if (k == 0) = true then setW (setCtx s k { s.ctx k with btrace := [], pipeId := none }) false
                  else setCtx s k { s.ctx k with btrace := [], pipeId := none }) := by
    have hc := inv3_setCtx s k { s.ctx k with btrace := [], pipeId := none } rfl h
    split
    · exact inv3_same (s := setCtx s k _) rfl rfl rfl rfl rfl hc
    · exact hc
  unfold ctxSend
  dsimp only
  split
  · exact h
  · generalize (if (k == 0) = true then setW (setCtx s k { s.ctx k with btrace := [], pipeId := none }) false
                  else setCtx s k { s.ctx k with btrace := [], pipeId := none }) = s2 at h2 ⊢
    split
    · exact h2
    · split
      · exact h2
      · rename_i p _
        split
        · exact inv3_same (s := s2) rfl rfl rfl rfl rfl h2
        · split
          · have h3 : Inv3 (setPipe s2 p { s2.pipe p with busy := true }) := inv3_setPipe s2 p _ h2
            generalize setPipe s2 p { s2.pipe p with busy := true } = s3 at h3 ⊢
            have h4 : Inv3 (if ((s3.ctx 0).pipeId == some p) = true then setW s3 false else s3) := by
              split
              · exact inv3_same (s := s3) rfl rfl rfl rfl rfl h3
              · exact h3
            exact inv3_same (s := if ((s3.ctx 0).pipeId == some p) = true then setW s3 false else s3) rfl rfl rfl rfl rfl h4
          · split
            · exact h2
            · exact h2
            · dsimp only
              apply inv3_setPipe
              apply inv3_setCtx
              · rfl
              exact h2

theorem pipeSent_inv3 (s : State) (p : Nat) (h : Inv3 s) : Inv3 (pipeSent s p).1 := by
  unfold pipeSent
  dsimp only
  split
  · dsimp only
    have h1 : Inv3 (setPipe s p { s.pipe p with busy := false }) := inv3_setPipe s p _ h
    split
    · exact inv3_same (s := setPipe s p _) rfl rfl rfl rfl rfl h1
    · exact h1
  · rename_i e rest _
    refine inv3_same (s := setCtx (setPipe s p { s.pipe p with busy := true, sendq := rest }) e.ctx _) rfl rfl rfl rfl rfl ?_
    apply inv3_setCtx
    · rfl
    exact inv3_setPipe s p _ h

/-! #### cancel functions, context close -/
theorem inv3_unpark (s : State) (k : Nat) (h : Inv3 s) :
    Inv3 { setCtx s k { s.ctx k with raio := none } with recvq := (setCtx s k { s.ctx k with raio := none }).recvq.filter (· != k) } := by
  constructor
  · exact h.D
  · exact h.DB
  · exact h.HP
  · exact h.HB
  · exact h.DH
  · intro hne
    apply h.Q
    intro he
    apply hne
    show List.filter _ s.recvq = []
    rw [he]; rfl
  · intro k' hk'
    show k' ∈ List.filter (· != k) s.recvq
    have hk'' : ((upd s.ctx k { s.ctx k with raio := none }) k').raio.isSome = true := hk'
    rw [upd_apply] at hk''
    by_cases hkk : k' = k
    · rw [if_pos hkk] at hk''; simp at hk''
    · rw [if_neg hkk] at hk''
      rw [List.mem_filter]
      exact ⟨h.RQ k' hk'', by simp [hkk]⟩

theorem failAio_inv3 (s : State) (a rv : Nat) (h : Inv3 s) : Inv3 (failAio s a rv).1 := by
  unfold failAio
  split
  · rename_i k _
    dsimp only
    exact inv3_unpark s k h
  · split
    · rename_i k _
      dsimp only
      apply inv3_setCtx
      · rfl
      split
      · exact inv3_setPipe s _ _ h
      · exact h
    · exact h

theorem foldl_pres' (P : State → Prop) (f : State → Nat → State × List Out) (hf : ∀ s k, P s → P (f s k).1)
    (ks : List Nat) : ∀ (s : State) (o : List Out), P s →
    P (ks.foldl (fun (acc : State × List Out) k =>
      let (s', o) := f acc.1 k
      (s', acc.2 ++ o)) (s, o)).1 := by
  induction ks with
  | nil => intro s o h; exact h
  | cons k ks ih =>
    intro s o h
    rw [List.foldl_cons]
    exact ih _ _ (hf s k h)

theorem expire_inv3 (s : State) (h : Inv3 s) : Inv3 (expire s).1 := by
  unfold expire failAll
  exact foldl_pres' Inv3 (fun s a => failAio s a Err.etimedout) (fun s a h => failAio_inv3 s a _ h) _ s [] h

theorem ctxCloseParked_inv3 (s : State) (k : Nat) (h : Inv3 s) : Inv3 (ctxCloseParked s k).1 := by
  have h1 : Inv3 (ctxCloseSend s k).1 := by
    unfold ctxCloseSend
    split
    · dsimp only
      apply inv3_setCtx
      · rfl
      split
      · exact inv3_setPipe s _ _ h
      · exact h
    · exact h
  have h2 : Inv3 (ctxCloseRecv (ctxCloseSend s k).1 k).1 := by
    generalize (ctxCloseSend s k).1 = s1 at h1 ⊢
    unfold ctxCloseRecv
    split
    · dsimp only
      exact inv3_unpark s1 k h1
    · exact h1
  unfold ctxCloseParked
  dsimp only
  apply inv3_setCtx
  · rfl
  exact h2

theorem closeAll_inv1'' (P : State → Prop) (f : State → Nat → State × List Out) (hf : ∀ s k, P s → P (f s k).1)
    (ks : List Nat) (s : State) (h : P s) : P (closeAll s ks f).1 := foldl_pres' P f hf ks s [] h

/-! #### step -/
theorem step_inv3 (s : State) (ev : Ev) (h : Inv3 s) : Inv3 (step s ev).1 := by
  unfold step
  split
  · split
    · -- open: a fresh s->ctx has no receive pending
      have h1 : Inv3 (setW { s with opened := true } false) := inv3_same (s := s) rfl rfl rfl rfl rfl h
      constructor
      · exact h1.D
      · exact h1.DB
      · exact h1.HP
      · exact h1.HB
      · exact h1.DH
      · exact h1.Q
      · intro k hk
        rw [setCtx_ctx, upd_apply] at hk
        by_cases hk0 : k = 0
        · rw [if_pos hk0] at hk; simp at hk
        · rw [if_neg hk0] at hk; exact h1.RQ k hk
    · exact inv3_same (s := s) rfl rfl rfl rfl rfl h
    · exact h
  · split
    · split
      · exact inv3_same (s := s) rfl rfl rfl rfl rfl h
      · exact h
    · split
      · exact h
      · dsimp only
        have h1 : Inv3 (addPipeSlot s) := inv3_same (s := s) rfl rfl rfl rfl rfl h
        split
        · exact inv3_setPipe _ _ _ h1
        · exact inv3_setPipe _ _ _ h1
      · split
        · exact closePipe_inv3 s _ h
        · exact h
      · split
        · exact h
        · split
          · exact closePipe_inv3 s _ h
          · exact pipeSent_inv3 s _ h
      · split
        · exact h
        · split
          · exact closePipe_inv3 s _ h
          · exact pipeRecv_inv3 s _ _ h
      · split
        · exact h
        · split
          · exact h
          · exact ctxSend_inv3 s _ _ _ _ h
      · split
        · exact h
        · split
          · exact h
          · exact ctxRecv_inv3 s _ _ _ h
      · exact failAio_inv3 s _ _ h
      · exact failAio_inv3 s _ _ h
      · exact expire_inv3 _ (inv3_same (s := s) rfl rfl rfl rfl rfl h)
      · rename_i c
        split
        · exact h
        · have h1 : Inv3 (allocCtx s c) := inv3_same (s := s) rfl rfl rfl rfl rfl h
          constructor
          · exact h1.D
          · exact h1.DB
          · exact h1.HP
          · exact h1.HB
          · exact h1.DH
          · exact h1.Q
          · intro k hk
            rw [setCtx_ctx, upd_apply] at hk
            by_cases hkk : k = s.nctx
            · rw [if_pos hkk] at hk; simp at hk
            · rw [if_neg hkk] at hk; exact h1.RQ k hk
      · split
        · exact h
        · split
          · exact h
          · exact inv3_same (s := (ctxCloseParked s _).1) rfl rfl rfl rfl rfl (ctxCloseParked_inv3 s _ h)
      · split
        · exact h
        · exact inv3_same (s := s) rfl rfl rfl rfl rfl h
      · exact h
      · exact h
      · exact h
      · exact h
      · exact h
      · exact h
      · dsimp only
        have finish : ∀ s3, Inv3 s3 → Inv3 (finishClose s3) := by
          intro s3 h3
          constructor
          · exact h3.D
          · exact h3.DB
          · exact List.Pairwise.nil
          · intro r hr; cases hr
          · intro d _ r hr; cases hr
          · intro _; rfl
          · exact h3.RQ
        apply finish
        apply closeAll_inv1'' Inv3 ctxCloseParked ctxCloseParked_inv3
        apply closeAll_inv1'' Inv3 closePipe closePipe_inv3
        apply closeAll_inv1'' Inv3 ctxCloseParked ctxCloseParked_inv3
        exact h

theorem run_inv3 (evs : List Ev) : ∀ s, Inv3 s → Inv3 (run s evs).1 := by
  induction evs with
  | nil => intro s h; exact h
  | cons e es ih =>
    intro s h
    exact ih _ (step_inv3 s e h)

end Nng.RepProofs
