/-
  Readiness of the socket-level queues of the raw SURVEYOR / RESPONDENT models (the poll flags),
  and what sock_getq_cb puts on which wire.
-/
import NngModel.Proofs.RawSurvKinds
namespace Nng.RawSurv
open Nng Nng.Proto Nng.RawMq

/-- what a non-blocking receive does, by what the upper read queue owes -/
theorem nb_recv_cases {k : Kind} {sel : Sel} (s : State) (a : Nat) (h : Inv k sel s) :
    (recvable s.urq = false ∧ (sockRecv s a .nb).2 = [Out.done a Err.eagain none false]) ∨
    (recvable s.urq = true ∧ ∃ m rest, pending s.urq = m :: rest ∧
      ((sockRecv s a .nb).2 = [Out.done a 0 (some m) false] ∨ ∃ p, (sockRecv s a .nb).2 = [Out.done a 0 (some m) false, Out.parm p])) := by
  have hu := h.core.urq
  unfold sockRecv
  cases hgq : s.urq.getq with
  | cons r rs =>
    obtain ⟨hi, hq⟩ := hu.rd (by rw [hgq]; simp)
    left
    refine ⟨by simp [recvable, hi, hq], ?_⟩
    rw [if_pos (by simp [mustWaitGet, hgq, zeroRv])]
    rfl
  | nil =>
    cases hi : s.urq.items with
    | cons m ms =>
      right
      refine ⟨by simp [recvable, hi], m, ms ++ s.urq.putq.map (·.msg), by simp [pending, hi], Or.inl ?_⟩
      rw [if_neg (by simp [mustWaitGet, hgq, hi])]
      rw [aioGet_noreader _ _ hgq]
      simp only [hi, applyEvents_one]
      rfl
    | nil =>
      cases hq : s.urq.putq with
      | cons w ws =>
        right
        refine ⟨by simp [recvable, hq], w.msg, ws.map (·.msg), by simp [pending, hi, hq], Or.inr ⟨w.tag, ?_⟩⟩
        rw [if_neg (by simp [mustWaitGet, hgq, hi, hq])]
        rw [aioGet_noreader _ _ hgq]
        simp only [hi, hq, applyEvents_one, urqEvent_handed]
      | nil =>
        left
        refine ⟨by simp [recvable, hi, hq], ?_⟩
        rw [if_pos (by simp [mustWaitGet, hgq, hi, hq, zeroRv])]
        rfl

/-- every send on an open socket is taken by the socket's reader at once, in every mode -/
theorem send_completes {k : Kind} {sel : Sel} (s : State) (a : Nat) (m : WMsg) (mode : Mode) (h : Inv k sel s)
    (ho : s.opened = true) (hc : s.closed = false) :
    sendable s.uwq = true ∧ (sockSend k s a m mode).2 = [Out.done a 0 none false] ++ (k.route s.pipes m).2 ∧
    (sockSend k s a m mode).1.pipes = (k.route s.pipes m).1 ∧ (sockSend k s a m mode).1.sent = s.sent ++ [m] := by
  have hg := h.uwq.rdr ho hc
  refine ⟨by simp [sendable, hg, h.uwq.putq], ?_⟩
  unfold sockSend
  rw [if_neg (by simp [mustWaitPut, hg, h.uwq.putq])]
  rw [aioPut_reader s.uwq _ ⟨0, none⟩ [] hg h.uwq.putq]
  simp only []
  have e : aioGet ({ s.uwq with putq := [], getq := [] } : Mq) ⟨0, none⟩ =
      ({ s.uwq with putq := [], getq := [⟨0, none⟩] }, []) := by
    rw [aioGet_noreader _ _ rfl]
    simp only [h.uwq.items]
  rw [e]
  simp only [List.isEmpty_nil, if_true, and_self]

theorem offer_out (i : Nat) (pp : Pipe) (m : WMsg) : ∀ o ∈ (offer i pp m).2, o = Out.psend i m ∧ pp.closed = false := by
  intro o ho
  unfold offer at ho
  by_cases hc : pp.closed = true
  · rw [if_pos hc] at ho; cases ho
  · rw [if_neg hc] at ho
    split at ho
    · cases ho
    · simp only [List.mem_singleton] at ho; exact ⟨ho, by simpa using hc⟩
    · cases ho

end Nng.RawSurv

namespace Nng.Xsurvey
open Nng Nng.Proto Nng.RawMq Nng.RawSurv

/-- fan-out: whatever the surveyor's sock_getq_cb hands to a transport is the message itself, on a listed (open) pipe -/
theorem fanout_out (m : WMsg) : ∀ (ps : List Pipe) (i0 : Nat), ∀ o ∈ (fanout m i0 ps).2,
    ∃ j pp, ps[j]? = some pp ∧ pp.closed = false ∧ o = Out.psend (i0 + j) m := by
  intro ps
  induction ps with
  | nil => intro i0 o ho; simp [fanout] at ho
  | cons pp rest ih =>
    intro i0 o ho
    simp only [fanout, List.mem_append] at ho
    rcases ho with ho | ho
    · obtain ⟨e, hc⟩ := offer_out i0 pp m o ho
      exact ⟨0, pp, rfl, hc, by simpa using e⟩
    · obtain ⟨j, q, hj, hc, e⟩ := ih (i0 + 1) o ho
      exact ⟨j + 1, q, by simpa using hj, hc, by rw [e]; congr 1; omega⟩

/-- fan-out, pipe by pipe: pipe `i` of the list becomes `offer i pp m` (unchanged if closed) -/
theorem fanout_at (m : WMsg) : ∀ (ps : List Pipe) (i0 j : Nat) (pp : Pipe), ps[j]? = some pp →
    (fanout m i0 ps).1[j]? = some (offer (i0 + j) pp m).1 := by
  intro ps
  induction ps with
  | nil => intro i0 j pp h; simp at h
  | cons q rest ih =>
    intro i0 j pp h
    simp only [fanout]
    cases j with
    | zero => simp only [List.getElem?_cons_zero, Option.some.injEq] at h ⊢; subst h; rfl
    | succ j =>
      simp only [List.getElem?_cons_succ] at h ⊢
      rw [ih (i0 + 1) j pp h]
      congr 3; omega

end Nng.Xsurvey

namespace Nng.Xrespond
open Nng Nng.Proto Nng.RawMq Nng.RawSurv

/-- routing: a header shorter than one word, the id 0, an id no listed pipe has, or a closed
    pipe ⇒ the message is freed: no pipe changes, nothing reaches a wire -/
theorem route_discards (ps : List Pipe) (m : WMsg)
    (h : m.hdr.length < 4 ∨ beDecode (m.hdr.take 4) = 0 ∨ ps[beDecode (m.hdr.take 4) - 1]? = none ∨
      ∃ pp, ps[beDecode (m.hdr.take 4) - 1]? = some pp ∧ pp.closed = true) : route ps m = (ps, []) := by
  unfold route Bt.xrespondSend
  by_cases hl : m.hdr.length < 4
  · rw [if_pos hl]
  · rw [if_neg hl]
    simp only []
    rcases h with h | h | h | ⟨pp, h, hc⟩
    · exact absurd h hl
    · rw [if_pos (by simp [h])]
    · by_cases h0 : (beDecode (m.hdr.take 4) == 0) = true
      · rw [if_pos h0]
      · rw [if_neg h0, h]
    · by_cases h0 : (beDecode (m.hdr.take 4) == 0) = true
      · rw [if_pos h0]
      · rw [if_neg h0, h]; simp only []; rw [if_pos hc]

/-- routing: otherwise exactly the pipe named by the first header word is offered the message with
    that word popped; all other pipes are untouched, and a transfer can start only on that pipe -/
theorem route_named (ps : List Pipe) (m : WMsg) (pp : Pipe) (hl : ¬ m.hdr.length < 4) (h0 : beDecode (m.hdr.take 4) ≠ 0)
    (hg : ps[beDecode (m.hdr.take 4) - 1]? = some pp) (hc : pp.closed = false) :
    route ps m = (ps.set (beDecode (m.hdr.take 4) - 1) (offer (beDecode (m.hdr.take 4) - 1) pp ⟨m.hdr.drop 4, m.body⟩).1,
                  (offer (beDecode (m.hdr.take 4) - 1) pp ⟨m.hdr.drop 4, m.body⟩).2) := by
  unfold route Bt.xrespondSend
  rw [if_neg hl]
  simp only []
  rw [if_neg (by simpa using h0), hg]
  simp only []
  rw [if_neg (by simp [hc])]

theorem route_out (ps : List Pipe) (m : WMsg) : ∀ o ∈ (route ps m).2,
    ¬ m.hdr.length < 4 ∧ o = Out.psend (beDecode (m.hdr.take 4) - 1) ⟨m.hdr.drop 4, m.body⟩ ∧
    pipeId (beDecode (m.hdr.take 4) - 1) = beDecode (m.hdr.take 4) := by
  intro o ho
  by_cases hl : m.hdr.length < 4
  · rw [route_discards ps m (Or.inl hl)] at ho; cases ho
  · by_cases h0 : beDecode (m.hdr.take 4) = 0
    · rw [route_discards ps m (Or.inr (Or.inl h0))] at ho; cases ho
    · cases hg : ps[beDecode (m.hdr.take 4) - 1]? with
      | none => rw [route_discards ps m (Or.inr (Or.inr (Or.inl hg)))] at ho; cases ho
      | some pp =>
        by_cases hc : pp.closed = true
        · rw [route_discards ps m (Or.inr (Or.inr (Or.inr ⟨pp, hg, hc⟩)))] at ho; cases ho
        · rw [route_named ps m pp hl h0 hg (by simpa using hc)] at ho
          exact ⟨hl, (offer_out _ _ _ o ho).1, by unfold pipeId; omega⟩

end Nng.Xrespond
