/-
  C19 (b), (c): facts about what `parse` accepts — exact scheme followed by "://", port and
  host bounds, and where the components come from.
-/
import NngModel.Model.Url
import NngModel.Generated.C19
namespace Nng.UrlProofs
open Nng Nng.Url

/-! ### strncmp -/

theorem strncmpEq_take : ∀ (n : Nat) (a e : Bytes), (0 : UInt8) ∉ a → n ≤ a.length →
    strncmpEq a e n = true → e.take n = a.take n ∧ n ≤ e.length := by
  intro n
  induction n with
  | zero => intro a e _ _ _; simp
  | succ n ih =>
    intro a e hz hl h
    cases a with
    | nil => simp at hl
    | cons x a' =>
      have hx : x ≠ 0 := fun hx => hz (by simp [hx])
      cases e with
      | nil => simp [strncmpEq, hx] at h
      | cons y e' =>
        by_cases hxy : x = y
        · subst hxy
          simp [strncmpEq, hx] at h
          have := ih a' e' (fun hm => hz (List.mem_cons_of_mem _ hm)) (by simpa using hl) h
          simp [this.1]; omega
        · simp [strncmpEq, hxy] at h

theorem schemeLen_le (raw : Bytes) : schemeLen raw ≤ raw.length := by
  induction raw with
  | nil => simp [schemeLen]
  | cons c r ih => simp only [schemeLen]; split <;> simp <;> omega

theorem schemeLen_no_colon (raw : Bytes) : COLON ∉ raw.take (schemeLen raw) := by
  induction raw with
  | nil => simp [schemeLen]
  | cons c r ih =>
    simp only [schemeLen]
    by_cases h : c = COLON
    · rw [if_pos h]; simp
    · rw [if_neg h]; simp only [List.take_succ_cons, List.mem_cons, not_or]
      exact ⟨fun hc => h hc.symm, ih⟩

/-- `strncmp(s, "://", 3) == 0` means s starts with "://" -/
theorem strncmp_sep (s : Bytes) (h : strncmpEq s sep 3 = true) : ∃ rest, s = sep ++ rest := by
  match s, h with
  | [], h => simp [strncmpEq, sep, COLON, SLASH] at h
  | [a], h => simp [strncmpEq, sep, COLON, SLASH] at h; rcases h with ⟨rfl, h | h⟩ <;> simp at h
  | [a, b], h => simp [strncmpEq, sep, COLON, SLASH] at h; rcases h with ⟨rfl, h | ⟨rfl, h | h⟩⟩ <;> simp at h
  | a :: b :: c :: rest, h =>
    refine ⟨rest, ?_⟩
    by_cases h1 : a = COLON
    · by_cases h2 : b = SLASH
      · by_cases h3 : c = SLASH
        · simp [sep, h1, h2, h3]
        · simp [strncmpEq, sep, COLON, SLASH, h1, h2, h3] at h
      · simp [strncmpEq, sep, COLON, SLASH, h1, h2] at h
    · simp [strncmpEq, sep, COLON, SLASH, h1] at h

/-- no table entry contains a NUL -/
theorem schemes_nul_free : ∀ e ∈ schemes, (0 : UInt8) ∉ e := by decide

theorem schemeMatches_eq (raw : Bytes) (hz : (0 : UInt8) ∉ raw) (e : Bytes) (he : (0 : UInt8) ∉ e)
    (h : schemeMatches raw (schemeLen raw) e = true) : e = raw.take (schemeLen raw) := by
  simp only [schemeMatches, Bool.and_eq_true, decide_eq_true_eq] at h
  obtain ⟨h1, h2⟩ := h
  obtain ⟨ht, hl⟩ := strncmpEq_take _ raw e hz (schemeLen_le raw) h1
  have hd : e.drop (schemeLen raw) = [] := by
    cases hdr : e.drop (schemeLen raw) with
    | nil => rfl
    | cons x t =>
      rw [hdr] at h2; simp at h2; subst h2
      exact absurd (List.mem_of_mem_drop (hdr ▸ List.mem_cons_self)) he
  have hlen : e.length ≤ schemeLen raw := by simpa using hd
  rw [← ht]; exact (List.take_of_length_le hlen).symm

/-! ### ports -/

theorem parsePort_le (p : Bytes) (v : Nat) (h : parsePort p = some v) : v ≤ 0xffff := by
  unfold parsePort at h
  split at h
  · cases h
  · split at h
    · split at h
      · rename_i hc; injection h with h; subst h; simp at hc; exact hc.2
      · cases h
    · cases h

theorem defaultPortIn_mem (tbl : List (Bytes × Nat)) (s : Bytes) :
    defaultPortIn tbl s = 0 ∨ ∃ e ∈ tbl, e.2 = defaultPortIn tbl s := by
  induction tbl with
  | nil => left; rfl
  | cons e tbl ih =>
    obtain ⟨es, ep⟩ := e
    simp only [defaultPortIn]
    split
    · rcases ih with h | ⟨e, he, h⟩
      · left; exact h
      · right; exact ⟨e, List.mem_cons_of_mem _ he, h⟩
    · split
      · right; exact ⟨(es, ep), List.mem_cons_self, rfl⟩
      · split
        · right; exact ⟨(es, ep), List.mem_cons_self, rfl⟩
        · rcases ih with h | ⟨e, he, h⟩
          · left; exact h
          · right; exact ⟨e, List.mem_cons_of_mem _ he, h⟩

theorem defaultPorts_le : ∀ e ∈ defaultPorts, e.2 ≤ 0xffff := by decide

theorem defaultPort_le (s : Bytes) : defaultPort s ≤ 0xffff := by
  unfold defaultPort
  rcases defaultPortIn_mem defaultPorts s with h | ⟨e, he, h⟩
  · omega
  · rw [← h]; exact defaultPorts_le e he

/-! ### parseAuthority -/

/-- what an accepted authority-form URL is made of -/
structure AuthFacts (scheme : Bytes) (bufsz : Nat) (p : Bytes) (u : Url) : Prop where
  scheme : u.scheme = scheme
  bufsz : u.bufsz = bufsz
  port : u.port ≤ 0xffff
  host : ∃ name, u.hostname = some name ∧ name.length < Generated.urlHostMax
  canon : ∃ c, canonify (p.dropWhile (fun c => !isAuthEnd c)) = some c ∧
    splitPQF c = (u.path, u.query, u.fragment)

theorem finishParse_ok (scheme : Bytes) (bufsz : Nat) (ui : Option Bytes) (host c : Bytes) (u : Url) (rv : Nat)
    (h : finishParse scheme bufsz ui host c = ⟨rv, some u⟩) :
    rv = 0 ∧ u.scheme = scheme ∧ u.bufsz = bufsz ∧ u.port ≤ 0xffff ∧
    (∃ name, u.hostname = some name ∧ name.length < Generated.urlHostMax) ∧
    splitPQF c = (u.path, u.query, u.fragment) ∧ u.userinfo = ui := by
  unfold finishParse at h
  simp only [fail] at h
  split at h
  · cases h
  · rename_i name portText hsp
    split at h
    · cases h
    · rename_i hlen
      split at h
      · rename_i pt
        split at h
        · cases h
        · split at h
          · cases h
          · rename_i port hport
            injection h with h1 h2; injection h2 with h2; subst h2
            exact ⟨h1.symm, rfl, rfl, parsePort_le _ _ hport, ⟨name, rfl, by simpa using hlen⟩, rfl, rfl⟩
      · injection h with h1 h2; injection h2 with h2; subst h2
        exact ⟨h1.symm, rfl, rfl, defaultPort_le _, ⟨name, rfl, by simpa using hlen⟩, rfl, rfl⟩

theorem parseAuthority_ok (scheme : Bytes) (bufsz : Nat) (p : Bytes) (u : Url) (rv : Nat)
    (h : parseAuthority scheme bufsz p = ⟨rv, some u⟩) : rv = 0 ∧ AuthFacts scheme bufsz p u := by
  unfold parseAuthority at h
  simp only [fail] at h
  split at h
  · cases h
  · split at h
    · cases h
    · rename_i c hc
      obtain ⟨h0, h1, h2, h3, h4, h5, _⟩ := finishParse_ok _ _ _ _ _ _ _ h
      exact ⟨h0, ⟨h1, h2, h3, h4, ⟨c, hc, h5⟩⟩⟩

/-! ### parse -/

/-- the shape of every accepted input -/
theorem parse_ok (raw : Bytes) (hz : (0 : UInt8) ∉ raw) (u : Url) (rv : Nat)
    (h : parse raw = ⟨rv, some u⟩) :
    rv = 0 ∧ u.scheme ∈ schemes ∧ ∃ rest, raw = u.scheme ++ sep ++ rest ∧
      u.bufsz = (if (sep ++ rest).length ≥ Generated.urlInlineSize then (sep ++ rest).length + 1 else 0) ∧
      ((specialSchemes.contains u.scheme = true ∧
          u = ⟨u.scheme, none, none, 0, rest, none, none, u.bufsz⟩) ∨
       (specialSchemes.contains u.scheme = false ∧ AuthFacts u.scheme u.bufsz rest u)) := by
  unfold parse at h
  simp only [fail] at h
  split at h
  · cases h
  · rename_i hsep
    simp only [Bool.not_eq_true] at hsep
    obtain ⟨rest, hrest⟩ := strncmp_sep _ (by simpa using hsep)
    split at h
    · cases h
    · rename_i scheme hlk
      have hmem : scheme ∈ schemes := List.mem_of_find?_eq_some hlk
      have hm : schemeMatches raw (schemeLen raw) scheme = true := List.find?_some hlk
      have heq := schemeMatches_eq raw hz scheme (schemes_nul_free scheme hmem) hm
      have hraw : raw = scheme ++ sep ++ rest := by
        rw [List.append_assoc, ← hrest, heq]; exact (List.take_append_drop _ _).symm
      have hd3 : (raw.drop (schemeLen raw)).drop 3 = rest := by rw [hrest]; simp [sep]
      rw [hd3, hrest] at h
      split at h
      · rename_i hsp
        injection h with h1 h2; injection h2 with h2; subst h2
        exact ⟨h1.symm, hmem, rest, hraw, rfl, Or.inl ⟨hsp, rfl⟩⟩
      · rename_i hsp
        obtain ⟨h0, hf⟩ := parseAuthority_ok _ _ _ _ _ h
        have hs := hf.scheme; have hb := hf.bufsz
        refine ⟨h0, hs ▸ hmem, rest, hs ▸ hraw, hb, Or.inr ⟨?_, ?_⟩⟩
        · rw [hs]; simpa using hsp
        · rw [hs, hb]; exact hf

end Nng.UrlProofs
