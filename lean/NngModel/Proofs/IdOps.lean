/- the id map operations on a well-formed table: id_resize, nni_id_set, nni_id_remove, nni_id_alloc
   in terms of the content relation `Has` -/
import NngModel.Proofs.IdResize
import NngModel.Generated.C18
namespace Nng.IdHash

/-- well-formed id map: open-addressing invariant + capacity/limit bookkeeping -/
structure TabWF (m : IdMap) (dist : Nat → Nat) : Prop where
  raw : RawWF m.entries m.cap dist m.load m.count
  capz : m.cap = 0 → m.maxLoad = 0
  capp : 0 < m.cap → (∃ n, 3 ≤ n ∧ m.cap = 2 ^ n) ∧
    m.maxLoad = (if m.cap > minCap then m.cap * Nng.Generated.c18IdMaxLoadNum / Nng.Generated.c18IdMaxLoadDen
                 else Nng.Generated.c18IdSmallMaxLoad) ∧ m.count < m.cap

theorem pow_ge_8 {n : Nat} (h : 3 ≤ n) : 8 ≤ 2 ^ n := by
  have : 2 ^ 3 ≤ 2 ^ n := Nat.pow_le_pow_right (by omega) h
  simpa using this

theorem ent_replicate (n i : Nat) : ent (List.replicate n (⟨0, 0, 0⟩ : Entry)) i = ⟨0, 0, 0⟩ := by
  unfold ent
  rw [List.getElem?_replicate]
  by_cases h : i < n
  · simp [h]
  · simp [h]; rfl

theorem rawWF_fresh (n : Nat) : RawWF (List.replicate n (⟨0, 0, 0⟩ : Entry)) n (fun _ => 0) 0 0 := by
  refine ⟨by simp, ?_, ?_, ?_, ?_, ?_, ?_, ?_⟩
  · intro s hs; rw [ent_replicate] at hs; exact absurd rfl hs
  · intro s hs; rw [ent_replicate] at hs; exact absurd rfl hs
  · intro s hs; rw [ent_replicate] at hs; exact absurd rfl hs
  · intro t
    rw [ent_replicate, sumTo_zero]
    intro i _; unfold fSk; rw [ent_replicate]; simp
  · rw [sumTo_zero]; intro i _; unfold fLd; rw [ent_replicate]; simp
  · rw [sumTo_zero]; intro i _; unfold fCt; rw [ent_replicate]; simp
  · intro s s' hs; rw [ent_replicate] at hs; exact absurd rfl hs

theorem mapInit_tabWF (lo hi : Nat) (random : Bool) : TabWF (mapInit lo hi random) (fun _ => 0) := by
  refine ⟨?_, fun _ => rfl, fun h => absurd h (by simp [mapInit])⟩
  have := rawWF_fresh 0
  simpa [mapInit] using this

theorem not_has_init (lo hi : Nat) (random : Bool) (k v : Nat) : ¬ Has (mapInit lo hi random).entries k v := by
  rintro ⟨t, _, hv, hv0⟩
  have : ent (mapInit lo hi random).entries t = default := ent_out (by simp [mapInit])
  rw [this] at hv
  exact hv0 hv.symm

/-- id_resize: never loses or changes an entry; afterwards (if it did not fail) there is room for one
    more key; it fails only when the allocator fails, leaving the map untouched -/
theorem idResize_spec {m : IdMap} {dist : Nat → Nat} (wf : TabWF m dist) (hp : ∀ n, 3 ≤ n → ProbeCovers (2 ^ n))
    (ok : Bool) :
    (idResize m ok).2.2 = true ∧
    (∃ dist', TabWF (idResize m ok).1 dist') ∧
    (∀ k v, Has (idResize m ok).1.entries k v ↔ Has m.entries k v) ∧
    (idResize m ok).1.count = m.count ∧
    (((idResize m ok).2.1 = 0 ∧ 0 < (idResize m ok).1.cap ∧ m.count + 1 < (idResize m ok).1.cap) ∨
     (ok = false ∧ (idResize m ok).2.1 = Err.enomem ∧ (idResize m ok).1 = m)) := by
  obtain ⟨nc2, nc1, n, hn3, hn⟩ := newCap_spec m.count
  have hn8 := pow_ge_8 hn3
  by_cases h1 : m.load < m.maxLoad ∧ m.load ≥ m.minLoad
  · have e : idResize m ok = (m, 0, true) := by simp only [idResize, if_pos h1]
    rw [e]
    refine ⟨rfl, ⟨dist, wf⟩, fun _ _ => Iff.rfl, rfl, Or.inl ⟨rfl, ?_⟩⟩
    have hc : 0 < m.cap := by
      apply Classical.byContradiction
      intro hc
      have := wf.capz (by omega)
      omega
    obtain ⟨⟨n0, hn0, hcap⟩, hml, _⟩ := wf.capp hc
    have h8 : 8 ≤ m.cap := hcap ▸ pow_ge_8 hn0
    have hcl := wf.raw.cnt_le_load
    refine ⟨hc, ?_⟩
    show m.count + 1 < m.cap
    have e1 : minCap = 8 := rfl
    have e2 : Nng.Generated.c18IdMaxLoadNum = 2 := rfl
    have e3 : Nng.Generated.c18IdMaxLoadDen = 3 := rfl
    have e4 : Nng.Generated.c18IdSmallMaxLoad = 5 := rfl
    rw [e1, e2, e3, e4] at hml
    by_cases hbig : m.cap > 8
    · rw [if_pos hbig] at hml; omega
    · rw [if_neg hbig] at hml; omega
  · by_cases h2 : (capLoop m.count m.count minCap).1 = m.cap
    · have e : idResize m ok = (m, 0, (capLoop m.count m.count minCap).2) := by
        simp only [idResize, if_neg h1, if_pos h2]
      rw [e]
      refine ⟨nc2, ⟨dist, wf⟩, fun _ _ => Iff.rfl, rfl, Or.inl ⟨rfl, ?_⟩⟩
      show 0 < m.cap ∧ m.count + 1 < m.cap
      omega
    · cases ok with
      | false =>
        have e : idResize m false = (m, Err.enomem, (capLoop m.count m.count minCap).2) := by
          simp only [idResize, if_neg h1, if_neg h2, Bool.not_false, if_true]
        rw [e]
        exact ⟨nc2, ⟨dist, wf⟩, fun _ _ => Iff.rfl, rfl, Or.inr ⟨rfl, rfl, rfl⟩⟩
      | true =>
        have hcap : 0 < (capLoop m.count m.count minCap).1 := by omega
        have hlive : liveIn m.entries (List.range m.cap) = m.count := by
          rw [liveIn_range, ← wf.raw.cnt]
        obtain ⟨dist', a, b, c⟩ := rehashAll_spec m.entries (capLoop m.count m.count minCap).1 (hn ▸ hp n hn3) hcap
          wf.raw.distinct (List.range m.cap) (List.replicate (capLoop m.count m.count minCap).1 ⟨0, 0, 0⟩) (fun _ => 0) 0 0
          List.nodup_range (fun i hi => by rw [wf.raw.len]; exact List.mem_range.mp hi) (rawWF_fresh _)
          (by rw [hlive]; omega)
          (fun i _ _ t ht => by rw [ent_replicate] at ht; exact ht.2 rfl)
        rw [hlive, Nat.zero_add] at a
        simp only [idResize, if_neg h1, if_neg h2, Bool.not_true, Bool.false_eq_true, if_false]
        generalize rehashAll m.entries (capLoop m.count m.count minCap).1 (List.range m.cap)
          (List.replicate (capLoop m.count m.count minCap).1 ⟨0, 0, 0⟩) 0 true = x at a b c
        refine ⟨by simp [nc2, b], ⟨dist', ⟨a, fun h0 => by have h0' : (capLoop m.count m.count minCap).1 = 0 := h0; omega, fun _ => ⟨⟨n, hn3, hn⟩, rfl, by show m.count < (capLoop m.count m.count minCap).1; omega⟩⟩⟩,
          ?_, trivial, Or.inl ⟨trivial, hcap, by show m.count + 1 < (capLoop m.count m.count minCap).1; omega⟩⟩
        intro k v
        show Has x.1 k v ↔ _
        rw [c k v]
        constructor
        · rintro (⟨t, _, hw, hw0⟩ | ⟨i, _, hk, hw, hw0⟩)
          · rw [ent_replicate] at hw; exact absurd hw.symm hw0
          · exact ⟨i, hk, hw, hw0⟩
        · rintro ⟨i, hk, hw, hw0⟩
          refine Or.inr ⟨i, ?_, hk, hw, hw0⟩
          rw [List.mem_range, ← wf.raw.len]
          exact lt_of_val_ne_zero (by rw [hw]; exact hw0)

/-- nni_id_set with a non-NULL value: overwrite or insert; fails only when the allocator fails -/
theorem idSet_spec {m : IdMap} {dist : Nat → Nat} (wf : TabWF m dist) (hp : ∀ n, 3 ≤ n → ProbeCovers (2 ^ n))
    (k v : Nat) (hv : v ≠ 0) (ok : Bool) :
    (idSet m k v ok).2.2 = true ∧
    (∃ dist', TabWF (idSet m k v ok).1 dist') ∧
    (((idSet m k v ok).2.1 = 0 ∧
      (∀ k' w, Has (idSet m k v ok).1.entries k' w ↔ ((k' = k ∧ w = v) ∨ (k' ≠ k ∧ Has m.entries k' w))) ∧
      (((∃ w, Has m.entries k w) ∧ (idSet m k v ok).1.count = m.count) ∨
       ((¬ ∃ w, Has m.entries k w) ∧ (idSet m k v ok).1.count = m.count + 1))) ∨
     (ok = false ∧ (idSet m k v ok).2.1 = Err.enomem ∧ (idSet m k v ok).1 = m)) := by
  obtain ⟨rs, ⟨dist1, wf1⟩, rhas, rcnt, rr⟩ := idResize_spec wf hp ok
  rcases rr with ⟨rv0, hc, hroom⟩ | ⟨hok, rve, rm⟩
  · have hne : ¬ (idResize m ok).2.1 ≠ 0 := by omega
    obtain ⟨⟨n, hn3, hn⟩, hml, _⟩ := wf1.capp hc
    have hpc : ProbeCovers (idResize m ok).1.cap := hn ▸ hp n hn3
    obtain ⟨fs, ff⟩ := idFind_spec wf1.raw (fun _ => hpc) k
    unfold idSet
    simp only [if_neg hne]
    generalize idResize m ok = r at rs wf1 rhas rcnt rv0 hc hroom hne hn hml hpc fs ff
    rcases ff with ⟨t, hk, hvt, hft⟩ | ⟨habs, hfn⟩
    · -- overwrite
      have htl : t < r.1.entries.length := lt_of_val_ne_zero hvt
      simp only [hft, rdE_fst, rdE_snd, wrE_fst, wrE_snd, htl, decide_true, Bool.and_self, rs, fs]
      obtain ⟨wf2, cont⟩ := wf1.raw.overwrite hvt hv
      have hex : ∃ w, Has m.entries k w := ⟨(ent r.1.entries t).val, (rhas _ _).mp ⟨t, hk, rfl, hvt⟩⟩
      refine ⟨(by first | rfl | trivial), ⟨dist1, ⟨wf2, wf1.capz, wf1.capp⟩⟩, Or.inl ⟨(by first | rfl | trivial), ?_, Or.inl ⟨hex, rcnt⟩⟩⟩
      intro k' w
      show Has (r.1.entries.set t _) k' w ↔ _
      rw [has_overwrite hvt hv wf1.raw.distinct cont k' w, hk, rhas]
    · -- insert
      simp only [hfn, rs, fs, Bool.and_self, Bool.true_and]
      obtain ⟨dist2, t, wf2, s2, hfree, cont⟩ := wf1.raw.insert hpc hc (by omega) hv habs r.1.cap (Nat.le_refl _)
      have hins := has_insert hfree hv cont
      generalize setLoop r.1.cap k v r.1.cap r.1.entries (idIndex r.1.cap k) r.1.load true = x at wf2 s2 cont hins
      have hnex : ¬ ∃ w, Has m.entries k w := by
        rintro ⟨w, hw⟩
        obtain ⟨t', hk', hw', hw0⟩ := (rhas _ _).mpr hw
        exact habs t' ⟨hk', by rw [hw']; exact hw0⟩
      refine ⟨s2, ⟨dist2, ⟨wf2, fun h0 => by have : r.1.cap = 0 := h0; omega,
          fun _ => ⟨⟨n, hn3, hn⟩, hml, by show r.1.count + 1 < r.1.cap; omega⟩⟩⟩,
        Or.inl ⟨(by first | rfl | trivial), ?_, Or.inr ⟨hnex, by show r.1.count + 1 = _; omega⟩⟩⟩
      intro k' w
      show Has x.1 k' w ↔ _
      rw [hins k' w, rhas]
      constructor
      · rintro (h | h)
        · refine Or.inr ⟨?_, h⟩
          intro e; exact hnex ⟨w, e ▸ h⟩
        · exact Or.inl h
      · rintro (h | ⟨_, h⟩)
        · exact Or.inr h
        · exact Or.inl h
  · have hne : (idResize m ok).2.1 ≠ 0 := by rw [rve]; decide
    unfold idSet
    simp only [if_pos hne]
    exact ⟨rs, ⟨dist, wf⟩, Or.inr ⟨hok, (by first | rfl | trivial), (by first | rfl | trivial)⟩⟩

/-- nni_id_remove: NNG_ENOENT and no change for an absent key; otherwise the key (and only it)
    disappears; a failing shrink is ignored -/
theorem idRemove_spec {m : IdMap} {dist : Nat → Nat} (wf : TabWF m dist) (hp : ∀ n, 3 ≤ n → ProbeCovers (2 ^ n))
    (k : Nat) (ok : Bool) :
    (idRemove m k ok).2.2 = true ∧
    (∃ dist', TabWF (idRemove m k ok).1 dist') ∧
    (((∃ w, Has m.entries k w) ∧ (idRemove m k ok).2.1 = 0 ∧
      (∀ k' w, Has (idRemove m k ok).1.entries k' w ↔ (k' ≠ k ∧ Has m.entries k' w)) ∧
      (idRemove m k ok).1.count + 1 = m.count) ∨
     ((¬ ∃ w, Has m.entries k w) ∧ (idRemove m k ok).2.1 = Err.enoent ∧ (idRemove m k ok).1 = m)) := by
  have hpc : 0 < m.cap → ProbeCovers m.cap := by
    intro hc
    obtain ⟨⟨n, hn3, hn⟩, _, _⟩ := wf.capp hc
    exact hn ▸ hp n hn3
  obtain ⟨fs, ff⟩ := idFind_spec wf.raw hpc k
  unfold idRemove
  rcases ff with ⟨t, hk, hvt, hft⟩ | ⟨habs, hfn⟩
  · simp only [hft, fs, Bool.true_and]
    have hc : 0 < m.cap := by have := wf.raw.lt hvt; omega
    obtain ⟨wf2, s2, hcnt, cont⟩ := wf.raw.remove hvt m.cap (Nat.le_refl _)
    rw [hk] at wf2 s2 cont
    have hrem := has_remove hvt wf.raw.distinct cont
    generalize removeLoop m.cap t m.cap m.entries (idIndex m.cap k) m.load true = x at wf2 s2 cont hrem
    obtain ⟨cz, cp⟩ := (⟨wf.capz, wf.capp⟩ : _ ∧ _)
    have wf3 : TabWF { m with entries := x.1, load := x.2.1, count := m.count - 1 } dist :=
      ⟨wf2, cz, fun h => ⟨(cp h).1, (cp h).2.1, by have := (cp h).2.2; show m.count - 1 < m.cap; omega⟩⟩
    obtain ⟨rs, rwf, rhas, rcnt, _⟩ := idResize_spec wf3 hp ok
    have hex : ∃ w, Has m.entries k w := ⟨(ent m.entries t).val, t, hk, rfl, hvt⟩
    have hdec : decide (m.count > 0) = true := by simp; omega
    refine ⟨by simp only [s2, hdec, rs, Bool.and_self], rwf, Or.inl ⟨hex, (by first | rfl | trivial), ?_, ?_⟩⟩
    · intro k' w
      rw [rhas k' w]
      show Has x.1 k' w ↔ _
      rw [hrem k' w, hk]
      exact And.comm
    · rw [rcnt]; show m.count - 1 + 1 = m.count; omega
  · simp only [hfn]
    refine ⟨fs, ⟨dist, wf⟩, Or.inr ⟨?_, (by first | rfl | trivial), (by first | rfl | trivial)⟩⟩
    rintro ⟨w, t, hk, hw, hw0⟩
    exact habs t ⟨hk, by rw [hw]; exact hw0⟩

end Nng.IdHash
