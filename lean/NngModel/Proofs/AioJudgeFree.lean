/- after nng_aio_free has returned: the model can only let time pass and let the provider look for
   the aio in vain; the monitor accepts exactly that -/
import NngModel.Proofs.AioJudgeRel
namespace Nng.Aio
open Nng.AioSpec

variable {s s' : State} {g : G} {j : J}

theorem jfree_tick (h1 : j.err = none) (h2 : j.freeReturned = true) (d : Nat) :
    AioSpec.step j (.tick d) = { j with now := j.now + d } := by
  simp [AioSpec.step.eq_def, h1, h2]

theorem jfree_lost (h1 : j.err = none) (h2 : j.freeReturned = true) (rv : Nat) :
    AioSpec.step j (.provDone rv false) = j := by
  simp [AioSpec.step.eq_def, h1, h2]

set_option maxHeartbeats 1000000 in
theorem rel_freed (l : Label) (hR : Rf s j) (i1 : Inv1 s) (i3 : Inv3 s) (i4 : Inv4 s)
    (hc : okL s g l = true) (hs : step Cfg.fixed s l = some s') :
    Rf s' (judgeFrom j (obsCore s l)) ∧ retK s g l = 0 := by
  obtain ⟨e1, e2, e3, e4, e5⟩ := hR
  obtain ⟨q1, q2, q3, q4, q5, q6, q7, q8⟩ := i3.freedQ e3
  obtain ⟨z1, z2, z3, z4, z5, z6, z7, z8, z9, z10⟩ := busy_zero i1 q1
  have hst := i3.freedStop e3
  have hon := i3.noOnExp hst
  have hrets := i4.freedRets e3
  have hexp := i1.expPcIff.2 q6
  cases l with
  | tick d =>
    simp only [obsCore, obsOf, judgeFrom, List.append_nil, List.foldl, jfree_tick e1 e2]
    simp only [step] at hs
    cases hs
    exact ⟨⟨e1, e2, e3, e4, e5⟩, rfl⟩
  | complete rv =>
    have hpl : provLocked s = false := by simp [provLocked, q2, hrets]
    simp only [obsCore, obsOf, judgeFrom, List.append_nil, List.foldl, z5, jfree_lost e1 e2]
    simp only [step, hpl, z5, Bool.false_eq_true, ↓reduceIte] at hs
    cases hs
    exact ⟨⟨e1, e2, e3, e4, e5⟩, rfl⟩
  | peek => simp [okL, e3] at hc
  | setTimeout t => simp [step, e3] at hs
  | setExpire e => simp [step, e3] at hs
  | skipArm => simp [step, e3] at hs
  | subCall k f => simp [step, e3] at hs
  | prepare => simp [step, q2] at hs
  | begin => simp [step, q2] at hs
  | direct => simp [step, q2] at hs
  | subRet b v => simp [step, hrets] at hs
  | finish => simp [step, z6] at hs
  | abortCall rv => simp [step, e3] at hs
  | abortSec rv => simp [step, q3] at hs
  | closeCall => simp [step, e3] at hs
  | closeSec => simp [step, q5] at hs
  | callCancel p rv => simp [step, q4] at hs
  | stopCall f => simp [step, e3] at hs
  | stopMark => simp [step, e4] at hs
  | stopTake => simp [step, e4] at hs
  | stopCancel => simp [step, e4] at hs
  | stopWait => simp [step, e4] at hs
  | stopRet => simp [step, e4] at hs
  | expScan =>
    simp only [step] at hs
    split at hs
    · simp [hon] at hs
    · cases hs
  | expTake => simp [step, hexp] at hs
  | expCall => simp [step, hexp] at hs
  | expRelease => simp [step, hexp] at hs
  | pop => simp [step, z2] at hs
  | cbRead => simp [step, z3] at hs
  | cbDone => simp [step, z4] at hs

end Nng.Aio
