/-
  The SURVEYOR invariant holds along every event sequence.
-/
import NngModel.Proofs.Survey
namespace Nng.Survey
open Nng Nng.Proto

theorem inv_init : Inv ({} : State) :=
  ⟨by simp, by simp, fun _ => rfl, by simp⟩

theorem step_inv (s : State) (ev : Ev) (h : Inv s) : Inv (step s ev).1 := by
  unfold step
  by_cases hop : s.opened = true
  · rw [if_neg (by simp [hop])]
    by_cases hcl : s.closed = true
    · rw [if_pos hcl]
      cases ev <;> try exact h
      case advance ms => exact advance_idle_inv ms h (h.closedRq hcl)
    · rw [if_neg hcl]
      have hncl : s.closed = false := by simpa using hcl
      cases ev with
      | openSock _ _ => exact h
      | pipeAdd peer => simp only; split <;> exact h
      | pipeDrop p =>
        simp only
        split
        · split
          · exact h
          · exact closePipe_inv p h
        · exact h
      | sendDone p rv =>
        simp only
        split
        · split
          · exact h
          · split
            · exact closePipe_inv p h
            · split <;> exact h
        · exact h
      | recvDone p r =>
        simp only
        split
        · split
          · exact h
          · split
            · exact closePipe_inv p h
            · exact pipeRecv_inv p _ h hop hncl
        · exact h
      | send k a m mode =>
        simp only
        split
        · exact h
        · split
          · exact h
          · exact ctxSend_inv a m h hop
      | recv k a mode =>
        simp only
        split
        · exact h
        · split
          · exact h
          · rename_i c hg
            exact ctxRecv_inv a mode h (getCtx_mem hg) hop hncl
      | cancel a => exact cancelAio_inv a _ h hop
      | abort a rv => exact cancelAio_inv a rv h hop
      | advance ms => exact advance_inv ms h
      | ctxOpen k =>
        simp only
        split
        · exact h
        · split
          · exact h
          · split
            · refine ⟨?_, h.delOK, ?_, ?_⟩
              · intro q hq
                simp only [List.mem_append, List.mem_singleton] at hq
                rcases hq with hq | rfl
                · exact h.ctxsOK q hq
                · exact ctxOK_idle _ _ rfl rfl
              · intro ho; simp [hop] at ho
              · intro hc; simp [hncl] at hc
            · exact h
      | ctxClose k =>
        simp only
        split
        · exact h
        · refine ⟨?_, h.delOK, ?_, ?_⟩
          · intro q hq
            exact h.ctxsOK q (List.mem_filter.mp hq).1
          · intro ho; simp [hop] at ho
          · intro hc; simp [hncl] at hc
      | setopt k name ty v =>
        simp only
        split
        · split
          · exact h
          · rename_i c hg
            split
            · exact h
            · have hok := h.ctxsOK c (getCtx_mem hg)
              exact inv_setCtx h ⟨hok.qid, hok.dl, hok.excl⟩ (by simp [hncl]) hop
        · split
          · split <;> exact h
          · exact h
      | getopt k name ty =>
        simp only
        split
        · split <;> exact h
        · split <;> exact h
      | poll => exact h
      | sub _ _ => exact h
      | unsub _ _ => exact h
      | close => exact closeAll_inv h hop
  · have hno : s.opened = false := by simpa using hop
    rw [if_pos (by simp [hno])]
    cases ev <;> try exact h
    case openSock p r =>
      refine ⟨?_, h.delOK, ?_, ?_⟩
      · intro q hq
        simp only [List.mem_singleton] at hq
        subst hq
        exact ctxOK_idle _ _ rfl rfl
      · intro ho; simp at ho
      · intro _ q hq
        simp only [List.mem_singleton] at hq
        subst hq; rfl
    case advance ms =>
      exact advance_idle_inv ms h (by simp [h.notOpen hno])

theorem run_inv (s : State) (evs : List Ev) (h : Inv s) : Inv (run s evs).1 := by
  induction evs generalizing s with
  | nil => exact h
  | cons e es ih => simp only [run]; exact ih _ (step_inv s e h)

end Nng.Survey
