/- the structural invariant is kept by the poller thread's own transitions, hence by every step -/
import NngModel.Proofs.PfdInv
namespace Nng.Pfd
open Nng.PfdSpec

def frameOfAux (cs : List Client) (pf : Frame) : Tid → Frame
  | .p => pf
  | .c i => match cs[i]? with
    | some c => c.frame
    | none => .idle

def opOfAux (cs : List Client) (rem : List Op) : Tid → Option Op
  | .p => rem.head?
  | .c i => match cs[i]? with
    | some c => c.prog.head?
    | none => none

theorem frameOf_eq (s : State) (t : Tid) : frameOf s t = frameOfAux s.cs s.p.frame t := by cases t <;> rfl
theorem opOf_eq (s : State) (t : Tid) : opOf s t = opOfAux s.cs s.p.rem t := by cases t <;> rfl

theorem frameOfAux_wake (cs : List Client) (t : Tid) :
    frameOfAux (cs.map wakeClient) .idle t = if frameOfAux cs .idle t = .stopSleep then .stopChk else frameOfAux cs .idle t := by
  have := frameOf_wake (s := ⟨G.init, cs, { pc := .wait, batch := [], reap := false, cur := Evs.none, rem := [], frame := .idle, scripts := [] }⟩)
    (s' := ⟨G.init, cs.map wakeClient, { pc := .wait, batch := [], reap := false, cur := Evs.none, rem := [], frame := .idle, scripts := [] }⟩) rfl rfl rfl t
  simpa [frameOf_eq] using this

theorem opOfAux_wake (cs : List Client) (rem : List Op) (t : Tid) : opOfAux (cs.map wakeClient) rem t = opOfAux cs rem t := by
  have := opOf_wake (s := ⟨G.init, cs, { pc := .wait, batch := [], reap := false, cur := Evs.none, rem := rem, frame := .idle, scripts := [] }⟩)
    (s' := ⟨G.init, cs.map wakeClient, { pc := .wait, batch := [], reap := false, cur := Evs.none, rem := rem, frame := .idle, scripts := [] }⟩) rfl rfl t
  simpa [opOf_eq] using this

theorem filter_wake (rest : List BEv) : (List.filter BEv.isPfd (.wake :: rest)).length = (List.filter BEv.isPfd rest).length := by
  simp [List.filter, BEv.isPfd]

theorem filter_pfd (m : Evs) (rest : List BEv) :
    (List.filter BEv.isPfd (.pfd m :: rest)).length = (List.filter BEv.isPfd rest).length + 1 := by
  simp [List.filter, BEv.isPfd]

theorem afterEntry_cases (p : Poller) :
    (afterEntry p = .disp ∧ p.batch ≠ []) ∨ (afterEntry p = .reapLock ∧ p.batch = [] ∧ p.reap = true) ∨
    (afterEntry p = .wait ∧ p.batch = [] ∧ p.reap = false) := by
  unfold afterEntry
  cases hb : p.batch <;> cases hr : p.reap <;> simp

set_option hygiene false in
local macro "poll_case" : tactic => `(tactic| (
  refine ⟨?_, ?_, ?_, ?_, ?_, ?_, ?_, ?_, ?_, ?_, ?_, ?_, ?_, ?_, ?_, ?_, ?_, ?_, ?_⟩
  all_goals (try simp only [frameOf_eq, opOf_eq, pfdCount, touch] at *)
  all_goals (try grind [frameOfAux, opOfAux, Evs.none_isEmpty])))

set_option maxHeartbeats 1600000 in
theorem sinv_poll {s s' : State} {ready : Evs} {wf : Bool} (h : SInv s) (r : PollRel s ready wf s') : SInv s' := by
  have hidle : opOf s .p = none → s.p.frame = .idle := h.pIdle
  obtain ⟨h1, h2, h3, h5, h6, h7, h8, h9, h10, h11, h12, h13, h14, h15, h16, h17, h18, h19, h20⟩ := h
  cases r with
  | harvest hpc hne =>
    have hl := pfdCount_harvest_le s.g ready wf
    have ha := harvest_any s.g ready wf
    have hb := h1 hpc
    poll_case
  | dispNil hpc hb =>
    rcases afterEntry_cases s.p with ⟨e, _⟩ | ⟨e, _, _⟩ | ⟨e, _, _⟩ <;> rw [e] <;> poll_case
  | dispWake rest hpc hb =>
    rcases afterEntry_cases { s.p with batch := rest, reap := true } with ⟨e, hx⟩ | ⟨e, hx, _⟩ | ⟨e, _, hx⟩ <;> rw [e] <;>
      simp only at hx <;> (have fw := filter_wake rest) <;> poll_case
  | dispPfd m rest hpc hb =>
    have fw := filter_pfd m rest
    poll_case
  | cbBegin hpc =>
    have hpf : s.p.frame = .idle := hidle (h3 (by rw [hpc]; decide))
    poll_case
    intro t
    cases t with
    | p => simp [frameOfAux]
    | c i => simpa [frameOfAux, opOfAux] using h12 (.c i)
  | cbEnd hpc hr =>
    have hpf : s.p.frame = .idle := hidle (by simp [opOf, hr])
    rcases afterEntry_cases s.p with ⟨e, hx⟩ | ⟨e, hx, _⟩ | ⟨e, hx, _⟩ <;> rw [e] <;> poll_case
  | reap hpc hm =>
    have hpf : s.p.frame = .idle := hidle (h3 (by rw [hpc]; decide))
    have hb := h2 hpc
    have hw := frameOfAux_wake s.cs
    have ow := opOfAux_wake s.cs s.p.rem
    poll_case

theorem sinv_step {s : State} (h : SInv s) (ch : Choice) : SInv (step s ch) := by
  rcases step_cases s ch with e | ⟨f, op, r⟩ | r
  · rw [e]; exact h
  · exact sinv_call h r
  · exact sinv_poll h r

theorem sinv_run {s : State} (h : SInv s) (sched : List Choice) : SInv (run s sched) := by
  induction sched generalizing s with
  | nil => exact h
  | cons ch rest ih => exact ih (sinv_step h ch)

theorem sinv_reach (progs scripts : List (List Op)) (sched : List Choice) : SInv (reach progs scripts sched) :=
  sinv_run (sinv_init progs scripts) sched

end Nng.Pfd
