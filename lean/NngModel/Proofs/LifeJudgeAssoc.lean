/-
  "The lifecycle judge accepts every trace of the lifecycle model" (C14 / C10), part 1:
  the judge's association lists (`upd`, `put`, `List.lookup`).
-/
import NngModel.Spec.Life
namespace Nng.LifeSpec
open Nng.Life

theorem lookup_upd {α : Type} (l : List (Nat × α)) (k k' : Nat) (f : α → α) :
    (upd l k f).lookup k' = if k' = k then (l.lookup k').map f else l.lookup k' := by
  induction l with
  | nil => simp [upd]
  | cons a rest ih =>
    obtain ⟨ka, va⟩ := a
    unfold upd at ih ⊢
    simp only [List.map_cons]
    by_cases h1 : ka = k
    · subst h1
      simp only [beq_self_eq_true, if_true, List.lookup_cons]
      by_cases h2 : k' = ka
      · subst h2; simp
      · have : (k' == ka) = false := by simpa using h2
        simp only [this, h2, if_false]
        rw [ih]; simp [h2]
    · have hk : (ka == k) = false := by simpa using h1
      simp only [hk, Bool.false_eq_true, if_false, List.lookup_cons]
      by_cases h2 : k' = ka
      · subst h2; simp [h1]
      · have : (k' == ka) = false := by simpa using h2
        simp only [this]
        rw [ih]

theorem lookup_append {α : Type} (l m : List (Nat × α)) (k : Nat) :
    (l ++ m).lookup k = (l.lookup k).or (m.lookup k) := by
  induction l with
  | nil => simp
  | cons a rest ih =>
    obtain ⟨ka, va⟩ := a
    simp only [List.cons_append, List.lookup_cons]
    cases h : k == ka <;> simp [ih]

theorem lookup_filter_ne {α : Type} (l : List (Nat × α)) (k k' : Nat) :
    (l.filter (·.1 != k)).lookup k' = if k' = k then none else l.lookup k' := by
  induction l with
  | nil => simp
  | cons a rest ih =>
    obtain ⟨ka, va⟩ := a
    by_cases h1 : ka = k
    · subst h1
      have : ((ka, va).1 != ka) = false := by simp
      rw [List.filter_cons_of_neg (by simp)]
      rw [ih]
      by_cases h2 : k' = ka
      · simp [h2]
      · have : (k' == ka) = false := by simpa using h2
        simp [h2, List.lookup_cons, this]
    · rw [List.filter_cons_of_pos (by simpa using h1)]
      simp only [List.lookup_cons]
      by_cases h2 : k' = ka
      · subst h2; simp [h1]
      · have : (k' == ka) = false := by simpa using h2
        simp only [this]; exact ih

theorem lookup_put {α : Type} (l : List (Nat × α)) (k k' : Nat) (v : α) :
    (put l k v).lookup k' = if k' = k then some v else l.lookup k' := by
  unfold put
  rw [lookup_append, lookup_filter_ne]
  by_cases h : k' = k
  · subst h; simp
  · have : (k' == k) = false := by simpa using h
    simp [h, List.lookup_cons, this]

theorem lookup_mapval {α : Type} (l : List (Nat × α)) (g : Nat → α → α) (k : Nat) :
    (l.map fun (kx : Nat × α) => (kx.1, g kx.1 kx.2)).lookup k = (l.lookup k).map (g k) := by
  induction l with
  | nil => simp
  | cons a rest ih =>
    obtain ⟨ka, va⟩ := a
    simp only [List.map_cons, List.lookup_cons]
    by_cases h : k = ka
    · subst h; simp
    · have : (k == ka) = false := by simpa using h
      simp only [this]; exact ih

theorem lookup_map_key {α β : Type} (l : List α) (f : α → Nat) (g : α → β) (k : Nat) :
    (l.map fun a => (f a, g a)).lookup k = (l.find? fun a => f a == k).map g := by
  induction l with
  | nil => simp
  | cons a rest ih =>
    simp only [List.map_cons, List.lookup_cons, List.find?_cons]
    by_cases h : f a = k
    · subst h; simp
    · have h1 : (k == f a) = false := by simpa using fun h' => h h'.symm
      have h2 : (f a == k) = false := by simpa using h
      simp only [h1, h2]; exact ih

theorem mem_of_lookup {α : Type} {l : List (Nat × α)} {k : Nat} {x : α} (h : l.lookup k = some x) : (k, x) ∈ l := by
  induction l with
  | nil => simp at h
  | cons a rest ih =>
    obtain ⟨ka, va⟩ := a
    simp only [List.lookup_cons] at h
    by_cases hk : k = ka
    · subst hk; simp at h; subst h; exact List.mem_cons_self
    · have : (k == ka) = false := by simpa using hk
      simp only [this] at h
      exact List.mem_cons_of_mem _ (ih h)

/-- no entry is shadowed: the list is a finite map -/
def KU {α : Type} (l : List (Nat × α)) : Prop := ∀ k x, (k, x) ∈ l → l.lookup k = some x

theorem KU_nil {α : Type} : KU ([] : List (Nat × α)) := fun _ _ h => by cases h

theorem mem_upd {α : Type} {l : List (Nat × α)} {k : Nat} {f : α → α} {i : Nat} {x : α} (h : (i, x) ∈ upd l k f) :
    ∃ y, (i, y) ∈ l ∧ x = if i = k then f y else y := by
  unfold upd at h
  rcases List.mem_map.mp h with ⟨⟨k0, y⟩, hy, he⟩
  by_cases hk : k0 = k
  · subst hk
    simp only [beq_self_eq_true, if_true, Prod.mk.injEq] at he
    obtain ⟨rfl, rfl⟩ := he
    exact ⟨y, hy, by simp⟩
  · have : (k0 == k) = false := by simpa using hk
    simp only [this, Bool.false_eq_true, if_false, Prod.mk.injEq] at he
    obtain ⟨rfl, rfl⟩ := he
    exact ⟨y, hy, by simp [hk]⟩

theorem KU_upd {α : Type} {l : List (Nat × α)} (h : KU l) (k : Nat) (f : α → α) : KU (upd l k f) := by
  intro i x hx
  obtain ⟨y, hy, rfl⟩ := mem_upd hx
  rw [lookup_upd, h i y hy]
  by_cases hk : i = k <;> simp [hk]

theorem mem_put {α : Type} {l : List (Nat × α)} {k : Nat} {v : α} {i : Nat} {x : α} (h : (i, x) ∈ put l k v) :
    (i ≠ k ∧ (i, x) ∈ l) ∨ (i = k ∧ x = v) := by
  unfold put at h
  rcases List.mem_append.mp h with h | h
  · have := List.mem_filter.mp h
    left; exact ⟨by simpa using this.2, this.1⟩
  · simp only [List.mem_singleton, Prod.mk.injEq] at h
    right; exact h

theorem KU_put {α : Type} {l : List (Nat × α)} (h : KU l) (k : Nat) (v : α) : KU (put l k v) := by
  intro i x hx
  rw [lookup_put]
  rcases mem_put hx with ⟨hne, hm⟩ | ⟨rfl, rfl⟩
  · simp [hne, h i x hm]
  · simp

theorem mem_mapval {α : Type} {l : List (Nat × α)} {g : Nat → α → α} {i : Nat} {x : α}
    (h : (i, x) ∈ l.map fun (kx : Nat × α) => (kx.1, g kx.1 kx.2)) : ∃ y, (i, y) ∈ l ∧ x = g i y := by
  rcases List.mem_map.mp h with ⟨⟨k0, y⟩, hy, he⟩
  simp only [Prod.mk.injEq] at he
  obtain ⟨rfl, rfl⟩ := he
  exact ⟨y, hy, rfl⟩

theorem KU_mapval {α : Type} {l : List (Nat × α)} (h : KU l) (g : Nat → α → α) :
    KU (l.map fun (kx : Nat × α) => (kx.1, g kx.1 kx.2)) := by
  intro i x hx
  obtain ⟨y, hy, rfl⟩ := mem_mapval hx
  rw [lookup_mapval, h i y hy]; rfl

/-- `upd` on the image of a list under a keyed map -/
theorem upd_map_key {α β : Type} (l : List α) (f : α → Nat) (g : α → β) (k : Nat) (u : β → β) :
    upd (l.map fun a => (f a, g a)) k u = l.map fun a => (f a, if f a = k then u (g a) else g a) := by
  unfold upd
  rw [List.map_map]
  apply List.map_congr_left
  intro a _
  simp only [Function.comp]
  by_cases h : f a = k
  · simp [h]
  · have : (f a == k) = false := by simpa using h
    simp [h, this]

/-- `put` of a fresh key appends -/
theorem put_fresh {α : Type} (l : List (Nat × α)) (k : Nat) (v : α) (h : ∀ kx ∈ l, kx.1 ≠ k) :
    put l k v = l ++ [(k, v)] := by
  unfold put
  congr 1
  apply List.filter_eq_self.mpr
  intro kx hkx
  simpa using h kx hkx

theorem upd_upd {α : Type} (l : List (Nat × α)) (k : Nat) (f g : α → α) :
    upd (upd l k f) k g = upd l k (g ∘ f) := by
  unfold upd
  rw [List.map_map]
  apply List.map_congr_left
  intro a _
  obtain ⟨ka, va⟩ := a
  simp only [Function.comp]
  by_cases h : ka = k
  · subst h; simp
  · have : (ka == k) = false := by simpa using h
    simp [this]

end Nng.LifeSpec
