/-
  C07, raw mode — "the raw judges accept every trace of the raw models".

      xsurvey_judge_accepts_model   raw SURVEYOR   (Model/Xsurvey.lean  vs  xsurveyJudge)
      xrespond_judge_accepts_model  raw RESPONDENT (Model/Xrespond.lean vs  xrespondJudge)

  both instances of ONE generic simulation (`RawSurv.judge_from`, parametrised by the kind through
  `JK resp k sel`: fan-out vs routing, header classification from C13.D5).  The judges identify
  messages by their bodies and do not expect a receive to "succeed" without a message, hence the
  three hypotheses; each is shown necessary by a `decide`-checked event list.

  The judge component of `Driver/RawSurvey.lean` ignores `pipe_id` lines (they are no `Ev`; the
  judges work with the canonical ids `index + 1`), so a trace is a plain list of `(Ev, outputs)`.
-/
import NngModel.Proofs.RawJudgeKinds
import NngModel.Proofs.RawJudgeHyps
namespace Nng.RawSurv
open Nng Nng.Proto Nng.RawMq Nng.RawSurveySpec

/-! ### the generic theorem -/

/-- every trace of a raw model is accepted by its judge -/
theorem raw_judge_accepts_model {resp : Bool} {k : Kind} {sel : Sel} (hj : JK resp k sel) (evs : List Ev) (hn : NoAbort0 evs)
    (hs : SentDistinct k evs) (ha : ArrivalsDistinct k evs) :
    ((evs.zip (run k {} evs).2).foldl (fun j x => xStep resp j x.1 x.2) ({} : XJ)).err = none :=
  judge_from hj evs {} {} (inv_init _ _) Top_init hn hs ha

/-- the judge state after a run of the model -/
def judgeAfter (resp : Bool) (k : Kind) (evs : List Ev) : XJ :=
  (evs.zip (run k {} evs).2).foldl (fun j x => xStep resp j x.1 x.2) ({} : XJ)

/-- the judge's acceptance set (`takes`) coincides with `offer`: in every reachable open state and for every
    connected pipe, the judge expects an offered message on that pipe's wire (at once or after the queued
    ones) exactly if the model does not discard it — idle: on the wire at once; room: queued; full: dropped -/
theorem raw_takes_iff_kept {resp : Bool} {k : Kind} {sel : Sel} (hj : JK resp k sel) (evs : List Ev) (hn : NoAbort0 evs)
    (hs : SentDistinct k evs) (ha : ArrivalsDistinct k evs) (hcl : (run k {} evs).1.closed = false) (q : Nat) (pp : Pipe)
    (m : WMsg) (hg : (run k {} evs).1.pipes[q]? = some pp) (hc : pp.closed = false) :
    takes resp (judgeAfter resp k evs) q = true ↔ (offer q pp m).1.dropped = pp.dropped :=
  takes_iff_kept hj evs hn hs ha hcl q pp m hg hc

/-- the same with event-level hypotheses: the bodies of all `send -` events and the payloads of all
    `recv_done` events (what follows the first word with the high bit) are pairwise distinct -/
theorem raw_judge_accepts_model_events {resp : Bool} {k : Kind} {sel : Sel} (hj : JK resp k sel) (evs : List Ev) (hn : NoAbort0 evs)
    (hs : (sendBodies evs).Nodup) (ha : (arrivalPayloads evs).Nodup) :
    ((evs.zip (run k {} evs).2).foldl (fun j x => xStep resp j x.1 x.2) ({} : XJ)).err = none :=
  raw_judge_accepts_model hj evs hn (sentDistinct_of_sendBodies hj.kok evs hs) (arrivalsDistinct_of_payloads hj evs ha)

end Nng.RawSurv

/-! ### raw SURVEYOR -/

namespace Nng.Xsurvey
open Nng Nng.Proto Nng.RawSurv Nng.RawSurveySpec

/-- the raw SURVEYOR judge accepts every trace of the raw SURVEYOR model -/
theorem xsurvey_judge_accepts_model (evs : List Ev) (hn : NoAbort0 evs) (hs : SentDistinct kind evs)
    (ha : ArrivalsDistinct kind evs) : xsurveyJudge (evs.zip (run {} evs).2) = none :=
  raw_judge_accepts_model jk evs hn hs ha

/-- the same with event-level hypotheses: bodies of the `send -` events / payloads of the `recv_done` events
    pairwise distinct -/
theorem xsurvey_judge_accepts_model_events (evs : List Ev) (hn : NoAbort0 evs) (hs : (sendBodies evs).Nodup)
    (ha : (arrivalPayloads evs).Nodup) : xsurveyJudge (evs.zip (run {} evs).2) = none :=
  raw_judge_accepts_model_events jk evs hn hs ha

/-- the unconditional statement (false: see the three theorems below) -/
def xsurvey_judge_accepts_model_statement : Prop := ∀ evs : List Ev, xsurveyJudge (evs.zip (run {} evs).2) = none

/-- `abort a 0` on a parked receive: "receive succeeded without a message" -/
def needAbort : List Ev := [.openSock "surveyor" true, .recv none 0 .inf, .abort 0 0]

theorem xsurvey_judge_needs_no_abort0 :
    ¬ NoAbort0 needAbort ∧ SentDistinct kind needAbort ∧ ArrivalsDistinct kind needAbort ∧
    xsurveyJudge (needAbort.zip (run {} needAbort).2) ≠ none := by decide

/-- the same body sent twice: the second wire hand-over on pipe 0 is "twice on the wire" -/
def needBodies : List Ev :=
  [.openSock "surveyor" true, .pipeAdd Nng.Generated.xsvProtoPeer, .send none 0 ⟨[0x80, 0, 0, 1], [1]⟩ .nb, .sendDone 0 0,
   .send none 1 ⟨[0x80, 0, 0, 2], [1]⟩ .nb]

theorem xsurvey_judge_needs_distinct_bodies :
    NoAbort0 needBodies ∧ ¬ SentDistinct kind needBodies ∧ ArrivalsDistinct kind needBodies ∧
    xsurveyJudge (needBodies.zip (run {} needBodies).2) ≠ none := by decide

/-- an arrival lost with its pipe while parked at the socket's queue, then another arrival with the same
    payload: the judge takes the later delivery for the lost one -/
def needArrivals : List Ev :=
  [.openSock "surveyor" true, .pipeAdd Nng.Generated.xsvProtoPeer, .pipeAdd Nng.Generated.xsvProtoPeer,
   .pipeAdd Nng.Generated.xsvProtoPeer,
   .recvDone 0 (.ok [0x80, 0, 0, 0, 0xaa]), .recvDone 1 (.ok [0x80, 0, 0, 1, 0xbb]), .pipeDrop 1,
   .recvDone 2 (.ok [0x80, 0, 0, 2, 0xbb]), .recv none 0 .nb, .recv none 1 .nb]

theorem xsurvey_judge_needs_distinct_arrivals :
    NoAbort0 needArrivals ∧ SentDistinct kind needArrivals ∧ ¬ ArrivalsDistinct kind needArrivals ∧
    xsurveyJudge (needArrivals.zip (run {} needArrivals).2) ≠ none := by decide

theorem xsurvey_judge_needs_hypotheses : ¬ xsurvey_judge_accepts_model_statement :=
  fun h => xsurvey_judge_needs_no_abort0.2.2.2 (h needAbort)

/-- non-vacuity: three pipes (one rejected), fan-out, a flood that fills the queue of a busy pipe
    (16 waiting, the 18th send dropped for it), arrivals (one malformed), a parked receive served by an
    arrival, a timed receive that expires, cancel, a pipe drop with a queued message, option, poll, close -/
def demo : List Ev :=
  [.advance 5, .openSock "surveyor" true, .pipeAdd Nng.Generated.xsvProtoPeer, .pipeAdd 0x51, .pipeAdd Nng.Generated.xsvProtoPeer,
   .poll, .send none 0 ⟨[0x80, 0, 0, 1], [1]⟩ .nb, .sendDone 2 0] ++
  (List.range 17).map (fun i => Ev.send none 1 ⟨[0x80, 0, 0, 2], [2, i.toUInt8]⟩ .inf) ++
  [.send none 2 ⟨[0x80, 0, 0, 3], [3]⟩ (.ms 100), .sendDone 0 0, .sendDone 0 0, .sendDone 2 0,
   .recv none 5 .inf, .recv none 6 (.ms 50), .recvDone 0 (.ok [0, 0, 0, 7, 0x80, 0, 0, 1, 0xa1]), .advance 60,
   .recvDone 0 (.ok [0x80, 0, 0, 1, 0xa2]), .recvDone 2 (.ok [0x80, 0, 0, 1, 0xa3]), .poll, .recv none 7 .nb,
   .recv none 8 .nb, .recv none 9 .nb, .recvDone 2 (.ok [1, 2, 3]), .poll, .recv none 10 .inf, .cancel 10,
   .setopt none "ttl-max" "int" 3, .getopt none "ttl-max" "int", .ctxOpen 1, .send (some 1) 11 ⟨[], [9]⟩ .nb,
   .pipeDrop 0, .sendDone 0 0, .recv none 12 .inf, .close, .send none 13 ⟨[], [5]⟩ .nb, .advance 10]

set_option maxRecDepth 16384 in
example : NoAbort0 demo ∧ (sendBodies demo).Nodup ∧ (arrivalPayloads demo).Nodup ∧ SentDistinct kind demo ∧ ArrivalsDistinct kind demo ∧
    xsurveyJudge (demo.zip (run {} demo).2) = none := by decide

/-- what happens in `demo`: both connected pipes are offered all 19 messages; 3 reach each wire, 16 are discarded
    (queue full at the offer, or still queued when the pipe closed) -/
example : ((run {} demo).1.pipes.map (fun pp => (pp.offered.length, pp.wired.length, pp.dropped.length))) =
    [(19, 3, 16), (0, 0, 0), (19, 3, 16)] ∧ (run {} demo).1.delivered.length = 3 ∧ (run {} demo).1.lost.length = 0 := by decide

example : xsurveyJudge (demo.zip (run {} demo).2) = none :=
  xsurvey_judge_accepts_model_events demo (by decide) (by decide) (by decide)

end Nng.Xsurvey

/-! ### raw RESPONDENT -/

namespace Nng.Xrespond
open Nng Nng.Proto Nng.RawSurv Nng.RawSurveySpec

/-- the raw RESPONDENT judge accepts every trace of the raw RESPONDENT model -/
theorem xrespond_judge_accepts_model (evs : List Ev) (hn : NoAbort0 evs) (hs : SentDistinct kind evs)
    (ha : ArrivalsDistinct kind evs) : xrespondJudge (evs.zip (run {} evs).2) = none :=
  raw_judge_accepts_model jk evs hn hs ha

/-- the same with event-level hypotheses: bodies of the `send -` events / payloads of the `recv_done` events
    pairwise distinct -/
theorem xrespond_judge_accepts_model_events (evs : List Ev) (hn : NoAbort0 evs) (hs : (sendBodies evs).Nodup)
    (ha : (arrivalPayloads evs).Nodup) : xrespondJudge (evs.zip (run {} evs).2) = none :=
  raw_judge_accepts_model_events jk evs hn hs ha

/-- the unconditional statement (false: see the three theorems below) -/
def xrespond_judge_accepts_model_statement : Prop := ∀ evs : List Ev, xrespondJudge (evs.zip (run {} evs).2) = none

def needAbort : List Ev := [.openSock "respondent" true, .recv none 0 .inf, .abort 0 0]

theorem xrespond_judge_needs_no_abort0 :
    ¬ NoAbort0 needAbort ∧ SentDistinct kind needAbort ∧ ArrivalsDistinct kind needAbort ∧
    xrespondJudge (needAbort.zip (run {} needAbort).2) ≠ none := by decide

/-- the same body routed twice to pipe 0 (canonical id 1) -/
def needBodies : List Ev :=
  [.openSock "respondent" true, .pipeAdd Nng.Generated.xrsProtoPeer, .send none 0 ⟨[0, 0, 0, 1, 0x80, 0, 0, 1], [1]⟩ .nb,
   .sendDone 0 0, .send none 1 ⟨[0, 0, 0, 1, 0x80, 0, 0, 2], [1]⟩ .nb]

theorem xrespond_judge_needs_distinct_bodies :
    NoAbort0 needBodies ∧ ¬ SentDistinct kind needBodies ∧ ArrivalsDistinct kind needBodies ∧
    xrespondJudge (needBodies.zip (run {} needBodies).2) ≠ none := by decide

def needArrivals : List Ev :=
  [.openSock "respondent" true, .pipeAdd Nng.Generated.xrsProtoPeer, .pipeAdd Nng.Generated.xrsProtoPeer,
   .pipeAdd Nng.Generated.xrsProtoPeer,
   .recvDone 0 (.ok [0x80, 0, 0, 0, 0xaa]), .recvDone 1 (.ok [0x80, 0, 0, 1, 0xbb]), .pipeDrop 1,
   .recvDone 2 (.ok [0x80, 0, 0, 2, 0xbb]), .recv none 0 .nb, .recv none 1 .nb]

theorem xrespond_judge_needs_distinct_arrivals :
    NoAbort0 needArrivals ∧ SentDistinct kind needArrivals ∧ ¬ ArrivalsDistinct kind needArrivals ∧
    xrespondJudge (needArrivals.zip (run {} needArrivals).2) ≠ none := by decide

theorem xrespond_judge_needs_hypotheses : ¬ xrespond_judge_accepts_model_statement :=
  fun h => xrespond_judge_needs_no_abort0.2.2.2 (h needAbort)

/-- non-vacuity: three pipes (one rejected), surveys arriving (one with too many hops under a lowered
    hop limit, one malformed), a parked receive, replies routed by the first header word: to an idle pipe,
    queued (depth 2), dropped when the queue is full, to a pipe that never existed, with a short header;
    a timed receive that expires, abort, pipe drop, poll, close -/
def demo : List Ev :=
  [.openSock "respondent" true, .pipeAdd Nng.Generated.xrsProtoPeer, .pipeAdd 0x51, .pipeAdd Nng.Generated.xrsProtoPeer,
   .recv none 0 .inf, .recvDone 0 (.ok [0, 0, 0, 9, 0x80, 0, 0, 1, 0xa1]), .poll,
   .recvDone 2 (.ok [0x80, 0, 0, 2, 0xa2]), .recvDone 0 (.ok [0x80, 0, 0, 3, 0xa3]), .poll, .recv none 1 .nb,
   .setopt none "ttl-max" "int" 1, .recvDone 2 (.ok [0, 0, 0, 9, 0x80, 0, 0, 4, 0xa4]), .recvDone 2 (.ok [7]),
   .setopt none "ttl-max" "int" 99, .recv none 2 .nb, .recv none 3 .nb, .recv none 4 (.ms 20), .advance 30,
   .send none 5 ⟨[0, 0, 0, 1, 0, 0, 0, 9, 0x80, 0, 0, 1], [1]⟩ .nb,
   .send none 6 ⟨[0, 0, 0, 1, 0x80, 0, 0, 2], [2]⟩ .inf, .send none 7 ⟨[0, 0, 0, 1, 0x80, 0, 0, 3], [3]⟩ (.ms 5),
   .send none 8 ⟨[0, 0, 0, 1, 0x80, 0, 0, 4], [4]⟩ .nb, .send none 9 ⟨[0, 0, 0, 7, 0x80, 0, 0, 5], [5]⟩ .nb,
   .send none 10 ⟨[0, 0], [6]⟩ .nb, .send none 11 ⟨[0, 0, 0, 2, 0x80, 0, 0, 6], [7]⟩ .nb, .poll,
   .sendDone 0 0, .sendDone 0 0, .sendDone 0 0, .sendDone 0 0, .recv none 12 .inf, .abort 12 5, .pipeDrop 0,
   .send none 13 ⟨[0, 0, 0, 1, 0x80, 0, 0, 7], [8]⟩ .nb, .recv none 14 .inf, .close, .poll]

set_option maxRecDepth 16384 in
example : NoAbort0 demo ∧ (sendBodies demo).Nodup ∧ (arrivalPayloads demo).Nodup ∧ SentDistinct kind demo ∧ ArrivalsDistinct kind demo ∧
    xrespondJudge (demo.zip (run {} demo).2) = none := by decide

/-- what happens in `demo`: pipe 0 is offered four replies (one on the wire at once, two queued, one dropped) -/
example : ((run {} demo).1.pipes.map (fun pp => (pp.offered.length, pp.wired.length, pp.dropped.length))) =
    [(4, 3, 1), (0, 0, 0), (0, 0, 0)] ∧ (run {} demo).1.delivered.length = 3 ∧ (run {} demo).1.sent.length = 8 := by decide

example : xrespondJudge (demo.zip (run {} demo).2) = none :=
  xrespond_judge_accepts_model_events demo (by decide) (by decide) (by decide)

end Nng.Xrespond
