/- lemmas about the no-TTL loop, the send side, and chains of devices (core Lean only) -/
import NngModel.Proofs.Backtrace
namespace Nng.Bt
open Nng Nng.BtSpec

/-! ### the loop of xreq0_recv_cb / xsurv0_recv_cb -/

theorem endLoop_cons (hdr : Bytes) (b0 b1 b2 b3 : UInt8) (rest : Bytes) :
    endLoop hdr (b0 :: b1 :: b2 :: b3 :: rest) =
      if 4 + hdr.length > hcap then .closePipe
      else if isEnd b0 then .deliver (hdr ++ [b0, b1, b2, b3]) rest
      else endLoop (hdr ++ [b0, b1, b2, b3]) rest := by
  rw [endLoop]

theorem endLoop_short (hdr w : Bytes) (h : w.length < 4) : endLoop hdr w = .closePipe := by
  match w, h with
  | [], _ => simp [endLoop]
  | [_], _ => simp [endLoop]
  | [_, _], _ => simp [endLoop]
  | [_, _, _], _ => simp [endLoop]
  | _ :: _ :: _ :: _ :: _, h => simp at h; omega

theorem endLoop_accept : ∀ (n : Nat) (hdr bt B : Bytes), isBt n bt = true →
    hdr.length + 4 * n ≤ hcap → endLoop hdr (bt ++ B) = .deliver (hdr ++ bt) B
  | 0, _, _, _, h, _ => by simp [isBt] at h
  | n + 1, _, [], _, h, _ => by simp [isBt] at h
  | n + 1, _, [_], _, h, _ => by simp [isBt] at h
  | n + 1, _, [_, _], _, h, _ => by simp [isBt] at h
  | n + 1, _, [_, _, _], _, h, _ => by simp [isBt] at h
  | n + 1, hdr, b0 :: b1 :: b2 :: b3 :: rest, B, h, hc => by
    simp only [isBt] at h
    simp only [List.cons_append]
    rw [endLoop_cons, if_neg (by omega)]
    by_cases he : isEnd b0 = true
    · rw [if_pos he] at h
      simp only [Bool.and_eq_true, beq_iff_eq, List.isEmpty_iff] at h
      obtain ⟨_, hr⟩ := h
      subst hr
      rw [if_pos he]; simp
    · rw [if_neg he] at h
      rw [if_neg he, endLoop_accept n (hdr ++ [b0, b1, b2, b3]) rest B h
        (by simp only [List.length_append, List.length_cons, List.length_nil]; omega)]
      simp

theorem endLoop_deliver_inv : ∀ (k : Nat) (w hdr h b : Bytes),
    w.length ≤ k → endLoop hdr w = .deliver h b →
    ∃ n bt, isBt n bt = true ∧ w = bt ++ b ∧ h = hdr ++ bt ∧ h.length ≤ hcap := by
  intro k
  induction k with
  | zero =>
    intro w hdr h b hk hd
    rw [endLoop_short _ _ (by omega)] at hd; cases hd
  | succ k ih =>
    intro w hdr h b hk hd
    match w, hk with
    | [], _ | [_], _ | [_, _], _ | [_, _, _], _ =>
      rw [endLoop_short _ _ (by simp)] at hd; cases hd
    | b0 :: b1 :: b2 :: b3 :: rest, hk =>
      rw [endLoop_cons] at hd
      by_cases hc : 4 + hdr.length > hcap
      · rw [if_pos hc] at hd; cases hd
      · rw [if_neg hc] at hd
        by_cases he : isEnd b0 = true
        · rw [if_pos he] at hd
          injection hd with e1 e2
          subst e1; subst e2
          refine ⟨1, [b0, b1, b2, b3], isBt_one _ _ _ _ he, by simp, rfl, ?_⟩
          simp only [List.length_append, List.length_cons, List.length_nil]; omega
        · rw [if_neg he] at hd
          obtain ⟨n, bt, hbt, hw, hh, hl⟩ := ih rest _ h b (by simp at hk; omega) hd
          exact ⟨n + 1, b0 :: b1 :: b2 :: b3 :: bt, isBt_push _ _ _ _ _ _ (by simpa using he) hbt,
            by simp [hw], by simp [hh], hl⟩

/-- hop words and then fewer than four bytes: disconnect -/
theorem endLoop_close_short : ∀ (n : Nat) (hdr hs tail : Bytes), isHops n hs = true →
    tail.length < 4 → endLoop hdr (hs ++ tail) = .closePipe
  | 0, hdr, [], tail, _, ht => by simpa using endLoop_short hdr tail ht
  | 0, _, _ :: _, _, h, _ => by simp [isHops] at h
  | n + 1, _, [], _, h, _ => by simp [isHops] at h
  | n + 1, _, [_], _, h, _ => by simp [isHops] at h
  | n + 1, _, [_, _], _, h, _ => by simp [isHops] at h
  | n + 1, _, [_, _, _], _, h, _ => by simp [isHops] at h
  | n + 1, hdr, b0 :: b1 :: b2 :: b3 :: rest, tail, h, ht => by
    simp only [isHops, Bool.and_eq_true, Bool.not_eq_true'] at h
    simp only [List.cons_append]
    rw [endLoop_cons]
    by_cases hc : 4 + hdr.length > hcap
    · rw [if_pos hc]
    · rw [if_neg hc, if_neg (by simp [h.1])]
      exact endLoop_close_short n _ rest tail h.2 ht

/-- more hop words than the header can hold: `nni_msg_header_append` fails, disconnect -/
theorem endLoop_close_long : ∀ (n : Nat) (hdr hs W : Bytes), isHops n hs = true →
    hcap < hdr.length + 4 * n → endLoop hdr (hs ++ W) = .closePipe
  | 0, hdr, [], W, _, hc => by
    simp only [List.nil_append]
    by_cases hw : W.length < 4
    · exact endLoop_short _ _ hw
    · match W, hw with
      | [], hw | [_], hw | [_, _], hw | [_, _, _], hw => simp at hw
      | _ :: _ :: _ :: _ :: _, _ => rw [endLoop_cons, if_pos (by omega)]
  | 0, _, _ :: _, _, h, _ => by simp [isHops] at h
  | n + 1, _, [], _, h, _ => by simp [isHops] at h
  | n + 1, _, [_], _, h, _ => by simp [isHops] at h
  | n + 1, _, [_, _], _, h, _ => by simp [isHops] at h
  | n + 1, _, [_, _, _], _, h, _ => by simp [isHops] at h
  | n + 1, hdr, b0 :: b1 :: b2 :: b3 :: rest, W, h, hc => by
    simp only [isHops, Bool.and_eq_true, Bool.not_eq_true'] at h
    simp only [List.cons_append]
    rw [endLoop_cons]
    by_cases hc' : 4 + hdr.length > hcap
    · rw [if_pos hc']
    · rw [if_neg hc', if_neg (by simp [h.1])]
      exact endLoop_close_long n _ rest W h.2
        (by simp only [List.length_append, List.length_cons, List.length_nil]; omega)

/-! ### send side -/

theorem take4_w32 (p : Nat) (r : Bytes) : (w32 p ++ r).take 4 = w32 p := by
  rw [List.take_left' (length_w32 p)]

theorem drop4_w32 (p : Nat) (r : Bytes) : (w32 p ++ r).drop 4 = r := by
  rw [List.drop_left' (length_w32 p)]

theorem beDecode_w32 (p : Nat) (hp : p < 2 ^ 32) : beDecode (w32 p) = p := by
  unfold w32
  rw [Nng.Msg.beDecode_beEncode]
  exact Nat.mod_eq_of_lt (by simpa using hp)

/-- unwinding one word: the XREP send side pops exactly the word its receive side pushed -/
theorem xrepSend_push (p : Nat) (hp : p < 2 ^ 32) (bt B : Bytes) :
    xrepSend (w32 p ++ bt) B = some (p, bt ++ B) := by
  unfold xrepSend
  rw [if_neg (by simp), take4_w32, drop4_w32, beDecode_w32 p hp]
  rfl

/-! ### chains -/

/-- the words pushed by a list of pipes (first = most recent) -/
def hdrOf : List Nat → Bytes
  | [] => []
  | p :: ps => w32 p ++ hdrOf ps

theorem hdrOf_append (a b : List Nat) : hdrOf (a ++ b) = hdrOf a ++ hdrOf b := by
  induction a with
  | nil => rfl
  | cons p ps ih => simp [hdrOf, ih]

@[simp] theorem length_hdrOf (a : List Nat) : (hdrOf a).length = 4 * a.length := by
  induction a with
  | nil => rfl
  | cons p ps ih => simp [hdrOf, ih]; omega

theorem isBt_hdrOf (ps : List Nat) (hp : ∀ p ∈ ps, p < 2 ^ 31) (n : Nat) (bt : Bytes) (h : isBt n bt = true) :
    isBt (ps.length + n) (hdrOf ps ++ bt) = true := by
  induction ps with
  | nil => simpa [hdrOf] using h
  | cons p ps ih =>
    have := isBt_w32_push (ps.length + n) p (hdrOf ps ++ bt) (hp p (by simp)) (ih (fun q hq => hp q (by simp [hq])))
    simpa [hdrOf, Nat.add_assoc, Nat.add_comm, Nat.add_left_comm] using this

theorem hcap_eq : hcap = 64 := rfl

theorem xrepRecv_eq (ttl p : Nat) (w : Bytes) : xrepRecv ttl p w = ttlLoop ttl 1 (w32 p) w := by
  unfold xrepRecv appendU32Panics
  rw [if_neg (by simp [hcap_eq])]

/-- one stage, accepted: `n` words arrive, `n ≤ ttl` -/
theorem xrepRecv_accept (ttl p n : Nat) (bt B : Bytes) (h : isBt n bt = true) (hn : n ≤ ttl)
    (ht : ttl ≤ 15) : xrepRecv ttl p (bt ++ B) = .deliver (w32 p ++ bt) B := by
  rw [xrepRecv_eq]
  exact ttlLoop_accept ttl n 1 (w32 p) bt B h (by omega) (by rw [hcap_eq, length_w32]; omega)

/-- one stage, hop limit exceeded: `n > ttl` -/
theorem xrepRecv_drop (ttl p n : Nat) (bt B : Bytes) (h : isBt n bt = true) (hn : n > ttl)
    (ht : ttl ≤ 15) : xrepRecv ttl p (bt ++ B) = .drop := by
  rw [xrepRecv_eq]
  obtain ⟨hs, b0, b1, b2, b3, e, hh, _⟩ := isBt_split n bt h
  rw [e, List.append_assoc]
  exact ttlLoop_drop ttl (n - 1) 1 (w32 p) hs _ hh (by omega) (by rw [hcap_eq, length_w32]; omega)

theorem repRecv_accept (ttl n : Nat) (bt B : Bytes) (h : isBt n bt = true) (hn : n ≤ ttl)
    (ht : ttl ≤ 15) : repRecv ttl (bt ++ B) = .deliver bt B := by
  unfold repRecv
  have := ttlLoop_accept ttl n 1 [] bt B h (by omega) (by rw [hcap_eq]; simp; omega)
  simpa using this

theorem repRecv_drop (ttl n : Nat) (bt B : Bytes) (h : isBt n bt = true) (hn : n > ttl)
    (ht : ttl ≤ 15) : repRecv ttl (bt ++ B) = .drop := by
  unfold repRecv
  obtain ⟨hs, b0, b1, b2, b3, e, hh, _⟩ := isBt_split n bt h
  rw [e, List.append_assoc]
  exact ttlLoop_drop ttl (n - 1) 1 [] hs _ hh (by omega) (by rw [hcap_eq]; simp; omega)

/-- forward pass = the specification's `firstExceeded` -/
theorem forward_spec : ∀ (stages : List Stage) (n : Nat) (bt B : Bytes), isBt n bt = true →
    (∀ s ∈ stages, s.pipe < 2 ^ 31 ∧ s.ttl ≤ 15) →
    (firstExceeded n stages = none →
      forward stages (bt ++ B) = some (hdrOf (stages.map (·.pipe)).reverse ++ bt ++ B)) ∧
    (∀ j, firstExceeded n stages = some j →
      forward stages (bt ++ B) = none ∧ forwardStop stages (bt ++ B) = some j)
  | [], n, bt, B, _, _ => by simp [firstExceeded, forward, hdrOf]
  | s :: rest, n, bt, B, h, hs => by
    have hs0 := hs s (by simp)
    have hrest : ∀ s' ∈ rest, s'.pipe < 2 ^ 31 ∧ s'.ttl ≤ 15 := fun s' h' => hs s' (by simp [h'])
    by_cases hn : n > s.ttl
    · simp only [firstExceeded, if_pos hn]
      refine ⟨by simp, ?_⟩
      intro j hj
      injection hj with hj; subst hj
      simp [forward, forwardStop, xrepRecv_drop s.ttl s.pipe n bt B h hn hs0.2]
    · have hacc := xrepRecv_accept s.ttl s.pipe n bt B h (by omega) hs0.2
      have ih := forward_spec rest (n + 1) (w32 s.pipe ++ bt) B (isBt_w32_push n s.pipe bt hs0.1 h) hrest
      simp only [firstExceeded, if_neg hn]
      constructor
      · intro hf
        have hf' : firstExceeded (n + 1) rest = none := by
          cases hx : firstExceeded (n + 1) rest with
          | none => rfl
          | some j => rw [hx] at hf; simp at hf
        have := ih.1 hf'
        simp only [forward, hacc, device, xreqSend, wire]
        rw [this]
        simp [hdrOf_append, hdrOf]
      · intro j hj
        cases hx : firstExceeded (n + 1) rest with
        | none => rw [hx] at hj; simp at hj
        | some j' =>
          rw [hx] at hj
          simp only [Option.map_some, Option.some.injEq] at hj
          subst hj
          have := ih.2 j' hx
          simp only [forward, forwardStop, hacc, device, xreqSend, wire]
          rw [this.1, this.2]
          simp

/-- backward pass: the words pushed by `ps` route the reply over exactly `ps` -/
theorem backward_spec : ∀ (ps : List Nat) (n : Nat) (bt B : Bytes), isBt n bt = true →
    (∀ p ∈ ps, p < 2 ^ 31) → 4 * (ps.length + n) ≤ hcap →
    backward ps.length (hdrOf ps ++ bt ++ B) = some (ps, bt ++ B)
  | [], n, bt, B, _, _, _ => by simp [backward, hdrOf]
  | p :: ps, n, bt, B, h, hp, hc => by
    have hps : ∀ q ∈ ps, q < 2 ^ 31 := fun q hq => hp q (by simp [hq])
    have hbt := isBt_hdrOf (p :: ps) hp n bt h
    have hrecv : xreqRecv (hdrOf (p :: ps) ++ bt ++ B) = .deliver (hdrOf (p :: ps) ++ bt) B := by
      unfold xreqRecv
      have := endLoop_accept ((p :: ps).length + n) [] (hdrOf (p :: ps) ++ bt) B hbt (by simpa using hc)
      simpa using this
    have hp0 : p < 2 ^ 32 := by have := hp p (by simp); omega
    have hsend : xrepSend (hdrOf (p :: ps) ++ bt) B = some (p, hdrOf ps ++ bt ++ B) := by
      have := xrepSend_push p hp0 (hdrOf ps ++ bt) B
      simpa [hdrOf, List.append_assoc] using this
    have ih := backward_spec ps n bt B h hps (by simp only [List.length_cons] at hc; omega)
    simp only [List.length_cons, backward, hrecv, device, hsend, ih]
    simp

theorem firstExceeded_append (r : Stage) : ∀ (a : List Stage) (n : Nat),
    firstExceeded n (a ++ [r]) =
      match firstExceeded n a with
      | some j => some j
      | none => if n + a.length > r.ttl then some a.length else none
  | [], n => by simp [firstExceeded]
  | s :: a, n => by
    simp only [List.cons_append, firstExceeded]
    by_cases hn : n > s.ttl
    · simp [hn]
    · simp only [if_neg hn, firstExceeded_append r a (n + 1)]
      cases firstExceeded (n + 1) a with
      | some j => simp
      | none =>
        simp only [List.length_cons]
        by_cases h2 : n + 1 + a.length > r.ttl
        · rw [if_pos h2, if_pos (by omega)]; simp
        · rw [if_neg h2, if_neg (by omega)]; simp

/-- with all hop limits ≤ T, a message carrying `n` words is discarded within any
    non-empty path of more than `T + 1 - n` stages -/
theorem firstExceeded_bound (T : Nat) : ∀ (stages : List Stage) (n : Nat), stages ≠ [] →
    (∀ s ∈ stages, s.ttl ≤ T) → n + stages.length > T + 1 → firstExceeded n stages ≠ none
  | [], _, hne, _, _ => absurd rfl hne
  | s :: rest, n, _, hs, hl => by
    simp only [firstExceeded]
    by_cases hn : n > s.ttl
    · simp [hn]
    · rw [if_neg hn]
      have hs0 := hs s (by simp)
      by_cases hr : rest = []
      · subst hr; simp at hl; omega
      · have := firstExceeded_bound T rest (n + 1) hr (fun s' h' => hs s' (by simp [h'])) (by simp at hl; omega)
        cases hx : firstExceeded (n + 1) rest with
        | none => exact absurd hx this
        | some j => simp

theorem forwardS_eq : ∀ (stages : List Stage) (w : Bytes), forwardS stages w = forward stages w
  | [], _ => rfl
  | s :: rest, w => by
    simp only [forwardS, forward]
    rw [show xrespondRecv s.ttl s.pipe w = xrepRecv s.ttl s.pipe w from rfl]
    cases xrepRecv s.ttl s.pipe w <;> simp only []
    exact forwardS_eq rest _

theorem forwardStopS_eq : ∀ (stages : List Stage) (w : Bytes), forwardStopS stages w = forwardStop stages w
  | [], _ => rfl
  | s :: rest, w => by
    simp only [forwardStopS, forwardStop]
    rw [show xrespondRecv s.ttl s.pipe w = xrepRecv s.ttl s.pipe w from rfl]
    cases xrepRecv s.ttl s.pipe w <;> simp only []
    rw [show xsurveySend = xreqSend from rfl, forwardStopS_eq rest _]

theorem backwardS_eq : ∀ (k : Nat) (w : Bytes), backwardS k w = backward k w
  | 0, _ => rfl
  | k + 1, w => by
    simp only [backwardS, backward]
    rw [show xsurveyRecv w = xreqRecv w from rfl]
    cases xreqRecv w <;> simp only []
    rename_i h b
    rw [show xrespondSend = xrepSend from rfl]
    cases xrepSend (device (h, b)).1 (device (h, b)).2 with
    | none => rfl
    | some r => simp only []; rw [backwardS_eq k _]

end Nng.Bt
