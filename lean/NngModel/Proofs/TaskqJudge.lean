/- the specification's judge (Spec/Taskq.lean) accepts every contract-respecting run of the model -/
import NngModel.Proofs.TaskqTerm
import NngModel.Proofs.TaskqContract
import NngModel.Model.TaskqObs
namespace Nng.Taskq
open Nng.TaskqSpec

/-! ### results returned in a step -/

theorem newRes_self (l : List (List Res)) : newRes l l = [] := by
  induction l with
  | nil => rfl
  | cons x xs ih => simp [newRes, ih]

theorem newRes_set {l : List (List Res)} {i : Nat} {x : List Res} (h : l[i]? = some x) (y : List Res) :
    newRes l (l.set i y) = y.drop x.length := by
  induction l generalizing i with
  | nil => simp at h
  | cons a as ih =>
    cases i with
    | zero =>
      simp at h; subst h
      simp [newRes, newRes_self]
    | succ i =>
      simp at h
      simp [newRes, ih h]

theorem map_res_wakeAll (cs : List Client) : (wakeAll cs).map (·.res) = cs.map (·.res) := by
  simp only [wakeAll, List.map_map]
  congr 1
  funext c
  by_cases h : c.pc = .waitSleep <;> simp [h]

/-- how the ghost counters the judge looks at move in one step -/
def GhostRel (s s' : State) : Prop :=
  s.ce ≤ s'.ce ∧
  ((s'.pr = s.pr + 1 ∧ s'.sd = s.sd ∧ s'.sx = s.sx ∧ s'.owed = s.owed + 1 ∧ s.owed = 0) ∨
   (s'.pr = s.pr ∧ s'.sd + s'.sx = s.sd + s.sx + 1 ∧ s.sd ≤ s'.sd ∧ s.sx ≤ s'.sx ∧ s'.owed = s.owed - 1 ∧
      (s.sd < s'.sd → s.sd = s.bw)) ∨
   (s'.pr = s.pr ∧ s'.sd = s.sd ∧ s'.sx = s.sx ∧ s'.owed = s.owed))

/-- a wait returns / busy says false only with task_busy = 0, busy says true only with task_busy ≠ 0,
    and such a step leaves task_busy alone -/
def RetOk (s s' : State) : Prop :=
  ∀ r ∈ newRes (s.cs.map (·.res)) (s'.cs.map (·.res)),
    s'.busy = s.busy ∧ ((r = .waited ∨ r = .busy false) → s.busy = 0) ∧ (r = .busy true → s.busy ≠ 0)

def StepRel (s s' : State) : Prop := GhostRel s s' ∧ RetOk s s'

theorem stepRel_refl (s : State) : StepRel s s :=
  ⟨⟨Nat.le_refl _, Or.inr (Or.inr ⟨rfl, rfl, rfl, rfl⟩)⟩, by simp [RetOk, newRes_self]⟩

theorem stepRel_wstep (s : State) (j : Nat) (w : WPc) : StepRel s (wstep s j w) := by
  cases w <;> unfold wstep
  · by_cases hq : s.onq = true <;> simp [hq, StepRel, GhostRel, RetOk, newRes_self]
  · exact stepRel_refl s
  · simp [StepRel, GhostRel, RetOk, newRes_self]
  · simp [StepRel, GhostRel, RetOk, newRes_self]
  · unfold decBusy
    by_cases hb : s.busy = 1 <;> simp [hb, StepRel, GhostRel, RetOk, newRes_self, map_res_wakeAll]

def allowedC (s : State) (c : Client) : Prop :=
  match c.pc, c.prog with
  | .idle, .dispatch :: _ => s.sd = s.bw
  | .idle, .prep :: _ => s.owed = 0
  | _, _ => True

theorem stepRel_cstep (hasCb : Bool) {s : State} (hK : InvK s) {i : Nat} {c : Client} (hi : s.cs[i]? = some c)
    (pick : Nat) (ha : allowedC s c) : StepRel s (cstep hasCb s i c pick) := by
  have hn := fun y => newRes_set (l := s.cs.map (·.res)) (i := i) (x := c.res) (by simp [hi]) y
  have k2 := hK.k2
  obtain ⟨pc, prog, res⟩ := c
  cases pc with
  | waitSleep => exact stepRel_refl s
  | idle =>
    cases prog with
    | nil => exact stepRel_refl s
    | cons op r =>
      cases op with
      | prep =>
        simp only [allowedC] at ha
        simp [cstep, StepRel, GhostRel, RetOk, hn, ha]
      | busy =>
        by_cases hb : s.busy = 0 <;> simp [cstep, StepRel, GhostRel, RetOk, hn, hb]
      | wait =>
        unfold cstep
        by_cases hb : s.busy = 0 <;> simp [StepRel, GhostRel, RetOk, hn, hb]
      | dispatch =>
        simp only [allowedC] at ha
        unfold cstep take
        cases hasCb <;> by_cases hp : s.prep = true <;>
          simp [hp] at k2 <;> by_cases hb1 : s.busy = 1 <;> by_cases hb0 : s.busy = 0 <;>
          simp [decBusy, hp, hb1, hb0, StepRel, GhostRel, RetOk, hn, map_res_wakeAll, ha, k2] <;> omega
      | exec =>
        unfold cstep take
        cases hasCb <;> by_cases hp : s.prep = true <;>
          simp [hp] at k2 <;> by_cases hb1 : s.busy = 1 <;> by_cases hb0 : s.busy = 0 <;>
          simp [decBusy, hp, hb1, hb0, StepRel, GhostRel, RetOk, hn, map_res_wakeAll, k2] <;> omega
  | dispEnq =>
    unfold cstep
    by_cases hq : s.onq = true <;> simp [hq, StepRel, GhostRel, RetOk, hn, newRes_self]
  | execPop => simp [cstep, StepRel, GhostRel, RetOk, hn]
  | execCb => simp [cstep, StepRel, GhostRel, RetOk, hn]
  | execAfter =>
    unfold cstep decBusy
    by_cases hb : s.busy = 1 <;> simp [hb, StepRel, GhostRel, RetOk, hn, map_res_wakeAll]
  | waitChk =>
    unfold cstep
    by_cases hb : s.busy = 0 <;> simp [StepRel, GhostRel, RetOk, hn, hb]

theorem allowed_allowedC {s : State} {ch : Choice} {i : Nat} {c : Client} (ht : ch.tid = .c i)
    (hi : s.cs[i]? = some c) (ha : allowed s ch = true) : allowedC s c := by
  unfold allowed at ha
  rw [ht] at ha
  simp only [hi] at ha
  unfold allowedC
  obtain ⟨pc, prog, res⟩ := c
  cases pc <;> try trivial
  cases prog with
  | nil => trivial
  | cons op r => cases op <;> simp_all

theorem stepRel_step (hasCb : Bool) {s : State} (hK : InvK s) (ch : Choice) (ha : allowed s ch = true) :
    StepRel s (step hasCb s ch) := by
  unfold step
  split
  · exact stepRel_refl s
  · cases hc : ch.tid with
    | w j =>
      simp only []
      cases hj : s.ws[j]? with
      | none => exact stepRel_refl s
      | some w => exact stepRel_wstep s j w
    | c i =>
      simp only []
      cases hi : s.cs[i]? with
      | none => exact stepRel_refl s
      | some c => exact stepRel_cstep hasCb hK hi ch.pick (allowed_allowedC hc hi ha)

theorem live_false {s : State} (h : s.live = false) : ∀ ch, enabled s ch = false := by
  intro ch
  unfold State.live at h
  unfold enabled
  cases hp : s.panic with
  | true => simp
  | false =>
    simp only [hp, Bool.not_false, Bool.true_and, Bool.or_eq_false_iff, List.any_eq_false] at h ⊢
    cases ch.tid with
    | w j =>
      simp only []
      cases hj : s.ws[j]? with
      | none => rfl
      | some w =>
        have := h.1 w (List.mem_of_getElem? hj)
        simpa using this
    | c i =>
      simp only []
      cases hi : s.cs[i]? with
      | none => rfl
      | some c =>
        have := h.2 c (List.mem_of_getElem? hi)
        simpa using this

/-- the counter law: task_busy = (unconsumed prep) + (dispatch/exec calls) - (completed executions) -/
theorem busy_law {s : State} (h : Inv s) : s.busy + s.dn = s.owed + (s.sd + s.sx) := by
  have := h.busyEq; have := h.sdEq; have := h.sxEq; have := h.bEq; have := h.ceEq
  omega

theorem clauses_ok {s s' : State} (hI : Inv s') (hK : InvK s') (serial : Bool) (hser : serial = true → Serial s')
    (hret : RetOk s s') : clauses s'.owed serial (obsOf s) (obsOf s') = none := by
  have hlaw := busy_law hI
  have h2 := hI.sdEq; have h3 := hI.sxEq; have h4 := hI.bEq; have h5 := hI.ceEq
  have c1 : (obsOf s').panic = false := hK.noPanic
  have c2 : ((obsOf s').sd < (obsOf s').bw || (obsOf s').sx < (obsOf s').bx) = false := by
    simp only [obsOf, Bool.or_eq_false_iff]
    refine ⟨decide_eq_false ?_, decide_eq_false ?_⟩ <;> omega
  have c3 : (begun (obsOf s') < (obsOf s').ce || (obsOf s').ce < (obsOf s').dn) = false := by
    simp only [obsOf, begun, Bool.or_eq_false_iff]
    refine ⟨decide_eq_false ?_, decide_eq_false ?_⟩ <;> omega
  have c4 : ((obsOf s').busy + (obsOf s').dn != s'.owed + started (obsOf s')) = false := by
    simp [obsOf, started]; omega
  have hidle : idleNow s'.owed (obsOf s') = decide (s'.busy = 0) := by
    simp only [idleNow, obsOf, started]
    by_cases hb : s'.busy = 0
    · simp [hb]; omega
    · simp [hb]; omega
  have c5 : ((newRes (obsOf s).res (obsOf s').res).any (fun r => r == .waited || r == .busy false) &&
      !idleNow s'.owed (obsOf s')) = false := by
    rw [hidle]
    cases hany : (newRes (obsOf s).res (obsOf s').res).any (fun r => r == .waited || r == .busy false) with
    | false => rfl
    | true =>
      simp only [List.any_eq_true, Bool.or_eq_true, beq_iff_eq] at hany
      obtain ⟨r, hr, hw⟩ := hany
      have := hret r (by simpa [obsOf] using hr)
      have hb : s'.busy = 0 := by rw [this.1]; exact this.2.1 hw
      simp [hb]
  have c6 : ((newRes (obsOf s).res (obsOf s').res).any (· == .busy true) && idleNow s'.owed (obsOf s')) = false := by
    rw [hidle]
    cases hany : (newRes (obsOf s).res (obsOf s').res).any (· == .busy true) with
    | false => rfl
    | true =>
      simp only [List.any_eq_true, beq_iff_eq] at hany
      obtain ⟨r, hr, hw⟩ := hany
      have := hret r (by simpa [obsOf] using hr)
      have hb : s'.busy ≠ 0 := by rw [this.1]; exact this.2.2 hw
      simp [hb]
  have c7 : (serial && decide ((obsOf s').ce + 1 < begun (obsOf s'))) = false := by
    cases serial with
    | false => rfl
    | true =>
      have := hser rfl
      unfold Serial at this
      simp only [Bool.true_and, obsOf, begun]
      refine decide_eq_false ?_
      omega
  have c89 : (obsOf s').live = false →
      started (obsOf s') = (obsOf s').dn ∧ (s'.owed = 0 → (obsOf s').fin = true) := by
    intro hl
    have hst := stuck_shape hI hK.noPanic (live_false hl)
    obtain ⟨hw, hq, hb, _, hfin⟩ := hst
    constructor
    · simp only [obsOf, started]; omega
    · intro ho
      simp only [obsOf, List.all_eq_true]
      exact hfin ho
  have c8 : (!(obsOf s').live && started (obsOf s') != (obsOf s').dn) = false := by
    cases hl : (obsOf s').live with
    | true => rfl
    | false => simp [(c89 hl).1]
  have c9 : (!(obsOf s').live && !(obsOf s').fin && s'.owed == 0) = false := by
    cases hl : (obsOf s').live with
    | true => rfl
    | false =>
      by_cases ho : s'.owed = 0
      · simp [(c89 hl).2 ho]
      · simp [ho]
  unfold clauses
  rw [c1]
  simp only [Bool.false_eq_true, if_false, c2, c3, c4, c5, c6, c7, c8, c9]

/-- one observation: the judge stays on, says ok, and its state keeps tracking the model -/
theorem judge_obs {s s' : State} (hK : InvK s) (hI' : Inv s') (hK' : InvK s') (hrel : StepRel s s')
    (serial : Bool) (hser : serial = true → Serial s) :
    judgeStep { prev := obsOf s, owed := s.owed, serial := serial, off := false } (obsOf s') =
      ({ prev := obsOf s', owed := s'.owed, serial := serialNext serial (obsOf s) (obsOf s'), off := false }, .ok) ∧
    (serialNext serial (obsOf s) (obsOf s') = true → Serial s') := by
  obtain ⟨⟨hce, hg⟩, hret⟩ := hrel
  have hcon : contractStep s.owed (obsOf s) (obsOf s') = none := by
    unfold contractStep
    rcases hg with ⟨h1, h2, h3, h4, h5⟩ | ⟨h1, h2, h3, h4, h5, h6⟩ | ⟨h1, h2, h3, h4⟩
    · simp [obsOf, h1, h2, h5]
    · by_cases hlt : s.sd < s'.sd
      · simp [obsOf, h1, h6 hlt]
      · simp [obsOf, h1, hlt]
    · simp [obsOf, h1, h2]
  have howed : owedNext s.owed (obsOf s) (obsOf s') = s'.owed := by
    unfold owedNext
    rcases hg with ⟨h1, h2, h3, h4, h5⟩ | ⟨h1, h2, h3, h4, h5, h6⟩ | ⟨h1, h2, h3, h4⟩
    · simp [obsOf, h1, h4]
    · simp [obsOf, started, h1, h2, h5]
    · simp [obsOf, started, h1, h2, h3, h4]
  have hserial : serialNext serial (obsOf s) (obsOf s') = true → Serial s' := by
    intro hs
    simp only [serialNext, Bool.and_eq_true, Bool.not_eq_true', Bool.and_eq_false_iff, decide_eq_false_iff_not,
      bne_eq_false_iff_eq] at hs
    have h0 := hser hs.1
    unfold Serial at h0 ⊢
    simp only [obsOf, started] at hs
    rcases hg with ⟨h1, h2, h3, h4, h5⟩ | ⟨h1, h2, h3, h4, h5, h6⟩ | ⟨h1, h2, h3, h4⟩
    · omega
    · rcases hs.2 with h | h
      · omega
      · omega
    · omega
  refine ⟨?_, hserial⟩
  unfold judgeStep
  simp only [Bool.false_eq_true, if_false, hcon, howed]
  rw [clauses_ok hI' hK' _ hserial hret]

theorem judgeFrom_run (hasCb : Bool) {s : State} (hI : Inv s) (hK : InvK s) (serial : Bool)
    (hser : serial = true → Serial s) (sched : List Choice) (hr : respects hasCb s sched = true) :
    judgeFrom { prev := obsOf s, owed := s.owed, serial := serial, off := false }
      ((trace hasCb s sched).map obsOf) = none := by
  induction sched generalizing s serial with
  | nil => rfl
  | cons c cs ih =>
    simp only [respects, Bool.and_eq_true] at hr
    have hI' := inv_step hasCb hI c
    have hK' := invK_step hasCb hI hK c hr.1
    have ⟨hj, hs⟩ := judge_obs hK hI' hK' (stepRel_step hasCb hK c hr.1) serial hser
    simp only [trace, List.map_cons, judgeFrom, hj]
    exact ih hI' hK' _ hs hr.2

/-- the judge, started as the driver starts it (first observation = the initial state), accepts every
    contract-respecting run from nni_taskq_init / nni_task_init -/
theorem judgeFrom_model (hasCb : Bool) (nw : Nat) (hw : 0 < nw) (progs : List (List Op)) (sched : List Choice)
    (hr : respects hasCb (init nw progs) sched = true) :
    judgeFrom { prev := obsOf (init nw progs) }
      (obsOf (init nw progs) :: (trace hasCb (init nw progs) sched).map obsOf) = none := by
  have hI := inv_init nw hw progs
  have hK := invK_init nw progs
  have hser : true = true → Serial (init nw progs) := fun _ => by simp [Serial, init]
  have ⟨hj, hs⟩ := judge_obs hK hI hK (stepRel_refl _) true hser
  have h0 : (init nw progs).owed = 0 := rfl
  rw [h0] at hj
  simp only [judgeFrom, hj]
  have := judgeFrom_run hasCb hI hK _ hs sched hr
  rw [h0] at this
  exact this

end Nng.Taskq
