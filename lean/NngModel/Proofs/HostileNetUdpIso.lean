/-
  C11T — isolation for `udpRun` (Model/HostileNet.lean), the settled model the REAL executor is compared with:
  below the peer limit and for a socket that is not PAIR (PAIR admits one pipe: exclusivity is C08's business),
  what nng answers to, hands over from and delivers for one sender does not depend on any other sender's datagrams.
-/
import NngModel.Proofs.HostileNetArmed
namespace Nng.Hostile
open Nng

theorem uLookup_filter_ne (l : List (Nat × UAssoc)) (s a : Nat) (h : a ≠ s) : uLookup (uErase l s) a = uLookup l a := by
  unfold uErase
  induction l with
  | nil => rfl
  | cons e l ih =>
    by_cases he : e.1 = s
    · rw [List.filter_cons_of_neg (by simp [he]), ih, uLookup_cons]
      have : e.1 ≠ a := by rw [he]; exact fun x => h x.symm
      simp [this]
    · rw [List.filter_cons_of_pos (by simp [he]), uLookup_cons, uLookup_cons, ih]

theorem uLookup_filter_self (l : List (Nat × UAssoc)) (s : Nat) : uLookup (uErase l s) s = none := by
  unfold uErase
  induction l with
  | nil => rfl
  | cons e l ih =>
    by_cases he : e.1 = s
    · rw [List.filter_cons_of_neg (by simp [he]), ih]
    · rw [List.filter_cons_of_pos (by simp [he]), uLookup_cons, ih]; simp [he]

theorem uLookup_append (l : List (Nat × UAssoc)) (s a : Nat) (y : UAssoc) :
    uLookup (l ++ [(s, y)]) a = match uLookup l a with | some x => some x | none => if s = a then some y else none := by
  induction l with
  | nil => simp [uLookup_cons, uLookup]
  | cons e l ih =>
    simp only [List.cons_append, uLookup_cons]
    by_cases he : e.1 = a
    · simp [he]
    · simp [he, ih]

theorem uLookup_uWrite_ne (l : List (Nat × UAssoc)) (s a : Nat) (v : Option UAssoc) (h : a ≠ s) :
    uLookup (uWrite l s v) a = uLookup l a := by
  cases v with
  | none => exact uLookup_filter_ne l s a h
  | some y =>
    simp only [uWrite]
    split
    · rfl
    · rw [uLookup_append]
      cases uLookup l a with
      | some x => rfl
      | none => simp only; rw [if_neg (fun x : s = a => h x.symm)]

theorem uWrite_length_le (l : List (Nat × UAssoc)) (s : Nat) (v : Option UAssoc) : (uWrite l s v).length ≤ l.length + 1 := by
  cases v with
  | none => exact Nat.le_succ_of_le (List.length_filter_le _ _)
  | some y => simp only [uWrite]; split <;> simp

/-- what the association written back looks like from its own address, given what `uP` may return:
    either what was found, or nothing, or (only from nothing) a new one -/
theorem uLookup_uWrite_self (l : List (Nat × UAssoc)) (s : Nat) (v : Option UAssoc)
    (hv : ∀ y, v = some y → uLookup l s = some y ∨ uLookup l s = none) : uLookup (uWrite l s v) s = v := by
  cases v with
  | none => exact uLookup_filter_self l s
  | some y =>
    simp only [uWrite]
    rcases hv y rfl with h | h
    · simp [h]
    · simp [h, uLookup_append]

/-- `uOnAct` returns the association it found, none, or — from none — a new one -/
theorem uOnAct_keeps (pc : PCfg) (lim busy : Bool) (act : UdpAct) (a : Option UAssoc) (y : UAssoc)
    (h : (uOnAct pc lim busy act a).1 = some y) : a = some y ∨ a = none := by
  cases a with
  | none => right; rfl
  | some x =>
    left
    cases act with
    | ignore => simpa [uOnAct] using h
    | noMatch => simpa [uOnAct] using h
    | data pl =>
      simp only [uOnAct] at h
      generalize protoRecv pc 0 none pl = pr at h
      cases pr <;> simp at h <;> rw [h]
    | discMsgsize => simp [uOnAct] at h
    | creq t rm rf =>
      simp only [uOnAct] at h
      by_cases h1 : x.peer = t
      · by_cases h2 : rf = 0
        · simp [h1, h2] at h
        · simp [h1, h2] at h; rw [h]
      · simp [h1] at h
    | cack t rm rf =>
      simp only [uOnAct] at h
      by_cases h1 : x.peer = t
      · by_cases h2 : rf = 0
        · simp [h1, h2] at h
        · simp [h1, h2] at h; rw [h]
      · simp [h1] at h
    | disc r => simp [uOnAct] at h
    | discProto => simpa [uOnAct] using h

/-! ### views -/

/-- what nng does for the datagrams of sender `B` (in `udpRun`'s output: the entries at `B`'s datagrams) -/
def uView (pc : PCfg) (B : Nat) : UEp → List (Nat × Bytes) → List UOut
  | _, [] => []
  | u, (s, d) :: rest => (if s = B then [(udpStep pc u s d).2] else []) ++ uView pc B (udpStep pc u s d).1 rest

def uFinal (pc : PCfg) : UEp → List (Nat × Bytes) → UEp
  | u, [] => u
  | u, (s, d) :: rest => uFinal pc (udpStep pc u s d).1 rest

theorem uView_is_filter (pc : PCfg) (B : Nat) (ds : List (Nat × Bytes)) : ∀ (u : UEp),
    uView pc B u ds = ((ds.zip (udpRun pc u ds)).filter (·.1.1 == B)).map (·.2) := by
  induction ds with
  | nil => intro u; rfl
  | cons x rest ih =>
    intro u
    obtain ⟨s, d⟩ := x
    simp only [uView, udpRun, List.zip_cons_cons, ih]
    by_cases hs : s = B
    · simp [hs]
    · simp [hs]

/-- room for `n` more associations (or no limit) -/
def USlack (u : UEp) (n : Nat) : Prop := u.maxPeers = 0 ∨ u.others + u.assocs.length + n < u.maxPeers

theorem USlack.limit {u : UEp} {n : Nat} (h : USlack u n) : uLimit u = false := by
  unfold uLimit
  rcases h with h | h
  · simp [h]
  · simp; intro _; omega

theorem udpStep_fields (pc : PCfg) (u : UEp) (s : Nat) (d : Bytes) :
    (udpStep pc u s d).1.rcvmax = u.rcvmax ∧ (udpStep pc u s d).1.maxPeers = u.maxPeers ∧
    (udpStep pc u s d).1.others = u.others ∧ (udpStep pc u s d).1.assocs.length ≤ u.assocs.length + 1 := by
  rw [udpStep_eq]
  exact ⟨rfl, rfl, rfl, uWrite_length_le _ _ _⟩

theorem USlack.step {u : UEp} {n : Nat} (h : USlack u (n + 1)) (pc : PCfg) (s : Nat) (d : Bytes) :
    USlack (udpStep pc u s d).1 n := by
  obtain ⟨_, h2, h3, h4⟩ := udpStep_fields pc u s d
  rcases h with h | h
  · exact Or.inl (by rw [h2]; exact h)
  · right; rw [h2, h3]; omega

theorem USlack.mono {u : UEp} {n m : Nat} (h : USlack u n) (hm : m ≤ n) : USlack u m := by
  rcases h with h | h
  · exact Or.inl h
  · exact Or.inr (by omega)

theorem uBusy_nonpair (pc : PCfg) (u : UEp) (h : pc.proto.isPair = false) : uBusy pc u = pc.busy := by
  simp [uBusy, h]

/-- two endpoints that agree on `B` (and the limits) and both have room: `B`'s datagram does the same on both -/
theorem udpStep_agree (pc : PCfg) (hp : pc.proto.isPair = false) (u v : UEp) (B : Nat) (d : Bytes)
    (hr : u.rcvmax = v.rcvmax) (hl : uLookup u.assocs B = uLookup v.assocs B) (hu : uLimit u = false) (hv : uLimit v = false) :
    (udpStep pc u B d).2 = (udpStep pc v B d).2 ∧
    uLookup (udpStep pc u B d).1.assocs B = uLookup (udpStep pc v B d).1.assocs B := by
  rw [udpStep_eq, udpStep_eq, uBusy_nonpair pc u hp, uBusy_nonpair pc v hp, hu, hv, hr, hl]
  refine ⟨rfl, ?_⟩
  simp only
  rw [uLookup_uWrite_self, uLookup_uWrite_self]
  · intro y hy
    have := uOnAct_keeps pc false pc.busy _ _ y hy
    rcases this with h | h
    · left; exact h
    · right; exact h
  · intro y hy
    have := uOnAct_keeps pc false pc.busy _ _ y hy
    rw [← hl] at this
    rcases this with h | h
    · left; exact h
    · right; exact h

theorem udpStep_frame (pc : PCfg) (u : UEp) (s B : Nat) (d : Bytes) (h : B ≠ s) :
    uLookup (udpStep pc u s d).1.assocs B = uLookup u.assocs B := by
  rw [udpStep_eq]
  exact uLookup_uWrite_ne _ _ _ _ h

/-- ISOLATION for `udpRun`: with room below the peer limit and a socket that is not PAIR, erasing every other sender's
    datagrams changes neither what `B` gets back / has delivered nor the association `B` ends with. -/
theorem udpRun_iso (pc : PCfg) (hp : pc.proto.isPair = false) (B : Nat) (ds : List (Nat × Bytes)) :
    ∀ (u v : UEp), u.rcvmax = v.rcvmax → uLookup u.assocs B = uLookup v.assocs B →
      USlack u ds.length → USlack v (ds.filter (·.1 == B)).length →
      uView pc B u ds = uView pc B v (ds.filter (·.1 == B)) ∧
      uLookup (uFinal pc u ds).assocs B = uLookup (uFinal pc v (ds.filter (·.1 == B))).assocs B := by
  induction ds with
  | nil => intro u v _ hl _ _; exact ⟨rfl, hl⟩
  | cons x rest ih =>
    intro u v hr hl hu hv
    obtain ⟨s, d⟩ := x
    by_cases hs : s = B
    · subst hs
      simp only [List.filter_cons, beq_self_eq_true, if_true, List.length_cons] at hv ⊢
      simp only [List.length_cons] at hu
      obtain ⟨h1, h2⟩ := udpStep_agree pc hp u v s d hr hl (hu.mono (Nat.zero_le _)).limit (hv.mono (Nat.zero_le _)).limit
      have hr' : (udpStep pc u s d).1.rcvmax = (udpStep pc v s d).1.rcvmax := by
        rw [(udpStep_fields pc u s d).1, (udpStep_fields pc v s d).1, hr]
      have := ih _ _ hr' h2 (hu.step pc s d) (hv.step pc s d)
      simp only [uView, uFinal, if_true, h1, this.1, this.2]
      exact ⟨trivial, trivial⟩
    · have hsb : (s == B) = false := by simp [hs]
      simp only [List.filter_cons, hsb, Bool.false_eq_true, if_false] at hv ⊢
      simp only [List.length_cons] at hu
      have hr' : (udpStep pc u s d).1.rcvmax = v.rcvmax := by rw [(udpStep_fields pc u s d).1, hr]
      have hl' : uLookup (udpStep pc u s d).1.assocs B = uLookup v.assocs B := by
        rw [udpStep_frame pc u s B d (fun x => hs x.symm), hl]
      have := ih _ _ hr' hl' (hu.step pc s d) hv
      simp only [uView, uFinal, if_neg hs, List.nil_append]
      exact this


/-! ### size limit in `udpRun` -/

theorem uOnAct_tmsg (pc : PCfg) (lim busy : Bool) (act : UdpAct) (a : Option UAssoc) (m : Bytes)
    (h : (uOnAct pc lim busy act a).2.tmsg = some m) : act = .data m ∧ a.isSome = true := by
  cases a with
  | none => cases act <;> simp only [uOnAct] at h <;> (try split at h) <;> (try split at h) <;> (try split at h) <;> simp at h
  | some x =>
    cases act with
    | data pl =>
      simp only [uOnAct] at h
      generalize protoRecv pc 0 none pl = pr at h
      cases pr <;> simp at h <;> exact ⟨by rw [h], rfl⟩
    | creq t rm rf => simp only [uOnAct] at h; split at h <;> (try split at h) <;> simp at h
    | cack t rm rf => simp only [uOnAct] at h; split at h <;> (try split at h) <;> simp at h
    | ignore => simp [uOnAct] at h
    | noMatch => simp [uOnAct] at h
    | discMsgsize => simp [uOnAct] at h
    | disc r => simp [uOnAct] at h
    | discProto => simp [uOnAct] at h

theorem udpStep_tmsg_small (pc : PCfg) (u : UEp) (s : Nat) (d : Bytes) (m : Bytes) (h : (udpStep pc u s d).2.tmsg = some m) :
    m.length ≤ u.rcvmax ∧ udpRxCb d true u.rcvmax = .data m ∧ (uLookup u.assocs s).isSome = true := by
  rw [udpStep_eq] at h
  simp only [uP] at h
  obtain ⟨h1, h2⟩ := uOnAct_tmsg pc _ _ _ _ m h
  rw [h2] at h1
  exact ⟨(udpRxCb_data_len _ _ _ _ h1).1, h1, h2⟩

theorem udpRun_tmsg_small (pc : PCfg) (ds : List (Nat × Bytes)) : ∀ (u : UEp), ∀ o ∈ udpRun pc u ds, ∀ m, o.tmsg = some m →
    m.length ≤ u.rcvmax := by
  induction ds with
  | nil => intro u o ho; simp [udpRun] at ho
  | cons x rest ih =>
    intro u o ho m hm
    obtain ⟨s, d⟩ := x
    simp only [udpRun, List.mem_cons] at ho
    rcases ho with ho | ho
    · rw [ho] at hm; exact (udpStep_tmsg_small pc u s d m hm).1
    · have := ih _ o ho m hm
      rw [(udpStep_fields pc u s d).1] at this
      exact this

/-- what the application gets was handed over by the transport for that very datagram -/
theorem uOnAct_deliver (pc : PCfg) (lim busy : Bool) (act : UdpAct) (a : Option UAssoc) (hb : Bytes × Bytes)
    (h : (uOnAct pc lim busy act a).2.deliver = some hb) :
    ∃ m, (uOnAct pc lim busy act a).2.tmsg = some m ∧ protoRecv pc 0 none m = .deliver hb.1 hb.2 := by
  cases a with
  | none => cases act <;> simp only [uOnAct] at h <;> (try split at h) <;> (try split at h) <;> (try split at h) <;> simp at h
  | some x =>
    cases act with
    | data pl =>
      simp only [uOnAct] at h ⊢
      cases hpr : protoRecv pc 0 none pl <;> rw [hpr] at h <;> simp at h
      refine ⟨pl, by simp, ?_⟩
      rw [← h]
      exact hpr
    | creq t rm rf => simp only [uOnAct] at h; split at h <;> (try split at h) <;> simp at h
    | cack t rm rf => simp only [uOnAct] at h; split at h <;> (try split at h) <;> simp at h
    | ignore => simp [uOnAct] at h
    | noMatch => simp [uOnAct] at h
    | discMsgsize => simp [uOnAct] at h
    | disc r => simp [uOnAct] at h
    | discProto => simp [uOnAct] at h

end Nng.Hostile
