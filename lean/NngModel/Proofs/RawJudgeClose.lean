/-
  Raw judges vs raw models: a pipe closes (`closePipe` / the judge on `pclosed`), and the pipe
  events `pipe_add`, `pipe_drop`.
-/
import NngModel.Proofs.RawJudgeRel
namespace Nng.RawSurv
open Nng Nng.Proto Nng.RawMq Nng.RawSurveySpec

/-- a pipe after pipe_close -/
def closedOf (pp : Pipe) : Pipe :=
  { pp with closed := true, armed := false, sq := RawMq.close pp.sq, dropped := pp.dropped ++ pp.sq.items }

theorem closePipe_eq {s : State} {p : Nat} {pp : Pipe} (hg : getPipe s p = some pp) (hc : pp.closed = false) :
    closePipe s p =
      ({ s with pipes := s.pipes.set p (closedOf pp),
                urq := { s.urq with putq := s.urq.putq.filter (·.tag != p) },
                lost := s.lost ++ (s.urq.putq.filter (·.tag == p)).map (·.msg) }, [.pclosed p]) := by
  unfold closePipe
  rw [hg]
  simp only [hc, Bool.false_eq_true, if_false]
  rfl

theorem closePipe_noop {s : State} {p : Nat} (h : livePipe s p = false) : closePipe s p = (s, []) := by
  unfold closePipe
  unfold livePipe at h
  cases hg : getPipe s p with
  | none => rfl
  | some pp =>
    rw [hg] at h
    have : pp.closed = true := by simpa using h
    simp [this]

theorem mark_body (p : Nat) (h : Held) : (mark p h).body = h.body := by
  unfold mark; split <;> rfl

theorem mark_pipe (p : Nat) (h : Held) : (mark p h).pipe = h.pipe := by
  unfold mark; split <;> rfl

theorem set_get_self {α : Type} {l : List α} {p : Nat} {x y : α} (hg : l[p]? = some x) : (l.set p y)[p]? = some y := by
  rw [List.getElem?_set]; simp [lt_of_get hg]

theorem set_get_ne {α : Type} {l : List α} {p q : Nat} {y : α} (h : p ≠ q) : (l.set p y)[q]? = l[q]? := by
  rw [List.getElem?_set]; simp [h]

/-- a pipe the judge is told nothing about in this output -/
theorem PRel.pclosed_ne {resp : Bool} {j : XJ} {p q : Nat} {pp : Pipe} (h : PRel j q pp) (hne : q ≠ p) :
    PRel (xOut resp j (.pclosed p)) q pp := by
  rw [xOut_pclosed]
  refine ⟨?_, ?_, h.idle, ?_, h.wired⟩
  · show q ∈ j.live.filter (· != p) ↔ _
    rw [List.mem_filter]; simp [hne, h.live]
  · intro hc
    show q ∈ j.busy.filter (· != p) ↔ _
    rw [List.mem_filter]; simp [hne, h.busy hc]
  · show (j.acc.filter (·.pipe != p)).filter (·.pipe == q) = _
    rw [List.filter_filter, ← h.acc]
    apply List.filter_congr
    intro a _
    by_cases e : a.pipe = q
    · simp [e, hne]
    · simp [e]

theorem closePipe_Rc {resp : Bool} {s : State} {j : XJ} {p : Nat} {pp : Pipe} (h : Rc s j) (hg : getPipe s p = some pp)
    (hc : pp.closed = false) : Rc (closePipe s p).1 (xOut resp j (.pclosed p)) := by
  rw [closePipe_eq hg hc]
  have hg0 : s.pipes[p]? = some pp := hg
  have hlen : (s.pipes.set p (closedOf pp)).length = s.pipes.length := by simp
  refine ⟨h.err, h.jclosed, h.ttl, ?_, ?_, ?_, h.recvs, h.tags, h.sends, ?_, ?_, ?_, ?_⟩
  · show (j.live.filter (· != p)).Nodup
    exact h.liveN.sublist List.filter_sublist
  · intro q pp1 hq
    simp only [] at hq
    by_cases e : p = q
    · subst e
      rw [set_get_self hg0] at hq
      cases hq
      have hp := h.pipes p pp hg0
      rw [xOut_pclosed]
      refine ⟨?_, (fun hx => by simp [closedOf] at hx), (fun hx => by simp [closedOf] at hx), ?_, hp.wired⟩
      · show p ∈ j.live.filter (· != p) ↔ _
        rw [List.mem_filter]; simp [closedOf]
      · show (j.acc.filter (·.pipe != p)).filter (·.pipe == p) = _
        rw [List.filter_filter]
        unfold accOf
        simp only [closedOf, if_true]
        rw [List.filter_eq_nil_iff]
        intro a _; simp
    · rw [set_get_ne e] at hq
      exact (h.pipes q pp1 hq).pclosed_ne (fun x => e x.symm)
  · simp only []
    rw [hlen, xOut_pclosed]
    refine ⟨?_, ?_, ?_, h.out.wired⟩
    · intro q hq; exact h.out.live q (List.mem_filter.1 hq).1
    · intro q hq; exact h.out.busy q (List.mem_filter.1 hq).1
    · intro a ha; exact h.out.acc a (List.mem_filter.1 ha).1
  · obtain ⟨ips, hl, hr⟩ := h.held
    refine ⟨ips, hl, ?_⟩
    simp only []
    rw [hlen, xOut_pclosed]
    show HR _ (j.held.map (mark p)) _
    have e : pendP ips { s.urq with putq := s.urq.putq.filter (·.tag != p) } =
        ips.zip s.urq.items ++ (s.urq.putq.map (fun w => (w.tag, w.msg))).filter (fun x => x.1 != p) := by
      unfold pendP
      simp only [List.filter_map]
      rfl
    rw [e]
    have h1 : p ∉ j.live.filter (· != p) := by
      rw [List.mem_filter]; simp
    have h2 : ∀ q, (q < s.pipes.length ∧ q ∉ j.live) → (q < s.pipes.length ∧ q ∉ j.live.filter (· != p)) := by
      intro q hq
      exact ⟨hq.1, fun hm => hq.2 (List.mem_filter.1 hm).1⟩
    exact HR.close p ⟨lt_of_get hg0, h1⟩ h2 hr
  · rw [xOut_pclosed]
    show ((j.held.map (mark p)).map (·.body)).Nodup
    rw [List.map_map]
    have : ((fun h : Held => h.body) ∘ mark p) = (fun h : Held => h.body) := by
      funext h; exact mark_body p h
    rw [this]; exact h.heldN
  · rw [xOut_pclosed]
    intro x hx
    have hx : x ∈ j.held.map (mark p) := hx
    obtain ⟨y, hy, rfl⟩ := List.mem_map.1 hx
    rw [mark_body]
    exact h.heldA y hy
  · rw [xOut_pclosed]
    intro x hx
    have hx : x ∈ j.held.map (mark p) := hx
    obtain ⟨y, hy, rfl⟩ := List.mem_map.1 hx
    rw [mark_pipe]
    simp only []
    rw [hlen]
    exact h.heldP y hy

theorem closePipe_frame (s : State) (p : Nat) :
    (closePipe s p).1.uwq = s.uwq ∧ (closePipe s p).1.urq.getq = s.urq.getq ∧ (closePipe s p).1.urq.items = s.urq.items ∧
    (closePipe s p).1.closed = s.closed ∧ (closePipe s p).1.ttl = s.ttl := by
  unfold closePipe
  cases getPipe s p with
  | none => exact ⟨rfl, rfl, rfl, rfl, rfl⟩
  | some pp =>
    simp only []
    split <;> exact ⟨rfl, rfl, rfl, rfl, rfl⟩

end Nng.RawSurv
