/-
  Simulation (9): the loop of req0_pipe_close over the contexts of the lost connection, and the judge's
  step for an event that loses a connection.
-/
import NngModel.Proofs.ReqJudgeEvH
namespace Nng.ReqJ
open Nng Nng.Proto Nng.Req Nng.ReqSpec

theorem closeLoop_M {rest : List Ev} (p : Nat) (pend : List Nat) :
    ∀ (fuel : Nat) (s : State) (j : J), (s.pipe p).ctxs = pend → pend.length ≤ fuel → Inv2 (some p) none s →
      M pend rest s j → (s.readyPipes = [] ∨ ∀ x, x ∈ pend → x ∉ s.sendQueue) →
      M [] rest (closeLoop fuel s p).1 (psF (closeLoop fuel s p).2 j) ∧
      (psF (closeLoop fuel s p).2 j).err04 = j.err04 ∧ (psF (closeLoop fuel s p).2 j).err12 = j.err12 ∧
      ((closeLoop fuel s p).1.pipe p).ctxs = [] ∧ (closeLoop fuel s p).1.now = s.now ∧
      (∀ o, o ∈ (closeLoop fuel s p).2 → isCl o = true) ∧
      (∀ a mb, Out.done a Err.econnreset none mb ∈ (closeLoop fuel s p).2 ↔
        (mb = false ∧ ∃ k, k ∈ pend ∧ (s.ctx k).retry ≤ 0 ∧ ∃ dl, (s.ctx k).recvAio = some ⟨a, dl⟩)) := by
  induction pend with
  | nil =>
    intro fuel s j hl _ _ hM _
    have : closeLoop fuel s p = (s, []) := by
      cases fuel with
      | zero => rfl
      | succ n => unfold closeLoop; rw [hl]
    rw [this]
    refine ⟨hM, rfl, rfl, hl, rfl, (fun o ho => by cases ho), fun a mb => ?_⟩
    constructor
    · intro h; cases h
    · rintro ⟨_, k, hk, _⟩; cases hk
  | cons k t ih =>
    intro fuel s j hl hf hI hM hdis
    cases fuel with
    | zero => simp at hf
    | succ n =>
      unfold closeLoop
      rw [hl]
      dsimp only
      obtain ⟨m1, a1, b1, l1, d1, c1, n1, o1, r1⟩ := closeOne_M p k t hI hM hl hdis
      have hI1 := (inv2_closeOne p k t hI hl).1
      obtain ⟨m2, a2, b2, l2, n2, o2, r2⟩ := ih n (closeOne s p k).1 (psF (closeOne s p k).2 j) l1
        (by simp at hf; omega) hI1 m1 d1
      rw [psF_append]
      have hnd : (k :: t).Nodup := by rw [← hl]; exact hI.pc_nodup p
      refine ⟨m2, by rw [a2, a1], by rw [b2, b1], l2, by rw [n2, n1], ?_, ?_⟩
      · intro o ho
        rcases List.mem_append.1 ho with h | h
        · exact o1 o h
        · exact o2 o h
      · intro a mb
        rw [List.mem_append, r1, r2]
        constructor
        · rintro (⟨e, hr, dl, hd⟩ | ⟨e, x, hx, hr, dl, hd⟩)
          · exact ⟨e, k, by simp, hr, dl, hd⟩
          · rw [c1 x hx] at hr hd
            exact ⟨e, x, by simp [hx], hr, dl, hd⟩
        · rintro ⟨e, x, hx, hr, dl, hd⟩
          simp only [List.mem_cons] at hx
          rcases hx with rfl | hx
          · exact Or.inl ⟨e, hr, dl, hd⟩
          · right
            refine ⟨e, x, hx, ?_, dl, ?_⟩
            · rw [c1 x hx]; exact hr
            · rw [c1 x hx]; exact hd

/-! ### the judge's step when a connection is lost -/

/-- the judge's step for an event that closes connection `p`: the model prints `rv 0`, the output of the loop
    over the pipe's contexts and `pclosed p` -/
theorem step_pclosed (j : J) (ev : Ev) (o : List Out) (p : Nat) (hc : j.closed = false)
    (ho : ∀ x, x ∈ o → isCl x = true) (he : evAioOf ev = none)
    (hev : ∀ outs ok, phEv j ev outs ok = (j, [])) (hov : ∀ j', phOver ev j' = j') :
    ReqSpec.step j ev ([.rv 0] ++ o ++ [.pclosed p]) =
      quiescent (psF o (phReset none false o (onPclosed ([.rv 0] ++ o ++ [.pclosed p]) false j p))) := by
  rw [step_eq]
  have hne : notExecuted ([.rv 0] ++ o ++ [.pclosed p]) = false := by
    unfold notExecuted
    rw [List.any_append, List.any_append]
    have := notExecuted_cl ho
    unfold notExecuted at this
    rw [this]; rfl
  rw [hne, he]
  have hA : phA none ([.rv 0] ++ o ++ [.pclosed p]) j = j := by
    rw [phA_append, phA_append, phA_cl ho]; rfl
  rw [hA, hev]
  simp only [hc, Bool.false_eq_true, if_false, phRest, he]
  have h1 : phPipe ([.rv 0] ++ o ++ [.pclosed p]) j = j := by
    rw [phPipe_eq, phPipeF_append, phPipeF_append, phPipeF_cl ho]; rfl
  have h2 : phClosed ([.rv 0] ++ o ++ [.pclosed p]) false ([.rv 0] ++ o ++ [.pclosed p]) j =
      onPclosed ([.rv 0] ++ o ++ [.pclosed p]) false j p := by
    rw [phClosed_append, phClosed_append, phClosed_cl ho]; rfl
  have h3 : ∀ jx, phReset none false ([.rv 0] ++ o ++ [.pclosed p]) jx = phReset none false o jx := by
    intro jx; rw [phReset_append, phReset_append]; rfl
  have h4 : ∀ jx, psF ([.rv 0] ++ o ++ [.pclosed p]) jx = psF o jx := by
    intro jx; rw [psF_app, psF_app]; rfl
  have h5 : ∀ ex jx, phDone ev none ex ([.rv 0] ++ o ++ [.pclosed p]) jx = jx := by
    intro ex jx; rw [phDone_append, phDone_append, phDone_cl ho]; rfl
  have h6 : ∀ jx, phPoll ([.rv 0] ++ o ++ [.pclosed p]) jx = jx := by
    intro jx; rw [phPoll_append, phPoll_append, phPoll_cl ho]; rfl
  have h7 : ∀ jx, phBlocked ([.rv 0] ++ o ++ [.pclosed p]) jx = jx := by
    intro jx
    apply phBlocked_of
    intro x hx ms e
    subst e
    simp only [List.mem_append, List.mem_singleton, reduceCtorEq, false_or, or_false] at hx
    have := ho _ hx
    simp [isCl] at this
  rw [h1, h2, h3, h4, h5, h6, hov, h7]

end Nng.ReqJ
