/-
  Raw judges vs raw models: closing the socket, the phases (not opened / open / closed), one
  step from any state, and the induction over the event list.
-/
import NngModel.Proofs.RawJudgeEvG
import NngModel.Proofs.RawJudgeMono
namespace Nng.RawSurv
open Nng Nng.Proto Nng.RawMq Nng.RawSurveySpec

attribute [local simp] xOut_rv xOut_rv2 xOut_parm xOut_pipe

/-- what the generic simulation needs to know about a kind of raw socket and its judge -/
structure JK (resp : Bool) (k : Kind) (sel : Sel) : Prop where
  kok : KindOK k sel
  route : RouteSpec k sel
  acc : AcceptSpec resp sel
  selBody : SelBody sel
  cap : k.sqCap = depth resp
  recv : RecvSpec resp k
  ttl0 : k.ttlInit = 8

/-! ### close -/

theorem closePipe_outs (s : State) (p : Nat) : ∀ o ∈ (closePipe s p).2, ∃ q, o = Out.pclosed q := by
  unfold closePipe
  cases getPipe s p with
  | none => simp
  | some pp =>
    simp only []
    split
    · simp
    · intro o ho; simp at ho; exact ⟨p, ho⟩

theorem closeAll_outs : ∀ (n : Nat) (s : State), ∀ o ∈ (closeAll s n).2, ∃ q, o = Out.pclosed q := by
  intro n
  induction n with
  | zero => intro s o ho; simp [closeAll] at ho
  | succ n ih =>
    intro s o ho
    simp only [closeAll] at ho
    rcases List.mem_append.1 ho with h | h
    · exact ih s o h
    · exact closePipe_outs _ _ o h

theorem fold_pipe_pclosed (X : List Out) : ∀ (P : List Out) (j : XJ), (∀ o ∈ P, ∃ q, o = Out.pclosed q) →
    P.foldl (pipeStep X) j = j := by
  intro P
  induction P with
  | nil => intro j _; rfl
  | cons o P ih =>
    intro j h
    obtain ⟨q, rfl⟩ := h o (by simp)
    simp only [List.foldl_cons, pipeStep]
    exact ih j (fun o ho => h o (by simp [ho]))

theorem fold_pclosed_flags (resp : Bool) : ∀ (P : List Out) (j : XJ), (∀ o ∈ P, ∃ q, o = Out.pclosed q) →
    (P.foldl (xOut resp) j).err = j.err ∧ (P.foldl (xOut resp) j).closed = j.closed := by
  intro P
  induction P with
  | nil => intro j _; exact ⟨rfl, rfl⟩
  | cons o P ih =>
    intro j h
    obtain ⟨q, rfl⟩ := h o (by simp)
    simp only [List.foldl_cons]
    obtain ⟨a, b⟩ := ih (xOut resp j (.pclosed q)) (fun o ho => h o (by simp [ho]))
    rw [a, b, xOut_pclosed]
    exact ⟨rfl, rfl⟩

/-- nni_msgq_close: every parked receive fails with NNG_ECLOSED -/
theorem closeDones (resp : Bool) (rv : Nat) (hrv : rv ≠ 0) : ∀ (gs : List Get) (j : XJ), j.recvs = gs.map (fun g => (g.tag, false)) →
    (gs.map (·.tag)).Nodup →
    (gs.map (fun g => Out.done g.tag rv none false)).foldl (doneStep resp) j = { j with recvs := [] } := by
  intro gs
  induction gs with
  | nil =>
    intro j h _
    simp only [List.map_nil, List.foldl_nil] at h ⊢
    cases j
    simp only [] at h
    subst h
    rfl
  | cons g gs ih =>
    intro j h hn
    simp only [List.map_cons, List.foldl_cons, doneStep]
    rw [xDone_recv_fail resp j g.tag rv g.tag false false (by rw [h]; simp) hrv (fun hx => by cases hx)]
    have e : j.recvs.filter (·.1 != g.tag) = gs.map (fun g => (g.tag, false)) := by
      rw [h]; exact filter_head_tags g gs hn
    simp only [List.map_cons, List.nodup_cons] at hn
    rw [ih { j with recvs := j.recvs.filter (·.1 != g.tag) } e hn.2]

theorem sockClose_fst (s : State) : (sockClose s).1.closed = true := rfl

theorem sockClose_snd (s : State) :
    (sockClose s).2 = (s.urq.getq.map fun g => Out.done g.tag Err.eclosed none false) ++
      (s.uwq.putq.map fun w => Out.done w.tag Err.eclosed none true) ++
      (closeAll { s with lost := s.lost ++ s.urq.items ++ s.urq.putq.map (·.msg), urq := RawMq.close s.urq, uwq := RawMq.close s.uwq }
        s.pipes.length).2 := rfl

theorem ev_close {k : Kind} {sel : Sel} {resp : Bool} {s : State} {j : XJ} (hI : Inv k sel s) (hR : R s j) :
    (xStep resp j .close (sockClose s).2).closed = true ∧ (xStep resp j .close (sockClose s).2).err = none := by
  have hc0 := hR.core
  rw [sockClose_snd, hI.uwq.putq]
  simp only [List.map_nil, List.append_nil]
  have hP := closeAll_outs s.pipes.length { s with lost := s.lost ++ s.urq.items ++ s.urq.putq.map (·.msg), urq := RawMq.close s.urq, uwq := RawMq.close s.uwq }
  revert hP
  generalize (closeAll { s with lost := s.lost ++ s.urq.items ++ s.urq.putq.map (·.msg), urq := RawMq.close s.urq, uwq := RawMq.close s.uwq } s.pipes.length).2 = P
  intro hP
  have hD : ∀ o ∈ s.urq.getq.map (fun g => Out.done g.tag Err.eclosed none false), isDone o = true := by
    intro o ho; obtain ⟨g, _, rfl⟩ := List.mem_map.1 ho; rfl
  have hPd : ∀ o ∈ P, isDone o = false := by
    intro o ho; obtain ⟨q, rfl⟩ := hP o ho; rfl
  have hne : notExecuted (s.urq.getq.map (fun g => Out.done g.tag Err.eclosed none false) ++ P) = false := by
    unfold notExecuted
    rw [List.any_eq_false]
    intro o ho
    rcases List.mem_append.1 ho with h | h
    · obtain ⟨g, _, rfl⟩ := List.mem_map.1 h; simp
    · obtain ⟨q, rfl⟩ := hP o h; simp
  have hbl : (s.urq.getq.map (fun g => Out.done g.tag Err.eclosed none false) ++ P).any isBlocked = false := by
    rw [List.any_eq_false]
    intro o ho
    rcases List.mem_append.1 ho with h | h
    · obtain ⟨g, _, rfl⟩ := List.mem_map.1 h; simp [isBlocked]
    · obtain ⟨q, rfl⟩ := hP o h; simp [isBlocked]
  rw [xStep_eq hc0.err hne]
  have hpre : xPre resp j .close (s.urq.getq.map (fun g => Out.done g.tag Err.eclosed none false) ++ P) = ({ j with closed := true }, none) := rfl
  rw [hpre]
  have hproc : procOuts resp (s.urq.getq.map (fun g => Out.done g.tag Err.eclosed none false) ++ P) { j with closed := true } =
      P.foldl (xOut resp) { j with closed := true, recvs := [] } := by
    unfold procOuts
    have e1 : (s.urq.getq.map (fun g => Out.done g.tag Err.eclosed none false) ++ P).foldl
        (pipeStep (s.urq.getq.map (fun g => Out.done g.tag Err.eclosed none false) ++ P)) { j with closed := true } = { j with closed := true } := by
      rw [List.foldl_append, fold_pipe_dones _ _ _ hD, fold_pipe_pclosed _ _ _ hP]
    have e2 : (s.urq.getq.map (fun g => Out.done g.tag Err.eclosed none false) ++ P).filter isDone =
        s.urq.getq.map (fun g => Out.done g.tag Err.eclosed none false) := by
      rw [List.filter_append, List.filter_eq_self.2 hD]
      have : P.filter isDone = [] := by
        rw [List.filter_eq_nil_iff]; intro o ho; simp [hPd o ho]
      rw [this, List.append_nil]
    have e3 : (s.urq.getq.map (fun g => Out.done g.tag Err.eclosed none false) ++ P).filter (fun o => !isDone o) = P := by
      rw [List.filter_append]
      have a : (s.urq.getq.map (fun g => Out.done g.tag Err.eclosed none false)).filter (fun o => !isDone o) = [] := by
        rw [List.filter_eq_nil_iff]; intro o ho; simp [hD o ho]
      have b : P.filter (fun o => !isDone o) = P := by
        rw [List.filter_eq_self]; intro o ho; simp [hPd o ho]
      rw [a, b, List.nil_append]
    rw [e1, e2, e3]
    rw [closeDones resp Err.eclosed (by decide) s.urq.getq { j with closed := true } hc0.recvs hc0.tags]
  rw [hproc]
  obtain ⟨f1, f2⟩ := fold_pclosed_flags resp P { j with closed := true, recvs := [] } hP
  revert f1 f2
  generalize P.foldl (xOut resp) { j with closed := true, recvs := [] } = jp
  intro f1 f2
  have f1 : jp.err = none := by rw [f1]; exact hc0.err
  have f2 : jp.closed = true := f2
  unfold xPost
  rw [nbChk_none]
  unfold blockedChk
  rw [if_neg (by simp [hbl])]
  unfold endChk
  simp only [f2, if_true]
  exact ⟨trivial, f1⟩

/-! ### the phases -/

/-- the relation over all phases -/
def Top (s : State) (j : XJ) : Prop :=
  (R s j ∧ (s.opened = false → j.ttl = 8)) ∨ (s.opened = true ∧ s.closed = true ∧ j.closed = true ∧ j.err = none)

theorem Top_init : Top ({} : State) ({} : XJ) := Or.inl ⟨R_init, fun _ => rfl⟩

theorem Top.err {s : State} {j : XJ} (h : Top s j) : j.err = none := by
  rcases h with h | h
  · exact h.1.core.err
  · exact h.2.2.2

/-- no harness-only `abort a 0` (a receive "failing" with rv 0 and no message) -/
def notAbort0 : Ev → Bool
  | .abort _ 0 => false
  | _ => true

theorem closedPhase {k : Kind} {resp : Bool} {s : State} {j : XJ} (ho : s.opened = true) (hc : s.closed = true)
    (hjc : j.closed = true) (hje : j.err = none) (ev : Ev) :
    (step k s ev).1.opened = true ∧ (step k s ev).1.closed = true ∧ (xStep resp j ev (step k s ev).2).closed = true ∧
    (xStep resp j ev (step k s ev).2).err = none := by
  unfold step
  rw [if_neg (by simp [ho]), if_pos hc]
  have hadv : ∀ ms, (xStep resp j (.advance ms) []).closed = true ∧ (xStep resp j (.advance ms) []).err = none := by
    intro ms
    rw [xStep_eq hje (by simp [notExecuted])]
    have : procOuts resp [] (xPre resp j (.advance ms) []).1 = j := rfl
    rw [this]
    have : (xPre resp j (.advance ms) []).2 = none := rfl
    rw [this]
    unfold xPost
    rw [nbChk_none]
    unfold blockedChk
    simp only [List.any_nil, Bool.false_eq_true, if_false]
    unfold endChk
    simp only [hjc, if_true]
    exact ⟨trivial, hje⟩
  have href : ∀ ev, (xStep resp j ev [.other "nosock"]).closed = true ∧ (xStep resp j ev [.other "nosock"]).err = none := by
    intro ev
    rw [xStep_refused (by simp [notExecuted])]
    exact ⟨hjc, hje⟩
  cases ev with
  | advance ms => exact ⟨ho, hc, (hadv _).1, (hadv _).2⟩
  | _ => exact ⟨ho, hc, (href _).1, (href _).2⟩

/-- `advance` while the model does nothing else (not opened yet / closed) -/
theorem idleAdvance {k : Kind} {sel : Sel} {resp : Bool} {s : State} {j : XJ} (hI : Inv k sel s) (hR : R s j) (ms : Nat) :
    R { s with now := s.now + ms } (xStep resp j (.advance ms) []) :=
  step_inert (setNow_inv s _ hI) (hR.core.now _) (by simp) rfl

theorem step_Top {k : Kind} {sel : Sel} {resp : Bool} (hj : JK resp k sel) {s : State} {j : XJ} (hI : Inv k sel s) (hT : Top s j)
    (ev : Ev) (hab : notAbort0 ev = true) (hS : ((step k s ev).1.sent.map (·.body)).Nodup)
    (hA : ((step k s ev).1.accepted.map (·.m.body)).Nodup) :
    Top (step k s ev).1 (xStep resp j ev (step k s ev).2) := by
  rcases hT with ⟨hR, hpre⟩ | ⟨ho, hc, hjc, hje⟩
  · have hI1 := step_inv hj.kok s ev hI
    have hmono := step_mono k s ev
    have hSs : (s.sent.map (·.body)).Nodup := hS.sublist (hmono.sent.sublist.map _)
    by_cases ho : s.opened = true
    · have vac : (step k s ev).1.opened = false → (xStep resp j ev (step k s ev).2).ttl = 8 :=
        fun h => by rw [hmono.opened ho] at h; cases h
      by_cases hc : s.closed = true
      · -- closed although the judge was not told: cannot happen, but harmless
        refine Or.inl ⟨?_, vac⟩
        unfold step
        rw [if_neg (by simp [ho]), if_pos hc]
        cases ev with
        | advance ms => exact idleAdvance hI hR ms
        | _ => exact step_refused hR _
      · have hc : s.closed = false := by simpa using hc
        cases ev with
        | openSock _ _ =>
          refine Or.inl ⟨?_, vac⟩
          unfold step; rw [if_neg (by simp [ho]), if_neg (by simp [hc])]
          exact step_refused hR _
        | pipeAdd peer =>
          refine Or.inl ⟨?_, vac⟩
          exact ev_pipeAdd hj.kok hI hR ho hc peer
        | pipeDrop p =>
          refine Or.inl ⟨?_, vac⟩
          unfold step; rw [if_neg (by simp [ho]), if_neg (by simp [hc])]
          exact ev_pipeDrop (resp := resp) hI hR p
        | sendDone p rv =>
          refine Or.inl ⟨?_, vac⟩
          exact ev_sendDone hj.kok hj.selBody hI hR ho hc p rv hSs
        | recvDone p r =>
          refine Or.inl ⟨?_, vac⟩
          exact ev_recvDone hj.kok hj.recv hI hR ho hc p r hA
        | send c a m mode =>
          refine Or.inl ⟨?_, vac⟩
          revert hS
          unfold step; rw [if_neg (by simp [ho]), if_neg (by simp [hc])]
          simp only []
          by_cases hb : aioBusy s a = true
          · rw [if_pos hb]; intro _; exact step_refused hR _
          · rw [if_neg hb]
            have hb : aioBusy s a = false := by simpa using hb
            cases c with
            | some c => intro _; exact ev_ctxSend hI hR c a m mode hb
            | none => intro hS; exact ev_send hj.kok hj.route hj.acc hj.selBody hj.cap hI hR ho hc a m mode hb hS
        | recv c a mode =>
          refine Or.inl ⟨?_, vac⟩
          unfold step; rw [if_neg (by simp [ho]), if_neg (by simp [hc])]
          simp only []
          by_cases hb : aioBusy s a = true
          · rw [if_pos hb]; exact step_refused hR _
          · rw [if_neg hb]
            have hb : aioBusy s a = false := by simpa using hb
            cases c with
            | some c => exact ev_ctxRecv hI hR c a mode hb
            | none => exact ev_recv hI hR a mode hb
        | cancel a =>
          refine Or.inl ⟨?_, vac⟩
          unfold step; rw [if_neg (by simp [ho]), if_neg (by simp [hc])]
          exact ev_failAio hI hR _ a _ (by decide) (fun _ => rfl)
        | abort a rv =>
          refine Or.inl ⟨?_, vac⟩
          unfold step; rw [if_neg (by simp [ho]), if_neg (by simp [hc])]
          have hrv : rv ≠ 0 := by
            intro e; subst e; simp [notAbort0] at hab
          exact ev_failAio hI hR _ a rv hrv (fun _ => rfl)
        | advance ms =>
          refine Or.inl ⟨?_, vac⟩
          unfold step; rw [if_neg (by simp [ho]), if_neg (by simp [hc])]
          exact ev_advance hI hR ms
        | ctxOpen c =>
          refine Or.inl ⟨?_, vac⟩
          unfold step; rw [if_neg (by simp [ho]), if_neg (by simp [hc])]
          exact step_inert hI hR.core (by simp [inert]) rfl
        | ctxClose c =>
          refine Or.inl ⟨?_, vac⟩
          unfold step; rw [if_neg (by simp [ho]), if_neg (by simp [hc])]
          exact step_inert hI hR.core (by simp [inert]) rfl
        | setopt c name ty v =>
          refine Or.inl ⟨?_, vac⟩
          unfold step; rw [if_neg (by simp [ho]), if_neg (by simp [hc])]
          exact ev_setopt hj.kok hI hR ho hc c name ty v
        | getopt c name ty =>
          refine Or.inl ⟨?_, vac⟩
          unfold step; rw [if_neg (by simp [ho]), if_neg (by simp [hc])]
          exact ev_getopt hI hR c name ty
        | poll =>
          refine Or.inl ⟨?_, vac⟩
          unfold step; rw [if_neg (by simp [ho]), if_neg (by simp [hc])]
          exact ev_poll hI hR
        | sub _ _ =>
          refine Or.inl ⟨?_, vac⟩
          unfold step; rw [if_neg (by simp [ho]), if_neg (by simp [hc])]
          exact step_refused hR _
        | unsub _ _ =>
          refine Or.inl ⟨?_, vac⟩
          unfold step; rw [if_neg (by simp [ho]), if_neg (by simp [hc])]
          exact step_refused hR _
        | close =>
          unfold step; rw [if_neg (by simp [ho]), if_neg (by simp [hc])]
          exact Or.inr ⟨(sockClose_same s).opened ho, sockClose_fst s, (ev_close hI hR).1, (ev_close hI hR).2⟩
    · -- not opened yet
      have ho : s.opened = false := by simpa using ho
      have h8 := hpre ho
      have hs8 : s.ttl = 8 := by rw [← hR.core.ttl]; exact h8
      revert hI1
      unfold step
      rw [if_pos (by simp [ho])]
      cases ev with
      | openSock proto raw =>
        intro hI1
        refine Or.inl ⟨step_inert hI1 ?_ (by simp [inert]) rfl, fun h => by cases h⟩
        exact hR.core.frame (by show k.ttlInit = s.ttl; rw [hj.ttl0, hs8]) rfl rfl rfl
      | advance ms =>
        intro _
        have h1 := idleAdvance (resp := resp) hI hR ms
        refine Or.inl ⟨h1, fun _ => ?_⟩
        rw [h1.core.ttl]; exact hs8
      | _ =>
        intro _
        refine Or.inl ⟨step_refused hR _, fun _ => ?_⟩
        rw [xStep_refused (by simp [notExecuted])]; exact h8
  · obtain ⟨a, b, c, d⟩ := closedPhase (k := k) (resp := resp) ho hc hjc hje ev
    exact Or.inr ⟨a, b, c, d⟩

/-! ### all event sequences -/

/-- the relation holds between the model state and the judge state after any event sequence -/
theorem top_from {k : Kind} {sel : Sel} {resp : Bool} (hj : JK resp k sel) : ∀ (evs : List Ev) (s : State) (j : XJ),
    Inv k sel s → Top s j → evs.all notAbort0 = true →
    ((run k s evs).1.sent.map (·.body)).Nodup → ((run k s evs).1.accepted.map (·.m.body)).Nodup →
    Top (run k s evs).1 ((evs.zip (run k s evs).2).foldl (fun j x => xStep resp j x.1 x.2) j) := by
  intro evs
  induction evs with
  | nil => intro s j _ hT _ _ _; exact hT
  | cons e es ih =>
    intro s j hI hT hab hS hA
    rw [run_cons] at hS hA ⊢
    simp only [List.zip_cons_cons, List.foldl_cons]
    simp only [List.all_cons, Bool.and_eq_true] at hab
    have hm := run_mono k es (step k s e).1
    have hS1 : ((step k s e).1.sent.map (·.body)).Nodup := hS.sublist (hm.sent.sublist.map _)
    have hA1 : ((step k s e).1.accepted.map (·.m.body)).Nodup := hA.sublist (hm.accepted.sublist.map _)
    exact ih _ _ (step_inv hj.kok s e hI) (step_Top hj hI hT e hab.1 hS1 hA1) hab.2 hS hA

theorem judge_from {k : Kind} {sel : Sel} {resp : Bool} (hj : JK resp k sel) (evs : List Ev) (s : State) (j : XJ)
    (hI : Inv k sel s) (hT : Top s j) (hab : evs.all notAbort0 = true)
    (hS : ((run k s evs).1.sent.map (·.body)).Nodup) (hA : ((run k s evs).1.accepted.map (·.m.body)).Nodup) :
    ((evs.zip (run k s evs).2).foldl (fun j x => xStep resp j x.1 x.2) j).err = none :=
  (top_from hj evs s j hI hT hab hS hA).err

/-- the judge's acceptance set is the model's: in every reachable state, for every connected pipe, the judge
    `takes` an offer exactly if `offer` does not discard it (idle: on the wire at once; room: queued) -/
theorem takes_iff_kept {k : Kind} {sel : Sel} {resp : Bool} (hj : JK resp k sel) (evs : List Ev) (hab : evs.all notAbort0 = true)
    (hS : ((run k {} evs).1.sent.map (·.body)).Nodup) (hA : ((run k {} evs).1.accepted.map (·.m.body)).Nodup)
    (hcl : (run k {} evs).1.closed = false) (q : Nat) (pp : Pipe) (m : WMsg) (hg : (run k {} evs).1.pipes[q]? = some pp)
    (hc : pp.closed = false) :
    takes resp ((evs.zip (run k {} evs).2).foldl (fun j x => xStep resp j x.1 x.2) ({} : XJ)) q = true ↔
      (offer q pp m).1.dropped = pp.dropped := by
  have hI := run_inv hj.kok evs {} (inv_init _ _)
  rcases top_from hj evs {} {} (inv_init _ _) Top_init hab hS hA with ⟨hR, _⟩ | ⟨_, h2, _⟩
  · have hpr := hR.core.pipes q pp hg
    have hpo := hI.core.pipes q pp hg
    rw [takes_eq (resp := resp) hpr hc hj.cap]
    have hsc : pp.sq.closed = false := by rw [hpo.sqc]; exact hc
    cases hgq : pp.sq.getq with
    | cons r rs =>
      have hb : pp.busy = false := (hpr.idle hc).2 (by rw [hgq]; simp)
      rw [offer_idle_eq q pp m r rs hc hsc hgq, hb]
      simp
    | nil =>
      have hb : pp.busy = true := by
        cases hb : pp.busy with
        | true => rfl
        | false => exact absurd hgq ((hpr.idle hc).1 hb)
      rw [hb]
      by_cases hl : pp.sq.items.length < pp.sq.cap
      · rw [offer_room_eq q pp m hc hsc hgq hl]
        have : pp.sq.items.length < k.sqCap := by rw [← hpo.capk]; exact hl
        simp [this]
      · rw [offer_full_eq q pp m hc hsc hgq hl]
        have : ¬ pp.sq.items.length < k.sqCap := by rw [← hpo.capk]; exact hl
        simp [this]
  · rw [h2] at hcl; cases hcl

end Nng.RawSurv
