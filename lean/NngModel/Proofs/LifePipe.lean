/- per-pipe invariants of the lifecycle model (C14): the notification state machine -/
import NngModel.Model.Life
namespace Nng.LifeModel
open Nng.Life

/-- what holds of every pipe in every reachable state -/
structure PipeInv (p : Pipe) : Prop where
  sorted : p.evs.Pairwise (fun a b => a.rank < b.rank)
  bounded : ∀ e ∈ p.evs, e.rank ≤ p.last
  last_le : p.last ≤ 3
  none_empty : p.last = 0 → p.evs = []
  pre_due : p.preDue = true → 1 ≤ p.last → PEv.pre ∈ p.evs
  live_last : p.reaped = false → p.last ≤ 2
  reaped_closed : p.reaped = true → p.closed = true
  cip_not_started : p.cip = true → p.started = false ∧ p.closed = true
  post_started : PEv.post ∈ p.evs → p.started = true
  rem_reaped : PEv.rem ∈ p.evs → p.reaped = true
  rem_due : p.reaped = true → p.last ≠ 0 → p.remReg = true → PEv.rem ∈ p.evs

@[simp] theorem rank_pre : PEv.pre.rank = 1 := rfl
@[simp] theorem rank_post : PEv.post.rank = 2 := rfl
@[simp] theorem rank_rem : PEv.rem.rank = 3 := rfl

theorem rank_pos (e : PEv) : 1 ≤ e.rank ∧ e.rank ≤ 3 := by cases e <;> simp [PEv.rank]

theorem rank_inj {a b : PEv} (h : a.rank = b.rank) : a = b := by
  cases a <;> cases b <;> simp [PEv.rank] at h <;> rfl

/-- the weaker form: a reaped pipe that got ADD_POST got REM_POST if it was registered then -/
theorem PipeInv.rem_post {p : Pipe} (hi : PipeInv p) (hr : p.reaped = true) (hp : PEv.post ∈ p.evs)
    (hreg : p.remReg = true) : PEv.rem ∈ p.evs := by
  refine hi.rem_due hr ?_ hreg
  have := hi.bounded _ hp
  simp only [rank_post] at this
  omega

/-- effect of nni_pipe_run_cb, case by case -/
theorem runCb_cases (mask : Nat) (ev : PEv) (p : Pipe) :
    ((runCb mask ev p) = (p, false)) ∨
    (p.last < ev.rank ∧ mask ≠ 0 ∧ (p.last = 0 → ev = .pre) ∧
      (((runCb mask ev p) = ({ p with last := ev.rank }, false) ∧ mask &&& evBit ev = 0) ∨
       ((runCb mask ev p) = ({ p with last := ev.rank, evs := p.evs ++ [ev] }, true) ∧ mask &&& evBit ev ≠ 0))) := by
  unfold runCb
  by_cases h0 : (mask == 0) = true
  · simp [h0]
  · by_cases h1 : (p.last == 0 && ev != .pre) = true
    · simp [h0, h1]
    · by_cases h2 : p.last ≥ ev.rank
      · simp [h0, h1, h2]
      · right
        have hm : mask ≠ 0 := by simpa using h0
        refine ⟨by omega, hm, ?_, ?_⟩
        · intro hl
          cases ev <;> simp_all
        · by_cases h3 : mask &&& evBit ev = 0
          · left; simp [h0, h1, h2, h3]
          · right; simp [h0, h1, h2, h3]

theorem and_ne_zero_ne_zero {m k : Nat} (h : m &&& k ≠ 0) : m ≠ 0 := by
  intro h0; subst h0; simp at h

end Nng.LifeModel

namespace Nng.LifeModel
open Nng.Life

def PipesInv (st : State) : Prop := ∀ p ∈ st.pipes, PipeInv p

theorem fresh_inv (i e s : Nat) : PipeInv { idx := i, ep := e, sock := s } := by
  constructor <;> simp

/-- ADD_PRE on a fresh pipe -/
theorem pre_step (mask : Nat) (p : Pipe) (hf : p.last = 0 ∧ p.evs = [] ∧ p.closed = false ∧ p.started = false ∧
      p.reaped = false ∧ p.cip = false) :
    let r := runCb mask .pre p
    let p1 : Pipe := { r.1 with preDue := mask &&& 1 != 0 }
    PipeInv p1 ∧ p1.started = false ∧ p1.closed = false ∧ p1.reaped = false ∧ p1.cip = false ∧
      p1.last ≤ 1 ∧ PEv.post ∉ p1.evs ∧ PEv.rem ∉ p1.evs ∧ (r.2 = true → mask &&& 1 ≠ 0) := by
  obtain ⟨h1, h2, h3, h4, h5, h6⟩ := hf
  rcases runCb_cases mask .pre p with h | ⟨hlt, hm, _, h | h⟩
  · simp only [h]
    refine ⟨?_, h4, h3, h5, h6, by omega, by simp [h2], by simp [h2], by simp⟩
    constructor <;> simp_all
  · obtain ⟨h, hb⟩ := h
    simp only [h]
    refine ⟨?_, h4, h3, h5, h6, by simp [PEv.rank], by simp [h2], by simp [h2], by simp⟩
    constructor <;> simp_all [PEv.rank, evBit]
  · obtain ⟨h, hb⟩ := h
    simp only [h]
    refine ⟨?_, h4, h3, h5, h6, by simp [PEv.rank], by simp [h2], by simp [h2], ?_⟩
    · constructor <;> simp_all [PEv.rank, evBit]
    · intro _; simpa [evBit] using hb

/-- ADD_POST after a successful protocol start -/
theorem post_step (mask : Nat) (p : Pipe) (hi : PipeInv p) (hl : p.last ≤ 1) (hr : p.reaped = false)
    (hc : p.cip = false) (hp : PEv.post ∉ p.evs) (hm : PEv.rem ∉ p.evs) :
    let r := runCb mask .post { p with started := true }
    PipeInv r.1 ∧ r.1.reaped = false ∧ r.1.cip = false := by
  have hb := hi.bounded
  rcases runCb_cases mask .post { p with started := true } with h | ⟨hlt, hm', h0, h | h⟩
  · simp only [h]
    refine ⟨?_, hr, hc⟩
    constructor
    · exact hi.sorted
    · exact hi.bounded
    · exact hi.last_le
    · exact hi.none_empty
    · exact hi.pre_due
    · exact hi.live_last
    · exact hi.reaped_closed
    · intro h; simp_all
    · intro _; rfl
    · exact hi.rem_reaped
    · exact hi.rem_due
  · obtain ⟨h, _⟩ := h
    simp only [h]
    refine ⟨?_, hr, hc⟩
    constructor
    · exact hi.sorted
    · intro e he; have := hb e he; simp only [rank_post]; omega
    · simp [PEv.rank]
    · simp [PEv.rank]
    · intro hd _
      have : p.last ≠ 0 := by intro h0'; have := h0 h0'; simp at this
      exact hi.pre_due hd (by simp at this ⊢; omega)
    · intro _; simp [PEv.rank]
    · intro h; simp_all
    · intro h; simp_all
    · intro _; rfl
    · exact hi.rem_reaped
    · intro h; simp_all
  · obtain ⟨h, _⟩ := h
    simp only [h]
    refine ⟨?_, hr, hc⟩
    constructor
    · simp only [List.pairwise_append, List.pairwise_singleton, List.mem_singleton, forall_eq, true_and]
      refine ⟨hi.sorted, ?_⟩
      intro a ha; have := hb a ha; simp only [rank_post] at hlt ⊢; omega
    · intro e he
      simp only [List.mem_append, List.mem_singleton] at he
      rcases he with he | he
      · have := hb e he; simp only [rank_post]; omega
      · subst he; simp
    · simp [PEv.rank]
    · simp [PEv.rank]
    · intro hd _
      have : p.last ≠ 0 := by intro h0'; have := h0 h0'; simp at this
      simp only [List.mem_append, List.mem_singleton]
      left; exact hi.pre_due hd (by simp at this ⊢; omega)
    · intro _; simp [PEv.rank]
    · intro h; simp_all
    · intro h; simp_all
    · intro _; rfl
    · intro h
      simp only [List.mem_append, List.mem_singleton] at h
      rcases h with h | h
      · exact absurd h hm
      · cases h
    · intro h; simp_all

end Nng.LifeModel

namespace Nng.LifeModel
open Nng.Life

/-- pipe_reap on a pipe that was not reaped before -/
theorem reap_step (mask : Nat) (p : Pipe) (hi : PipeInv p) (hr : p.reaped = false) :
    PipeInv (reapOne mask p).1 ∧ (reapOne mask p).1.reaped = true := by
  have hb := hi.bounded
  have hl := hi.live_last hr
  unfold reapOne
  rcases runCb_cases mask .rem { p with closed := true } with h | ⟨hlt, hm', h0, h | h⟩
  · simp only [h]
    refine ⟨?_, trivial⟩
    constructor
    · exact hi.sorted
    · exact hi.bounded
    · exact hi.last_le
    · exact hi.none_empty
    · exact hi.pre_due
    · intro h; cases h
    · intro _; rfl
    · intro hc; exact ⟨(hi.cip_not_started hc).1, rfl⟩
    · exact hi.post_started
    · intro _; rfl
    · -- REM was not delivered although registered: impossible when the pipe ever got an event
      intro _ hp hreg
      exfalso
      have hreg' : mask &&& 4 ≠ 0 := by simpa using hreg
      have hm : mask ≠ 0 := and_ne_zero_ne_zero hreg'
      have h2 : p.last ≠ 0 := hp
      unfold runCb at h
      have e1 : (mask == 0) = false := by simpa using hm
      have e2 : ((p.last == 0) && (PEv.rem != PEv.pre)) = false := by
        have : p.last ≠ 0 := by omega
        simp [this]
      have e3 : ¬ (p.last ≥ PEv.rem.rank) := by simp only [rank_rem]; omega
      simp only [e1, e2, e3, Bool.false_eq_true, if_false, evBit] at h
      by_cases h4 : (mask &&& 4 != 0) = true
      · simp [h4] at h
      · simp at h4; exact hreg' h4
  · obtain ⟨h, hz⟩ := h
    simp only [h]
    refine ⟨?_, trivial⟩
    constructor
    · exact hi.sorted
    · intro e he; have := hb e he; simp only [rank_rem]; omega
    · simp
    · simp
    · intro hd _
      have : p.last ≠ 0 := by intro h0'; have := h0 h0'; simp at this
      exact hi.pre_due hd (by simp at this ⊢; omega)
    · intro h; cases h
    · intro _; rfl
    · intro hc; exact ⟨(hi.cip_not_started hc).1, rfl⟩
    · exact hi.post_started
    · intro _; rfl
    · intro _ _ hreg
      exfalso
      have : mask &&& 4 ≠ 0 := by simpa using hreg
      exact this (by simpa [evBit] using hz)
  · obtain ⟨h, _⟩ := h
    simp only [h]
    refine ⟨?_, trivial⟩
    constructor
    · simp only [List.pairwise_append, List.pairwise_singleton, List.mem_singleton, forall_eq, true_and]
      refine ⟨hi.sorted, ?_⟩
      intro a ha; have := hb a ha; simp only [rank_rem]; omega
    · intro e he
      simp only [List.mem_append, List.mem_singleton] at he
      rcases he with he | he
      · have := hb e he; simp only [rank_rem]; omega
      · subst he; simp
    · simp
    · simp
    · intro hd _
      have : p.last ≠ 0 := by intro h0'; have := h0 h0'; simp at this
      simp only [List.mem_append, List.mem_singleton]
      left; exact hi.pre_due hd (by simp at this ⊢; omega)
    · intro h; cases h
    · intro _; rfl
    · intro hc; exact ⟨(hi.cip_not_started hc).1, rfl⟩
    · intro hp
      simp only [List.mem_append, List.mem_singleton] at hp
      rcases hp with hp | hp
      · exact hi.post_started hp
      · cases hp
    · intro _; rfl
    · intro _ _ _; simp

@[simp] theorem setSock_pipes (st : State) (s : Nat) (f : Sock → Sock) : (setSock st s f).pipes = st.pipes := rfl
@[simp] theorem setEp_pipes (st : State) (e : Nat) (f : Ep → Ep) : (setEp st e f).pipes = st.pipes := rfl

theorem killPipe_inv (st : State) (i : Nat) (h : PipesInv st) : PipesInv (killPipe st i).1 := by
  unfold killPipe
  split
  · exact h
  · rename_i p hf
    have hp : p ∈ st.pipes := List.mem_of_find?_eq_some hf
    have hq := List.find?_some hf
    simp only [Bool.and_eq_true, Bool.not_eq_true', beq_iff_eq] at hq
    have hr := (reap_step (st.socks p.sock).mask p (h p hp) hq.2).1
    intro q hq'
    simp only [setSock_pipes, List.mem_map] at hq'
    obtain ⟨q0, hq0, rfl⟩ := hq'
    split
    · exact hr
    · exact h q0 hq0

theorem killPipes_inv (is : List Nat) (st : State) (outs : List LOut) (h : PipesInv st) :
    PipesInv (is.foldl (fun (acc : R) i => let r := killPipe acc.1 i; (r.1, acc.2 ++ r.2)) (st, outs)).1 := by
  induction is generalizing st outs with
  | nil => exact h
  | cons i rest ih => exact ih _ _ (killPipe_inv st i h)

theorem killPipes_inv' (st : State) (is : List Nat) (h : PipesInv st) : PipesInv (killPipes st is).1 :=
  killPipes_inv is st [] h

theorem startPipe_inv (st : State) (i e s peer : Nat) (h : PipesInv st) :
    PipesInv (startPipe st { idx := i, ep := e, sock := s } peer).1 := by
  have hpre := pre_step (st.socks s).mask { idx := i, ep := e, sock := s } ⟨rfl, rfl, rfl, rfl, rfl, rfl⟩
  simp only at hpre
  obtain ⟨hi1, hs1, hc1, hr1, hcip1, hl1, hp1, hm1, hcall⟩ := hpre
  unfold startPipe
  simp only
  split
  · -- closed inside ADD_PRE
    apply killPipe_inv
    intro q hq
    simp only [List.mem_append, List.mem_singleton] at hq
    rcases hq with hq | hq
    · exact h q hq
    · subst hq
      constructor
      · exact hi1.sorted
      · exact hi1.bounded
      · exact hi1.last_le
      · exact hi1.none_empty
      · exact hi1.pre_due
      · intro _; exact hi1.live_last hr1
      · intro _; rfl
      · intro _; exact ⟨hs1, rfl⟩
      · intro hp; exact absurd hp hp1
      · intro hp; exact absurd hp hm1
      · intro hr; rw [hr1] at hr; cases hr
  · split
    · apply killPipe_inv
      intro q hq
      simp only [List.mem_append, List.mem_singleton] at hq
      rcases hq with hq | hq
      · exact h q hq
      · subst hq; exact hi1
    · have hpost := post_step (st.socks s).mask _ hi1 hl1 hr1 hcip1 hp1 hm1
      simp only at hpost
      have key : PipesInv { st with pipes := st.pipes ++ [(runCb (st.socks s).mask .post
            { (runCb (st.socks s).mask .pre { idx := i, ep := e, sock := s }).1 with
              preDue := (st.socks s).mask &&& 1 != 0, started := true }).1] } := by
        intro q hq
        simp only [List.mem_append, List.mem_singleton] at hq
        rcases hq with hq | hq
        · exact h q hq
        · subst hq; exact hpost.1
      split
      · exact key
      · exact key

end Nng.LifeModel
