/-
  Further invariants of the SURVEYOR model (Model/Survey.lean) needed for "the judge accepts every
  trace of the model": context keys are pairwise distinct, parked aios are pairwise distinct, an
  unregistered context has an empty queue, the send pollable stays raised and — as long as
  fewer than 2^31 surveys have been sent — survey ids are issued in increasing order without wrap:
  the n-th survey gets `idMin + n`, so ids are fresh and the allocator's ENOMEM exit is not taken.
-/
import NngModel.Proofs.SurveyPoll
namespace Nng.Survey
open Nng Nng.Proto

/-- number of survey ids before the allocator wraps around -/
def idSpan : Nat := idMax + 1 - idMin
theorem idSpan_eq : idSpan = 2147483648 := by decide
theorem idMin_eq : idMin = 2147483648 := by decide
theorem idMax_eq : idMax = 4294967295 := by decide

/-- per-context part -/
structure CtxX (now : Nat) (issued : List Nat) (c : Ctx) : Prop where
  z : c.surveyId = 0 → c.recvQ = []
  rqn : (c.rq.map (·.aio)).Nodup
  cur : c.surveyId ≠ 0 → c.surveyId = c.lastId
  last : c.lastId ≠ 0 → c.lastId ∈ issued

/-- two contexts of one state -/
structure PairX (c1 c2 : Ctx) : Prop where
  aiou : ∀ pk1 ∈ c1.rq, ∀ pk2 ∈ c2.rq, pk1.aio = pk2.aio → c1.key = c2.key
  uniq : c1.lastId ≠ 0 → c1.lastId = c2.lastId → c1.key = c2.key

structure XCore (ctxs : List Ctx) (opened writable : Bool) (now : Nat) (issued : List Nat) (dynVal : Nat) : Prop where
  keys : (ctxs.map (·.key)).Nodup
  w : opened = true → writable = true
  cx : ∀ c ∈ ctxs, CtxX now issued c
  px : ∀ c1 ∈ ctxs, ∀ c2 ∈ ctxs, PairX c1 c2
  cnt : issued.length ≤ idSpan
  start : issued.length < idSpan → (if dynVal == 0 then idMin else dynVal) = idMin + issued.length
  rng : ∀ id ∈ issued, idMin ≤ id ∧ id < idMin + issued.length
  nodup : issued.Nodup

def XInv (s : State) : Prop := XCore s.ctxs s.opened s.writable s.now s.issued s.dynVal

theorem xinv_init : XInv ({} : State) := by
  refine ⟨by simp, by simp, by simp, by simp, by simp, ?_, by simp, by simp⟩
  intro _; rfl

/-! ### keys -/

theorem keys_setCtx (s : State) (c' : Ctx) : (setCtx s c').ctxs.map (·.key) = s.ctxs.map (·.key) := by
  simp only [setCtx, List.map_map]
  apply List.map_congr_left
  intro q _
  by_cases h : (q.key == c'.key) = true
  · simp only [Function.comp, h, if_true]; exact (beq_iff_eq.mp h).symm
  · simp [Function.comp, h]

theorem mem_setCtx_ne {s : State} {c' q : Ctx} (h : q ∈ (setCtx s c').ctxs) :
    q = c' ∨ (q ∈ s.ctxs ∧ q.key ≠ c'.key) := by
  simp only [setCtx, List.mem_map] at h
  obtain ⟨x, hx, rfl⟩ := h
  by_cases hk : (x.key == c'.key) = true
  · simp [hk]
  · right
    simp only [hk, Bool.false_eq_true, if_false]
    exact ⟨hx, by simpa using hk⟩

/-- membership and lookup by key agree when keys are distinct -/
theorem getCtx_of_mem {s : State} {c : Ctx} (hk : (s.ctxs.map (·.key)).Nodup) (hc : c ∈ s.ctxs) :
    getCtx s c.key = some c := by
  unfold getCtx
  generalize s.ctxs = l at hk hc
  induction l with
  | nil => cases hc
  | cons x t ih =>
    simp only [List.map_cons, List.nodup_cons, List.mem_map, not_exists, not_and] at hk
    rcases List.mem_cons.mp hc with rfl | hc
    · simp
    · have hne : ¬ (x.key == c.key) = true := by
        intro he
        exact hk.1 c hc (beq_iff_eq.mp he).symm
      simp only [List.find?_cons, hne]
      exact ih hk.2 hc

theorem getCtx_key {s : State} {k : Option Nat} {c : Ctx} (h : getCtx s k = some c) : c.key = k := by
  have := List.find?_some h
  simpa using this

/-! ### replacing one context -/

theorem xcore_setCtx {s : State} {c c' : Ctx} (h : XInv s) (_hc : c ∈ s.ctxs) (hk : c'.key = c.key)
    (hx : CtxX s.now s.issued c')
    (ha : ∀ q ∈ s.ctxs, q.key ≠ c.key → PairX c' q ∧ PairX q c') : XInv (setCtx s c') := by
  refine ⟨?_, h.w, ?_, ?_, h.cnt, h.start, h.rng, h.nodup⟩
  · rw [keys_setCtx]; exact h.keys
  · intro q hq
    rcases mem_setCtx_ne hq with rfl | ⟨hq, _⟩
    · exact hx
    · exact h.cx q hq
  · intro q1 h1 q2 h2
    rcases mem_setCtx_ne h1 with e1 | ⟨g1, n1⟩ <;> rcases mem_setCtx_ne h2 with e2 | ⟨g2, n2⟩
    · rw [e1, e2]; exact ⟨fun _ _ _ _ _ => rfl, fun _ _ => rfl⟩
    · rw [e1]; exact (ha q2 g2 (by rw [← hk]; exact n2)).1
    · rw [e2]; exact (ha q1 g1 (by rw [← hk]; exact n1)).2
    · exact h.px q1 g1 q2 g2

/-- the common case: the parked receives shrink (or stay), the last id stays -/
theorem xcore_setCtx_shrink {s : State} {c c' : Ctx} (h : XInv s) (hc : c ∈ s.ctxs) (hk : c'.key = c.key)
    (hrq : c'.rq.Sublist c.rq) (hl : c'.lastId = c.lastId)
    (hz : c'.surveyId = 0 → c'.recvQ = []) (hcur : c'.surveyId ≠ 0 → c'.surveyId = c.surveyId) :
    XInv (setCtx s c') := by
  have hcx := h.cx c hc
  apply xcore_setCtx h hc hk
  · refine ⟨hz, ?_, ?_, ?_⟩
    · exact List.Nodup.sublist (hrq.map _) hcx.rqn
    · intro hne
      have := hcur hne
      rw [this, hl]
      exact hcx.cur (by rw [← this]; exact hne)
    · rw [hl]; exact hcx.last
  · intro q hq hne
    have p1 := h.px c hc q hq
    have p2 := h.px q hq c hc
    refine ⟨⟨?_, ?_⟩, ⟨?_, ?_⟩⟩
    · intro pk1 h1 pk2 h2 he; rw [hk]; exact p1.aiou pk1 (hrq.subset h1) pk2 h2 he
    · intro h1 h2; rw [hk]; rw [hl] at h1 h2; exact p1.uniq h1 h2
    · intro pk1 h1 pk2 h2 he; rw [hk]; exact p2.aiou pk1 h1 pk2 (hrq.subset h2) he
    · intro h1 h2; rw [hk]; rw [hl] at h2; exact p2.uniq h1 h2

theorem xinv_same {s s' : State} (h : XInv s) (h1 : s'.ctxs = s.ctxs) (h2 : s'.opened = s.opened)
    (h3 : s'.writable = s.writable) (h4 : s'.now = s.now) (h5 : s'.issued = s.issued) (h6 : s'.dynVal = s.dynVal) :
    XInv s' := by
  unfold XInv; rw [h1, h2, h3, h4, h5, h6]; exact h

theorem closePipe_more (s : State) (p : Nat) :
    (closePipe s p).1.writable = s.writable ∧ (closePipe s p).1.issued = s.issued ∧
    (closePipe s p).1.dynVal = s.dynVal ∧ (closePipe s p).1.narrive = s.narrive := by
  unfold closePipe
  split
  · simp
  · split <;> simp [setPipe]

theorem closePipe_xinv {s : State} (p : Nat) (h : XInv s) : XInv (closePipe s p).1 := by
  obtain ⟨h1, _, h3, h4, _⟩ := closePipe_fields s p
  obtain ⟨g1, g2, g3, _⟩ := closePipe_more s p
  exact xinv_same h h1 h4 g1 h3 g2 g3

theorem clearReadableIf_xinv {s : State} (k : Option Nat) (h : XInv s) : XInv (clearReadableIf s k) := by
  unfold clearReadableIf; split <;> exact h

/-! ### receive -/

theorem aioBusy_false {s : State} {a : Nat} (h : aioBusy s a = false) :
    ∀ c ∈ s.ctxs, ∀ pk ∈ c.rq, pk.aio ≠ a := by
  intro c hc pk hpk he
  have : aioBusy s a = true := by
    unfold aioBusy
    rw [List.any_eq_true]
    exact ⟨c, hc, by rw [List.any_eq_true]; exact ⟨pk, hpk, by simp [he]⟩⟩
  rw [h] at this; cases this

theorem ctxRecv_xinv {s : State} {c : Ctx} (a : Nat) (mode : Mode) (h : XInv s) (_hi : Inv s) (hc : c ∈ s.ctxs)
    (hb : aioBusy s a = false) : XInv (ctxRecv s c a mode).1 := by
  have hcx := h.cx c hc
  have hfree := aioBusy_false hb
  unfold ctxRecv
  by_cases h0 : (c.surveyId == 0 || decide ((s.now : Int) ≥ c.expire)) = true
  · rw [if_pos h0]; exact h
  · rw [if_neg h0]
    simp only [Bool.or_eq_true, beq_iff_eq, decide_eq_true_eq, not_or] at h0
    obtain ⟨hid, hlt⟩ := h0
    cases hq : c.recvQ with
    | nil =>
      simp only
      split
      · exact h
      · rename_i hz
        show XInv (setCtx s _)
        refine xcore_setCtx h hc (by rfl) ?_ ?_
        · refine ⟨fun h0 => absurd h0 hid, ?_, hcx.cur, hcx.last⟩
          · simp only [List.map_append, List.map_cons, List.map_nil]
            rw [List.nodup_append]
            refine ⟨hcx.rqn, by simp, ?_⟩
            intro x hx y hy
            simp only [List.mem_singleton] at hy
            subst hy
            simp only [List.mem_map] at hx
            obtain ⟨pk, hpk, rfl⟩ := hx
            exact hfree c hc pk hpk
        · intro q hq hne
          have p1 := h.px c hc q hq
          have p2 := h.px q hq c hc
          refine ⟨⟨?_, p1.uniq⟩, ⟨?_, p2.uniq⟩⟩
          · intro pk1 h1 pk2 h2 he
            simp only [List.mem_append, List.mem_singleton] at h1
            rcases h1 with h1 | rfl
            · exact p1.aiou pk1 h1 pk2 h2 he
            · exact absurd he.symm (hfree q hq pk2 h2)
          · intro pk1 h1 pk2 h2 he
            simp only [List.mem_append, List.mem_singleton] at h2
            rcases h2 with h2 | rfl
            · exact p2.aiou pk1 h1 pk2 h2 he
            · exact absurd he (hfree q hq pk1 h1)
    | cons gm rest =>
      simp only
      have hbase : XInv (setCtx s { c with recvQ := rest }) :=
        xcore_setCtx_shrink h hc rfl (List.Sublist.refl _) rfl (fun h0 => absurd h0 hid) (fun _ => rfl)
      have hbase2 : XInv (if rest.isEmpty = true then clearReadableIf (setCtx s { c with recvQ := rest }) c.key
          else setCtx s { c with recvQ := rest }) := by
        split
        · exact clearReadableIf_xinv _ hbase
        · exact hbase
      exact xinv_same hbase2 rfl rfl rfl rfl rfl rfl

/-! ### a response arrives -/

theorem pipeRecv_xinv {s : State} (p : Nat) (b : Bytes) (h : XInv s) : XInv (pipeRecv s p b).1 := by
  unfold pipeRecv
  split
  · exact closePipe_xinv p h
  · simp only
    split
    · exact h
    · rename_i c hl
      have hl' : lookup s (beDecode (List.take 4 b)) = some c := hl
      obtain ⟨hc, hne, hid⟩ := lookup_spec hl'
      split
      · exact h
      · split
        · rename_i pk rest hrq
          show XInv (setCtx { s with narrive := s.narrive + 1 } { c with rq := rest })
          refine xcore_setCtx_shrink (s := { s with narrive := s.narrive + 1 }) h hc (by rfl) ?_ (by rfl)
            (fun h0 => absurd h0 hne) (fun _ => rfl)
          simp only [hrq]
          exact List.sublist_cons_self pk rest
        · have hbase : XInv (setCtx { s with narrive := s.narrive + 1 }
              { c with recvQ := c.recvQ ++ [⟨s.narrive, p, beDecode (List.take 4 b), ⟨List.take 4 b, List.drop 4 b⟩⟩] }) :=
            xcore_setCtx_shrink (s := { s with narrive := s.narrive + 1 }) h hc rfl (List.Sublist.refl _) rfl
              (fun h0 => absurd h0 hne) (fun _ => rfl)
          split <;> exact hbase

/-! ### cancellation and expiry -/

theorem cancelIn_pos {c : Ctx} {a : Nat} (rv : Nat) (h : c.rq.any (·.aio == a) = true) :
    cancelIn c a rv = ({ c with rq := c.rq.filter (·.aio != a), surveyId := 0 }, [Out.done a rv none false]) := by
  unfold cancelIn; rw [if_pos h]

theorem cancelAio_some {s : State} {a : Nat} {c : Ctx} (rv : Nat)
    (hf : s.ctxs.find? (fun c => c.rq.any (·.aio == a)) = some c) :
    cancelAio s a rv = (setCtx s { c with rq := c.rq.filter (·.aio != a), surveyId := 0 }, [Out.done a rv none false]) := by
  unfold cancelAio
  rw [hf]
  simp only
  have hany : c.rq.any (·.aio == a) = true := List.find?_some (p := fun c : Ctx => c.rq.any (·.aio == a)) hf
  rw [cancelIn_pos rv hany]

theorem cancelAio_none {s : State} {a : Nat} (rv : Nat)
    (hf : s.ctxs.find? (fun c => c.rq.any (·.aio == a)) = none) : cancelAio s a rv = (s, []) := by
  unfold cancelAio
  rw [hf]

theorem cancelAio_xinv {s : State} (a rv : Nat) (h : XInv s) (hi : Inv s) : XInv (cancelAio s a rv).1 := by
  cases hf : s.ctxs.find? (fun c => c.rq.any (·.aio == a)) with
  | none => rw [cancelAio_none rv hf]; exact h
  | some c =>
    rw [cancelAio_some rv hf]
    have hc : c ∈ s.ctxs := List.mem_of_find?_eq_some hf
    have hany : c.rq.any (·.aio == a) = true := List.find?_some (p := fun c : Ctx => c.rq.any (·.aio == a)) hf
    have hne : c.rq ≠ [] := by intro he; simp [he] at hany
    have hq := (hi.ctxsOK c hc).excl hne
    exact xcore_setCtx_shrink h hc rfl List.filter_sublist rfl (fun _ => hq) (fun h0 => absurd rfl h0)

theorem expireCtx_key (now : Nat) (c : Ctx) : (expireCtx now c).1.key = c.key := by
  unfold expireCtx; simp only; split <;> rfl

theorem expireCtx_lastId (now : Nat) (c : Ctx) : (expireCtx now c).1.lastId = c.lastId := by
  unfold expireCtx; simp only; split <;> rfl

theorem expireCtx_rq (now : Nat) (c : Ctx) :
    (expireCtx now c).1.rq = c.rq.filter (fun pk => !(pk.deadline < (now : Int))) := by
  unfold expireCtx
  simp only
  split
  · rename_i hd
    rw [List.isEmpty_iff] at hd
    symm
    rw [List.filter_eq_self]
    intro pk hpk
    have : pk ∉ c.rq.filter (fun pk => decide (pk.deadline < (now : Int))) := by rw [hd]; simp
    simp only [List.mem_filter, hpk, true_and] at this
    simpa using this
  · rfl

theorem expire_xinv {s : State} (ms : Nat) (h : XInv s) (hi : Inv s) :
    XInv (expire { s with now := s.now + ms }).1 := by
  unfold expire
  refine ⟨?_, h.w, ?_, ?_, h.cnt, h.start, h.rng, h.nodup⟩
  · simp only [List.map_map]
    have : (fun c => (expireCtx (s.now + ms) c).1.key) = fun c : Ctx => c.key := by
      funext c; exact expireCtx_key _ c
    show (List.map ((fun c => c.key) ∘ fun c => (expireCtx (s.now + ms) c).1) s.ctxs).Nodup
    rw [show ((fun c : Ctx => c.key) ∘ fun c => (expireCtx (s.now + ms) c).1) = fun c : Ctx => c.key from this]
    exact h.keys
  · intro q hq
    simp only [List.mem_map] at hq
    obtain ⟨c, hc, rfl⟩ := hq
    have hcx := h.cx c hc
    refine ⟨?_, ?_, ?_, ?_⟩
    · unfold expireCtx
      simp only
      split
      · exact hcx.z
      · rename_i hd
        intro _
        have hne : c.rq ≠ [] := by intro he; simp [he] at hd
        exact (hi.ctxsOK c hc).excl hne
    · rw [expireCtx_rq]; exact List.Nodup.sublist (List.filter_sublist.map _) hcx.rqn
    · unfold expireCtx
      simp only
      split
      · exact hcx.cur
      · intro h0; exact absurd rfl h0
    · rw [expireCtx_lastId]; exact hcx.last
  · intro q1 h1 q2 h2
    simp only [List.mem_map] at h1 h2
    obtain ⟨c1, hc1, rfl⟩ := h1
    obtain ⟨c2, hc2, rfl⟩ := h2
    have p := h.px c1 hc1 c2 hc2
    refine ⟨?_, ?_⟩
    · intro pk1 hp1 pk2 hp2 he
      rw [expireCtx_rq] at hp1 hp2
      rw [expireCtx_key, expireCtx_key]
      exact p.aiou pk1 (List.mem_filter.mp hp1).1 pk2 (List.mem_filter.mp hp2).1 he
    · rw [expireCtx_lastId, expireCtx_lastId, expireCtx_key, expireCtx_key]; exact p.uniq

/-- time passes on a socket that has nothing parked -/
theorem advance_idle_xinv {s : State} (ms : Nat) (h : XInv s) (hidle : ∀ c ∈ s.ctxs, c.rq = []) :
    XInv { s with now := s.now + ms } := by
  refine ⟨h.keys, h.w, ?_, h.px, h.cnt, h.start, h.rng, h.nodup⟩
  intro c hc
  have hcx := h.cx c hc
  exact ⟨hcx.z, hcx.rqn, hcx.cur, hcx.last⟩

/-! ### a new survey -/

theorem idInUse_false_of {s : State} {v : Nat} (h : ∀ c ∈ s.ctxs, c.surveyId ≠ 0 → c.surveyId ≠ v) :
    idInUse s v = false := by
  unfold idInUse
  rw [Bool.eq_false_iff]
  intro ht
  rw [List.any_eq_true] at ht
  obtain ⟨c, hc, hp⟩ := ht
  simp only [Bool.and_eq_true, bne_iff_ne, ne_eq, beq_iff_eq] at hp
  exact h c hc hp.1 hp.2

theorem abortCtx_fields (c : Ctx) (err : Nat) :
    (abortCtx c err).1.key = c.key ∧ (abortCtx c err).1.lastId = c.lastId ∧ (abortCtx c err).1.rq = [] ∧
    (abortCtx c err).1.recvQ = [] ∧ (abortCtx c err).1.surveyId = 0 ∧ (abortCtx c err).1.surveyTime = c.surveyTime ∧
    (abortCtx c err).1.expire = c.expire ∧ (abortCtx c err).1.recvCap = c.recvCap := by
  simp [abortCtx]

theorem abort_xinv {s : State} {c : Ctx} (err : Nat) (h : XInv s) (hc : c ∈ s.ctxs) :
    XInv (setCtx s (abortCtx c err).1) :=
  xcore_setCtx_shrink h hc rfl (by simp [abortCtx]) rfl (fun _ => rfl) (fun h0 => absurd rfl h0)

/-- under the no-wrap hypothesis the allocator returns the next id at once -/
theorem idAlloc_nowrap {s : State} (h : XInv s) (hn : s.issued.length < idSpan) :
    idAlloc s = some (idMin + s.issued.length, idNext (idMin + s.issued.length)) := by
  have hst := h.start hn
  unfold idAlloc
  simp only
  rw [hst]
  unfold idScan
  have : idInUse s (idMin + s.issued.length) = false := by
    apply idInUse_false_of
    intro c hc hne he
    have hcx := h.cx c hc
    have h1 := hcx.cur hne
    have h2 := hcx.last (by rw [← h1]; exact hne)
    have := (h.rng _ h2).2
    omega
  rw [if_neg (by simp [this])]

theorem ctxSend_xinv {s : State} {c : Ctx} (a : Nat) (m : WMsg) (h : XInv s) (hc : c ∈ s.ctxs)
    (hn : s.issued.length < idSpan) : XInv (ctxSend s c a m).1 := by
  unfold ctxSend
  simp only
  have h1 : XInv (clearReadableIf (setCtx s (abortCtx c Err.ecanceled).1) c.key) :=
    clearReadableIf_xinv _ (abort_xinv _ h hc)
  have hiss : (clearReadableIf (setCtx s (abortCtx c Err.ecanceled).1) c.key).issued = s.issued := by
    unfold clearReadableIf; split <;> rfl
  have hctxs : (clearReadableIf (setCtx s (abortCtx c Err.ecanceled).1) c.key).ctxs = (setCtx s (abortCtx c Err.ecanceled).1).ctxs :=
    clearReadableIf_ctxs _ _
  have hal := idAlloc_nowrap h1 (by rw [hiss]; exact hn)
  rw [hiss] at hal
  rw [hal]
  simp only
  have hmem : (abortCtx c Err.ecanceled).1 ∈ (clearReadableIf (setCtx s (abortCtx c Err.ecanceled).1) c.key).ctxs := by
    rw [hctxs]; exact mem_setCtx_self hc rfl
  have hsp := idSpan_eq
  have hmin := idMin_eq
  have hmax := idMax_eq
  -- the state with the new id recorded, context not yet updated
  have h2 : XInv { (clearReadableIf (setCtx s (abortCtx c Err.ecanceled).1) c.key) with
      dynVal := idNext (idMin + s.issued.length), issued := (clearReadableIf (setCtx s (abortCtx c Err.ecanceled).1) c.key).issued ++ [idMin + s.issued.length],
      pipes := (clearReadableIf (setCtx s (abortCtx c Err.ecanceled).1) c.key).pipes.map fun pp => (sendToPipe ⟨beEncode 4 (idMin + s.issued.length), m.body⟩ pp).1 } := by
    rw [hiss]
    refine ⟨h1.keys, h1.w, ?_, h1.px, ?_, ?_, ?_, ?_⟩
    · intro q hq
      have hq' := h1.cx q hq
      refine ⟨hq'.z, hq'.rqn, hq'.cur, ?_⟩
      intro hl
      have := hq'.last hl
      rw [hiss] at this
      exact List.mem_append_left _ this
    · simp only [List.length_append, List.length_singleton]; omega
    · intro hlt
      simp only [List.length_append, List.length_singleton] at hlt ⊢
      have hnx : idNext (idMin + s.issued.length) = idMin + s.issued.length + 1 := by
        unfold idNext
        rw [if_neg]
        omega
      rw [hnx]
      have : ((idMin + s.issued.length + 1) == 0) = false := by simp
      rw [this]
      simp only [Bool.false_eq_true, if_false]
      omega
    · intro id hid
      simp only [List.mem_append, List.mem_singleton, List.length_append, List.length_singleton] at hid ⊢
      rcases hid with hid | rfl
      · have := h.rng id hid; omega
      · omega
    · rw [List.nodup_append]
      refine ⟨h.nodup, by simp, ?_⟩
      intro x hx y hy
      simp only [List.mem_singleton] at hy
      subst hy
      have := (h.rng x hx).2
      omega
  refine xcore_setCtx h2 hmem (by rfl) ?_ ?_
  · refine ⟨fun h0 => by simp at h0; omega, by simp [abortCtx], fun _ => rfl, ?_⟩
    intro _; simp
  · intro q hq hne
    simp only [(abortCtx_fields c Err.ecanceled).1] at hne
    have hq0 : q ∈ s.ctxs := by
      rw [hctxs] at hq
      rcases mem_setCtx_ne hq with rfl | ⟨hq, _⟩
      · exact absurd rfl hne
      · exact hq
    have hql : q.lastId ≠ idMin + s.issued.length := by
      intro he
      have h0 : q.lastId ≠ 0 := by omega
      have := (h.rng _ ((h.cx q hq0).last h0)).2
      omega
    refine ⟨⟨?_, ?_⟩, ⟨?_, ?_⟩⟩
    · intro pk1 hp1; simp [abortCtx] at hp1
    · intro _ he; exact absurd he.symm hql
    · intro pk1 _ pk2 hp2; simp [abortCtx] at hp2
    · intro _ he; exact absurd he hql

/-! ### close -/

theorem closeAll_xinv {s : State} (h : XInv s) : XInv (closeAll s).1 := by
  unfold closeAll
  simp only
  have hf := foldl_closePipe_fields s.pipes
    ({ s with ctxs := s.ctxs.map fun c => (abortCtx c Err.eclosed).1, readable := false }, [])
  have hg : ∀ (ps : List Pipe) (acc : State × List Out),
      let r := (ps.foldl (fun (acc : State × List Out) pp =>
        ((closePipe acc.1 pp.id).1, acc.2 ++ (closePipe acc.1 pp.id).2)) acc).1
      r.writable = acc.1.writable ∧ r.issued = acc.1.issued ∧ r.dynVal = acc.1.dynVal := by
    intro ps
    induction ps with
    | nil => intro acc; simp
    | cons pp rest ih =>
      intro acc
      simp only [List.foldl_cons]
      have := ih ((closePipe acc.1 pp.id).1, acc.2 ++ (closePipe acc.1 pp.id).2)
      obtain ⟨g1, g2, g3, _⟩ := closePipe_more acc.1 pp.id
      simp only at this ⊢
      rw [g1, g2, g3] at this
      exact this
  have hg' := hg s.pipes ({ s with ctxs := s.ctxs.map fun c => (abortCtx c Err.eclosed).1, readable := false }, [])
  simp only at hf hg'
  obtain ⟨f1, _, f3, f4, _⟩ := hf
  obtain ⟨g1, g2, g3⟩ := hg'
  unfold XInv
  simp only
  rw [f1, f3, f4, g1, g2, g3]
  refine ⟨?_, h.w, ?_, ?_, h.cnt, h.start, h.rng, h.nodup⟩
  · simp only [List.map_map]
    exact h.keys
  · intro q hq
    simp only [List.mem_map] at hq
    obtain ⟨c, hc, rfl⟩ := hq
    have hcx := h.cx c hc
    exact ⟨fun _ => rfl, by simp [abortCtx], fun h0 => absurd rfl h0, hcx.last⟩
  · intro q1 h1 q2 h2
    simp only [List.mem_map] at h1 h2
    obtain ⟨c1, hc1, rfl⟩ := h1
    obtain ⟨c2, hc2, rfl⟩ := h2
    refine ⟨?_, (h.px c1 hc1 c2 hc2).uniq⟩
    intro pk1 hp1; simp [abortCtx] at hp1

/-! ### every step -/

/-- what a step needs beyond the invariants: fewer than 2^31 surveys so far when another one is sent -/
def StepOK (s : State) : Ev → Prop
  | .send _ _ _ _ => s.issued.length < idSpan
  | _ => True

theorem step_xinv (s : State) (ev : Ev) (h : XInv s) (hi : Inv s) (hok : StepOK s ev) : XInv (step s ev).1 := by
  unfold step
  by_cases hop : s.opened = true
  · rw [if_neg (by simp [hop])]
    by_cases hcl : s.closed = true
    · rw [if_pos hcl]
      cases ev <;> try exact h
      case advance ms => exact advance_idle_xinv ms h (hi.closedRq hcl)
    · rw [if_neg hcl]
      cases ev with
      | openSock _ _ => exact h
      | pipeAdd peer => simp only; split <;> exact h
      | pipeDrop p =>
        simp only
        split
        · split
          · exact h
          · exact closePipe_xinv p h
        · exact h
      | sendDone p rv =>
        simp only
        split
        · split
          · exact h
          · split
            · exact closePipe_xinv p h
            · split <;> exact h
        · exact h
      | recvDone p r =>
        simp only
        split
        · split
          · exact h
          · split
            · exact closePipe_xinv p h
            · exact pipeRecv_xinv p _ h
        · exact h
      | send k a m mode =>
        simp only
        split
        · exact h
        · split
          · exact h
          · rename_i c hg
            exact ctxSend_xinv a m h (getCtx_mem hg) hok
      | recv k a mode =>
        simp only
        split
        · exact h
        · rename_i hb
          split
          · exact h
          · rename_i c hg
            exact ctxRecv_xinv a mode h hi (getCtx_mem hg) (by simpa using hb)
      | cancel a => exact cancelAio_xinv a _ h hi
      | abort a rv => exact cancelAio_xinv a rv h hi
      | advance ms => exact expire_xinv ms h hi
      | ctxOpen k =>
        simp only
        split
        · exact h
        · split
          · exact h
          · rename_i hfree
            split
            · rename_i c0 _
              have hnone : getCtx s (some k) = none := by
                cases hg : getCtx s (some k) with
                | none => rfl
                | some x => rw [hg] at hfree; simp at hfree
              have hnk : ∀ q ∈ s.ctxs, q.key ≠ some k := by
                intro q hq he
                have := getCtx_of_mem h.keys hq
                rw [he, hnone] at this; cases this
              refine ⟨?_, h.w, ?_, ?_, h.cnt, h.start, h.rng, h.nodup⟩
              · simp only [List.map_append, List.map_cons, List.map_nil]
                rw [List.nodup_append]
                refine ⟨h.keys, by simp, ?_⟩
                intro x hx y hy
                simp only [List.mem_singleton] at hy
                subst hy
                simp only [List.mem_map] at hx
                obtain ⟨q, hq, rfl⟩ := hx
                exact hnk q hq
              · intro q hq
                simp only [List.mem_append, List.mem_singleton] at hq
                rcases hq with hq | rfl
                · exact h.cx q hq
                · exact ⟨fun _ => rfl, by simp, fun h0 => absurd rfl h0, fun h0 => absurd rfl h0⟩
              · intro q1 h1 q2 h2
                simp only [List.mem_append, List.mem_singleton] at h1 h2
                rcases h1 with h1 | rfl <;> rcases h2 with h2 | rfl
                · exact h.px q1 h1 q2 h2
                · refine ⟨fun _ _ pk2 hp2 => by simp at hp2, ?_⟩
                  intro hl he
                  simp only at he
                  exact absurd he hl
                · refine ⟨fun pk1 hp1 => by simp at hp1, ?_⟩
                  intro hl; exact absurd rfl hl
                · exact ⟨fun _ _ _ _ _ => rfl, fun _ _ => rfl⟩
            · exact h
      | ctxClose k =>
        simp only
        split
        · exact h
        · refine ⟨?_, h.w, ?_, ?_, h.cnt, h.start, h.rng, h.nodup⟩
          · exact List.Nodup.sublist (List.filter_sublist.map _) h.keys
          · intro q hq; exact h.cx q (List.mem_filter.mp hq).1
          · intro q1 h1 q2 h2; exact h.px q1 (List.mem_filter.mp h1).1 q2 (List.mem_filter.mp h2).1
      | setopt k name ty v =>
        simp only
        split
        · split
          · exact h
          · rename_i c hg
            split
            · exact h
            · exact xcore_setCtx_shrink h (getCtx_mem hg) rfl (List.Sublist.refl _) rfl (h.cx c (getCtx_mem hg)).z (fun _ => rfl)
        · split
          · split <;> exact h
          · exact h
      | getopt k name ty =>
        simp only
        split
        · split <;> exact h
        · split <;> exact h
      | poll => exact h
      | sub _ _ => exact h
      | unsub _ _ => exact h
      | close => exact closeAll_xinv h
  · have hno : s.opened = false := by simpa using hop
    rw [if_pos (by simp [hno])]
    have hempty : s.ctxs = [] := hi.notOpen hno
    cases ev <;> try exact h
    case openSock p r =>
      refine ⟨by simp, fun _ => rfl, ?_, ?_, h.cnt, h.start, h.rng, h.nodup⟩
      · intro q hq
        simp only [List.mem_singleton] at hq
        subst hq
        exact ⟨fun _ => rfl, by simp, fun h0 => absurd rfl h0, fun h0 => absurd rfl h0⟩
      · intro q1 h1 q2 h2
        simp only [List.mem_singleton] at h1 h2
        subst h1; subst h2
        exact ⟨fun _ _ _ _ _ => rfl, fun _ _ => rfl⟩
    case advance ms =>
      exact advance_idle_xinv ms h (by simp [hempty])

end Nng.Survey
