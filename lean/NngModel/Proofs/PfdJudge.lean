/- the judge of Spec/Pfd.lean accepts every contract-respecting run of the model -/
import NngModel.Proofs.PfdCountP
namespace Nng.Pfd
open Nng.PfdSpec

/-! ### what the judge derives from the counters is what the model's ghost flags say -/

theorem obs_synced {s : State} (hc : CInv s) : (obsOf s).synced = s.g.synced := by
  have h1 := hc.sbEq
  have h2 := hc.stEq
  have h3 := hc.synSr
  have h4 := hc.cntS
  have h5 := hc.winner
  have h6 := hc.cnt0
  simp only [Obs.synced, obsOf]
  cases hsy : s.g.synced with
  | true =>
    have a := h4 hsy
    have b := h3 hsy
    have e : s.g.n.sb = s.g.n.sr := by omega
    simp [e, b]
  | false =>
    by_cases hz : 1 ≤ s.g.n.sr
    · have hne : s.g.n.sb ≠ s.g.n.sr := by
        intro he
        have hsb : 0 < s.g.n.sb := by omega
        rcases h5 (h2 hsb) with h | h
        · rw [hsy] at h; cases h
        · omega
      simp [hne]
    · simp [hz]

theorem obs_fini {s : State} (hc : CInv s) : (1 ≤ (obsOf s).fr) ↔ s.g.finiDone = true := by
  have := hc.frEq
  simp only [obsOf]
  exact this

theorem obs_quiet {s : State} (hc : CInv s) (h : s.quiet = true) : (obsOf s).quiet = true := by
  have hb : busyCount s = 0 := tsum_zero _ _ (fun u => by simp [quiet_frames h u, indBusy])
  have := hc.nbEq
  simp only [Obs.quiet, obsOf, beq_iff_eq]
  omega

theorem obs_closeStarted {s : State} (hc : CInv s) (h : (obsOf s).closeStarted = true) : s.g.closeStarted = true := by
  simp only [Obs.closeStarted, obsOf] at h
  exact hc.csEq (of_decide_eq_true h)

theorem obs_freed {s : State} (hc : CInv s) (h : 0 < (obsOf s).xr) : s.g.freed = true := hc.xrEq h

@[simp] theorem obs_nb (s : State) : (obsOf s).nb = s.g.n.nb := rfl
@[simp] theorem obs_nr (s : State) : (obsOf s).nr = s.g.n.nr := rfl
@[simp] theorem obs_ab (s : State) : (obsOf s).ab = s.g.n.ab := rfl
@[simp] theorem obs_kb (s : State) : (obsOf s).kb = s.g.n.kb := rfl
@[simp] theorem obs_sb (s : State) : (obsOf s).sb = s.g.n.sb := rfl
@[simp] theorem obs_sr (s : State) : (obsOf s).sr = s.g.n.sr := rfl
@[simp] theorem obs_fb (s : State) : (obsOf s).fb = s.g.n.fb := rfl
@[simp] theorem obs_fr (s : State) : (obsOf s).fr = s.g.n.fr := rfl
@[simp] theorem obs_xr (s : State) : (obsOf s).xr = s.g.n.xr := rfl
@[simp] theorem obs_pb (s : State) : (obsOf s).pb = s.g.n.pb := rfl
@[simp] theorem obs_sec (s : State) : (obsOf s).sec = s.g.sect.isSome := rfl
@[simp] theorem obs_cd (s : State) : (obsOf s).cd = s.g.closeDone := rfl
@[simp] theorem obs_reg (s : State) : (obsOf s).reg = s.g.reg := rfl
@[simp] theorem obs_en (s : State) : (obsOf s).en = s.g.en := rfl
@[simp] theorem obs_mask (s : State) : (obsOf s).mask = s.g.mask := rfl
@[simp] theorem obs_hv (s : State) : (obsOf s).hv = s.g.harvested := rfl
@[simp] theorem obs_cbB (s : State) : (obsOf s).cbB = s.g.cbBegun := rfl
@[simp] theorem obs_cbE (s : State) : (obsOf s).cbE = s.g.cbEnded := rfl
@[simp] theorem obs_hm (s : State) : (obsOf s).hm = s.g.hm := rfl
@[simp] theorem obs_cm (s : State) : (obsOf s).cm = s.g.cm := rfl
@[simp] theorem obs_la (s : State) : (obsOf s).la = s.g.lastArm := rfl
@[simp] theorem obs_uaf (s : State) : (obsOf s).uaf = s.g.uaf := rfl
@[simp] theorem obs_badfd (s : State) : (obsOf s).badfd = s.g.badfd := rfl
@[simp] theorem obs_regc (s : State) : (obsOf s).regc = s.g.regAtClose := rfl
@[simp] theorem obs_live (s : State) : (obsOf s).live = s.live := rfl
@[simp] theorem obs_fin (s : State) : (obsOf s).fin = s.cs.all Client.finished := rfl

/-! ### the counters across a step -/

/-- the ghost call counters change only in steps of the call machine -/
theorem poll_n {s s' : State} {ready : Evs} {wf : Bool} (r : PollRel s ready wf s') : s'.g.n = s.g.n := by
  cases r <;> simp [touch]

/-- the contract recogniser of the judge says nothing on an allowed step -/
theorem contract_none {s : State} (hs : SInv s) (hk : KInv s) (hc : CInv s) (ch : Choice) (hal : allowed s ch = true) :
    contractStep (obsOf s) (obsOf (step s ch)) = none := by
  rcases step_cases s ch with e | ⟨f, op, r⟩ | r
  · rw [e]; simp [contractStep]
  · have hallow : f = .idle → opAllowed s ch.tid op = true := fun hf => by subst hf; exact allowed_call r hal
    have hn := call_n s.g ch.tid f op
    have e_nb := acct_nb (callStep s.g ch.tid f op).g ch.tid f op (callStep s.g ch.tid f op).fin
    have e_ab := acct_ab (callStep s.g ch.tid f op).g ch.tid f op (callStep s.g ch.tid f op).fin
    have e_kb := acct_kb (callStep s.g ch.tid f op).g ch.tid f op (callStep s.g ch.tid f op).fin
    have e_sb := acct_sb (callStep s.g ch.tid f op).g ch.tid f op (callStep s.g ch.tid f op).fin
    have e_fb := acct_fb (callStep s.g ch.tid f op).g ch.tid f op (callStep s.g ch.tid f op).fin
    have e_xr := acct_xr (callStep s.g ch.tid f op).g ch.tid f op (callStep s.g ch.tid f op).fin
    have e_pb := acct_pb (callStep s.g ch.tid f op).g ch.tid f op (callStep s.g ch.tid f op).fin
    rw [← r.hg, hn] at e_nb e_ab e_kb e_sb e_fb e_xr e_pb
    have hsyn := obs_synced hc
    have hfr := hc.frEq
    have hq := obs_quiet hc
    have hcs : (obsOf s).closeStarted = true → s.g.closeStarted = true := obs_closeStarted hc
    have hxr := hc.xrEq
    have hcomp : compat f op := by have := hc.compatF ch.tid op r.hop; rwa [r.hf] at this
    by_cases hfi : f = .idle
    · have hal' := hallow hfi
      simp only [opAllowed] at hal'
      subst hfi
      have hx0 : s.g.freed = false → ¬ 0 < s.g.n.xr := fun h2 h => by
        have h1 := hxr h
        rw [h2] at h1; cases h1
      cases op <;> simp [Op.isArm] at e_nb e_ab e_kb e_sb e_fb e_xr e_pb hal' <;>
        simp only [contractStep, obs_nb, obs_ab, obs_kb, obs_sb, obs_fb, obs_xr, obs_pb, obs_sec, obs_fr,
          e_nb, e_ab, e_kb, e_sb, e_fb, e_pb, e_xr] <;> simp
      · have hcs' : (obsOf s).closeStarted = false := by
          cases h : (obsOf s).closeStarted with
          | false => rfl
          | true => have := hcs h; rw [hal'.2.2] at this; cases this
        simp [hx0 hal'.1, hal'.2.1, hcs']
      · simp [hx0 hal'.1, hal'.2]
      · simp [hx0 hal'.1, hal'.2.1, hal'.2.2]
      · have h1 : (obsOf s).synced = true := by rw [hsyn]; exact hal'.2.1.1.2
        have h2 : s.g.n.fr = 0 := by
          rcases Nat.eq_zero_or_pos s.g.n.fr with h | h
          · exact h
          · have := hfr.mp h; rw [hal'.2.1.2] at this; cases this
        simp [hx0 hal'.1, hal'.2.1.1.1, h1, h2, hq hal'.2.2]
      · have h1 : 1 ≤ s.g.n.fr := hfr.mpr hal'.2.1.2
        simp [hx0 hal'.1, hal'.2.1.1, h1, hq hal'.2.2]
    · have hne := compat_busy f op hcomp hfi
      simp [hfi, hne] at e_nb e_ab e_kb e_sb e_fb e_xr e_pb
      simp only [contractStep, obs_nb, obs_ab, obs_kb, obs_sb, obs_fb, obs_xr, obs_pb, e_nb, e_ab, e_kb, e_sb, e_fb, e_pb, e_xr]
      simp
  · have hn := poll_n r
    simp [contractStep, hn]

/-- the callback counter moves only when the callback is entered; that step hands over the harvested mask
    and counts the callback if the DEL has been executed -/
theorem cb_step (s : State) (ch : Choice) :
    ((step s ch).g.cbBegun = s.g.cbBegun ∧ (step s ch).g.cbAfterClose = s.g.cbAfterClose) ∨
    (s.p.pc = .cbBegin ∧ (step s ch).g.cbBegun = s.g.cbBegun + 1 ∧ (step s ch).g.cm = s.p.cur ∧
      (step s ch).g.cbAfterClose = s.g.cbAfterClose + (if s.g.closeDone then 1 else 0)) := by
  rcases step_cases s ch with e | ⟨f, op, r⟩ | r
  · rw [e]; exact Or.inl ⟨rfl, rfl⟩
  · left; rw [r.hg]; simp [callStep_cbBegun, call_cac]
  · revert r
    generalize step s ch = s'
    intro r
    cases r with
    | harvest hpc hne => exact Or.inl ⟨rfl, rfl⟩
    | dispNil hpc hb => exact Or.inl ⟨rfl, rfl⟩
    | dispWake rest hpc hb => exact Or.inl ⟨rfl, rfl⟩
    | dispPfd m rest hpc hb => exact Or.inl ⟨rfl, rfl⟩
    | cbBegin hpc => right; exact ⟨hpc, rfl, rfl, rfl⟩
    | cbEnd hpc hr => exact Or.inl ⟨rfl, rfl⟩
    | reap hpc hm => exact Or.inl ⟨rfl, rfl⟩

/-- the clauses of the judge that read one observation -/
theorem clauses_state {s : State} (hs : SInv s) (hk : KInv s) (hc : CInv s) :
    (decide (s.g.cbBegun < s.g.cbEnded) || decide (s.g.cbEnded + 1 < s.g.cbBegun)) = false ∧
    ((obsOf s).cbActive && ((obsOf s).synced || decide (1 ≤ s.g.n.fr))) = false ∧
    s.g.uaf = false ∧ s.g.badfd = false ∧ s.g.regAtClose = false ∧
    (decide (s.g.harvested < s.g.cbBegun) || decide (s.g.cbBegun + 1 < s.g.harvested)) = false ∧
    (!s.g.lastArm.isEmpty && !(s.g.reg && s.g.en && s.g.lastArm.subset s.g.mask)) = false ∧
    s.g.cbAfterClose ≤ 1 ∧
    (s.g.closeDone && s.g.reg) = false ∧
    (!s.live && (s.g.harvested != s.g.cbEnded)) = false ∧
    (!s.live && !s.cs.all Client.finished) = false := by
  have hcb := hs.cb
  have hhv := hs.hv
  have hc1 := hs.cnt1
  have hsyn := obs_synced hc
  refine ⟨?_, ?_, hk.flags.2.1, hk.flags.2.2.1, hk.flags.2.2.2, ?_, ?_, ?_, ?_, ?_, ?_⟩
  · cases hi : s.g.inCb <;> simp [hi] at hcb <;> simp <;> omega
  · -- a callback is active: then neither synced nor fini
    cases hact : (obsOf s).cbActive with
    | false => rfl
    | true =>
      simp only [Obs.cbActive, obs_cbB, obs_cbE] at hact
      have hact' : s.g.cbEnded < s.g.cbBegun := of_decide_eq_true hact
      have hin : s.g.inCb = true := by
        cases hi : s.g.inCb with
        | true => rfl
        | false => simp [hi] at hcb; omega
      have hpc := hs.inCbEq.mp hin
      have hns : s.g.synced = false := by
        cases hsy : s.g.synced with
        | false => rfl
        | true => exact absurd (Or.inr hpc) (hk.syn hsy).1
      have hnf : s.g.finiDone = false := by
        cases hfd : s.g.finiDone with
        | false => rfl
        | true => have := (hk.fin hfd).1; rw [hns] at this; cases this
      have hfr : ¬ 1 ≤ s.g.n.fr := fun h => by have := hc.frEq.mp h; rw [hnf] at this; cases this
      simp [hsyn, hns, hfr]
  · simp; omega
  · cases hl : s.g.lastArm.isEmpty with
    | true => simp
    | false => have := hs.la hl; simp [this.1, this.2.1, this.2.2]
  · cases hcd : s.g.closeDone with
    | false => rw [hs.cac0 hcd]; omega
    | true => have := hk.cac hcd; omega
  · cases hcd : s.g.closeDone with
    | false => simp
    | true => simp [(hk.cdone hcd).2.2]
  · cases hl : s.live with
    | true => simp
    | false =>
      have hw : s.p.pc = .wait := by
        cases hpc : s.p.pc with
        | wait => rfl
        | _ => have := poller_live hs hk (Or.inr (by rw [hpc]; simp)); rw [hl] at this; cases this
      have hb := hs.waitB hw
      have hin : s.g.inCb = false := by
        cases hi : s.g.inCb with
        | false => rfl
        | true => have := hs.inCbEq.mp hi; rw [hw] at this; cases this
      simp only [pfdCount, hb, hw, hin] at hhv hcb
      simp at hhv hcb
      simp; omega
  · cases hl : s.live with
    | true => simp
    | false =>
      have := stuck_finished hs hk hl
      simp only [Bool.not_false, Bool.true_and, Bool.not_eq_eq_eq_not, Bool.not_true, Bool.not_eq_false]
      simp only [List.all_eq_true]
      exact this

theorem judgeStep_ok (j : J) (o : Obs) (cac' : Nat) (hoff : j.off = false) (hcon : contractStep j.prev o = none)
    (hcac : cac' = j.cac + (if j.prev.cbB < o.cbB && j.prev.cd then 1 else 0)) (hcl : clauses cac' j.prev o = none) :
    judgeStep j o = ({ prev := o, cac := cac', off := false }, .ok) := by
  subst hcac
  simp only [judgeStep, hoff, Bool.false_eq_true, if_false, hcon, hcl]

/-- one step of the judge on one allowed step of the model -/
theorem judge_step {s : State} (hs : SInv s) (hk : KInv s) (hc : CInv s) (ch : Choice) (hal : allowed s ch = true) :
    judgeStep { prev := obsOf s, cac := s.g.cbAfterClose, off := false } (obsOf (step s ch)) =
      ({ prev := obsOf (step s ch), cac := (step s ch).g.cbAfterClose, off := false }, .ok) := by
  have hs' := sinv_step hs ch
  have hk' := kinv_step hs hk ch hal
  have hc' := cinv_step hs hk hc ch hal
  have hcon := contract_none hs hk hc ch hal
  obtain ⟨c1, c2, c4, c5, c6, c7, c9, c10, c11, c12, c13⟩ := clauses_state hs' hk' hc'
  have hsyn := obs_synced hc
  -- the two clauses that look at the step
  have hstep : (decide (s.g.cbBegun < (step s ch).g.cbBegun) && ((obsOf s).synced || decide (1 ≤ s.g.n.fr))) = false ∧
      (decide (s.g.cbBegun < (step s ch).g.cbBegun) && ((step s ch).g.cm != s.g.hm)) = false ∧
      (step s ch).g.cbAfterClose =
        s.g.cbAfterClose + (if (decide (s.g.cbBegun < (step s ch).g.cbBegun) && s.g.closeDone) = true then 1 else 0) := by
    rcases cb_step s ch with ⟨h1, h2⟩ | ⟨hpc, h1, h2, h3⟩
    · simp [h1, h2]
    · have hbusy : pfdBusy s.p := Or.inl (by simp [pfdCount, hpc])
      have hns : s.g.synced = false := by
        cases hsy : s.g.synced with
        | false => rfl
        | true => exact absurd hbusy (hk.syn hsy).1
      have hnf : s.g.finiDone = false := by
        cases hfd : s.g.finiDone with
        | false => rfl
        | true => have := (hk.fin hfd).1; rw [hns] at this; cases this
      have hfr : ¬ 1 ≤ s.g.n.fr := fun h => by have := hc.frEq.mp h; rw [hnf] at this; cases this
      have hcm : (step s ch).g.cm = s.g.hm := by rw [h2]; exact hc.hmC hpc
      refine ⟨by simp [hsyn, hns, hfr], by simp [hcm], ?_⟩
      rw [h3, h1]
      cases s.g.closeDone <;> simp
  obtain ⟨c3, c8, hcac⟩ := hstep
  have hle : ¬ 1 < (step s ch).g.cbAfterClose := by omega
  refine judgeStep_ok _ _ _ rfl hcon hcac ?_
  simp only [clauses, obs_cbB, obs_cbE, obs_fr, obs_uaf, obs_badfd, obs_regc, obs_hv, obs_cm, obs_hm, obs_la, obs_reg, obs_en,
    obs_mask, obs_cd, obs_live, obs_fin]
  simp only [c1, c2, c3, c4, c5, c6, c7, c8, c9, hle, c11, c12, c13, Bool.false_eq_true, if_false, decide_false]
  repeat' split
  all_goals (first
    | rfl
    | (rename_i h; exact absurd (h.symm.trans c1) (by decide))
    | (rename_i h; exact absurd (h.symm.trans c2) (by decide))
    | (rename_i h; exact absurd (h.symm.trans c3) (by decide))
    | (rename_i h; exact absurd (h.symm.trans c7) (by decide))
    | (rename_i h; exact absurd (h.symm.trans c8) (by decide)))

/-- the judge accepts every contract-respecting run of the model -/
theorem judgeFrom_model {s : State} (hs : SInv s) (hk : KInv s) (hc : CInv s) (sched : List Choice)
    (hr : respects s sched = true) :
    judgeFrom { prev := obsOf s, cac := s.g.cbAfterClose, off := false } ((trace s sched).map obsOf) = none := by
  induction sched generalizing s with
  | nil => rfl
  | cons ch rest ih =>
    simp only [respects, Bool.and_eq_true] at hr
    simp only [trace, List.map_cons, judgeFrom, judge_step hs hk hc ch hr.1]
    exact ih (sinv_step hs ch) (kinv_step hs hk ch hr.1) (cinv_step hs hk hc ch hr.1) hr.2

/-- the first observation (compared with itself) passes too -/
theorem judge_first {s : State} (hs : SInv s) (hk : KInv s) (hc : CInv s) :
    judgeStep { prev := obsOf s, cac := s.g.cbAfterClose, off := false } (obsOf s) =
      ({ prev := obsOf s, cac := s.g.cbAfterClose, off := false }, .ok) := by
  obtain ⟨c1, c2, c4, c5, c6, c7, c9, c10, c11, c12, c13⟩ := clauses_state hs hk hc
  have hle : ¬ 1 < s.g.cbAfterClose := by omega
  refine judgeStep_ok _ _ _ rfl (by simp [contractStep]) (by simp) ?_
  simp only [clauses, obs_cbB, obs_cbE, obs_fr, obs_uaf, obs_badfd, obs_regc, obs_hv, obs_cm, obs_hm, obs_la, obs_reg, obs_en,
    obs_mask, obs_cd, obs_live, obs_fin]
  simp only [c1, c2, c4, c5, c6, c7, c9, hle, c11, c12, c13, Bool.false_eq_true, if_false, decide_false, Nat.lt_irrefl,
    Bool.false_and]
  repeat' split
  all_goals (first
    | rfl
    | (rename_i h; exact absurd (h.symm.trans c1) (by decide))
    | (rename_i h; exact absurd (h.symm.trans c2) (by decide))
    | (rename_i h; exact absurd (h.symm.trans c7) (by decide)))

end Nng.Pfd
