/-
  BUS model: the invariant of the whole socket and its preservation by every step
  (all event sequences by induction in Props/C09.lean).
-/
import NngModel.Proofs.BusPipe
import NngModel.Generated.C09
namespace Nng.Bus
open Nng Nng.Proto

/-- send side: every pipe satisfies its invariant -/
def SInv (raw : Bool) (n : Nat) (pipes : List Pipe) : Prop :=
  ∀ i pp, pipes[i]? = some pp → PInv raw n i pp

/-- receive side -/
structure RInv' (raw : Bool) (narrive recvCap : Nat) (arrived delivered rq rdropped : List RMsg)
    (rwait : List Parked) (readable : Bool) : Prop where
  /-- what was delivered, then what is queued, is a subsequence of what arrived: arrival
      order is kept (also per pipe), nothing is delivered that did not arrive -/
  sub : (delivered ++ rq).Sublist arrived
  sortedA : (arrived.map (·.gid)).Pairwise (· < ·)
  boundA : ∀ m ∈ arrived, m.gid < narrive
  /-- raw: the header is the id of the arrival pipe; cooked: no header -/
  hdr : ∀ m ∈ arrived, m.m.hdr = stampHdr raw m.pipe
  wait_empty : rwait ≠ [] → rq = []
  readable_iff : readable = !rq.isEmpty
  cap : rq.length ≤ recvCap
  /-- every arrival is delivered, queued or dropped whole — exactly once -/
  conserve : ∀ x : RMsg, arrived.count x = (delivered ++ rq ++ rdropped).count x

def RInv (s : State) : Prop :=
  RInv' s.raw s.narrive s.recvCap s.arrived s.delivered s.rq s.rdropped s.rwait s.readable

structure Inv (s : State) : Prop where
  send : SInv s.raw s.nsend s.pipes
  recv : RInv s
  npipes : s.pipes.length ≤ maxPipes

/-! ### lifting per-pipe facts to the pipe list -/

theorem sinv_set {raw n pipes} (p : Nat) (pp' : Pipe) (h : SInv raw n pipes) (hp : PInv raw n p pp') :
    SInv raw n (pipes.set p pp') := by
  intro i pp hi
  by_cases hpi : p = i
  · subst hpi
    rw [List.getElem?_set_self'] at hi
    cases hx : pipes[p]? with
    | none => simp [hx] at hi
    | some q => simp [hx] at hi; subst hi; exact hp
  · rw [List.getElem?_set_ne hpi] at hi
    exact h i pp hi

theorem sinv_mapIdx {raw n n' pipes} (f : Nat → Pipe → Pipe)
    (hf : ∀ i pp, PInv raw n i pp → PInv raw n' i (f i pp)) (h : SInv raw n pipes) :
    SInv raw n' (pipes.mapIdx f) := by
  intro i pp hi
  rw [List.getElem?_mapIdx] at hi
  cases hx : pipes[i]? with
  | none => simp [hx] at hi
  | some q => simp [hx] at hi; subst hi; exact hf i q (h i q hx)

theorem sinv_map {raw n pipes} (f : Pipe → Pipe)
    (hf : ∀ i pp, PInv raw n i pp → PInv raw n i (f pp)) (h : SInv raw n pipes) :
    SInv raw n (pipes.map f) := by
  intro i pp hi
  rw [List.getElem?_map] at hi
  cases hx : pipes[i]? with
  | none => simp [hx] at hi
  | some q => simp [hx] at hi; subst hi; exact hf i q (h i q hx)

theorem sinv_snoc {raw n pipes} (pp' : Pipe) (h : SInv raw n pipes) (hp : PInv raw n pipes.length pp') :
    SInv raw n (pipes ++ [pp']) := by
  intro i pp hi
  by_cases hl : i < pipes.length
  · rw [List.getElem?_append_left hl] at hi; exact h i pp hi
  · have hge : pipes.length ≤ i := Nat.le_of_not_lt hl
    rw [List.getElem?_append_right hge] at hi
    by_cases h0 : i - pipes.length = 0
    · have : i = pipes.length := by omega
      subst this
      simp at hi; subst hi; exact hp
    · have : ([pp'] : List Pipe)[i - pipes.length]? = none := by
        apply List.getElem?_eq_none; simp; omega
      rw [this] at hi; simp at hi

/-! ### handlers that touch only the pipes -/

theorem inv_pipes {s : State} (pipes' : List Pipe) (n' : Nat) (h : Inv s)
    (hs : SInv s.raw n' pipes') (hl : pipes'.length ≤ maxPipes) :
    Inv { s with pipes := pipes', nsend := n' } :=
  ⟨hs, h.recv, hl⟩

theorem inv_closePipe {s : State} (p : Nat) (h : Inv s) : Inv (closePipe s p).1 := by
  unfold closePipe
  cases hx : s.pipes[p]? with
  | none => exact h
  | some pp =>
    cases hc : pp.closed with
    | true => simp [hc]; exact h
    | false =>
      simp [hc]
      exact ⟨sinv_set p _ h.send (pinv_closeP (h.send p pp hx)), h.recv, by simpa using h.npipes⟩

theorem inv_onPipeAdd {s : State} (peer : Nat) (h : Inv s) : Inv (onPipeAdd s peer).1 := by
  unfold onPipeAdd
  by_cases hm : s.pipes.length ≥ maxPipes
  · simp [hm]; exact h
  · simp only [hm, if_false]
    have hl : (s.pipes.length + 1) ≤ maxPipes := by omega
    by_cases hp : (peer != protoBus) = true
    · simp only [hp, if_true]
      exact ⟨sinv_snoc _ h.send (pinv_fresh _ _ _ true false _), h.recv, by simpa using hl⟩
    · simp only [hp]
      exact ⟨sinv_snoc _ h.send (pinv_fresh _ _ _ false true _), h.recv, by simpa using hl⟩

theorem inv_onPipeDrop {s : State} (p : Nat) (h : Inv s) : Inv (onPipeDrop s p).1 := by
  unfold onPipeDrop
  cases hx : s.pipes[p]? with
  | none => exact h
  | some pp =>
    cases hc : pp.closed with
    | true => simp [hc]; exact h
    | false => simp [hc]; exact inv_closePipe p h

theorem inv_onSendDone {s : State} (p rv : Nat) (h : Inv s) : Inv (onSendDone s p rv).1 := by
  unfold onSendDone
  cases hx : s.pipes[p]? with
  | none => exact h
  | some pp =>
    by_cases hc : (pp.closed || pp.busy.isNone) = true
    · simp [hc]; exact h
    · simp only [hc]
      by_cases hr : (rv != 0) = true
      · simp only [hr, if_true]; exact inv_closePipe p h
      · simp only [hr]
        exact ⟨sinv_set p _ h.send (pinv_sendCb (h.send p pp hx)), h.recv, by simpa using h.npipes⟩

theorem inv_onSend {s : State} (a : Nat) (m : WMsg) (h : Inv s) : Inv (onSend s a m).1 := by
  unfold onSend
  exact ⟨sinv_mapIdx _ (fun i pp hp => pinv_offer _ rfl hp) h.send, h.recv, by simpa using h.npipes⟩

theorem inv_onSetSendBuf {s : State} (v : Int) (h : Inv s) : Inv (onSetSendBuf s v).1 := by
  unfold onSetSendBuf
  by_cases hv : (v < bufMin || v > bufMax) = true
  · simp only [hv, if_true]; exact h
  · simp only [hv]
    exact ⟨sinv_map _ (fun i pp hp => pinv_resizeP _ hp) h.send, h.recv, by simpa using h.npipes⟩

theorem inv_onClose {s : State} (h : Inv s) : Inv (onClose s).1 := by
  unfold onClose
  refine ⟨sinv_map _ (fun i pp hp => ?_) h.send, ?_, by simpa using h.npipes⟩
  · cases hc : pp.closed with
    | true => simp; exact hp
    | false => simp; exact pinv_closeP hp
  · have hr := h.recv
    exact { hr with wait_empty := fun hx => absurd rfl hx }

/-! ### receive side -/

theorem rinv_rwait {s : State} (rw' : List Parked) (h : Inv s) (hw : rw' ≠ [] → s.rwait ≠ []) :
    Inv { s with rwait := rw' } :=
  ⟨h.send, { h.recv with wait_empty := fun hx => h.recv.wait_empty (hw hx) }, h.npipes⟩

theorem inv_failParked {s : State} (a rv : Nat) (h : Inv s) : Inv (failParked s a rv).1 := by
  unfold failParked
  by_cases hx : (s.rwait.any (·.aio == a)) = true
  · simp only [hx, if_true]
    apply rinv_rwait _ h
    intro hne hnil
    rw [hnil] at hne
    simp at hne
  · simp only [hx]; exact h

theorem inv_expire_fold (due : List Parked) (acc : State × List Out) (h : Inv acc.1) :
    Inv (due.foldl (fun (acc : State × List Out) pk =>
      let (s', o) := failParked acc.1 pk.aio Err.etimedout
      (s', acc.2 ++ o)) acc).1 := by
  induction due generalizing acc with
  | nil => exact h
  | cons pk rest ih =>
    simp only [List.foldl_cons]
    apply ih
    exact inv_failParked _ _ h

theorem inv_now {s : State} (t : Nat) (h : Inv s) : Inv { s with now := t } := ⟨h.send, h.recv, h.npipes⟩

theorem inv_expire {s : State} (h : Inv s) : Inv (expire s).1 := by
  unfold expire
  exact inv_expire_fold _ _ h

/-! the outcomes of `bus0_pipe_recv_cb` with a message -/

def arrival (s : State) (p : Nat) (b : Bytes) : RMsg := ⟨s.narrive, p, ⟨stampHdr s.raw p, b⟩⟩

theorem onRecvDone_refused {s : State} {p pp r} (hx : s.pipes[p]? = some pp) (hc : (pp.closed || !pp.armed) = true) :
    onRecvDone s p r = (s, [.rv (-1)]) := by
  simp [onRecvDone, hx, hc]

theorem onRecvDone_error {s : State} {p pp e} (hx : s.pipes[p]? = some pp) (hc : (pp.closed || !pp.armed) = false) :
    onRecvDone s p (.error e) = ((closePipe s p).1, [.rv 0] ++ (closePipe s p).2) := by
  simp [onRecvDone, hx, hc]

/-- a receiver is waiting: the message goes straight to the first one -/
theorem onRecvDone_waiter {s : State} {p pp b a rest} (hx : s.pipes[p]? = some pp)
    (hc : (pp.closed || !pp.armed) = false) (hw : s.rwait = a :: rest) :
    onRecvDone s p (.ok b) =
      ({ s with narrive := s.narrive + 1, arrived := s.arrived ++ [arrival s p b], rwait := rest,
                delivered := s.delivered ++ [arrival s p b] },
        [.rv 0, .done a.aio 0 (some (arrival s p b).m) false, .parm p]) := by
  simp [onRecvDone, hx, hc, hw, arrival]

/-- nobody waiting and room in the queue: queued, `can_recv` raised -/
theorem onRecvDone_queued {s : State} {p pp b} (hx : s.pipes[p]? = some pp)
    (hc : (pp.closed || !pp.armed) = false) (hw : s.rwait = []) (hl : s.rq.length < s.recvCap) :
    onRecvDone s p (.ok b) =
      ({ s with narrive := s.narrive + 1, arrived := s.arrived ++ [arrival s p b],
                rq := s.rq ++ [arrival s p b], readable := true }, [.rv 0, .parm p]) := by
  simp [onRecvDone, hx, hc, hw, hl, arrival]

/-- nobody waiting and the queue is full: the NEW message is dropped, whole -/
theorem onRecvDone_full {s : State} {p pp b} (hx : s.pipes[p]? = some pp)
    (hc : (pp.closed || !pp.armed) = false) (hw : s.rwait = []) (hl : ¬ s.rq.length < s.recvCap) :
    onRecvDone s p (.ok b) =
      ({ s with narrive := s.narrive + 1, arrived := s.arrived ++ [arrival s p b],
                rdropped := s.rdropped ++ [arrival s p b] }, [.rv 0, .parm p]) := by
  simp [onRecvDone, hx, hc, hw, hl, arrival]

theorem inv_onRecvDone {s : State} (p : Nat) (r : Except Nat Bytes) (h : Inv s) : Inv (onRecvDone s p r).1 := by
  cases hx : s.pipes[p]? with
  | none => simp [onRecvDone, hx]; exact h
  | some pp =>
    cases hc : (pp.closed || !pp.armed) with
    | true => rw [onRecvDone_refused hx hc]; exact h
    | false =>
      cases r with
      | error e => rw [onRecvDone_error hx hc]; exact inv_closePipe p h
      | ok b =>
        have hr := h.recv
        have hg : (arrival s p b).gid = s.narrive := rfl
        have hsorted : ((s.arrived ++ [arrival s p b]).map (·.gid)).Pairwise (· < ·) := by
          rw [List.map_append, List.pairwise_append]
          refine ⟨hr.sortedA, by simp, ?_⟩
          intro x hx' y hy
          simp at hy; subst hy
          obtain ⟨m, hm, rfl⟩ := List.mem_map.mp hx'
          rw [hg]; exact hr.boundA m hm
        have hbound : ∀ m ∈ s.arrived ++ [arrival s p b], m.gid < s.narrive + 1 := by
          intro m hm
          rcases List.mem_append.mp hm with hm | hm
          · exact Nat.lt_succ_of_lt (hr.boundA m hm)
          · simp at hm; subst hm; rw [hg]; omega
        have hhdr : ∀ m ∈ s.arrived ++ [arrival s p b], m.m.hdr = stampHdr s.raw m.pipe := by
          intro m hm
          rcases List.mem_append.mp hm with hm | hm
          · exact hr.hdr m hm
          · simp at hm; subst hm; rfl
        cases hw : s.rwait with
        | cons a rest =>
          rw [onRecvDone_waiter hx hc hw]
          have hq : s.rq = [] := hr.wait_empty (by simp [hw])
          have hsub := hr.sub
          have hcs := hr.conserve
          simp only [hq, List.append_nil] at hsub hcs
          refine ⟨h.send, ?_, h.npipes⟩
          refine ⟨?_, hsorted, hbound, hhdr, fun _ => hq, hr.readable_iff, hr.cap, ?_⟩
          · show (s.delivered ++ [_] ++ s.rq).Sublist _
            rw [hq, List.append_nil]
            exact List.Sublist.append hsub (List.Sublist.refl _)
          · intro x
            have := hcs x
            show List.count x (s.arrived ++ [_]) = List.count x (s.delivered ++ [_] ++ s.rq ++ s.rdropped)
            simp only [hq, List.append_nil, List.count_append] at this ⊢
            omega
        | nil =>
          by_cases hl : s.rq.length < s.recvCap
          · rw [onRecvDone_queued hx hc hw hl]
            refine ⟨h.send, ?_, h.npipes⟩
            refine ⟨?_, hsorted, hbound, hhdr, fun hx' => absurd hw hx', ?_, ?_, ?_⟩
            · show (s.delivered ++ (s.rq ++ [_])).Sublist _
              rw [← List.append_assoc]
              exact List.Sublist.append hr.sub (List.Sublist.refl _)
            · show true = !(s.rq ++ [_]).isEmpty
              simp
            · show (s.rq ++ [_]).length ≤ s.recvCap
              simp; omega
            · intro x
              have := hr.conserve x
              show List.count x (s.arrived ++ [_]) = List.count x (s.delivered ++ (s.rq ++ [_]) ++ s.rdropped)
              simp only [List.count_append] at this ⊢
              omega
          · rw [onRecvDone_full hx hc hw hl]
            refine ⟨h.send, ?_, h.npipes⟩
            refine ⟨?_, hsorted, hbound, hhdr, fun hx' => absurd hw hx', hr.readable_iff, hr.cap, ?_⟩
            · exact hr.sub.trans (List.sublist_append_left _ _)
            · intro x
              have := hr.conserve x
              show List.count x (s.arrived ++ [_]) = List.count x (s.delivered ++ s.rq ++ (s.rdropped ++ [_]))
              simp only [List.count_append] at this ⊢
              omega

/-! the outcomes of `bus0_sock_recv` -/

def parksRecv : Mode → Bool
  | .nb => false
  | .ms 0 => false
  | _ => true

theorem onRecv_park {s : State} {a mode} (hq : s.rq = []) (hm : parksRecv mode = true) :
    onRecv s a mode = ({ s with rwait := s.rwait ++ [⟨a, deadlineOf s.now mode⟩] }, []) := by
  unfold onRecv; rw [hq]
  cases mode with
  | nb => simp [parksRecv] at hm
  | inf => rfl
  | dflt => rfl
  | ms n => cases n with
    | zero => simp [parksRecv] at hm
    | succ k => rfl

theorem onRecv_nopark {s : State} {a mode} (hq : s.rq = []) (hm : parksRecv mode = false) :
    (onRecv s a mode).1 = s := by
  unfold onRecv; rw [hq]
  cases mode with
  | nb => rfl
  | inf => simp [parksRecv] at hm
  | dflt => simp [parksRecv] at hm
  | ms n => cases n with
    | zero => rfl
    | succ k => simp [parksRecv] at hm

/-- a queued message is handed over at once, oldest first, in every mode -/
theorem onRecv_deliver {s : State} {a mode gm rest} (hq : s.rq = gm :: rest) :
    onRecv s a mode =
      ({ s with rq := rest, delivered := s.delivered ++ [gm],
                readable := if rest.isEmpty then false else s.readable }, [.done a 0 (some gm.m) false]) := by
  unfold onRecv; rw [hq]

theorem inv_onRecv {s : State} (a : Nat) (mode : Mode) (h : Inv s) : Inv (onRecv s a mode).1 := by
  have hr := h.recv
  cases hq : s.rq with
  | nil =>
    cases hm : parksRecv mode with
    | false => rw [onRecv_nopark hq hm]; exact h
    | true =>
      rw [onRecv_park hq hm]
      exact ⟨h.send, { hr with wait_empty := fun _ => hq }, h.npipes⟩
  | cons gm rest =>
    rw [onRecv_deliver hq]
    have hsub := hr.sub
    have hcs := hr.conserve
    have hcap := hr.cap
    have hwe := hr.wait_empty
    simp only [hq] at hsub hcs hcap hwe
    refine ⟨h.send, ?_, h.npipes⟩
    refine ⟨by simpa using hsub, hr.sortedA, hr.boundA, hr.hdr, ?_, ?_, ?_, ?_⟩
    · intro hx; have := hwe hx; simp at this
    · show (if rest.isEmpty then false else s.readable) = !rest.isEmpty
      cases rest with
      | nil => simp
      | cons y ys =>
        have := hr.readable_iff
        simp [hq] at this
        simp [this]
    · show rest.length ≤ s.recvCap
      simp at hcap; omega
    · intro x
      have := hcs x
      show List.count x s.arrived = List.count x (s.delivered ++ [gm] ++ rest ++ s.rdropped)
      simp only [List.count_append, List.count_cons, List.count_nil] at this ⊢
      omega

theorem bufMin_pos : 1 ≤ bufMin := by decide

theorem inv_onSetRecvBuf {s : State} (v : Int) (h : Inv s) : Inv (onSetRecvBuf s v).1 := by
  unfold onSetRecvBuf
  by_cases hv : (v < bufMin || v > bufMax) = true
  · simp only [hv, if_true]; exact h
  · simp only [hv]
    have hr := h.recv
    have hc : 1 ≤ v.toNat := by
      have h1 : ¬ v < (bufMin : Int) := by
        intro hx; apply hv; simp [hx]
      have := bufMin_pos
      omega
    refine ⟨h.send, ?_, h.npipes⟩
    refine ⟨?_, hr.sortedA, hr.boundA, hr.hdr, ?_, ?_, ?_, ?_⟩
    · exact (List.Sublist.append_left (List.take_sublist _ _) _).trans hr.sub
    · intro hx
      show List.take _ s.rq = []
      rw [hr.wait_empty hx]; simp
    · show s.readable = !(List.take v.toNat s.rq).isEmpty
      rw [hr.readable_iff]
      cases hq : s.rq with
      | nil => simp
      | cons y ys =>
        obtain ⟨k, hk⟩ : ∃ k, v.toNat = k + 1 := ⟨v.toNat - 1, by omega⟩
        rw [hk]; simp
    · show (List.take v.toNat s.rq).length ≤ v.toNat
      simp; omega
    · intro x
      have h1 := hr.conserve x
      have h2 : (s.rq.take v.toNat).count x + (s.rq.drop v.toNat).count x = s.rq.count x := by
        rw [← List.count_append, List.take_append_drop]
      show List.count x s.arrived =
        List.count x (s.delivered ++ List.take v.toNat s.rq ++ (s.rdropped ++ List.drop v.toNat s.rq))
      simp only [List.count_append] at h1 ⊢
      omega

/-! ### every step keeps the invariant -/

theorem inv_init : Inv ({} : State) := by
  refine ⟨?_, ?_, by simp⟩
  · intro i pp hi; simp at hi
  · constructor <;> simp

theorem inv_stepOpen (s : State) (ev : Ev) (h : Inv s) : Inv (stepOpen s ev).1 := by
  unfold stepOpen
  split
  all_goals first
    | exact h
    | exact inv_onPipeAdd _ h
    | exact inv_onPipeDrop _ h
    | exact inv_onSendDone _ _ h
    | exact inv_onRecvDone _ _ h
    | (split <;> first | exact h | exact inv_onSend _ _ h | exact inv_onRecv _ _ h)
    | exact inv_failParked _ _ h
    | exact inv_expire (inv_now _ h)
    | exact inv_onSetSendBuf _ h
    | exact inv_onSetRecvBuf _ h
    | exact inv_onClose h
    | exact ⟨h.send, h.recv, h.npipes⟩

theorem inv_step (s : State) (ev : Ev) (h : Inv s) : Inv (step s ev).1 := by
  unfold step
  split
  · split
    · refine ⟨?_, ?_, by simp⟩
      · intro i pp hi; simp at hi
      · constructor <;> simp
    · exact inv_now _ h
    · exact h
  · split
    · split
      · exact inv_now _ h
      · exact h
    · exact inv_stepOpen s ev h

theorem inv_run (s : State) (evs : List Ev) (h : Inv s) : Inv (run s evs).1 := by
  induction evs generalizing s with
  | nil => exact h
  | cons e es ih =>
    simp only [run]
    exact ih _ (inv_step s e h)

end Nng.Bus
