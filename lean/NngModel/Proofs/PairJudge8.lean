/-
  C08 judge simulation, part 8: the remaining events other than send / recv / pipe_add / close.
-/
import NngModel.Proofs.PairJudge7
namespace Nng.Pair0
open Nng Nng.Proto Nng.PairSpec

theorem pairQuiescent_poll (j : PairJ) (x : Option (Bool × Bool)) :
    pairQuiescent { j with lastPoll := x } = { pairQuiescent j with lastPoll := x } := by
  unfold pairQuiescent PairJ.fail
  simp only []
  repeat' split
  all_goals rfl

theorem ev_cancel {V : Variant} {v1 : Bool} {sS sR : List Bytes} {s : State} {j : PairJ}
    (hR : R' V v1 sS sR s j) (a : Nat) (hA' : All V (stepLive V s (.cancel a)).1) :
    R' V v1 sS sR (stepLive V s (.cancel a)).1 (pairStepOld j (.cancel a) (stepLive V s (.cancel a)).2) := by
  simp only [stepLive] at hA' ⊢
  exact step_dones hR hA' (fun _ => rfl) rfl rfl (failParked_outs s a _)
    (failParked_R hR.1 a _ (by simp [Err.ecanceled]) (by simp [Err.ecanceled, Err.eproto]))

theorem ev_abort {V : Variant} {v1 : Bool} {sS sR : List Bytes} {s : State} {j : PairJ}
    (hR : R' V v1 sS sR s j) (a rv : Nat) (h0 : rv ≠ 0) (h1 : rv ≠ Err.eproto)
    (hA' : All V (stepLive V s (.abort a rv)).1) :
    R' V v1 sS sR (stepLive V s (.abort a rv)).1 (pairStepOld j (.abort a rv) (stepLive V s (.abort a rv)).2) := by
  simp only [stepLive] at hA' ⊢
  exact step_dones hR hA' (fun _ => rfl) rfl rfl (failParked_outs s a _) (failParked_R hR.1 a _ h0 h1)

theorem ev_advance {V : Variant} {v1 : Bool} {sS sR : List Bytes} {s : State} {j : PairJ}
    (hR : R' V v1 sS sR s j) (ms : Nat) (hA' : All V (stepLive V s (.advance ms)).1) :
    R' V v1 sS sR (stepLive V s (.advance ms)).1 (pairStepOld j (.advance ms) (stepLive V s (.advance ms)).2) := by
  simp only [stepLive, expire] at hA' ⊢
  obtain ⟨h1, h2⟩ := failMany_R (V := V) (v1 := v1) (sS := sS) (sR := sR) Err.etimedout (by simp [Err.etimedout])
    (by simp [Err.etimedout, Err.eproto]) (dueAios { s with now := s.now + ms })
    (s := { s with now := s.now + ms }) (R_view (s := s) rfl hR.1)
  exact step_dones hR hA' (fun _ => rfl) rfl rfl h2 h1

/-- events answered with a single output the judge ignores, leaving the state alone -/
theorem ev_neutral {V : Variant} {v1 : Bool} {sS sR : List Bytes} {s : State} {j : PairJ} {ev : Ev} {o : Out}
    (hA : All V s) (hR : R' V v1 sS sR s j) (hpre : ∀ (j0 : PairJ) outs, pairPre false j0 ev outs = (j0, .none))
    (hev : isPipeAdd ev = false) (hp : isPoll ev = false) (ho : neutral o = true) :
    R' V v1 sS sR s (pairStepOld j ev [o]) :=
  step_plain hR hA rfl (fun j0 => hpre j0 _) hev hp (by simpa using ho)

theorem ev_poll {V : Variant} {v1 : Bool} {sS sR : List Bytes} {s : State} {j : PairJ}
    (hA : All V s) (hR : R' V v1 sS sR s j) :
    R' V v1 sS sR s (pairStepOld j .poll [.poll (some s.readable) (some s.writable)]) := by
  rw [pairStep_eq (j := j) hR.1.err (by simp [notExecuted])]
  have hpre : pairPre false { j with lastPoll := none } .poll [.poll (some s.readable) (some s.writable)] =
      ({ j with lastPoll := none }, .none) := rfl
  rw [hpre]
  simp only []
  rw [pairMid_neutral hR.1.racing rfl (by simp [neutral]), pairPost_poll hR.1.racing]
  have := pairQuiescent_poll { j with lastPoll := none } (some (s.readable, s.writable))
  simp only [] at this
  rw [this, quiescent_ok hA hR.1]
  exact ⟨hR.1, fun r w h => by simp at h; exact ⟨h.1.symm, h.2.symm⟩⟩

theorem excuse_body (u : List Acc) : (excuseAll u).map (·.m.body) = u.map (·.m.body) := by
  simp [excuseAll]

theorem excuse_key (u : List Acc) : (excuseAll u).map key = u.map key := by
  simp [excuseAll, key]

theorem ev_setSendBuf {V : Variant} {v1 : Bool} {sS sR : List Bytes} {s : State} {j : PairJ}
    (hA : All V s) (hR : R' V v1 sS sR s j) (v : Int)
    (hA' : All V (setSendBuf s v.toNat)) :
    R' V v1 sS sR (setSendBuf s v.toNat) (pairStepOld j (.setopt none "send-buffer" "int" v) [.rv 0]) := by
  have hR0 := hR.1
  have hsc : j.scap = s.wmqCap := hR0.scap
  by_cases hlt : v.toNat < j.scap
  · have hpre : pairPre false { j with lastPoll := none } (.setopt none "send-buffer" "int" v) [.rv 0] =
        ({ j with lastPoll := none, scap := v.toNat, unsent := excuseAll j.unsent }, .none) := by
      simp [pairPre, hlt]
    refine step_general hR (by simp [notExecuted]) hpre (pairMid_neutral hR0.racing rfl (by simp [neutral]))
      (pairPost_none rfl (by simp [noBlocked, isBlocked]) hR0.racing) hA' ?_
    unfold setSendBuf
    refine { hR0 with scap := rfl, unsent := ?_, nodupS := ?_, subS := ?_ }
    · apply hR0.unsent.sub
      exact (List.take_sublist _ _).map _
    · have := hR0.nodupS; simpa [allB, excuse_body] using this
    · have := hR0.subS; simpa [allB, excuse_body] using this
  · have hpre : pairPre false { j with lastPoll := none } (.setopt none "send-buffer" "int" v) [.rv 0] =
        ({ j with lastPoll := none, scap := v.toNat }, .none) := by
      simp [pairPre, hlt]
    refine step_general hR (by simp [notExecuted]) hpre (pairMid_neutral hR0.racing rfl (by simp [neutral]))
      (pairPost_none rfl (by simp [noBlocked, isBlocked]) hR0.racing) hA' ?_
    unfold setSendBuf
    have : s.wmq.take v.toNat = s.wmq := by
      apply List.take_of_length_le
      have := hA.inv.wmqLe; omega
    refine { hR0 with scap := rfl, unsent := ?_ }
    simp only [this]; exact hR0.unsent

theorem ev_setRecvBuf {V : Variant} {v1 : Bool} {sS sR : List Bytes} {s : State} {j : PairJ}
    (hA : All V s) (hR : R' V v1 sS sR s j) (v : Int)
    (hA' : All V (setRecvBuf s v.toNat)) :
    R' V v1 sS sR (setRecvBuf s v.toNat) (pairStepOld j (.setopt none "recv-buffer" "int" v) [.rv 0]) := by
  have hR0 := hR.1
  have hsc : j.rcap = s.rmqCap := hR0.rcap
  by_cases hlt : v.toNat < j.rcap
  · have hpre : pairPre false { j with lastPoll := none } (.setopt none "recv-buffer" "int" v) [.rv 0] =
        ({ j with lastPoll := none, rcap := v.toNat, held := excuseAll j.held }, .none) := by
      simp [pairPre, hlt]
    refine step_general hR (by simp [notExecuted]) hpre (pairMid_neutral hR0.racing rfl (by simp [neutral]))
      (pairPost_none rfl (by simp [noBlocked, isBlocked]) hR0.racing) hA' ?_
    unfold setRecvBuf
    refine { hR0 with rcap := rfl, held := ?_, nodupR := ?_, subR := ?_ }
    · apply hR0.held.sub
      apply List.Sublist.map
      exact (List.take_sublist _ _).append (List.Sublist.refl _)
    · simp only [excuse_key]; exact hR0.nodupR
    · intro e he
      simp only [excuseAll, List.mem_map] at he
      obtain ⟨e0, he0, rfl⟩ := he
      exact hR0.subR e0 he0
  · have hpre : pairPre false { j with lastPoll := none } (.setopt none "recv-buffer" "int" v) [.rv 0] =
        ({ j with lastPoll := none, rcap := v.toNat }, .none) := by
      simp [pairPre, hlt]
    refine step_general hR (by simp [notExecuted]) hpre (pairMid_neutral hR0.racing rfl (by simp [neutral]))
      (pairPost_none rfl (by simp [noBlocked, isBlocked]) hR0.racing) hA' ?_
    unfold setRecvBuf
    have : s.rmq.take v.toNat = s.rmq := by
      apply List.take_of_length_le
      have := hA.inv.rmqLe; omega
    refine { hR0 with rcap := rfl, held := ?_ }
    simp only [this]; exact hR0.held

theorem ev_setTtl {V : Variant} {v1 : Bool} {sS sR : List Bytes} {s : State} {j : PairJ}
    (hA : All V s) (hR : R' V v1 sS sR s j) (v : Int)
    (hA' : All V { s with ttl := v.toNat }) :
    R' V v1 sS sR { s with ttl := v.toNat } (pairStepOld j (.setopt none "ttl-max" "int" v) [.rv 0]) := by
  have hR0 := hR.1
  have hpre : pairPre false { j with lastPoll := none } (.setopt none "ttl-max" "int" v) [.rv 0] =
      ({ j with lastPoll := none, ttl := v.toNat }, .none) := by
    simp [pairPre]
  refine step_general hR (by simp [notExecuted]) hpre (pairMid_neutral hR0.racing rfl (by simp [neutral]))
    (pairPost_none rfl (by simp [noBlocked, isBlocked]) hR0.racing) hA' ?_
  exact { hR0 with ttl := fun _ => rfl }

end Nng.Pair0
