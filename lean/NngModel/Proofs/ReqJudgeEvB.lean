/-
  Simulation, event by event (2): opening and closing contexts, cancel / abort / expiry of parked
  operations.
-/
import NngModel.Proofs.ReqJudgeEvA
namespace Nng.ReqJ
open Nng Nng.Proto Nng.Req Nng.ReqSpec

/-- a context without request, reply, parked operations and latch -/
def IdleCtx (c : Ctx) : Prop :=
  c.sendAio = none ∧ c.recvAio = none ∧ c.reqMsg = none ∧ c.repMsg = none ∧ c.connReset = false ∧ c.requestId = 0

/-- a context without request and parked operations -/
def QuietCtx (c : Ctx) : Prop := c.sendAio = none ∧ c.recvAio = none ∧ c.reqMsg = none

theorem IdleCtx.quiet {c : Ctx} (h : IdleCtx c) : QuietCtx c := ⟨h.1, h.2.1, h.2.2.1⟩

/-- a context without request, parked operations and latch; it may hold a stashed reply -/
def RestCtx (c : Ctx) : Prop :=
  c.sendAio = none ∧ c.recvAio = none ∧ c.reqMsg = none ∧ (c.live = false → c.repMsg = none) ∧ c.connReset = false ∧
  c.requestId = 0

theorem IdleCtx.rest {c : Ctx} (h : IdleCtx c) : RestCtx c := ⟨h.1, h.2.1, h.2.2.1, fun _ => h.2.2.2.1, h.2.2.2.2.1, h.2.2.2.2.2⟩

theorem MI.setCtx_rest {rest : List Ev} {s : State} (hm : MI rest s) (k : Nat) (c' : Ctx) (h0 : QuietCtx (s.ctx k))
    (h1 : RestCtx c') (hl : c'.live = true → k ≤ nCtxSlots) : MI rest (setCtx s k c') := by
  obtain ⟨a1, a2, a3⟩ := h0
  obtain ⟨b1, b2, b3, b4, b5, b6⟩ := h1
  have hc : ∀ x, x ≠ k → (setCtx s k c').ctx x = s.ctx x := fun x hx => by simp [setCtx, hx]
  have hk : (setCtx s k c').ctx k = c' := by simp [setCtx]
  have hlv : ∀ x, LiveH (setCtx s k c') x → LiveH s x := by
    intro x hx
    rcases hx with hx | ⟨k', hx⟩
    · exact Or.inl hx
    · by_cases e : k' = k
      · subst e; rw [hk, b3] at hx; cases hx
      · rw [hc _ e] at hx; exact Or.inr ⟨k', hx⟩
  have ha : ∀ x b, aioOf (setCtx s k c') x b = aioOf s x b := by
    intro x b
    unfold aioOf
    by_cases e : x = k
    · subst e; rw [hk, b1, b2, a1, a2]
    · rw [hc _ e]
  constructor
  · intro x hx
    by_cases e : x = k
    · subst e; rw [hk]
      cases hcl : c'.live with
      | false => rfl
      | true => have := hl hcl; omega
    · rw [hc _ e]; exact hm.biglive x hx
  · intro x hx
    by_cases e : x = k
    · subst e; rw [hk] at hx ⊢; exact ⟨b1, b2, b3, b4 hx, b5⟩
    · rw [hc _ e] at hx ⊢; exact hm.dead x hx
  · intro k1 b1 k2 b2 a h1 h2
    rw [ha] at h1 h2; exact hm.park k1 b1 k2 b2 a h1 h2
  · intro x hx
    by_cases e : x = k
    · subst e; rw [hk, b5] at hx; cases hx
    · rw [hc _ e] at hx ⊢; exact hm.creset x hx
  · intro x hx
    by_cases e : x = k
    · subst e; rw [hk]; exact ⟨b3, b1⟩
    · rw [hc _ e] at hx ⊢; exact hm.rep x hx
  · intro x q hx
    have hx' : x ∈ (s.pipe q).ctxs := hx
    by_cases e : x = k
    · subst e
      have := (hm.onp x q hx').1
      rw [a3] at this; cases this
    · rw [hc _ e]; exact hm.onp x q hx'
  · intro x h hr hw
    by_cases e : x = k
    · subst e; rw [hk, b3] at hr; cases hr
    · rw [hc _ e] at hr hw ⊢; exact hm.wir x h hr hw
  · intro x h hr hw
    by_cases e : x = k
    · subst e; rw [hk, b3] at hr; cases hr
    · rw [hc _ e] at hr hw ⊢; exact hm.unw x h hr hw
  · intro x hs
    by_cases e : x = k
    · subst e; rw [hk, b1] at hs; cases hs
    · rw [hc _ e] at hs ⊢; exact hm.sa x hs
  · intro x hs
    by_cases e : x = k
    · subst e; rw [hk, b6] at hs; exact absurd rfl hs
    · rw [hc _ e] at hs ⊢; exact hm.rid x hs
  · exact hm.al_nodup
  · exact hm.al_le
  · intro h hh; exact hm.fresh h (hlv h hh)
  · intro h1 h2 l1 l2; exact hm.inj h1 h2 (hlv h1 l1) (hlv h2 l2)
  · exact hm.bound
  · exact hm.open_
  · exact hm.notgone
  · exact hm.notclosed

theorem MI.setCtx_idle {rest : List Ev} {s : State} (hm : MI rest s) (k : Nat) (c' : Ctx) (h0 : QuietCtx (s.ctx k))
    (h1 : IdleCtx c') (hl : c'.live = true → k ≤ nCtxSlots) : MI rest (setCtx s k c') :=
  hm.setCtx_rest k c' h0 h1.rest hl

/-- the relation for a context at rest -/
theorem rest_RC {s : State} {j : J} (k : Nat) (c' : Ctx) (cj : CJ) (h1 : RestCtx c')
    (ho : cj.opened = c'.live) (hr : c'.live = true → cj.retry = c'.retry)
    (h2 : cj.stash = c'.repMsg ∧ cj.recvWait = none ∧ cj.latched = false)
    (h3 : c'.repMsg = none → cj.req = none)
    (h4 : c'.repMsg.isSome = true → ∃ r, cj.req = some r ∧ r.answered = true ∧ r.wired = true) : RCx (setCtx s k c') j k cj := by
  obtain ⟨b1, b2, b3, b4, b5, _⟩ := h1
  have hk : (setCtx s k c').ctx k = c' := by simp [setCtx]
  constructor
  · rw [hk]; exact ho
  · rw [hk]; exact hr
  · rw [hk, b2]; exact h2.2.1
  · rw [hk]; exact h2.1
  · rw [hk, b5]; exact h2.2.2
  · rw [hk]; intro _ a; exact h3 a
  · rw [hk]; exact h4
  · rw [hk, b3]; intro h a; cases a

theorem rest_R {rest : List Ev} {s : State} {j : J} (k : Nat) (c' : Ctx) (cj : CJ) (hM : R rest s j)
    (h0 : QuietCtx (s.ctx k)) (h1 : RestCtx c') (hl : c'.live = true → k ≤ nCtxSlots)
    (ho : cj.opened = c'.live) (hr : c'.live = true → cj.retry = c'.retry)
    (h2 : cj.stash = c'.repMsg ∧ cj.recvWait = none ∧ cj.latched = false)
    (h3 : c'.repMsg = none → cj.req = none)
    (h4 : c'.repMsg.isSome = true → ∃ r, cj.req = some r ∧ r.answered = true ∧ r.wired = true) :
    R rest (setCtx s k c') (setC j k cj) := by
  refine ⟨hM.mi.setCtx_rest k c' h0 h1 hl, (hM.g.setCtx k c' (by rw [h1.2.2.1, h0.2.2])).setC k cj, fun x _ => ?_,
    fun x hx => by cases hx⟩
  by_cases e : x = k
  · subst e; rw [setC_ctx_same]; exact rest_RC x c' cj h1 ho hr h2 h3 h4
  · rw [setC_ctx_other _ _ _ _ e]
    exact setCtx_frame (j := j) k x _ e rfl rfl (hM.rc x (by simp))

theorem idle_R {rest : List Ev} {s : State} {j : J} (k : Nat) (c' : Ctx) (cj : CJ) (hM : R rest s j)
    (h0 : QuietCtx (s.ctx k)) (h1 : IdleCtx c') (hl : c'.live = true → k ≤ nCtxSlots)
    (ho : cj.opened = c'.live) (hr : c'.live = true → cj.retry = c'.retry)
    (h2 : cj.req = none ∧ cj.stash = none ∧ cj.recvWait = none ∧ cj.latched = false) :
    R rest (setCtx s k c') (setC j k cj) := by
  refine rest_R k c' cj hM h0 h1.rest hl ho hr ⟨by rw [h2.2.1, h1.2.2.2.1], h2.2.2.1, h2.2.2.2⟩ (fun _ => h2.1) (fun a => ?_)
  rw [h1.2.2.2.1] at a; cases a

theorem sim_ctxOpen {rest : List Ev} {s : State} {j : J} (c : Nat) (hM : R (.ctxOpen c :: rest) s j) (hD : Dr s) :
    Sim rest (Req.step s (.ctxOpen c)).1 j (ReqSpec.step j (.ctxOpen c) (Req.step s (.ctxOpen c)).2) (.ctxOpen c) := by
  unfold Req.step
  rw [if_neg (by simp [hM.mi.open_]), if_neg (by simp [hM.mi.notgone])]
  dsimp only
  split
  · exact sim_refused _ _ hM
  split
  · exact sim_refused _ _ hM
  · rename_i hc hl
    have hl' : (s.ctx (c + 1)).live = false := by simpa using hl
    have hd := hM.mi.dead _ hl'
    have e1 : (phEv j (.ctxOpen c) [.rv 0] (decide ((0 : Int) = 0))).1 = setC j (c + 1) { opened := true, retry := j.sockRetry } := by
      simp [phEv]
    have hfin : R rest (setCtx s (c + 1) { live := true, retry := s.sockRetry }) (setC j (c + 1) { opened := true, retry := j.sockRetry }) :=
      idle_R (c + 1) _ _ hM.weaken ⟨hd.1, hd.2.1, hd.2.2.1⟩ ⟨rfl, rfl, rfl, rfl, rfl, rfl⟩ (fun _ => by unfold nCtxSlots at hc ⊢; omega) rfl
        (fun _ => hM.g.sock) ⟨rfl, rfl, rfl, rfl⟩
    rw [step_rv j _ 0 hM.g.closed (fun _ => by simp) (by rw [e1]; exact hfin.g.closed), e1, quiescent_R hfin hD]
    exact ⟨hfin, rfl, fun _ => rfl⟩

/-! ### cancelling parked operations -/

theorem oldC_recv_pure (c : CJ) (a : Nat) (h1 : c.recvWait = some a) (h2 : c.latched = false) :
    oldC a c = wipeCJ c true false := by
  unfold oldC wipeCJ
  cases hr : c.req with
  | none => simp [h1, h2.symm]
  | some r =>
    simp only
    split <;> simp [h1, h2.symm]

theorem R.wipe {rest : List Ev} {s s' : State} {j : J} (k : Nat) (dr : Bool) (hM : R rest s j) (hI : Inv2 none none s)
    (e : mv s' = wipeV (mv s) k dr false) : R rest s' (wipeJ j k dr false) :=
  (wipe_M k dr false hM hI.pc_nodup (Or.inr rfl) (fun h => by cases h)).congr (by rw [e, mv_wipeSt])

theorem aioOf_recv {s : State} {k : Nat} {ra : UAio} (h : (s.ctx k).recvAio = some ra) : aioOf s k false = some ra.aio := by
  unfold aioOf; simp [h]

theorem aioOf_send {s : State} {k : Nat} {ua : UAio} (h : (s.ctx k).sendAio = some ua) : aioOf s k true = some ua.aio := by
  unfold aioOf; simp [h]

theorem latched_false_of_recv {rest : List Ev} {s : State} {j : J} (hM : R rest s j) {k : Nat} {ra : UAio}
    (h : (s.ctx k).recvAio = some ra) : (j.ctx k).latched = false := by
  rw [(hM.rc k (by simp)).latched]
  cases hc : (s.ctx k).connReset with
  | false => rfl
  | true => have := (hM.mi.creset k hc).2.2.1; rw [h] at this; cases this

/-- the judge's record of context `k` after the error completions of req0_ctx_cancel_recv -/
theorem cancelRecv_old {rest : List Ev} {s : State} {j : J} (hM : R rest s j) {k : Nat} {ra : UAio} (rv : Nat)
    (hr : (s.ctx k).recvAio = some ra) :
    (match (s.ctx k).sendAio with
      | some ua => oldDone (oldDone j ua.aio Err.ecanceled) ra.aio rv
      | none => oldDone j ra.aio rv) = wipeJ j k true false := by
  have hla := latched_false_of_recv hM hr
  have hrw : (j.ctx k).recvWait = some ra.aio := by rw [(hM.rc k (by simp)).rw, hr]; rfl
  cases hs : (s.ctx k).sendAio with
  | none =>
    dsimp only
    rw [oldDone_parked hM rv (aioOf_recv hr), oldC_recv_pure _ _ hrw hla]; rfl
  | some ua =>
    dsimp only
    rw [oldDone_parked hM Err.ecanceled (aioOf_send hs), oldC_send hM (aioOf_send hs),
      oldDone_local hM rv (aioOf_recv hr), oldC_recv_pure _ _ (by simpa [wipeCJ] using hrw) (by simp [wipeCJ])]
    unfold wipeJ; congr 1

theorem cancelSend_old {rest : List Ev} {s : State} {j : J} (hM : R rest s j) {k : Nat} {ua : UAio} (rv : Nat)
    (hs : (s.ctx k).sendAio = some ua) : oldDone j ua.aio rv = wipeJ j k false false := by
  rw [oldDone_parked hM rv (aioOf_send hs), oldC_send hM (aioOf_send hs)]; rfl

/-- req0_ctx_cancel_recv (cancel, abort, timeout) with a result the judge takes for a failure -/
theorem cancelRecv_sim {rest : List Ev} {s : State} {j : J} (hM : R rest s j) (hI : Inv2 none none s) {k : Nat} {ra : UAio}
    (rv : Nat) (hr : (s.ctx k).recvAio = some ra) (h0 : rv ≠ 0) (h19 : rv ≠ Err.econnreset) :
    phA none (cancelRecv s k rv).2 j = wipeJ j k true false ∧ R rest (cancelRecv s k rv).1 (wipeJ j k true false) := by
  obtain ⟨e1, e2⟩ := cancelRecv_eq s k rv ra hr hI.sq_nodup
  refine ⟨?_, hM.wipe k true hI e1⟩
  rw [e2, ← cancelRecv_old hM rv hr]
  cases hs : (s.ctx k).sendAio with
  | none => simp [phA, h0, h19]
  | some ua =>
    have h19' : rv ≠ 19 := h19
    simp [phA, h0, h19', Err.ecanceled, Err.econnreset]

theorem cancelSend_sim {rest : List Ev} {s : State} {j : J} (hM : R rest s j) (hI : Inv2 none none s) {k : Nat} {ua : UAio}
    (rv : Nat) (hs : (s.ctx k).sendAio = some ua) (h0 : rv ≠ 0) (h19 : rv ≠ Err.econnreset) :
    phA none (cancelSend s k rv).2 j = wipeJ j k false false ∧ R rest (cancelSend s k rv).1 (wipeJ j k false false) := by
  obtain ⟨e1, e2⟩ := cancelSend_eq s k rv ua hs hI.sq_nodup
  refine ⟨?_, hM.wipe k false hI e1⟩
  rw [e2, ← cancelSend_old hM rv hs]
  simp [phA, h0, h19]

theorem phReset_ne (e : Option Nat) (c : Bool) (o : List Out) (j : J)
    (h : ∀ x, x ∈ o → ∀ a mb, x ≠ .done a Err.econnreset none mb) : phReset e c o j = j := by
  unfold phReset
  apply foldl_id
  intro x hx a
  cases x with
  | done a' rv m mb =>
    cases m with
    | some _ => rfl
    | none =>
      dsimp only
      rw [if_neg]
      intro hc
      simp only [Bool.and_eq_true, beq_iff_eq] at hc
      exact h _ hx a' mb (by rw [hc.2])
  | _ => rfl

theorem aioParked_some {s : State} {a k : Nat} {b : Bool} (h : aioParked s a = some (k, b)) :
    if b then ∃ ua, (s.ctx k).sendAio = some ua ∧ ua.aio = a else ∃ ra, (s.ctx k).recvAio = some ra ∧ ra.aio = a := by
  unfold aioParked at h
  obtain ⟨k', _, hk'⟩ := List.exists_of_findSome?_eq_some h
  dsimp only at hk'
  split at hk'
  · rename_i h1
    simp only [Option.some.injEq, Prod.mk.injEq] at hk'
    obtain ⟨rfl, rfl⟩ := hk'
    simp only [Bool.false_eq_true, if_false]
    cases hr : (s.ctx k').recvAio with
    | none => simp [hr] at h1
    | some ra => exact ⟨ra, rfl, by simpa [hr] using h1⟩
  · split at hk'
    · rename_i h1
      simp only [Option.some.injEq, Prod.mk.injEq] at hk'
      obtain ⟨rfl, rfl⟩ := hk'
      simp only [if_true]
      cases hr : (s.ctx k').sendAio with
      | none => simp [hr] at h1
      | some ra => exact ⟨ra, rfl, by simpa [hr] using h1⟩
    · cases hk'

theorem cancelRecv_dn {s : State} {k rv : Nat} {ra : UAio} (hr : (s.ctx k).recvAio = some ra) (hn : s.sendQueue.Nodup)
    (h0 : rv ≠ 0) : ∀ x, x ∈ (cancelRecv s k rv).2 → isDn x = true := by
  rw [(cancelRecv_eq s k rv ra hr hn).2]
  intro x hx
  cases hs : (s.ctx k).sendAio with
  | none => simp [hs] at hx; subst hx; simpa [isDn] using h0
  | some ua =>
    simp [hs] at hx
    rcases hx with hx | hx
    · subst hx; simp [isDn, Err.ecanceled]
    · subst hx; simpa [isDn] using h0

theorem cancelSend_dn {s : State} {k rv : Nat} {ua : UAio} (hs : (s.ctx k).sendAio = some ua) (hn : s.sendQueue.Nodup)
    (h0 : rv ≠ 0) : ∀ x, x ∈ (cancelSend s k rv).2 → isDn x = true := by
  rw [(cancelSend_eq s k rv ua hs hn).2]
  intro x hx
  simp at hx; subst hx; simpa [isDn] using h0

theorem dr_wipe {s s' : State} (k : Nat) (dr : Bool) (hD : Dr s) (e : mv s' = wipeV (mv s) k dr false) : Dr s' := by
  have h1 : s'.sendQueue = s.sendQueue.erase k := congrArg MV.sendQueue e
  have h2 : s'.readyPipes = s.readyPipes := congrArg MV.readyPipes e
  rcases hD with a | a
  · left; rw [h1, a]; rfl
  · right; rw [h2, a]

/-- `cancel`, and `abort` with a result other than 0 and ECONNRESET -/
theorem sim_cancelWith {rest : List Ev} {s : State} {j : J} (ev : Ev) (a rv : Nat)
    (hM : R (ev :: rest) s j) (hI : Inv2 none none s) (hD : Dr s) (h0 : rv ≠ 0) (h19 : rv ≠ Err.econnreset)
    (he : evAioOf ev = none) (hev : ∀ o j' ok, phEv j' ev o ok = (j', [])) (hov : ∀ j', phOver ev j' = j') :
    let r : State × List Out := match aioParked s a with
      | some (k, false) => cancelRecv s k rv
      | some (k, true) => cancelSend s k rv
      | none => (s, [])
    Sim rest r.1 j (ReqSpec.step j ev r.2) ev := by
  have hM' := hM.weaken
  have hsq : s.sendQueue.Nodup := hI.sq_nodup
  cases hp : aioParked s a with
  | none =>
    dsimp only
    rw [step_dn (o := []) (fun x hx => by cases hx) j ev hM.g.closed he (hev []) hov]
    have : phReset none false [] (phA none [] j) = j := rfl
    rw [this, quiescent_R hM' hD]
    exact ⟨hM', rfl, fun _ => rfl⟩
  | some kb =>
    obtain ⟨k, b⟩ := kb
    have hps := aioParked_some hp
    cases b with
    | false =>
      simp only [Bool.false_eq_true, if_false] at hps
      obtain ⟨ra, hr, _⟩ := hps
      dsimp only
      obtain ⟨e1, hR⟩ := cancelRecv_sim hM' hI rv hr h0 h19
      have hdn := cancelRecv_dn hr hsq h0
      rw [step_dn hdn j ev hM.g.closed he (hev _) hov, e1, phReset_ne]
      · have hD' := dr_wipe k true hD (cancelRecv_eq s k rv ra hr hsq).1
        rw [quiescent_R hR hD']
        exact ⟨hR, rfl, fun _ => rfl⟩
      · rw [(cancelRecv_eq s k rv ra hr hsq).2]
        intro x hx a' mb e
        cases hs : (s.ctx k).sendAio with
        | none => simp [hs, e] at hx; exact h19 hx.2.1.symm
        | some ua =>
          simp [hs, e] at hx
          rcases hx with hx | hx
          · have := hx.2.1; simp [Err.ecanceled, Err.econnreset] at this
          · exact h19 hx.2.1.symm
    | true =>
      simp only [if_true] at hps
      obtain ⟨ua, hs, _⟩ := hps
      dsimp only
      obtain ⟨e1, hR⟩ := cancelSend_sim hM' hI rv hs h0 h19
      have hdn := cancelSend_dn hs hsq h0
      rw [step_dn hdn j ev hM.g.closed he (hev _) hov, e1, phReset_ne]
      · have hD' := dr_wipe k false hD (cancelSend_eq s k rv ua hs hsq).1
        rw [quiescent_R hR hD']
        exact ⟨hR, rfl, fun _ => rfl⟩
      · rw [(cancelSend_eq s k rv ua hs hsq).2]
        intro x hx a' mb e
        simp [e] at hx
        exact h19 hx.2.1.symm

theorem R.err12 {rest : List Ev} {s : State} {j : J} (e : Option String) (hM : R rest s j) :
    R rest s { j with err12 := e } := by
  refine ⟨hM.mi, ⟨hM.g.now, hM.g.idle, hM.g.busy, hM.g.sock, hM.g.closed, hM.g.seen, hM.g.tick, hM.g.tkle, hM.g.tknv,
    hM.g.nosend, hM.g.stab⟩, fun k hk => ?_, fun k hk => by cases hk⟩
  exact RCx.frame (s := s) (j := j) rfl (fun _ _ => rfl) (fun _ _ _ hi => hi) (Nat.le_refl _) (fun _ => Iff.rfl) (fun _ _ hc => hc)
    Iff.rfl (Nat.le_refl _) (Or.inl rfl) rfl rfl (hM.rc k hk)

theorem oldDone_err12 (j : J) (a rv : Nat) (e : Option String) :
    oldDone { j with err12 := e } a rv = { oldDone j a rv with err12 := e } := by
  rw [oldDone_eq, oldDone_eq]

theorem phReset_single (j0 : J) (a : Nat) (mb : Bool) :
    ∃ e, phReset none false [.done a Err.econnreset none mb] j0 = { oldDone j0 a Err.econnreset with err12 := e } := by
  simp only [phReset, List.foldl_cons, List.foldl_nil]
  have h1 : (some a != none && Err.econnreset == Err.econnreset) = true := by simp
  rw [if_pos h1]
  split
  · obtain ⟨e, he⟩ := fail12_eq j0 (s!"receive {a} failed with ECONNRESET although its request did not lose its connection with resending disabled")
    exact ⟨e, by rw [he, oldDone_err12]⟩
  · exact ⟨j0.err12, by rw [oldDone_eq]⟩

theorem phReset_skip (j0 : J) (a rv : Nat) (mb : Bool) (t : List Out) (h : rv ≠ Err.econnreset) :
    phReset none false (.done a rv none mb :: t) j0 = phReset none false t j0 := by
  simp only [phReset, List.foldl_cons]
  have : (some a != none && rv == Err.econnreset) = false := by simp [h]
  rw [this]; rfl

/-- `abort <aio> ECONNRESET`: the C12 judge may complain (a harness-only way to produce this result), the
    relation and the C04 verdict are not affected -/
theorem sim_abortReset {rest : List Ev} {s : State} {j : J} (a : Nat)
    (hM : R (.abort a Err.econnreset :: rest) s j) (hI : Inv2 none none s) (hD : Dr s) :
    let r : State × List Out := match aioParked s a with
      | some (k, false) => cancelRecv s k Err.econnreset
      | some (k, true) => cancelSend s k Err.econnreset
      | none => (s, [])
    Sim rest r.1 j (ReqSpec.step j (.abort a Err.econnreset) r.2) (.abort a Err.econnreset) := by
  have hM' := hM.weaken
  have hsq : s.sendQueue.Nodup := hI.sq_nodup
  have h0 : Err.econnreset ≠ 0 := by decide
  cases hp : aioParked s a with
  | none =>
    dsimp only
    rw [step_dn (o := []) (fun x hx => by cases hx) j _ hM.g.closed rfl (fun _ _ => rfl) (fun _ => rfl)]
    have : phReset none false [] (phA none [] j) = j := rfl
    rw [this, quiescent_R hM' hD]
    exact ⟨hM', rfl, fun h => by simp [resetAbort] at h⟩
  | some kb =>
    obtain ⟨k, b⟩ := kb
    have hps := aioParked_some hp
    cases b with
    | false =>
      simp only [Bool.false_eq_true, if_false] at hps
      obtain ⟨ra, hr, _⟩ := hps
      dsimp only
      have hdn := cancelRecv_dn (rv := Err.econnreset) hr hsq h0
      obtain ⟨e1, e2⟩ := cancelRecv_eq s k Err.econnreset ra hr hsq
      rw [step_dn hdn j _ hM.g.closed rfl (fun _ _ => rfl) (fun _ => rfl)]
      have hR := hM'.wipe k true hI e1
      have hD' := dr_wipe k true hD e1
      have hold := cancelRecv_old hM' Err.econnreset hr
      rw [e2]
      cases hs : (s.ctx k).sendAio with
      | none =>
        rw [hs] at hold
        dsimp only at hold ⊢
        have hA : phA none [Out.done ra.aio Err.econnreset none false] j = j := by simp [phA]
        rw [List.nil_append, hA]
        obtain ⟨e, he⟩ := phReset_single j ra.aio false
        rw [he, hold, quiescent_R (hR.err12 e) hD']
        exact ⟨hR.err12 e, rfl, fun h => by simp [resetAbort] at h⟩
      | some ua =>
        rw [hs] at hold
        dsimp only at hold ⊢
        have hA : phA none ([Out.done ua.aio Err.ecanceled none true] ++ [Out.done ra.aio Err.econnreset none false]) j =
            oldDone j ua.aio Err.ecanceled := by simp [phA, Err.ecanceled, Err.econnreset]
        rw [hA]
        show Sim _ _ _ (quiescent (phReset none false (Out.done ua.aio Err.ecanceled none true :: [Out.done ra.aio Err.econnreset none false]) _)) _
        rw [phReset_skip _ _ _ _ _ (by decide)]
        obtain ⟨e, he⟩ := phReset_single (oldDone j ua.aio Err.ecanceled) ra.aio false
        rw [he, hold, quiescent_R (hR.err12 e) hD']
        exact ⟨hR.err12 e, rfl, fun h => by simp [resetAbort] at h⟩
    | true =>
      simp only [if_true] at hps
      obtain ⟨ua, hs, _⟩ := hps
      dsimp only
      have hdn := cancelSend_dn (rv := Err.econnreset) hs hsq h0
      obtain ⟨e1, e2⟩ := cancelSend_eq s k Err.econnreset ua hs hsq
      rw [step_dn hdn j _ hM.g.closed rfl (fun _ _ => rfl) (fun _ => rfl)]
      have hR := hM'.wipe k false hI e1
      have hD' := dr_wipe k false hD e1
      have hold := cancelSend_old hM' Err.econnreset hs
      rw [e2]
      have hA : phA none [Out.done ua.aio Err.econnreset none true] j = j := by simp [phA]
      rw [hA]
      obtain ⟨e, he⟩ := phReset_single j ua.aio true
      rw [he, hold, quiescent_R (hR.err12 e) hD']
      exact ⟨hR.err12 e, rfl, fun h => by simp [resetAbort] at h⟩

end Nng.ReqJ
