/- refinement of one public message operation to the two-byte-strings specification -/
import NngModel.Proofs.Msg
namespace Nng.Msg
open Nng Nng.MsgSpec

/-- outcome of a model step against the specification step -/
def Refines (m : Msg) (op : Op) (ok : Bool) : Prop :=
  (step m op ok).1.safe = true ∧
  (((step m op ok).1.rv = Err.enomem ∧ (step m op ok).1.c = m) ∨
   (MWF (step m op ok).1.c ∧
    MsgSpec.step (abs m) op = ⟨(step m op ok).1.rv, abs (step m op ok).1.c, (step m op ok).2⟩))

theorem abs_hdr (m : Msg) : (abs m).hdr = m.header := rfl
theorem abs_body (m : Msg) : (abs m).body = m.body.data := rfl

theorem liftBody_refines_body (m : Msg) (h : MWF m) (r : R Chunk) (hwf : WF r.c) :
    MWF (liftBody m r).c ∧ abs (liftBody m r).c = ⟨m.header, r.c.data⟩ :=
  ⟨⟨hwf, h.hbuflen, h.hfits⟩, rfl⟩

theorem refines_append (m : Msg) (h : MWF m) (d : Bytes) (ok : Bool) :
    (msgAppend m d ok).safe = true ∧
    (((msgAppend m d ok).rv = Err.enomem ∧ (msgAppend m d ok).c = m) ∨
     ((msgAppend m d ok).rv = 0 ∧ MWF (msgAppend m d ok).c ∧ abs (msgAppend m d ok).c = ⟨m.header, m.body.data ++ d⟩)) := by
  obtain ⟨hs, ha⟩ := append_spec m.body h.body d ok
  unfold msgAppend liftBody
  generalize append m.body (some d) d.length ok = r at hs ha
  refine ⟨hs, ?_⟩
  rcases ha with ⟨hrv, hc⟩ | ⟨hrv, hwf, hdata, _⟩
  · left; exact ⟨hrv, by cases m; simp_all⟩
  · right; exact ⟨hrv, ⟨hwf, h.hbuflen, h.hfits⟩, by simp [abs, Msg.header, hdata]⟩

theorem refines_insert (m : Msg) (h : MWF m) (d : Bytes) (ok : Bool) :
    (msgInsert m d ok).safe = true ∧
    (((msgInsert m d ok).rv = Err.enomem ∧ (msgInsert m d ok).c = m) ∨
     ((msgInsert m d ok).rv = 0 ∧ MWF (msgInsert m d ok).c ∧ abs (msgInsert m d ok).c = ⟨m.header, d ++ m.body.data⟩)) := by
  obtain ⟨hs, ha⟩ := insert_spec m.body h.body d ok
  unfold msgInsert liftBody
  generalize insert m.body (some d) d.length ok = r at hs ha
  refine ⟨hs, ?_⟩
  rcases ha with ⟨hrv, hc⟩ | ⟨hrv, hwf, hdata⟩
  · left; exact ⟨hrv, by cases m; simp_all⟩
  · right; exact ⟨hrv, ⟨hwf, h.hbuflen, h.hfits⟩, by simp [abs, Msg.header, hdata]⟩

theorem refines_trim (m : Msg) (h : MWF m) (n : Nat) :
    (msgTrim m n).safe = true ∧
    ((m.body.len < n ∧ (msgTrim m n).rv = Err.einval ∧ (msgTrim m n).c = m) ∨
     (n ≤ m.body.len ∧ (msgTrim m n).rv = 0 ∧ MWF (msgTrim m n).c ∧ abs (msgTrim m n).c = ⟨m.header, m.body.data.drop n⟩)) := by
  obtain ⟨hs, ha⟩ := trim_spec m.body h.body n
  unfold msgTrim liftBody
  generalize trim m.body n = r at hs ha
  refine ⟨hs, ?_⟩
  rcases ha with ⟨hlt, hrv, hc⟩ | ⟨hle, hrv, hwf, hdata, _⟩
  · left; exact ⟨hlt, hrv, by cases m; simp_all⟩
  · right; exact ⟨hle, hrv, ⟨hwf, h.hbuflen, h.hfits⟩, by simp [abs, Msg.header, hdata]⟩

theorem refines_chop (m : Msg) (h : MWF m) (n : Nat) :
    (msgChop m n).safe = true ∧
    ((m.body.len < n ∧ (msgChop m n).rv = Err.einval ∧ (msgChop m n).c = m) ∨
     (n ≤ m.body.len ∧ (msgChop m n).rv = 0 ∧ MWF (msgChop m n).c ∧
      abs (msgChop m n).c = ⟨m.header, m.body.data.take (m.body.len - n)⟩)) := by
  obtain ⟨hs, ha⟩ := chop_spec m.body h.body n
  unfold msgChop liftBody
  generalize chop m.body n = r at hs ha
  refine ⟨hs, ?_⟩
  rcases ha with ⟨hlt, hrv, hc⟩ | ⟨hle, hrv, hwf, hdata, _⟩
  · left; exact ⟨hlt, hrv, by cases m; simp_all⟩
  · right; exact ⟨hle, hrv, ⟨hwf, h.hbuflen, h.hfits⟩, by simp [abs, Msg.header, hdata]⟩

theorem step_refines (m : Msg) (h : MWF m) (op : Op) (ok : Bool)  : Refines m op ok := by
  have hdl := data_length h.body
  have hhl := header_length h
  unfold Refines
  cases op with
  | append d =>
    obtain ⟨hs, ha⟩ := refines_append m h d ok
    simp only [step, MsgSpec.step]
    refine ⟨hs, ?_⟩
    rcases ha with hl | ⟨hrv, hwf, habs⟩
    · exact Or.inl hl
    · right; refine ⟨hwf, ?_⟩; rw [hrv, habs]; rfl
  | insert d =>
    obtain ⟨hs, ha⟩ := refines_insert m h d ok
    simp only [step, MsgSpec.step]
    refine ⟨hs, ?_⟩
    rcases ha with hl | ⟨hrv, hwf, habs⟩
    · exact Or.inl hl
    · right; refine ⟨hwf, ?_⟩; rw [hrv, habs]; rfl
  | trim n =>
    obtain ⟨hs, ha⟩ := refines_trim m h n
    simp only [step, MsgSpec.step, abs_body, hdl]
    refine ⟨hs, Or.inr ?_⟩
    rcases ha with ⟨hlt, hrv, hc⟩ | ⟨hle, hrv, hwf, habs⟩
    · rw [if_pos hlt, hrv, hc]; exact ⟨h, rfl⟩
    · rw [if_neg (by omega), hrv, habs]; exact ⟨hwf, rfl⟩
  | chop n =>
    obtain ⟨hs, ha⟩ := refines_chop m h n
    simp only [step, MsgSpec.step, abs_body, hdl]
    refine ⟨hs, Or.inr ?_⟩
    rcases ha with ⟨hlt, hrv, hc⟩ | ⟨hle, hrv, hwf, habs⟩
    · rw [if_pos hlt, hrv, hc]; exact ⟨h, rfl⟩
    · rw [if_neg (by omega), hrv, habs]; exact ⟨hwf, rfl⟩
  | appendU w v =>
    obtain ⟨hs, ha⟩ := refines_append m h (beEncode w v) ok
    simp only [step, MsgSpec.step]
    refine ⟨hs, ?_⟩
    rcases ha with hl | ⟨hrv, hwf, habs⟩
    · exact Or.inl hl
    · right; refine ⟨hwf, ?_⟩; rw [hrv, habs]; rfl
  | insertU w v =>
    obtain ⟨hs, ha⟩ := refines_insert m h (beEncode w v) ok
    simp only [step, MsgSpec.step]
    refine ⟨hs, ?_⟩
    rcases ha with hl | ⟨hrv, hwf, habs⟩
    · exact Or.inl hl
    · right; refine ⟨hwf, ?_⟩; rw [hrv, habs]; rfl
  | trimU w =>
    have hb := h.body.buflen; have hf := h.body.fits
    simp only [step, MsgSpec.step, abs_body, hdl, msgTrimU]
    by_cases hlt : m.body.len < w
    · simp only [if_pos hlt]
      exact ⟨by trivial, Or.inr ⟨h, rfl⟩⟩
    · simp only [if_neg hlt]
      obtain ⟨hs, ha⟩ := refines_trim m h w
      rcases ha with ⟨hlt', _⟩ | ⟨hle, hrv, hwf, habs⟩
      · omega
      · refine ⟨by simp only [inRange_iff]; omega, Or.inr ⟨hwf, ?_⟩⟩
        rw [habs, take_data_eq _ h.body _ hle]; rfl
  | chopU w =>
    have hb := h.body.buflen; have hf := h.body.fits
    simp only [step, MsgSpec.step, abs_body, hdl, msgChopU]
    by_cases hlt : m.body.len < w
    · simp only [if_pos hlt]
      exact ⟨by trivial, Or.inr ⟨h, rfl⟩⟩
    · simp only [if_neg hlt]
      obtain ⟨hs, ha⟩ := refines_chop m h w
      rcases ha with ⟨hlt', _⟩ | ⟨hle, hrv, hwf, habs⟩
      · omega
      · refine ⟨by simp only [inRange_iff]; omega, Or.inr ⟨hwf, ?_⟩⟩
        rw [habs, drop_data_eq _ h.body _ hle]; rfl
  | reserve n =>
    obtain ⟨hs, hg⟩ := grow_spec m.body h.body n 0 ok
    simp only [step, MsgSpec.step, msgReserve, liftBody]
    generalize grow m.body n 0 ok = r at hs hg
    refine ⟨hs, ?_⟩
    rcases hg with ⟨hrv, hc⟩ | ⟨hrv, hwf, hdata, _⟩
    · left; exact ⟨hrv, by cases m; simp_all⟩
    · right; refine ⟨⟨hwf, h.hbuflen, h.hfits⟩, ?_⟩
      simp only [abs, Msg.header, hdata, hrv]
  | clear =>
    simp only [step, MsgSpec.step, msgClear, clear]
    refine ⟨by trivial, Or.inr ⟨⟨⟨h.body.buflen, by simp only []; have := h.body.inb; omega, h.body.inb⟩, h.hbuflen, h.hfits⟩, ?_⟩⟩
    simp [abs, Msg.header, Chunk.data, readAt]
  | poke off d =>
    simp only [step, MsgSpec.step, msgPoke, abs_body, hdl]
    by_cases hin : off + d.length ≤ m.body.len
    · obtain ⟨hwf, hdata⟩ := poke_data m.body h.body off d hin
      simp only [if_pos hin]
      refine ⟨by trivial, Or.inr ⟨⟨hwf, h.hbuflen, h.hfits⟩, ?_⟩⟩
      simp only [abs, Msg.header, hdata]
    · simp only [if_neg hin]
      exact ⟨by trivial, Or.inr ⟨h, by trivial⟩⟩
  | realloc n fill =>
    by_cases hlt : m.body.len < n
    · have hspec : MsgSpec.step (abs m) (.realloc n fill) =
          ⟨0, ⟨m.header, m.body.data ++ List.replicate (n - m.body.len) fill⟩, none⟩ := by
        simp only [MsgSpec.step, abs_body, hdl]
        rw [if_neg (by omega)]; rfl
      rw [hspec]
      obtain ⟨hs, ha⟩ := append_none_spec m.body h.body (n - m.body.len) ok
      simp only [step]
      unfold msgRealloc
      rw [if_pos hlt]
      unfold liftBody
      generalize append m.body none (n - m.body.len) ok = r at hs ha
      rcases ha with ⟨hrv, hc⟩ | ⟨hrv, hwf, hlen, hpre, _⟩
      · have : ¬ ((r.rv == 0 && decide (m.body.len < n)) = true) := by simp [hrv, Err.enomem]
        simp only [if_neg this]
        exact ⟨hs, Or.inl ⟨hrv, by cases m; simp_all⟩⟩
      · have : (r.rv == 0 && decide (m.body.len < n)) = true := by simp [hrv, hlt]
        simp only [if_pos this]
        have hpk := poke_data r.c hwf m.body.len (List.replicate (n - m.body.len) fill) (by simp; omega)
        have hin : m.body.len + (List.replicate (n - m.body.len) fill).length ≤ r.c.len := by simp; omega
        simp only [msgPoke, if_pos hin]
        refine ⟨by simp [hs], Or.inr ⟨⟨hpk.1, h.hbuflen, h.hfits⟩, ?_⟩⟩
        · simp only [abs, Msg.header]
          have hl' := data_length hwf
          have e := hpk.2
          rw [hpre, List.drop_eq_nil_of_le (by simp; omega), List.append_nil] at e
          rw [e]
    · have hspec : MsgSpec.step (abs m) (.realloc n fill) =
          ⟨0, ⟨m.header, m.body.data.take n⟩, none⟩ := by
        simp only [MsgSpec.step, abs_body, hdl]
        rw [if_pos (by omega)]; rfl
      rw [hspec]
      simp only [step]
      unfold msgRealloc
      rw [if_neg hlt]
      obtain ⟨hs, ha⟩ := chop_spec m.body h.body (m.body.len - n)
      rcases ha with ⟨hlt', _⟩ | ⟨hle, hrv, hwf, hdata, _⟩
      · omega
      · have : ¬ (((0:Nat) == 0 && decide (m.body.len < n)) = true) := by simp; omega
        simp only [if_neg this]
        refine ⟨by trivial, Or.inr ⟨⟨hwf, h.hbuflen, h.hfits⟩, ?_⟩⟩
        simp only [abs, Msg.header, hdata]
        have : m.body.len - (m.body.len - n) = n := by omega
        rw [this]
  | hAppend d =>
    obtain ⟨hs, ha⟩ := hdrAppend_spec m h d
    simp only [step, MsgSpec.step, abs_hdr, hhl, MsgSpec.hdrCap]
    refine ⟨hs, Or.inr ?_⟩
    rcases ha with ⟨hgt, hrv, hc⟩ | ⟨hle, hrv, hwf, hh, hbdy⟩
    · rw [if_pos (by unfold hdrCap at hgt; omega), hrv, hc]; exact ⟨h, rfl⟩
    · rw [if_neg (by unfold hdrCap at hle; omega), hrv]; refine ⟨hwf, ?_⟩; simp only [abs, hh, hbdy]
  | hInsert d =>
    obtain ⟨hs, ha⟩ := hdrInsert_spec m h d
    simp only [step, MsgSpec.step, abs_hdr, hhl, MsgSpec.hdrCap]
    refine ⟨hs, Or.inr ?_⟩
    rcases ha with ⟨hgt, hrv, hc⟩ | ⟨hle, hrv, hwf, hh, hbdy⟩
    · rw [if_pos (by unfold hdrCap at hgt; omega), hrv, hc]; exact ⟨h, rfl⟩
    · rw [if_neg (by unfold hdrCap at hle; omega), hrv]; refine ⟨hwf, ?_⟩; simp only [abs, hh, hbdy]
  | hTrim n =>
    obtain ⟨hs, ha⟩ := hdrTrim_spec m h n
    simp only [step, MsgSpec.step, abs_hdr, hhl]
    refine ⟨hs, Or.inr ?_⟩
    rcases ha with ⟨hgt, hrv, hc⟩ | ⟨hle, hrv, hwf, hh, hbdy⟩
    · rw [if_pos hgt, hrv, hc]; exact ⟨h, rfl⟩
    · rw [if_neg (by omega), hrv]; refine ⟨hwf, ?_⟩; simp only [abs, hh, hbdy]
  | hChop n =>
    obtain ⟨hs, ha⟩ := hdrChop_spec m h n
    simp only [step, MsgSpec.step, abs_hdr, hhl]
    refine ⟨hs, Or.inr ?_⟩
    rcases ha with ⟨hgt, hrv, hc⟩ | ⟨hle, hrv, hwf, hh, hbdy⟩
    · rw [if_pos hgt, hrv, hc]; exact ⟨h, rfl⟩
    · rw [if_neg (by omega), hrv]; refine ⟨hwf, ?_⟩; simp only [abs, hh, hbdy]
  | hAppendU w v =>
    obtain ⟨hs, ha⟩ := hdrAppend_spec m h (beEncode w v)
    simp only [step, MsgSpec.step, abs_hdr, hhl, MsgSpec.hdrCap]
    simp only [length_beEncode] at ha
    refine ⟨hs, Or.inr ?_⟩
    rcases ha with ⟨hgt, hrv, hc⟩ | ⟨hle, hrv, hwf, hh, hbdy⟩
    · rw [if_pos (by unfold hdrCap at hgt; omega), hrv, hc]; exact ⟨h, rfl⟩
    · rw [if_neg (by unfold hdrCap at hle; omega), hrv]; refine ⟨hwf, ?_⟩; simp only [abs, hh, hbdy]
  | hInsertU w v =>
    obtain ⟨hs, ha⟩ := hdrInsert_spec m h (beEncode w v)
    simp only [step, MsgSpec.step, abs_hdr, hhl, MsgSpec.hdrCap]
    simp only [length_beEncode] at ha
    refine ⟨hs, Or.inr ?_⟩
    rcases ha with ⟨hgt, hrv, hc⟩ | ⟨hle, hrv, hwf, hh, hbdy⟩
    · rw [if_pos (by unfold hdrCap at hgt; omega), hrv, hc]; exact ⟨h, rfl⟩
    · rw [if_neg (by unfold hdrCap at hle; omega), hrv]; refine ⟨hwf, ?_⟩; simp only [abs, hh, hbdy]
  | hTrimU w =>
    have hb := h.hbuflen; have hf := h.hfits
    simp only [step, MsgSpec.step, abs_hdr, hhl, hdrTrimU]
    by_cases hlt : m.hlen < w
    · simp only [if_pos hlt]; exact ⟨by trivial, Or.inr ⟨h, rfl⟩⟩
    · simp only [if_neg hlt]
      obtain ⟨hs, ha⟩ := hdrTrim_spec m h w
      rcases ha with ⟨hgt, _⟩ | ⟨hle, hrv, hwf, hh, hbdy⟩
      · omega
      · refine ⟨by simp only [Bool.and_eq_true, inRange_iff]; exact ⟨hs, by omega⟩, Or.inr ⟨hwf, ?_⟩⟩
        simp only [abs, hh, hbdy]
        have : m.header.take w = readAt m.hbuf 0 w := by
          simp only [Msg.header, List.take_take, readAt, List.drop_zero]; congr 1; omega
        rw [this]; simp
  | hChopU w =>
    have hb := h.hbuflen; have hf := h.hfits
    simp only [step, MsgSpec.step, abs_hdr, hhl, hdrChopU]
    by_cases hlt : m.hlen < w
    · simp only [if_pos hlt]; exact ⟨by trivial, Or.inr ⟨h, rfl⟩⟩
    · simp only [if_neg hlt]
      obtain ⟨hs, ha⟩ := hdrChop_spec m h w
      rcases ha with ⟨hgt, _⟩ | ⟨hle, hrv, hwf, hh, hbdy⟩
      · omega
      · refine ⟨by simp only [inRange_iff]; omega, Or.inr ⟨hwf, ?_⟩⟩
        simp only [abs, hh, hbdy]
        have : m.header.drop (m.hlen - w) = readAt m.hbuf (m.hlen - w) w := by
          apply List.ext_getElem?
          intro i
          simp only [Msg.header, readAt_getElem?, List.getElem?_drop, List.getElem?_take]
          grind
        rw [this]; simp
  | hClear =>
    simp only [step, MsgSpec.step, hdrClear]
    refine ⟨by trivial, Or.inr ⟨⟨h.body, h.hbuflen, by simp⟩, ?_⟩⟩
    simp [abs, Msg.header]
