/-
  C19, buffer model = functional model, part 1: vocabulary and the generic loops.

  `Seg m p l`      : the bytes of `l` sit in the buffer at indices p, p+1, …
  `CStr len m p l` : … followed by a NUL, `l` itself NUL-free, all of it at or before index `len`
                     (`len` = index of the terminator of the copied URL tail, see `Inv` in
                     Proofs/UrlBufSafe.lean).
  Every loop of Model/UrlBuf.lean gets a lemma of the shape
      Inv ∧ CStr of the unprocessed input ∧ (write index ≤ read index) ∧ enough fuel
        → result = what the functional model computes ∧ CStr of the output ∧ frame
  where "frame" says which indices are untouched.
-/
import NngModel.Proofs.UrlBufSafe
import NngModel.Proofs.UrlRound
set_option linter.unusedSimpArgs false
set_option linter.unusedVariables false

namespace Nng.UrlBuf
/-- what the caller of nng_url_parse sees: the return value and the components read back from
    the buffer (`finish` reads every component as the C string at the offset the parser computed) -/
def R.view (r : R) : Url.R := ⟨r.rv, r.url⟩
end Nng.UrlBuf

namespace Nng.UrlBufEq
open Nng Nng.Url Nng.UrlBuf Nng.UrlBufProofs Nng.UrlProofs

/-- the bytes of `l` are in the buffer from index `p` on -/
def Seg (m : Mem) : Nat → Bytes → Prop
  | _, [] => True
  | p, c :: l => m.rd p = c ∧ Seg m (p + 1) l

theorem seg_transfer {m m' : Mem} : ∀ (l : Bytes) (p q : Nat), Seg m q l →
    (∀ k, k < l.length → m'.rd (p + k) = m.rd (q + k)) → Seg m' p l := by
  intro l
  induction l with
  | nil => intro p q _ _; trivial
  | cons c l ih =>
    intro p q h hk
    refine ⟨?_, ih (p + 1) (q + 1) h.2 ?_⟩
    · have := hk 0 (by simp)
      simp only [Nat.add_zero] at this
      rw [this]; exact h.1
    · intro k hk'
      have := hk (k + 1) (by simp; omega)
      have e1 : p + 1 + k = p + (k + 1) := by omega
      have e2 : q + 1 + k = q + (k + 1) := by omega
      rw [e1, e2]; exact this

theorem seg_frame {m m' : Mem} {l : Bytes} {p : Nat} (h : Seg m p l)
    (hf : ∀ i, p ≤ i → i < p + l.length → m'.rd i = m.rd i) : Seg m' p l :=
  seg_transfer l p p h (fun k hk => hf (p + k) (by omega) (by omega))

theorem seg_buf {m m' : Mem} {l : Bytes} {p : Nat} (h : Seg m p l) (hb : m'.buf = m.buf) : Seg m' p l :=
  seg_frame h (fun i _ _ => by simp only [Mem.rd, hb])

theorem seg_append {m : Mem} : ∀ (a b : Bytes) (p : Nat),
    Seg m p (a ++ b) ↔ Seg m p a ∧ Seg m (p + a.length) b := by
  intro a
  induction a with
  | nil => intro b p; simp [Seg]
  | cons c a ih =>
    intro b p
    simp only [List.cons_append, Seg, List.length_cons, ih b (p + 1)]
    have e : p + 1 + a.length = p + (a.length + 1) := by omega
    rw [e, and_assoc]

theorem seg_rd {m : Mem} : ∀ (l : Bytes) (p k : Nat), Seg m p l → (hk : k < l.length) →
    m.rd (p + k) = l[k] := by
  intro l
  induction l with
  | nil => intro p k _ hk; simp at hk
  | cons c l ih =>
    intro p k h hk
    cases k with
    | zero => simpa using h.1
    | succ k =>
      have := ih (p + 1) k h.2 (by simpa using hk)
      have e : p + (k + 1) = p + 1 + k := by omega
      rw [e, this]; simp

/-- the byte right after a prefix -/
theorem seg_mid {m : Mem} (a : Bytes) (c : UInt8) (t : Bytes) (p : Nat) (h : Seg m p (a ++ c :: t)) :
    m.rd (p + a.length) = c := ((seg_append a (c :: t) p).1 h).2.1

/-- the C string `l` is at index `p`: its bytes, then NUL; nothing of it lies after index `len` -/
structure CStr (len : Nat) (m : Mem) (p : Nat) (l : Bytes) : Prop where
  seg : Seg m p l
  term : m.rd (p + l.length) = 0
  nz : (0 : UInt8) ∉ l
  le : p + l.length ≤ len

theorem cstr_frame {len : Nat} {m m' : Mem} {l : Bytes} {p : Nat} (h : CStr len m p l)
    (hf : ∀ i, p ≤ i → i ≤ p + l.length → m'.rd i = m.rd i) : CStr len m' p l :=
  ⟨seg_frame h.seg (fun i a b => hf i a (by omega)), by rw [hf _ (by omega) (Nat.le_refl _)]; exact h.term,
    h.nz, h.le⟩

theorem cstr_buf {len : Nat} {m m' : Mem} {l : Bytes} {p : Nat} (h : CStr len m p l)
    (hb : m'.buf = m.buf) : CStr len m' p l :=
  cstr_frame h (fun i _ _ => by simp only [Mem.rd, hb])

theorem rd_buf {m m' : Mem} (hb : m'.buf = m.buf) (i : Nat) : m'.rd i = m.rd i := by
  simp only [Mem.rd, hb]

/-- the byte at offset `a.length` of a C string `a ++ b` is the head of `b` (NUL when `b` is empty) -/
theorem cstr_mid {len : Nat} {m : Mem} {p : Nat} (a b : Bytes) (h : CStr len m p (a ++ b)) :
    m.rd (p + a.length) = b.headD 0 := by
  cases b with
  | nil => have := h.term; simpa using this
  | cons c t => simpa using seg_mid a c t p h.seg

theorem cstr_suffix {len : Nat} {m : Mem} {p : Nat} (a b : Bytes) (h : CStr len m p (a ++ b)) :
    CStr len m (p + a.length) b := by
  refine ⟨((seg_append a b p).1 h.seg).2, ?_, fun hm => h.nz (List.mem_append_right _ hm), ?_⟩
  · have := h.term; simp only [List.length_append] at this
    rw [Nat.add_assoc]; exact this
  · have := h.le; simp only [List.length_append] at this; omega

theorem cstr_tail {len : Nat} {m : Mem} {p : Nat} (c : UInt8) (t : Bytes) (h : CStr len m p (c :: t)) :
    CStr len m (p + 1) t := cstr_suffix [c] t h

theorem cstr_head {len : Nat} {m : Mem} {p : Nat} (l : Bytes) (h : CStr len m p l) :
    m.rd p = l.headD 0 := by
  have := cstr_mid (p := p) [] l (by simpa using h); simpa using this

theorem rd_wr_inv {len : Nat} {m : Mem} (h : Inv len m) {i : Nat} (hi : i ≤ len) (j : Nat) (v : UInt8) :
    (m.wr i v).rd j = if i = j then v else m.rd j :=
  rd_wr m i j v (by have := h.2.1; omega)

theorem rd_wr_same {len : Nat} {m : Mem} (h : Inv len m) {i : Nat} (hi : i ≤ len) (v : UInt8) :
    (m.wr i v).rd i = v := by rw [rd_wr_inv h hi, if_pos rfl]

theorem rd_wr_ne {len : Nat} {m : Mem} (h : Inv len m) {i : Nat} (hi : i ≤ len) {j : Nat} (v : UInt8)
    (hne : i ≠ j) : (m.wr i v).rd j = m.rd j := by rw [rd_wr_inv h hi, if_neg hne]

/-- the initial buffer holds the copied tail -/
theorem init_cstr (s pad : Bytes) (hz : (0 : UInt8) ∉ s) :
    CStr s.length ⟨(s ++ 0 :: pad).toArray, true⟩ 0 s := by
  have key : ∀ (pre s : Bytes), Seg ⟨(pre ++ s ++ 0 :: pad).toArray, true⟩ pre.length s := by
    intro pre s
    induction s generalizing pre with
    | nil => trivial
    | cons c s ih =>
      refine ⟨?_, ?_⟩
      · simp [Mem.rd, Array.getD_eq_getD_getElem?]
      · have := ih (pre ++ [c])
        simpa using this
  refine ⟨by simpa using key [] s, ?_, hz, by simp⟩
  simp [Mem.rd, Array.getD_eq_getD_getElem?]

/-! ### scan, cstr -/

/-- `while (*p && !stop(*p)) p++` runs over a prefix without NUL and without stop bytes and halts
    at the byte after it when that byte is NUL or a stop byte -/
theorem scan_stop (stop : UInt8 → Bool) {len : Nat} : ∀ (a : Bytes) (fuel : Nat) (m : Mem) (p : Nat),
    Inv len m → Seg m p a → (∀ x ∈ a, x ≠ 0 ∧ stop x = false) →
    (m.rd (p + a.length) = 0 ∨ stop (m.rd (p + a.length)) = true) →
    p + a.length ≤ len → len < p + fuel → (scan stop fuel m p).2 = p + a.length := by
  intro a
  induction a with
  | nil =>
    intro fuel m p h _ _ hend _ hf
    cases fuel with
    | zero => omega
    | succ fuel =>
      unfold scan
      simp only [List.length_nil, Nat.add_zero] at hend ⊢
      rw [if_pos (by rcases hend with e | e <;> simp [e])]
  | cons c a ih =>
    intro fuel m p h hs ha hend hl hf
    cases fuel with
    | zero => omega
    | succ fuel =>
      have hc := ha c (by simp)
      unfold scan
      rw [if_neg (by simp only [rd_chk, hs.1, Bool.or_eq_true, decide_eq_true_eq, hc.1, hc.2]; simp)]
      have e : p + (c :: a).length = p + 1 + a.length := by simp; omega
      rw [e] at hend hl ⊢
      exact ih fuel (m.chk p) (p + 1) (chk_inv h (by omega)) (seg_buf hs.2 rfl)
        (fun x hx => ha x (List.mem_cons_of_mem _ hx)) hend hl (by omega)

/-- the takeWhile form: the scan over a C string halts after the longest prefix without stop byte -/
theorem scan_cstr (stop : UInt8 → Bool) {len : Nat} (l : Bytes) (fuel : Nat) (m : Mem) (p : Nat)
    (h : Inv len m) (hs : CStr len m p l) (hf : len < p + fuel) :
    (scan stop fuel m p).2 = p + (l.takeWhile (fun c => !stop c)).length ∧
    (scan stop fuel m p).1.buf = m.buf ∧ Inv len (scan stop fuel m p).1 := by
  obtain ⟨a, _, _, d⟩ := scan_inv stop fuel m p h (by have := hs.le; omega) hf
  refine ⟨?_, d, a⟩
  have hsplit : l = l.takeWhile (fun c => !stop c) ++ l.dropWhile (fun c => !stop c) :=
    (List.takeWhile_append_dropWhile).symm
  have hs' := hs
  rw [hsplit] at hs'
  refine scan_stop stop _ fuel m p h ((seg_append _ _ p).1 hs'.seg).1 ?_ ?_ ?_ hf
  · intro x hx
    refine ⟨fun e => hs.nz (e ▸ (List.takeWhile_sublist _).subset hx), ?_⟩
    have := mem_takeWhile_true _ l x hx
    simpa using this
  · rw [cstr_mid _ _ hs']
    cases hd : l.dropWhile (fun c => !stop c) with
    | nil => left; rfl
    | cons c t =>
      right
      have := dropWhile_head_false (fun c => !stop c) l c t hd
      simpa using this
  · have := hs'.le; simp only [List.length_append] at this; omega

/-- strlen / the caller reading a field: the C string at `p` is read back whole -/
theorem cstr_read {len : Nat} : ∀ (l : Bytes) (fuel : Nat) (m : Mem) (p : Nat), Inv len m →
    CStr len m p l → len < p + fuel → (cstr fuel m p).2 = l := by
  intro l
  induction l with
  | nil =>
    intro fuel m p h hs hf
    cases fuel with
    | zero => have := hs.le; omega
    | succ fuel =>
      unfold cstr
      rw [if_pos (by simpa using hs.term)]
  | cons c l ih =>
    intro fuel m p h hs hf
    cases fuel with
    | zero => have := hs.le; omega
    | succ fuel =>
      have hc : c ≠ 0 := fun e => hs.nz (by simp [e])
      have hle := hs.le
      simp only [List.length_cons] at hle
      unfold cstr
      rw [if_neg (by simp only [rd_chk, hs.seg.1]; exact hc)]
      simp only [rd_chk, hs.seg.1]
      rw [ih fuel (m.chk p) (p + 1) (chk_inv h (by omega)) (cstr_buf (cstr_tail c l hs) rfl) (by omega)]

theorem cstr_all {len : Nat} (l : Bytes) (fuel : Nat) (m : Mem) (p : Nat) (h : Inv len m)
    (hs : CStr len m p l) (hf : len < fuel) :
    (cstr fuel m p).2 = l ∧ (cstr fuel m p).1.buf = m.buf ∧ Inv len (cstr fuel m p).1 := by
  have hle := hs.le
  obtain ⟨a, b⟩ := cstr_inv fuel m p h (by omega) (by omega)
  exact ⟨cstr_read l fuel m p h hs (by omega), b, a⟩

/-! ### memmove (ascending copy, dst < src), the tolower loop -/

theorem copyDown_spec {len : Nat} : ∀ (n : Nat) (m : Mem) (dst src : Nat), Inv len m → dst < src →
    src + n ≤ len + 1 →
    (∀ k, k < n → (copyDown n m dst src).rd (dst + k) = m.rd (src + k)) ∧
    (∀ i, (i < dst ∨ dst + n ≤ i) → (copyDown n m dst src).rd i = m.rd i) := by
  intro n
  induction n with
  | zero => intro m dst src _ _ _; exact ⟨fun k hk => by omega, fun i _ => rfl⟩
  | succ n ih =>
    intro m dst src h hds hs
    have h1 : Inv len ((m.chk src).wr dst ((m.chk src).rd src)) :=
      wr_lt (chk_inv h (by omega)) (by omega)
    obtain ⟨a, b⟩ := ih _ (dst + 1) (src + 1) h1 (by omega) (by omega)
    have hw : ∀ j, ((m.chk src).wr dst ((m.chk src).rd src)).rd j = if dst = j then m.rd src else m.rd j := by
      intro j
      rw [rd_wr_inv (chk_inv h (i := src) (by omega)) (by omega)]; rfl
    unfold copyDown
    refine ⟨?_, ?_⟩
    · intro k hk
      cases k with
      | zero =>
        show (copyDown n ((m.chk src).wr dst ((m.chk src).rd src)) (dst + 1) (src + 1)).rd dst = m.rd src
        rw [b dst (Or.inl (by omega)), hw, if_pos rfl]
      | succ k =>
        have e1 : dst + (k + 1) = dst + 1 + k := by omega
        have e2 : src + (k + 1) = src + 1 + k := by omega
        rw [e1, e2, a k (by omega), hw, if_neg (by omega)]
    · intro i hi
      rw [b i (by omega), hw, if_neg (by omega)]

theorem toLower_nz : ∀ c : UInt8, c ≠ 0 → toLower c ≠ 0 := by
  apply forall_uint8; decide +kernel

theorem map_toLower_nz (l : Bytes) (h : (0 : UInt8) ∉ l) : (0 : UInt8) ∉ l.map toLower := by
  intro hm
  obtain ⟨x, hx, e⟩ := List.mem_map.1 hm
  exact toLower_nz x (fun e0 => h (e0 ▸ hx)) e

theorem lowerLoop_spec {len : Nat} : ∀ (l : Bytes) (fuel : Nat) (m : Mem) (p : Nat), Inv len m →
    CStr len m p l → len < p + fuel →
    CStr len (lowerLoop fuel m p) p (l.map toLower) ∧
    (∀ i, (i < p ∨ p + l.length ≤ i) → (lowerLoop fuel m p).rd i = m.rd i) := by
  intro l
  induction l with
  | nil =>
    intro fuel m p h hs hf
    cases fuel with
    | zero => have := hs.le; omega
    | succ fuel =>
      unfold lowerLoop
      rw [if_pos (by simpa using hs.term)]
      exact ⟨cstr_buf hs rfl, fun i _ => rfl⟩
  | cons c l ih =>
    intro fuel m p h hs hf
    cases fuel with
    | zero => have := hs.le; omega
    | succ fuel =>
      have hc : c ≠ 0 := fun e => hs.nz (by simp [e])
      have hle := hs.le
      simp only [List.length_cons] at hle
      have h0 := chk_inv h (i := p) (by omega)
      have h1 : Inv len ((m.chk p).wr p (toLower ((m.chk p).rd p))) := wr_lt h0 (by omega)
      have hw : ∀ j, ((m.chk p).wr p (toLower ((m.chk p).rd p))).rd j = if p = j then toLower c else m.rd j := by
        intro j
        rw [rd_wr_inv h0 (by omega)]; simp only [rd_chk, hs.seg.1]
      have ht : CStr len ((m.chk p).wr p (toLower ((m.chk p).rd p))) (p + 1) l :=
        cstr_frame (cstr_tail c l hs) (fun i a _ => by rw [hw, if_neg (by omega)])
      obtain ⟨a, b⟩ := ih fuel _ (p + 1) h1 ht (by omega)
      unfold lowerLoop
      rw [if_neg (by simp only [rd_chk, hs.seg.1]; exact hc)]
      refine ⟨⟨⟨?_, a.seg⟩, ?_, map_toLower_nz _ hs.nz, by simpa using hs.le⟩, ?_⟩
      · rw [b p (Or.inl (by omega)), hw, if_pos rfl]
      · have := a.term
        simp only [List.length_map, List.length_cons] at this ⊢
        have e : p + (l.length + 1) = p + 1 + l.length := by omega
        rw [e]; exact this
      · intro i hi
        simp only [List.length_cons] at hi
        rw [b i (by omega), hw, if_neg (by omega)]

/-! ### list facts used by several stages -/

theorem takeWhile_all_true (l : Bytes) : l.takeWhile (fun c => !((fun _ => false) c : Bool)) = l := by
  induction l with
  | nil => rfl
  | cons c l ih => simp only [List.takeWhile_cons, Bool.not_false, if_true] at ih ⊢; rw [ih]

theorem upTo_eq (c : UInt8) (s : Bytes) : upTo c s = s.takeWhile (fun x => !decide (x = c)) := by
  unfold upTo
  induction s with
  | nil => rfl
  | cons a s ih => simp only [List.takeWhile_cons, ih]; by_cases h : a = c <;> simp [h]

theorem dropWhile_ne_eq (c : UInt8) (s : Bytes) :
    s.dropWhile (· ≠ c) = s.dropWhile (fun x => !decide (x = c)) := by
  induction s with
  | nil => rfl
  | cons a s ih => simp only [List.dropWhile_cons, ih]; by_cases h : a = c <;> simp [h]

end Nng.UrlBufEq
