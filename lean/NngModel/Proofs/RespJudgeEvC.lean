/-
  RESPONDENT judge simulation, part C: a survey arrives (`recv_done` with a well-formed or an over-long
  backtrace), and the two "a parked operation leaves" lemmas used by the later parts.
-/
import NngModel.Proofs.RespJudgeEvB
namespace Nng.RespJudge
open Nng Nng.Proto Nng.Respond Nng.SurveySpec

/-! ### the judge's and the model's backtrace loops agree -/

theorem btSplit_ok (n : Nat) : ∀ (h b hdr body : Bytes), splitBt n h b = .ok hdr body → btSplit n h b = some (hdr, body) := by
  induction n with
  | zero => intro h b hdr body e; simp [splitBt] at e
  | succ n ih =>
    intro h b hdr body e
    unfold splitBt at e
    unfold btSplit
    by_cases hl : b.length < 4
    · rw [if_pos hl] at e; cases e
    · rw [if_neg hl] at e ⊢
      simp only at e
      have hhd : (b.take 4).headD 0 = b.headD 0 := by
        cases b with
        | nil => simp at hl
        | cons x xs => rfl
      rw [hhd] at e
      by_cases h8 : (b.headD 0).toNat ≥ 128
      · rw [if_pos h8] at e ⊢
        injection e with e1 e2
        rw [e1, e2]
      · rw [if_neg h8] at e ⊢
        exact ih _ _ _ _ e

theorem btSplit_none (n : Nat) : ∀ (h b : Bytes), (splitBt n h b = .drop ∨ splitBt n h b = .garbage) → btSplit n h b = none := by
  induction n with
  | zero => intro h b _; rfl
  | succ n ih =>
    intro h b e
    unfold splitBt at e
    unfold btSplit
    by_cases hl : b.length < 4
    · rw [if_pos hl]
    · rw [if_neg hl] at e ⊢
      simp only at e
      have hhd : (b.take 4).headD 0 = b.headD 0 := by
        cases b with
        | nil => simp at hl
        | cons x xs => rfl
      rw [hhd] at e
      by_cases h8 : (b.headD 0).toNat ≥ 128
      · rw [if_pos h8] at e
        rcases e with e | e <;> cases e
      · rw [if_neg h8] at e ⊢
        exact ih _ _ e

/-! ### a parked operation leaves -/

theorem pr_unpark {s : State} {j : RespJ} {used : List Bytes} (hc : RelCore s j used) (hk : (s.ctxs.map (·.key)).Nodup)
    {c : Ctx} (c' : Ctx) (r : PRecv) (hcm : c ∈ s.ctxs) (hkey : c'.key = c.key) (hr : c.raio = some r) (hr' : c'.raio = none) :
    ∀ x, x ∈ j.pendRecv.filter (·.1 != r.aio) ↔ PRof (setCtx s c') x := by
  intro x
  have hx0 : (r.aio, c.key, false) ∈ j.pendRecv := (hc.pr _).2 ⟨c, hcm, r, hr, rfl⟩
  rw [List.mem_filter, hc.pr x, prof_setCtx hcm hkey, prof_split hk hcm x, hr, hr']
  simp only [Option.some.injEq, bne_iff_ne, ne_eq]
  constructor
  · rintro ⟨⟨r', e, rfl⟩ | h, hne⟩
    · subst e; exact absurd rfl hne
    · exact Or.inr h
  · rintro (⟨r', e, _⟩ | h)
    · cases e
    · refine ⟨Or.inr h, ?_⟩
      obtain ⟨q, hq, hqk, r', hr'', rfl⟩ := h
      intro e
      have hxm : (r'.aio, q.key, false) ∈ j.pendRecv := (hc.pr _).2 ⟨q, hq, r', hr'', rfl⟩
      have := recv_aio_inj hc.aios hxm hx0 e
      simp only [Prod.mk.injEq] at this
      exact hqk this.2.1

theorem ps_unpark {s : State} {j : RespJ} {used : List Bytes} (hc : RelCore s j used) (hk : (s.ctxs.map (·.key)).Nodup)
    {c : Ctx} (c' : Ctx) (ps : PSend) (hcm : c ∈ s.ctxs) (hkey : c'.key = c.key) (hs : c.saio = some ps) (hs' : c'.saio = none) :
    ∀ e, e ∈ j.pendSend.filter (·.aio != ps.aio) ↔ PSof (setCtx s c') e := by
  intro e
  have he0 : expOf c ps ∈ j.pendSend := (hc.ps _).2 ⟨c, hcm, ps, hs, rfl⟩
  rw [List.mem_filter, hc.ps e, psof_setCtx hcm hkey, psof_split hk hcm e, hs, hs']
  simp only [Option.some.injEq, bne_iff_ne, ne_eq]
  constructor
  · rintro ⟨⟨p', e', rfl⟩ | h, hne⟩
    · subst e'; exact absurd rfl hne
    · exact Or.inr h
  · rintro (⟨p', e', _⟩ | h)
    · cases e'
    · refine ⟨Or.inr h, ?_⟩
      obtain ⟨q, hq, hqk, p', hp', rfl⟩ := h
      intro ea
      have hem : expOf q p' ∈ j.pendSend := (hc.ps _).2 ⟨q, hq, p', hp', rfl⟩
      have := send_aio_inj hc.aios hem he0 ea
      have hkk : (expOf q p').ctx = (expOf c ps).ctx := by rw [this]
      exact hqk hkk

theorem aios_sub {j j' : RespJ} (h1 : j'.pendRecv.Sublist j.pendRecv) (h2 : j'.pendSend.Sublist j.pendSend)
    (h : (aiosOf j).Nodup) : (aiosOf j').Nodup := by
  unfold aiosOf at h ⊢
  exact List.Sublist.nodup (List.Sublist.append (List.Sublist.map _ h1) (List.Sublist.map _ h2)) h

theorem setCtxJ_same {s : State} {j : RespJ} (h : j.ctxs = s.ctxs.map absCtx) (hk : (s.ctxs.map (·.key)).Nodup)
    {c : Ctx} (hcm : c ∈ s.ctxs) : j.setCtx (absCtx c) = j := by
  have : (j.setCtx (absCtx c)).ctxs = j.ctxs := by
    unfold RespJ.setCtx
    simp only [h, List.map_map]
    apply List.map_congr_left
    intro q hq
    simp only [Function.comp, absCtx_key]
    by_cases e : (q.key == c.key) = true
    · have hq' := mem_of_keys hk hcm hq (by simpa using e)
      subst hq'
      simp
    · simp [e]
  cases j
  simp only [RespJ.setCtx] at this ⊢
  rw [this]

/-- the parked receive of `c` leaves (it is served, cancelled, timed out, or its context closes) -/
theorem rel_unpark_recv {s : State} {j : RespJ} {used : List Bytes} (hc : RelCore s j used) (hk : (s.ctxs.map (·.key)).Nodup)
    {c : Ctx} (c' : Ctx) (r : PRecv) (hcm : c ∈ s.ctxs) (hkey : c'.key = c.key) (hr : c.raio = some r) (hr' : c'.raio = none)
    (hs : c'.saio = c.saio) :
    RelCore (setCtx s c') (RespJ.setCtx { j with pendRecv := j.pendRecv.filter (·.1 != r.aio) } (absCtx c')) used := by
  refine ⟨hc.err, hc.closed, hc.ttl, hc.ttl0, ?_, hc.arr, ?_, ?_, ?_, hc.gone, hc.infl, hc.bodies, hc.used⟩
  · exact setCtxJ_eq (j := { j with pendRecv := j.pendRecv.filter (·.1 != r.aio) }) hc.ctxs c'
  · exact pr_unpark hc hk c' r hcm hkey hr hr'
  · intro e
    rw [psof_setCtx_same hk hcm hkey hs]; exact hc.ps e
  · exact aios_sub (j := j) List.filter_sublist (List.Sublist.refl _) hc.aios

/-- the parked send of `c` leaves -/
theorem rel_unpark_send {s : State} {j : RespJ} {used : List Bytes} (hc : RelCore s j used) (hk : (s.ctxs.map (·.key)).Nodup)
    {c : Ctx} (c' : Ctx) (ps : PSend) (hcm : c ∈ s.ctxs) (hkey : c'.key = c.key) (hs : c.saio = some ps) (hs' : c'.saio = none)
    (hr : c'.raio = c.raio) (ha : absCtx c' = absCtx c) :
    RelCore (setCtx s c') { j with pendSend := j.pendSend.filter (·.aio != ps.aio) } used := by
  refine ⟨hc.err, hc.closed, hc.ttl, hc.ttl0, ?_, hc.arr, ?_, ?_, ?_, hc.gone, hc.infl, ?_, ?_⟩
  · exact hc.ctxs.trans (abs_setCtx_same hk hcm hkey ha).symm
  · intro x
    rw [prof_setCtx_same hk hcm hkey hr]; exact hc.pr x
  · exact ps_unpark hc hk c' ps hcm hkey hs hs'
  · exact aios_sub (j := j) (List.Sublist.refl _) List.filter_sublist hc.aios
  · exact List.Sublist.nodup (List.Sublist.map _ List.filter_sublist) hc.bodies
  · intro e he; exact hc.used e (List.mem_filter.1 he).1

/-! ### a survey arrives -/

theorem respPre_recvDone (j : RespJ) (p : Nat) (b : Bytes) (outs : List Out) (h0 : outs.contains (.rv 0) = true)
    (hp : outs.contains (.pclosed p) = false) :
    respPre j (.recvDone p (.ok b)) outs =
      match btSplit j.ttl [] b with
      | some (h, body) => { j with arrivals := j.arrivals ++ [({ pipe := p, hdr := h, body := body } : RArrival)] }
      | none => j := by
  unfold respPre
  simp only [h0, hp]
  rfl

/-- too many hops: the survey is discarded, the pipe re-armed -/
theorem recvDrop_ok {s : State} {j : RespJ} {used : List Bytes} (hR : Rel s j used) (hI : MInv s) (ho : s.opened = true)
    (p : Nat) (b : Bytes) (hd : splitBt s.ttl [] b = .drop) :
    Rel s (respStep j (.recvDone p (.ok b)) [.rv 0, .parm p]) used := by
  refine step_plain _ _ hR hI.n rfl ?_ rfl rfl rfl rfl rfl rfl rfl rfl (by intro r w h; cases h)
  have : respPre j (.recvDone p (.ok b)) [.rv 0, .parm p] = j := by
    rw [respPre_recvDone j p b _ rfl rfl, hR.core.ttl ho, btSplit_none _ _ _ (Or.inl hd)]
  rw [this]; rfl

theorem pipeRecv_ok {s : State} {j : RespJ} {used : List Bytes} (hR : Rel s j used) (hI : MInv s) (ho : s.opened = true)
    (p : Nat) (pp : Pipe) (b hdr body : Bytes) (hgp : getPipe s p = some pp) (ha : pp.armed = true)
    (hsb : splitBt s.ttl [] b = .ok hdr body) :
    Rel (pipeRecv s pp ⟨hdr, body⟩).1 (respStep j (.recvDone p (.ok b)) (pipeRecv s pp ⟨hdr, body⟩).2) used := by
  have hc := hR.core
  have hid := getPipe_id hgp
  have hg' : getPipe s pp.id = some pp := by rw [hid]; exact hgp
  have hh : hdr ≠ [] := splitBt_hdr_ne _ _ _ _ _ hsb
  have hbt : btSplit j.ttl [] b = some (hdr, body) := by rw [hc.ttl ho]; exact btSplit_ok _ _ _ _ _ hsb
  have hn' : NInv (pipeRecv s pp ⟨hdr, body⟩).1 := pipeRecv_ninv _ hI.n hgp ha
  unfold pipeRecv at hn' ⊢
  split
  · -- nobody waits: the pipe holds the survey
    rename_i hq
    simp only [hq] at hn'
    simp only
    have hj2 : ctxCloseStep (.recvDone p (.ok b)) [.rv 0] (respMid [.rv 0] (respPre j (.recvDone p (.ok b)) [.rv 0])) =
        { j with arrivals := j.arrivals ++ [({ pipe := p, hdr := hdr, body := body } : RArrival)] } := by
      rw [respPre_recvDone j p b _ rfl rfl, hbt]; rfl
    refine step_finish _ _ hc.err rfl hn' hj2 ?_ rfl (pollClause_skip _ _ _ rfl) (by intro r w h; cases h)
    rw [unfreshJ_id (j := { j with arrivals := j.arrivals ++ [({ pipe := p, hdr := hdr, body := body } : RArrival)] }) hc.fresh]
    have hnot : pp.id ∉ s.recvpipes := by
      intro hm
      obtain ⟨x, hx, hxa⟩ := hI.n.rp _ hm
      rw [hg'] at hx; injection hx with hx
      rw [← hx, ha] at hxa; cases hxa
    have hcore : RelCore (setPipe s { pp with armed := false, held := some ⟨hdr, body⟩ })
        { j with arrivals := j.arrivals } used := by
      refine ⟨hc.err, hc.closed, hc.ttl, hc.ttl0, hc.ctxs, ?_, hc.pr, hc.ps, hc.aios, ?_, ?_, hc.bodies, hc.used⟩
      · show j.arrivals.map some = s.recvpipes.map (arrOf _)
        rw [hc.arr]
        apply List.map_congr_left
        intro q hq'
        exact (arrOf_setPipe_ne (pp' := { pp with armed := false, held := some ⟨hdr, body⟩ }) (fun e => hnot (e ▸ hq'))).symm
      · intro q; rw [hc.gone q, closed_setPipe (pp' := { pp with armed := false, held := some ⟨hdr, body⟩ }) hg' rfl rfl]
      · intro q; rw [hc.infl q, busy_setPipe (pp' := { pp with armed := false, held := some ⟨hdr, body⟩ }) hg' rfl rfl]
    refine ⟨hc.err, hc.closed, hc.ttl, hc.ttl0, hc.ctxs, ?_, hc.pr, hc.ps, hc.aios, hcore.gone, hcore.infl, hc.bodies, hc.used⟩
    show (j.arrivals ++ [({ pipe := p, hdr := hdr, body := body } : RArrival)]).map some =
      (s.recvpipes ++ [pp.id]).map (arrOf (setPipe s { pp with armed := false, held := some ⟨hdr, body⟩ }))
    rw [List.map_append, List.map_append]
    have := hcore.arr
    rw [this]
    congr 1
    simp only [List.map_cons, List.map_nil, List.cons.injEq, and_true]
    unfold arrOf
    rw [getPipe_setPipe_self (pp' := { pp with armed := false, held := some ⟨hdr, body⟩ }) hg']
    simp [hid]
  · rename_i k rest hq
    split
    · exact refused_ok hR _ _
    · rename_i c hgc
      split
      · exact refused_ok hR _ _
      · rename_i pr hpr
        rw [hq] at hn'
        simp only [hgc, hpr] at hn'
        simp only
        have hcm : c ∈ s.ctxs := getCtx_mem hgc
        have hck := getCtx_key hgc
        subst hck
        have hrp : s.recvpipes = [] := hI.n.excl (by rw [hq]; simp)
        have hja : j.arrivals = [] := by
          have := hc.arr; rw [hrp] at this; exact map_some_eq_nil this
        have hx0 : (pr.aio, c.key, false) ∈ j.pendRecv := (hc.pr _).2 ⟨c, hcm, pr, hpr, rfl⟩
        have hf : ({ j with arrivals := j.arrivals ++ [({ pipe := p, hdr := hdr, body := body } : RArrival)] } : RespJ).pendRecv.find?
            (·.1 == pr.aio) = some (pr.aio, c.key, false) := by
          show j.pendRecv.find? (·.1 == pr.aio) = _
          cases hfd : j.pendRecv.find? (·.1 == pr.aio) with
          | none =>
            have := List.find?_eq_none.1 hfd _ hx0
            simp at this
          | some x' =>
            have h1 := List.mem_of_find?_eq_some hfd
            have h2 : x'.1 = pr.aio := by simpa using List.find?_some hfd
            rw [recv_aio_inj hc.aios h1 hx0 h2]
        have hgcj : RespJ.getCtx { j with arrivals := j.arrivals ++ [({ pipe := p, hdr := hdr, body := body } : RArrival)] } c.key =
            some (absCtx c) := by
          have := getCtxJ_eq hc.ctxs c.key
          rw [hgc] at this
          exact this
        have habs : absCtx (takeSurvey { c with raio := none } pp.id ⟨hdr, body⟩) = { absCtx c with cur := some (p, hdr) } := by
          rw [absCtx_take _ _ _ hh, hid]; rfl
        have hj2 : ctxCloseStep (.recvDone p (.ok b)) [.rv 0, .parm pp.id, .done pr.aio 0 (some ⟨[], body⟩) false]
            (respMid [.rv 0, .parm pp.id, .done pr.aio 0 (some ⟨[], body⟩) false]
              (respPre j (.recvDone p (.ok b)) [.rv 0, .parm pp.id, .done pr.aio 0 (some ⟨[], body⟩) false])) =
            RespJ.setCtx { j with pendRecv := j.pendRecv.filter (·.1 != pr.aio) }
              (absCtx (takeSurvey { c with raio := none } pp.id ⟨hdr, body⟩)) := by
          rw [respPre_recvDone j p b _ rfl rfl, hbt, habs]
          show respOut _ { j with arrivals := j.arrivals ++ [({ pipe := p, hdr := hdr, body := body } : RArrival)] }
            (.done pr.aio 0 (some ⟨[], body⟩) false) = _
          rw [respOut_done_recv_ok (x := (pr.aio, c.key, false)) (m := ⟨[], body⟩) (ar := ⟨p, hdr, body⟩) (rest := [])
            (c := absCtx c) hf rfl (by show j.arrivals ++ _ = _; rw [hja]; rfl) rfl hgcj]
          cases j
          simp only at hja
          subst hja
          rfl
        refine step_finish _ _ hc.err rfl hn' hj2 ?_ rfl (pollClause_skip _ _ _ rfl) (by intro r w h; cases h)
        rw [unfreshJ_id]
        · have h0 : RelCore { s with recvq := rest } j used := hc.of_eq rfl rfl rfl rfl rfl rfl
          have := rel_unpark_recv h0 hI.n.keys (takeSurvey { c with raio := none } pp.id ⟨hdr, body⟩) pr hcm rfl hpr rfl rfl
          exact this.of_eq (by simp) (by simp) (by simp) (by simp) (by simp) (by simp)
        · exact hc.fresh

end Nng.RespJudge
