/-
  Lemmas about the SURVEYOR model (Model/Survey.lean): the invariant behind S1 (only the
  current survey's responses, only up to the deadline) and its preservation by every step.
-/
import NngModel.Model.Survey
namespace Nng.Survey
open Nng Nng.Proto

/-- per-context invariant at virtual time `now` -/
structure CtxOK (now : Nat) (c : Ctx) : Prop where
  /-- queued responses carry the registered survey id -/
  qid : ∀ m ∈ c.recvQ, m.id = c.surveyId
  /-- a parked receive expires no earlier than now and no later than the survey deadline -/
  dl : ∀ pk ∈ c.rq, (now : Int) ≤ pk.deadline ∧ pk.deadline ≤ c.expire
  /-- receivers wait only while nothing is queued -/
  excl : c.rq ≠ [] → c.recvQ = []

/-- what S1 says about one delivery -/
def DelOK (d : Delivery) : Prop :=
  d.msgId = d.curId ∧ d.curId ≠ 0 ∧ (d.now : Int) ≤ d.expire ∧ (d.direct = true → (d.now : Int) < d.expire)

structure InvCore (opened closed : Bool) (now : Nat) (ctxs : List Ctx) (del : List Delivery) : Prop where
  ctxsOK : ∀ c ∈ ctxs, CtxOK now c
  delOK : ∀ d ∈ del, DelOK d
  notOpen : opened = false → ctxs = []
  closedRq : closed = true → ∀ c ∈ ctxs, c.rq = []

def Inv (s : State) : Prop := InvCore s.opened s.closed s.now s.ctxs s.delivered

theorem clampBelow_eq : clampBelow = 0 := by decide

theorem ctxOK_idle (now : Nat) (c : Ctx) (h1 : c.rq = []) (h2 : c.recvQ = []) : CtxOK now c :=
  ⟨by simp [h2], by simp [h1], by simp [h2]⟩

theorem mem_setCtx {s : State} {c' q : Ctx} (h : q ∈ (setCtx s c').ctxs) : q = c' ∨ q ∈ s.ctxs := by
  simp only [setCtx, List.mem_map] at h
  obtain ⟨x, hx, rfl⟩ := h
  by_cases hk : (x.key == c'.key) = true
  · simp [hk]
  · simp [hk, hx]

theorem getCtx_mem {s : State} {k : Option Nat} {c : Ctx} (h : getCtx s k = some c) : c ∈ s.ctxs :=
  List.mem_of_find?_eq_some h

theorem lookup_spec {s : State} {id : Nat} {c : Ctx} (h : lookup s id = some c) :
    c ∈ s.ctxs ∧ c.surveyId ≠ 0 ∧ c.surveyId = id := by
  have hm := List.mem_of_find?_eq_some h
  have hp := List.find?_some h
  simp at hp
  exact ⟨hm, hp.1, hp.2⟩

/-- replacing one context by an OK one keeps the invariant, as long as no receive of a
    closed socket comes back -/
theorem inv_setCtx {s : State} {c' : Ctx} (h : Inv s) (hc : CtxOK s.now c')
    (hcl : s.closed = true → c'.rq = []) (hop : s.opened = true) : Inv (setCtx s c') := by
  refine ⟨?_, h.delOK, ?_, ?_⟩
  · intro q hq
    rcases mem_setCtx hq with rfl | hq
    · exact hc
    · exact h.ctxsOK q hq
  · intro ho; simp [setCtx] at ho; simp [hop] at ho
  · intro hcl' q hq
    rcases mem_setCtx hq with rfl | hq
    · exact hcl hcl'
    · exact h.closedRq hcl' q hq

theorem clearReadableIf_inv {s : State} (k : Option Nat) (h : Inv s) : Inv (clearReadableIf s k) := by
  unfold clearReadableIf; split <;> exact h

theorem closePipe_fields (s : State) (p : Nat) :
    (closePipe s p).1.ctxs = s.ctxs ∧ (closePipe s p).1.delivered = s.delivered ∧ (closePipe s p).1.now = s.now ∧
    (closePipe s p).1.opened = s.opened ∧ (closePipe s p).1.closed = s.closed := by
  unfold closePipe
  split
  · simp
  · split <;> simp [setPipe]

theorem closePipe_inv {s : State} (p : Nat) (h : Inv s) : Inv (closePipe s p).1 := by
  obtain ⟨h1, h2, h3, h4, h5⟩ := closePipe_fields s p
  unfold Inv; rw [h1, h2, h3, h4, h5]; exact h

/-! ### receive -/

theorem ctxRecv_inv {s : State} {c : Ctx} (a : Nat) (mode : Mode) (h : Inv s) (hc : c ∈ s.ctxs)
    (hop : s.opened = true) (hncl : s.closed = false) : Inv (ctxRecv s c a mode).1 := by
  have hok := h.ctxsOK c hc
  unfold ctxRecv
  by_cases h0 : (c.surveyId == 0 || decide ((s.now : Int) ≥ c.expire)) = true
  · rw [if_pos h0]; exact h
  · rw [if_neg h0]
    simp only [Bool.or_eq_true, beq_iff_eq, decide_eq_true_eq, not_or] at h0
    obtain ⟨hid, hlt⟩ := h0
    cases hq : c.recvQ with
    | nil =>
      simp only
      split
      · exact h
      · apply inv_setCtx h _ (by simp [hncl]) hop
        refine ⟨by simp [hq], ?_, by simp [hq]⟩
        intro pk hpk
        simp only [List.mem_append, List.mem_singleton] at hpk
        rcases hpk with hpk | rfl
        · exact hok.dl pk hpk
        · simp only
          split
          · omega
          · rename_i hu
            simp only [Bool.or_eq_true, decide_eq_true_eq, not_or, clampBelow_eq] at hu
            omega
    | cons gm rest =>
      simp only
      have hgm : gm.id = c.surveyId := hok.qid gm (by simp [hq])
      have hrq : c.rq = [] := by
        by_cases hr : c.rq = []
        · exact hr
        · have := hok.excl hr; simp [hq] at this
      have hbase : Inv (setCtx s { c with recvQ := rest }) := by
        apply inv_setCtx h _ (by simp [hrq]) hop
        exact ⟨fun m hm => hok.qid m (by simp [hq, hm]), by simp [hrq], by simp [hrq]⟩
      have hbase2 : Inv (if rest.isEmpty = true then clearReadableIf (setCtx s { c with recvQ := rest }) c.key
          else setCtx s { c with recvQ := rest }) := by
        split
        · exact clearReadableIf_inv _ hbase
        · exact hbase
      refine ⟨hbase2.ctxsOK, ?_, hbase2.notOpen, hbase2.closedRq⟩
      intro d hd
      simp only [List.mem_append, List.mem_singleton] at hd
      rcases hd with hd | rfl
      · exact hbase2.delOK d hd
      · refine ⟨hgm, hid, ?_, fun _ => ?_⟩
        · have : (if rest.isEmpty = true then clearReadableIf (setCtx s { c with recvQ := rest }) c.key
              else setCtx s { c with recvQ := rest }).now = s.now := by
            split <;> simp [clearReadableIf, setCtx] <;> split <;> rfl
          simp only [this]; omega
        · have : (if rest.isEmpty = true then clearReadableIf (setCtx s { c with recvQ := rest }) c.key
              else setCtx s { c with recvQ := rest }).now = s.now := by
            split <;> simp [clearReadableIf, setCtx] <;> split <;> rfl
          simp only [this]; omega

/-! ### a response arrives -/

theorem pipeRecv_inv {s : State} (p : Nat) (b : Bytes) (h : Inv s)
    (hop : s.opened = true) (hncl : s.closed = false) : Inv (pipeRecv s p b).1 := by
  unfold pipeRecv
  split
  · exact closePipe_inv p h
  · simp only
    split
    · exact h
    · rename_i c hl
      have hl' : lookup s (beDecode (List.take 4 b)) = some c := hl
      obtain ⟨hc, hne, hid⟩ := lookup_spec hl'
      have hok := h.ctxsOK c hc
      split
      · exact h
      · split
        · rename_i pk rest hrq
          have hq : c.recvQ = [] := hok.excl (by simp [hrq])
          have hbase : Inv (setCtx { s with narrive := s.narrive + 1 } { c with rq := rest }) := by
            apply inv_setCtx (s := { s with narrive := s.narrive + 1 }) h _ (by simp [hncl]) hop
            refine ⟨by simp [hq], fun pk' hpk' => hok.dl pk' (by simp [hrq, hpk']), fun _ => hq⟩
          refine ⟨hbase.ctxsOK, ?_, hbase.notOpen, hbase.closedRq⟩
          intro d hd
          simp only [List.mem_append, List.mem_singleton] at hd
          rcases hd with hd | rfl
          · exact hbase.delOK d hd
          · have hpk := hok.dl pk (by simp [hrq])
            refine ⟨hid.symm, hne, ?_, by simp⟩
            simp only [setCtx]; omega
        · rename_i hrq
          have hbase : Inv (setCtx { s with narrive := s.narrive + 1 }
              { c with recvQ := c.recvQ ++ [⟨s.narrive, p, beDecode (List.take 4 b), ⟨List.take 4 b, List.drop 4 b⟩⟩] }) := by
            apply inv_setCtx (s := { s with narrive := s.narrive + 1 }) h _ (by simp [hrq]) hop
            refine ⟨?_, by simp [hrq], by simp [hrq]⟩
            intro m hm
            simp only [List.mem_append, List.mem_singleton] at hm
            rcases hm with hm | rfl
            · exact hok.qid m hm
            · exact hid.symm
          split <;> exact hbase

/-! ### a new survey -/

theorem abortCtx_ok (now : Nat) (c : Ctx) (err : Nat) : CtxOK now (abortCtx c err).1 :=
  ctxOK_idle _ _ rfl rfl

theorem ctxSend_inv {s : State} {c : Ctx} (a : Nat) (m : WMsg) (h : Inv s) (hop : s.opened = true) :
    Inv (ctxSend s c a m).1 := by
  unfold ctxSend
  simp only
  have h1 : Inv (clearReadableIf (setCtx s (abortCtx c Err.ecanceled).1) c.key) :=
    clearReadableIf_inv _ (inv_setCtx h (abortCtx_ok _ _ _) (fun _ => rfl) hop)
  have hop1 : (clearReadableIf (setCtx s (abortCtx c Err.ecanceled).1) c.key).opened = true := by
    unfold clearReadableIf; split <;> simpa [setCtx] using hop
  split
  · exact h1
  · rename_i id dv _
    apply inv_setCtx (s := { (clearReadableIf (setCtx s (abortCtx c Err.ecanceled).1) c.key) with
        dynVal := dv, issued := _, pipes := _ }) h1 _ (fun _ => rfl) hop1
    exact ctxOK_idle _ _ rfl rfl

/-! ### cancellation and expiry -/

theorem cancelIn_ok {now : Nat} {c : Ctx} (a rv : Nat) (h : CtxOK now c) : CtxOK now (cancelIn c a rv).1 := by
  unfold cancelIn
  split
  · rename_i hany
    have hne : c.rq ≠ [] := by
      intro he; simp [he] at hany
    have hq := h.excl hne
    refine ⟨by simp [hq], ?_, fun _ => hq⟩
    intro pk hpk
    exact h.dl pk (List.mem_filter.mp hpk).1
  · exact h

theorem cancelIn_rq_nil {c : Ctx} (a rv : Nat) (h : c.rq = []) : (cancelIn c a rv).1.rq = [] := by
  unfold cancelIn; simp [h]

theorem cancelAio_inv {s : State} (a rv : Nat) (h : Inv s) (hop : s.opened = true) : Inv (cancelAio s a rv).1 := by
  unfold cancelAio
  split
  · rename_i c hf
    have hc : c ∈ s.ctxs := List.mem_of_find?_eq_some hf
    apply inv_setCtx h (cancelIn_ok a rv (h.ctxsOK c hc)) _ hop
    intro hcl
    exact cancelIn_rq_nil a rv (h.closedRq hcl c hc)
  · exact h

theorem expireCtx_ok {old now : Nat} {c : Ctx} (h : CtxOK old c) : CtxOK now (expireCtx now c).1 := by
  unfold expireCtx
  simp only
  split
  · rename_i hdue
    refine ⟨h.qid, ?_, h.excl⟩
    intro pk hpk
    refine ⟨?_, (h.dl pk hpk).2⟩
    have : pk ∉ c.rq.filter (fun pk => decide (pk.deadline < (now : Int))) := by
      rw [List.isEmpty_iff] at hdue; simp [hdue]
    simp only [List.mem_filter, hpk, true_and, decide_eq_true_eq] at this
    omega
  · rename_i hdue
    have hne : c.rq ≠ [] := by
      intro he; simp [he] at hdue
    have hq := h.excl hne
    refine ⟨by simp [hq], ?_, fun _ => hq⟩
    intro pk hpk
    have hm := List.mem_filter.mp hpk
    refine ⟨?_, (h.dl pk hm.1).2⟩
    have := hm.2
    simp only [Bool.not_eq_true', decide_eq_false_iff_not] at this
    omega

theorem expireCtx_rq_nil {now : Nat} {c : Ctx} (h : c.rq = []) : (expireCtx now c).1.rq = [] := by
  unfold expireCtx; simp [h]

/-- time moves by `ms`, then the expiry thread runs -/
theorem advance_inv {s : State} (ms : Nat) (h : Inv s) : Inv (expire { s with now := s.now + ms }).1 := by
  unfold expire
  refine ⟨?_, h.delOK, ?_, ?_⟩
  · intro q hq
    simp only [List.mem_map] at hq
    obtain ⟨c, hc, rfl⟩ := hq
    exact expireCtx_ok (h.ctxsOK c hc)
  · intro ho
    have := h.notOpen ho
    simp only at this ⊢
    simp [this]
  · intro hcl q hq
    simp only [List.mem_map] at hq
    obtain ⟨c, hc, rfl⟩ := hq
    exact expireCtx_rq_nil (h.closedRq hcl c hc)

/-- the same without the expiry pass, for a socket that is not open (no contexts) or closed
    (nothing parked) -/
theorem advance_idle_inv {s : State} (ms : Nat) (h : Inv s) (hidle : ∀ c ∈ s.ctxs, c.rq = []) :
    Inv { s with now := s.now + ms } := by
  refine ⟨?_, h.delOK, h.notOpen, h.closedRq⟩
  intro c hc
  have hok := h.ctxsOK c hc
  exact ⟨hok.qid, by simp [hidle c hc], hok.excl⟩

/-! ### close -/

theorem foldl_closePipe_fields (ps : List Pipe) (acc : State × List Out) :
    let r := ps.foldl (fun (acc : State × List Out) pp =>
      ((closePipe acc.1 pp.id).1, acc.2 ++ (closePipe acc.1 pp.id).2)) acc
    r.1.ctxs = acc.1.ctxs ∧ r.1.delivered = acc.1.delivered ∧ r.1.now = acc.1.now ∧
    r.1.opened = acc.1.opened ∧ r.1.closed = acc.1.closed := by
  induction ps generalizing acc with
  | nil => simp
  | cons pp rest ih =>
    simp only [List.foldl_cons]
    have := ih ((closePipe acc.1 pp.id).1, acc.2 ++ (closePipe acc.1 pp.id).2)
    obtain ⟨h1, h2, h3, h4, h5⟩ := closePipe_fields acc.1 pp.id
    simp only at this ⊢
    rw [h1, h2, h3, h4, h5] at this
    exact this

theorem closeAll_inv {s : State} (h : Inv s) (hop : s.opened = true) : Inv (closeAll s).1 := by
  unfold closeAll
  simp only
  have hf := foldl_closePipe_fields s.pipes
    ({ s with ctxs := s.ctxs.map fun c => (abortCtx c Err.eclosed).1, readable := false }, [])
  simp only at hf
  obtain ⟨h1, h2, h3, h4, _⟩ := hf
  unfold Inv
  simp only
  rw [h1, h2, h3, h4]
  refine ⟨?_, h.delOK, ?_, ?_⟩
  · intro q hq
    simp only [List.mem_map] at hq
    obtain ⟨c, _, rfl⟩ := hq
    exact abortCtx_ok _ _ _
  · intro ho; simp [hop] at ho
  · intro _ q hq
    simp only [List.mem_map] at hq
    obtain ⟨c, _, rfl⟩ := hq
    rfl

end Nng.Survey
