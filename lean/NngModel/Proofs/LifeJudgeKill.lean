/-
  "The lifecycle judge accepts every trace of the lifecycle model" (C14 / C10), part 3:
  the judge's handlers for `pclosed` / `pev`, and the simulation of `killPipe` / `killPipes`
  (nni_pipe_close followed by pipe_reap): the judge, fed the events of the kill, ends in the state
  related to the model state after the kill.
-/
import NngModel.Proofs.LifeJudgeRel
namespace Nng.LifeModel
open Nng.Life Nng.Generated
open Nng.LifeSpec (J JPipe JEp JSock upd put KU onOut isRace tol)

theorem tol_of_not_race (op : LOp) (h : isRace op = false) : tol op = false := by
  unfold tol; rw [h]; rfl

def jLost (w : Bool) (q : JPipe) : JPipe := { q with lost := true, remWaived := q.remWaived || w }
def jRedial (now : Nat) (x : JEp) : JEp := { x with redialSince := some now, background := true }

theorem onOut_pclosed (op : LOp) (hnr : isRace op = false) (j : J) (p : Nat) (q : JPipe) (ep : JEp)
    (hq : j.pipes.lookup p = some q) (hep : j.eps.lookup q.ep = some ep) :
    onOut op j (.pclosed p) =
      if ep.dialer && !ep.closed && !q.lost then
        { j with pipes := upd j.pipes p (jLost ((j.sock q.sock).mask &&& 4 == 0)), eps := upd j.eps q.ep (jRedial j.now) }
      else { j with pipes := upd j.pipes p (jLost ((j.sock q.sock).mask &&& 4 == 0)) } := by
  simp only [onOut, hq, hep, hnr, tol_of_not_race op hnr, Bool.not_false, Bool.and_true, Bool.or_false]
  rfl

/-- what `pev p k` does to the judge's record of the pipe -/
def jEv (k : PEv) (q : JPipe) : JPipe :=
  { q with evs := q.evs ++ [k], preWait := q.preWait && k != .pre, postWait := q.postWait && k != .post }

theorem onOut_pev (op : LOp) (j : J) (p : Nat) (k : PEv) (q : JPipe) (hq : j.pipes.lookup p = some q)
    (h1 : q.evs.contains k = false) (h2 : q.evs.any (fun e => e.rank ≥ k.rank) = false)
    (h3 : (k != .pre && !q.evs.contains .pre && ((q.preReg || !q.anyReg) && !q.unsure)) = false)
    (h4 : (k == .post && q.closedInPre) = false) (h6 : (k == .rem && q.postWait) = false)
    (h5 : (j.sock q.sock).closedBefore = false) :
    onOut op j (.pev p k) = { j with pipes := upd j.pipes p (jEv k) } := by
  have hneg : ¬ ((p : Int) < 0) := by omega
  simp only [onOut, hneg, if_false, Int.toNat_natCast, hq, h1, h2, h3, h4, h5, h6, Bool.false_eq_true]
  rfl

/-- pipe_reap as the judge sees it -/
theorem reapOne_jp (mask : Nat) (p : Pipe) (hi : PipeInv p) (hr : p.reaped = false) :
    ((reapOne mask p).2 = [.pclosed p.idx] ∧ jp (reapOne mask p).1 = jLost (mask &&& 4 == 0) (jp p)) ∨
    ((reapOne mask p).2 = [.pclosed p.idx, .pev p.idx .rem] ∧
      jp (reapOne mask p).1 = jEv .rem (jLost (mask &&& 4 == 0) (jp p)) ∧
      PEv.rem ∉ p.evs ∧ (∀ e ∈ p.evs, e.rank < 3) ∧ p.last ≠ 0) := by
  have hb := hi.bounded
  unfold reapOne
  rcases runCb_cases mask .rem { p with closed := true } with h | ⟨hlt, hm', h0, h | h⟩
  · left
    simp only [h, Bool.false_eq_true, if_false, List.append_nil, true_and]
    simp [jp, jLost, hr, bne]
  · left
    obtain ⟨h, hz⟩ := h
    have hl : p.last ≠ 0 := by intro h0'; have := h0 h0'; simp at this
    simp only [h, Bool.false_eq_true, if_false, List.append_nil, true_and]
    simp [jp, jLost, hr, hl, bne]
  · right
    obtain ⟨h, hz⟩ := h
    have hl : p.last ≠ 0 := by intro h0'; have := h0 h0'; simp at this
    simp only [rank_rem] at hlt
    have hlt3 : ∀ e ∈ p.evs, e.rank < 3 := fun e he => by have := hb e he; omega
    simp only [h, if_true]
    refine ⟨rfl, ?_, ?_, hlt3, hl⟩
    · simp [jp, jLost, jEv, hr, hl, bne]
    · intro hm; have := hlt3 _ hm; simp at this


theorem killPipe_socks (st : State) (i s : Nat) :
    ((killPipe st i).1.socks s).mask = (st.socks s).mask ∧ ((killPipe st i).1.socks s).cip = (st.socks s).cip ∧
    ((killPipe st i).1.socks s).opened = (st.socks s).opened ∧ ((killPipe st i).1.socks s).closed = (st.socks s).closed := by
  unfold killPipe
  split
  · exact ⟨rfl, rfl, rfl, rfl⟩
  · simp only [setSock]
    split
    · split <;> exact ⟨rfl, rfl, rfl, rfl⟩
    · exact ⟨rfl, rfl, rfl, rfl⟩

theorem SR_congr {k k' : Sock} {o : Option JSock} (h : SR k o) (h1 : k'.opened = k.opened) (h2 : k'.closed = k.closed)
    (h3 : k'.mask = k.mask) (h4 : k'.cip = k.cip) : SR k' o := by
  constructor
  · intro ho; rw [h1]; exact h.unopened ho
  · intro x hx; rw [h1, h2, h3, h4]; exact h.opened x hx

theorem LiveSockOpen_frame {st st' : State} (f : Frame st st') (h : LiveSockOpen st) : LiveSockOpen st' := by
  intro p hp hl
  have := h p (f.2.2.2.2.2 p hp hl) hl
  unfold sockOpen
  rw [(f.2.2.2.1 p.sock).1, (f.2.2.2.1 p.sock).2]
  exact this

/-- the endpoint side of a pipe loss, as the judge sees it -/
theorem ER_lost {S : SelE} {e : Ep} {x : JEp} (now i : Nat) (h : ER S e x) (hinv : EpInv e) (hd : e.dialer = true)
    (hp : e.dPipe = some i) :
    ER S (lostPipe now e) (if x.dialer && !x.closed then jRedial now x else x) := by
  have hb2 := h.bg2 hd (Or.inr (by rw [hp]; rfl))
  have hu := hinv.dpipe_unarmed hp
  have htm : (lostPipe now e).timer = if e.closed then none else some (now, e.curr) := by
    unfold lostPipe; rw [timerStart_timer]
  have hua : (lostPipe now e).userAio = e.userAio := rfl
  have har : (lostPipe now e).armed = e.armed := rfl
  have hcl : (lostPipe now e).cool = e.cool := rfl
  have hcap : (lostPipe now e).cap = e.cap := rfl
  by_cases hc : (x.dialer && !x.closed) = true
  · simp only [hc, if_true]
    have hxc : x.closed = false := by simp at hc; exact hc.2
    have hec : e.closed = false := by
      have := h.closed; rw [hxc] at this
      cases h' : e.closed with
      | false => rfl
      | true => rw [h'] at this; simp at this
    constructor
    · exact h.dialer
    · exact h.sock
    · exact h.closed
    · exact h.cfg
    · exact h.sync
    · intro _ ha; rw [har, hu.1] at ha; cases ha
    · intro _ _; exact ⟨rfl, hb2.2⟩
    · intro _ t ht
      simp only [jRedial, Option.some.injEq] at ht
      subst ht
      exact ⟨e.curr, by rw [htm, hec]; rfl⟩
    · intro hx t ht
      rw [hcl]; exact h.accept hx t ht
  · simp only [hc, Bool.false_eq_true, if_false]
    have hxc : x.closed = true := by
      rw [h.dialer, hd] at hc; simpa using hc
    constructor
    · exact h.dialer
    · exact h.sock
    · exact h.closed
    · exact h.cfg
    · exact h.sync
    · intro _ ha; rw [har, hu.1] at ha; cases ha
    · intro _ _; exact ⟨hb2.1, hb2.2⟩
    · intro hx; rw [hxc] at hx; cases hx
    · intro hx; rw [hxc] at hx; cases hx


theorem PipesRel_kill {st : State} {j : J} (hw : W st) (hr : PipesRel st j) {p : Pipe} (hp : p ∈ st.pipes)
    (p' : Pipe) (hidx : p'.idx = p.idx) (u : JPipe → JPipe) (hu : jp p' = u (jp p)) :
    upd j.pipes p.idx u = (st.pipes.map fun q => if q.idx == p.idx then p' else q).map fun q => (q.idx, jp q) := by
  rw [hr, Nng.LifeSpec.upd_map_key, List.map_map]
  apply List.map_congr_left
  intro q hq
  simp only [Function.comp]
  by_cases h : q.idx = p.idx
  · have : q = p := hw.idxP.unique hq hp h
    subst this
    simp [hidx, hu]
  · have : (q.idx == p.idx) = false := by simpa using h
    simp [h, this]

theorem killPipe_sim (S : SelE) (op : LOp) (hnr : isRace op = false) (st : State) (j : J) (i : Nat) (h : Mid S st j) (hcb : CB j) :
    Mid S (killPipe st i).1 ((killPipe st i).2.foldl (onOut op) j) ∧ SameJ j ((killPipe st i).2.foldl (onOut op) j) := by
  have hW := killPipe_W st i h.w
  have hP := killPipe_inv st i h.pinv
  have hL := LiveSockOpen_frame (killPipe_frame st i) h.lso
  have hSk : SocksRel (killPipe st i).1 j := fun s =>
    SR_congr (h.socks s) (killPipe_socks st i s).2.2.1 (killPipe_socks st i s).2.2.2 (killPipe_socks st i s).1 (killPipe_socks st i s).2.1
  have hnow : (killPipe st i).1.now = st.now := (killPipe_frame st i).1
  revert hW hP hL hSk hnow
  unfold killPipe
  cases hf : st.pipes.find? (fun p => p.idx == i && !p.reaped) with
  | none =>
    intro _ _ _ _ _
    exact ⟨h, SameJ.refl j⟩
  | some p =>
    have hp : p ∈ st.pipes := List.mem_of_find?_eq_some hf
    have hq := List.find?_some hf
    simp only [Bool.and_eq_true, Bool.not_eq_true', beq_iff_eq] at hq
    obtain ⟨hpi, hpr⟩ := hq
    subst hpi
    obtain ⟨e, he, hei⟩ := h.w.idxE.exists (h.w.pipeEp p hp)
    obtain ⟨x, hx, hER⟩ := h.eps.fwd e he
    rw [hei] at hx
    have hso := h.lso p hp hpr
    obtain ⟨hmask, _, hcbf⟩ := sock_open_view h.socks hcb hso
    have hlp := lookup_pipe h.w h.pipes hp
    have hown := h.w.own p hp hpr e he hei
    simp only
    intro hW hP hL hSk hnow
    -- the endpoint side
    have hepM : ∀ e0 ∈ st.eps, e0.idx = p.ep → pipeRemoved st.now p.idx e0 = if e0.dialer then lostPipe st.now e0 else e0 := by
      intro e0 he0 hi0
      have : e0 = e := h.w.idxE.unique he0 he (hi0.trans hei.symm)
      subst this
      unfold pipeRemoved lostPipe
      cases hd : e0.dialer with
      | false => simp
      | true => simp [hown.2 hd]
    have hpc := onOut_pclosed op hnr j p.idx (jp p) x hlp hx
    have hlost : (jp p).lost = false := hpr
    have hjsock : (jp p).sock = p.sock := rfl
    have hjep : (jp p).ep = p.ep := rfl
    rw [hjsock, hjep, hlost, hmask] at hpc
    simp only [Bool.not_false, Bool.and_true] at hpc
    -- the state after `pclosed`
    have hj1 : ∃ j1 : J, onOut op j (LOut.pclosed p.idx) = j1 ∧ j1.now = j.now ∧ j1.socks = j.socks ∧ j1.ctxs = j.ctxs ∧
        j1.pend = j.pend ∧ j1.err10 = j.err10 ∧ j1.err14 = j.err14 ∧
        j1.pipes = upd j.pipes p.idx (jLost ((st.socks p.sock).mask &&& 4 == 0)) ∧
        EpsRel S { st with eps := st.eps.map fun e => if e.idx == p.ep then pipeRemoved st.now p.idx e else e } j1 := by
      by_cases hc : (x.dialer && !x.closed) = true
      · rw [if_pos hc] at hpc
        refine ⟨_, hpc, rfl, rfl, rfl, rfl, rfl, rfl, rfl, ?_⟩
        refine h.eps.upd1 p.ep (pipeRemoved st.now p.idx) (jRedial j.now) rfl rfl ?_ ?_
        · intro y; unfold pipeRemoved; split <;> rfl
        · intro e0 he0 x0 hx0
          refine ⟨fun hi0 => ?_, fun _ => hx0⟩
          have : e0 = e := h.w.idxE.unique he0 he (hi0.trans hei.symm)
          subst this
          rw [hepM e0 he0 hi0]
          have hd : e0.dialer = true := by rw [← hER.dialer]; simp at hc; exact hc.1
          have hx0c : (x0.dialer && !x0.closed) = true := by
            rw [hx0.dialer.trans hER.dialer.symm, hx0.closed.trans hER.closed.symm]; exact hc
          have := ER_lost st.now p.idx hx0 (h.w.epInv e0 he0).1 hd (hown.2 hd)
          rw [hx0c, if_pos rfl] at this
          rw [hd, if_pos rfl, h.now]; exact this
      · rw [if_neg hc] at hpc
        refine ⟨_, hpc, rfl, rfl, rfl, rfl, rfl, rfl, rfl, ?_⟩
        refine h.eps.model1 p.ep (pipeRemoved st.now p.idx) rfl rfl ?_ ?_
        · intro y; unfold pipeRemoved; split <;> rfl
        · intro e0 he0 x0 hx0
          refine ⟨fun hi0 => ?_, fun _ => hx0⟩
          have : e0 = e := h.w.idxE.unique he0 he (hi0.trans hei.symm)
          subst this
          rw [hepM e0 he0 hi0]
          cases hd : e0.dialer with
          | false => simpa using hx0
          | true =>
            have hx0c : (x0.dialer && !x0.closed) = false := by
              rw [hx0.dialer.trans hER.dialer.symm, hx0.closed.trans hER.closed.symm]; simpa using hc
            have := ER_lost st.now p.idx hx0 (h.w.epInv e0 he0).1 hd (hown.2 hd)
            rw [hx0c] at this
            simpa using this
    obtain ⟨j1, hj1e, hn1, hs1, hc1, hp1, he10, he14, hpipes1, heps1⟩ := hj1
    have hinvp := h.pinv p hp
    rcases reapOne_jp (st.socks p.sock).mask p hinvp hpr with ⟨houts, hjp⟩ | ⟨houts, hjp, hrem, hlt3, hl0⟩
    · rw [houts]
      simp only [List.foldl_cons, List.foldl_nil, hj1e]
      refine ⟨⟨hW, hP, hL, hn1.trans (h.now.trans hnow.symm), he14.trans h.e14, he10.trans h.e10, ?_, ?_, ?_⟩,
        hn1, hs1, hc1, hp1, he10⟩
      · intro s; rw [hs1]; exact hSk s
      · exact heps1.congr rfl rfl
      · show j1.pipes = _
        rw [hpipes1]
        exact PipesRel_kill h.w h.pipes hp _ (reapOne_frame _ _).1 _ hjp
    · rw [houts]
      simp only [List.foldl_cons, List.foldl_nil, hj1e]
      have hl1 : j1.pipes.lookup p.idx = some (jLost ((st.socks p.sock).mask &&& 4 == 0) (jp p)) := by
        rw [hpipes1, Nng.LifeSpec.lookup_upd, hlp]; simp
      have hpe := onOut_pev op j1 p.idx .rem _ hl1
        (by
          show p.evs.contains PEv.rem = false
          simpa using hrem)
        (by
          show p.evs.any (fun e => e.rank ≥ PEv.rem.rank) = false
          apply List.any_eq_false.mpr
          intro e he'; have := hlt3 e he'; simp; omega)
        (by
          show (PEv.rem != PEv.pre && !p.evs.contains PEv.pre && ((p.preDue || !(p.last != 0)) && !false)) = false
          cases hpd : p.preDue with
          | false => simp [hl0]
          | true =>
            have := hinvp.pre_due hpd (by omega)
            simp [this])
        (by rfl)
        (by rfl)
        (by
          show (j1.sock p.sock).closedBefore = false
          rw [J.sock_eq, hs1, ← J.sock_eq]; exact hcbf)
      rw [hpe]
      refine ⟨⟨hW, hP, hL, hn1.trans (h.now.trans hnow.symm), he14.trans h.e14, he10.trans h.e10, ?_, ?_, ?_⟩,
        hn1, hs1, hc1, hp1, he10⟩
      · intro s; show SR _ (j1.socks.lookup s); rw [hs1]; exact hSk s
      · exact heps1.congr rfl rfl
      · unfold PipesRel
        simp only
        rw [hpipes1, Nng.LifeSpec.upd_upd]
        exact PipesRel_kill h.w h.pipes hp _ (reapOne_frame _ _).1 _ hjp


/-! ### several kills -/

theorem foldR_acc {α : Type} (f : State → α → R) (l : List α) (st : State) (o : List LOut) :
    l.foldl (fun (acc : R) i => let r := f acc.1 i; (r.1, acc.2 ++ r.2)) (st, o) =
      ((l.foldl (fun (acc : R) i => let r := f acc.1 i; (r.1, acc.2 ++ r.2)) (st, [])).1,
       o ++ (l.foldl (fun (acc : R) i => let r := f acc.1 i; (r.1, acc.2 ++ r.2)) (st, [])).2) := by
  induction l generalizing st o with
  | nil => simp
  | cons i rest ih =>
    simp only [List.foldl_cons, List.nil_append]
    rw [ih (f st i).1 (o ++ (f st i).2), ih (f st i).1 (f st i).2]
    simp

theorem killPipes_nil (st : State) : killPipes st [] = (st, []) := rfl

theorem killPipes_cons (st : State) (i : Nat) (is : List Nat) :
    killPipes st (i :: is) = ((killPipes (killPipe st i).1 is).1, (killPipe st i).2 ++ (killPipes (killPipe st i).1 is).2) := by
  unfold killPipes
  simp only [List.foldl_cons, List.nil_append]
  rw [foldR_acc killPipe is (killPipe st i).1 (killPipe st i).2]

theorem killPipes_sim (S : SelE) (op : LOp) (hnr : isRace op = false) (is : List Nat) (st : State) (j : J) (h : Mid S st j) (hcb : CB j) :
    Mid S (killPipes st is).1 ((killPipes st is).2.foldl (onOut op) j) ∧ SameJ j ((killPipes st is).2.foldl (onOut op) j) := by
  induction is generalizing st j with
  | nil => exact ⟨h, SameJ.refl j⟩
  | cons i rest ih =>
    rw [killPipes_cons]
    simp only [List.foldl_append]
    obtain ⟨h1, s1⟩ := killPipe_sim S op hnr st j i h hcb
    have hcb1 : CB ((killPipe st i).2.foldl (onOut op) j) := by
      intro s x hx; rw [s1.2.1] at hx; exact hcb s x hx
    obtain ⟨h2, s2⟩ := ih _ _ h1 hcb1
    exact ⟨h2, s1.trans s2⟩

end Nng.LifeModel
