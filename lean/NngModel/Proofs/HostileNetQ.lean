/-
  C11T — lemmas about the general SP/UDP endpoint model (Model/HostileNetQ.lean):
  the pipe table (lookup / set), the per-address step, invariants of runs.
-/
import NngModel.Model.HostileNetQ
namespace Nng.Hostile
open Nng

/-! ### the table -/

theorem qLookup_nil (s : Nat) : qLookup [] s = none := rfl

theorem qLookup_cons (e : Nat × QPipe) (l : List (Nat × QPipe)) (s : Nat) :
    qLookup (e :: l) s = if e.1 = s then some e.2 else qLookup l s := by
  unfold qLookup
  by_cases h : e.1 = s
  · simp [List.find?_cons, h]
  · simp [List.find?_cons, h]

theorem qLookup_filter_ne (l : List (Nat × QPipe)) (s a : Nat) (h : a ≠ s) :
    qLookup (l.filter (·.1 != s)) a = qLookup l a := by
  induction l with
  | nil => rfl
  | cons e l ih =>
    by_cases he : e.1 = s
    · have : (e.1 != s) = false := by simp [he]
      rw [List.filter_cons_of_neg (by simp [he]), ih, qLookup_cons]
      have : e.1 ≠ a := by rw [he]; exact fun x => h x.symm
      simp [this]
    · rw [List.filter_cons_of_pos (by simp [he]), qLookup_cons, qLookup_cons, ih]

theorem qLookup_filter_self (l : List (Nat × QPipe)) (s : Nat) :
    qLookup (l.filter (·.1 != s)) s = none := by
  induction l with
  | nil => rfl
  | cons e l ih =>
    by_cases he : e.1 = s
    · rw [List.filter_cons_of_neg (by simp [he]), ih]
    · rw [List.filter_cons_of_pos (by simp [he]), qLookup_cons, ih]; simp [he]

theorem qLookup_qPut_self (l : List (Nat × QPipe)) (s : Nat) (x : QPipe) : qLookup (qPut l s x) s = some x := by
  induction l with
  | nil => simp [qPut, qLookup_cons]
  | cons e l ih =>
    unfold qPut
    by_cases he : e.1 = s
    · simp [he, qLookup_cons]
    · simp [he, qLookup_cons, ih]

theorem qLookup_qPut_ne (l : List (Nat × QPipe)) (s a : Nat) (x : QPipe) (h : a ≠ s) :
    qLookup (qPut l s x) a = qLookup l a := by
  induction l with
  | nil => simp [qPut, qLookup_cons, qLookup_nil]; exact fun x => (h x.symm).elim
  | cons e l ih =>
    unfold qPut
    by_cases he : e.1 = s
    · have : s ≠ a := fun x => h x.symm
      have h2 : e.1 ≠ a := by rw [he]; exact this
      simp [he, qLookup_cons, this]
    · simp [he, qLookup_cons, ih]

theorem qLookup_qSet_self (l : List (Nat × QPipe)) (s : Nat) (v : Option QPipe) : qLookup (qSet l s v) s = v := by
  cases v with
  | none => exact qLookup_filter_self l s
  | some x => exact qLookup_qPut_self l s x

theorem qLookup_qSet_ne (l : List (Nat × QPipe)) (s a : Nat) (v : Option QPipe) (h : a ≠ s) :
    qLookup (qSet l s v) a = qLookup l a := by
  cases v with
  | none => exact qLookup_filter_ne l s a h
  | some x => exact qLookup_qPut_ne l s a x h

/-- writing back what was found changes nothing -/
theorem qPut_same (l : List (Nat × QPipe)) (s : Nat) (x : QPipe) (h : qLookup l s = some x) : qPut l s x = l := by
  induction l with
  | nil => simp [qLookup_nil] at h
  | cons e l ih =>
    unfold qPut
    rw [qLookup_cons] at h
    by_cases he : e.1 = s
    · simp [he] at h
      simp [he]
      rw [← h, ← he]
    · simp [he] at h
      simp [he, ih h]

theorem qLookup_none_filter (l : List (Nat × QPipe)) (s : Nat) (h : qLookup l s = none) : l.filter (·.1 != s) = l := by
  induction l with
  | nil => rfl
  | cons e l ih =>
    rw [qLookup_cons] at h
    by_cases he : e.1 = s
    · simp [he] at h
    · simp [he] at h
      rw [List.filter_cons_of_pos (by simp [he]), ih h]

theorem qPut_none (l : List (Nat × QPipe)) (s : Nat) (x : QPipe) (h : qLookup l s = none) : qPut l s x = l ++ [(s, x)] := by
  induction l with
  | nil => rfl
  | cons e l ih =>
    rw [qLookup_cons] at h
    by_cases he : e.1 = s
    · simp [he] at h
    · simp [he] at h
      unfold qPut
      simp [he, ih h]

theorem qPut_length_some (l : List (Nat × QPipe)) (s : Nat) (x y : QPipe) (h : qLookup l s = some y) :
    (qPut l s x).length = l.length := by
  induction l with
  | nil => simp [qLookup_nil] at h
  | cons e l ih =>
    rw [qLookup_cons] at h
    unfold qPut
    by_cases he : e.1 = s
    · simp [he]
    · simp [he] at h
      simp [he, ih h]

/-- keys of the table -/
def qKeys (l : List (Nat × QPipe)) : List Nat := l.map (·.1)

theorem qLookup_none_iff (l : List (Nat × QPipe)) (s : Nat) : qLookup l s = none ↔ s ∉ qKeys l := by
  induction l with
  | nil => simp [qLookup_nil, qKeys]
  | cons e l ih =>
    rw [qLookup_cons]
    by_cases he : e.1 = s
    · simp [he, qKeys]
    · simp [he, qKeys]
      rw [ih]
      simp [qKeys]
      exact fun _ => fun x => he x.symm

theorem qKeys_filter (l : List (Nat × QPipe)) (s : Nat) : qKeys (l.filter (·.1 != s)) = (qKeys l).filter (· != s) := by
  induction l with
  | nil => rfl
  | cons e l ih =>
    by_cases he : e.1 = s
    · rw [List.filter_cons_of_neg (by simp [he])]
      simp only [qKeys, List.map_cons] at ih ⊢
      rw [List.filter_cons_of_neg (by simp [he]), ih]
    · rw [List.filter_cons_of_pos (by simp [he])]
      simp only [qKeys, List.map_cons] at ih ⊢
      rw [List.filter_cons_of_pos (by simp [he]), ih]

theorem qKeys_qPut_some (l : List (Nat × QPipe)) (s : Nat) (x y : QPipe) (h : qLookup l s = some y) :
    qKeys (qPut l s x) = qKeys l := by
  induction l with
  | nil => simp [qLookup_nil] at h
  | cons e l ih =>
    rw [qLookup_cons] at h
    unfold qPut
    by_cases he : e.1 = s
    · simp [he, qKeys]
    · simp [he] at h
      have := ih h
      simp [he, qKeys] at this ⊢
      exact this

theorem qKeys_nodup_qSet (l : List (Nat × QPipe)) (s : Nat) (v : Option QPipe) (h : (qKeys l).Nodup) :
    (qKeys (qSet l s v)).Nodup := by
  cases v with
  | none =>
    show (qKeys (l.filter _)).Nodup
    rw [qKeys_filter]
    exact h.filter _
  | some x =>
    show (qKeys (qPut l s x)).Nodup
    cases hl : qLookup l s with
    | none =>
      rw [qPut_none l s x hl]
      have hn := (qLookup_none_iff l s).1 hl
      simp only [qKeys, List.map_append, List.map_cons, List.map_nil] at hn ⊢
      rw [List.nodup_append]
      refine ⟨h, by simp, ?_⟩
      intro a ha b hb
      simp at hb
      rw [hb]
      exact fun e => hn (e ▸ ha)
    | some y => rw [qKeys_qPut_some l s x y hl]; exact h

theorem qSet_length_le (l : List (Nat × QPipe)) (s : Nat) (v : Option QPipe) : (qSet l s v).length ≤ l.length + 1 := by
  cases v with
  | none => exact Nat.le_succ_of_le (List.length_filter_le _ _)
  | some x =>
    show (qPut l s x).length ≤ _
    cases hl : qLookup l s with
    | none => rw [qPut_none l s x hl]; simp
    | some y => rw [qPut_length_some l s x y hl]; omega

/-- the table only grows when an address without a pipe gets one -/
theorem qSet_length_le_of_some (l : List (Nat × QPipe)) (s : Nat) (v : Option QPipe) (y : QPipe) (h : qLookup l s = some y) :
    (qSet l s v).length ≤ l.length := by
  cases v with
  | none => exact List.length_filter_le _ _
  | some x => show (qPut l s x).length ≤ _; rw [qPut_length_some l s x y h]; omega

theorem qSet_none_of_none (l : List (Nat × QPipe)) (s : Nat) (h : qLookup l s = none) : qSet l s none = l :=
  qLookup_none_filter l s h

theorem mem_of_qLookup (l : List (Nat × QPipe)) (s : Nat) (x : QPipe) (h : qLookup l s = some x) : (s, x) ∈ l := by
  induction l with
  | nil => simp [qLookup_nil] at h
  | cons e l ih =>
    rw [qLookup_cons] at h
    by_cases he : e.1 = s
    · simp [he] at h
      have : e = (s, x) := by rw [← he, ← h]
      simp [this]
    · simp [he] at h
      exact List.mem_cons_of_mem _ (ih h)

theorem qLookup_of_mem (l : List (Nat × QPipe)) (s : Nat) (x : QPipe) (hn : (qKeys l).Nodup) (h : (s, x) ∈ l) :
    qLookup l s = some x := by
  induction l with
  | nil => simp at h
  | cons e l ih =>
    rw [qLookup_cons]
    simp only [qKeys, List.map_cons, List.nodup_cons] at hn
    rcases List.mem_cons.1 h with h | h
    · subst h; simp
    · have : e.1 ≠ s := by
        intro he
        apply hn.1
        rw [he]
        exact List.mem_map.2 ⟨(s, x), h, rfl⟩
      simp [this]
      exact ih hn.2 h


/-! ### one pipe -/

structure PipeOk (c : QCfg) (p : QPipe) : Prop where
  qlen : p.rxq.length ≤ c.qcap
  small : ∀ m ∈ p.rxq, m.length ≤ c.rcvmax
  noaio : p.closed = true → p.aios = 0

def OptOk (c : QCfg) : Option QPipe → Prop
  | none => True
  | some p => PipeOk c p

def rxqOf : Option QPipe → List Bytes
  | none => []
  | some p => p.rxq

/-- the payload a datagram event put into the queue of its pipe -/
def accOf (o : QOut) : List Bytes :=
  match o.act with
  | .data pl => [pl]
  | _ => []

theorem udpRxCb_data_len (d : Bytes) (known : Bool) (rcvmax : Nat) (pl : Bytes) (h : udpRxCb d known rcvmax = .data pl) :
    pl.length ≤ rcvmax ∧ known = true := by
  simp only [udpRxCb] at h
  by_cases h0 : d.length ≥ udpHdrLen ∧ (d.getD 0 0).toNat = Generated.c11UdpVersion
  · rw [if_pos h0] at h
    by_cases h1 : (d.getD 1 0).toNat = Generated.c11UdpOpcodes.getD 0 0
    · rw [if_pos h1] at h
      unfold udpRecvData at h
      cases known with
      | false => simp at h
      | true =>
        simp only [Bool.not_true, Bool.false_eq_true, ↓reduceIte] at h
        by_cases h2 : le16 d 4 > (d.drop udpHdrLen).length ∨ le16 d 4 > rcvmax
        · rw [if_pos h2] at h; cases h
        · rw [if_neg h2] at h
          cases h
          refine ⟨?_, rfl⟩
          simp only [List.length_take]
          omega
    · rw [if_neg h1] at h
      split at h
      · cases h
      · split at h
        · cases h
        · split at h <;> cases h
  · rw [if_neg h0] at h; cases h

/-- an address without a pipe never gets DATA accepted, a length complaint or a pipe-level answer -/
theorem udpRxCb_unknown (d : Bytes) (rcvmax : Nat) :
    (∀ pl, udpRxCb d false rcvmax ≠ .data pl) ∧ udpRxCb d false rcvmax ≠ .discMsgsize := by
  constructor
  · intro pl h
    have := (udpRxCb_data_len d false rcvmax pl h).2
    cases this
  · intro h
    simp only [udpRxCb] at h
    split at h
    · split at h
      · simp [udpRecvData] at h
      · split at h
        · cases h
        · split at h
          · cases h
          · split at h <;> cases h
    · cases h

theorem qSendDisc_ok (c : QCfg) (p : QPipe) (r : Nat) (o : QOut) (h : PipeOk c p) : PipeOk c (qSendDisc p r o).1 := by
  unfold qSendDisc
  by_cases hc : p.closed = true
  · rw [if_pos hc]; exact h
  · rw [if_neg hc]; exact ⟨h.qlen, h.small, fun _ => rfl⟩

theorem qSendDisc_rxq (p : QPipe) (r : Nat) (o : QOut) : (qSendDisc p r o).1.rxq = p.rxq := by
  unfold qSendDisc; split <;> rfl

theorem qSendDisc_peer (p : QPipe) (r : Nat) (o : QOut) : (qSendDisc p r o).1.peer = p.peer := by
  unfold qSendDisc; split <;> rfl

theorem qSendDisc_handed (p : QPipe) (r : Nat) (o : QOut) : (qSendDisc p r o).2.handed = o.handed := by
  unfold qSendDisc; split <;> rfl

theorem qSendDisc_act (p : QPipe) (r : Nat) (o : QOut) : (qSendDisc p r o).2.act = o.act := by
  unfold qSendDisc; split <;> rfl

theorem qSendDisc_added (p : QPipe) (r : Nat) (o : QOut) : (qSendDisc p r o).2.added = o.added := by
  unfold qSendDisc; split <;> rfl

/-- the queue after the put, before anything is handed over -/
def qAfterPut (c : QCfg) (p : QPipe) (pl : Bytes) : List Bytes :=
  (if decide (p.rxq.length ≥ c.qcap) then p.rxq.drop 1 else p.rxq) ++ [pl]

theorem qRecvData_split (c : QCfg) (p : QPipe) (pl : Bytes) :
    (qRecvData c p pl).2.handed ++ (qRecvData c p pl).1.rxq = qAfterPut c p pl := by
  simp only [qRecvData, qAfterPut]
  exact List.take_append_drop _ _

theorem qAfterPut_length (c : QCfg) (p : QPipe) (pl : Bytes) (hq : 1 ≤ c.qcap) (h : p.rxq.length ≤ c.qcap) :
    (qAfterPut c p pl).length ≤ c.qcap := by
  unfold qAfterPut
  by_cases hf : p.rxq.length ≥ c.qcap
  · simp [hf]; omega
  · simp [hf]; omega

theorem qAfterPut_mem (c : QCfg) (p : QPipe) (pl m : Bytes) (h : m ∈ qAfterPut c p pl) : m ∈ p.rxq ∨ m = pl := by
  unfold qAfterPut at h
  rcases List.mem_append.1 h with h | h
  · left
    split at h
    · exact List.mem_of_mem_drop h
    · exact h
  · right; simpa using h

theorem qRecvData_ok (c : QCfg) (p : QPipe) (pl : Bytes) (hq : 1 ≤ c.qcap) (hl : pl.length ≤ c.rcvmax) (h : PipeOk c p) :
    PipeOk c (qRecvData c p pl).1 ∧ ∀ m ∈ (qRecvData c p pl).2.handed, m.length ≤ c.rcvmax := by
  have hs := qRecvData_split c p pl
  have hlen := qAfterPut_length c p pl hq h.qlen
  have hall : ∀ m ∈ qAfterPut c p pl, m.length ≤ c.rcvmax := by
    intro m hm
    rcases qAfterPut_mem c p pl m hm with r | r
    · exact h.small m r
    · rw [r]; exact hl
  refine ⟨⟨?_, ?_, ?_⟩, ?_⟩
  · have : ((qRecvData c p pl).2.handed ++ (qRecvData c p pl).1.rxq).length ≤ c.qcap := by rw [hs]; exact hlen
    simp at this; omega
  · intro m hm; apply hall; rw [← hs]; exact List.mem_append_right _ hm
  · intro hc
    have h0 := h.noaio hc
    simp only [qRecvData, h0]
    simp
  · intro m hm; apply hall; rw [← hs]; exact List.mem_append_left _ hm

theorem qAfterPut_sublist (c : QCfg) (p : QPipe) (pl : Bytes) : (qAfterPut c p pl).Sublist (p.rxq ++ [pl]) := by
  unfold qAfterPut
  apply List.Sublist.append_right
  split
  · exact List.drop_sublist _ _
  · exact List.Sublist.refl _


theorem optOk_some {c : QCfg} {p : QPipe} : OptOk c (some p) ↔ PipeOk c p := Iff.rfl

theorem qCreqKnown_ok (c : QCfg) (x : QPipe) (act : UdpAct) (t rf : Nat) (h : PipeOk c x) :
    OptOk c (qCreqKnown x act t rf).1 ∧ (qCreqKnown x act t rf).2.handed = [] := by
  unfold qCreqKnown
  split
  · exact ⟨qSendDisc_ok c x _ _ h, by simp [qSendDisc_handed]⟩
  · split
    · exact ⟨qSendDisc_ok c x _ _ h, by simp [qSendDisc_handed]⟩
    · exact ⟨h, rfl⟩

theorem qCreqNew_ok (c : QCfg) (lim : Bool) (act : UdpAct) (t rf : Nat) :
    OptOk c (qCreqNew lim act t rf).1 ∧ (qCreqNew lim act t rf).2.handed = [] := by
  unfold qCreqNew
  split
  · exact ⟨trivial, rfl⟩
  · split
    · exact ⟨trivial, rfl⟩
    · exact ⟨⟨by simp, by simp, by simp⟩, rfl⟩

theorem qCackKnown_ok (c : QCfg) (x : QPipe) (act : UdpAct) (t rf : Nat) (h : PipeOk c x) :
    OptOk c (qCackKnown x act t rf).1 ∧ (qCackKnown x act t rf).2.handed = [] := by
  unfold qCackKnown
  split
  · exact ⟨h, rfl⟩
  · split
    · exact ⟨qSendDisc_ok c x _ _ h, by simp [qSendDisc_handed]⟩
    · split
      · exact ⟨qSendDisc_ok c x _ _ h, by simp [qSendDisc_handed]⟩
      · exact ⟨h, rfl⟩

theorem qOnAct_ok (c : QCfg) (lim : Bool) (act : UdpAct) (p : Option QPipe) (hq : 1 ≤ c.qcap) (h : OptOk c p)
    (hact : ∀ pl, act = .data pl → pl.length ≤ c.rcvmax) :
    OptOk c (qOnAct c lim act p).1 ∧ ∀ m ∈ (qOnAct c lim act p).2.handed, m.length ≤ c.rcvmax := by
  cases act <;> cases p <;> simp only [qOnAct]
  all_goals first
    | exact ⟨h, by simp⟩
    | exact ⟨trivial, by simp⟩
    | skip
  · rename_i pl x; exact qRecvData_ok c x pl hq (hact pl rfl) h
  · rename_i x; exact ⟨qSendDisc_ok c x _ _ h, by simp [qSendDisc_handed]⟩
  · rename_i t rm rf
    have := qCreqNew_ok c lim (.creq t rm rf) t rf
    exact ⟨this.1, by rw [this.2]; simp⟩
  · rename_i t rm rf x
    have := qCreqKnown_ok c x (.creq t rm rf) t rf h
    exact ⟨this.1, by rw [this.2]; simp⟩
  · rename_i t rm rf x
    have := qCackKnown_ok c x (.cack t rm rf) t rf h
    exact ⟨this.1, by rw [this.2]; simp⟩
  · rename_i r x
    have hx : PipeOk c x := h
    exact ⟨⟨hx.qlen, hx.small, fun _ => rfl⟩, by simp⟩

theorem qDgram_ok (c : QCfg) (lim : Bool) (p : Option QPipe) (d : Bytes) (hq : 1 ≤ c.qcap) (h : OptOk c p) :
    OptOk c (qDgram c lim p d).1 ∧ ∀ m ∈ (qDgram c lim p d).2.handed, m.length ≤ c.rcvmax :=
  qOnAct_ok c lim _ p hq h fun pl hp => (udpRxCb_data_len _ _ _ _ hp).1


theorem p1Step_ok (c : QCfg) (lim : Bool) (p : Option QPipe) (e : QEv) (hq : 1 ≤ c.qcap) (h : OptOk c p) :
    OptOk c (p1Step c lim p e).1 ∧ ∀ m ∈ (p1Step c lim p e).2.handed, m.length ≤ c.rcvmax := by
  cases e with
  | dgram d => exact qDgram_ok c lim p d hq h
  | recv =>
    cases p with
    | none => exact ⟨trivial, by simp [p1Step, qRecv]⟩
    | some x =>
      have hx : PipeOk c x := h
      simp only [p1Step, qRecv]
      split
      · exact ⟨h, by simp⟩
      · split
        · refine ⟨⟨?_, ?_, ?_⟩, ?_⟩
          · simp; have := hx.qlen; omega
          · intro m hm; exact hx.small m (List.mem_of_mem_drop hm)
          · exact hx.noaio
          · intro m hm; exact hx.small m (List.mem_of_mem_take hm)
        · refine ⟨⟨hx.qlen, hx.small, ?_⟩, by simp⟩
          intro hc; rename_i h1 _; exact absurd hc h1
  | close =>
    cases p with
    | none => exact ⟨trivial, by simp [p1Step, qClose]⟩
    | some x => exact ⟨trivial, by simp [p1Step, qClose]⟩
  | timeout =>
    cases p with
    | none => exact ⟨trivial, by simp [p1Step, qTimeout]⟩
    | some x => exact ⟨qSendDisc_ok c x _ _ h, by simp [p1Step, qTimeout, qSendDisc_handed]⟩

/-! #### FIFO: what is handed over or still queued was queued before or has just been accepted, in that order -/

theorem qCreqKnown_rxq (x : QPipe) (act : UdpAct) (t rf : Nat) :
    rxqOf (qCreqKnown x act t rf).1 = x.rxq ∧ (qCreqKnown x act t rf).2.handed = [] ∧ (qCreqKnown x act t rf).2.act = act := by
  unfold qCreqKnown
  split
  · simp [rxqOf, qSendDisc_rxq, qSendDisc_handed, qSendDisc_act]
  · split
    · simp [rxqOf, qSendDisc_rxq, qSendDisc_handed, qSendDisc_act]
    · simp [rxqOf]

theorem qCackKnown_rxq (x : QPipe) (act : UdpAct) (t rf : Nat) :
    rxqOf (qCackKnown x act t rf).1 = x.rxq ∧ (qCackKnown x act t rf).2.handed = [] ∧ (qCackKnown x act t rf).2.act = act := by
  unfold qCackKnown
  split
  · simp [rxqOf]
  · split
    · simp [rxqOf, qSendDisc_rxq, qSendDisc_handed, qSendDisc_act]
    · split
      · simp [rxqOf, qSendDisc_rxq, qSendDisc_handed, qSendDisc_act]
      · simp [rxqOf]

theorem qCreqNew_rxq (lim : Bool) (act : UdpAct) (t rf : Nat) :
    rxqOf (qCreqNew lim act t rf).1 = [] ∧ (qCreqNew lim act t rf).2.handed = [] ∧ (qCreqNew lim act t rf).2.act = act := by
  unfold qCreqNew
  split
  · simp [rxqOf]
  · split <;> simp [rxqOf]

/-- exact FIFO law of one event -/
theorem p1Step_fifo (c : QCfg) (lim : Bool) (p : Option QPipe) (e : QEv) :
    ((p1Step c lim p e).2.handed ++ rxqOf (p1Step c lim p e).1).Sublist (rxqOf p ++ accOf (p1Step c lim p e).2) := by
  cases e with
  | dgram d =>
    simp only [p1Step, qDgram]
    generalize udpRxCb d p.isSome c.rcvmax = act
    cases act <;> cases p <;> simp only [qOnAct]
    all_goals first
      | (simp [rxqOf, accOf, qSendDisc_rxq, qSendDisc_handed, qSendDisc_act]; done)
      | skip
    · rename_i pl x
      show ((qRecvData c x pl).2.handed ++ (qRecvData c x pl).1.rxq).Sublist (x.rxq ++ accOf (qRecvData c x pl).2)
      rw [qRecvData_split]
      exact qAfterPut_sublist c x pl
    · rename_i t rm rf
      have := qCreqNew_rxq lim (.creq t rm rf) t rf
      rw [this.2.1, this.1]; simp [rxqOf]
    · rename_i t rm rf x
      have := qCreqKnown_rxq x (.creq t rm rf) t rf
      rw [this.2.1, this.1]; simp [rxqOf]
    · rename_i t rm rf x
      have := qCackKnown_rxq x (.cack t rm rf) t rf
      rw [this.2.1, this.1]; simp [rxqOf]
  | recv =>
    cases p with
    | none => simp [p1Step, qRecv, rxqOf, accOf]
    | some x =>
      simp only [p1Step, qRecv]
      split
      · simp [rxqOf, accOf]
      · split
        · have := List.take_append_drop 1 x.rxq
          simp only [rxqOf, accOf, List.append_nil]
          rw [this]; exact List.Sublist.refl _
        · simp [rxqOf, accOf]
  | close =>
    cases p with
    | none => simp [p1Step, qClose, rxqOf, accOf]
    | some x => simp [p1Step, qClose, rxqOf, accOf]
  | timeout =>
    cases p with
    | none => simp [p1Step, qTimeout, rxqOf, accOf]
    | some x => simp [p1Step, qTimeout, rxqOf, accOf, qSendDisc_rxq, qSendDisc_handed, qSendDisc_act]


/-- a pipe appears only through udp_recv_creq's new-sender branch, and only below the peer limit -/
theorem p1Step_none_some (c : QCfg) (lim : Bool) (e : QEv) (y : QPipe) (h : (p1Step c lim none e).1 = some y) :
    lim = false ∧ (p1Step c lim none e).2.added = true ∧ y.rxq = [] ∧ y.closed = false ∧ y.aios = 0 ∧
      ∃ d t rm rf, e = .dgram d ∧ udpRxCb d false c.rcvmax = .creq t rm rf ∧ rf ≠ 0 ∧ y.peer = t := by
  cases e with
  | dgram d =>
    simp only [p1Step, qDgram] at h ⊢
    generalize hact : udpRxCb d (none : Option QPipe).isSome c.rcvmax = act at h ⊢
    cases act <;> simp only [qOnAct] at h ⊢ <;> try (cases h; done)
    rename_i t rm rf
    unfold qCreqNew at h ⊢
    cases lim with
    | true => simp at h
    | false =>
      by_cases hrf : rf = 0
      · simp [hrf] at h
      · simp [hrf] at h ⊢
        subst h
        exact ⟨rfl, rfl, rfl, t, rm, rf, hact, hrf, rfl⟩
  | recv => simp [p1Step, qRecv] at h
  | close => simp [p1Step, qClose] at h
  | timeout => simp [p1Step, qTimeout] at h

/-! ### the endpoint -/

structure EpOk (ep : QEp) : Prop where
  pipes : ∀ s x, qLookup ep.pipes s = some x → PipeOk ep.cfg x
  qcap : 1 ≤ ep.cfg.qcap

theorem qStep_cfg (ep : QEp) (s : Nat) (e : QEv) : (qStep ep s e).1.cfg = ep.cfg := rfl
theorem qStep_others (ep : QEp) (s : Nat) (e : QEv) : (qStep ep s e).1.others = ep.others := rfl

theorem qStep_out (ep : QEp) (s : Nat) (e : QEv) :
    (qStep ep s e).2 = (p1Step ep.cfg ep.limit (qLookup ep.pipes s) e).2 := rfl

theorem qStep_lookup_self (ep : QEp) (s : Nat) (e : QEv) :
    qLookup (qStep ep s e).1.pipes s = (p1Step ep.cfg ep.limit (qLookup ep.pipes s) e).1 :=
  qLookup_qSet_self _ _ _

/-- FRAME: an event of one address leaves the pipe of every other address alone -/
theorem qStep_lookup_ne (ep : QEp) (s a : Nat) (e : QEv) (h : a ≠ s) :
    qLookup (qStep ep s e).1.pipes a = qLookup ep.pipes a :=
  qLookup_qSet_ne _ _ _ _ h

theorem optOk_of_lookup (ep : QEp) (h : EpOk ep) (s : Nat) : OptOk ep.cfg (qLookup ep.pipes s) := by
  cases hl : qLookup ep.pipes s with
  | none => trivial
  | some x => exact h.pipes s x hl

theorem qStep_ok (ep : QEp) (s : Nat) (e : QEv) (h : EpOk ep) :
    EpOk (qStep ep s e).1 ∧ ∀ m ∈ (qStep ep s e).2.handed, m.length ≤ ep.cfg.rcvmax := by
  have h1 := p1Step_ok ep.cfg ep.limit (qLookup ep.pipes s) e h.qcap (optOk_of_lookup ep h s)
  refine ⟨⟨?_, h.qcap⟩, h1.2⟩
  intro a x hx
  by_cases ha : a = s
  · subst ha
    rw [qStep_lookup_self] at hx
    have := h1.1
    rw [hx] at this
    exact this
  · rw [qStep_lookup_ne ep s a e ha] at hx
    exact h.pipes a x hx

theorem qStep_nodup (ep : QEp) (s : Nat) (e : QEv) (h : (qKeys ep.pipes).Nodup) : (qKeys (qStep ep s e).1.pipes).Nodup :=
  qKeys_nodup_qSet _ _ _ h

theorem qFinal_nodup (evs : List (Nat × QEv)) : ∀ (ep : QEp), (qKeys ep.pipes).Nodup → (qKeys (qFinal ep evs).pipes).Nodup := by
  induction evs with
  | nil => intro ep h; exact h
  | cons ev rest ih => intro ep h; obtain ⟨s, e⟩ := ev; exact ih _ (qStep_nodup ep s e h)

theorem qFinal_ok (evs : List (Nat × QEv)) : ∀ (ep : QEp), EpOk ep → EpOk (qFinal ep evs) := by
  induction evs with
  | nil => intro ep h; exact h
  | cons ev rest ih =>
    intro ep h
    obtain ⟨s, e⟩ := ev
    exact ih _ (qStep_ok ep s e h).1

theorem qFinal_cfg (evs : List (Nat × QEv)) : ∀ (ep : QEp), (qFinal ep evs).cfg = ep.cfg := by
  induction evs with
  | nil => intro ep; rfl
  | cons ev rest ih => intro ep; obtain ⟨s, e⟩ := ev; exact ih _

theorem qFinal_others (evs : List (Nat × QEv)) : ∀ (ep : QEp), (qFinal ep evs).others = ep.others := by
  induction evs with
  | nil => intro ep; rfl
  | cons ev rest ih => intro ep; obtain ⟨s, e⟩ := ev; exact ih _

theorem qRun_handed_small (evs : List (Nat × QEv)) : ∀ (ep : QEp), EpOk ep →
    ∀ o ∈ qRun ep evs, ∀ m ∈ o.2.handed, m.length ≤ ep.cfg.rcvmax := by
  induction evs with
  | nil => intro ep _ o ho; simp [qRun] at ho
  | cons ev rest ih =>
    intro ep h o ho
    obtain ⟨s, e⟩ := ev
    simp only [qRun, List.mem_cons] at ho
    rcases ho with ho | ho
    · subst ho; exact (qStep_ok ep s e h).2
    · have := ih _ (qStep_ok ep s e h).1 o ho
      simpa [qStep_cfg] using this

/-- the table grows by at most one pipe per event, and never at or above the peer limit -/
theorem qStep_count (ep : QEp) (s : Nat) (e : QEv) :
    (qStep ep s e).1.pipes.length ≤ ep.pipes.length + 1 ∧
    (ep.limit = true → (qStep ep s e).1.pipes.length ≤ ep.pipes.length) := by
  refine ⟨qSet_length_le _ _ _, fun hlim => ?_⟩
  cases hl : qLookup ep.pipes s with
  | some y => exact qSet_length_le_of_some _ _ _ y hl
  | none =>
    show (qSet ep.pipes s (p1Step ep.cfg ep.limit (qLookup ep.pipes s) e).1).length ≤ _
    rw [hl]
    cases hr : (p1Step ep.cfg ep.limit none e).1 with
    | none => rw [qSet_none_of_none _ _ hl]; omega
    | some y =>
      have := (p1Step_none_some _ _ _ _ hr).1
      rw [hlim] at this; cases this

theorem qStep_peerCount_bound (ep : QEp) (s : Nat) (e : QEv) (B : Nat) (hm : ep.cfg.maxPeers ≠ 0)
    (hB : ep.cfg.maxPeers ≤ B) (h : ep.peerCount ≤ B) : (qStep ep s e).1.peerCount ≤ B := by
  have hc := qStep_count ep s e
  unfold QEp.peerCount at h ⊢
  rw [qStep_others]
  by_cases hl : ep.limit = true
  · have := hc.2 hl; omega
  · have : ¬ (ep.cfg.maxPeers ≠ 0 ∧ ep.peerCount ≥ ep.cfg.maxPeers) := by
      simpa [QEp.limit] using hl
    have h2 : ep.peerCount < ep.cfg.maxPeers := by
      by_cases h3 : ep.peerCount ≥ ep.cfg.maxPeers
      · exact absurd ⟨hm, h3⟩ this
      · omega
    unfold QEp.peerCount at h2
    have := hc.1; omega

theorem qFinal_peerCount_bound (evs : List (Nat × QEv)) : ∀ (ep : QEp) (B : Nat), ep.cfg.maxPeers ≠ 0 →
    ep.cfg.maxPeers ≤ B → ep.peerCount ≤ B → (qFinal ep evs).peerCount ≤ B := by
  induction evs with
  | nil => intro ep B _ _ h; exact h
  | cons ev rest ih =>
    intro ep B hm hB h
    obtain ⟨s, e⟩ := ev
    exact ih _ B hm hB (qStep_peerCount_bound ep s e B hm hB h)

theorem qFinal_peerCount_growth (evs : List (Nat × QEv)) : ∀ (ep : QEp), (qFinal ep evs).peerCount ≤ ep.peerCount + evs.length := by
  induction evs with
  | nil => intro ep; simp [qFinal]
  | cons ev rest ih =>
    intro ep
    obtain ⟨s, e⟩ := ev
    have h1 := ih (qStep ep s e).1
    have h2 := (qStep_count ep s e).1
    simp only [qFinal, List.length_cons]
    unfold QEp.peerCount at h1 ⊢
    rw [qStep_others] at h1
    omega

end Nng.Hostile
