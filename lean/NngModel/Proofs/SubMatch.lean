/- C05: topic matching of sub.c (length test + memcmp) is list-prefix matching -/
import NngModel.Model.Sub
import NngModel.Spec.PubSub
namespace Nng.Sub
open Nng Nng.Proto

theorem memcmpEq_prefix : ∀ (t body : Bytes), memcmpEq t.length t body = true ↔ t <+: body
  | [], body => by simp [memcmpEq]
  | a :: as, [] => by simp [memcmpEq]
  | a :: as, b :: bs => by
    have ih := memcmpEq_prefix as bs
    simp only [List.length_cons, memcmpEq, Bool.and_eq_true, beq_iff_eq, ih, List.cons_prefix_cons]

theorem prefix_length_le {t body : Bytes} (h : t <+: body) : t.length ≤ body.length := h.length_le

/-- one topic: the C test (length, empty shortcut, memcmp) is the prefix relation -/
theorem topicMatches_iff (t body : Bytes) : topicMatches t body = true ↔ t <+: body := by
  unfold topicMatches
  by_cases h1 : body.length < t.length
  · rw [if_pos h1]
    constructor
    · intro h; cases h
    · intro h; have := h.length_le; omega
  · rw [if_neg h1]
    by_cases h2 : (t.length == 0) = true
    · rw [if_pos h2]
      have : t = [] := by
        cases t with
        | nil => rfl
        | cons a as => simp at h2
      subst this; simp
    · rw [if_neg h2]; exact memcmpEq_prefix t body

/-- T1: sub0_matches ⇔ some topic is a prefix of the body -/
theorem subMatches_iff (ts : List Bytes) (body : Bytes) :
    subMatches ts body = true ↔ ∃ t ∈ ts, t <+: body := by
  unfold subMatches
  rw [List.any_eq_true]
  constructor
  · rintro ⟨t, ht, hm⟩; exact ⟨t, ht, (topicMatches_iff t body).1 hm⟩
  · rintro ⟨t, ht, hm⟩; exact ⟨t, ht, (topicMatches_iff t body).2 hm⟩

theorem isPrefixOf_iff (t body : Bytes) : t.isPrefixOf body = true ↔ t <+: body := by
  simp [List.isPrefixOf_iff_prefix]

/-- the model's matcher and the judge's matcher are the same function -/
theorem subMatches_eq_prefixMatch (ts : List Bytes) (body : Bytes) :
    subMatches ts body = Nng.PubSubSpec.prefixMatch ts body := by
  rw [Bool.eq_iff_iff, subMatches_iff]
  unfold Nng.PubSubSpec.prefixMatch
  rw [List.any_eq_true]
  constructor
  · rintro ⟨t, ht, hm⟩; exact ⟨t, ht, (isPrefixOf_iff t body).2 hm⟩
  · rintro ⟨t, ht, hm⟩; exact ⟨t, ht, (isPrefixOf_iff t body).1 hm⟩

theorem memcmpEq_eq : ∀ (t u : Bytes), t.length = u.length → (memcmpEq u.length t u = true ↔ t = u)
  | [], [], _ => by simp [memcmpEq]
  | [], _ :: _, h => by simp at h
  | _ :: _, [], h => by simp at h
  | a :: as, b :: bs, h => by
    have ih := memcmpEq_eq as bs (by simpa using h)
    simp only [List.length_cons, memcmpEq, Bool.and_eq_true, beq_iff_eq, ih, List.cons.injEq]

/-- the comparison of subscribe / unsubscribe is equality of byte strings -/
theorem topicEq_iff (t u : Bytes) : topicEq t u = true ↔ t = u := by
  unfold topicEq
  by_cases h : t.length = u.length
  · have : (t.length != u.length) = false := by simp [h]
    rw [this]; simp only [Bool.false_eq_true, if_false]; exact memcmpEq_eq t u h
  · have : (t.length != u.length) = true := by simp [h]
    rw [this]; simp only [if_true]
    constructor
    · intro h'; cases h'
    · intro h'; subst h'; exact absurd rfl h

end Nng.Sub
