/-
  A sixth invariant of the REP model: the socket's receive queue `recvq` lists exactly contexts with a
  parked receive, each once; before the socket is opened nothing has happened to context 0.
-/
import NngModel.Proofs.RepJudgeInv
namespace Nng.RepProofs
open Nng Nng.Proto Nng.Rep

structure Inv6 (s : State) : Prop where
  rq : ∀ k ∈ s.recvq, (s.ctx k).raio.isSome = true
  nd : s.recvq.Nodup
  un : s.opened = false → s.recvq = [] ∧ s.ctx 0 = {}

theorem inv6_init : Inv6 ({} : State) := by
  refine ⟨?_, ?_, ?_⟩
  · intro k hk; cases hk
  · exact List.nodup_nil
  · intro _; exact ⟨rfl, rfl⟩

/-- the two clauses of `Inv6` that matter once the socket is open -/
def RQ (s : State) : Prop := (∀ k ∈ s.recvq, (s.ctx k).raio.isSome = true) ∧ s.recvq.Nodup

/-- `s'` has the receive queue and parked receives of `s` -/
def Fr6 (s s' : State) : Prop := s'.recvq = s.recvq ∧ ∀ k, (s'.ctx k).raio = (s.ctx k).raio

theorem fr6_refl (s : State) : Fr6 s s := ⟨rfl, fun _ => rfl⟩

theorem fr6_trans {s s' s'' : State} (h1 : Fr6 s s') (h2 : Fr6 s' s'') : Fr6 s s'' :=
  ⟨h2.1.trans h1.1, fun k => (h2.2 k).trans (h1.2 k)⟩

theorem rq_fr6 {s s' : State} (hf : Fr6 s s') (h : RQ s) : RQ s' := by
  obtain ⟨h1, h2⟩ := hf
  refine ⟨?_, ?_⟩
  · intro k hk; rw [h1] at hk; rw [h2]; exact h.1 k hk
  · rw [h1]; exact h.2

theorem fr6_setCtx (s : State) (k : Nat) (c : Ctx) (hr : c.raio = (s.ctx k).raio) : Fr6 s (setCtx s k c) := by
  refine ⟨rfl, ?_⟩
  intro k'
  rw [setCtx_ctx, upd_apply]
  split
  · rename_i he; rw [he]; exact hr
  · rfl

theorem fr6_upd {s s' : State} {k : Nat} {c : Ctx} (hq : s'.recvq = s.recvq) (hc : s'.ctx = upd s.ctx k c)
    (hr : c.raio = (s.ctx k).raio) : Fr6 s s' := by
  refine ⟨hq, ?_⟩
  intro k'
  rw [hc, upd_apply]
  split
  · rename_i he; rw [he]; exact hr
  · rfl

theorem fr6_setPipe (s : State) (p : Nat) (pp : Pipe) : Fr6 s (setPipe s p pp) := ⟨rfl, fun _ => rfl⟩
theorem fr6_setW (s : State) (b : Bool) : Fr6 s (setW s b) := ⟨rfl, fun _ => rfl⟩
theorem fr6_setR (s : State) (b : Bool) : Fr6 s (setR s b) := ⟨rfl, fun _ => rfl⟩

theorem closePipe_fr6 (s : State) (p : Nat) : Fr6 s (closePipe s p).1 := by
  unfold closePipe
  split
  · exact fr6_refl s
  · dsimp only
    have hf := clearSaio_frame (s.pipe p).sendq (dropHeld s p)
    have hd := dropHeld_frame s p
    have hr := raiseIfSock_frame (addDiscarded (clearSaio (dropHeld s p) (s.pipe p).sendq) ((s.pipe p).sendq.map (wireOf p))) p
    refine ⟨?_, ?_⟩
    · rw [setPipe_recvq, hr.2.2.2.2.2.2.2.2.2.1]; show (clearSaio _ _).recvq = _; rw [hf.recvq, hd.2.2.2.2.2.2.2.2.1]
    · intro k
      rw [setPipe_ctx, hr.1]; show ((clearSaio _ _).ctx k).raio = _; rw [hf.raio, hd.1]

theorem deliver_fr6 (s : State) (k : Nat) (r : Req) : Fr6 s (deliver s k r) :=
  ⟨(deliver_wire s k r).2.2.2.2.2.2.2.1, fun k' => deliver_raio s k r k'⟩

theorem fr6_with {s s' : State} (hq : s'.recvq = s.recvq) (hc : s'.ctx = s.ctx) : Fr6 s s' :=
  ⟨hq, fun k => by rw [hc]⟩

theorem ctxSend_fr6 (s : State) (k a : Nat) (m : WMsg) (mode : Mode) : Fr6 s (ctxSend s k a m mode).1 := by
  unfold ctxSend
  dsimp only
  split
  · exact fr6_refl s
  · have h1 : Fr6 s (setCtx s k { s.ctx k with btrace := [], pipeId := none }) := fr6_setCtx s k _ rfl
    have h2 : Fr6 s (if (k == 0) = true then setW (setCtx s k { s.ctx k with btrace := [], pipeId := none }) false
        else setCtx s k { s.ctx k with btrace := [], pipeId := none }) := by
      split
      · exact fr6_trans h1 (fr6_setW _ _)
      · exact h1
    generalize (if (k == 0) = true then setW (setCtx s k { s.ctx k with btrace := [], pipeId := none }) false
        else setCtx s k { s.ctx k with btrace := [], pipeId := none }) = t at h2 ⊢
    split
    · exact h2
    · split
      · exact h2
      · split
        · exact fr6_trans h2 (fr6_with rfl rfl)
        · split
          · refine fr6_trans h2 ⟨?_, fun k' => ?_⟩
            · show (ite _ _ _ : State).recvq = _
              split <;> rfl
            · show ((ite _ _ _ : State).ctx k').raio = _
              split <;> rfl
          · split
            · exact h2
            · exact h2
            · refine fr6_trans h2 (fr6_trans ?_ (fr6_setPipe _ _ _))
              exact fr6_setCtx t k _ rfl

theorem pipeSent_fr6 (s : State) (p : Nat) : Fr6 s (pipeSent s p).1 := by
  unfold pipeSent
  dsimp only
  split
  · dsimp only
    split
    · exact fr6_with rfl rfl
    · exact fr6_with rfl rfl
  · dsimp only
    rename_i e rest _
    exact fr6_upd (k := e.ctx) rfl rfl rfl

theorem ctxCloseSend_fr6 (s : State) (k : Nat) : Fr6 s (ctxCloseSend s k).1 := by
  unfold ctxCloseSend
  split
  · dsimp only
    split
    · exact fr6_trans (fr6_setPipe s _ _) (fr6_setCtx _ k _ rfl)
    · exact fr6_setCtx _ k _ rfl
  · exact fr6_refl s

/-- un-park context `k` -/
theorem rq_unpark (s : State) (k : Nat) (h : RQ s) :
    RQ { setCtx s k { s.ctx k with raio := none } with recvq := s.recvq.filter (· != k) } := by
  refine ⟨?_, ?_⟩
  · intro k' hk'
    have hm : k' ∈ s.recvq.filter (· != k) := hk'
    rw [List.mem_filter] at hm
    have hne : k' ≠ k := by simpa using hm.2
    show ((upd s.ctx k _) k').raio.isSome = true
    rw [upd_other _ _ hne]
    exact h.1 k' hm.1
  · exact List.Nodup.sublist List.filter_sublist h.2

theorem rq_pop {s s' : State} {k : Nat} {rest : List Nat} (hq : s.recvq = k :: rest) (hq' : s'.recvq = rest)
    (hc : ∀ k', k' ≠ k → (s'.ctx k').raio = (s.ctx k').raio) (h : RQ s) : RQ s' := by
  obtain ⟨h1, h2⟩ := h
  rw [hq] at h1 h2
  rw [List.nodup_cons] at h2
  refine ⟨?_, ?_⟩
  · intro k' hk'
    rw [hq'] at hk'
    have hne : k' ≠ k := fun he => h2.1 (he ▸ hk')
    rw [hc k' hne]
    exact h1 k' (List.mem_cons_of_mem _ hk')
  · rw [hq']; exact h2.2

theorem pipeRecv_rq (s : State) (p : Nat) (b : Bytes) (h : RQ s) : RQ (pipeRecv s p b).1 := by
  unfold pipeRecv
  dsimp only
  split
  · exact rq_fr6 (fr6_trans (fr6_setPipe s p _) (fr6_setPipe _ p _)) h
  · exact rq_fr6 (closePipe_fr6 _ p) (rq_fr6 (fr6_setPipe s p _) h)
  · split
    · exact rq_fr6 (fr6_with rfl rfl) h
    · rename_i k rest hq
      split
      · exact rq_fr6 (fr6_with rfl rfl) h
      · refine rq_fr6 (deliver_fr6 _ k _) ?_
        have hq0 : s.recvq = k :: rest := hq
        refine rq_pop hq0 rfl ?_ h
        intro k' hne
        show ((upd s.ctx k _) k').raio = _
        rw [upd_other _ _ hne]

theorem rq_park (s : State) (k : Nat) (pk : Parked) (hk : (s.ctx k).raio.isSome = false) (h : RQ s) :
    RQ { setCtx s k { s.ctx k with raio := some pk } with recvq := s.recvq ++ [k] } := by
  have hnm : k ∉ s.recvq := fun hm => by have := h.1 k hm; rw [hk] at this; cases this
  refine ⟨?_, ?_⟩
  · intro k' hk'
    have hm : k' ∈ s.recvq ++ [k] := hk'
    show ((upd s.ctx k _) k').raio.isSome = true
    rw [upd_apply]
    split
    · rfl
    · rename_i hne
      rw [List.mem_append] at hm
      rcases hm with hm | hm
      · exact h.1 k' hm
      · exact absurd (List.mem_singleton.mp hm) hne
  · show (s.recvq ++ [k]).Nodup
    rw [List.nodup_append]
    refine ⟨h.2, by simp, ?_⟩
    intro x hx y hy he
    rw [List.mem_singleton] at hy
    subst hy; subst he
    exact hnm hx

theorem ctxRecv_rq (s : State) (k a : Nat) (mode : Mode) (h : RQ s) : RQ (ctxRecv s k a mode).1 := by
  unfold ctxRecv
  split
  · split
    · exact h
    · exact h
    · split
      · exact h
      · rename_i hk
        exact rq_park s k _ (by simpa using hk) h
  · dsimp only
    refine rq_fr6 (deliver_fr6 _ k _) ?_
    split
    · exact rq_fr6 (fr6_with rfl rfl) h
    · exact rq_fr6 (fr6_with rfl rfl) h

theorem failAio_rq (s : State) (a rv : Nat) (h : RQ s) : RQ (failAio s a rv).1 := by
  unfold failAio
  split
  · exact rq_unpark s _ h
  · split
    · dsimp only
      rename_i k _
      refine rq_fr6 (fr6_setCtx _ k _ ?_) ?_
      · split <;> rfl
      · split
        · exact rq_fr6 (fr6_setPipe s _ _) h
        · exact h
    · exact h

theorem expire_rq (s : State) (h : RQ s) : RQ (expire s).1 := by
  unfold expire failAll
  exact foldl_pres' RQ (fun s a => failAio s a Err.etimedout) (fun s a h => failAio_rq s a _ h) _ _ [] h

theorem ctxCloseRecv_rq (s : State) (k : Nat) (h : RQ s) : RQ (ctxCloseRecv s k).1 := by
  unfold ctxCloseRecv
  split
  · exact rq_unpark s k h
  · exact h

theorem ctxCloseParked_rq (s : State) (k : Nat) (h : RQ s) : RQ (ctxCloseParked s k).1 := by
  unfold ctxCloseParked
  dsimp only
  have h1 := rq_fr6 (ctxCloseSend_fr6 s k) h
  have h2 := ctxCloseRecv_rq _ k h1
  exact rq_fr6 (fr6_setCtx _ k _ rfl) h2

theorem step_rq (s : State) (ev : Ev) (h : RQ s) (h4 : Inv4 s) (ho : s.opened = true) : RQ (step s ev).1 := by
  have hcp : ∀ s p, RQ s → RQ (closePipe s p).1 := fun s p h => rq_fr6 (closePipe_fr6 s p) h
  unfold step
  split
  · rename_i hno
    rw [ho] at hno; simp at hno
  · split
    · split
      · exact h
      · exact h
    · split
      · exact h
      · dsimp only
        split <;> exact rq_fr6 (fr6_with rfl rfl) h
      · split
        · exact hcp s _ h
        · exact h
      · split
        · exact h
        · split
          · exact hcp s _ h
          · exact rq_fr6 (pipeSent_fr6 s _) h
      · split
        · exact h
        · split
          · exact hcp s _ h
          · exact pipeRecv_rq s _ _ h
      · split
        · exact h
        · split
          · exact h
          · exact rq_fr6 (ctxSend_fr6 s _ _ _ _) h
      · split
        · exact h
        · split
          · exact h
          · exact ctxRecv_rq s _ _ _ h
      · exact failAio_rq s _ _ h
      · exact failAio_rq s _ _ h
      · exact expire_rq _ (rq_fr6 (fr6_with rfl rfl) h)
      · split
        · exact h
        · refine ⟨?_, h.2⟩
          intro k hk
          have hk' : k ∈ s.recvq := hk
          have hlt := h4.RQb k hk'
          show ((upd s.ctx s.nctx _) k).raio.isSome = true
          rw [upd_other _ _ (Nat.ne_of_lt hlt)]
          exact h.1 k hk'
      · split
        · exact h
        · split
          · exact h
          · exact rq_fr6 (fr6_with rfl rfl) (ctxCloseParked_rq s _ h)
      · split
        · exact h
        · exact rq_fr6 (fr6_with rfl rfl) h
      · exact h
      · exact h
      · exact h
      · exact h
      · exact h
      · exact h
      · dsimp only
        refine rq_fr6 (fr6_with rfl rfl) ?_
        apply closeAll_inv1'' RQ _ ctxCloseParked_rq
        apply closeAll_inv1'' RQ _ hcp
        apply closeAll_inv1'' RQ _ ctxCloseParked_rq
        exact h

theorem step_inv6 (s : State) (ev : Ev) (h : Inv6 s) (h4 : Inv4 s) : Inv6 (step s ev).1 := by
  cases ho : s.opened with
  | true =>
    have hr := step_rq s ev ⟨h.rq, h.nd⟩ h4 ho
    have ho' := step_opened s ev ho
    exact ⟨hr.1, hr.2, fun hn => by rw [ho'] at hn; cases hn⟩
  | false =>
    obtain ⟨hq, hc⟩ := h.un ho
    unfold step
    rw [if_pos (by rw [ho]; rfl)]
    split
    · refine ⟨?_, ?_, ?_⟩
      · intro k hk; have hk' : k ∈ s.recvq := hk; rw [hq] at hk'; cases hk'
      · show s.recvq.Nodup; rw [hq]; exact List.nodup_nil
      · intro hn; cases hn
    · exact ⟨h.rq, h.nd, h.un⟩
    · exact h

theorem run_inv6 (evs : List Ev) : ∀ s, Inv6 s → Inv4 s → Inv6 (run s evs).1 := by
  induction evs with
  | nil => intro s h _; exact h
  | cons e es ih =>
    intro s h h4
    exact ih _ (step_inv6 s e h h4) (step_inv4 s e h4)

end Nng.RepProofs
