/-
  SURVEYOR judge accepts the model, part J: `surv0_ctx_send` as a whole.
-/
import NngModel.Proofs.SurvJudgeI
namespace Nng.SurvProofs
open Nng Nng.Proto Nng.Survey Nng.SurveySpec Nng.SurvJudge

/-- the model's send, with the allocator's answer filled in (no wrap-around) -/
theorem ctxSend_eq {s : State} {c : Ctx} (a : Nat) (m : WMsg) (hx : XInv s) (hc : c ∈ s.ctxs) (hn : s.issued.length < idSpan) :
    ctxSend s c a m =
      (setCtx { (clearReadableIf (setCtx s (abortCtx c Err.ecanceled).1) c.key) with dynVal := idNext (idMin + s.issued.length), issued := s.issued ++ [idMin + s.issued.length], pipes := s.pipes.map fun pp => (sendToPipe ⟨enc (idMin + s.issued.length), m.body⟩ pp).1 }
              { (abortCtx c Err.ecanceled).1 with surveyId := idMin + s.issued.length, lastId := idMin + s.issued.length, nsurveys := c.nsurveys + 1, expire := (s.now : Int) + c.surveyTime },
       (abortCtx c Err.ecanceled).2 ++ (s.pipes.flatMap fun pp => (sendToPipe ⟨enc (idMin + s.issued.length), m.body⟩ pp).2) ++
         [Out.done a 0 none false]) := by
  have h1 : XInv (clearReadableIf (setCtx s (abortCtx c Err.ecanceled).1) c.key) :=
    clearReadableIf_xinv _ (abort_xinv _ hx hc)
  have hiss : (clearReadableIf (setCtx s (abortCtx c Err.ecanceled).1) c.key).issued = s.issued := by
    unfold clearReadableIf; split <;> rfl
  have hpipes : (clearReadableIf (setCtx s (abortCtx c Err.ecanceled).1) c.key).pipes = s.pipes := by
    unfold clearReadableIf; split <;> rfl
  have hnow : (clearReadableIf (setCtx s (abortCtx c Err.ecanceled).1) c.key).now = s.now := by
    unfold clearReadableIf; split <;> rfl
  have hal := idAlloc_nowrap h1 (by rw [hiss]; exact hn)
  rw [hiss] at hal
  unfold ctxSend
  simp only
  rw [hal]
  simp only [hiss, hpipes, hnow]
  rfl

theorem send_state (s : State) (c1 : Ctx) (k : Option Nat) :
    (clearReadableIf (setCtx s c1) k).ctxs = (setCtx s c1).ctxs ∧ (clearReadableIf (setCtx s c1) k).now = s.now ∧
    (clearReadableIf (setCtx s c1) k).narrive = s.narrive := by
  unfold clearReadableIf
  split <;> exact ⟨rfl, rfl, rfl⟩

theorem CR_grow {issued : List Nat} {sent S' : List (Bytes × Option Bytes)} {nseq : Nat} {arrivals : List Arrival}
    {c : Ctx} {cj : CtxJ} (h : CR issued sent nseq arrivals c cj) (id : Nat)
    (hl : ∀ b x, lookupId sent issued b = some x → lookupId S' (issued ++ [id]) b = some x) :
    CR (issued ++ [id]) S' nseq arrivals c cj :=
  ⟨h.st, h.nos, fun sv hsv => by
    obtain ⟨a1, a2, a3, a4⟩ := h.sv sv hsv
    exact ⟨a1, a2, hl _ _ a3, a4⟩, h.qa, h.qb, h.qc⟩

theorem ctxSend_sim {s : State} {j : SurvJ} (hR : R s j) (hm : MInv s) (ho : s.opened = true) (k : Option Nat) (c : Ctx)
    (a : Nat) (m : WMsg) (md : Mode) (hc : getCtx s k = some c) (hb : aioBusy s a = false)
    (hn : s.issued.length < idSpan) (hbody : ∀ e ∈ j.sent, e.1 ≠ m.body) (hm' : MInv (ctxSend s c a m).1) :
    R (ctxSend s c a m).1 (survStep j (.send k a m md) (ctxSend s c a m).2) := by
  have h := hR.r0
  have hcm := m_getCtx_mem hc
  have hck : c.key = k := m_key hc
  obtain ⟨cj, hcj, hcr⟩ := R0_ctx_some h hc
  have hcjk : cj.key = k := Nng.SurvJudge.getCtx_key hcj
  rw [ctxSend_eq a m hm.x hcm hn] at hm' ⊢
  dsimp only at hm' ⊢
  rw [abortCtx_outs]
  generalize hid : idMin + s.issued.length = id at hm' ⊢
  generalize hLdef : c.rq.map (·.aio) = L
  generalize ho2 : (s.pipes.flatMap fun pp => (sendToPipe ⟨enc id, m.body⟩ pp).2) = o2
  have ho2p : ∀ o ∈ o2, isPsendOf ⟨enc id, m.body⟩ o := by
    rw [← ho2]
    intro o ho
    simp only [List.mem_flatMap] at ho
    obtain ⟨pp, _, hpp⟩ := ho
    exact sendToPipe_outs _ pp o hpp
  -- basic facts
  have hidb := issued_bound hm'.x id (by show id ∈ s.issued ++ [id]; simp)
  have hidnew : id ∉ s.issued := by
    intro hin
    have := (hm.x.rng id hin).2
    omega
  have haL : a ∉ L := by
    rw [← hLdef]
    intro hin
    simp only [List.mem_map] at hin
    obtain ⟨pk, hpk, e⟩ := hin
    exact aioBusy_false hb c hcm pk hpk e
  have hLnd : L.Nodup := by rw [← hLdef]; exact (hm.x.cx c hcm).rqn
  have hpendL : ∀ pr ∈ j.pend, (pr.aio ∈ L ↔ pr.ctx = k) := by
    intro pr hpr
    obtain ⟨_, c0, hc0, pk0, hpk0, hpa0, _⟩ := h.p2 pr hpr
    constructor
    · intro hin
      rw [← hLdef] at hin
      simp only [List.mem_map] at hin
      obtain ⟨pk, hpk, e⟩ := hin
      have := (parked_unique hm.x (m_getCtx_mem hc0) hcm hpk0 hpk (by rw [hpa0, e])).1
      subst this
      rw [← m_key hc0, hck]
    · intro hk
      rw [hk, hc] at hc0
      cases hc0
      rw [← hLdef, ← hpa0]
      exact List.mem_map.mpr ⟨pk0, hpk0, rfl⟩
  -- `doneOf` on the outputs
  have hdo2 : ∀ x, doneOf o2 x = none := by
    intro x
    apply doneOf_none_of
    intro o ho rv mm bb he
    obtain ⟨p, rfl⟩ := ho2p o ho
    cases he
  have hda : doneOf (L.map (fun x => Out.done x Err.ecanceled none false) ++ o2 ++ [Out.done a 0 none false]) a = some (0, none) := by
    rw [doneOf_append, doneOf_append, hdo2]
    have : doneOf (L.map fun x => Out.done x Err.ecanceled none false) a = none := by
      apply doneOf_none_of
      intro o ho rv mm bb he
      simp only [List.mem_map] at ho
      obtain ⟨x, hx, rfl⟩ := ho
      cases he
      exact haL hx
    rw [this]
    simp [doneOf]
  have hdc : ∀ pr ∈ j.pend, pr.ctx = k →
      doneOf (L.map (fun x => Out.done x Err.ecanceled none false) ++ o2 ++ [Out.done a 0 none false]) pr.aio = some (Err.ecanceled, none) := by
    intro pr hpr hk
    rw [doneOf_append, doneOf_append, doneOf_cancelled Err.ecanceled ((hpendL pr hpr).mpr hk)]
    rfl
  have hany : j.sent.any (·.1 == m.body) = false := by
    rw [Bool.eq_false_iff]
    intro ht
    rw [List.any_eq_true] at ht
    obtain ⟨e, he, hp⟩ := ht
    exact hbody e he (by simpa using hp)
  have hpre := pre_send_ok (md := md) (m := m) hda hcj hdc hany
  generalize hcjN : ({ cj with survey := some ({ body := m.body, deadline := (j.now : Int) + cj.surveyTime, startSeq := j.nseq } : SurveyJ) } : CtxJ) = cjN at hpre
  have hcjNk : cjN.key = k := by rw [← hcjN]; exact hcjk
  generalize hjP : SurvJ.setCtx { j with sent := j.sent ++ [(m.body, none)] } cjN = jP at hpre
  have hjPg : ∀ k', jP.getCtx k' = if k' = k then (j.getCtx k').map (fun _ => cjN) else j.getCtx k' := by
    intro k'; rw [← hjP]; exact j_getCtx_setCtx_k hcjNk k'
  -- the wires
  have hlen := sentVal_length h.sentV
  have hlk0 : lookupId (j.sent ++ [(m.body, none)]) (s.issued ++ [id]) m.body = some id :=
    lookupId_append_new m.body none id hlen hbody
  obtain ⟨S', hS, hfold2⟩ := wire_fold (issued := s.issued ++ [id]) hm'.x.nodup (issued_bound hm'.x)
    (.send k a m md) (some a) ⟨enc id, m.body⟩ id rfl o2 ho2p jP
    (by rw [← hjP]; exact sentVal_append m.body id h.sentV)
    (by rw [← hjP]
        show (List.map (fun x : Bytes × Option Bytes => x.1) (j.sent ++ [(m.body, none)])).Nodup
        rw [List.map_append, List.nodup_append]
        refine ⟨h.sentN, by simp, ?_⟩
        intro x hx y hy
        simp only [List.map_cons, List.map_nil, List.mem_singleton] at hy
        subst hy
        simp only [List.mem_map] at hx
        obtain ⟨e, he, rfl⟩ := hx
        exact hbody e he)
    (by rw [← hjP]; exact hlk0)
  obtain ⟨f1, f2, f3⟩ := sentStep_facts hS
  have hjPsent : jP.sent = j.sent ++ [(m.body, none)] := by rw [← hjP]; rfl
  -- the cancelled receives
  have hres : FailRes (.send k a m md) { jP with sent := S' }
      (L.foldl (fun j x => survOut (.send k a m md) (some a) j (.done x Err.ecanceled none false)) { jP with sent := S' }) L := by
    apply failBatch (.send k a m md) (some a) Err.ecanceled (by decide) L { jP with sent := S' }
      (by rw [← hjP]; exact h.err) hLnd (by rw [← hjP]; exact h.p1)
    · intro x hx
      refine ⟨by intro he; cases he; exact haL hx, ?_⟩
      rw [← hLdef] at hx
      simp only [List.mem_map] at hx
      obtain ⟨pk, hpk, rfl⟩ := hx
      obtain ⟨pr, hpr, e1, _⟩ := h.p3 k c hc pk hpk
      exact ⟨pr, by rw [← hjP]; exact hpr, e1⟩
    · intro pr _ _
      right
      exact ⟨by decide, by decide, fun e => by cases e⟩
  generalize hj' : L.foldl (fun j x => survOut (.send k a m md) (some a) j (.done x Err.ecanceled none false)) { jP with sent := S' } = j' at hres
  have hjPpend : jP.pend = j.pend := by rw [← hjP]; rfl
  have hkeep : ∀ k', j'.getCtx k' = jP.getCtx k' := by
    intro k'
    apply hres.keep
    intro pr hpr hin _
    have hpr' : pr ∈ j.pend := by rw [← hjPpend]; exact hpr
    have := (hpendL pr hpr').mp hin
    simp [markB, newSurvey, this]
  -- the whole step
  have hall : ∀ o ∈ L.map (fun x => Out.done x Err.ecanceled none false) ++ o2 ++ [Out.done a 0 none false],
      inertB o = true ∨ doneP o = true ∨ isPsendOf ⟨enc id, m.body⟩ o := by
    intro o ho
    simp only [List.mem_append, List.mem_map, List.mem_singleton] at ho
    rcases ho with (⟨x, _, rfl⟩ | ho) | rfl
    · exact Or.inr (Or.inl rfl)
    · exact Or.inr (Or.inr (ho2p o ho))
    · exact Or.inr (Or.inl rfl)
  have hne : notExecuted (L.map (fun x => Out.done x Err.ecanceled none false) ++ o2 ++ [Out.done a 0 none false]) = false := by
    unfold notExecuted
    rw [Bool.eq_false_iff]
    intro ht
    rw [List.any_eq_true] at ht
    obtain ⟨o, ho, hp⟩ := ht
    rcases hall o ho with h1 | h1 | ⟨p, rfl⟩
    · cases o <;> simp_all [inertB]
    · cases o <;> simp_all [doneP]
    · simp at hp
  have hbl : hasBlocked (L.map (fun x => Out.done x Err.ecanceled none false) ++ o2 ++ [Out.done a 0 none false]) = false := by
    unfold hasBlocked
    rw [Bool.eq_false_iff]
    intro ht
    rw [List.any_eq_true] at ht
    obtain ⟨o, ho, hp⟩ := ht
    rcases hall o ho with h1 | h1 | ⟨p, rfl⟩
    · cases o <;> simp_all [inertB]
    · cases o <;> simp_all [doneP]
    · simp at hp
  have hfr : (L.map (fun x => Out.done x Err.ecanceled none false) ++ o2 ++ [Out.done a 0 none false]).filter restP = o2 := by
    rw [List.filter_append, List.filter_append]
    have a1 : (L.map fun x => Out.done x Err.ecanceled none false).filter restP = [] := by
      rw [List.filter_eq_nil_iff]; intro o ho; simp only [List.mem_map] at ho; obtain ⟨x, _, rfl⟩ := ho; simp [restP]
    have a2 : o2.filter restP = o2 := by
      rw [List.filter_eq_self]; intro o ho; exact (psend_props (ho2p o ho)).2
    rw [a1, a2]; simp [restP]
  have hfd : (L.map (fun x => Out.done x Err.ecanceled none false) ++ o2 ++ [Out.done a 0 none false]).filter doneP =
      L.map (fun x => Out.done x Err.ecanceled none false) ++ [Out.done a 0 none false] := by
    rw [List.filter_append, List.filter_append]
    have a1 : (L.map fun x => Out.done x Err.ecanceled none false).filter doneP = L.map fun x => Out.done x Err.ecanceled none false := by
      rw [List.filter_eq_self]; intro o ho; simp only [List.mem_map] at ho; obtain ⟨x, _, rfl⟩ := ho; rfl
    have a2 : o2.filter doneP = [] := by
      rw [List.filter_eq_nil_iff]; intro o ho; rw [(psend_props (ho2p o ho)).1]; simp
    rw [a1, a2]; simp [doneP]
  apply finish h.err hne (j2 := j') _ _ hm' hbl
    (pollClause_send (by
      intro r w hlp
      have e : j'.lastPoll = j.lastPoll := by rw [hres.lastPoll, ← hjP]; rfl
      rw [e] at hlp
      exact lp_writable hR hm ho r w hlp)) (Or.inl rfl)
  · rw [hpre]
    show survPostA _ _ (survProc (.send k a m md) (some a) _ jP) = j'
    rw [survProc_send, hfr, hfd, hfold2, List.foldl_append, List.foldl_map, hj']
    show survOut _ (some a) j' (.done a 0 none false) = j'
    exact survOut_done_send _ _ _ _ _ _
  · -- the relation
    obtain ⟨t1, t2, t3⟩ := send_state s (abortCtx c Err.ecanceled).1 c.key
    generalize hc2 : ({ (abortCtx c Err.ecanceled).1 with surveyId := id, lastId := id, nsurveys := c.nsurveys + 1, expire := (s.now : Int) + c.surveyTime } : Ctx) = c2
    have hc2k : c2.key = k := by rw [← hc2]; exact hck
    have mg : ∀ k', getCtx (setCtx { (clearReadableIf (setCtx s (abortCtx c Err.ecanceled).1) c.key) with dynVal := idNext id, issued := s.issued ++ [id], pipes := s.pipes.map fun pp => (sendToPipe ⟨enc id, m.body⟩ pp).1 } c2) k' =
        if k' = k then some c2 else getCtx s k' := by
      intro k'
      rw [m_getCtx_setCtx_k hc2k]
      have hin : ∀ k'', getCtx { (clearReadableIf (setCtx s (abortCtx c Err.ecanceled).1) c.key) with dynVal := idNext id, issued := s.issued ++ [id], pipes := s.pipes.map fun pp => (sendToPipe ⟨enc id, m.body⟩ pp).1 } k'' =
          getCtx (setCtx s (abortCtx c Err.ecanceled).1) k'' := by
        intro k''; unfold getCtx; simp only [t1]
      rw [hin, m_getCtx_setCtx_k (k0 := k) (by rw [(abortCtx_fields c Err.ecanceled).1]; exact hck)]
      by_cases hk : k' = k
      · subst hk; simp [hc]
      · simp [hk]
    have jg : ∀ k', j'.getCtx k' = if k' = k then some cjN else j.getCtx k' := by
      intro k'
      rw [hkeep, hjPg]
      by_cases hk : k' = k
      · subst hk; simp [hcj]
      · simp [hk]
    have hlgrow : ∀ b x, lookupId j.sent s.issued b = some x → lookupId S' (s.issued ++ [id]) b = some x := by
      intro b x hl
      rw [f3, hjPsent]
      exact lookupId_append_old _ _ hl
    have hjs : j'.sent = S' := hres.sent
    have hjar : j'.arrivals = j.arrivals := by rw [hres.arrivals, ← hjP]; rfl
    have hjns : j'.nseq = j.nseq := by rw [hres.nseq, ← hjP]; rfl
    have hjpend : j'.pend = j.pend.filter (fun pr => !L.contains pr.aio) := by rw [hres.pend]; show jP.pend.filter _ = _; rw [hjPpend]
    refine ⟨hres.err, ?_, ?_, ?_, ?_, ?_, ?_, ?_, ?_, ?_, ?_, ?_, ?_, ?_⟩
    · rw [hres.now]; show jP.now = (clearReadableIf (setCtx s (abortCtx c Err.ecanceled).1) c.key).now
      rw [t2, ← hjP]; exact h.now
    · rw [hres.closed, ← hjP]; exact h.ncl
    · intro k'
      rw [mg, jg]
      by_cases hk : k' = k
      · simp [hk]
      · simp only [hk, if_false]; exact h.dom k'
    · intro k' c' cj' h1 h2
      rw [mg] at h1; rw [jg] at h2
      rw [hjs, hjar, hjns]
      show CR (s.issued ++ [id]) S' j.nseq j.arrivals c' cj'
      by_cases hk : k' = k
      · simp only [hk, if_true, Option.some.injEq] at h1 h2
        subst h1; subst h2
        rw [← hc2, ← hcjN]
        refine ⟨hcr.st, fun hn' => (by cases hn'), ?_, ?_, ?_, (by simp [abortCtx])⟩
        · intro sv hsv
          simp only [Option.some.injEq] at hsv
          subst hsv
          refine ⟨by show (j.now : Int) + cj.surveyTime = (s.now : Int) + c.surveyTime; rw [h.now, hcr.st], ?_, ?_, Nat.le_refl _⟩
          · simp only [true_iff]
            show id ≠ 0
            omega
          · show lookupId S' (s.issued ++ [id]) m.body = some id
            rw [f3, hjPsent]; exact hlk0
        · intro sv hsv _ a' ha' _ hs _
          simp only [Option.some.injEq] at hsv
          subst hsv
          have := h.arrB a' ha'
          exfalso
          have hs' : j.nseq ≤ a'.seq := hs
          omega
        · intro sv _ gm hgm
          simp [abortCtx] at hgm
      · simp only [hk, if_false] at h1 h2
        exact CR_grow (h.ctx k' c' cj' h1 h2) id hlgrow
    · rw [hjpend]; exact List.Nodup.sublist (List.filter_sublist.map _) h.p1
    · intro pr hpr
      rw [hjpend] at hpr
      have hm1 := List.mem_filter.mp hpr
      have hnl : pr.aio ∉ L := by simpa using hm1.2
      obtain ⟨hz, c0, hc0, rest⟩ := h.p2 pr hm1.1
      have hk : pr.ctx ≠ k := fun e => hnl ((hpendL pr hm1.1).mpr e)
      refine ⟨hz, c0, ?_, rest⟩
      rw [mg, if_neg hk]; exact hc0
    · intro k' c' h1 pk hpk
      rw [mg] at h1
      by_cases hk : k' = k
      · simp only [hk, if_true, Option.some.injEq] at h1
        subst h1
        rw [← hc2] at hpk
        simp [abortCtx] at hpk
      · simp only [hk, if_false] at h1
        obtain ⟨pr, hpr, e1, e2⟩ := h.p3 k' c' h1 pk hpk
        refine ⟨pr, ?_, e1, e2⟩
        rw [hjpend]
        apply List.mem_filter.mpr
        refine ⟨hpr, ?_⟩
        have : pr.aio ∉ L := fun hin => hk (by rw [← e2]; exact (hpendL pr hpr).mp hin)
        simpa using this
    · rw [hjs]; exact f1
    · rw [hjs, f2, hjPsent]
      rw [List.map_append, List.nodup_append]
      refine ⟨h.sentN, by simp, ?_⟩
      intro x hx y hy
      simp only [List.map_cons, List.map_nil, List.mem_singleton] at hy
      subst hy
      simp only [List.mem_map] at hx
      obtain ⟨e, he, rfl⟩ := hx
      exact hbody e he
    · intro pp' hpp' m' hm''
      rw [hjs]
      show ∃ id', lookupId S' (s.issued ++ [id]) m'.body = some id' ∧ m'.hdr = enc id'
      have hpp'' : pp' ∈ s.pipes.map fun pp => (sendToPipe ⟨enc id, m.body⟩ pp).1 := hpp'
      simp only [List.mem_map] at hpp''
      obtain ⟨pp, hpp, rfl⟩ := hpp''
      rcases sendToPipe_sendQ _ pp m' hm'' with hold | rfl
      · obtain ⟨id', hl', hh'⟩ := h.sq pp hpp m' hold
        exact ⟨id', hlgrow _ _ hl', hh'⟩
      · exact ⟨id, by rw [f3, hjPsent]; exact hlk0, rfl⟩
    · rw [hjar]; exact h.arrS
    · rw [hjar, hjns]; exact h.arrB
    · rw [hjns]; show j.nseq = (clearReadableIf (setCtx s (abortCtx c Err.ecanceled).1) c.key).narrive
      rw [t3]; exact h.nseq

end Nng.SurvProofs
