/-
  One-step facts about the REP model: the state machine's ESTATE rules (P2), what a
  malformed / over-long request does (P3), replies for a pipe that is gone (P4), and what
  non-blocking calls return (P6).
-/
import NngModel.Proofs.RepFlags
namespace Nng.RepProofs
open Nng Nng.Proto Nng.Rep

/-! ### P2 -/

/-- send without a received request: NNG_ESTATE, message back, nothing on the wire -/
theorem ctxSend_estate (s : State) (k a : Nat) (m : WMsg) (mode : Mode) (h : (s.ctx k).btrace = []) :
    (ctxSend s k a m mode).2 = [Out.done a Err.estate none true] ∧ (ctxSend s k a m mode).1.wire = s.wire := by
  unfold ctxSend
  dsimp only
  split
  · exact ⟨rfl, rfl⟩
  · have : ((s.ctx k).btrace.length == 0) = true := by rw [h]; rfl
    rw [if_pos this]
    refine ⟨rfl, ?_⟩
    split <;> rfl

/-- whatever a send does, afterwards the context has nothing saved (so the next send without a
    new receive is refused by `ctxSend_estate`) — unless it was refused because the previous reply
    is still queued, in which case nothing changed -/
theorem ctxSend_consumes (s : State) (k a : Nat) (m : WMsg) (mode : Mode) :
    (((ctxSend s k a m mode).1.ctx k).btrace = []) ∨
    ((s.ctx k).saio.isSome = true ∧ (ctxSend s k a m mode).1 = s ∧ (ctxSend s k a m mode).2 = [Out.done a Err.estate none true]) := by
  unfold ctxSend
  dsimp only
  split
  · rename_i hs; exact Or.inr ⟨hs, rfl, rfl⟩
  · left
    have base : ∀ b : Bool, ((if b = true then setW (setCtx s k { s.ctx k with btrace := [], pipeId := none }) false
        else setCtx s k { s.ctx k with btrace := [], pipeId := none }).ctx k).btrace = [] := by
      intro b; cases b <;> simp
    generalize hs2 : (if (k == 0) = true then setW (setCtx s k { s.ctx k with btrace := [], pipeId := none }) false
        else setCtx s k { s.ctx k with btrace := [], pipeId := none }) = s2
    have hb : (s2.ctx k).btrace = [] := by rw [← hs2]; exact base _
    split
    · exact hb
    · split
      · exact hb
      · split
        · exact hb
        · split
          · show ((if _ then setW _ false else _).ctx k).btrace = []
            split <;> exact hb
          · split
            · exact hb
            · exact hb
            · dsimp only
              rw [setPipe_ctx, setCtx_ctx, upd_same]
              exact hb

/-- a second concurrent receive on a context (no request waiting, not a zero timeout) fails
    with NNG_ESTATE and leaves the first receive where it is -/
theorem ctxRecv_second_estate (s : State) (k a : Nat) (mode : Mode) (hrp : s.recvpipes = [])
    (hr : (s.ctx k).raio.isSome = true) (hm1 : mode ≠ .nb) (hm2 : mode ≠ .ms 0) :
    ctxRecv s k a mode = (s, [Out.done a Err.estate none false]) := by
  unfold ctxRecv
  rw [hrp]
  dsimp only
  split
  · exact absurd rfl hm1
  · exact absurd rfl hm2
  · rw [if_pos hr]

/-! ### P3 -/

theorem pipeRecv_malformed (s : State) (p : Nat) (b : Bytes) (hl : livePipe s p = true)
    (h : parseBacktrace s.ttl b = .malformed) :
    Out.pclosed p ∈ (pipeRecv s p b).2 ∧ (pipeRecv s p b).1.delivered = s.delivered ∧
    livePipe (pipeRecv s p b).1 p = false ∧ (∀ a rv m mb, Out.done a rv (some m) mb ∉ (pipeRecv s p b).2) := by
  have hl0 : livePipe (setPipe s p { s.pipe p with armed := false }) p = true := by
    unfold livePipe at hl ⊢; rw [setPipe_npipes, setPipe_pipe, upd_same]; exact hl
  unfold pipeRecv
  dsimp only
  have : parseBacktrace (setPipe s p { s.pipe p with armed := false }).ttl b = .malformed := h
  rw [this]
  dsimp only
  have hd0 : (setPipe s p { s.pipe p with armed := false }).delivered = s.delivered := rfl
  generalize setPipe s p { s.pipe p with armed := false } = s0 at hl0 hd0 ⊢
  unfold closePipe
  have hnl : (!livePipe s0 p) = false := by rw [hl0]; rfl
  rw [hnl]
  simp only [Bool.false_eq_true, if_false]
  refine ⟨by simp, ?_, ?_, ?_⟩
  · rw [setPipe_delivered, (raiseIfSock_frame _ p).2.2.2.2.1]
    show (clearSaio _ _).delivered = _
    rw [(clearSaio_frame _ _).delivered, (dropHeld_frame _ _).2.2.2.2.1]
    exact hd0
  · unfold livePipe; rw [setPipe_pipe, upd_same]; simp
  · intro a rv m mb hmem
    simp at hmem

/-- a request with more hops than the TTL allows is dropped: nothing delivered, the pipe stays
    and re-arms its receive -/
theorem pipeRecv_drop (s : State) (p : Nat) (b : Bytes) (hl : livePipe s p = true)
    (h : parseBacktrace s.ttl b = .drop) :
    (pipeRecv s p b).2 = [Out.parm p] ∧ (pipeRecv s p b).1.delivered = s.delivered ∧
    (pipeRecv s p b).1.recvpipes = s.recvpipes ∧ livePipe (pipeRecv s p b).1 p = true := by
  unfold pipeRecv
  dsimp only
  have : parseBacktrace (setPipe s p { s.pipe p with armed := false }).ttl b = .drop := h
  rw [this]
  dsimp only
  refine ⟨rfl, rfl, rfl, ?_⟩
  unfold livePipe at hl ⊢
  rw [setPipe_npipes, setPipe_pipe, upd_same, setPipe_npipes, setPipe_pipe, upd_same]
  exact hl

/-- what is delivered / held for a well-formed request is exactly the parsed backtrace -/
theorem pipeRecv_ok_hold (s : State) (p : Nat) (b hdr body : Bytes) (h : parseBacktrace s.ttl b = .ok hdr body)
    (hq : s.recvq = []) :
    (pipeRecv s p b).1.recvpipes = s.recvpipes ++ [⟨s.narrive, p, hdr, body⟩] ∧ (pipeRecv s p b).2 = [] := by
  unfold pipeRecv
  dsimp only
  have : parseBacktrace (setPipe s p { s.pipe p with armed := false }).ttl b = .ok hdr body := h
  rw [this]
  dsimp only
  have : (setPipe s p { s.pipe p with armed := false }).recvq = [] := hq
  rw [this]
  exact ⟨rfl, rfl⟩

/-! ### P4 -/

/-- the state after rep0_ctx_send consumed the saved backtrace: pipes and logs untouched -/
theorem consumed_frame (s : State) (k : Nat) :
    ∀ s2, s2 = (if (k == 0) = true then setW (setCtx s k { s.ctx k with btrace := [], pipeId := none }) false
                else setCtx s k { s.ctx k with btrace := [], pipeId := none }) →
    (∀ q, livePipe s2 q = livePipe s q) ∧ (∀ q, (s2.pipe q).busy = (s.pipe q).busy) ∧ s2.wire = s.wire := by
  intro s2 h
  subst h
  cases (k == 0) <;> exact ⟨fun _ => rfl, fun _ => rfl, rfl⟩

/-- a reply for a pipe that has gone away is accepted and discarded: nothing goes on the wire -/
theorem ctxSend_pipe_gone (s : State) (k a p : Nat) (m : WMsg) (mode : Mode)
    (hs : (s.ctx k).saio = none) (hb : (s.ctx k).btrace ≠ []) (hp : (s.ctx k).pipeId = some p)
    (hgone : livePipe s p = false) :
    (ctxSend s k a m mode).2 = [Out.done a 0 none false] ∧ (ctxSend s k a m mode).1.wire = s.wire := by
  unfold ctxSend
  dsimp only
  obtain ⟨f1, f2, f3⟩ := consumed_frame s k _ rfl
  generalize (if (k == 0) = true then setW (setCtx s k { s.ctx k with btrace := [], pipeId := none }) false
                else setCtx s k { s.ctx k with btrace := [], pipeId := none }) = s2 at f1 f2 f3 ⊢
  have h1 : ¬ ((s.ctx k).saio.isSome = true) := by rw [hs]; simp
  rw [if_neg h1]
  have hlen : ¬ (((s.ctx k).btrace.length == 0) = true) := by
    cases hbt : (s.ctx k).btrace with
    | nil => exact absurd hbt hb
    | cons _ _ => simp
  rw [if_neg hlen, hp]
  dsimp only
  have h2 : (!livePipe s2 p) = true := by rw [f1, hgone]; rfl
  rw [if_pos h2]
  exact ⟨rfl, f3⟩

/-! ### P6: what non-blocking calls return -/

theorem nb_recv_empty (s : State) (k a : Nat) (h : s.recvpipes = []) :
    ctxRecv s k a .nb = (s, [Out.done a Err.eagain none false]) := by
  unfold ctxRecv; rw [h]

theorem nb_recv_ready (s : State) (k a : Nat) (r : Req) (rest : List Req) (h : s.recvpipes = r :: rest) :
    (ctxRecv s k a .nb).2 = [Out.parm r.pipe, Out.done a 0 (some ⟨[], r.body⟩) false] := by
  unfold ctxRecv; rw [h]

/-- result code of a non-blocking send on context `k` -/
def nbSendCode (s : State) (k : Nat) : Nat :=
  if (s.ctx k).saio.isSome then Err.estate
  else if (s.ctx k).btrace.length == 0 then Err.estate
  else match (s.ctx k).pipeId with
    | none => 0
    | some p => if !livePipe s p then 0 else if !(s.pipe p).busy then 0 else Err.eagain

theorem nb_send_code (s : State) (k a : Nat) (m : WMsg) :
    ∃ mb, Out.done a (nbSendCode s k) none mb ∈ (ctxSend s k a m .nb).2 ∧ (mb = true ↔ nbSendCode s k ≠ 0) := by
  unfold ctxSend nbSendCode
  dsimp only
  obtain ⟨f1, f2, f3⟩ := consumed_frame s k _ rfl
  generalize (if (k == 0) = true then setW (setCtx s k { s.ctx k with btrace := [], pipeId := none }) false
                else setCtx s k { s.ctx k with btrace := [], pipeId := none }) = s2 at f1 f2 f3 ⊢
  by_cases h1 : (s.ctx k).saio.isSome = true
  · rw [if_pos h1, if_pos h1]
    exact ⟨true, by simp, by simp [Err.estate]⟩
  · rw [if_neg h1, if_neg h1]
    by_cases h2 : ((s.ctx k).btrace.length == 0) = true
    · rw [if_pos h2, if_pos h2]
      exact ⟨true, by simp, by simp [Err.estate]⟩
    · rw [if_neg h2, if_neg h2]
      cases hp : (s.ctx k).pipeId with
      | none => exact ⟨false, by simp, by simp⟩
      | some p =>
        dsimp only
        rw [f1, f2]
        by_cases h3 : (!livePipe s p) = true
        · rw [if_pos h3, if_pos h3]
          exact ⟨false, by simp, by simp⟩
        · rw [if_neg h3, if_neg h3]
          by_cases h4 : (!(s.pipe p).busy) = true
          · rw [if_pos h4, if_pos h4]
            exact ⟨false, by simp, by simp⟩
          · rw [if_neg h4, if_neg h4]
            exact ⟨true, by simp, by simp [Err.eagain]⟩

/-- in a state satisfying the flag invariant: writable ⇔ a non-blocking send on the socket is
    accepted (result 0), provided the socket's previous reply is not still queued -/
theorem writable_iff_nb_send (s : State) (h : Inv2 s) (hc : s.closed = false) (hs : (s.ctx 0).saio = none) :
    s.writable = true ↔ nbSendCode s 0 = 0 := by
  rw [h.W hc]
  unfold sockCanSend nbSendCode
  rw [hs]
  simp only [Option.isSome_none, Bool.false_eq_true, if_false]
  cases hbt : (s.ctx 0).btrace with
  | nil => simp [Err.estate]
  | cons x xs =>
    simp only [List.isEmpty_cons, Bool.not_false, Bool.true_and, List.length_cons]
    have : ((xs.length + 1 == 0) = true) = False := by simp
    simp only [this, if_false]
    cases hp : (s.ctx 0).pipeId with
    | none => simp
    | some p =>
      simp only
      cases hl : livePipe s p <;> cases hb : (s.pipe p).busy <;> simp [Err.eagain]

/-- writable is never raised while a non-blocking send would return NNG_EAGAIN (no busy loop) -/
theorem writable_not_eagain (s : State) (h : Inv2 s) (hc : s.closed = false) (hw : s.writable = true) :
    nbSendCode s 0 ≠ Err.eagain := by
  rw [h.W hc] at hw
  unfold sockCanSend at hw
  unfold nbSendCode
  split
  · simp [Err.estate, Err.eagain]
  · split
    · simp [Err.estate, Err.eagain]
    · cases hp : (s.ctx 0).pipeId with
      | none => simp [Err.eagain]
      | some p =>
        rw [hp] at hw
        simp only [Bool.and_eq_true, Bool.or_eq_true] at hw
        simp only
        cases hl : livePipe s p <;> cases hb : (s.pipe p).busy <;> simp_all [Err.eagain]

theorem readable_iff_nb_recv (s : State) (h : Inv2 s) (hc : s.closed = false) (k a : Nat) :
    s.readable = true ↔ (ctxRecv s k a .nb).2 ≠ [Out.done a Err.eagain none false] := by
  rw [h.R hc]
  cases hrp : s.recvpipes with
  | nil => rw [nb_recv_empty s k a hrp]; simp
  | cons r rest => rw [nb_recv_ready s k a r rest hrp]; simp

end Nng.RepProofs
