/-
  Per-pipe invariant of the raw SURVEYOR / RESPONDENT models: send-queue accounting.
-/
import NngModel.Proofs.RawSurvMq
namespace Nng.RawSurv
open Nng Nng.Proto Nng.RawMq

/-- which message (if any) pipe `i` is to be offered when the socket takes `m` from the upper
    write queue: the specification of sock_getq_cb, pipe by pipe -/
abbrev Sel := Nat → WMsg → Option WMsg

structure PipeOK (sel : Sel) (cap : Nat) (sent : List WMsg) (i : Nat) (pp : Pipe) : Prop where
  perm : (pp.wired ++ pp.sq.items ++ pp.dropped).Perm pp.offered
  sub : (pp.wired ++ pp.sq.items).Sublist pp.offered
  capk : pp.sq.cap = cap
  occ : pp.sq.items.length ≤ pp.sq.cap
  nput : pp.sq.putq = []
  sqc : pp.sq.closed = pp.closed
  one : pp.sq.getq.length ≤ 1
  idle : pp.sq.getq ≠ [] → pp.sq.items = [] ∧ pp.busy = false
  fan : pp.closed = false → ∃ n, n ≤ sent.length ∧ pp.offered = (sent.drop n).filterMap (sel i)

def PipesInv (sel : Sel) (cap : Nat) (pipes : List Pipe) (sent : List WMsg) : Prop :=
  ∀ i pp, pipes[i]? = some pp → PipeOK sel cap sent i pp

theorem pipesInv_set {sel : Sel} {cap : Nat} {pipes : List Pipe} {sent : List WMsg} (h : PipesInv sel cap pipes sent)
    (p : Nat) (pp' : Pipe) (hp : PipeOK sel cap sent p pp') : PipesInv sel cap (pipes.set p pp') sent := by
  intro i pp hi
  rw [List.getElem?_set] at hi
  by_cases e : p = i
  · subst e
    rw [if_pos rfl] at hi
    by_cases hl : p < pipes.length
    · rw [if_pos hl] at hi; cases hi; exact hp
    · rw [if_neg hl] at hi; cases hi
  · rw [if_neg e] at hi; exact h i pp hi

theorem pipesInv_append {sel : Sel} {cap : Nat} {pipes : List Pipe} {sent : List WMsg} (h : PipesInv sel cap pipes sent)
    (pp' : Pipe) (hp : PipeOK sel cap sent pipes.length pp') : PipesInv sel cap (pipes ++ [pp']) sent := by
  intro i pp hi
  by_cases hl : i < pipes.length
  · rw [List.getElem?_append_left hl] at hi; exact h i pp hi
  · rw [List.getElem?_append_right (by omega)] at hi
    by_cases e : i = pipes.length
    · subst e; simp at hi; subst hi; exact hp
    · have : i - pipes.length ≠ 0 := by omega
      cases hk : i - pipes.length with
      | zero => omega
      | succ k => rw [hk] at hi; simp at hi

/-- flags that the accounting does not mention -/
theorem pipeOK_armed {sel : Sel} {cap : Nat} {sent : List WMsg} {i : Nat} {pp : Pipe} (h : PipeOK sel cap sent i pp) (b : Bool) :
    PipeOK sel cap sent i { pp with armed := b } :=
  ⟨h.perm, h.sub, h.capk, h.occ, h.nput, h.sqc, h.one, h.idle, h.fan⟩

theorem drop_append_filterMap (sel : Sel) (i : Nat) (sent : List WMsg) (m : WMsg) (n : Nat) (hn : n ≤ sent.length) :
    ((sent ++ [m]).drop n).filterMap (sel i) = (sent.drop n).filterMap (sel i) ++ (match sel i m with | some m' => [m'] | none => []) := by
  rw [List.drop_append_of_le_length hn, List.filterMap_append]
  cases h : sel i m <;> simp [List.filterMap, h]

theorem perm_ins {α : Type} {a b c : List α} (x : α) (h : (a ++ b).Perm c) : (a ++ x :: b).Perm (c ++ [x]) :=
  (List.perm_middle.trans (h.cons x)).trans (List.perm_append_singleton x c).symm

/-- the socket took `m`, and this pipe is not offered anything for it -/
theorem pipeOK_skip {sel : Sel} {cap : Nat} {sent : List WMsg} {i : Nat} {pp : Pipe} (h : PipeOK sel cap sent i pp) (m : WMsg)
    (hs : pp.closed = true ∨ sel i m = none) : PipeOK sel cap (sent ++ [m]) i pp := by
  refine ⟨h.perm, h.sub, h.capk, h.occ, h.nput, h.sqc, h.one, h.idle, ?_⟩
  intro hc
  rcases hs with hs | hs
  · rw [hs] at hc; cases hc
  · obtain ⟨n, hn, ho⟩ := h.fan hc
    refine ⟨n, by simp; omega, ?_⟩
    rw [drop_append_filterMap sel i sent m n hn, hs, ho]; simp

/-- nni_msgq_tryput on the pipe's send queue (+ getq_cb when the pipe was idle) -/
theorem pipeOK_offer {sel : Sel} {cap : Nat} {sent : List WMsg} {i : Nat} {pp : Pipe} (h : PipeOK sel cap sent i pp) (m m' : WMsg)
    (hc : pp.closed = false) (hs : sel i m = some m') : PipeOK sel cap (sent ++ [m]) i (offer i pp m').1 := by
  have hfan : ∃ n, n ≤ (sent ++ [m]).length ∧ pp.offered ++ [m'] = ((sent ++ [m]).drop n).filterMap (sel i) := by
    obtain ⟨n, hn, ho⟩ := h.fan hc
    refine ⟨n, by simp; omega, ?_⟩
    rw [drop_append_filterMap sel i sent m n hn, hs, ho]
  have hsc : pp.sq.closed = false := by rw [h.sqc]; exact hc
  unfold offer
  rw [hc]
  simp only [Bool.false_eq_true, if_false]
  unfold tryput
  rw [hsc]
  simp only [Bool.false_eq_true, if_false]
  cases hg : pp.sq.getq with
  | cons r rs =>
    have hi := (h.idle (by rw [hg]; simp)).1
    have hrs : rs = [] := by
      have := h.one; rw [hg] at this; simp at this; exact this
    subst hrs
    simp only []
    refine ⟨?_, ?_, h.capk, ?_, h.nput, rfl, by simp, ?_, fun _ => hfan⟩
    · show ((pp.wired ++ [m']) ++ pp.sq.items ++ pp.dropped).Perm (pp.offered ++ [m'])
      rw [hi]; simp only [List.append_nil]
      have := h.perm; rw [hi] at this; simp only [List.append_nil] at this
      simpa using perm_ins m' this
    · show ((pp.wired ++ [m']) ++ pp.sq.items).Sublist (pp.offered ++ [m'])
      rw [hi]; simp only [List.append_nil]
      have := h.sub; rw [hi] at this; simp only [List.append_nil] at this
      exact List.Sublist.append this (List.Sublist.refl _)
    · show pp.sq.items.length ≤ pp.sq.cap
      exact h.occ
    · intro hne; simp at hne
  | nil =>
    simp only []
    by_cases hl : pp.sq.items.length < pp.sq.cap
    · rw [if_pos hl]
      simp only []
      refine ⟨?_, ?_, h.capk, ?_, h.nput, rfl, ?_, ?_, fun _ => hfan⟩
      · show (pp.wired ++ (pp.sq.items ++ [m']) ++ pp.dropped).Perm (pp.offered ++ [m'])
        have := h.perm
        have e : pp.wired ++ (pp.sq.items ++ [m']) ++ pp.dropped = (pp.wired ++ pp.sq.items) ++ m' :: pp.dropped := by simp
        rw [e]
        exact perm_ins m' this
      · show (pp.wired ++ (pp.sq.items ++ [m'])).Sublist (pp.offered ++ [m'])
        rw [← List.append_assoc]
        exact List.Sublist.append h.sub (List.Sublist.refl _)
      · show (pp.sq.items ++ [m']).length ≤ pp.sq.cap
        simp; omega
      · simp
      · intro hne; exact absurd rfl hne
    · rw [if_neg hl]
      simp only []
      refine ⟨?_, ?_, h.capk, h.occ, h.nput, hsc, h.one, h.idle, fun _ => hfan⟩
      · show (pp.wired ++ pp.sq.items ++ (pp.dropped ++ [m'])).Perm (pp.offered ++ [m'])
        rw [← List.append_assoc]
        exact List.Perm.append_right _ h.perm
      · show (pp.wired ++ pp.sq.items).Sublist (pp.offered ++ [m'])
        exact h.sub.trans (List.sublist_append_left _ _)

/-- what send_cb does on success, with the pipe's reader not waiting (a transfer was in flight) -/
theorem pipeSent_some (s : State) (p : Nat) (pp : Pipe) (hg : pp.sq.getq = []) (m : WMsg) (ms : List WMsg)
    (hi : pp.sq.items = m :: ms) :
    pipeSent s p pp =
      (setPipe s p { pp with busy := true, sq := { pp.sq with getq := [], items := ms }, wired := pp.wired ++ [m] }, [.psend p m]) := by
  unfold pipeSent
  rw [aioGet_noreader _ _ hg]
  simp only [hi]

theorem pipeSent_none (s : State) (p : Nat) (pp : Pipe) (hg : pp.sq.getq = []) (hi : pp.sq.items = []) (hp : pp.sq.putq = []) :
    pipeSent s p pp = (setPipe s p { pp with busy := false, sq := { pp.sq with getq := [⟨p, none⟩] } }, []) := by
  unfold pipeSent
  rw [aioGet_noreader _ _ hg]
  simp only [hi, hp]

theorem pipeOK_sent_some {sel : Sel} {cap : Nat} {sent : List WMsg} {i : Nat} {pp : Pipe} (h : PipeOK sel cap sent i pp)
    (m : WMsg) (ms : List WMsg) (hi : pp.sq.items = m :: ms) :
    PipeOK sel cap sent i { pp with busy := true, sq := { pp.sq with getq := [], items := ms }, wired := pp.wired ++ [m] } := by
  refine ⟨?_, ?_, h.capk, ?_, h.nput, h.sqc, by simp, ?_, h.fan⟩
  · show (pp.wired ++ [m] ++ ms ++ pp.dropped).Perm pp.offered
    have := h.perm; rw [hi] at this; simpa using this
  · show (pp.wired ++ [m] ++ ms).Sublist pp.offered
    have := h.sub; rw [hi] at this; simpa using this
  · show ms.length ≤ pp.sq.cap
    have := h.occ; rw [hi] at this; simp at this; omega
  · intro hne; exact absurd rfl hne

theorem pipeOK_sent_none {sel : Sel} {cap : Nat} {sent : List WMsg} {i : Nat} {pp : Pipe} (h : PipeOK sel cap sent i pp)
    (r : Get) (hi : pp.sq.items = []) :
    PipeOK sel cap sent i { pp with busy := false, sq := { pp.sq with getq := [r] } } := by
  refine ⟨h.perm, h.sub, h.capk, h.occ, h.nput, h.sqc, by simp, ?_, h.fan⟩
  intro _; exact ⟨hi, rfl⟩

/-- pipe_close: the send queue is closed, what it still held is freed -/
theorem pipeOK_close {sel : Sel} {cap : Nat} {sent : List WMsg} {i : Nat} {pp : Pipe} (h : PipeOK sel cap sent i pp) :
    PipeOK sel cap sent i { pp with closed := true, armed := false, sq := RawMq.close pp.sq, dropped := pp.dropped ++ pp.sq.items } := by
  refine ⟨?_, ?_, h.capk, by simp [RawMq.close], rfl, rfl, by simp [RawMq.close], ?_, ?_⟩
  · show (pp.wired ++ [] ++ (pp.dropped ++ pp.sq.items)).Perm pp.offered
    have := h.perm
    simp only [List.append_nil]
    exact (List.Perm.append_left _ List.perm_append_comm).trans (by simpa using this)
  · show (pp.wired ++ []).Sublist pp.offered
    simp only [List.append_nil]
    exact (List.sublist_append_left _ _).trans h.sub
  · intro hne; simp [RawMq.close] at hne
  · intro hc; cases hc

/-- pipe_init + pipe_start -/
theorem pipeOK_new (sel : Sel) (cap : Nat) (sent : List WMsg) (i id : Nat) :
    PipeOK sel cap sent i { armed := true, sq := (aioGet { cap := cap } ⟨id, none⟩).1 } := by
  rw [aioGet_noreader _ _ rfl]
  refine ⟨by simp, by simp, rfl, by simp, rfl, rfl, by simp, ?_, ?_⟩
  · intro _; exact ⟨rfl, rfl⟩
  · intro _; exact ⟨sent.length, Nat.le_refl _, by simp⟩

/-- a pipe whose peer speaks the wrong protocol is rejected -/
theorem pipeOK_rejected (sel : Sel) (cap : Nat) (sent : List WMsg) (i : Nat) :
    PipeOK sel cap sent i { closed := true, sq := RawMq.close { cap := cap } } := by
  refine ⟨by simp [RawMq.close], by simp [RawMq.close], rfl, by simp [RawMq.close], rfl, rfl, by simp [RawMq.close], ?_, ?_⟩
  · intro hne; simp [RawMq.close] at hne
  · intro hc; cases hc

end Nng.RawSurv
