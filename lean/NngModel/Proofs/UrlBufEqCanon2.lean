/-
  C19, buffer model = functional model, part 3: the second canonicaliser pass (runs of '/').
  The C code skips a whole run with an inner `while (out[src] == '/') src++` (a `scan` in the
  buffer model); the functional model carries a flag `prev`.  `pass2_prev` relates the two.
-/
import NngModel.Proofs.UrlBufEqBase
set_option linter.unusedSimpArgs false
set_option linter.unusedVariables false
namespace Nng.UrlBufEq
open Nng Nng.Url Nng.UrlBuf Nng.UrlBufProofs Nng.UrlProofs

/-! ### functional side -/

/-- inside a run of '/' (`prev = true`) the pass drops the rest of the run and goes on as if
    nothing had been emitted -/
theorem pass2_prev (rest : Bytes) :
    pass2 false true rest = pass2 false false (rest.dropWhile (fun c => decide (c = SLASH))) := by
  induction rest with
  | nil => rfl
  | cons c r ih =>
    by_cases hc : c = SLASH
    · subst hc
      simp only [List.dropWhile_cons, decide_true, if_true]
      rw [← ih]
      simp [pass2]
    · simp only [List.dropWhile_cons, hc, decide_false, Bool.false_eq_true, if_false]
      simp [pass2, hc]

theorem pass2_slash (rest : Bytes) :
    pass2 false false (SLASH :: rest) =
      SLASH :: pass2 false false (rest.dropWhile (fun c => decide (c = SLASH))) := by
  rw [← pass2_prev]; simp [pass2]

theorem pass2_copy (skip : Bool) (c : UInt8) (rest : Bytes) (h : (c = SLASH && !skip) = false) :
    pass2 skip false (c :: rest) = c :: pass2 (skip || c = QM || c = HASH) false rest := by
  simp only [pass2]
  rw [if_neg (by rw [h]; simp)]

theorem pass2_mem (skip prev : Bool) (l : Bytes) : ∀ x ∈ pass2 skip prev l, x ∈ l := by
  induction l generalizing skip prev with
  | nil => intro x hx; simp [pass2] at hx
  | cons c r ih =>
    intro x hx
    simp only [pass2] at hx
    split at hx
    · split at hx
      · exact List.mem_cons_of_mem _ (ih _ _ x hx)
      · rcases List.mem_cons.1 hx with e | hx
        · rename_i hcs _
          simp only [Bool.and_eq_true, decide_eq_true_eq] at hcs
          rw [e, ← hcs.1]; exact List.mem_cons_self
        · exact List.mem_cons_of_mem _ (ih _ _ x hx)
    · rcases List.mem_cons.1 hx with e | hx
      · rw [e]; exact List.mem_cons_self
      · exact List.mem_cons_of_mem _ (ih _ _ x hx)

/-! ### one lemma per branch of the loop body -/

theorem canon2_end (fuel : Nat) (m : Mem) (skip : Bool) (src dst : Nat) (h0 : m.rd src = 0) :
    canon2 (fuel + 1) m skip src dst = (m.chk src).wr dst 0 := by
  rw [canon2.eq_2]
  simp only
  rw [if_pos (show (m.chk src).rd src = 0 from h0)]

theorem canon2_run (fuel : Nat) (m : Mem) (src dst : Nat) (h0 : m.rd src = SLASH) :
    canon2 (fuel + 1) m false src dst =
      canon2 fuel (scan (fun x => decide (x ≠ SLASH)) (fuel + 1) ((m.chk src).wr dst SLASH) src).1 false
        (scan (fun x => decide (x ≠ SLASH)) (fuel + 1) ((m.chk src).wr dst SLASH) src).2 (dst + 1) := by
  rw [canon2.eq_2]
  simp only
  rw [if_neg (show ¬ (m.chk src).rd src = 0 from by rw [rd_chk, h0]; decide),
    if_pos (show ((m.chk src).rd src = SLASH && !false) = true from by simp [h0])]

theorem canon2_copy {len : Nat} (fuel : Nat) (m : Mem) (skip : Bool) (src dst : Nat) (h : Inv len m)
    (hs : src < len) (hd : dst ≤ src) (h0 : m.rd src ≠ 0) (hc : (m.rd src = SLASH && !skip) = false) :
    ∃ m', canon2 (fuel + 1) m skip src dst =
        canon2 fuel m' (skip || m.rd src = QM || m.rd src = HASH) (src + 1) (dst + 1) ∧ Inv len m' ∧
      ∀ j, m'.rd j = if dst = j then m.rd src else m.rd j := by
  have hc' := chk_inv h (i := src) (by omega)
  refine ⟨(m.chk src).wr dst (m.rd src), ?_, wr_lt hc' (by omega), fun j => rd_wr_inv hc' (by omega) j _⟩
  rw [canon2.eq_2]
  simp only
  rw [if_neg (show ¬ (m.chk src).rd src = 0 from h0),
    if_neg (show ¬ ((m.chk src).rd src = SLASH && !skip) = true from by rw [rd_chk, hc]; simp)]
  rfl

/-! ### the loop -/

theorem canon2_eq {len : Nat} : ∀ (fuel : Nat) (l : Bytes) (m : Mem) (skip : Bool) (src dst : Nat),
    Inv len m → CStr len m src l → dst ≤ src → len < src + fuel →
    CStr len (canon2 fuel m skip src dst) dst (pass2 skip false l) ∧
    ∀ i, i < dst → (canon2 fuel m skip src dst).rd i = m.rd i := by
  intro fuel
  induction fuel with
  | zero => intro l m skip src dst _ hs _ hf; have := hs.le; omega
  | succ fuel ih =>
    intro l m skip src dst h hs hd hf
    have hle := hs.le
    have hhead := cstr_head l hs
    have hc := chk_inv h (i := src) (by omega)
    match l, hs, hle, hhead with
    | [], hs, hle, hhead =>
      simp only [List.headD_nil] at hhead
      rw [canon2_end fuel m skip src dst hhead]
      refine ⟨⟨trivial, ?_, by simp [pass2], by simp [pass2]; omega⟩, ?_⟩
      · simpa [pass2] using rd_wr_same hc (by omega) 0
      · intro i hi; rw [rd_wr_ne hc (by omega) _ (by omega)]; rfl
    | c :: rest, hs, hle, hhead =>
      simp only [List.headD_cons] at hhead
      simp only [List.length_cons] at hle
      have hc0 : c ≠ 0 := fun e => hs.nz (by simp [e])
      have hrest := cstr_tail c rest hs
      by_cases hsl : (c = SLASH && !skip) = true
      · simp only [Bool.and_eq_true, decide_eq_true_eq, Bool.not_eq_true'] at hsl
        obtain ⟨hcs, hsk⟩ := hsl
        subst hcs; subst hsk
        rw [canon2_run fuel m src dst hhead, pass2_slash]
        -- the memory after the write of '/' at dst, and the run of '/' at src
        have hw := wr_lt (v := SLASH) hc (i := dst) (by omega)
        have rw' : ∀ j, ((m.chk src).wr dst SLASH).rd j = if dst = j then SLASH else m.rd j :=
          fun j => rd_wr_inv hc (by omega) j _
        have hsplit : SLASH :: rest = (SLASH :: rest.takeWhile (fun c => decide (c = SLASH))) ++
            rest.dropWhile (fun c => decide (c = SLASH)) := by
          rw [List.cons_append, List.takeWhile_append_dropWhile]
        have hs' := hs
        rw [hsplit] at hs'
        have hsw : CStr len ((m.chk src).wr dst SLASH) src
            ((SLASH :: rest.takeWhile (fun c => decide (c = SLASH))) ++
              rest.dropWhile (fun c => decide (c = SLASH))) := by
          refine cstr_frame hs' (fun i a _ => ?_)
          rw [rw']
          by_cases e : dst = i
          · rw [if_pos e]
            have : i = src := by omega
            rw [this]; exact hhead.symm
          · rw [if_neg e]
        have hstop := scan_stop (fun x => decide (x ≠ SLASH)) (SLASH :: rest.takeWhile (fun c => decide (c = SLASH)))
          (fuel + 1) _ src hw ((seg_append _ _ src).1 hsw.seg).1 ?_ ?_ ?_ (by omega)
        · obtain ⟨a1, _, _, a4⟩ := scan_inv (fun x => decide (x ≠ SLASH)) (fuel + 1) _ src hw (by omega) (by omega)
          rw [hstop]
          have hsuf := cstr_suffix _ _ hsw
          have hlen1 : (SLASH :: rest.takeWhile (fun c => decide (c = SLASH))).length =
            (rest.takeWhile (fun c => decide (c = SLASH))).length + 1 := by simp
          have hsufle := hsuf.le
          obtain ⟨b1, b2⟩ := ih (rest.dropWhile (fun c => decide (c = SLASH))) _ false
            (src + (SLASH :: rest.takeWhile (fun c => decide (c = SLASH))).length) (dst + 1) a1
            (cstr_buf hsuf a4) (by rw [hlen1]; omega) (by rw [hlen1]; omega)
          refine ⟨⟨⟨?_, b1.seg⟩, ?_, ?_, ?_⟩, ?_⟩
          · rw [b2 dst (by omega), rd_buf a4, rw', if_pos rfl]
          · have := b1.term
            simp only [List.length_cons]
            rw [show dst + ((pass2 false false (rest.dropWhile (fun c => decide (c = SLASH)))).length + 1) =
              dst + 1 + (pass2 false false (rest.dropWhile (fun c => decide (c = SLASH)))).length by omega]
            exact this
          · simp only [List.mem_cons, not_or]
            exact ⟨by decide, b1.nz⟩
          · have := b1.le; simp only [List.length_cons]; omega
          · intro i hi
            rw [b2 i (by omega), rd_buf a4, rw', if_neg (by omega)]
        · intro x hx
          have hx' : x = SLASH := by
            rcases List.mem_cons.1 hx with e | hx
            · exact e
            · have := mem_takeWhile_true _ _ x hx; simpa using this
          subst hx'
          exact ⟨by decide, by decide⟩
        · rw [cstr_mid _ _ hsw]
          cases hd' : rest.dropWhile (fun c => decide (c = SLASH)) with
          | nil => left; rfl
          | cons y t =>
            right
            have := dropWhile_head_false _ rest y t hd'
            simpa using this
        · have := hsw.le; simp only [List.length_append] at this; omega
      · have hsl' : (c = SLASH && !skip) = false := by simpa using hsl
        obtain ⟨m', e, hi', hrd⟩ := canon2_copy fuel m skip src dst h (by omega) hd (by rw [hhead]; exact hc0)
          (by rw [hhead]; exact hsl')
        rw [hhead] at hrd e
        rw [e, pass2_copy skip c rest hsl']
        have hs' : CStr len m' (src + 1) rest :=
          cstr_frame hrest (fun i a _ => by rw [hrd, if_neg (by omega)])
        obtain ⟨b1, b2⟩ := ih rest m' (skip || c = QM || c = HASH) (src + 1) (dst + 1) hi' hs' (by omega) (by omega)
        refine ⟨⟨⟨?_, b1.seg⟩, ?_, ?_, ?_⟩, ?_⟩
        · rw [b2 dst (by omega), hrd, if_pos rfl]
        · have := b1.term
          simp only [List.length_cons]
          rw [show dst + ((pass2 (skip || c = QM || c = HASH) false rest).length + 1) =
            dst + 1 + (pass2 (skip || c = QM || c = HASH) false rest).length by omega]; exact this
        · simp only [List.mem_cons, not_or]
          exact ⟨fun e0 => hc0 e0.symm, b1.nz⟩
        · have := b1.le; simp only [List.length_cons]; omega
        · intro i hi; rw [b2 i (by omega), hrd, if_neg (by omega)]

end Nng.UrlBufEq
