/-
  C16U: the C string helpers of the handshake model (strcasecmp, strncasecmp, strcasestr, the
  ws_contains_word loop, the header lookup, atoi) compute the positional / arithmetic notions of
  Spec/WsUpgrade.lean.
-/
import NngModel.Model.WsUpgrade
import NngModel.Spec.WsUpgrade
namespace Nng.WsUp
open Nng.WsSpec (fold ciEq lookup matchAt scan hasWord isSep ciContains leadingInt)

theorem str_eq (x : String) : WsAccept.str x = WsSpec.s x := rfl

theorem lower_eq (c : UInt8) : lower c = fold c := rfl

theorem ciEq_nil : ciEq [] [] = true := rfl

theorem ciEq_cons (x y : UInt8) (a b : Bytes) : ciEq (x :: a) (y :: b) = (fold x == fold y && ciEq a b) := by
  simp only [ciEq, List.map_cons]
  by_cases h : fold x = fold y
  · simp [h]
  · simp [h]

theorem caseEq_eq : ∀ a b : Bytes, caseEq a b = ciEq a b := by
  intro a
  induction a with
  | nil => intro b; cases b <;> simp [caseEq, ciEq]
  | cons x a ih =>
    intro b
    cases b with
    | nil => simp [caseEq, ciEq]
    | cons y b => rw [caseEq, ih, ciEq_cons, lower_eq, lower_eq]

theorem prefixCaseEq_eq : ∀ p w : Bytes, prefixCaseEq p w = (decide (w.length ≤ p.length) && ciEq (p.take w.length) w) := by
  intro p
  induction p with
  | nil => intro w; cases w <;> simp [prefixCaseEq, ciEq]
  | cons x p ih =>
    intro w
    cases w with
    | nil => simp [prefixCaseEq, ciEq]
    | cons y w =>
      rw [prefixCaseEq, ih, lower_eq, lower_eq]
      simp only [List.length_cons, List.take_succ_cons, ciEq_cons, Nat.add_le_add_iff_right]
      cases fold x == fold y <;> cases decide (w.length ≤ p.length) <;> simp

theorem wordHere_eq (p w : Bytes) : wordHere p w = matchAt p w := by
  simp only [wordHere, matchAt, prefixCaseEq_eq, isSep]
  cases p.drop w.length <;> simp

theorem getHeader_eq : ∀ (h : Hdrs) (name : Bytes), getHeader h name = lookup h name := by
  intro h
  induction h with
  | nil => intro name; rfl
  | cons e r ih =>
    intro name
    obtain ⟨n, v⟩ := e
    simp only [getHeader, caseEq_eq, lookup, List.find?_cons]
    by_cases hc : ciEq n name = true
    · simp [hc]
    · have hc' : ciEq n name = false := by simpa using hc
      simp only [hc', Bool.false_eq_true, if_false]
      exact ih name

/-! ### ws_contains_word = hasWord -/

/-- what the loop does after the word test failed at the current position -/
def cont (w : Bytes) (fuel : Nat) (p : Bytes) : Bool :=
  match toSpace p with
  | none => false
  | some q => containsGo w fuel (skipSep q)

theorem containsGo_succ (w : Bytes) (fuel : Nat) (p : Bytes) (hp : p ≠ []) :
    containsGo w (fuel + 1) p = (wordHere p w || cont w fuel p) := by
  have : p.isEmpty = false := by cases p <;> simp_all
  simp only [containsGo, this, cont]
  cases wordHere p w <;> first | rfl | simp

theorem containsGo_nil (w : Bytes) (fuel : Nat) : containsGo w fuel [] = false := by
  cases fuel <;> simp [containsGo]

theorem loop_scan (w : Bytes) : ∀ (n : Nat),
    (∀ p : Bytes, p.length ≤ n → ∀ f, p.length ≤ f → cont w f p = scan w p false) ∧
    (∀ r : Bytes, r.length ≤ n → ∀ f, r.length + 1 ≤ f → containsGo w f (skipSep r) = scan w r true) := by
  intro n
  induction n with
  | zero =>
    refine ⟨?_, ?_⟩
    · intro p hp f _
      have : p = [] := List.eq_nil_of_length_eq_zero (by omega)
      subst this; rfl
    · intro r hr f _
      have : r = [] := List.eq_nil_of_length_eq_zero (by omega)
      subst this
      simp [skipSep, containsGo_nil, scan]
  | succ n ih =>
    obtain ⟨ihA, ihB⟩ := ih
    have hA : ∀ p : Bytes, p.length ≤ n + 1 → ∀ f, p.length ≤ f → cont w f p = scan w p false := by
      intro p hp f hf
      match p, hp, hf with
      | [], _, _ => rfl
      | c :: r, hp, hf =>
        simp only [List.length_cons] at hp hf
        by_cases h32 : c = 32
        · subst h32
          have e : cont w f ((32 : UInt8) :: r) = containsGo w f (skipSep r) := by
            simp [cont, toSpace, skipSep]
          rw [e, ihB r (by omega) f (by omega)]
          simp [scan, isSep]
        · have e : cont w f (c :: r) = cont w f r := by simp [cont, toSpace, h32]
          rw [e, ihA r (by omega) f (by omega)]
          by_cases h44 : c = 44
          · subst h44; simp [scan, isSep]
          · simp [scan, isSep, h32, h44]
    refine ⟨hA, ?_⟩
    intro r hr f hf
    match r, hr, hf with
    | [], _, _ => simp [skipSep, containsGo_nil, scan]
    | c :: r', hr, hf =>
      simp only [List.length_cons] at hr hf
      by_cases hsep : c = 32 ∨ c = 44
      · have e : skipSep (c :: r') = skipSep r' := by simp [skipSep, hsep]
        rw [e, ihB r' (by omega) f (by omega)]
        rcases hsep with h | h <;> subst h <;> simp [scan, isSep]
      · have e : skipSep (c :: r') = c :: r' := by simp [skipSep, hsep]
        rw [e]
        obtain ⟨f', rfl⟩ : ∃ f', f = f' + 1 := ⟨f - 1, by omega⟩
        rw [containsGo_succ w f' (c :: r') (by simp), hA (c :: r') (by simp; omega) f' (by simp; omega), wordHere_eq]
        have h1 : ¬ c = 32 := fun h => hsep (Or.inl h)
        have h2 : ¬ c = 44 := fun h => hsep (Or.inr h)
        simp [scan, isSep, h1, h2]

/-- ws_contains_word decides the positional rule of the specification -/
theorem containsWord_eq (p w : Bytes) : containsWord p w = hasWord p w := by
  unfold containsWord hasWord
  cases p with
  | nil => simp [containsGo]
  | cons c r =>
    rw [containsGo_succ w _ (c :: r) (by simp), (loop_scan w (c :: r).length).1 (c :: r) (Nat.le_refl _) _ (Nat.le_refl _), wordHere_eq]
    simp

/-! ### strcasestr, atoi -/

theorem ciContains_cons (x : UInt8) (v t : Bytes) :
    ciContains (x :: v) t = ((decide (t.length ≤ (x :: v).length) && ciEq ((x :: v).take t.length) t) || ciContains v t) := by
  unfold ciContains
  rw [List.length_cons, List.range_succ_eq_map, List.any_cons, List.any_map]
  have hg : ((fun i => decide (i + t.length ≤ v.length + 1) && ciEq (((x :: v).drop i).take t.length) t) ∘ Nat.succ) =
      fun i => decide (i + t.length ≤ v.length) && ciEq ((v.drop i).take t.length) t := by
    funext i
    simp only [Function.comp, Nat.succ_eq_add_one, List.drop_succ_cons]
    have : (i + 1 + t.length ≤ v.length + 1) = (i + t.length ≤ v.length) := by apply propext; omega
    simp only [this]
  rw [hg]
  simp

theorem caseFind_eq : ∀ v t : Bytes, caseFind v t = ciContains v t := by
  intro v
  induction v with
  | nil => intro t; cases t <;> simp [caseFind, ciContains, ciEq]
  | cons x v ih =>
    intro t
    rw [caseFind, prefixCaseEq_eq, ih, ciContains_cons]

theorem skipSpace_eq : ∀ v : Bytes, skipSpace v = v.dropWhile WsSpec.isSpace := by
  intro v
  induction v with
  | nil => rfl
  | cons x v ih =>
    have e : isSpace x = WsSpec.isSpace x := rfl
    by_cases h : WsSpec.isSpace x = true
    · simp [skipSpace, e, h, ih]
    · simp [skipSpace, e, h]

theorem digits_eq (lim : Nat) : ∀ (v : Bytes) (acc acc' : Nat), acc = min acc' lim →
    digits lim v acc = min ((v.takeWhile fun c => 48 ≤ c.toNat && c.toNat ≤ 57).foldl (fun a c => a * 10 + (c.toNat - 48)) acc') lim := by
  intro v
  induction v with
  | nil => intro acc acc' h; simpa [digits] using h
  | cons x v ih =>
    intro acc acc' h
    by_cases hd : 48 ≤ x.toNat ∧ x.toNat ≤ 57
    · have hd' : (decide (48 ≤ x.toNat) && decide (x.toNat ≤ 57)) = true := by simp [hd]
      simp only [digits, if_pos hd, List.takeWhile_cons, hd', if_true, List.foldl_cons]
      apply ih
      subst h
      omega
    · have hd' : (decide (48 ≤ x.toNat) && decide (x.toNat ≤ 57)) = false := by
        simp only [Bool.and_eq_false_iff, decide_eq_false_iff_not]; omega
      simp only [digits, if_neg hd, List.takeWhile_cons, hd', Bool.false_eq_true, if_false, List.foldl_nil]
      exact h

theorem atoi_eq (v : Bytes) : atoi v = leadingInt v := by
  unfold atoi leadingInt
  rw [skipSpace_eq]
  generalize v.dropWhile WsSpec.isSpace = u
  have d1 := fun x => digits_eq (2 ^ 63) x 0 0 (by omega)
  have d2 := fun x => digits_eq (2 ^ 63 - 1) x 0 0 (by omega)
  match u with
  | [] => simp only [d1, d2]
  | c :: r =>
    by_cases h45 : c = 45
    · subst h45; simp only [d1, d2]
    · by_cases h43 : c = 43
      · subst h43; simp only [d1, d2]
      · simp only [d1, d2]
        split <;> split <;> simp_all

end Nng.WsUp
