/- bookkeeping of submitted operations in the lifecycle model (C10): every submission is either
   parked or completed, never both, never twice -/
import NngModel.Model.Life
namespace Nng.LifeModel
open Nng.Life

structure AioInv (st : State) : Prop where
  pend_sorted : st.pend.Pairwise (fun a b => a.tok < b.tok)
  pend_lt : ∀ a ∈ st.pend, a.tok < st.nsub
  compl_lt : ∀ c ∈ st.compl, c.1 < st.nsub
  compl_nodup : (st.compl.map (·.1)).Nodup
  disjoint : ∀ a ∈ st.pend, ∀ c ∈ st.compl, a.tok ≠ c.1
  count : st.pend.length + st.compl.length = st.nsub

/-- the part of the state the invariant talks about -/
theorem AioInv_congr {st st' : State} (h1 : st'.pend = st.pend) (h2 : st'.compl = st.compl) (h3 : st'.nsub = st.nsub)
    (h : AioInv st) : AioInv st' := by
  constructor
  · rw [h1]; exact h.pend_sorted
  · rw [h1, h3]; exact h.pend_lt
  · rw [h2, h3]; exact h.compl_lt
  · rw [h2]; exact h.compl_nodup
  · rw [h1, h2]; exact h.disjoint
  · rw [h1, h2, h3]; exact h.count

theorem filter_length_split {α : Type} (l : List α) (f : α → Bool) :
    (l.filter f).length + (l.filter fun a => !f a).length = l.length := by
  induction l with
  | nil => rfl
  | cons x xs ih =>
    by_cases h : f x = true
    · simp [List.filter_cons, h]; omega
    · simp at h; simp [List.filter_cons, h]; omega

theorem completeWhere_inv (st : State) (f : PAio → Bool) (rv : Nat) (h : AioInv st) : AioInv (completeWhere st f rv).1 := by
  unfold completeWhere
  dsimp only
  constructor
  · exact h.pend_sorted.sublist List.filter_sublist
  · intro a ha; exact h.pend_lt a (List.mem_filter.mp ha).1
  · intro c hc
    simp only [List.mem_append, List.mem_map] at hc
    rcases hc with hc | ⟨a, ha, rfl⟩
    · exact h.compl_lt c hc
    · exact h.pend_lt a (List.mem_filter.mp ha).1
  · simp only [List.map_append, List.map_map]
    rw [List.nodup_append]
    refine ⟨h.compl_nodup, ?_, ?_⟩
    · have hs : ((st.pend.filter f).map fun a => a.tok).Pairwise (· < ·) := by
        rw [List.pairwise_map]; exact h.pend_sorted.sublist List.filter_sublist
      have : (((fun x : Nat × Nat × Nat => x.1) ∘ fun a : PAio => (a.tok, a.aio, rv)) : PAio → Nat) = fun a => a.tok := rfl
      rw [this]
      exact hs.imp (fun {a b} hab => Nat.ne_of_lt hab)
    · intro x hx y hy hxy
      simp only [List.mem_map] at hx hy
      obtain ⟨c, hc, rfl⟩ := hx
      obtain ⟨a, ha, rfl⟩ := hy
      exact h.disjoint a (List.mem_filter.mp ha).1 c hc hxy.symm
  · intro a ha c hc
    simp only [List.mem_append, List.mem_map] at hc
    have ha' := List.mem_filter.mp ha
    rcases hc with hc | ⟨b, hb, rfl⟩
    · exact h.disjoint a ha'.1 c hc
    · intro heq
      simp only at heq
      have hb' := List.mem_filter.mp hb
      -- same token, both in the sorted pending list: the same entry, but one passes f and one does not
      have : a = b := by
        apply Classical.byContradiction
        intro hne
        rcases List.mem_iff_getElem.mp ha'.1 with ⟨i, hi, rfl⟩
        rcases List.mem_iff_getElem.mp hb'.1 with ⟨j, hj, hbj⟩
        subst hbj
        rcases Nat.lt_trichotomy i j with hij | hij | hij
        · have := List.pairwise_iff_getElem.mp h.pend_sorted i j hi hj hij; omega
        · subst hij; exact hne rfl
        · have := List.pairwise_iff_getElem.mp h.pend_sorted j i hj hi hij; omega
      subst this
      simp [hb'.2] at ha'
  · simp only [List.length_append, List.length_map]
    have := filter_length_split st.pend f
    have := h.count
    omega

theorem finishNow_inv (st : State) (a rv : Nat) (h : AioInv st) : AioInv (finishNow st a rv).1 := by
  unfold finishNow
  constructor
  · exact h.pend_sorted
  · intro x hx; have := h.pend_lt x hx; simp only; omega
  · intro c hc
    simp only [List.mem_append, List.mem_singleton] at hc
    rcases hc with hc | rfl
    · have := h.compl_lt c hc; simp only; omega
    · simp
  · simp only [List.map_append, List.map_cons, List.map_nil]
    rw [List.nodup_append]
    refine ⟨h.compl_nodup, by simp, ?_⟩
    intro x hx y hy
    simp only [List.mem_singleton] at hy
    subst hy
    simp only [List.mem_map] at hx
    obtain ⟨c, hc, rfl⟩ := hx
    have := h.compl_lt c hc; omega
  · intro x hx c hc
    simp only [List.mem_append, List.mem_singleton] at hc
    rcases hc with hc | rfl
    · exact h.disjoint x hx c hc
    · have := h.pend_lt x hx; simp only; omega
  · simp only [List.length_append, List.length_singleton]; have := h.count; omega

theorem park_inv (st : State) (a : Nat) (t : Tgt) (h : AioInv st) : AioInv (park st a t).1 := by
  unfold park
  constructor
  · simp only [List.pairwise_append, List.pairwise_singleton, List.mem_singleton, forall_eq]
    exact ⟨h.pend_sorted, trivial, fun x hx => h.pend_lt x hx⟩
  · intro x hx
    simp only [List.mem_append, List.mem_singleton] at hx
    rcases hx with hx | rfl
    · have := h.pend_lt x hx; simp only; omega
    · simp
  · intro c hc; have := h.compl_lt c hc; simp only; omega
  · exact h.compl_nodup
  · intro x hx c hc
    simp only [List.mem_append, List.mem_singleton] at hx
    rcases hx with hx | rfl
    · exact h.disjoint x hx c hc
    · have := h.compl_lt c hc; simp only; omega
  · simp only [List.length_append, List.length_singleton]; have := h.count; omega

end Nng.LifeModel
