/-
  Invariants of the PULL model (Model/Pull.lean) over all event sequences.
-/
import NngModel.Model.Pull
namespace Nng.Pull
open Nng Nng.Proto

def reachFrom (s : State) (evs : List Ev) : State := evs.foldl (fun s e => (step s e).1) s
def reach (evs : List Ev) : State := reachFrom {} evs

/-- the messages currently held by pipes -/
def heldMsgs (ps : List Pipe) : List GMsg := ps.filterMap (·.held)

/-- the message held by pipe `p`, as a list -/
def heldOf (ps : List Pipe) (p : Nat) : List GMsg :=
  match getP ps p with
  | some pp => pp.held.toList
  | none => []

/-! ### pipe table lemmas -/

theorem getP_some {ps : List Pipe} {p : Nat} {pp : Pipe} (h : getP ps p = some pp) :
    pp ∈ ps ∧ pp.id = p := by
  unfold getP at h
  exact ⟨List.mem_of_find?_eq_some h, by simpa using List.find?_some h⟩

theorem getP_setP (ps : List Pipe) (pp' : Pipe) (p : Nat) :
    getP (setP ps pp') p = if p = pp'.id then (getP ps p).map (fun _ => pp') else getP ps p := by
  induction ps with
  | nil => simp [getP, setP]
  | cons q l ih =>
    simp only [getP, setP, List.map_cons, List.find?_cons] at ih ⊢
    by_cases h1 : q.id = pp'.id <;> by_cases h2 : p = pp'.id <;> simp [h1, h2] <;> grind

theorem getP_append (ps : List Pipe) (n : Pipe) (p : Nat) :
    getP (ps ++ [n]) p = (getP ps p).or (if n.id = p then some n else none) := by
  simp only [getP, List.find?_append, List.find?_cons, List.find?_nil]
  congr 1
  by_cases h : n.id = p
  · simp [h]
  · have : (n.id == p) = false := by simpa using h
    simp [this, h]

theorem setP_ids (ps : List Pipe) (pp' : Pipe) : (setP ps pp').map (·.id) = ps.map (·.id) := by
  simp only [setP, List.map_map]
  apply List.map_congr_left
  intro a _
  by_cases h : a.id = pp'.id <;> simp [h]

theorem setP_length (ps : List Pipe) (pp' : Pipe) : (setP ps pp').length = ps.length := by
  simp [setP]

theorem setP_eq_self {l : List Pipe} {pp' : Pipe} (h : ∀ q ∈ l, q.id ≠ pp'.id) : setP l pp' = l := by
  induction l with
  | nil => rfl
  | cons q l ih =>
    simp only [setP, List.map_cons] at ih ⊢
    rw [ih (fun r hr => h r (List.mem_cons_of_mem _ hr))]
    simp [h q (List.mem_cons_self)]

theorem heldMsgs_cons (q : Pipe) (l : List Pipe) : heldMsgs (q :: l) = q.held.toList ++ heldMsgs l := by
  unfold heldMsgs; cases h : q.held <;> simp [h]

theorem heldMsgs_setP {ps : List Pipe} {pp pp' : Pipe} (hn : (ps.map (·.id)).Nodup) (hm : pp ∈ ps)
    (hid : pp'.id = pp.id) (x : GMsg) :
    (heldMsgs (setP ps pp')).count x + pp.held.toList.count x
      = (heldMsgs ps).count x + pp'.held.toList.count x := by
  induction ps with
  | nil => simp at hm
  | cons q l ih =>
    simp only [List.map_cons, List.nodup_cons, List.mem_map, not_exists, not_and] at hn
    rcases List.mem_cons.1 hm with rfl | hm'
    · have : setP l pp' = l := setP_eq_self (fun r hr h => hn.1 r hr (by omega))
      have h2 : setP (pp :: l) pp' = pp' :: setP l pp' := by simp [setP, hid]
      rw [h2, this, heldMsgs_cons, heldMsgs_cons]; simp only [List.count_append]; omega
    · have hq : q.id ≠ pp'.id := by intro h; exact hn.1 pp hm' (by omega)
      have h2 : setP (q :: l) pp' = q :: setP l pp' := by simp [setP, hq]
      have := ih hn.2 hm'
      rw [h2, heldMsgs_cons, heldMsgs_cons]; simp only [List.count_append]; omega


structure Inv (s : State) : Prop where
  ids : s.pipes.map (·.id) = List.range s.pipes.length
  cons : ∀ x, s.arrived.count x = s.delivered.count x + (heldMsgs s.pipes).count x + s.discarded.count x
  gids : s.arrived.map (·.gid) = List.range s.narrive
  perPipe : ∀ p, s.arrived.filter (·.pipe == p)
      = s.delivered.filter (·.pipe == p) ++ heldOf s.pipes p ++ s.discarded.filter (·.pipe == p)
  wf : ∀ p pp, getP s.pipes p = some pp →
      (pp.armed = true ↔ (pp.closed = false ∧ pp.held = none)) ∧ (pp.closed = true → pp.held = none) ∧
      (∀ m, pp.held = some m → m.pipe = p)
  disc : ∀ x ∈ s.discarded, ∃ pp, getP s.pipes x.pipe = some pp ∧ pp.closed = true
  plSpec : ∀ p, p ∈ s.pl ↔ ∃ pp, getP s.pipes p = some pp ∧ pp.closed = false ∧ pp.held.isSome = true
  plNodup : s.pl.Nodup
  rqpl : s.rq ≠ [] → s.pl = []
  rd : s.closed = false → (s.readable = true ↔ s.pl ≠ [])

theorem inv_init : Inv ({} : State) := by
  constructor <;> simp [heldMsgs, heldOf, getP]

theorem ids_nodup {ps : List Pipe} (h : ps.map (·.id) = List.range ps.length) : (ps.map (·.id)).Nodup := by
  rw [h]; exact List.nodup_range

theorem closePipe_inv {s : State} (h : Inv s) (p : Nat) : Inv (closePipe s p).1 := by
  unfold closePipe getPipe
  split
  · exact h
  · rename_i pp hget
    split
    · exact h
    · rename_i hopen
      obtain ⟨hids, hc, hg, hpp, hwf, hd, hpl, hnd, hrq, hrd⟩ := h
      have hmem := getP_some hget
      have hwfp := hwf p pp hget
      have hpid : pp.id = p := hmem.2
      have hdp : s.discarded.filter (·.pipe == p) = [] := by
        rw [List.filter_eq_nil_iff]; intro x hx hxp
        obtain ⟨pp1, h1, h2⟩ := hd x hx
        have : x.pipe = p := by simpa using hxp
        rw [this, hget] at h1; cases h1; exact hopen h2
      have hne : s.pl ≠ [] ↔ ∃ x, x ∈ s.pl := by cases s.pl <;> simp
      generalize hpp' : ({ pp with closed := true, armed := false, held := none } : Pipe) = pp'
      have e1 : pp'.id = p := by subst hpp'; exact hpid
      have e2 : pp'.closed = true := by subst hpp'; rfl
      have e3 : pp'.armed = false := by subst hpp'; rfl
      have e4 : pp'.held = none := by subst hpp'; rfl
      constructor <;> simp only []
      · rw [setP_ids, setP_length]; exact hids
      · intro x
        have := heldMsgs_setP (pp' := pp') (ids_nodup hids) hmem.1 (by omega) x
        have := hc x
        simp only [List.count_append, e4, Option.toList_none, List.count_nil] at *; omega
      · exact hg
      · intro q
        have := hpp q
        unfold heldOf at this ⊢
        rw [getP_setP, e1]
        by_cases hq : q = p
        · subst hq
          rw [hget] at this
          simp only [hget, if_true, Option.map, e4, Option.toList_none]
          rw [List.filter_append, hdp]; rw [hdp] at this
          cases hh : pp.held with
          | none => simp [hh] at this ⊢; exact this
          | some m => have := hwfp.2.2 m hh; simp_all
        · have hmq : ∀ m, pp.held = some m → (m.pipe == q) = false := by
            intro m hm; have := hwfp.2.2 m hm; simp; omega
          rw [if_neg hq, List.filter_append]
          cases hh : pp.held with
          | none => simp [hh] at this ⊢; exact this
          | some m => have := hmq m hh; simp_all
      · intro q pq; rw [getP_setP]; grind
      · intro x hx; rw [getP_setP]; grind
      · intro q; rw [getP_setP]; grind
      · exact hnd.sublist List.filter_sublist
      · grind
      · intro hcl
        have := hrd hcl
        by_cases hmemp : p ∈ s.pl
        · simp [hmemp, List.filter_eq_nil_iff]; grind
        · have : s.pl.filter (· != p) = s.pl := by
            rw [List.filter_eq_self]; intro x hx; simp; intro h; exact hmemp (h ▸ hx)
          simp [hmemp, this]; grind


theorem closeAll_inv (l : List Nat) : ∀ {s : State}, Inv s → Inv (closeAll s l).1 := by
  induction l with
  | nil => intro s h; exact h
  | cons a l ih => intro s h; exact ih (closePipe_inv h a)

theorem failParked_inv {s : State} (h : Inv s) (a rv : Nat) : Inv (failParked s a rv).1 := by
  unfold failParked
  split
  · obtain ⟨hids, hc, hg, hpp, hwf, hd, hpl, hnd, hrq, hrd⟩ := h
    constructor <;> try assumption
    intro hne; apply hrq; intro h0; simp [h0] at hne
  · exact h

theorem failEach_inv (rv : Nat) (l : List Nat) : ∀ {s : State}, Inv s → Inv (failEach s rv l).1 := by
  induction l with
  | nil => intro s h; exact h
  | cons a l ih => intro s h; exact ih (failParked_inv h a rv)

theorem now_inv {s : State} (h : Inv s) (n : Nat) : Inv { s with now := n } := by
  obtain ⟨hids, hc, hg, hpp, hwf, hd, hpl, hnd, hrq, hrd⟩ := h
  constructor <;> assumption

theorem expire_inv {s : State} (h : Inv s) : Inv (expire s).1 := failEach_inv _ _ h

theorem heldMsgs_append (a b : List Pipe) : heldMsgs (a ++ b) = heldMsgs a ++ heldMsgs b := by
  simp [heldMsgs]

theorem getP_lt {ps : List Pipe} (hids : ps.map (·.id) = List.range ps.length) {p : Nat} {pp : Pipe}
    (h : getP ps p = some pp) : p < ps.length := by
  have := getP_some h
  have h2 : pp.id ∈ ps.map (·.id) := List.mem_map.2 ⟨pp, this.1, rfl⟩
  rw [hids, List.mem_range] at h2; omega

theorem getP_snoc {ps : List Pipe} (hids : ps.map (·.id) = List.range ps.length) (n : Pipe)
    (hn : n.id = ps.length) (p : Nat) :
    getP (ps ++ [n]) p = if p = ps.length then some n else getP ps p := by
  rw [getP_append]
  by_cases hp : p = ps.length
  · have : getP ps p = none := by
      cases h : getP ps p with
      | none => rfl
      | some pp => have := getP_lt hids h; omega
    rw [this]; simp [hp, hn]
  · have : ¬ n.id = p := by omega
    simp [hp, this]

theorem addPipe_inv {s : State} (h : Inv s) (n : Pipe) (hn : n.id = s.pipes.length) (hh : n.held = none)
    (ha : n.armed = true ↔ n.closed = false) : Inv { s with pipes := s.pipes ++ [n] } := by
  obtain ⟨hids, hc, hg, hpp, hwf, hd, hpl, hnd, hrq, hrd⟩ := h
  have hlt := @getP_lt s.pipes hids
  have hsn := getP_snoc hids n hn
  constructor <;> simp only [] <;> first | assumption | skip
  · simp [hids, hn, List.range_succ]
  · intro x; have := hc x; simp [heldMsgs_append, heldMsgs, hh] at this ⊢; omega
  · intro p; have := hpp p; unfold heldOf at this ⊢; rw [hsn]
    by_cases hp : p = s.pipes.length
    · have hnone : getP s.pipes p = none := by
        cases h : getP s.pipes p with
        | none => rfl
        | some pp => have := hlt h; omega
      rw [if_pos hp]; rw [hnone] at this; simpa [hh] using this
    · rw [if_neg hp]; exact this
  · intro p pp; rw [hsn]; grind
  · intro x hx; rw [hsn]; grind
  · intro p; rw [hsn]; grind

theorem evPipeAdd_inv {s : State} (h : Inv s) (peer : Nat) : Inv (evPipeAdd s peer).1 := by
  unfold evPipeAdd
  split
  · exact addPipe_inv h _ rfl rfl (by simp)
  · exact addPipe_inv h _ rfl rfl (by simp)


theorem evPipeDrop_inv {s : State} (h : Inv s) (p : Nat) : Inv (evPipeDrop s p).1 := by
  unfold evPipeDrop
  split
  · split
    · exact h
    · exact closePipe_inv h p
  · exact h

theorem heldOf_setP_same {ps : List Pipe} {p : Nat} {pp pp' : Pipe} (hget : getP ps p = some pp)
    (e1 : pp'.id = p) : heldOf (setP ps pp') p = pp'.held.toList := by
  unfold heldOf; rw [getP_setP, if_pos e1.symm, hget]; rfl

theorem heldOf_setP_other {ps : List Pipe} {q : Nat} {pp' : Pipe} (hq : q ≠ pp'.id) :
    heldOf (setP ps pp') q = heldOf ps q := by
  unfold heldOf; rw [getP_setP, if_neg hq]

/-- facts about an open, armed pipe -/
theorem armed_facts {s : State} (h : Inv s) {p : Nat} {pp : Pipe} (hget : getP s.pipes p = some pp)
    (hopen : pp.closed = false) (harm : pp.armed = true) :
    pp.held = none ∧ s.discarded.filter (·.pipe == p) = [] ∧ heldOf s.pipes p = [] ∧ p ∉ s.pl := by
  obtain ⟨hids, hc, hg, hpp, hwf, hd, hpl, hnd, hrq, hrd⟩ := h
  have hwfp := hwf p pp hget
  have hheld : pp.held = none := (hwfp.1.1 harm).2
  refine ⟨hheld, ?_, by simp [heldOf, hget, hheld], ?_⟩
  · rw [List.filter_eq_nil_iff]; intro x hx hxp
    obtain ⟨pp1, h1, h2⟩ := hd x hx
    have : x.pipe = p := by simpa using hxp
    rw [this, hget] at h1; cases h1; simp [hopen] at h2
  · intro hp; obtain ⟨pp1, h1, h2, h3⟩ := (hpl p).1 hp
    rw [hget] at h1; cases h1; simp [hheld] at h3

/-- pull0_recv_cb with no receiver waiting: the pipe keeps the message -/
theorem hold_inv {s : State} (h : Inv s) {p : Nat} {pp pp' : Pipe} {gm : GMsg}
    (hget : getP s.pipes p = some pp) (hopen : pp.closed = false) (harm : pp.armed = true)
    (hrq0 : s.rq = [])
    (e1 : pp'.id = pp.id) (e2 : pp'.closed = false) (e3 : pp'.armed = false) (e4 : pp'.held = some gm)
    (hgp : gm.pipe = p) (hgg : gm.gid = s.narrive) :
    Inv { s with narrive := s.narrive + 1, arrived := s.arrived ++ [gm],
                 pipes := setP s.pipes pp', pl := s.pl ++ [p],
                 readable := if (s.pl ++ [p]).head? == some p then true else s.readable } := by
  obtain ⟨hheld, hdp, hho, hpnot⟩ := armed_facts h hget hopen harm
  obtain ⟨hids, hc, hg, hpp, hwf, hd, hpl, hnd, hrq, hrd⟩ := h
  have hmem := getP_some hget
  have hpid : pp.id = p := hmem.2
  constructor <;> simp only []
  · rw [setP_ids, setP_length]; exact hids
  · intro x
    have := heldMsgs_setP (pp' := pp') (ids_nodup hids) hmem.1 e1 x
    have := hc x
    simp only [List.count_append, e4, hheld, Option.toList_none, Option.toList_some, List.count_nil] at *; omega
  · simp [hg, hgg, List.range_succ]
  · intro q
    have := hpp q
    rw [List.filter_append]
    by_cases hq : q = p
    · subst hq
      rw [heldOf_setP_same hget (by omega), e4]
      rw [hho, hdp] at this
      simp [hgp, hdp] at this ⊢; exact this
    · have hne : ¬ gm.pipe = q := by omega
      rw [heldOf_setP_other (by omega)]
      simp [hne] at this ⊢; exact this
  · intro q pq; rw [getP_setP]; grind
  · intro x hx; rw [getP_setP]; grind
  · intro q; rw [getP_setP]; grind
  · rw [List.nodup_append]; simp [hnd]; grind
  · simp [hrq0]
  · intro hcl; have := hrd hcl
    cases hpl0 : s.pl with
    | nil => simp
    | cons q l => simp [hpl0] at this hpnot ⊢; grind

/-- pull0_recv_cb with a receiver waiting: the message goes straight up -/
theorem direct_inv {s : State} (h : Inv s) {p : Nat} {pp : Pipe} {gm : GMsg} {a : Parked} {rest : List Parked}
    (hget : getP s.pipes p = some pp) (hopen : pp.closed = false) (harm : pp.armed = true)
    (hrq1 : s.rq = a :: rest) (hgp : gm.pipe = p) (hgg : gm.gid = s.narrive) :
    Inv { s with narrive := s.narrive + 1, arrived := s.arrived ++ [gm],
                 rq := rest, delivered := s.delivered ++ [gm] } := by
  obtain ⟨hheld, hdp, hho, hpnot⟩ := armed_facts h hget hopen harm
  obtain ⟨hids, hc, hg, hpp, hwf, hd, hpl, hnd, hrq, hrd⟩ := h
  constructor <;> simp only [] <;> first | assumption | skip
  · intro x; have := hc x; simp only [List.count_append] at *; omega
  · simp [hg, hgg, List.range_succ]
  · intro q
    have := hpp q
    rw [List.filter_append, List.filter_append]
    by_cases hq : q = p
    · subst hq
      rw [hho, hdp] at this ⊢
      simp [hgp] at this ⊢; exact this
    · have hne : ¬ gm.pipe = q := by omega
      simp [hne] at this ⊢; exact this
  · intro _; exact hrq (by simp [hrq1])

theorem evRecvDone_inv {s : State} (h : Inv s) (p : Nat) (r : Except Nat Bytes) :
    Inv (evRecvDone s p r).1 := by
  unfold evRecvDone getPipe
  split
  · rename_i pp hget
    split
    · exact h
    · rename_i hok
      simp only [Bool.or_eq_true, Bool.not_eq_true', not_or, Bool.not_eq_true, Bool.not_eq_false] at hok
      split
      · exact closePipe_inv h p
      · rename_i b
        split
        · rename_i hrq0
          exact hold_inv h hget hok.1 hok.2 hrq0 rfl hok.1 rfl rfl rfl rfl
        · rename_i a rest hrq1
          exact direct_inv h hget hok.1 hok.2 hrq1 rfl rfl
  · exact h


/-- pull0_sock_recv finding a message on the first pipe of the ready list -/
theorem take_inv {s : State} (h : Inv s) {p : Nat} {rest : List Nat} {pp pp' : Pipe} {gm : GMsg}
    (hpl0 : s.pl = p :: rest) (hget : getP s.pipes p = some pp) (hheld : pp.held = some gm)
    (e1 : pp'.id = pp.id) (e2 : pp'.closed = pp.closed) (e3 : pp'.armed = true) (e4 : pp'.held = none) :
    Inv { s with pl := rest, delivered := s.delivered ++ [gm],
                 readable := if rest.isEmpty then false else s.readable,
                 pipes := setP s.pipes pp' } := by
  obtain ⟨hids, hc, hg, hpp, hwf, hd, hpl, hnd, hrq, hrd⟩ := h
  have hmem := getP_some hget
  have hpid : pp.id = p := hmem.2
  have hwfp := hwf p pp hget
  have hgp : gm.pipe = p := hwfp.2.2 gm hheld
  have hopen : pp.closed = false := by
    obtain ⟨pp1, h1, h2, _⟩ := (hpl p).1 (by simp [hpl0])
    rw [hget] at h1; cases h1; exact h2
  have hprest : p ∉ rest := by rw [hpl0] at hnd; exact (List.nodup_cons.1 hnd).1
  constructor <;> simp only [] <;> first | assumption | skip
  · rw [setP_ids, setP_length]; exact hids
  · intro x
    have := heldMsgs_setP (pp' := pp') (ids_nodup hids) hmem.1 e1 x
    have := hc x
    simp only [List.count_append, e4, hheld, Option.toList_none, Option.toList_some, List.count_nil] at *; omega
  · intro q
    have := hpp q
    rw [List.filter_append]
    by_cases hq : q = p
    · subst hq
      rw [heldOf_setP_same hget (by omega), e4]
      simp [heldOf, hget, hheld] at this
      simp [hgp]; exact this
    · have hne : ¬ gm.pipe = q := by omega
      rw [heldOf_setP_other (by omega)]
      simp [hne] at this ⊢; exact this
  · intro q pq; rw [getP_setP]; grind
  · intro x hx; rw [getP_setP]; grind
  · intro q; rw [getP_setP]; have := hpl q; rw [hpl0] at this; grind
  · rw [hpl0] at hnd; exact (List.nodup_cons.1 hnd).2
  · intro hne; have := hrq hne; simp [hpl0] at this
  · intro hcl; have := hrd hcl; cases rest <;> simp_all

theorem evRecv_inv {s : State} (h : Inv s) (a : Nat) (mode : Mode) : Inv (evRecv s a mode).1 := by
  unfold evRecv getPipe
  split
  · exact h
  · split
    · rename_i hpl0
      split
      · exact h
      · obtain ⟨hids, hc, hg, hpp, hwf, hd, hpl, hnd, hrq, hrd⟩ := h
        constructor <;> simp only [] <;> first | assumption | skip
        intro _; exact hpl0
    · rename_i p rest hpl0
      split
      · rename_i pp hget
        split
        · rename_i gm hheld
          exact take_inv h hpl0 hget hheld rfl rfl rfl rfl
        · exact h
      · exact h

theorem evSend_inv {s : State} (h : Inv s) (a : Nat) : Inv (evSend s a).1 := by
  unfold evSend; split <;> exact h

theorem evClose_inv {s : State} (h : Inv s) : Inv (evClose s).1 := by
  unfold evClose
  have h1 : Inv { s with rq := [] } := by
    obtain ⟨hids, hc, hg, hpp, hwf, hd, hpl, hnd, hrq, hrd⟩ := h
    constructor <;> simp only [] <;> first | assumption | skip
    simp
  have h2 := closeAll_inv (s.pipes.map (·.id)) h1
  generalize closeAll _ _ = r at h2
  obtain ⟨hids, hc, hg, hpp, hwf, hd, hpl, hnd, hrq, hrd⟩ := h2
  constructor <;> simp only [] <;> first | assumption | skip
  simp

theorem stepLive_inv {s : State} (h : Inv s) (ev : Ev) : Inv (stepLive s ev).1 := by
  cases ev <;> simp only [stepLive]
  case pipeAdd peer => exact evPipeAdd_inv h peer
  case pipeDrop p => exact evPipeDrop_inv h p
  case recvDone p r => exact evRecvDone_inv h p r
  case send c a m mode => exact evSend_inv h a
  case recv c a mode => exact evRecv_inv h a mode
  case cancel a => exact failParked_inv h a _
  case abort a rv => exact failParked_inv h a rv
  case advance ms => exact expire_inv (now_inv h _)
  case close => exact evClose_inv h
  all_goals exact h

theorem stepIdle_inv {s : State} (h : Inv s) (ev : Ev) : Inv (stepIdle s ev).1 := by
  cases ev <;> simp only [stepIdle]
  case advance ms => exact now_inv h _
  all_goals exact h

theorem step_inv {s : State} (h : Inv s) (ev : Ev) : Inv (step s ev).1 := by
  unfold step
  split
  · split
    · obtain ⟨hids, hc, hg, hpp, hwf, hd, hpl, hnd, hrq, hrd⟩ := h
      constructor <;> assumption
    · exact stepIdle_inv h _
  · split
    · exact stepIdle_inv h _
    · exact stepLive_inv h _

theorem reachFrom_inv (evs : List Ev) : ∀ {s : State}, Inv s → Inv (reachFrom s evs) := by
  induction evs with
  | nil => intro s h; exact h
  | cons e es ih => intro s h; exact ih (step_inv h e)

theorem reach_inv (evs : List Ev) : Inv (reach evs) := reachFrom_inv evs inv_init


theorem getP_of_mem {ps : List Pipe} (hn : (ps.map (·.id)).Nodup) {pp : Pipe} (hm : pp ∈ ps) :
    getP ps pp.id = some pp := by
  induction ps with
  | nil => simp at hm
  | cons q l ih =>
    simp only [List.map_cons, List.nodup_cons, List.mem_map, not_exists, not_and] at hn
    unfold getP at ih ⊢
    rw [List.find?_cons]
    rcases List.mem_cons.1 hm with rfl | hm'
    · simp
    · have : (q.id == pp.id) = false := by
        simp; intro h; exact hn.1 pp hm' h.symm
      rw [this]; exact ih hn.2 hm'

/-- the defensive branches of `evRecv` are dead code in every reachable state -/
theorem evRecv_not_broken {s : State} (h : Inv s) (a : Nat) (mode : Mode) :
    Out.other "model-invariant-broken" ∉ (evRecv s a mode).2 := by
  unfold evRecv getPipe
  split
  · simp
  · split
    · split <;> simp
    · rename_i p rest hpl0
      obtain ⟨pp, h1, h2, h3⟩ := (h.plSpec p).1 (by simp [hpl0])
      rw [h1]
      cases hh : pp.held with
      | none => simp [hh] at h3
      | some gm => simp only [hh]; simp

end Nng.Pull
