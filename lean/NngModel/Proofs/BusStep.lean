/-
  BUS model: what one `send` / one arrival puts on the wires (fan-out, origin exclusion,
  completion), stated on the step functions.
-/
import NngModel.Proofs.BusInv
import NngModel.Proofs.BytesLemmas
import NngModel.Generated.C09
namespace Nng.Bus
open Nng Nng.Proto

/-- the message `bus0_sock_send` works with after its header processing -/
def sendMsg (s : State) (m : WMsg) : SMsg :=
  ⟨s.nsend, (parseSender s.raw m.hdr).1, ⟨(parseSender s.raw m.hdr).2, m.body⟩⟩

/-- the transport hand-offs of one send -/
def sendWire (s : State) (m : WMsg) : List Out :=
  (s.pipes.mapIdx (fun i pp => (offer s.raw (sendMsg s m) i pp).2)).flatten

theorem onSend_outs (s : State) (a : Nat) (m : WMsg) :
    (onSend s a m).2 = sendWire s m ++ [.done a 0 none false] := rfl

theorem onSend_pipes (s : State) (a : Nat) (m : WMsg) :
    (onSend s a m).1.pipes = s.pipes.mapIdx (fun i pp => (offer s.raw (sendMsg s m) i pp).1) := rfl

/-- pipe `i` takes the message directly: attached, not the origin, idle -/
def eligible (raw : Bool) (gm : SMsg) (i : Nat) (pp : Pipe) : Prop :=
  pp.closed = false ∧ (raw && pid i == gm.excl) = false ∧ pp.busy = none

theorem offer_outs {raw gm i pp} (o : Out) :
    o ∈ (offer raw gm i pp).2 ↔ eligible raw gm i pp ∧ o = Out.psend i gm.m := by
  unfold eligible
  cases hc : pp.closed with
  | true => simp [offer_detached hc]
  | false =>
  cases he : (raw && pid i == gm.excl) with
  | true => simp [offer_origin he]
  | false =>
  cases hb : pp.busy.isNone with
  | true =>
    have hbn : pp.busy = none := by simpa using hb
    simp [offer_direct hc he hbn, hbn]
  | false =>
    have hbs : pp.busy ≠ none := by intro hx; simp [hx] at hb
    by_cases hq : pp.sq.length < pp.sqCap
    · simp [offer_queued hc he hb hq, hbs]
    · simp [offer_full hc he hb hq, hbs]

/-- (B1) exactly the attached, idle, non-origin pipes get the message now — its wire
    form, whole -/
theorem sendWire_mem (s : State) (m : WMsg) (o : Out) :
    o ∈ sendWire s m ↔
      ∃ i pp, s.pipes[i]? = some pp ∧ eligible s.raw (sendMsg s m) i pp ∧ o = Out.psend i (sendMsg s m).m := by
  unfold sendWire
  simp only [List.mem_flatten, List.mem_mapIdx]
  constructor
  · rintro ⟨l, ⟨i, hi, rfl⟩, ho⟩
    exact ⟨i, s.pipes[i], by simp [hi], (offer_outs o).mp ho⟩
  · rintro ⟨i, pp, hx, he, ho⟩
    obtain ⟨hi, hpp⟩ := List.getElem?_eq_some_iff.mp hx
    exact ⟨_, ⟨i, hi, rfl⟩, (offer_outs o).mpr ⟨by rw [hpp]; exact he, ho⟩⟩

def isPsendTo (i : Nat) : Out → Bool
  | .psend p _ => p == i
  | _ => false

theorem countP_offer_le {raw gm} (j i : Nat) (pp : Pipe) :
    (offer raw gm j pp).2.countP (isPsendTo i) ≤ (if j = i then 1 else 0) := by
  cases hc : pp.closed with
  | true => simp [offer_detached hc]
  | false =>
  cases he : (raw && pid j == gm.excl) with
  | true => simp [offer_origin he]
  | false =>
  cases hb : pp.busy.isNone with
  | true =>
    have hbn : pp.busy = none := by simpa using hb
    rw [offer_direct hc he hbn]
    by_cases hji : j = i <;> simp [isPsendTo, hji]
  | false =>
    by_cases hq : pp.sq.length < pp.sqCap
    · simp [offer_queued hc he hb hq]
    · simp [offer_full hc he hb hq]

theorem countP_fanout_le {raw gm} (i : Nat) (pipes : List Pipe) (off : Nat) :
    ((pipes.mapIdx (fun j pp => (offer raw gm (j + off) pp).2)).flatten.countP (isPsendTo i)) ≤
      (if off ≤ i then 1 else 0) := by
  induction pipes generalizing off with
  | nil => simp
  | cons pp rest ih =>
    rw [List.mapIdx_cons, List.flatten_cons, List.countP_append]
    have h1 := countP_offer_le (raw := raw) (gm := gm) (0 + off) i pp
    have h2 := ih (off + 1)
    have e : (fun j pp => (offer raw gm (j + 1 + off) pp).2) = (fun j pp => (offer raw gm (j + (off + 1)) pp).2) := by
      funext j pp; rw [Nat.add_assoc, Nat.add_comm 1 off]
    rw [e]
    split at h1 <;> split at h2 <;> split <;> omega

/-- (B1) one send puts at most one copy on the wire of each pipe -/
theorem sendWire_at_most_once (s : State) (m : WMsg) (i : Nat) :
    (sendWire s m).countP (isPsendTo i) ≤ 1 := by
  have := countP_fanout_le (raw := s.raw) (gm := sendMsg s m) i s.pipes 0
  simp only [Nat.add_zero, Nat.zero_le, if_true] at this
  exact this

/-- raw header handling: a header that starts with the id of pipe `p` names it as origin -/
theorem parseSender_stamp (p : Nat) (rest : Bytes) (hp : p < maxPipes) :
    parseSender true (stampHdr true p ++ rest) = (pid p, rest) := by
  unfold parseSender stampHdr
  have hl : (beEncode 4 (pid p) ++ rest).length ≥ 4 := by simp
  have ht : (beEncode 4 (pid p) ++ rest).take 4 = beEncode 4 (pid p) := by
    rw [List.take_append_of_le_length (by simp)]; rw [List.take_of_length_le (by simp)]
  have hd : (beEncode 4 (pid p) ++ rest).drop 4 = rest := by
    rw [List.drop_append_of_le_length (by simp)]; rw [List.drop_of_length_le (by simp)]; rfl
  simp only [if_true, hl, ht, hd, Nng.Msg.beDecode_beEncode]
  have : pid p < 256 ^ 4 := by
    unfold pid pidBase maxPipes at *
    simp only [Nng.Generated.busCanonPidBase, Nng.Generated.simMaxPipes] at *
    omega
  rw [Nat.mod_eq_of_lt this]

/-- (B1/B5) a raw send whose header names pipe `p` puts nothing on the wire of `p` -/
theorem sendWire_not_origin (s : State) (m : WMsg) (p : Nat) (rest : Bytes) (w : WMsg)
    (hraw : s.raw = true) (hp : p < maxPipes) (hh : m.hdr = stampHdr true p ++ rest) :
    Out.psend p w ∉ sendWire s m := by
  intro hmem
  obtain ⟨i, pp, _, ⟨_, he, _⟩, ho⟩ := (sendWire_mem s m _).mp hmem
  have hi : p = i := by injection ho
  subst hi
  have : (sendMsg s m).excl = pid p := by
    simp [sendMsg, hraw, hh, parseSender_stamp p rest hp]
  simp [hraw, this] at he

/-- an arrival never makes this socket transmit: BUS does not forward -/
theorem onRecvDone_no_psend (s : State) (p : Nat) (r : Except Nat Bytes) (i : Nat) (w : WMsg) :
    Out.psend i w ∉ (onRecvDone s p r).2 := by
  cases hx : s.pipes[p]? with
  | none => simp [onRecvDone, hx]
  | some pp =>
    cases hc : (pp.closed || !pp.armed) with
    | true => simp [onRecvDone_refused hx hc]
    | false =>
      cases r with
      | error e =>
        rw [onRecvDone_error hx hc]
        unfold closePipe
        rw [hx]
        cases hcl : pp.closed <;> simp [hcl]
      | ok b =>
        cases hw : s.rwait with
        | cons a rest => simp [onRecvDone_waiter hx hc hw]
        | nil =>
          by_cases hl : s.rq.length < s.recvCap
          · simp [onRecvDone_queued hx hc hw hl]
          · simp [onRecvDone_full hx hc hw hl]

/-- `send` on an open socket with a free aio is `bus0_sock_send`, whatever the mode -/
theorem step_send {s : State} (c : Option Nat) (a : Nat) (m : WMsg) (mode : Mode)
    (ho : s.opened = true) (hc : s.closed = false) (hf : s.rwait.any (·.aio == a) = false) :
    step s (.send c a m mode) = onSend s a m := by
  simp [step, stepOpen, ho, hc, hf]

end Nng.Bus
