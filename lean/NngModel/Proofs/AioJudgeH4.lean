/- relation preservation: steps without an observation (the monitor's state does not change) -/
import NngModel.Proofs.AioJudgeRel
namespace Nng.Aio
open Nng.AioSpec

variable {s s' : State} {g : G} {j : J} {k : Nat}

set_option maxHeartbeats 1000000 in
theorem rel_expTake (hR : R k s g j) (i1 : Inv1 s) (i2 : Inv2 s) (i3 : Inv3 s) (i4 : Inv4 s)
    (hs : step Cfg.fixed s .expTake = some s') :
    R k s' (gStep s g .expTake) (judgeFrom j (obsX s g .expTake)) := by
  simp only [obsX, obsOf, obsExtra, gStep, judgeFrom, List.append_nil, List.foldl]
  step_cases hs
  all_goals r_same hR

set_option maxHeartbeats 1000000 in
theorem rel_expRelease (hR : R k s g j) (i1 : Inv1 s) (i2 : Inv2 s) (i3 : Inv3 s) (i4 : Inv4 s)
    (hs : step Cfg.fixed s .expRelease = some s') :
    R k s' (gStep s g .expRelease) (judgeFrom j (obsX s g .expRelease)) := by
  simp only [obsX, obsOf, obsExtra, gStep, judgeFrom, List.append_nil, List.foldl]
  step_cases hs
  all_goals r_same hR

set_option maxHeartbeats 1000000 in
theorem rel_pop (hR : R k s g j) (i1 : Inv1 s) (i2 : Inv2 s) (i3 : Inv3 s) (i4 : Inv4 s)
    (hs : step Cfg.fixed s .pop = some s') :
    R k s' (gStep s g .pop) (judgeFrom j (obsX s g .pop)) := by
  simp only [obsX, obsOf, obsExtra, gStep, judgeFrom, List.append_nil, List.foldl]
  step_cases hs
  all_goals r_same hR

end Nng.Aio
