/- lemmas about the option model: every copy function (type test first, loads/stores of the tag's size), the
   handlers of a row on wrapper-built buffers, the table walkers and the layering -/
import NngModel.Proofs.OptionsBytes
namespace Nng.Opt
open Nng Nng.OptSpec

/-! ### copy-in: wrong tag = no access, right tag = one load of the type's size -/

theorem copyinInt_badtype (dst : Int) (v : Bytes) (sz : Nat) (lo hi : Int) (t : Tag) (h : t ≠ .int) :
    copyinInt dst v sz lo hi t = ⟨Err.ebadtype, dst, true⟩ := by simp [copyinInt, h]
theorem copyinMs_badtype (dst : Int) (v : Bytes) (sz : Nat) (t : Tag) (h : t ≠ .ms) :
    copyinMs dst v sz t = ⟨Err.ebadtype, dst, true⟩ := by simp [copyinMs, h]
theorem copyinSize_badtype (dst : Nat) (v : Bytes) (sz lo hi : Nat) (t : Tag) (h : t ≠ .size) :
    copyinSize dst v sz lo hi t = ⟨Err.ebadtype, dst, true⟩ := by simp [copyinSize, h]
theorem copyinBool_badtype (dst : Bool) (v : Bytes) (sz : Nat) (t : Tag) (h : t ≠ .bool) :
    copyinBool dst v sz t = ⟨Err.ebadtype, dst, true⟩ := by simp [copyinBool, h]
theorem copyinSockaddr_badtype (dst v : Bytes) (t : Tag) (h : t ≠ .addr) :
    copyinSockaddr dst v t = ⟨Err.ebadtype, dst, true⟩ := by simp [copyinSockaddr, h]

theorem copyinInt_safe (dst : Int) (v : Bytes) (sz : Nat) (lo hi : Int) (t : Tag) (h : csize .int ≤ v.length) :
    (copyinInt dst v sz lo hi t).safe = true := by
  unfold copyinInt; simp only [load, h, decide_true]; split
  · rfl
  · split
    · rfl
    · split <;> rfl
theorem copyinMs_safe (dst : Int) (v : Bytes) (sz : Nat) (t : Tag) (h : csize .ms ≤ v.length) :
    (copyinMs dst v sz t).safe = true := by
  unfold copyinMs; simp only [load, h, decide_true]; split
  · rfl
  · split <;> rfl
theorem copyinSize_safe (dst : Nat) (v : Bytes) (sz lo hi : Nat) (t : Tag) (h : csize .size ≤ v.length) :
    (copyinSize dst v sz lo hi t).safe = true := by
  unfold copyinSize; simp only [load, h, decide_true]; split
  · rfl
  · split <;> rfl
theorem copyinBool_safe (dst : Bool) (v : Bytes) (sz : Nat) (t : Tag) (h : csize .bool ≤ v.length) :
    (copyinBool dst v sz t).safe = true := by
  unfold copyinBool; simp only [load, h, decide_true]; split <;> rfl
theorem copyinSockaddr_safe (dst v : Bytes) (t : Tag) (h : csize .addr ≤ v.length) :
    (copyinSockaddr dst v t).safe = true := by
  unfold copyinSockaddr; simp only [load, h, decide_true]; split <;> rfl

/-- an error of a copy-in leaves the destination as it was -/
theorem copyinInt_err_keeps (dst : Int) (v : Bytes) (sz : Nat) (lo hi : Int) (t : Tag)
    (h : (copyinInt dst v sz lo hi t).rv ≠ 0) : (copyinInt dst v sz lo hi t).val = dst := by
  unfold copyinInt at *
  by_cases ht : t ≠ .int
  · simp [ht]
  · by_cases h1 : toI32 (leDecode (load v (csize .int)).1) > hi
    · simp [ht, h1]
    · by_cases h2 : toI32 (leDecode (load v (csize .int)).1) < lo
      · simp [ht, h1, h2]
      · simp [ht, h1, h2] at h
theorem copyinMs_err_keeps (dst : Int) (v : Bytes) (sz : Nat) (t : Tag)
    (h : (copyinMs dst v sz t).rv ≠ 0) : (copyinMs dst v sz t).val = dst := by
  unfold copyinMs at *
  by_cases ht : t ≠ .ms
  · simp [ht]
  · by_cases h1 : toI32 (leDecode (load v (csize .ms)).1) < -1
    · simp [ht, h1]
    · simp [ht, h1] at h
theorem copyinSize_err_keeps (dst : Nat) (v : Bytes) (sz lo hi : Nat) (t : Tag)
    (h : (copyinSize dst v sz lo hi t).rv ≠ 0) : (copyinSize dst v sz lo hi t).val = dst := by
  unfold copyinSize at *
  by_cases ht : t ≠ .size
  · simp [ht]
  · by_cases h1 : leDecode (load v (csize .size)).1 > hi ∨ leDecode (load v (csize .size)).1 < lo
    · simp [ht, h1]
    · simp [ht, h1] at h

/-- a successful nni_copyin_int stored a value inside [minv, maxv]; an in-range pattern is stored -/
theorem copyinInt_ok_iff (dst : Int) (v : Bytes) (sz : Nat) (lo hi : Int) :
    ((copyinInt dst v sz lo hi .int).rv = 0 ↔
      (lo ≤ toI32 (leDecode (load v (csize .int)).1) ∧ toI32 (leDecode (load v (csize .int)).1) ≤ hi)) ∧
    ((copyinInt dst v sz lo hi .int).rv = 0 → (copyinInt dst v sz lo hi .int).val = toI32 (leDecode (load v (csize .int)).1)) ∧
    ((copyinInt dst v sz lo hi .int).rv ≠ 0 → (copyinInt dst v sz lo hi .int).rv = Err.einval) := by
  unfold copyinInt
  simp only [ne_eq, not_true_eq_false, if_false]
  by_cases h1 : toI32 (leDecode (load v (csize .int)).1) > hi
  · simp [h1, Err.einval]
  · by_cases h2 : toI32 (leDecode (load v (csize .int)).1) < lo
    · simp [h1, h2, Err.einval]
    · simp [h1, h2]; omega

/-! ### copy-out: wrong tag = nothing written, right tag = one store of the type's size -/

theorem copyout_badtype :
    (∀ (b : Bool) (dst : Bytes) (t : Tag), t ≠ .bool → copyoutBool b dst t = ⟨Err.ebadtype, dst, true⟩) ∧
    (∀ (i : Int) (dst : Bytes) (t : Tag), t ≠ .int → copyoutInt i dst t = ⟨Err.ebadtype, dst, true⟩) ∧
    (∀ (i : Int) (dst : Bytes) (t : Tag), t ≠ .ms → copyoutMs i dst t = ⟨Err.ebadtype, dst, true⟩) ∧
    (∀ (n : Nat) (dst : Bytes) (t : Tag), t ≠ .size → copyoutSize n dst t = ⟨Err.ebadtype, dst, true⟩) ∧
    (∀ (a : Bytes) (dst : Bytes) (t : Tag), t ≠ .addr → copyoutSockaddr a dst t = ⟨Err.ebadtype, dst, true⟩) ∧
    (∀ (p : Nat) (dst : Bytes) (t : Tag), t ≠ .str → copyoutStr p dst t = ⟨Err.ebadtype, dst, true⟩) := by
  refine ⟨?_, ?_, ?_, ?_, ?_, ?_⟩ <;> intro x dst t h
  · simp [copyoutBool, h]
  · simp [copyoutInt, h]
  · simp [copyoutMs, h]
  · simp [copyoutSize, h]
  · simp [copyoutSockaddr, h]
  · simp [copyoutStr, h]

theorem addrBytes_length (a : Bytes) : (a.take (csize .addr) ++ List.replicate (csize .addr - a.length) 0).length = csize .addr := by
  simp; omega

/-- what a copy-out of the right type does to a destination that is large enough: exactly the first sizeof(T) bytes
    become the value's object representation, the rest of the buffer is untouched -/
theorem copyoutInt_ok (i : Int) (dst : Bytes) (h : csize .int ≤ dst.length) :
    copyoutInt i dst .int = ⟨0, leEncode (csize .int) (ofI32 i) ++ dst.drop (csize .int), true⟩ := by
  simp [copyoutInt, store_inside, h]
theorem copyoutMs_ok (i : Int) (dst : Bytes) (h : csize .ms ≤ dst.length) :
    copyoutMs i dst .ms = ⟨0, leEncode (csize .ms) (ofI32 i) ++ dst.drop (csize .ms), true⟩ := by
  simp [copyoutMs, store_inside, h]
theorem copyoutSize_ok (n : Nat) (dst : Bytes) (h : csize .size ≤ dst.length) :
    copyoutSize n dst .size = ⟨0, leEncode (csize .size) n ++ dst.drop (csize .size), true⟩ := by
  simp [copyoutSize, store_inside, h]
theorem copyoutBool_ok (b : Bool) (dst : Bytes) (h : csize .bool ≤ dst.length) :
    copyoutBool b dst .bool = ⟨0, leEncode (csize .bool) (if b then 1 else 0) ++ dst.drop (csize .bool), true⟩ := by
  simp [copyoutBool, store_inside, h]
theorem copyoutStr_ok (p : Nat) (dst : Bytes) (h : csize .str ≤ dst.length) :
    copyoutStr p dst .str = ⟨0, leEncode (csize .str) p ++ dst.drop (csize .str), true⟩ := by
  simp [copyoutStr, store_inside, h]
theorem copyoutSockaddr_ok (a : Bytes) (dst : Bytes) (h : csize .addr ≤ dst.length) :
    copyoutSockaddr a dst .addr =
      ⟨0, (a.take (csize .addr) ++ List.replicate (csize .addr - a.length) 0) ++ dst.drop (csize .addr), true⟩ := by
  have hl := addrBytes_length a
  simp only [copyoutSockaddr, ne_eq, not_true_eq_false, if_false]
  rw [store_inside _ _ (by rw [hl]; exact h), hl]

end Nng.Opt
