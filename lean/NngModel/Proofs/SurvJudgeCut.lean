/-
  The SURVEYOR judge (`Spec/Survey.lean: survStep`) cut into named pieces and the equality with the
  real step function (`survStep_eq`).  Nothing here changes the judge: the pieces are definitions of
  this file, the judge itself is untouched.  Used by the simulation proof Proofs/SurvJudge*.lean.
-/
import NngModel.Spec.Survey
namespace Nng.SurvJudge
open Nng Nng.Proto Nng.SurveySpec

/-! ### the pieces of `survStep` -/

/-- effects of the event itself (first block of `survStep`) -/
def survPre (j : SurvJ) (ev : Ev) (outs : List Out) : SurvJ × Option Nat :=
  let rv0 := outs.contains (.rv 0)
  match ev with
  | .openSock _ _ => if rv0 then ({ j with opened := true, ctxs := [({ key := none, surveyTime := defaultSurveyTime } : CtxJ)] }, none) else (j, none)
  | .advance ms => ({ j with now := j.now + ms }, none)
  | .ctxOpen k =>
    if rv0 then
      let st := match j.getCtx none with | some c => c.surveyTime | none => defaultSurveyTime
      ({ j with ctxs := j.ctxs.filter (·.key != some k) ++ [({ key := some k, surveyTime := st } : CtxJ)] }, none)
    else (j, none)
  | .setopt k name ty v =>
    if rv0 && name == surveyTimeOpt && ty == "ms" then
      match j.getCtx k with
      | some c => (j.setCtx { c with surveyTime := v }, none)
      | none => (j, none)
    else (j, none)
  | .recvDone _ (.ok b) =>
    if rv0 && b.length ≥ 4 then
      ({ j with arrivals := j.arrivals ++ [({ seq := j.nseq, id := b.take 4, body := b.drop 4, used := j.queueFull (b.take 4) } : Arrival)], nseq := j.nseq + 1 }, none)
    else (j, none)
  | .recv k a mode =>
    let (own, zero) : Option Int × Bool := match mode with
      | .nb => (none, true)
      | .ms 0 => (none, true)
      | .ms n => (some ((j.now : Int) + n), false)
      | _ => (none, false)
    let j := { j with pend := j.pend ++ [({ aio := a, ctx := k, own := own, fresh := true, zero := zero } : PendRecv)] }
    let j := match j.getCtx k with
      | some c =>
        if !isLive j.now c then
          match doneOf outs a with
          | some (rv, _) => if rv == Err.estate then j else j.fail s!"receive {a} with no live survey completed with {rv}, not NNG_ESTATE"
          | none => j.fail s!"receive {a} with no live survey did not fail at once"
        else j
      | none => j
    (j, none)
  | .send k a m mode =>
    let j := match mode, doneOf outs a with
      | .nb, none => j.fail s!"non-blocking send {a} did not complete at once"
      | _, _ => j
    match doneOf outs a, j.getCtx k with
    | some (0, _), some c =>
      let j := match j.pend.find? (fun pr => pr.ctx == k && doneOf outs pr.aio != some (Err.ecanceled, none)) with
        | some pr => j.fail s!"new survey did not cancel the pending receive {pr.aio} with NNG_ECANCELED"
        | none => j
      let j := if j.sent.any (·.1 == m.body) then j else { j with sent := j.sent ++ [(m.body, none)] }
      (j.setCtx { c with survey := some ({ body := m.body, deadline := (j.now : Int) + c.surveyTime, startSeq := j.nseq } : SurveyJ) }, some a)
    | _, _ => (j, some a)
  | .close => ({ j with closed := true }, none)
  | _ => (j, none)

def isDoneOut : Out → Bool
  | .done .. => true
  | _ => false

/-- the outputs of the step, completions and the rest in the order the judge looks at them -/
def survProc (ev : Ev) (sendAio : Option Nat) (outs : List Out) (j : SurvJ) : SurvJ :=
  let dones := outs.filter (fun o => match o with | .done .. => true | _ => false)
  let rest := outs.filter (fun o => match o with | .done .. => false | _ => true)
  let (first, second) := match ev with | .send .. => (rest, dones) | _ => (dones, rest)
  let j := first.foldl (survOut ev sendAio) j
  second.foldl (survOut ev sendAio) j

/-- nothing may be left pending on a closed context / socket -/
def survPostA (ev : Ev) (outs : List Out) (j : SurvJ) : SurvJ :=
  let rv0 := outs.contains (.rv 0)
  match ev with
  | .ctxClose k =>
    if rv0 then
      let j := match j.pend.find? (fun (pr : PendRecv) => pr.ctx == some k) with
        | some pr => j.fail s!"closing the context left receive {pr.aio} pending"
        | none => j
      { j with ctxs := j.ctxs.filter (·.key != some k) }
    else j
  | .close => match j.pend.head? with
    | some pr => j.fail s!"closing the socket left receive {pr.aio} pending"
    | none => j
  | _ => j

def survPostB (ev : Ev) (outs : List Out) (j : SurvJ) : SurvJ :=
  let j := if hasBlocked outs then j.fail "a non-blocking call blocked" else j
  let j := match pollClause j.lastPoll ev outs with | some e => j.fail e | none => j
  let j := { j with lastPoll := pollOf ev outs }
  survQuiescent j ev

theorem survStep_eq {j : SurvJ} {ev : Ev} {outs : List Out} (herr : j.err = none) (hne : notExecuted outs = false) :
    survStep j ev outs =
      survPostB ev outs (survPostA ev outs (survProc ev (survPre j ev outs).2 outs (survPre j ev outs).1)) := by
  unfold survStep
  rw [if_neg (by simp [herr]), if_neg (by simp [hne])]
  cases ev <;> try rfl

theorem survStep_refused {j : SurvJ} {ev : Ev} {outs : List Out} (hne : notExecuted outs = true) :
    survStep j ev outs = j := by
  unfold survStep; simp [hne]

theorem survStep_err {j : SurvJ} {ev : Ev} {outs : List Out} {e : String} (h : j.err = some e) :
    survStep j ev outs = j := by
  unfold survStep; simp [h]

end Nng.SurvJudge
