/- the open-addressing table of idhash.c: finite sums, pigeonhole, the probe path, and the loops
   id_find / insertion / removal on a raw entry array -/
import NngModel.Proofs.Probe
namespace Nng.IdHash

/-! ### finite sums over slots -/

def sumTo : Nat → (Nat → Nat) → Nat
  | 0, _ => 0
  | n + 1, f => sumTo n f + f n

theorem sumTo_congr {n : Nat} {f g : Nat → Nat} (h : ∀ i, i < n → f i = g i) : sumTo n f = sumTo n g := by
  induction n with
  | zero => rfl
  | succ n ih => simp only [sumTo]; rw [ih (fun i hi => h i (by omega)), h n (by omega)]

theorem sumTo_update {n s : Nat} {f g : Nat → Nat} (hs : s < n) (h : ∀ i, i < n → i ≠ s → f i = g i) :
    sumTo n f + g s = sumTo n g + f s := by
  induction n with
  | zero => omega
  | succ n ih =>
    simp only [sumTo]
    by_cases hsn : s = n
    · subst hsn
      have := sumTo_congr (n := s) (f := f) (g := g) (fun i hi => h i (by omega) (by omega))
      omega
    · have := ih (by omega) (fun i hi hne => h i (by omega) hne)
      have := h n (by omega) (by omega)
      omega

theorem sumTo_ge {n s : Nat} {f : Nat → Nat} (hs : s < n) : f s ≤ sumTo n f := by
  induction n with
  | zero => omega
  | succ n ih =>
    simp only [sumTo]
    by_cases hsn : s = n
    · subst hsn; omega
    · have := ih (by omega); omega

theorem sumTo_zero {n : Nat} {f : Nat → Nat} (h : ∀ i, i < n → f i = 0) : sumTo n f = 0 := by
  induction n with
  | zero => rfl
  | succ n ih => simp only [sumTo]; rw [ih (fun i hi => h i (by omega)), h n (by omega)]

theorem le_sumTo_of_pos {n : Nat} {f : Nat → Nat} (h : ∀ i, i < n → 1 ≤ f i) : n ≤ sumTo n f := by
  induction n with
  | zero => exact Nat.le_refl _
  | succ n ih =>
    simp only [sumTo]
    have := ih (fun i hi => h i (by omega))
    have := h n (by omega)
    omega

theorem exists_zero_of_sumTo_lt {n : Nat} {f : Nat → Nat} (h : sumTo n f < n) : ∃ i, i < n ∧ f i = 0 := by
  apply Classical.byContradiction
  intro hne
  have : n ≤ sumTo n f := le_sumTo_of_pos (fun i hi => by
    have : f i ≠ 0 := fun h0 => hne ⟨i, hi, h0⟩
    omega)
  omega

theorem sumTo_shift (n : Nat) (f : Nat → Nat) : sumTo (n + 1) f = f 0 + sumTo n (fun j => f (j + 1)) := by
  induction n with
  | zero => simp [sumTo]
  | succ n ih => rw [sumTo, ih]; simp only [sumTo]; omega

/-- pigeonhole: distinct slots, each contributing at least one, are at most the total -/
theorem nodup_length_le_sumTo {n : Nat} : ∀ (l : List Nat) (f : Nat → Nat), l.Nodup →
    (∀ x, x ∈ l → x < n ∧ 1 ≤ f x) → l.length ≤ sumTo n f := by
  intro l
  induction l with
  | nil => intro f _ _; simp
  | cons x l ih =>
    intro f hnd hx
    obtain ⟨hxl, hnd'⟩ := List.nodup_cons.mp hnd
    obtain ⟨hxn, hfx⟩ := hx x (by simp)
    have hu := sumTo_update (n := n) (s := x) (f := f) (g := fun i => if i = x then 0 else f i) hxn
      (fun i _ hne => by simp [hne])
    simp only [if_true] at hu
    have := ih (fun i => if i = x then 0 else f i) hnd' (fun y hy => by
      have hyx : y ≠ x := fun e => hxl (e ▸ hy)
      obtain ⟨a, b⟩ := hx y (by simp [hy])
      exact ⟨a, by simp [hyx, b]⟩)
    simp only [List.length_cons]
    omega

theorem nodup_map_of_inj_on {α β : Type} {f : α → β} {l : List α} (hnd : l.Nodup)
    (h : ∀ a, a ∈ l → ∀ b, b ∈ l → f a = f b → a = b) : (l.map f).Nodup := by
  rw [List.nodup_iff_pairwise_ne, List.pairwise_map]
  exact List.Pairwise.imp_of_mem (fun ha hb hne e => hne (h _ ha _ hb e)) hnd

theorem sumTo_const_one (n : Nat) : sumTo n (fun _ => 1) = n := by
  induction n with
  | zero => rfl
  | succ n ih => simp only [sumTo, ih]

/-- least witness below a bound -/
theorem exists_least (p : Nat → Prop) : ∀ k, p k → ∃ d, d ≤ k ∧ p d ∧ ∀ j, j < d → ¬ p j := by
  intro k
  induction k using Nat.strongRecOn with
  | _ k ih =>
    intro hk
    by_cases h : ∃ j, j < k ∧ p j
    · obtain ⟨j, hj, hpj⟩ := h
      obtain ⟨d, hd, hpd, hmin⟩ := ih j hj hpj
      exact ⟨d, by omega, hpd, hmin⟩
    · exact ⟨k, Nat.le_refl _, hk, fun j hj hpj => h ⟨j, hj, hpj⟩⟩

/-! ### the probe path -/

theorem iter_lt {cap : Nat} (h : 0 < cap) {s : Nat} (hs : s < cap) : ∀ j, iter cap j s < cap
  | 0 => hs
  | _ + 1 => idNext_lt h _

theorem iter_mul_period {cap j s : Nat} (h : iter cap j s = s) : ∀ q, iter cap (j * q) s = s
  | 0 => rfl
  | q + 1 => by rw [Nat.mul_succ, iter_add, h, iter_mul_period h q]

/-- a full cycle has no shorter period: the probe from a cell does not come back to it in fewer than
    `cap` steps -/
theorem ProbeCovers.no_early_return {cap : Nat} (h : ProbeCovers cap) {s j : Nat} (hs : s < cap)
    (hj0 : 0 < j) (hj : j < cap) : iter cap j s ≠ s := by
  intro hper
  -- every cell is `iter r s` for some r < j
  have hall : ∀ t, t < cap → ∃ r, r < j ∧ iter cap r s = t := by
    intro t ht
    obtain ⟨k, _, hk⟩ := h.2 s t hs ht
    refine ⟨k % j, Nat.mod_lt _ hj0, ?_⟩
    have : k = k % j + j * (k / j) := (Nat.mod_add_div k j).symm
    rw [← hk]
    conv => rhs; rw [this, iter_add, iter_mul_period hper]
  -- choose such an r for every cell: an injection of `cap` cells into `j` values
  have hch : ∀ t, ∃ r, t < cap → r < j ∧ iter cap r s = t := by
    intro t
    by_cases ht : t < cap
    · obtain ⟨r, hr⟩ := hall t ht; exact ⟨r, fun _ => hr⟩
    · exact ⟨0, fun h' => absurd h' ht⟩
  let r : Nat → Nat := fun t => Classical.choose (hch t)
  have hr : ∀ t, t < cap → r t < j ∧ iter cap (r t) s = t := fun t => Classical.choose_spec (hch t)
  have hnd : ((List.range cap).map r).Nodup := by
    refine nodup_map_of_inj_on List.nodup_range ?_
    intro a ha b hb hab
    have ha' := (hr a (List.mem_range.mp ha)).2
    have hb' := (hr b (List.mem_range.mp hb)).2
    rw [← ha', ← hb', hab]
  have hlen := nodup_length_le_sumTo (n := j) _ (fun _ => 1) hnd (fun x hx => by
    obtain ⟨t, ht, rfl⟩ := List.mem_map.mp hx
    exact ⟨(hr t (List.mem_range.mp ht)).1, Nat.le_refl _⟩)
  rw [sumTo_const_one, List.length_map, List.length_range] at hlen
  omega

/-! ### entries, total accessors -/

/-- entry `i` of the array; the all-zero entry outside it -/
def ent (es : List Entry) (i : Nat) : Entry := (es[i]?).getD default

theorem rdE_fst (es : List Entry) (i : Nat) : (rdE es i).1 = ent es i := by
  unfold rdE ent; cases es[i]? <;> rfl

theorem rdE_snd (es : List Entry) (i : Nat) : (rdE es i).2 = decide (i < es.length) := by
  unfold rdE
  by_cases h : i < es.length
  · rw [List.getElem?_eq_getElem h]; simp [h]
  · rw [List.getElem?_eq_none (by omega)]; simp [h]

theorem wrE_fst (es : List Entry) (i : Nat) (e : Entry) : (wrE es i e).1 = es.set i e := by
  unfold wrE
  by_cases h : i < es.length
  · rw [if_pos h]
  · rw [if_neg h, List.set_eq_of_length_le (by omega)]

theorem wrE_snd (es : List Entry) (i : Nat) (e : Entry) : (wrE es i e).2 = decide (i < es.length) := by
  unfold wrE
  by_cases h : i < es.length
  · rw [if_pos h]; simp [h]
  · rw [if_neg h]; simp [h]

theorem ent_set (es : List Entry) (i : Nat) (e : Entry) (t : Nat) :
    ent (es.set i e) t = if i = t ∧ i < es.length then e else ent es t := by
  unfold ent
  rw [List.getElem?_set]
  by_cases h : i = t
  · subst h
    by_cases h2 : i < es.length
    · simp [h2]
    · simp [h2]
  · simp [h]

theorem ent_out {es : List Entry} {i : Nat} (h : es.length ≤ i) : ent es i = default := by
  unfold ent; rw [List.getElem?_eq_none h]; rfl

theorem lt_of_val_ne_zero {es : List Entry} {i : Nat} (h : (ent es i).val ≠ 0) : i < es.length := by
  apply Classical.byContradiction
  intro hn
  rw [ent_out (by omega)] at h
  exact h rfl

/-- number of occupied slots -/
def liveCnt (es : List Entry) : Nat := sumTo es.length (fun s => if (ent es s).val ≠ 0 then 1 else 0)

/-! ### id_find: what a result means -/

theorem findLoop_some (es : List Entry) (cap id start : Nat) : ∀ (f idx : Nat) (s : Bool) (i : Nat),
    (findLoop es cap id start f idx s).1 = some i → (ent es i).key = id ∧ (ent es i).val ≠ 0 := by
  intro f
  induction f with
  | zero => intro idx s i h; simp [findLoop] at h
  | succ f ih =>
    intro idx s i h
    unfold findLoop at h
    simp only [rdE_fst] at h
    by_cases h1 : (ent es idx).key = id ∧ (ent es idx).val ≠ 0
    · rw [if_pos h1] at h
      simp only [Option.some.injEq] at h
      subst h; exact h1
    · rw [if_neg h1] at h
      by_cases h2 : (ent es idx).skips = 0
      · rw [if_pos h2] at h; simp at h
      · rw [if_neg h2] at h
        by_cases h3 : idNext cap idx = start
        · rw [if_pos h3] at h; simp at h
        · rw [if_neg h3] at h; exact ih _ _ _ h

theorem idFind_some {m : IdMap} {id i : Nat} (h : (idFind m id).1 = some i) :
    (ent m.entries i).key = id ∧ (ent m.entries i).val ≠ 0 := by
  unfold idFind at h
  by_cases hz : m.count = 0
  · rw [if_pos hz] at h; simp at h
  · rw [if_neg hz] at h; exact findLoop_some _ _ _ _ _ _ _ _ h

theorem findLoop_absent (es : List Entry) (cap id start : Nat)
    (habs : ∀ i, ¬ ((ent es i).key = id ∧ (ent es i).val ≠ 0)) (f idx : Nat) (s : Bool) :
    (findLoop es cap id start f idx s).1 = none := by
  cases h : (findLoop es cap id start f idx s).1 with
  | none => rfl
  | some i => exact absurd (findLoop_some es cap id start f idx s i h) (habs i)

/-! ### the allocation loop cannot run out of fuel (pigeonhole over the ids after the cursor) -/

/-- position of `x` in the cyclic order of [lo, hi] that starts at `d0` -/
def rank (lo hi d0 x : Nat) : Nat := if d0 ≤ x then x - d0 else x - lo + (hi - d0 + 1)

/-- the id at position `r` -/
def unrank (lo hi d0 r : Nat) : Nat := if d0 + r ≤ hi then d0 + r else lo + (r - (hi - d0 + 1))

theorem rank_unrank {lo hi d0 r : Nat} (h1 : lo ≤ d0) (h2 : d0 ≤ hi) (hr : r ≤ hi - lo) :
    lo ≤ unrank lo hi d0 r ∧ unrank lo hi d0 r ≤ hi ∧ rank lo hi d0 (unrank lo hi d0 r) = r := by
  unfold unrank rank
  by_cases a : d0 + r ≤ hi
  · rw [if_pos a, if_pos (by omega)]; omega
  · rw [if_neg a, if_neg (by omega)]; omega

theorem allocLoop_none_findable (m : IdMap) (d0 : Nat) (h1 : m.minVal ≤ d0) (h2 : d0 ≤ m.maxVal) :
    ∀ (f dyn : Nat) (w s : Bool), m.minVal ≤ dyn → dyn ≤ m.maxVal →
      rank m.minVal m.maxVal d0 dyn + f ≤ m.maxVal - m.minVal + 1 →
      (allocLoop m f dyn w s).1 = none →
      ∀ x, m.minVal ≤ x → x ≤ m.maxVal → rank m.minVal m.maxVal d0 dyn ≤ rank m.minVal m.maxVal d0 x →
        rank m.minVal m.maxVal d0 x < rank m.minVal m.maxVal d0 dyn + f → (idFind m x).1 ≠ none := by
  intro f
  induction f with
  | zero => intro dyn w s _ _ _ _ x _ _ a b; omega
  | succ f ih =>
    intro dyn w s hd1 hd2 hfuel hnone x hx1 hx2 ha hb
    unfold allocLoop at hnone
    by_cases hfd : (idFind m dyn).1 = none
    · simp [hfd] at hnone
    · simp only [hfd, if_false] at hnone
      by_cases hxd : x = dyn
      · subst hxd; exact hfd
      · have hrk : rank m.minVal m.maxVal d0 dyn < rank m.minVal m.maxVal d0 x := by
          unfold rank at ha ⊢
          by_cases c1 : d0 ≤ dyn <;> by_cases c2 : d0 ≤ x <;> simp only [c1, c2, if_true, if_false] at ha ⊢ <;> omega
        by_cases hw : dyn ≥ m.maxVal
        · have hnext : rank m.minVal m.maxVal d0 m.minVal = rank m.minVal m.maxVal d0 dyn + 1 := by
            unfold rank at hfuel hrk hb ⊢
            by_cases c1 : d0 ≤ dyn <;> by_cases c2 : d0 ≤ m.minVal <;> by_cases c3 : d0 ≤ x <;>
              simp only [c1, c2, c3, if_true, if_false] at hfuel hrk hb ⊢ <;> omega
          simp only [hw, decide_true, if_true] at hnone
          exact ih m.minVal _ _ (Nat.le_refl _) (by omega) (by omega) hnone x hx1 hx2 (by omega) (by omega)
        · have hnext : rank m.minVal m.maxVal d0 (dyn + 1) = rank m.minVal m.maxVal d0 dyn + 1 := by
            unfold rank at hfuel hrk hb ⊢
            by_cases c1 : d0 ≤ dyn <;> by_cases c2 : d0 ≤ dyn + 1 <;> by_cases c3 : d0 ≤ x <;>
              simp only [c1, c2, c3, if_true, if_false] at hfuel hrk hb ⊢ <;> omega
          simp only [hw, decide_false, Bool.false_eq_true, if_false] at hnone
          exact ih (dyn + 1) _ _ (by omega) (by omega) (by omega) hnone x hx1 hx2 (by omega) (by omega)

/-- with at most `hi − lo` stored keys the allocation loop finds a free identifier within
    `count + 1` iterations -/
theorem allocLoop_finds {m : IdMap} (hcnt : liveCnt m.entries ≤ m.count) (hfull : ¬ m.count > m.maxVal - m.minVal)
    (d0 : Nat) (h1 : m.minVal ≤ d0) (h2 : d0 ≤ m.maxVal) (w s : Bool) :
    (allocLoop m (m.count + 1) d0 w s).1 ≠ none := by
  intro hnone
  have hr0 : rank m.minVal m.maxVal d0 d0 = 0 := by unfold rank; simp
  have hfind := allocLoop_none_findable m d0 h1 h2 (m.count + 1) d0 w s h1 h2 (by rw [hr0]; omega) hnone
  rw [hr0] at hfind
  let slot : Nat → Nat := fun r => ((idFind m (unrank m.minVal m.maxVal d0 r)).1).getD 0
  have hslot : ∀ r, r < m.count + 1 →
      (ent m.entries (slot r)).key = unrank m.minVal m.maxVal d0 r ∧ (ent m.entries (slot r)).val ≠ 0 := by
    intro r hr
    obtain ⟨u1, u2, u3⟩ := rank_unrank (lo := m.minVal) (hi := m.maxVal) (d0 := d0) (r := r) h1 h2 (by omega)
    have := hfind _ u1 u2 (by omega) (by omega)
    cases hf : (idFind m (unrank m.minVal m.maxVal d0 r)).1 with
    | none => exact absurd hf this
    | some i =>
      have hi := idFind_some hf
      have hs : slot r = i := by
        show ((idFind m (unrank m.minVal m.maxVal d0 r)).1).getD 0 = i
        rw [hf]; rfl
      rw [hs]; exact hi
  have hnd : ((List.range (m.count + 1)).map slot).Nodup := by
    refine nodup_map_of_inj_on List.nodup_range ?_
    intro a ha b hb hab
    have ha' := List.mem_range.mp ha
    have hb' := List.mem_range.mp hb
    have e : unrank m.minVal m.maxVal d0 a = unrank m.minVal m.maxVal d0 b := by
      rw [← (hslot a ha').1, ← (hslot b hb').1, hab]
    have ra := (rank_unrank (lo := m.minVal) (hi := m.maxVal) (d0 := d0) (r := a) h1 h2 (by omega)).2.2
    have rb := (rank_unrank (lo := m.minVal) (hi := m.maxVal) (d0 := d0) (r := b) h1 h2 (by omega)).2.2
    rw [← ra, ← rb, e]
  have hlen := nodup_length_le_sumTo (n := m.entries.length) _
    (fun s => if (ent m.entries s).val ≠ 0 then 1 else 0) hnd (fun x hx => by
      obtain ⟨r, hr, rfl⟩ := List.mem_map.mp hx
      have := (hslot r (List.mem_range.mp hr)).2
      exact ⟨lt_of_val_ne_zero this, by simp [this]⟩)
  rw [List.length_map, List.length_range] at hlen
  unfold liveCnt at hcnt
  omega

/-! ### probe paths and the skip counters -/

/-- how often the first `d` cells of the probe path starting at `h` are the cell `t` -/
def cross (cap h d t : Nat) : Nat := sumTo d (fun j => if iter cap j h = t then 1 else 0)

theorem cross_succ_left (cap h d t : Nat) :
    cross cap h (d + 1) t = (if h = t then 1 else 0) + cross cap (idNext cap h) d t := by
  unfold cross
  rw [sumTo_shift]
  simp only [iter_succ']
  rfl

theorem cross_pos {cap h d j : Nat} (hj : j < d) : 1 ≤ cross cap h d (iter cap j h) := by
  unfold cross
  have := sumTo_ge (n := d) (s := j) (f := fun j' => if iter cap j' h = iter cap j h then 1 else 0) hj
  simpa using this

theorem ent_set_val (es : List Entry) (i t : Nat) (e : Entry) (he : e.val = (ent es i).val) :
    (ent (es.set i e) t).val = (ent es t).val := by
  rw [ent_set]
  by_cases h : i = t ∧ i < es.length
  · rw [if_pos h, he, h.1]
  · rw [if_neg h]

theorem ent_set_key (es : List Entry) (i t : Nat) (e : Entry) (he : e.key = (ent es i).key) :
    (ent (es.set i e) t).key = (ent es t).key := by
  rw [ent_set]
  by_cases h : i = t ∧ i < es.length
  · rw [if_pos h, he, h.1]
  · rw [if_neg h]

/-- the insertion loop of nni_id_set / id_resize: walks `d` occupied cells, then fills the free one -/
theorem setLoop_spec (cap id v : Nat) (hcap : 0 < cap) : ∀ (d f : Nat) (es : List Entry) (h load : Nat),
    es.length = cap → h < cap → d + 1 ≤ f →
    (∀ j, j < d → (ent es (iter cap j h)).val ≠ 0) → (ent es (iter cap d h)).val = 0 →
    (setLoop cap id v f es h load true).2.1 = load + d + 1 ∧
    (setLoop cap id v f es h load true).2.2 = true ∧
    (setLoop cap id v f es h load true).1.length = cap ∧
    ∀ t, (ent (setLoop cap id v f es h load true).1 t).skips = (ent es t).skips + cross cap h d t ∧
         (ent (setLoop cap id v f es h load true).1 t).key = (if t = iter cap d h then id else (ent es t).key) ∧
         (ent (setLoop cap id v f es h load true).1 t).val = (if t = iter cap d h then v else (ent es t).val) := by
  intro d
  induction d with
  | zero =>
    intro f es h load hlen hh hf _ hfree
    obtain ⟨f, rfl⟩ : ∃ f', f = f' + 1 := ⟨f - 1, by omega⟩
    simp only [iter] at hfree
    unfold setLoop
    simp only [rdE_fst, rdE_snd, wrE_fst, wrE_snd, hlen, hh, decide_true, Bool.and_self]
    rw [if_pos hfree]
    refine ⟨by show load + 1 = _; omega, rfl, by simp [hlen], ?_⟩
    intro t
    simp only [ent_set, hlen, hh, and_true, iter]
    by_cases ht : h = t
    · subst ht; simp [cross, sumTo]
    · have ht' : ¬ t = h := fun e => ht e.symm
      simp [ht, ht', cross, sumTo]
  | succ d ih =>
    intro f es h load hlen hh hf hocc hfree
    obtain ⟨f, rfl⟩ : ∃ f', f = f' + 1 := ⟨f - 1, by omega⟩
    have h0 : (ent es h).val ≠ 0 := hocc 0 (by omega)
    unfold setLoop
    simp only [rdE_fst, rdE_snd, wrE_fst, wrE_snd, hlen, hh, decide_true, Bool.and_self]
    rw [if_neg h0]
    have hval : ∀ t, (ent (es.set h (⟨(ent es h).key, (ent es h).skips + 1, (ent es h).val⟩ : Entry)) t).val = (ent es t).val :=
      fun t => ent_set_val es h t _ rfl
    have hkey : ∀ t, (ent (es.set h (⟨(ent es h).key, (ent es h).skips + 1, (ent es h).val⟩ : Entry)) t).key = (ent es t).key :=
      fun t => ent_set_key es h t _ rfl
    obtain ⟨a, b, c, e⟩ := ih f (es.set h (⟨(ent es h).key, (ent es h).skips + 1, (ent es h).val⟩ : Entry)) (idNext cap h) (load + 1)
      (by simp [hlen]) (idNext_lt hcap _) (by omega)
      (fun j hj => by rw [hval, ← iter_succ']; exact hocc (j + 1) (by omega))
      (by rw [hval, ← iter_succ']; exact hfree)
    refine ⟨by omega, b, c, ?_⟩
    intro t
    obtain ⟨e1, e2, e3⟩ := e t
    rw [hkey] at e2
    rw [hval] at e3
    refine ⟨?_, by rw [e2, iter_succ'], by rw [e3, iter_succ']⟩
    rw [e1, cross_succ_left, ent_set]
    by_cases ht : h = t
    · subst ht; simp [hlen, hh]; omega
    · simp [ht]

/-- the loop of nni_id_remove: walks the `d` cells before the key's cell, un-counting them, then
    clears the cell -/
theorem removeLoop_spec (cap : Nat) (hcap : 0 < cap) (index : Nat) : ∀ (d f : Nat) (es : List Entry) (h load : Nat),
    es.length = cap → h < cap → d + 1 ≤ f → d + 1 ≤ load →
    iter cap d h = index → (∀ j, j < d → iter cap j h ≠ index) →
    (∀ t, cross cap h d t ≤ (ent es t).skips) →
    (removeLoop cap index f es h load true).2.1 = load - (d + 1) ∧
    (removeLoop cap index f es h load true).2.2 = true ∧
    (removeLoop cap index f es h load true).1.length = cap ∧
    ∀ t, (ent (removeLoop cap index f es h load true).1 t).skips = (ent es t).skips - cross cap h d t ∧
         (ent (removeLoop cap index f es h load true).1 t).key = (if t = index then 0 else (ent es t).key) ∧
         (ent (removeLoop cap index f es h load true).1 t).val = (if t = index then 0 else (ent es t).val) := by
  intro d
  induction d with
  | zero =>
    intro f es h load hlen hh hf hload hat _ _
    obtain ⟨f, rfl⟩ : ∃ f', f = f' + 1 := ⟨f - 1, by omega⟩
    simp only [iter] at hat
    unfold removeLoop
    have hl : decide (load > 0) = true := by simp; omega
    simp only [rdE_fst, rdE_snd, wrE_fst, wrE_snd, hlen, hh, decide_true, Bool.and_self, hl]
    rw [if_pos hat]
    refine ⟨by show load - 1 = _; omega, rfl, by simp [hlen], ?_⟩
    intro t
    simp only [ent_set, hlen, hh, and_true]
    subst hat
    by_cases ht : h = t
    · subst ht; simp [cross, sumTo]
    · have ht' : ¬ t = h := fun e => ht e.symm
      simp [ht, ht', cross, sumTo]
  | succ d ih =>
    intro f es h load hlen hh hf hload hat hne hsk
    obtain ⟨f, rfl⟩ : ∃ f', f = f' + 1 := ⟨f - 1, by omega⟩
    have h0 : h ≠ index := hne 0 (by omega)
    have hsk0 : 1 ≤ (ent es h).skips := by
      have := hsk h
      rw [cross_succ_left] at this
      simp at this; omega
    unfold removeLoop
    have hl : decide (load > 0) = true := by simp; omega
    have hs : decide ((ent es h).skips > 0) = true := by simp; omega
    simp only [rdE_fst, rdE_snd, wrE_fst, wrE_snd, hlen, hh, decide_true, Bool.and_self, hl, hs]
    rw [if_neg h0]
    have hval : ∀ t, (ent (es.set h (⟨(ent es h).key, (ent es h).skips - 1, (ent es h).val⟩ : Entry)) t).val = (ent es t).val :=
      fun t => ent_set_val es h t _ rfl
    have hkey : ∀ t, (ent (es.set h (⟨(ent es h).key, (ent es h).skips - 1, (ent es h).val⟩ : Entry)) t).key = (ent es t).key :=
      fun t => ent_set_key es h t _ rfl
    have hsk' : ∀ t, (ent (es.set h (⟨(ent es h).key, (ent es h).skips - 1, (ent es h).val⟩ : Entry)) t).skips =
        (ent es t).skips - (if h = t then 1 else 0) := by
      intro t
      rw [ent_set]
      by_cases ht : h = t
      · subst ht; simp [hlen, hh]
      · simp [ht]
    obtain ⟨a, b, c, e⟩ := ih f (es.set h (⟨(ent es h).key, (ent es h).skips - 1, (ent es h).val⟩ : Entry)) (idNext cap h) (load - 1)
      (by simp [hlen]) (idNext_lt hcap _) (by omega) (by omega)
      (by rw [← iter_succ']; exact hat)
      (fun j hj => by rw [← iter_succ']; exact hne (j + 1) (by omega))
      (fun t => by
        rw [hsk']
        have := hsk t
        rw [cross_succ_left] at this
        omega)
    refine ⟨by omega, b, c, ?_⟩
    intro t
    obtain ⟨e1, e2, e3⟩ := e t
    rw [hkey] at e2
    rw [hval] at e3
    refine ⟨?_, e2, e3⟩
    rw [e1, hsk', cross_succ_left]
    omega

/-! ### the open-addressing invariant on a raw entry array -/

/-- contribution of the key stored in slot `s` to the skip counter of slot `t` -/
def fSk (es : List Entry) (cap : Nat) (dist : Nat → Nat) (t : Nat) : Nat → Nat :=
  fun s => if (ent es s).val ≠ 0 then cross cap (idIndex cap (ent es s).key) (dist s) t else 0
/-- contribution of slot `s` to `id_load`: one per probe used to place its key -/
def fLd (es : List Entry) (dist : Nat → Nat) : Nat → Nat :=
  fun s => if (ent es s).val ≠ 0 then dist s + 1 else 0
def fCt (es : List Entry) : Nat → Nat := fun s => if (ent es s).val ≠ 0 then 1 else 0

/-- `dist s` = number of probe steps from the home cell of the key stored in slot `s` to `s`.
    Every occupied slot is the first arrival of its key's probe path at that slot; `skips[t]` counts the
    stored keys whose path crosses `t` before reaching their slot; `load` counts all probes; occupied
    slots hold pairwise distinct keys. -/
structure RawWF (es : List Entry) (cap : Nat) (dist : Nat → Nat) (load cnt : Nat) : Prop where
  len : es.length = cap
  dist_lt : ∀ s, (ent es s).val ≠ 0 → dist s < cap
  dist_at : ∀ s, (ent es s).val ≠ 0 → iter cap (dist s) (idIndex cap (ent es s).key) = s
  dist_first : ∀ s, (ent es s).val ≠ 0 → ∀ j, j < dist s → iter cap j (idIndex cap (ent es s).key) ≠ s
  skips : ∀ t, (ent es t).skips = sumTo cap (fSk es cap dist t)
  load : load = sumTo cap (fLd es dist)
  cnt : cnt = sumTo cap (fCt es)
  distinct : ∀ s s', (ent es s).val ≠ 0 → (ent es s').val ≠ 0 → (ent es s).key = (ent es s').key → s = s'

theorem RawWF.lt {es : List Entry} {cap : Nat} {dist : Nat → Nat} {load cnt : Nat} (wf : RawWF es cap dist load cnt)
    {s : Nat} (h : (ent es s).val ≠ 0) : s < cap := wf.len ▸ lt_of_val_ne_zero h

theorem findLoop_walk {es : List Entry} {cap : Nat} {dist : Nat → Nat} {load cnt : Nat} (wf : RawWF es cap dist load cnt)
    (hp : ProbeCovers cap) {t : Nat} (ht : (ent es t).val ≠ 0) :
    ∀ (r j f : Nat), j + r = dist t → r + 1 ≤ f →
      findLoop es cap (ent es t).key (idIndex cap (ent es t).key) f
        (iter cap j (idIndex cap (ent es t).key)) true = (some t, true) := by
  have htc := wf.lt ht
  have hcap : 0 < cap := by omega
  have hstart := idIndex_lt hcap (ent es t).key
  intro r
  induction r with
  | zero =>
    intro j f hj hf
    obtain ⟨f, rfl⟩ : ∃ f', f = f' + 1 := ⟨f - 1, by omega⟩
    have : j = dist t := by omega
    subst this
    rw [wf.dist_at t ht]
    unfold findLoop
    simp only [rdE_fst, rdE_snd]
    rw [if_pos ⟨trivial, ht⟩]
    simp [wf.len, htc]
  | succ r ih =>
    intro j f hj hf
    obtain ⟨f, rfl⟩ : ∃ f', f = f' + 1 := ⟨f - 1, by omega⟩
    have hjd : j < dist t := by omega
    have hi_ne : iter cap j (idIndex cap (ent es t).key) ≠ t := wf.dist_first t ht j hjd
    have hi_lt : iter cap j (idIndex cap (ent es t).key) < cap := iter_lt hcap hstart j
    unfold findLoop
    simp only [rdE_fst, rdE_snd]
    have c1 : ¬ ((ent es (iter cap j (idIndex cap (ent es t).key))).key = (ent es t).key ∧
        (ent es (iter cap j (idIndex cap (ent es t).key))).val ≠ 0) := by
      intro h
      exact hi_ne (wf.distinct _ _ h.2 ht h.1)
    rw [if_neg c1]
    have c2 : ¬ (ent es (iter cap j (idIndex cap (ent es t).key))).skips = 0 := by
      rw [wf.skips]
      have h1 := sumTo_ge (n := cap) (s := t)
        (f := fSk es cap dist (iter cap j (idIndex cap (ent es t).key))) htc
      have h2 : 1 ≤ fSk es cap dist (iter cap j (idIndex cap (ent es t).key)) t := by
        unfold fSk; rw [if_pos ht]; exact cross_pos hjd
      omega
    rw [if_neg c2]
    have c3 : ¬ idNext cap (iter cap j (idIndex cap (ent es t).key)) = idIndex cap (ent es t).key := by
      have := hp.no_early_return hstart (j := j + 1) (by omega) (by have := wf.dist_lt t ht; omega)
      exact this
    rw [if_neg c3]
    have := ih (j + 1) f (by omega) (by omega)
    simp only [iter] at this
    simp only [wf.len, hi_lt, decide_true, Bool.and_self]
    exact this

/-- id_find on a well-formed table: finds exactly the slot that holds the key, `-1` otherwise -/
theorem idFind_spec {m : IdMap} {dist : Nat → Nat} (wf : RawWF m.entries m.cap dist m.load m.count)
    (hp : 0 < m.cap → ProbeCovers m.cap) (id : Nat) :
    (idFind m id).2 = true ∧
    ((∃ t, (ent m.entries t).key = id ∧ (ent m.entries t).val ≠ 0 ∧ (idFind m id).1 = some t) ∨
     ((∀ t, ¬ ((ent m.entries t).key = id ∧ (ent m.entries t).val ≠ 0)) ∧ (idFind m id).1 = none)) := by
  by_cases hex : ∃ t, (ent m.entries t).key = id ∧ (ent m.entries t).val ≠ 0
  · obtain ⟨t, hk, hv⟩ := hex
    have htc := wf.lt hv
    have hcnt : m.count ≠ 0 := by
      have h1 := sumTo_ge (n := m.cap) (s := t) (f := fCt m.entries) htc
      have h2 : fCt m.entries t = 1 := by unfold fCt; rw [if_pos hv]
      have := wf.cnt
      omega
    have hw := findLoop_walk wf (hp (by omega)) hv (dist t) 0 m.cap (by omega) (by have := wf.dist_lt t hv; omega)
    rw [hk] at hw
    simp only [iter] at hw
    have : idFind m id = (some t, true) := by
      unfold idFind; rw [if_neg hcnt]; exact hw
    rw [this]
    exact ⟨rfl, Or.inl ⟨t, hk, hv, rfl⟩⟩
  · have habs : ∀ t, ¬ ((ent m.entries t).key = id ∧ (ent m.entries t).val ≠ 0) := fun t h => hex ⟨t, h⟩
    refine ⟨?_, Or.inr ⟨habs, ?_⟩⟩
    · by_cases hc : 0 < m.cap
      · exact (idFind_safe wf.len (fun _ => hc) (hp hc).cycle id).1
      · have hz : m.count = 0 := by
          have := wf.cnt
          rw [show m.cap = 0 by omega] at this
          exact this
        unfold idFind; rw [if_pos hz]
    · unfold idFind
      by_cases hz : m.count = 0
      · rw [if_pos hz]
      · rw [if_neg hz]; exact findLoop_absent _ _ _ _ habs _ _ _

/-- nni_id_get on a well-formed table -/
theorem idGet_spec {m : IdMap} {dist : Nat → Nat} (wf : RawWF m.entries m.cap dist m.load m.count)
    (hp : 0 < m.cap → ProbeCovers m.cap) (id : Nat) :
    (idGet m id).2 = true ∧
    ((∃ t, (ent m.entries t).key = id ∧ (ent m.entries t).val ≠ 0 ∧ (idGet m id).1 = (ent m.entries t).val) ∨
     ((∀ t, ¬ ((ent m.entries t).key = id ∧ (ent m.entries t).val ≠ 0)) ∧ (idGet m id).1 = 0)) := by
  obtain ⟨hs, hf⟩ := idFind_spec wf hp id
  unfold idGet
  rcases hf with ⟨t, hk, hv, hft⟩ | ⟨habs, hfn⟩
  · simp only [hft, hs, rdE_fst, rdE_snd, wf.len, wf.lt hv, decide_true, Bool.and_self]
    exact ⟨trivial, Or.inl ⟨t, hk, hv, rfl⟩⟩
  · simp only [hfn, hs]
    exact ⟨trivial, Or.inr ⟨habs, trivial⟩⟩

end Nng.IdHash
