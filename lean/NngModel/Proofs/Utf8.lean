/-
  C19 (a): the validator of url.c (mask/shift arithmetic) accepts exactly the byte strings of
  Unicode Table 3-7.  Two halves:
    T1  utf8Loop fuel s = UrlSpec.wfLoop fuel s          (code arithmetic = table, as functions)
    T2  wfLoop s.length s = true ↔ WellFormedUtf8 s      (table function = inductive definition)
-/
import NngModel.Model.Url
import NngModel.Spec.Url
set_option linter.unusedSimpArgs false
namespace Nng.UrlProofs
open Nng Nng.Url Nng.UrlSpec

/-- facts about single bytes are checked for all 256 values by the kernel -/
theorem forall_uint8 (P : UInt8 → Prop) (h : ∀ n : Fin 256, P (UInt8.ofNat n.val)) : ∀ b, P b := by
  intro b
  have := h ⟨b.toNat, by have := b.toNat_lt; omega⟩
  simpa using this

theorem mask80 : ∀ b : UInt8, (b &&& 0x80 = 0) ↔ b.toNat ≤ 0x7F := by
  apply forall_uint8; decide +kernel
theorem maskE0 : ∀ b : UInt8, (b &&& 0xe0 = 0xc0) ↔ (0xC0 ≤ b.toNat ∧ b.toNat ≤ 0xDF) := by
  apply forall_uint8; decide +kernel
theorem maskF0 : ∀ b : UInt8, (b &&& 0xf0 = 0xe0) ↔ (0xE0 ≤ b.toNat ∧ b.toNat ≤ 0xEF) := by
  apply forall_uint8; decide +kernel
theorem maskF8 : ∀ b : UInt8, (b &&& 0xf8 = 0xf0) ↔ (0xF0 ≤ b.toNat ∧ b.toNat ≤ 0xF7) := by
  apply forall_uint8; decide +kernel
theorem maskC0 : ∀ b : UInt8, (b &&& 0xc0 ≠ 0x80) ↔ ¬ (0x80 ≤ b.toNat ∧ b.toNat ≤ 0xBF) := by
  apply forall_uint8; decide +kernel
theorem and1f : ∀ b : UInt8, (b &&& 0x1f).toNat = b.toNat % 32 := by
  apply forall_uint8; decide +kernel
theorem and0f : ∀ b : UInt8, (b &&& 0x0f).toNat = b.toNat % 16 := by
  apply forall_uint8; decide +kernel
theorem and07 : ∀ b : UInt8, (b &&& 0x07).toNat = b.toNat % 8 := by
  apply forall_uint8; decide +kernel
theorem and3f : ∀ b : UInt8, (b &&& 0x3f).toNat = b.toNat % 64 := by
  apply forall_uint8; decide +kernel

theorem le_nat (a b : UInt8) : a ≤ b ↔ a.toNat ≤ b.toNat := UInt8.le_iff_toNat_le
theorem eq_nat (a b : UInt8) : a = b ↔ a.toNat = b.toNat := UInt8.toNat_inj.symm

/-- 80..BF, on the numeric value -/
def Tl (b : UInt8) : Prop := 0x80 ≤ b.toNat ∧ b.toNat ≤ 0xBF
instance (b : UInt8) : Decidable (Tl b) := by unfold Tl; infer_instance

theorem tailb_iff (b : UInt8) : tailb b = true ↔ Tl b := by
  simp [tailb, Tl, le_nat]
theorem Tail_iff (b : UInt8) : Tail b ↔ Tl b := by
  simp [Tail, Tl, le_nat]

theorem headD_drop_lt {s : Bytes} {k : Nat} (h : (s.drop k).headD 0 ≠ 0) : k < s.length := by
  by_cases hk : k < s.length
  · exact hk
  · rw [List.drop_eq_nil_of_le (by omega)] at h; simp at h

theorem Tl_ne_zero {b : UInt8} (h : Tl b) : b ≠ 0 := by
  intro hb; subst hb; simp [Tl] at h

/-! ### the continuation loop, one byte at a time, with the terminator read as 0 -/
theorem utf8Cont_succ (nb v : Nat) (s : Bytes) :
    utf8Cont (nb + 1) v s =
      if Tl (s.headD 0) then
        utf8Cont nb ((v * 64 % 4294967296 + (s.headD 0).toNat % 64) % 4294967296) (s.drop 1)
      else none := by
  cases s with
  | nil => simp [utf8Cont, Tl]
  | cons b r =>
    simp only [utf8Cont, List.headD_cons, List.drop_succ_cons, List.drop_zero, and3f]
    by_cases h : Tl b
    · rw [if_neg (by rw [maskC0]; exact fun hn => hn h), if_pos h]
    · rw [if_pos ((maskC0 b).2 h), if_neg h]


abbrev W : Nat := 4294967296
def acc (v : Nat) (b : UInt8) : Nat := (v * 64 % W + b.toNat % 64) % W

theorem utf8Cont_zero (v : Nat) (s : Bytes) : utf8Cont 0 v s = some (v, s) := by
  cases s <;> rfl

theorem utf8Cont_one (v : Nat) (s : Bytes) :
    utf8Cont 1 v s = if Tl (s.headD 0) then some (acc v (s.headD 0), s.drop 1) else none := by
  show utf8Cont (0 + 1) v s = _
  rw [utf8Cont_succ]; simp only [utf8Cont_zero, acc, W]

theorem utf8Cont_two (v : Nat) (s : Bytes) :
    utf8Cont 2 v s =
      if Tl (s.headD 0) ∧ Tl ((s.drop 1).headD 0) then
        some (acc (acc v (s.headD 0)) ((s.drop 1).headD 0), s.drop 2) else none := by
  show utf8Cont (1 + 1) v s = _
  rw [utf8Cont_succ, utf8Cont_one]
  by_cases h1 : Tl (s.headD 0) <;> by_cases h2 : Tl ((s.drop 1).headD 0) <;>
    simp only [h1, h2, acc, W, List.drop_drop, if_true, if_false, and_self, and_true, true_and, false_and, and_false, Nat.reduceAdd]

theorem utf8Cont_three (v : Nat) (s : Bytes) :
    utf8Cont 3 v s =
      if Tl (s.headD 0) ∧ Tl ((s.drop 1).headD 0) ∧ Tl ((s.drop 2).headD 0) then
        some (acc (acc (acc v (s.headD 0)) ((s.drop 1).headD 0)) ((s.drop 2).headD 0), s.drop 3)
      else none := by
  show utf8Cont (2 + 1) v s = _
  rw [utf8Cont_succ, utf8Cont_two]
  by_cases h1 : Tl (s.headD 0) <;> by_cases h2 : Tl ((s.drop 1).headD 0) <;>
    by_cases h3 : Tl ((s.drop 2).headD 0) <;>
    simp only [h1, h2, h3, acc, W, List.drop_drop, if_true, if_false, and_self, and_true, true_and, false_and, and_false, Nat.reduceAdd]


/-! ### one iteration of the validator, per class of lead byte -/

theorem step_ascii (b : UInt8) (r : Bytes) (h : b.toNat ≤ 0x7F) : utf8Step b r = some r := by
  unfold utf8Step; rw [if_pos ((mask80 b).2 h)]

theorem step_bad (b : UInt8) (r : Bytes)
    (h : (0x80 ≤ b.toNat ∧ b.toNat ≤ 0xBF) ∨ 0xF8 ≤ b.toNat) : utf8Step b r = none := by
  unfold utf8Step utf8Lead
  rw [if_neg (by rw [mask80]; omega), if_neg (by rw [maskE0]; omega), if_neg (by rw [maskF0]; omega),
    if_neg (by rw [maskF8]; omega)]

theorem step2 (b : UInt8) (r : Bytes) (h : 0xC0 ≤ b.toNat ∧ b.toNat ≤ 0xDF) :
    utf8Step b r = if 0xC2 ≤ b.toNat ∧ Tl (r.headD 0) then some (r.drop 1) else none := by
  unfold utf8Step utf8Lead
  rw [if_neg (by rw [mask80]; omega), if_pos ((maskE0 b).2 h)]
  simp only [utf8Cont_one, and1f]
  by_cases h1 : Tl (r.headD 0)
  · simp only [h1, if_true, and_true]
    unfold Tl at h1
    by_cases hc : 0xC2 ≤ b.toNat
    · rw [if_pos hc, if_pos]; simp only [utf8ValueOk, acc, W]; simp; omega
    · rw [if_neg hc, if_neg]; simp only [utf8ValueOk, acc, W]; simp; omega
  · simp only [h1, if_false, and_false]


def Cond3 (b b1 : UInt8) : Prop :=
  (b.toNat = 0xE0 → 0xA0 ≤ b1.toNat) ∧ (b.toNat = 0xED → b1.toNat ≤ 0x9F)
instance (b b1 : UInt8) : Decidable (Cond3 b b1) := by unfold Cond3; infer_instance

theorem step3 (b : UInt8) (r : Bytes) (h : 0xE0 ≤ b.toNat ∧ b.toNat ≤ 0xEF) :
    utf8Step b r =
      if (Tl (r.headD 0) ∧ Tl ((r.drop 1).headD 0)) ∧ Cond3 b (r.headD 0)
      then some (r.drop 2) else none := by
  unfold utf8Step utf8Lead
  rw [if_neg (by rw [mask80]; omega), if_neg (by rw [maskE0]; omega), if_pos ((maskF0 b).2 h)]
  simp only [utf8Cont_two, and0f]
  generalize r.headD 0 = b1
  generalize (r.drop 1).headD 0 = b2
  by_cases h1 : Tl b1 ∧ Tl b2
  · simp only [h1, if_true, true_and]
    obtain ⟨h1, h2⟩ := h1
    unfold Tl at h1 h2
    by_cases hc : Cond3 b b1
    · rw [if_pos hc, if_pos]; unfold Cond3 at hc; simp only [utf8ValueOk, acc, W]; simp; omega
    · rw [if_neg hc, if_neg]; unfold Cond3 at hc; simp only [utf8ValueOk, acc, W]; simp; omega
  · simp only [h1, if_false, false_and]

def Cond4 (b b1 : UInt8) : Prop :=
  b.toNat ≤ 0xF4 ∧ (b.toNat = 0xF0 → 0x90 ≤ b1.toNat) ∧ (b.toNat = 0xF4 → b1.toNat ≤ 0x8F)
instance (b b1 : UInt8) : Decidable (Cond4 b b1) := by unfold Cond4; infer_instance

theorem step4 (b : UInt8) (r : Bytes) (h : 0xF0 ≤ b.toNat ∧ b.toNat ≤ 0xF7) :
    utf8Step b r =
      if (Tl (r.headD 0) ∧ Tl ((r.drop 1).headD 0) ∧ Tl ((r.drop 2).headD 0)) ∧ Cond4 b (r.headD 0)
      then some (r.drop 3) else none := by
  unfold utf8Step utf8Lead
  rw [if_neg (by rw [mask80]; omega), if_neg (by rw [maskE0]; omega), if_neg (by rw [maskF0]; omega),
    if_pos ((maskF8 b).2 h)]
  simp only [utf8Cont_three, and07]
  generalize r.headD 0 = b1
  generalize (r.drop 1).headD 0 = b2
  generalize (r.drop 2).headD 0 = b3
  by_cases h1 : Tl b1 ∧ Tl b2 ∧ Tl b3
  · simp only [h1, if_true, true_and]
    obtain ⟨h1, h2, h3⟩ := h1
    unfold Tl at h1 h2 h3
    by_cases hc : Cond4 b b1
    · rw [if_pos hc, if_pos]; unfold Cond4 at hc; simp only [utf8ValueOk, acc, W]; simp; omega
    · rw [if_neg hc, if_neg]; unfold Cond4 at hc; simp only [utf8ValueOk, acc, W]; simp; omega
  · simp only [h1, if_false, false_and]


/-! ### the rows of the table, per range of lead byte -/
theorem row_none : ∀ b : UInt8, (b.toNat ≤ 0xC1 ∨ 0xF5 ≤ b.toNat) → row b = none := by
  apply forall_uint8; decide +kernel
theorem row_C2DF : ∀ b : UInt8, (0xC2 ≤ b.toNat ∧ b.toNat ≤ 0xDF) → row b = some (0x80, 0xBF, 0) := by
  apply forall_uint8; decide +kernel
theorem row_E0 : ∀ b : UInt8, b.toNat = 0xE0 → row b = some (0xA0, 0xBF, 1) := by
  apply forall_uint8; decide +kernel
theorem row_E1EC : ∀ b : UInt8, (0xE1 ≤ b.toNat ∧ b.toNat ≤ 0xEC) → row b = some (0x80, 0xBF, 1) := by
  apply forall_uint8; decide +kernel
theorem row_ED : ∀ b : UInt8, b.toNat = 0xED → row b = some (0x80, 0x9F, 1) := by
  apply forall_uint8; decide +kernel
theorem row_EEEF : ∀ b : UInt8, (0xEE ≤ b.toNat ∧ b.toNat ≤ 0xEF) → row b = some (0x80, 0xBF, 1) := by
  apply forall_uint8; decide +kernel
theorem row_F0 : ∀ b : UInt8, b.toNat = 0xF0 → row b = some (0x90, 0xBF, 2) := by
  apply forall_uint8; decide +kernel
theorem row_F1F3 : ∀ b : UInt8, (0xF1 ≤ b.toNat ∧ b.toNat ≤ 0xF3) → row b = some (0x80, 0xBF, 2) := by
  apply forall_uint8; decide +kernel
theorem row_F4 : ∀ b : UInt8, b.toNat = 0xF4 → row b = some (0x80, 0x8F, 2) := by
  apply forall_uint8; decide +kernel

/-- the condition of a table row on the bytes that follow the lead byte -/
def RowCond (lo hi : UInt8) (n : Nat) (r : Bytes) : Prop :=
  (lo.toNat ≤ (r.headD 0).toNat ∧ (r.headD 0).toNat ≤ hi.toNat) ∧
  (n < 1 ∨ Tl ((r.drop 1).headD 0)) ∧ (n < 2 ∨ Tl ((r.drop 2).headD 0))

theorem wfLoop_row (fuel : Nat) (b : UInt8) (r : Bytes) (lo hi : UInt8) (n : Nat)
    (hb : ¬ b.toNat ≤ 0x7F) (hrow : row b = some (lo, hi, n)) :
    wfLoop (fuel + 1) (b :: r) = true ↔ RowCond lo hi n r ∧ wfLoop fuel (r.drop (n + 1)) = true := by
  simp only [wfLoop]
  rw [if_neg (by rw [le_nat]; exact hb), hrow]
  simp only [RowCond, Bool.and_eq_true, Bool.or_eq_true, decide_eq_true_eq, tailb_iff, le_nat, and_assoc]

theorem wfLoop_norow (fuel : Nat) (b : UInt8) (r : Bytes)
    (hb : ¬ b.toNat ≤ 0x7F) (hrow : row b = none) : wfLoop (fuel + 1) (b :: r) = false := by
  simp only [wfLoop]
  rw [if_neg (by rw [le_nat]; exact hb), hrow]

theorem loop_eq_of (fuel : Nat) (b : UInt8) (r : Bytes) (lo hi : UInt8) (n : Nat) (C : Prop) [Decidable C]
    (hb : ¬ b.toNat ≤ 0x7F) (hrow : row b = some (lo, hi, n))
    (hstep : utf8Step b r = if C then some (r.drop (n + 1)) else none)
    (hC : C ↔ RowCond lo hi n r)
    (IH : ∀ s, utf8Loop fuel s = wfLoop fuel s) :
    utf8Loop (fuel + 1) (b :: r) = wfLoop (fuel + 1) (b :: r) := by
  rw [Bool.eq_iff_iff, wfLoop_row fuel b r lo hi n hb hrow, ← hC]
  simp only [utf8Loop, hstep]
  by_cases hc : C
  · simp only [hc, if_true, true_and, IH]
  · simp only [hc, if_false, false_and]; simp


theorem loop_bad (fuel : Nat) (b : UInt8) (r : Bytes) (hb : ¬ b.toNat ≤ 0x7F)
    (hrow : row b = none) (hstep : utf8Step b r = none) :
    utf8Loop (fuel + 1) (b :: r) = wfLoop (fuel + 1) (b :: r) := by
  rw [wfLoop_norow fuel b r hb hrow]; simp only [utf8Loop, hstep]

/-- T1: the validator's arithmetic computes the table, iteration by iteration -/
theorem utf8Loop_eq_wfLoop : ∀ (fuel : Nat) (s : Bytes), utf8Loop fuel s = wfLoop fuel s := by
  intro fuel
  induction fuel with
  | zero => intro s; cases s <;> rfl
  | succ fuel IH =>
    intro s
    cases s with
    | nil => rfl
    | cons b r =>
      have hlt := b.toNat_lt
      by_cases h0 : b.toNat ≤ 0x7F
      · simp only [utf8Loop, wfLoop, step_ascii b r h0]
        rw [if_pos (by rw [le_nat]; exact h0)]; exact IH r
      by_cases h1 : b.toNat ≤ 0xBF
      · exact loop_bad fuel b r h0 (row_none b (by omega)) (step_bad b r (by omega))
      by_cases h2 : b.toNat ≤ 0xC1
      · refine loop_bad fuel b r h0 (row_none b (by omega)) ?_
        rw [step2 b r (by omega), if_neg (by omega)]
      by_cases h3 : b.toNat ≤ 0xDF
      · refine loop_eq_of fuel b r _ _ _ _ h0 (row_C2DF b (by omega)) (step2 b r (by omega)) ?_ IH
        simp only [RowCond, Tl]; simp; omega
      by_cases h4 : b.toNat ≤ 0xEF
      · have hs := step3 b r (by omega)
        by_cases e0 : b.toNat = 0xE0
        · refine loop_eq_of fuel b r _ _ _ _ h0 (row_E0 b e0) hs ?_ IH
          simp only [RowCond, Tl, Cond3]; simp; omega
        by_cases e1 : b.toNat ≤ 0xEC
        · refine loop_eq_of fuel b r _ _ _ _ h0 (row_E1EC b (by omega)) hs ?_ IH
          simp only [RowCond, Tl, Cond3]; simp; omega
        by_cases e2 : b.toNat = 0xED
        · refine loop_eq_of fuel b r _ _ _ _ h0 (row_ED b e2) hs ?_ IH
          simp only [RowCond, Tl, Cond3]; simp; omega
        · refine loop_eq_of fuel b r _ _ _ _ h0 (row_EEEF b (by omega)) hs ?_ IH
          simp only [RowCond, Tl, Cond3]; simp; omega
      by_cases h5 : b.toNat ≤ 0xF7
      · have hs := step4 b r (by omega)
        by_cases f0 : b.toNat = 0xF0
        · refine loop_eq_of fuel b r _ _ _ _ h0 (row_F0 b f0) hs ?_ IH
          simp only [RowCond, Tl, Cond4]; simp; omega
        by_cases f1 : b.toNat ≤ 0xF3
        · refine loop_eq_of fuel b r _ _ _ _ h0 (row_F1F3 b (by omega)) hs ?_ IH
          simp only [RowCond, Tl, Cond4]; simp; omega
        by_cases f2 : b.toNat = 0xF4
        · refine loop_eq_of fuel b r _ _ _ _ h0 (row_F4 b f2) hs ?_ IH
          simp only [RowCond, Tl, Cond4]; simp; omega
        · refine loop_bad fuel b r h0 (row_none b (by omega)) ?_
          rw [hs, if_neg]; simp only [Cond4]; omega
      · exact loop_bad fuel b r h0 (row_none b (by omega)) (step_bad b r (by omega))


/-! ### T2: the table function decides the inductive definition -/

theorem row0_elim {lo hi : UInt8} {r : Bytes} (h : RowCond lo hi 0 r) (hlo : 0 < lo.toNat) :
    ∃ b1 r1, r = b1 :: r1 ∧ lo.toNat ≤ b1.toNat ∧ b1.toNat ≤ hi.toNat := by
  cases r with
  | nil => simp [RowCond] at h; omega
  | cons b1 r1 => exact ⟨b1, r1, rfl, by simpa [RowCond] using h.1⟩

theorem row1_elim {lo hi : UInt8} {r : Bytes} (h : RowCond lo hi 1 r) (hlo : 0 < lo.toNat) :
    ∃ b1 b2 r2, r = b1 :: b2 :: r2 ∧ (lo.toNat ≤ b1.toNat ∧ b1.toNat ≤ hi.toNat) ∧ Tl b2 := by
  cases r with
  | nil => simp [RowCond] at h; omega
  | cons b1 r1 =>
    cases r1 with
    | nil => simp [RowCond, Tl] at h
    | cons b2 r2 =>
      refine ⟨b1, b2, r2, rfl, by simpa [RowCond] using h.1, ?_⟩
      have := h.2.1; simpa using this

theorem row2_elim {lo hi : UInt8} {r : Bytes} (h : RowCond lo hi 2 r) (hlo : 0 < lo.toNat) :
    ∃ b1 b2 b3 r3, r = b1 :: b2 :: b3 :: r3 ∧ (lo.toNat ≤ b1.toNat ∧ b1.toNat ≤ hi.toNat) ∧
      Tl b2 ∧ Tl b3 := by
  cases r with
  | nil => simp [RowCond] at h; omega
  | cons b1 r1 =>
    cases r1 with
    | nil => simp [RowCond, Tl] at h
    | cons b2 r2 =>
      cases r2 with
      | nil => simp [RowCond, Tl] at h
      | cons b3 r3 =>
        refine ⟨b1, b2, b3, r3, rfl, by simpa [RowCond] using h.1, ?_, ?_⟩
        · have := h.2.1; simpa using this
        · have := h.2.2; simpa using this

theorem lit (n : Nat) (h : n < 256) : (UInt8.ofNat n).toNat = n := by
  simp [UInt8.toNat_ofNat']; omega

theorem wf_of_wfLoop : ∀ (fuel : Nat) (s : Bytes), wfLoop fuel s = true → WellFormedUtf8 s := by
  intro fuel
  induction fuel with
  | zero => intro s h; cases s with
    | nil => exact .nil
    | cons b r => simp [wfLoop] at h
  | succ fuel IH =>
    intro s h
    cases s with
    | nil => exact .nil
    | cons b r =>
      have hlt := b.toNat_lt
      by_cases h0 : b.toNat ≤ 0x7F
      · simp only [wfLoop] at h
        rw [if_pos (by rw [le_nat]; exact h0)] at h
        exact .ascii b r (by rw [le_nat]; exact h0) (IH r h)
      by_cases hn : b.toNat ≤ 0xC1 ∨ 0xF5 ≤ b.toNat
      · rw [wfLoop_norow fuel b r h0 (row_none b hn)] at h; cases h
      by_cases h3 : b.toNat ≤ 0xDF
      · obtain ⟨hc, hl⟩ := (wfLoop_row fuel b r _ _ _ h0 (row_C2DF b (by omega))).1 h
        obtain ⟨b1, r1, rfl, hb1⟩ := row0_elim hc (by decide)
        exact .two b b1 r1 (by rw [le_nat]; simpa using (by omega : 0xC2 ≤ b.toNat))
          (by rw [le_nat]; simpa using h3) ((Tail_iff b1).2 (by simpa [Tl] using hb1)) (IH _ (by simpa using hl))
      by_cases h4 : b.toNat ≤ 0xEF
      · by_cases e0 : b.toNat = 0xE0
        · obtain ⟨hc, hl⟩ := (wfLoop_row fuel b r _ _ _ h0 (row_E0 b e0)).1 h
          obtain ⟨b1, b2, r2, rfl, hb1, hb2⟩ := row1_elim hc (by decide)
          exact .threeE0 b b1 b2 r2 (by rw [eq_nat]; simpa using e0) (by rw [le_nat]; simpa using hb1.1)
            (by rw [le_nat]; simpa using hb1.2) ((Tail_iff b2).2 hb2) (IH _ (by simpa using hl))
        by_cases e1 : b.toNat ≤ 0xEC
        · obtain ⟨hc, hl⟩ := (wfLoop_row fuel b r _ _ _ h0 (row_E1EC b (by omega))).1 h
          obtain ⟨b1, b2, r2, rfl, hb1, hb2⟩ := row1_elim hc (by decide)
          exact .threeE1EC b b1 b2 r2 (by rw [le_nat]; simpa using (by omega : 0xE1 ≤ b.toNat))
            (by rw [le_nat]; simpa using e1) ((Tail_iff b1).2 (by simpa [Tl] using hb1))
            ((Tail_iff b2).2 hb2) (IH _ (by simpa using hl))
        by_cases e2 : b.toNat = 0xED
        · obtain ⟨hc, hl⟩ := (wfLoop_row fuel b r _ _ _ h0 (row_ED b e2)).1 h
          obtain ⟨b1, b2, r2, rfl, hb1, hb2⟩ := row1_elim hc (by decide)
          exact .threeED b b1 b2 r2 (by rw [eq_nat]; simpa using e2) (by rw [le_nat]; simpa using hb1.1)
            (by rw [le_nat]; simpa using hb1.2) ((Tail_iff b2).2 hb2) (IH _ (by simpa using hl))
        · obtain ⟨hc, hl⟩ := (wfLoop_row fuel b r _ _ _ h0 (row_EEEF b (by omega))).1 h
          obtain ⟨b1, b2, r2, rfl, hb1, hb2⟩ := row1_elim hc (by decide)
          exact .threeEEEF b b1 b2 r2 (by rw [le_nat]; simpa using (by omega : 0xEE ≤ b.toNat))
            (by rw [le_nat]; simpa using h4) ((Tail_iff b1).2 (by simpa [Tl] using hb1))
            ((Tail_iff b2).2 hb2) (IH _ (by simpa using hl))
      · by_cases f0 : b.toNat = 0xF0
        · obtain ⟨hc, hl⟩ := (wfLoop_row fuel b r _ _ _ h0 (row_F0 b f0)).1 h
          obtain ⟨b1, b2, b3, r3, rfl, hb1, hb2, hb3⟩ := row2_elim hc (by decide)
          exact .fourF0 b b1 b2 b3 r3 (by rw [eq_nat]; simpa using f0) (by rw [le_nat]; simpa using hb1.1)
            (by rw [le_nat]; simpa using hb1.2) ((Tail_iff b2).2 hb2) ((Tail_iff b3).2 hb3)
            (IH _ (by simpa using hl))
        by_cases f1 : b.toNat ≤ 0xF3
        · obtain ⟨hc, hl⟩ := (wfLoop_row fuel b r _ _ _ h0 (row_F1F3 b (by omega))).1 h
          obtain ⟨b1, b2, b3, r3, rfl, hb1, hb2, hb3⟩ := row2_elim hc (by decide)
          exact .fourF1F3 b b1 b2 b3 r3 (by rw [le_nat]; simpa using (by omega : 0xF1 ≤ b.toNat))
            (by rw [le_nat]; simpa using f1) ((Tail_iff b1).2 (by simpa [Tl] using hb1))
            ((Tail_iff b2).2 hb2) ((Tail_iff b3).2 hb3) (IH _ (by simpa using hl))
        · have f4 : b.toNat = 0xF4 := by omega
          obtain ⟨hc, hl⟩ := (wfLoop_row fuel b r _ _ _ h0 (row_F4 b f4)).1 h
          obtain ⟨b1, b2, b3, r3, rfl, hb1, hb2, hb3⟩ := row2_elim hc (by decide)
          exact .fourF4 b b1 b2 b3 r3 (by rw [eq_nat]; simpa using f4) (by rw [le_nat]; simpa using hb1.1)
            (by rw [le_nat]; simpa using hb1.2) ((Tail_iff b2).2 hb2) ((Tail_iff b3).2 hb3)
            (IH _ (by simpa using hl))


theorem wfLoop_of_wf {s : Bytes} (h : WellFormedUtf8 s) : ∀ fuel, s.length ≤ fuel → wfLoop fuel s = true := by
  induction h with
  | nil => intro fuel _; cases fuel <;> rfl
  | ascii b r hb _ ih =>
    intro fuel hf
    obtain ⟨f, rfl⟩ : ∃ f, fuel = f + 1 := ⟨fuel - 1, by simp at hf; omega⟩
    simp only [wfLoop]; rw [if_pos hb]; exact ih f (by simp at hf; omega)
  | two b0 b1 r h1 h2 ht _ ih =>
    intro fuel hf
    obtain ⟨f, rfl⟩ : ∃ f, fuel = f + 1 := ⟨fuel - 1, by simp at hf; omega⟩
    rw [le_nat] at h1 h2; simp at h1 h2; rw [Tail_iff] at ht
    refine (wfLoop_row f b0 _ _ _ _ (by omega) (row_C2DF b0 ⟨h1, h2⟩)).2 ⟨?_, ih f (by simp at hf ⊢; omega)⟩
    simpa [RowCond, Tl] using ht
  | threeE0 b0 b1 b2 r h0 h1 h2 ht _ ih =>
    intro fuel hf
    obtain ⟨f, rfl⟩ : ∃ f, fuel = f + 1 := ⟨fuel - 1, by simp at hf; omega⟩
    rw [eq_nat] at h0; rw [le_nat] at h1 h2; simp at h0 h1 h2; rw [Tail_iff] at ht
    refine (wfLoop_row f b0 _ _ _ _ (by omega) (row_E0 b0 h0)).2 ⟨?_, ih f (by simp at hf ⊢; omega)⟩
    simpa [RowCond] using ⟨⟨h1, h2⟩, ht⟩
  | threeE1EC b0 b1 b2 r h1 h2 ht1 ht _ ih =>
    intro fuel hf
    obtain ⟨f, rfl⟩ : ∃ f, fuel = f + 1 := ⟨fuel - 1, by simp at hf; omega⟩
    rw [le_nat] at h1 h2; simp at h1 h2; rw [Tail_iff] at ht ht1
    refine (wfLoop_row f b0 _ _ _ _ (by omega) (row_E1EC b0 ⟨h1, h2⟩)).2 ⟨?_, ih f (by simp at hf ⊢; omega)⟩
    simpa [RowCond, Tl] using ⟨ht1, ht⟩
  | threeED b0 b1 b2 r h0 h1 h2 ht _ ih =>
    intro fuel hf
    obtain ⟨f, rfl⟩ : ∃ f, fuel = f + 1 := ⟨fuel - 1, by simp at hf; omega⟩
    rw [eq_nat] at h0; rw [le_nat] at h1 h2; simp at h0 h1 h2; rw [Tail_iff] at ht
    refine (wfLoop_row f b0 _ _ _ _ (by omega) (row_ED b0 h0)).2 ⟨?_, ih f (by simp at hf ⊢; omega)⟩
    simpa [RowCond] using ⟨⟨h1, h2⟩, ht⟩
  | threeEEEF b0 b1 b2 r h1 h2 ht1 ht _ ih =>
    intro fuel hf
    obtain ⟨f, rfl⟩ : ∃ f, fuel = f + 1 := ⟨fuel - 1, by simp at hf; omega⟩
    rw [le_nat] at h1 h2; simp at h1 h2; rw [Tail_iff] at ht ht1
    refine (wfLoop_row f b0 _ _ _ _ (by omega) (row_EEEF b0 ⟨h1, h2⟩)).2 ⟨?_, ih f (by simp at hf ⊢; omega)⟩
    simpa [RowCond, Tl] using ⟨ht1, ht⟩
  | fourF0 b0 b1 b2 b3 r h0 h1 h2 ht2 ht3 _ ih =>
    intro fuel hf
    obtain ⟨f, rfl⟩ : ∃ f, fuel = f + 1 := ⟨fuel - 1, by simp at hf; omega⟩
    rw [eq_nat] at h0; rw [le_nat] at h1 h2; simp at h0 h1 h2; rw [Tail_iff] at ht2 ht3
    refine (wfLoop_row f b0 _ _ _ _ (by omega) (row_F0 b0 h0)).2 ⟨?_, ih f (by simp at hf ⊢; omega)⟩
    simpa [RowCond] using ⟨⟨h1, h2⟩, ht2, ht3⟩
  | fourF1F3 b0 b1 b2 b3 r h1 h2 ht1 ht2 ht3 _ ih =>
    intro fuel hf
    obtain ⟨f, rfl⟩ : ∃ f, fuel = f + 1 := ⟨fuel - 1, by simp at hf; omega⟩
    rw [le_nat] at h1 h2; simp at h1 h2; rw [Tail_iff] at ht1 ht2 ht3
    refine (wfLoop_row f b0 _ _ _ _ (by omega) (row_F1F3 b0 ⟨h1, h2⟩)).2 ⟨?_, ih f (by simp at hf ⊢; omega)⟩
    simpa [RowCond, Tl] using ⟨ht1, ht2, ht3⟩
  | fourF4 b0 b1 b2 b3 r h0 h1 h2 ht2 ht3 _ ih =>
    intro fuel hf
    obtain ⟨f, rfl⟩ : ∃ f, fuel = f + 1 := ⟨fuel - 1, by simp at hf; omega⟩
    rw [eq_nat] at h0; rw [le_nat] at h1 h2; simp at h0 h1 h2; rw [Tail_iff] at ht2 ht3
    refine (wfLoop_row f b0 _ _ _ _ (by omega) (row_F4 b0 h0)).2 ⟨?_, ih f (by simp at hf ⊢; omega)⟩
    simpa [RowCond] using ⟨⟨h1, h2⟩, ht2, ht3⟩

/-- T2 -/
theorem wellFormedUtf8b_iff (s : Bytes) : wellFormedUtf8b s = true ↔ WellFormedUtf8 s :=
  ⟨wf_of_wfLoop s.length s, fun h => wfLoop_of_wf h s.length (Nat.le_refl _)⟩

/-- (a) -/
theorem utf8Validate_iff (s : Bytes) : utf8Validate s = true ↔ WellFormedUtf8 s := by
  unfold utf8Validate; rw [utf8Loop_eq_wfLoop]; exact wellFormedUtf8b_iff s

end Nng.UrlProofs
