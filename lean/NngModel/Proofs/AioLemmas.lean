/- projection lemmas: what nni_task_dispatch, the expire thread's release and the generic cancel
   function leave unchanged -/
import NngModel.Model.Aio
namespace Nng.Aio
open Nng.AioSpec

@[simp] theorem dispatch_opTok (s : State) : (dispatch s).opTok = s.opTok := by unfold dispatch; split <;> rfl
@[simp] theorem dispatch_result (s : State) : (dispatch s).result = s.result := by unfold dispatch; split <;> rfl
@[simp] theorem dispatch_final (s : State) : (dispatch s).final = s.final := by unfold dispatch; split <;> rfl
@[simp] theorem dispatch_mismatch (s : State) : (dispatch s).mismatch = s.mismatch := by unfold dispatch; split <;> rfl
@[simp] theorem dispatch_dbl (s : State) : (dispatch s).dbl = s.dbl := by unfold dispatch; split <;> rfl
@[simp] theorem dispatch_early (s : State) : (dispatch s).early = s.early := by unfold dispatch; split <;> rfl
@[simp] theorem dispatch_onExp (s : State) : (dispatch s).onExp = s.onExp := by unfold dispatch; split <;> rfl
@[simp] theorem dispatch_expire (s : State) : (dispatch s).expire = s.expire := by unfold dispatch; split <;> rfl
@[simp] theorem dispatch_opDeadline (s : State) : (dispatch s).opDeadline = s.opDeadline := by unfold dispatch; split <;> rfl
@[simp] theorem dispatch_subPc (s : State) : (dispatch s).subPc = s.subPc := by unfold dispatch; split <;> rfl
@[simp] theorem dispatch_expiring (s : State) : (dispatch s).expiring = s.expiring := by unfold dispatch; split <;> rfl
@[simp] theorem dispatch_expGen (s : State) : (dispatch s).expGen = s.expGen := by unfold dispatch; split <;> rfl
@[simp] theorem dispatch_starts (s : State) : (dispatch s).starts = s.starts := by unfold dispatch; split <;> rfl
@[simp] theorem dispatch_now (s : State) : (dispatch s).now = s.now := by unfold dispatch; split <;> rfl
@[simp] theorem dispatch_stoppedAt (s : State) : (dispatch s).stoppedAt = s.stoppedAt := by unfold dispatch; split <;> rfl
@[simp] theorem dispatch_stop (s : State) : (dispatch s).stop = s.stop := by unfold dispatch; split <;> rfl
@[simp] theorem dispatch_stopPc (s : State) : (dispatch s).stopPc = s.stopPc := by unfold dispatch; split <;> rfl
@[simp] theorem dispatch_freed (s : State) : (dispatch s).freed = s.freed := by unfold dispatch; split <;> rfl
@[simp] theorem dispatch_lateBad (s : State) : (dispatch s).lateBad = s.lateBad := by unfold dispatch; split <;> rfl
@[simp] theorem dispatch_cancelFn (s : State) : (dispatch s).cancelFn = s.cancelFn := by unfold dispatch; split <;> rfl
@[simp] theorem dispatch_stopFree (s : State) : (dispatch s).stopFree = s.stopFree := by unfold dispatch; split <;> rfl
@[simp] theorem dispatch_subFromCb (s : State) : (dispatch s).subFromCb = s.subFromCb := by unfold dispatch; split <;> rfl
@[simp] theorem dispatch_aborts (s : State) : (dispatch s).aborts = s.aborts := by unfold dispatch; split <;> rfl
@[simp] theorem dispatch_calls (s : State) : (dispatch s).calls = s.calls := by unfold dispatch; split <;> rfl
@[simp] theorem dispatch_closes (s : State) : (dispatch s).closes = s.closes := by unfold dispatch; split <;> rfl
@[simp] theorem release_opTok (s : State) : (release s).opTok = s.opTok := by unfold release; split <;> simp
@[simp] theorem release_result (s : State) : (release s).result = s.result := by unfold release; split <;> simp
@[simp] theorem release_final (s : State) : (release s).final = s.final := by unfold release; split <;> simp
@[simp] theorem release_mismatch (s : State) : (release s).mismatch = s.mismatch := by unfold release; split <;> simp
@[simp] theorem release_dbl (s : State) : (release s).dbl = s.dbl := by unfold release; split <;> simp
@[simp] theorem release_early (s : State) : (release s).early = s.early := by unfold release; split <;> simp
@[simp] theorem release_onExp (s : State) : (release s).onExp = s.onExp := by unfold release; split <;> simp
@[simp] theorem release_expire (s : State) : (release s).expire = s.expire := by unfold release; split <;> simp
@[simp] theorem release_opDeadline (s : State) : (release s).opDeadline = s.opDeadline := by unfold release; split <;> simp
@[simp] theorem release_subPc (s : State) : (release s).subPc = s.subPc := by unfold release; split <;> simp
@[simp] theorem release_expGen (s : State) : (release s).expGen = s.expGen := by unfold release; split <;> simp
@[simp] theorem release_starts (s : State) : (release s).starts = s.starts := by unfold release; split <;> simp
@[simp] theorem release_now (s : State) : (release s).now = s.now := by unfold release; split <;> simp
@[simp] theorem release_stoppedAt (s : State) : (release s).stoppedAt = s.stoppedAt := by unfold release; split <;> simp
@[simp] theorem release_stop (s : State) : (release s).stop = s.stop := by unfold release; split <;> simp
@[simp] theorem release_stopPc (s : State) : (release s).stopPc = s.stopPc := by unfold release; split <;> simp
@[simp] theorem release_freed (s : State) : (release s).freed = s.freed := by unfold release; split <;> simp
@[simp] theorem release_lateBad (s : State) : (release s).lateBad = s.lateBad := by unfold release; split <;> simp
@[simp] theorem release_cancelFn (s : State) : (release s).cancelFn = s.cancelFn := by unfold release; split <;> simp
@[simp] theorem release_stopFree (s : State) : (release s).stopFree = s.stopFree := by unfold release; split <;> simp
@[simp] theorem release_subFromCb (s : State) : (release s).subFromCb = s.subFromCb := by unfold release; split <;> simp
@[simp] theorem release_aborts (s : State) : (release s).aborts = s.aborts := by unfold release; split <;> simp
@[simp] theorem release_calls (s : State) : (release s).calls = s.calls := by unfold release; split <;> simp
@[simp] theorem release_closes (s : State) : (release s).closes = s.closes := by unfold release; split <;> simp
@[simp] theorem release_expiring (s : State) : (release s).expiring = false := by unfold release; split <;> simp
@[simp] theorem release_expPc (s : State) : (release s).expPc = 0 := by unfold release; split <;> simp [dispatch] <;> split <;> rfl
@[simp] theorem cancelGen_opTok (s : State) (rv : Nat) : (cancelCore s .gen rv).opTok = s.opTok := by simp only [cancelCore]; split <;> rfl
@[simp] theorem cancelGen_result (s : State) (rv : Nat) : (cancelCore s .gen rv).result = s.result := by simp only [cancelCore]; split <;> rfl
@[simp] theorem cancelGen_final (s : State) (rv : Nat) : (cancelCore s .gen rv).final = s.final := by simp only [cancelCore]; split <;> rfl
@[simp] theorem cancelGen_mismatch (s : State) (rv : Nat) : (cancelCore s .gen rv).mismatch = s.mismatch := by simp only [cancelCore]; split <;> rfl
@[simp] theorem cancelGen_dbl (s : State) (rv : Nat) : (cancelCore s .gen rv).dbl = s.dbl := by simp only [cancelCore]; split <;> rfl
@[simp] theorem cancelGen_early (s : State) (rv : Nat) : (cancelCore s .gen rv).early = s.early := by simp only [cancelCore]; split <;> rfl
@[simp] theorem cancelGen_onExp (s : State) (rv : Nat) : (cancelCore s .gen rv).onExp = s.onExp := by simp only [cancelCore]; split <;> rfl
@[simp] theorem cancelGen_expire (s : State) (rv : Nat) : (cancelCore s .gen rv).expire = s.expire := by simp only [cancelCore]; split <;> rfl
@[simp] theorem cancelGen_opDeadline (s : State) (rv : Nat) : (cancelCore s .gen rv).opDeadline = s.opDeadline := by simp only [cancelCore]; split <;> rfl
@[simp] theorem cancelGen_subPc (s : State) (rv : Nat) : (cancelCore s .gen rv).subPc = s.subPc := by simp only [cancelCore]; split <;> rfl
@[simp] theorem cancelGen_expiring (s : State) (rv : Nat) : (cancelCore s .gen rv).expiring = s.expiring := by simp only [cancelCore]; split <;> rfl
@[simp] theorem cancelGen_expGen (s : State) (rv : Nat) : (cancelCore s .gen rv).expGen = s.expGen := by simp only [cancelCore]; split <;> rfl
@[simp] theorem cancelGen_starts (s : State) (rv : Nat) : (cancelCore s .gen rv).starts = s.starts := by simp only [cancelCore]; split <;> rfl
@[simp] theorem cancelGen_now (s : State) (rv : Nat) : (cancelCore s .gen rv).now = s.now := by simp only [cancelCore]; split <;> rfl
@[simp] theorem cancelGen_stoppedAt (s : State) (rv : Nat) : (cancelCore s .gen rv).stoppedAt = s.stoppedAt := by simp only [cancelCore]; split <;> rfl
@[simp] theorem cancelGen_stop (s : State) (rv : Nat) : (cancelCore s .gen rv).stop = s.stop := by simp only [cancelCore]; split <;> rfl
@[simp] theorem cancelGen_stopPc (s : State) (rv : Nat) : (cancelCore s .gen rv).stopPc = s.stopPc := by simp only [cancelCore]; split <;> rfl
@[simp] theorem cancelGen_freed (s : State) (rv : Nat) : (cancelCore s .gen rv).freed = s.freed := by simp only [cancelCore]; split <;> rfl
@[simp] theorem cancelGen_lateBad (s : State) (rv : Nat) : (cancelCore s .gen rv).lateBad = s.lateBad := by simp only [cancelCore]; split <;> rfl
@[simp] theorem cancelGen_cancelFn (s : State) (rv : Nat) : (cancelCore s .gen rv).cancelFn = s.cancelFn := by simp only [cancelCore]; split <;> rfl
@[simp] theorem cancelGen_stopFree (s : State) (rv : Nat) : (cancelCore s .gen rv).stopFree = s.stopFree := by simp only [cancelCore]; split <;> rfl
@[simp] theorem cancelGen_subFromCb (s : State) (rv : Nat) : (cancelCore s .gen rv).subFromCb = s.subFromCb := by simp only [cancelCore]; split <;> rfl
@[simp] theorem cancelGen_aborts (s : State) (rv : Nat) : (cancelCore s .gen rv).aborts = s.aborts := by simp only [cancelCore]; split <;> rfl
@[simp] theorem cancelGen_calls (s : State) (rv : Nat) : (cancelCore s .gen rv).calls = s.calls := by simp only [cancelCore]; split <;> rfl
@[simp] theorem cancelGen_closes (s : State) (rv : Nat) : (cancelCore s .gen rv).closes = s.closes := by simp only [cancelCore]; split <;> rfl
theorem cancelSlp_noop (s : State) (rv : Nat) (h : s.sleep = false) : cancelCore s .slp rv = s := by unfold cancelCore; simp [h]
@[simp] theorem release_busy_noDisp (s : State) (h : s.expDispatch = false) : (release s).busy = s.busy := by unfold release; simp [h]

end Nng.Aio
