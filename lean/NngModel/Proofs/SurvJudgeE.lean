/-
  SURVEYOR judge accepts the model, part E: whole batches of parked receives fail — the expiry thread
  after `advance`, a context is closed, the socket is closed.
-/
import NngModel.Proofs.SurvJudgeD
namespace Nng.SurvProofs
open Nng Nng.Proto Nng.Survey Nng.SurveySpec Nng.SurvJudge

/-! ### the judge on a block of completions -/

def doneP : Out → Bool := fun o => match o with | .done .. => true | _ => false
def restP : Out → Bool := fun o => match o with | .done .. => false | _ => true

theorem survProc_nosend {ev : Ev} (hev : ∀ k a m md, ev ≠ .send k a m md) (sa : Option Nat) (outs : List Out) (j : SurvJ) :
    survProc ev sa outs j = (outs.filter restP).foldl (survOut ev sa) ((outs.filter doneP).foldl (survOut ev sa) j) := by
  unfold survProc
  cases ev <;> first | rfl | (exact absurd rfl (hev _ _ _ _))

theorem inert_not_done {o : Out} (h : inertB o = true) : doneP o = false := by
  cases o <;> first | rfl | (simp [inertB] at h)

theorem done_not_rest {o : Out} (h : doneP o = true) : restP o = false := by
  cases o <;> first | rfl | (simp [doneP] at h)

theorem done_not_inert {o : Out} (h : doneP o = true) : inertB o = false := by
  cases o <;> first | rfl | (simp [doneP] at h)

/-- inert outputs, then completions, then inert outputs: only the completions matter -/
theorem proc_dones {ev : Ev} (hev : ∀ k a m md, ev ≠ .send k a m md) (sa : Option Nat) (pre D post : List Out)
    (hpre : ∀ o ∈ pre, inertB o = true) (hD : ∀ o ∈ D, doneP o = true) (hpost : ∀ o ∈ post, inertB o = true) (j : SurvJ) :
    survProc ev sa (pre ++ D ++ post) j = D.foldl (survOut ev sa) j := by
  rw [survProc_nosend hev]
  have f1 : (pre ++ D ++ post).filter doneP = D := by
    rw [List.filter_append, List.filter_append]
    have a1 : pre.filter doneP = [] := by
      rw [List.filter_eq_nil_iff]; intro o ho; rw [inert_not_done (hpre o ho)]; simp
    have a2 : post.filter doneP = [] := by
      rw [List.filter_eq_nil_iff]; intro o ho; rw [inert_not_done (hpost o ho)]; simp
    have a3 : D.filter doneP = D := List.filter_eq_self.mpr hD
    rw [a1, a2, a3]; simp
  rw [f1]
  apply foldl_inert
  intro o ho
  have := List.mem_filter.mp ho
  rcases List.mem_append.mp this.1 with h1 | h1
  · rcases List.mem_append.mp h1 with h2 | h2
    · exact hpre o h2
    · have h3 := done_not_rest (hD o h2)
      have h4 := this.2
      rw [h3] at h4; cases h4
  · exact hpost o h1

theorem hasBlocked_of {outs : List Out} (h : ∀ o ∈ outs, inertB o = true ∨ doneP o = true) : hasBlocked outs = false := by
  unfold hasBlocked
  rw [Bool.eq_false_iff]
  intro ht
  rw [List.any_eq_true] at ht
  obtain ⟨o, ho, hp⟩ := ht
  rcases h o ho with h1 | h1 <;> (cases o <;> simp_all [inertB, doneP])

theorem notExecuted_of {outs : List Out} (h : ∀ o ∈ outs, inertB o = true ∨ doneP o = true) : notExecuted outs = false := by
  unfold notExecuted
  rw [Bool.eq_false_iff]
  intro ht
  rw [List.any_eq_true] at ht
  obtain ⟨o, ho, hp⟩ := ht
  rcases h o ho with h1 | h1 <;> (cases o <;> simp_all [inertB, doneP])

/-! ### parked aios are pairwise distinct -/

theorem nodup_map_inj {α β : Type} {f : α → β} {l : List α} (h : (l.map f).Nodup) {a b : α} (ha : a ∈ l) (hb : b ∈ l)
    (he : f a = f b) : a = b := by
  induction l with
  | nil => cases ha
  | cons x t ih =>
    simp only [List.map_cons, List.nodup_cons, List.mem_map, not_exists, not_and] at h
    rcases List.mem_cons.mp ha with e1 | ha' <;> rcases List.mem_cons.mp hb with e2 | hb'
    · rw [e1, e2]
    · exact absurd (by rw [← e1, he]) (h.1 b hb')
    · exact absurd (by rw [← e2, he]) (h.1 a ha')
    · exact ih h.2 ha' hb'

theorem parked_unique {s : State} (hx : XInv s) {c1 c2 : Ctx} {pk1 pk2 : Parked} (h1 : c1 ∈ s.ctxs) (h2 : c2 ∈ s.ctxs)
    (p1 : pk1 ∈ c1.rq) (p2 : pk2 ∈ c2.rq) (he : pk1.aio = pk2.aio) : c1 = c2 ∧ pk1 = pk2 := by
  have hk := (hx.px c1 h1 c2 h2).aiou pk1 p1 pk2 p2 he
  have g1 := getCtx_of_mem hx.keys h1
  have g2 := getCtx_of_mem hx.keys h2
  rw [hk, g2] at g1
  have hc : c2 = c1 := Option.some.inj g1
  subst hc
  exact ⟨rfl, nodup_map_inj (hx.cx c2 h2).rqn p1 p2 he⟩

theorem nodup_flat (p : Parked → Bool) : ∀ (l : List Ctx), (l.map (·.key)).Nodup → (∀ c ∈ l, (c.rq.map (·.aio)).Nodup) →
    (∀ c1 ∈ l, ∀ c2 ∈ l, ∀ pk1 ∈ c1.rq, ∀ pk2 ∈ c2.rq, pk1.aio = pk2.aio → c1.key = c2.key) →
    (l.flatMap fun c => (c.rq.filter p).map (·.aio)).Nodup := by
  intro l
  induction l with
  | nil => intro _ _ _; simp
  | cons x t ih =>
    intro hk hr ha
    simp only [List.map_cons, List.nodup_cons, List.mem_map, not_exists, not_and] at hk
    rw [List.flatMap_cons, List.nodup_append]
    refine ⟨?_, ?_, ?_⟩
    · exact List.Nodup.sublist (List.filter_sublist.map _) (hr x (by simp))
    · exact ih hk.2 (fun c hc => hr c (List.mem_cons_of_mem _ hc))
        (fun c1 h1 c2 h2 => ha c1 (List.mem_cons_of_mem _ h1) c2 (List.mem_cons_of_mem _ h2))
    · intro a ha1 b hb1 hab
      subst hab
      simp only [List.mem_map, List.mem_filter] at ha1
      obtain ⟨pk1, ⟨hp1, _⟩, e1⟩ := ha1
      simp only [List.mem_flatMap, List.mem_map, List.mem_filter] at hb1
      obtain ⟨c2, hc2, pk2, ⟨hp2, _⟩, e2⟩ := hb1
      have := ha x (by simp) c2 (List.mem_cons_of_mem _ hc2) pk1 hp1 pk2 hp2 (by rw [e1, e2])
      exact hk.1 c2 hc2 this.symm

/-- aios of the parked receives selected by `p`, in the model's output order -/
def selL (s : State) (p : Parked → Bool) : List Nat := s.ctxs.flatMap fun c => (c.rq.filter p).map (·.aio)

theorem selL_nodup {s : State} (hx : XInv s) (p : Parked → Bool) : (selL s p).Nodup :=
  nodup_flat p s.ctxs hx.keys (fun c hc => (hx.cx c hc).rqn) (fun c1 h1 c2 h2 => (hx.px c1 h1 c2 h2).aiou)

theorem mem_selL {s : State} (hx : XInv s) {p : Parked → Bool} {c : Ctx} {pk : Parked} (hc : c ∈ s.ctxs) (hpk : pk ∈ c.rq) :
    pk.aio ∈ selL s p ↔ p pk = true := by
  unfold selL
  simp only [List.mem_flatMap, List.mem_map, List.mem_filter]
  constructor
  · rintro ⟨c2, hc2, pk2, ⟨hp2, hpp⟩, e⟩
    obtain ⟨_, rfl⟩ := parked_unique hx hc2 hc hp2 hpk e
    exact hpp
  · intro hp; exact ⟨c, hc, pk, ⟨hpk, hp⟩, rfl⟩

theorem selL_pend {s : State} {j : SurvJ} (h : R0 s j) (hx : XInv s) {p : Parked → Bool} {a : Nat} (ha : a ∈ selL s p) :
    ∃ pr ∈ j.pend, pr.aio = a := by
  unfold selL at ha
  simp only [List.mem_flatMap, List.mem_map, List.mem_filter] at ha
  obtain ⟨c, hc, pk, ⟨hpk, _⟩, e⟩ := ha
  obtain ⟨pr, hpr, e1, _⟩ := h.p3 c.key c (getCtx_of_mem hx.keys hc) pk hpk
  exact ⟨pr, hpr, by rw [e1, e]⟩

/-- the parked receive behind a pending receive of the judge -/
theorem pend_sel {s : State} {j : SurvJ} (h : R0 s j) (hx : XInv s) {p : Parked → Bool} {pr : PendRecv}
    (hpr : pr ∈ j.pend) (hin : pr.aio ∈ selL s p) :
    ∃ c pk, getCtx s pr.ctx = some c ∧ pk ∈ c.rq ∧ pk.aio = pr.aio ∧ p pk = true := by
  obtain ⟨_, c, hc, pk, hpk, hpa, _⟩ := h.p2 pr hpr
  refine ⟨c, pk, hc, hpk, hpa, ?_⟩
  rw [← hpa] at hin
  exact (mem_selL hx (m_getCtx_mem hc) hpk).mp hin

/-- the model's batch of cancellations is `kill` -/
theorem kill_sel {s : State} (hx : XInv s) (p : Parked → Bool) {c : Ctx} (hc : c ∈ s.ctxs) :
    kill (selL s p) c =
      if (c.rq.filter p).isEmpty then c else { c with rq := c.rq.filter (fun pk => !p pk), surveyId := 0 } := by
  unfold kill
  have hiff : ∀ pk ∈ c.rq, (selL s p).contains pk.aio = p pk := by
    intro pk hpk
    have := mem_selL (p := p) hx hc hpk
    cases hp : p pk with
    | true => rw [hp] at this; simpa using this.mpr rfl
    | false =>
      rw [hp] at this
      rw [Bool.eq_false_iff]
      intro hcn
      have := this.mp (by simpa using hcn)
      cases this
  have hany : c.rq.any (fun pk => (selL s p).contains pk.aio) = !(c.rq.filter p).isEmpty := by
    cases he : (c.rq.filter p).isEmpty with
    | true =>
      rw [List.isEmpty_iff, List.filter_eq_nil_iff] at he
      simp only [Bool.not_true]
      rw [Bool.eq_false_iff]
      intro ht
      rw [List.any_eq_true] at ht
      obtain ⟨pk, hpk, hp⟩ := ht
      rw [hiff pk hpk] at hp
      exact he pk hpk hp
    | false =>
      simp only [Bool.not_false]
      rw [List.any_eq_true]
      have hne : c.rq.filter p ≠ [] := by intro e; rw [e] at he; simp at he
      obtain ⟨pk, hpk⟩ := List.exists_mem_of_ne_nil _ hne
      have := List.mem_filter.mp hpk
      exact ⟨pk, this.1, by rw [hiff pk this.1]; exact this.2⟩
  rw [hany]
  cases he : (c.rq.filter p).isEmpty with
  | true => simp
  | false =>
    simp only [Bool.not_false, if_true, Bool.false_eq_true, if_false]
    congr 1
    apply List.filter_congr
    intro pk hpk
    rw [hiff pk hpk]

/-! ### the expiry thread after `advance` -/

theorem flatMap_congr_mem {α β : Type} {l : List α} {f g : α → List β} (h : ∀ a ∈ l, f a = g a) :
    l.flatMap f = l.flatMap g := by
  induction l with
  | nil => rfl
  | cons x t ih =>
    rw [List.flatMap_cons, List.flatMap_cons, h x (by simp), ih (fun a ha => h a (List.mem_cons_of_mem _ ha))]

theorem expireCtx_fst (now : Nat) (c : Ctx) :
    (expireCtx now c).1 =
      if (c.rq.filter fun pk => decide (pk.deadline < (now : Int))).isEmpty then c
      else { c with rq := c.rq.filter (fun pk => !decide (pk.deadline < (now : Int))), surveyId := 0 } := by
  unfold expireCtx
  simp only
  split <;> rfl

theorem expireCtx_outs (now : Nat) (c : Ctx) :
    (expireCtx now c).2 =
      ((c.rq.filter fun pk => decide (pk.deadline < (now : Int))).map (·.aio)).map fun a => Out.done a Err.etimedout none false := by
  unfold expireCtx
  simp only
  split
  · rename_i he
    rw [List.isEmpty_iff] at he
    rw [he]; rfl
  · rw [List.map_map]; rfl

theorem expire_sim {s : State} {j : SurvJ} (hR : R s j) (hm : MInv s) (ms : Nat)
    (hm' : MInv (expire { s with now := s.now + ms }).1) :
    R (expire { s with now := s.now + ms }).1 (survStep j (.advance ms) (expire { s with now := s.now + ms }).2) := by
  have h := hR.r0
  have hL := selL_nodup hm.x (fun pk => decide (pk.deadline < ((s.now + ms : Nat) : Int)))
  generalize hLdef : selL s (fun pk => decide (pk.deadline < ((s.now + ms : Nat) : Int))) = L at hL
  have houts : (expire { s with now := s.now + ms }).2 = L.map fun a => Out.done a Err.etimedout none false := by
    unfold expire
    simp only
    rw [← hLdef]
    unfold selL
    rw [List.map_flatMap]
    apply flatMap_congr_mem
    intro c _
    exact expireCtx_outs _ c
  rw [houts]
  -- the judge after the event part
  have h1 : R0 { s with now := s.now + ms } { j with now := j.now + ms } :=
    ⟨h.err, by show j.now + ms = s.now + ms; rw [h.now], h.ncl, h.dom, h.ctx, h.p1, h.p2, h.p3, h.sentV, h.sentN, h.sq,
      h.arrS, h.arrB, h.nseq⟩
  have hall : ∀ o ∈ L.map (fun a => Out.done a Err.etimedout none false), inertB o = true ∨ doneP o = true := by
    intro o ho
    simp only [List.mem_map] at ho
    obtain ⟨a, _, rfl⟩ := ho
    exact Or.inr rfl
  have hres : FailRes (.advance ms) { j with now := j.now + ms }
      (L.foldl (fun j a => survOut (.advance ms) none j (.done a Err.etimedout none false)) { j with now := j.now + ms }) L := by
    apply failBatch (.advance ms) none Err.etimedout (by decide) L { j with now := j.now + ms } h.err hL h.p1
    · intro a ha
      rw [← hLdef] at ha
      exact ⟨by simp, selL_pend h hm.x ha⟩
    · intro pr hpr hin
      right
      refine ⟨by decide, by decide, ?_⟩
      intro _ _
      rw [← hLdef] at hin
      obtain ⟨c, pk, hc, hpk, hpa, hp⟩ := pend_sel h hm.x hpr hin
      obtain ⟨c0, cj, sv, pk0, hc0, hcj, hs, hd, hpk0, hpa0, heff, _⟩ := R0_pend h hpr
      rw [hc] at hc0; cases hc0
      have : pk0 = pk := (parked_unique hm.x (m_getCtx_mem hc) (m_getCtx_mem hc) hpk0 hpk (by rw [hpa0, hpa])).2
      subst this
      refine ⟨pk0.deadline, heff, ?_⟩
      have hp' : pk0.deadline < ((s.now + ms : Nat) : Int) := by simpa using hp
      show pk0.deadline < ((j.now + ms : Nat) : Int)
      rw [h.now]; exact hp'
  apply finish h.err (notExecuted_of hall)
    (j2 := L.foldl (fun j a => survOut (.advance ms) none j (.done a Err.etimedout none false)) { j with now := j.now + ms })
    _ _ hm' (hasBlocked_of hall) (pollClause_other (by intro a h; cases h) (by intro a m h; cases h)) (Or.inl rfl)
  · show survPostA _ _ (survProc (.advance ms) none _ { j with now := j.now + ms }) = _
    have := proc_dones (ev := .advance ms) (by intro _ _ _ _ h; cases h) none [] (L.map fun a => Out.done a Err.etimedout none false) []
      (by simp) (by intro o ho; simp only [List.mem_map] at ho; obtain ⟨a, _, rfl⟩ := ho; rfl) (by simp) { j with now := j.now + ms }
    simp only [List.nil_append, List.append_nil] at this
    rw [this, List.foldl_map]
    rfl
  · refine kill_R0 h1 (fun c hc => (hm.i.ctxsOK c hc).excl) hR.fresh (fun _ => rfl) hres ?_ (by rfl) (by rfl) (by rfl) (by rfl)
    intro k
    show (s.ctxs.map fun c => (expireCtx (s.now + ms) c).1).find? (·.key == k) = (getCtx s k).map (kill L)
    rw [m_getCtx_map _ _ (fun c => expireCtx_key _ c)]
    show (getCtx s k).map _ = _
    cases hg : getCtx s k with
    | none => rfl
    | some c =>
      simp only [Option.map_some, Option.some.injEq]
      rw [← hLdef, kill_sel hm.x _ (m_getCtx_mem hg), expireCtx_fst]

/-! ### a context is closed -/

theorem remove_R0 {s1 s' : State} {j1 : SurvJ} (h : R0 s1 j1) (k : Nat)
    (hrq : ∀ c1, getCtx s1 (some k) = some c1 → c1.rq = [])
    (hg : ∀ k', getCtx s' k' = if k' = some k then none else getCtx s1 k')
    (hn : s'.now = s1.now) (hi : s'.issued = s1.issued) (ha : s'.narrive = s1.narrive) (hp : s'.pipes = s1.pipes) :
    R0 s' { j1 with ctxs := j1.ctxs.filter (·.key != some k) } := by
  have jg : ∀ k', SurvJ.getCtx { j1 with ctxs := j1.ctxs.filter (·.key != some k) } k' =
      if k' = some k then none else j1.getCtx k' := fun k' => find_key_filter_ne (fun q : CtxJ => q.key) j1.ctxs (some k) k'
  refine ⟨h.err, by rw [hn]; exact h.now, h.ncl, ?_, ?_, h.p1, ?_, ?_, by rw [hi]; exact h.sentV, h.sentN, ?_,
    h.arrS, h.arrB, by rw [ha]; exact h.nseq⟩
  · intro k'
    rw [hg, jg]
    by_cases hk : k' = some k
    · simp [hk]
    · simp only [hk, if_false]; exact h.dom k'
  · intro k' c cj g1 g2
    rw [hg] at g1; rw [jg] at g2
    by_cases hk : k' = some k
    · simp [hk] at g1
    · simp only [hk, if_false] at g1 g2
      rw [hi]; exact h.ctx k' c cj g1 g2
  · intro pr hpr
    obtain ⟨hz, c, hc, pk, hpk, hpa, hdl⟩ := h.p2 pr hpr
    refine ⟨hz, c, ?_, pk, hpk, hpa, hdl⟩
    rw [hg]
    have : pr.ctx ≠ some k := by
      intro he
      rw [he] at hc
      have := hrq c hc
      rw [this] at hpk; cases hpk
    simp only [this, if_false]; exact hc
  · intro k' c g1 pk hpk
    rw [hg] at g1
    by_cases hk : k' = some k
    · simp [hk] at g1
    · simp only [hk, if_false] at g1
      exact h.p3 k' c g1 pk hpk
  · intro pp hpp m hmm
    rw [hp] at hpp; rw [hi]; exact h.sq pp hpp m hmm

theorem abortCtx_outs (c : Ctx) (err : Nat) :
    (abortCtx c err).2 = (c.rq.map (·.aio)).map fun a => Out.done a err none false := by
  unfold abortCtx
  simp only [List.map_map]
  rfl

theorem ctxClose_sim {s : State} {j : SurvJ} (hR : R s j) (hm : MInv s) (k : Nat) (c : Ctx)
    (hc : getCtx s (some k) = some c) (hm' : MInv { s with ctxs := s.ctxs.filter (·.key != some k) }) :
    R { s with ctxs := s.ctxs.filter (·.key != some k) }
      (survStep j (.ctxClose k) ([.rv 0] ++ (abortCtx c Err.eclosed).2)) := by
  have h := hR.r0
  have hcm := m_getCtx_mem hc
  have hck : c.key = some k := m_key hc
  rw [abortCtx_outs]
  generalize hLdef : c.rq.map (·.aio) = L
  have hL : L.Nodup := by rw [← hLdef]; exact (hm.x.cx c hcm).rqn
  have hall : ∀ o ∈ [Out.rv 0] ++ L.map (fun a => Out.done a Err.eclosed none false), inertB o = true ∨ doneP o = true := by
    intro o ho
    simp only [List.cons_append, List.nil_append, List.mem_cons, List.mem_map] at ho
    rcases ho with rfl | ⟨a, _, rfl⟩
    · exact Or.inl rfl
    · exact Or.inr rfl
  have hres : FailRes (.ctxClose k) j
      (L.foldl (fun j a => survOut (.ctxClose k) none j (.done a Err.eclosed none false)) j) L := by
    apply failBatch (.ctxClose k) none Err.eclosed (by decide) L _ h.err hL h.p1
    · intro a ha
      rw [← hLdef] at ha
      simp only [List.mem_map] at ha
      obtain ⟨pk, hpk, rfl⟩ := ha
      obtain ⟨pr, hpr, e1, _⟩ := h.p3 (some k) c hc pk hpk
      exact ⟨by simp, pr, hpr, e1⟩
    · intro pr _ _
      right
      exact ⟨by decide, by decide, fun e => by cases e⟩
  generalize hj' : L.foldl (fun j a => survOut (.ctxClose k) none j (.done a Err.eclosed none false)) j = j' at hres
  -- intermediate: the context emptied by `surv0_ctx_abort`, still there
  have hkc : ∀ pk ∈ c.rq, (L.contains pk.aio) = true := by
    intro pk hpk
    rw [← hLdef]
    simp only [List.contains_eq_mem, List.mem_map, decide_eq_true_eq]
    exact ⟨pk, hpk, rfl⟩
  have hmid : R0 (setCtx s (kill L c)) j' := by
    refine kill_R0 h (fun c hc => (hm.i.ctxsOK c hc).excl) hR.fresh (fun _ => rfl) hres ?_ (by rfl) (by rfl) (by rfl) (by rfl)
    intro k'
    rw [m_getCtx_setCtx_k (k0 := some k) (by rw [kill_key]; exact hck)]
    by_cases hk : k' = some k
    · subst hk
      rw [if_pos rfl, hc]; rfl
    · rw [if_neg hk]
      cases hq : getCtx s k' with
      | none => rfl
      | some q =>
        simp only [Option.map_some, Option.some.injEq]
        symm
        apply kill_noop
        intro pk2 hpk2 hin
        rw [← hLdef] at hin
        simp only [List.mem_map] at hin
        obtain ⟨pk, hpk, e⟩ := hin
        have := (parked_unique hm.x (m_getCtx_mem hq) hcm hpk2 hpk e.symm).1
        subst this
        exact hk (by rw [← m_key hq, hck])
  have hkrq : (kill L c).rq = [] := by
    unfold kill
    split
    · simp only
      rw [List.filter_eq_nil_iff]
      intro pk hpk
      have := hkc pk hpk
      simpa using this
    · rename_i hany
      cases hrq : c.rq with
      | nil => rfl
      | cons pk t =>
        exfalso; apply hany
        rw [List.any_eq_true]
        exact ⟨pk, by rw [hrq]; simp, hkc pk (by rw [hrq]; simp)⟩
  have hnone : j'.pend.find? (fun (pr : PendRecv) => pr.ctx == some k) = none := by
    rw [List.find?_eq_none]
    intro pr hpr hctx
    obtain ⟨_, c1, hc1, pk, hpk, _⟩ := hmid.p2 pr hpr
    have hk1 : pr.ctx = some k := by simpa using hctx
    rw [hk1, m_getCtx_setCtx_k (k0 := some k) (by rw [kill_key]; exact hck), if_pos rfl, hc] at hc1
    simp only [Option.map_some, Option.some.injEq] at hc1
    subst hc1
    rw [hkrq] at hpk; cases hpk
  apply finish h.err (notExecuted_of hall) (j2 := { j' with ctxs := j'.ctxs.filter (·.key != some k) })
    _ _ hm' (hasBlocked_of hall) (pollClause_other (by intro a h; cases h) (by intro a m h; cases h)) (Or.inl rfl)
  · show survPostA (.ctxClose k) _ (survProc (.ctxClose k) none _ j) = _
    have := proc_dones (ev := .ctxClose k) (by intro _ _ _ _ h; cases h) none [.rv 0] (L.map fun a => Out.done a Err.eclosed none false) []
      (by intro o ho; simp only [List.mem_singleton] at ho; subst ho; rfl)
      (by intro o ho; simp only [List.mem_map] at ho; obtain ⟨a, _, rfl⟩ := ho; rfl) (by simp) j
    simp only [List.append_nil] at this
    rw [this, List.foldl_map, hj']
    simp only [survPostA, List.cons_append, List.nil_append, List.contains_cons, beq_self_eq_true, Bool.true_or, if_true, hnone]
  · refine remove_R0 hmid k ?_ ?_ (by rfl) (by rfl) (by rfl) (by rfl)
    · intro c1 hc1
      rw [m_getCtx_setCtx_k (k0 := some k) (by rw [kill_key]; exact hck), if_pos rfl, hc] at hc1
      simp only [Option.map_some, Option.some.injEq] at hc1
      subst hc1; exact hkrq
    · intro k'
      show (s.ctxs.filter (·.key != some k)).find? (·.key == k') = _
      rw [m_getCtx_filter]
      by_cases hk : k' = some k
      · simp [hk]
      · simp only [hk, if_false]
        rw [m_getCtx_setCtx_k (k0 := some k) (by rw [kill_key]; exact hck), if_neg hk]
        rfl

end Nng.SurvProofs
