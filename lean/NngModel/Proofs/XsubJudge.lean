/-
  C05 (raw SUB): the XSUB model satisfies the executable trace predicate `xsubJudge` on every
  event sequence without `abort aio 0`.  The judge's state is a function (`absJ`) of the
  model's state: depth, queued bodies, waiting aios.
-/
import NngModel.Proofs.XsubInv
import NngModel.Spec.PubSub
import NngModel.Generated.C05
namespace Nng.Xsub
open Nng Nng.Proto Nng.PubSubSpec

def traceOf (s : State) : List Ev → List (Ev × List Out)
  | [] => []
  | e :: es => (e, (step s e).2) :: traceOf (step s e).1 es

def JX (cap : Nat) (queue : List Bytes) (waiting : List Nat) (cl : Bool) : XsubJ :=
  { opened := true, closed := cl, cap := cap, queue := queue, waiting := waiting, owed := none, err := none }

def JA (s : State) (cl : Bool) : XsubJ := JX s.cap (s.q.map (·.body)) (s.getq.map (·.aio)) cl

def absJ (s : State) : XsubJ := if s.opened then JA s s.closed else {}

theorem absJ_err (s : State) : (absJ s).err = none := by unfold absJ; split <;> rfl
theorem absJ_open {s : State} (ho : s.opened = true) : absJ s = JA s s.closed := by simp [absJ, ho]

structure AInv (s : State) : Prop where
  nodup : (s.getq.map (·.aio)).Nodup
  unopened : s.opened = false → s.closed = false

/-! ### `xsubStep` cut into named pieces -/

def xEv (j : XsubJ) (ev : Ev) (outs : List Out) : XsubJ :=
  let rv := rvOf outs
    match ev with
    | .recvDone _ (.ok b) =>
      if rv == some 0 then
        if !j.waiting.isEmpty then { j with owed := some b }
        else if j.queue.length < j.cap then { j with queue := j.queue ++ [b] }
        else j                                  -- full: the arriving message is lost, whole
      else j
    | .recv none a _ =>
      match j.queue with
      | b :: rest => { j with queue := rest, owed := some b, waiting := j.waiting ++ [a] }
      | [] => { j with waiting := j.waiting ++ [a] }
    | .setopt none name ty v =>
      if rv == some 0 && name == Nng.Generated.c05OptRecvBuf && ty == "int" then
        { j with cap := v.toNat, queue := j.queue.drop (j.queue.length - (v.toNat + 1)) }
      else j
    | .getopt none name ty =>
      match outs with
      | [.rv2 0 v] =>
        if name == Nng.Generated.c05OptRecvBuf && ty == "int" && v != j.cap then
          j.fail s!"receive buffer depth reported as {v}, configured {j.cap}"
        else j
      | _ => j
    | _ => j

def xtail1 (ev : Ev) (j : XsubJ) : XsubJ :=
  match j.owed with
    | some _ =>
      (match ev with
       | .recv _ _ _ => j.fail "the receive did not return the message that is queued"
       | _ => j.fail "a receive is outstanding and a message arrived, but it was not delivered")
    | none => j

def xtail2 (ev : Ev) (outs : List Out) (j : XsubJ) : XsubJ :=
  match ev with
    | .recv _ a mode =>
      let pending := j.waiting.contains a
      (match mode with
       | .nb => if pending then j.fail s!"non-blocking receive {a} did not complete at once" else j
       | .ms 0 => if pending then j.fail s!"zero-timeout receive {a} did not complete at once" else j
       | _ => j)
    | .close =>
      if !j.waiting.isEmpty then j.fail "socket closed but a receive is still pending"
      else { j with closed := true, queue := [] }       -- what is still queued goes with the socket
    | .poll =>
      match outs with
      | [.poll (some r) _] =>
        if r != !j.queue.isEmpty then
          j.fail (if r then "the socket polls readable but has no message to receive" else "the socket has a message queued but does not poll readable")
        else j
      | _ => j
    | _ => j

def xMid (j : XsubJ) (ev : Ev) (outs : List Out) : XsubJ := outs.foldl (xsubDone ev) (xEv j ev outs)

def xTail (ev : Ev) (outs : List Out) (j : XsubJ) : XsubJ :=
  let j := xtail2 ev outs (xtail1 ev j)
  let j := if !j.waiting.isEmpty && !j.queue.isEmpty then j.fail "a receive stays parked although a message is queued" else j
  let j := if j.queue.length > j.cap + 1 then j.fail "the socket buffers more messages than its receive buffer depth (+1)" else j
  if hasBlocked outs then j.fail "a non-blocking call blocked" else j

theorem xsubStep_open (j : XsubJ) (ev : Ev) (outs : List Out) (he : j.err = none)
    (hn : notExecuted outs = false) (ho : j.opened = true) (hc : j.closed = false) :
    xsubStep j ev outs = if (xMid j ev outs).err.isSome then xMid j ev outs else xTail ev outs (xMid j ev outs) := by
  have h1 : ¬ (j.err.isSome = true) := by simp [he]
  have h3 : ¬ (notExecuted outs = true) := by simp [hn]
  have h4 : ¬ ((!j.opened) = true) := by simp [ho]
  have h5 : ¬ (j.closed = true) := by simp [hc]
  unfold xsubStep
  rw [if_neg h1, if_neg h3, if_neg h4, if_neg h5]
  rfl

theorem xsubStep_skip (j : XsubJ) (ev : Ev) (outs : List Out) (he : j.err = none)
    (hn : notExecuted outs = true) : xsubStep j ev outs = j := by
  have h1 : ¬ (j.err.isSome = true) := by simp [he]
  unfold xsubStep
  rw [if_neg h1, if_pos hn]

theorem xsubStep_closed (j : XsubJ) (ev : Ev) (outs : List Out) (he : j.err = none)
    (ho : j.opened = true) (hc : j.closed = true) : xsubStep j ev outs = j := by
  have h1 : ¬ (j.err.isSome = true) := by simp [he]
  have h4 : ¬ ((!j.opened) = true) := by simp [ho]
  unfold xsubStep
  rw [if_neg h1]
  split <;> first | rfl | (rw [if_neg h4, if_pos hc])

/-! ### AInv over all steps -/

theorem ainv_init : AInv ({} : State) := ⟨List.nodup_nil, fun _ => rfl⟩

theorem closePipes_fields (s : State) : (closePipes s).1.getq = s.getq ∧ (closePipes s).1.opened = s.opened ∧
    (closePipes s).1.closed = s.closed ∧ (closePipes s).1.q = s.q ∧ (closePipes s).1.cap = s.cap := by
  obtain ⟨ps, h⟩ := closePipes_same s
  rw [h]; exact ⟨rfl, rfl, rfl, rfl, rfl⟩

theorem aioGet_getq {s : State} (h : Inv s) (a : Nat) (mode : Mode) :
    (aioGet s a mode).1.getq = s.getq ∨ ∃ dl, (aioGet s a mode).1.getq = s.getq ++ [⟨a, dl⟩] := by
  cases hq : s.q with
  | nil =>
    rw [aioGet_wait s a mode hq]
    cases mode with
    | nb => exact Or.inl rfl
    | ms n =>
      cases n with
      | zero => exact Or.inl rfl
      | succ n => exact Or.inr ⟨_, rfl⟩
    | inf => exact Or.inr ⟨_, rfl⟩
    | dflt => exact Or.inr ⟨_, rfl⟩
  | cons m ms =>
    have hg : s.getq = [] := by
      cases hgq : s.getq with
      | nil => rfl
      | cons r rs => have := h.wait (by simp [hgq]); rw [hq] at this; cases this
    rw [aioGet_deliver s a mode m ms hg hq]
    exact Or.inl rfl

theorem aioGet_fields (s : State) (a : Nat) (mode : Mode) (h : Inv s) :
    (aioGet s a mode).1.opened = s.opened ∧ (aioGet s a mode).1.closed = s.closed ∧ (aioGet s a mode).1.cap = s.cap := by
  cases hq : s.q with
  | nil =>
    rw [aioGet_wait s a mode hq]
    cases mode with
    | nb => exact ⟨rfl, rfl, rfl⟩
    | ms n => cases n <;> exact ⟨rfl, rfl, rfl⟩
    | inf => exact ⟨rfl, rfl, rfl⟩
    | dflt => exact ⟨rfl, rfl, rfl⟩
  | cons m ms =>
    have hg : s.getq = [] := by
      cases hgq : s.getq with
      | nil => rfl
      | cons r rs => have := h.wait (by simp [hgq]); rw [hq] at this; cases this
    rw [aioGet_deliver s a mode m ms hg hq]
    exact ⟨rfl, rfl, rfl⟩

def AP (s' : State) : Prop := AInv s' ∧ s'.opened = true

theorem stepOpen_ainv {s : State} (ev : Ev) (ha : AInv s) (hi : Inv s) (ho : s.opened = true) :
    AP (stepOpen s ev).1 := by
  have hsub : ∀ (s' : State), (s'.getq.map (·.aio)).Sublist (s.getq.map (·.aio)) → s'.opened = true →
      AP s' :=
    fun s' h1 h2 => ⟨⟨ha.nodup.sublist h1, fun h0 => by rw [h2] at h0; cases h0⟩, h2⟩
  have hcp : ∀ p, AP (closePipe s p).1 := by
    intro p
    obtain ⟨ps, h⟩ := closePipe_same s p
    rw [h]; exact hsub _ (List.Sublist.refl _) ho
  cases ev with
  | openSock _ _ => exact ⟨ha, ho⟩
  | pipeAdd peer =>
    show AP (opPipeAdd s peer).1
    unfold opPipeAdd
    split <;> exact hsub _ (List.Sublist.refl _) ho
  | pipeDrop p =>
    show AP (opPipeDrop s p).1
    unfold opPipeDrop
    split
    · split
      · exact ⟨ha, ho⟩
      · exact hcp p
    · exact ⟨ha, ho⟩
  | sendDone _ _ => exact ⟨ha, ho⟩
  | recvDone p r =>
    show AP (opRecvDone s p r).1
    unfold opRecvDone
    split
    · split
      · exact ⟨ha, ho⟩
      · split
        · exact hcp p
        · simp only []
          unfold tryput
          cases hgq : s.getq with
          | cons r rs =>
            simp only [hgq]
            refine hsub _ ?_ ho
            rw [hgq]; exact List.sublist_cons_self _ _
          | nil =>
            simp only [hgq]
            split <;> exact hsub _ (by simp [hgq]) ho
    · exact ⟨ha, ho⟩
  | send c a m mode =>
    show AP (opSend s c a).1
    unfold opSend
    split
    · exact ⟨ha, ho⟩
    · split <;> exact ⟨ha, ho⟩
  | recv c a mode =>
    show AP (opRecv s c a mode).1
    unfold opRecv
    by_cases hb : (s.getq.any (·.aio == a)) = true
    · rw [if_pos hb]; exact ⟨ha, ho⟩
    · rw [if_neg hb]
      cases c with
      | some _ => exact ⟨ha, ho⟩
      | none =>
        simp only []
        have hf := aioGet_fields s a mode hi
        refine ⟨⟨?_, fun h0 => by rw [hf.1, ho] at h0; cases h0⟩, hf.1.trans ho⟩
        rcases aioGet_getq hi a mode with h | ⟨dl, h⟩ <;> rw [h]
        · exact ha.nodup
        · rw [List.map_append, List.nodup_append]
          refine ⟨ha.nodup, by simp, ?_⟩
          intro x hx y hy
          simp only [List.map_cons, List.map_nil, List.mem_singleton] at hy
          subst hy
          intro he; subst he
          apply hb
          obtain ⟨pk, hpk, hpa⟩ := List.mem_map.1 hx
          exact List.any_eq_true.2 ⟨pk, hpk, by simp [hpa]⟩
  | cancel a =>
    show AP (failAio s a _).1
    unfold failAio
    split
    · exact hsub _ (List.Sublist.map _ List.filter_sublist) ho
    · exact ⟨ha, ho⟩
  | abort a rv =>
    show AP (failAio s a rv).1
    unfold failAio
    split
    · exact hsub _ (List.Sublist.map _ List.filter_sublist) ho
    · exact ⟨ha, ho⟩
  | advance ms =>
    show AP (expire { s with now := s.now + ms }).1
    exact hsub _ (List.Sublist.map _ List.filter_sublist) ho
  | ctxOpen _ => exact ⟨ha, ho⟩
  | ctxClose _ => exact ⟨ha, ho⟩
  | setopt c name ty v =>
    show AP (opSetopt s c name ty v).1
    unfold opSetopt
    split
    · split
      · exact ⟨ha, ho⟩
      · exact hsub _ (List.Sublist.refl _) ho
    · exact ⟨ha, ho⟩
  | getopt c name ty => simp only [stepOpen]; split <;> exact ⟨ha, ho⟩
  | poll => exact ⟨ha, ho⟩
  | sub _ _ => exact ⟨ha, ho⟩
  | unsub _ _ => exact ⟨ha, ho⟩
  | close =>
    show AP (closeAll s).1
    unfold closeAll
    obtain ⟨h1, h2, _, _, _⟩ := closePipes_fields { s with getq := [], q := [], dropped := s.dropped ++ s.q }
    simp only []
    refine ⟨⟨?_, fun h0 => ?_⟩, ?_⟩
    · show ((closePipes _).1.getq.map (·.aio)).Nodup
      rw [h1]; exact List.nodup_nil
    · exfalso
      have : (closePipes { s with getq := [], q := [], dropped := s.dropped ++ s.q }).1.opened = true := h2.trans ho
      simp only [] at h0
      rw [this] at h0; cases h0
    · exact h2.trans ho

theorem step_ainv {s : State} (ev : Ev) (ha : AInv s) (hi : Inv s) : AInv (step s ev).1 := by
  unfold step
  split
  · next hno =>
    have ho : s.opened = false := by simpa using hno
    split
    · exact ⟨List.nodup_nil, fun h0 => by simp at h0⟩
    · exact ⟨ha.nodup, ha.unopened⟩
    · exact ha
  · next hno =>
    have ho : s.opened = true := by simpa using hno
    split
    · split
      · exact ⟨ha.nodup, ha.unopened⟩
      · exact ha
    · exact (stepOpen_ainv ev ha hi ho).1

/-! ### one step -/

theorem xsim_finish (s s' : State) (ev : Ev) (outs : List Out) (cl : Bool)
    (ho : s.opened = true) (hc : s.closed = false) (hn : notExecuted outs = false)
    (hmid : xMid (JA s false) ev outs = JA s' false)
    (h2 : xtail2 ev outs (JA s' false) = JA s' cl)
    (hi' : Inv s') (hb : hasBlocked outs = false) (ho' : s'.opened = true) (hc' : s'.closed = cl) :
    xsubStep (absJ s) ev outs = absJ s' := by
  rw [absJ_open ho, hc, absJ_open ho', hc', xsubStep_open _ _ _ rfl hn rfl rfl, hmid]
  have he : (JA s' false).err.isSome = false := rfl
  have h1 : xtail1 ev (JA s' false) = JA s' false := rfl
  have hw : (!(JA s' cl).waiting.isEmpty && !(JA s' cl).queue.isEmpty) = false := by
    cases hg : s'.getq with
    | nil => simp [JA, JX, hg]
    | cons r rs => simp [JA, JX, hi'.wait (by simp [hg])]
  have hl : ¬ ((JA s' cl).queue.length > (JA s' cl).cap + 1) := by
    have := hi'.len
    simp [JA, JX]; omega
  simp only [he, Bool.false_eq_true, if_false, xTail, h1, h2, hw, hl, hb]

theorem xsim_quiet (s s' : State) (ev : Ev) (outs : List Out) (ho : s.opened = true) (hc : s.closed = false)
    (hn : notExecuted outs = false) (hb : hasBlocked outs = false)
    (hmid : xMid (JA s false) ev outs = JA s false) (h2 : xtail2 ev outs (JA s false) = JA s false)
    (hi : Inv s) (hs' : JA s' false = JA s false) (ho' : s'.opened = true) (hc' : s'.closed = false) :
    xsubStep (absJ s) ev outs = absJ s' := by
  rw [absJ_open ho', hc', hs', ← hc, ← absJ_open ho]
  exact xsim_finish s s ev outs false ho hc hn hmid h2 hi hb ho hc

theorem xsubDone_fail (ev : Ev) (cap : Nat) (queue : List Bytes) (w : List Nat) (a rv : Nat)
    (ha : a ∈ w) (hrv : rv ≠ 0) (hal : xfailureAllowed ev a = true) :
    xsubDone ev (JX cap queue w false) (.done a rv none false) = JX cap queue (w.filter (· != a)) false := by
  cases rv with
  | zero => exact absurd rfl hrv
  | succ n =>
    have hc : w.contains a = true := by simpa using ha
    simp only [xsubDone, JX, hc, if_true, hal]
    simp

theorem xfold_fail (ev : Ev) (cap : Nat) (queue : List Bytes) (rv : Nat) (hrv : rv ≠ 0) :
    ∀ (as w : List Nat), as.Nodup → (∀ a ∈ as, a ∈ w) → (∀ a ∈ as, xfailureAllowed ev a = true) →
      (as.map (fun a => Out.done a rv none false)).foldl (xsubDone ev) (JX cap queue w false) =
        JX cap queue (w.filter (fun z => !as.contains z)) false
  | [], w, _, _, _ => by
    have : w.filter (fun z => !([] : List Nat).contains z) = w := by
      rw [List.filter_eq_self]; intro z _; simp
    simp only [List.map_nil, List.foldl_nil]
    rw [this]
  | a :: as, w, hnd, hin, hal => by
    rw [List.map_cons, List.foldl_cons, xsubDone_fail ev cap queue w a rv (hin a (by simp)) hrv (hal a (by simp))]
    have hnd' := List.nodup_cons.1 hnd
    rw [xfold_fail ev cap queue rv hrv as _ hnd'.2 ?_ (fun a' ha' => hal a' (by simp [ha']))]
    · simp only [List.filter_filter]
      have hfun : (fun z => !as.contains z && z != a) = (fun z => !(a :: as).contains z) := by
        funext z
        by_cases hz : z = a <;> simp [hz, List.contains_cons]
      rw [hfun]
    · intro a' ha'
      have : a' ≠ a := fun e => hnd'.1 (e ▸ ha')
      simp only [List.mem_filter]
      exact ⟨hin a' (by simp [ha']), by simp [this]⟩

theorem xfold_quiet (ev : Ev) : ∀ (l : List Out) (j : XsubJ), (∀ o ∈ l, ∀ a rv m mb, o ≠ Out.done a rv m mb) →
    l.foldl (xsubDone ev) j = j
  | [], _, _ => rfl
  | o :: l, j, h => by
    have h1 : xsubDone ev j o = j := by
      cases o with
      | done a rv m mb => exact absurd rfl (h _ (by simp) a rv m mb)
      | _ => rfl
    rw [List.foldl_cons, h1]
    exact xfold_quiet ev l j (fun o ho => h o (by simp [ho]))

theorem closePipe_JA (s : State) (p : Nat) (cl : Bool) : JA (closePipe s p).1 cl = JA s cl := by
  obtain ⟨ps, h⟩ := closePipe_same s p
  rw [h]; rfl

theorem closePipe_outs (s : State) (p : Nat) : (closePipe s p).2 = [] ∨ (closePipe s p).2 = [Out.pclosed p] := by
  unfold closePipe
  split
  · exact Or.inl rfl
  · split
    · exact Or.inl rfl
    · exact Or.inr rfl

theorem closePipes_outs_aux : ∀ (l : List Pipe) (acc : State × List Out),
    (∀ o ∈ acc.2, ∃ p, o = Out.pclosed p) →
    (∀ o ∈ (l.foldl (fun (acc : State × List Out) pp =>
      let x := closePipe acc.1 pp.id
      (x.1, acc.2 ++ x.2)) acc).2, ∃ p, o = Out.pclosed p)
  | [], _, h => h
  | pp :: l, acc, h => by
    simp only [List.foldl_cons]
    apply closePipes_outs_aux l
    intro o ho
    simp only [List.mem_append] at ho
    rcases ho with ho | ho
    · exact h o ho
    · rcases closePipe_outs acc.1 pp.id with h' | h' <;> rw [h'] at ho
      · cases ho
      · simp at ho; exact ⟨_, ho⟩

theorem closePipes_outs (s : State) : ∀ o ∈ (closePipes s).2, ∃ p, o = Out.pclosed p :=
  closePipes_outs_aux s.pipes (s, []) (by intro o ho; cases ho)

theorem notbusy_iff (s : State) (a : Nat) : (s.getq.any (·.aio == a)) = false ↔ a ∉ s.getq.map (·.aio) := by
  constructor
  · intro h hm
    obtain ⟨pk, hpk, hpa⟩ := List.mem_map.1 hm
    have := List.any_eq_false.1 h pk hpk
    simp [hpa] at this
  · intro h
    rw [List.any_eq_false]
    intro pk hpk
    have : pk.aio ≠ a := fun e => h (List.mem_map.2 ⟨pk, hpk, e⟩)
    simp [this]

theorem expire_waiting (now : Nat) : ∀ (l : List Parked), (l.map (·.aio)).Nodup →
    (l.map (·.aio)).filter (fun z => !((l.filter (isDue now)).map (·.aio)).contains z) =
      (l.filter (fun pk => !isDue now pk)).map (·.aio) := by
  intro l hnd
  rw [List.filter_map]
  congr 1
  apply List.filter_congr
  intro x hx
  simp only [Function.comp]
  by_cases hd : isDue now x = true
  · have : x.aio ∈ (l.filter (isDue now)).map (·.aio) := List.mem_map.2 ⟨x, List.mem_filter.2 ⟨hx, hd⟩, rfl⟩
    simp [hd, this]
  · have : x.aio ∉ (l.filter (isDue now)).map (·.aio) := by
      intro hm
      obtain ⟨y, hy, hya⟩ := List.mem_map.1 hm
      have hy' := List.mem_filter.1 hy
      have : y = x := by
        have key : ∀ (l : List Parked), (l.map (·.aio)).Nodup → ∀ x ∈ l, ∀ y ∈ l, y.aio = x.aio → y = x := by
          intro l
          induction l with
          | nil => intro _ x hx; cases hx
          | cons z l ih =>
            intro hnd x hx y hy he
            simp only [List.map_cons, List.nodup_cons] at hnd
            simp only [List.mem_cons] at hx hy
            rcases hx with rfl | hx <;> rcases hy with rfl | hy
            · rfl
            · exact absurd (List.mem_map.2 ⟨y, hy, he⟩) hnd.1
            · exact absurd (List.mem_map.2 ⟨x, hx, he.symm⟩) hnd.1
            · exact ih hnd.2 x hx y hy he
        exact key l hnd x hx y hy'.1 hya
      rw [this] at hy'
      exact hd hy'.2
    simp [hd, this]

theorem sim_open {s : State} (ev : Ev) (hnz : ∀ a, ev ≠ .abort a 0) (hi : Inv s) (ha : AInv s)
    (ho : s.opened = true) (hc : s.closed = false) :
    xsubStep (absJ s) ev (stepOpen s ev).2 = absJ (stepOpen s ev).1 := by
  have hskip : ∀ (t : String), t.startsWith "done" = false →
      xsubStep (absJ s) ev [.other t] = absJ s := by
    intro t ht
    exact xsubStep_skip _ _ _ (absJ_err s) (by simp [notExecuted, ht])
  have hi' := stepOpen_inv ev hi
  have hop' := (stepOpen_ainv ev ha hi ho).2
  cases ev with
  | openSock _ _ => exact hskip _ (by simp)
  | pipeAdd peer =>
    simp only [stepOpen]
    unfold opPipeAdd
    split <;>
    exact xsim_quiet s _ _ _ ho hc (by simp [notExecuted]) (by simp [hasBlocked])
      (by simp [xMid, xEv, xsubDone]) (by simp [xtail2]) hi rfl ho hc
  | pipeDrop p =>
    simp only [stepOpen]
    unfold opPipeDrop
    have hsame : xsubStep (absJ s) (.pipeDrop p) [.rv (-1)] = absJ s :=
      xsim_quiet s s _ _ ho hc (by simp [notExecuted]) (by simp [hasBlocked])
        (by simp [xMid, xEv, xsubDone]) (by simp [xtail2]) hi rfl ho hc
    split
    · split
      · exact hsame
      · obtain ⟨ps, h⟩ := closePipe_same s p
        show xsubStep _ _ ([Out.rv 0] ++ (closePipe s p).2) = absJ (closePipe s p).1
        rcases closePipe_outs s p with h' | h' <;> rw [h'] <;>
        exact xsim_quiet s _ _ _ ho hc (by simp [notExecuted]) (by simp [hasBlocked])
          (by simp [xMid, xEv, xsubDone]) (by simp [xtail2]) hi (closePipe_JA s p false)
          (by rw [h]; exact ho) (by rw [h]; exact hc)
    · exact hsame
  | sendDone p rv =>
    exact xsim_quiet s s _ _ ho hc (by simp [notExecuted, stepOpen]) (by simp [hasBlocked, stepOpen])
      (by simp [xMid, xEv, xsubDone, stepOpen]) (by simp [xtail2]) hi rfl ho hc
  | ctxOpen k =>
    exact xsim_quiet s s _ _ ho hc (by simp [notExecuted, stepOpen]) (by simp [hasBlocked, stepOpen])
      (by simp [xMid, xEv, xsubDone, stepOpen]) (by simp [xtail2]) hi rfl ho hc
  | ctxClose k =>
    exact xsim_quiet s s _ _ ho hc (by simp [notExecuted, stepOpen]) (by simp [hasBlocked, stepOpen])
      (by simp [xMid, xEv, xsubDone, stepOpen]) (by simp [xtail2]) hi rfl ho hc
  | sub c t =>
    exact xsim_quiet s s _ _ ho hc (by simp [notExecuted, stepOpen]) (by simp [hasBlocked, stepOpen])
      (by simp [xMid, xEv, xsubDone, stepOpen]) (by simp [xtail2]) hi rfl ho hc
  | unsub c t =>
    exact xsim_quiet s s _ _ ho hc (by simp [notExecuted, stepOpen]) (by simp [hasBlocked, stepOpen])
      (by simp [xMid, xEv, xsubDone, stepOpen]) (by simp [xtail2]) hi rfl ho hc
  | poll =>
    refine xsim_quiet s s _ _ ho hc (by simp [notExecuted, stepOpen]) (by simp [hasBlocked, stepOpen])
      (by simp [xMid, xEv, xsubDone, stepOpen]) ?_ hi rfl ho hc
    cases hq : s.q <;> simp [xtail2, stepOpen, readable, JA, JX, hq]
  | getopt c name ty =>
    simp only [stepOpen]
    by_cases hcond : (name == optRecvBuf && ty == "int" && c.isNone) = true
    · rw [if_pos hcond]
      simp only [Bool.and_eq_true] at hcond
      have hcn : c = none := by cases c <;> simp_all
      subst hcn
      have hname : (name == Nng.Generated.c05OptRecvBuf) = true := hcond.1.1
      have hty : ty = "int" := by simpa using hcond.1.2
      exact xsim_quiet s s _ _ ho hc (by simp [notExecuted]) (by simp [hasBlocked])
        (by simp [xMid, xEv, xsubDone, hname, hty, JA, JX]) (by simp [xtail2]) hi rfl ho hc
    · rw [if_neg hcond]; exact hskip _ (by simp)
  | setopt c name ty v =>
    simp only [stepOpen] at hi' hop' ⊢
    unfold opSetopt at hi' hop' ⊢
    by_cases hcond : (name == optRecvBuf && ty == "int" && c.isNone) = true
    · rw [if_pos hcond] at hi' hop' ⊢
      simp only [Bool.and_eq_true] at hcond
      have hcn : c = none := by cases c <;> simp_all
      subst hcn
      have hname : (name == Nng.Generated.c05OptRecvBuf) = true := hcond.1.1
      have hty : ty = "int" := by simpa using hcond.1.2
      by_cases hr : (decide (v < recvBufMin) || decide (v > recvBufMax)) = true
      · rw [if_pos hr]
        exact xsim_quiet s s _ _ ho hc (by simp [notExecuted]) (by simp [hasBlocked])
          (by simp [xMid, xEv, xsubDone, rvOf, Err.einval]) (by simp [xtail2]) hi rfl ho hc
      · rw [if_neg hr] at hi' hop' ⊢
        refine xsim_finish s (resize s v.toNat) _ _ false ho hc (by simp [notExecuted]) ?_ (by simp [xtail2]) hi'
          (by simp [hasBlocked]) ho hc
        simp [xMid, xEv, xsubDone, rvOf, hname, hty, JA, JX, resize, List.map_drop]
    · rw [if_neg hcond]; exact hskip _ (by simp)
  | send c a m mode =>
    simp only [stepOpen]
    unfold opSend
    by_cases hb : (s.getq.any (·.aio == a)) = true
    · rw [if_pos hb]; exact hskip _ (by simp)
    · rw [if_neg hb]
      have hfree : a ∉ s.getq.map (·.aio) := (notbusy_iff s a).1 (by simpa using hb)
      have hcon : (List.map (fun x => x.aio) s.getq).contains a = false := by simpa using hfree
      cases c <;> simp only [] <;>
      exact xsim_quiet s s _ _ ho hc (by simp [notExecuted]) (by simp [hasBlocked])
        (by simp only [xMid, xEv, List.foldl_cons, List.foldl_nil, xsubDone, JA, JX, hcon]
            simp [Err.enotsup, Err.eclosed]) (by simp [xtail2]) hi rfl ho hc
  | cancel a =>
    simp only [stepOpen] at hi' hop' ⊢
    unfold failAio at hi' hop' ⊢
    by_cases hany : (s.getq.any (·.aio == a)) = true
    · rw [if_pos hany] at hi' hop' ⊢
      have hmem : a ∈ s.getq.map (·.aio) := by
        obtain ⟨pk, hpk, hpa⟩ := List.any_eq_true.1 hany
        exact List.mem_map.2 ⟨pk, hpk, by simpa using hpa⟩
      refine xsim_finish s _ _ _ false ho hc (by simp [notExecuted]) ?_ (by simp [xtail2]) hi' (by simp [hasBlocked]) ho hc
      simp only [xMid, xEv, List.foldl_cons, List.foldl_nil, JA]
      rw [xsubDone_fail _ _ _ _ a Err.ecanceled hmem (by decide) (by simp [xfailureAllowed])]
      simp [JX, List.filter_map, Function.comp_def]
    · rw [if_neg hany]
      exact xsim_quiet s s _ _ ho hc (by simp [notExecuted]) (by simp [hasBlocked])
        (by simp [xMid, xEv]) (by simp [xtail2]) hi rfl ho hc
  | abort a rv =>
    simp only [stepOpen] at hi' hop' ⊢
    unfold failAio at hi' hop' ⊢
    have hrv : rv ≠ 0 := fun h => hnz a (by rw [h])
    by_cases hany : (s.getq.any (·.aio == a)) = true
    · rw [if_pos hany] at hi' hop' ⊢
      have hmem : a ∈ s.getq.map (·.aio) := by
        obtain ⟨pk, hpk, hpa⟩ := List.any_eq_true.1 hany
        exact List.mem_map.2 ⟨pk, hpk, by simpa using hpa⟩
      refine xsim_finish s _ _ _ false ho hc (by simp [notExecuted]) ?_ (by simp [xtail2]) hi' (by simp [hasBlocked]) ho hc
      simp only [xMid, xEv, List.foldl_cons, List.foldl_nil, JA]
      rw [xsubDone_fail _ _ _ _ a rv hmem hrv (by simp [xfailureAllowed])]
      simp [JX, List.filter_map, Function.comp_def]
    · rw [if_neg hany]
      exact xsim_quiet s s _ _ ho hc (by simp [notExecuted]) (by simp [hasBlocked])
        (by simp [xMid, xEv]) (by simp [xtail2]) hi rfl ho hc
  | advance ms =>
    simp only [stepOpen] at hi' hop' ⊢
    unfold expire at hi' hop' ⊢
    have houts : ((s.getq.filter (isDue (s.now + ms))).map fun pk => Out.done pk.aio Err.etimedout none false) =
        ((s.getq.filter (isDue (s.now + ms))).map (·.aio)).map (fun a => Out.done a Err.etimedout none false) := by
      simp [List.map_map, Function.comp_def]
    have hdone : ∀ o ∈ ((s.getq.filter (isDue (s.now + ms))).map fun pk => Out.done pk.aio Err.etimedout none false),
        ∃ a, o = Out.done a Err.etimedout none false := by
      intro o ho'; obtain ⟨pk, _, rfl⟩ := List.mem_map.1 ho'; exact ⟨_, rfl⟩
    refine xsim_finish s _ _ _ false ho hc ?_ ?_ (by simp [xtail2]) hi' ?_ ho hc
    · simp only [notExecuted, List.any_eq_false]; intro o ho'; obtain ⟨a, rfl⟩ := hdone o ho'; simp
    · simp only [xMid, xEv]
      rw [houts]
      show List.foldl _ (JX s.cap (s.q.map (·.body)) (s.getq.map (·.aio)) false) _ = _
      rw [xfold_fail (.advance ms) _ _ Err.etimedout (by decide) _ _
        (ha.nodup.sublist (List.Sublist.map _ List.filter_sublist))
        (fun a ha' => by
          obtain ⟨x, hx, rfl⟩ := List.mem_map.1 ha'
          exact List.mem_map.2 ⟨x, (List.mem_filter.1 hx).1, rfl⟩)
        (fun a _ => by simp [xfailureAllowed])]
      rw [expire_waiting _ _ ha.nodup]
      rfl
    · simp only [hasBlocked, List.any_eq_false]; intro o ho'; obtain ⟨a, rfl⟩ := hdone o ho'; simp
  | close =>
    simp only [stepOpen] at hi' hop' ⊢
    unfold closeAll at hi' hop' ⊢
    simp only [] at hi' hop' ⊢
    obtain ⟨f1, f2, f3, f4, f5⟩ := closePipes_fields { s with getq := [], q := [], dropped := s.dropped ++ s.q }
    have hpc := closePipes_outs { s with getq := [], q := [], dropped := s.dropped ++ s.q }
    have houts : (s.getq.map fun pk => Out.done pk.aio Err.eclosed none false) =
        (s.getq.map (·.aio)).map (fun a => Out.done a Err.eclosed none false) := by
      simp [List.map_map, Function.comp_def]
    have hq : ∀ o ∈ (closePipes { s with getq := [], q := [], dropped := s.dropped ++ s.q }).2,
        ∀ a rv m mb, o ≠ Out.done a rv m mb := by
      intro o ho' a rv m mb; obtain ⟨p, rfl⟩ := hpc o ho'; simp
    have hJ : JA ({ (closePipes { s with getq := [], q := [], dropped := s.dropped ++ s.q }).1 with closed := true }) true =
        JX s.cap [] [] true := by
      simp [JA, JX, f1, f4, f5]
    have hR : absJ ({ (closePipes { s with getq := [], q := [], dropped := s.dropped ++ s.q }).1 with closed := true }) =
        JX s.cap [] [] true := by
      rw [absJ_open (by exact hop')]; exact hJ
    have hJs : JA s s.closed = JA s false := by rw [hc]
    rw [hR, absJ_open ho, hJs, xsubStep_open _ _ _ rfl ?_ rfl rfl]
    · have hmid : xMid (JA s false) .close ((s.getq.map fun pk => Out.done pk.aio Err.eclosed none false) ++
          (closePipes { s with getq := [], q := [], dropped := s.dropped ++ s.q }).2) = JX s.cap (s.q.map (·.body)) [] false := by
        simp only [xMid, xEv, List.foldl_append]
        rw [houts]
        show List.foldl _ (List.foldl _ (JX s.cap (s.q.map (·.body)) (s.getq.map (·.aio)) false) _) _ = _
        rw [xfold_fail .close _ _ Err.eclosed (by decide) _ _ ha.nodup (fun a ha' => ha') (fun a _ => by simp [xfailureAllowed]),
          xfold_quiet _ _ _ hq]
        have : (s.getq.map (·.aio)).filter (fun z => !(s.getq.map (·.aio)).contains z) = [] := by
          rw [List.filter_eq_nil_iff]; intro z hz; simpa using hz
        rw [this]
      rw [hmid]
      have hb : hasBlocked ((s.getq.map fun pk => Out.done pk.aio Err.eclosed none false) ++
          (closePipes { s with getq := [], q := [], dropped := s.dropped ++ s.q }).2) = false := by
        simp only [hasBlocked, List.any_append, Bool.or_eq_false_iff, List.any_eq_false]
        refine ⟨?_, ?_⟩
        · intro o ho'; obtain ⟨pk, _, rfl⟩ := List.mem_map.1 ho'; simp
        · intro o ho'; obtain ⟨p, rfl⟩ := hpc o ho'; simp
      have hl : ¬ ((s.q.map (·.body)).length > s.cap + 1) := by have := hi.len; simp; omega
      simp [JX, xTail, xtail1, xtail2, hb, hl]
    · simp only [notExecuted, List.any_append, Bool.or_eq_false_iff, List.any_eq_false]
      refine ⟨?_, ?_⟩
      · intro o ho'; obtain ⟨pk, _, rfl⟩ := List.mem_map.1 ho'; simp
      · intro o ho'; obtain ⟨p, rfl⟩ := hpc o ho'; simp
  | recvDone p r =>
    simp only [stepOpen] at hi' hop' ⊢
    unfold opRecvDone at hi' hop' ⊢
    have hsame : xsubStep (absJ s) (.recvDone p r) [.rv (-1)] = absJ s := by
      refine xsim_quiet s s _ _ ho hc (by simp [notExecuted]) (by simp [hasBlocked]) ?_ (by simp [xtail2]) hi rfl ho hc
      cases r <;> simp [xMid, xEv, xsubDone, rvOf]
    cases hg : getPipe s p with
    | none => exact hsame
    | some pp =>
      rw [hg] at hi' hop'
      simp only [] at hi' hop' ⊢
      by_cases hcl : (pp.closed || !pp.armed) = true
      · rw [if_pos hcl]; exact hsame
      · rw [if_neg hcl] at hi' hop' ⊢
        cases r with
        | error e =>
          simp only []
          obtain ⟨ps, h⟩ := closePipe_same s p
          show xsubStep _ _ ([Out.rv 0] ++ (closePipe s p).2) = absJ (closePipe s p).1
          rcases closePipe_outs s p with h' | h' <;> rw [h'] <;>
          exact xsim_quiet s _ _ _ ho hc (by simp [notExecuted]) (by simp [hasBlocked])
            (by simp [xMid, xEv, xsubDone]) (by simp [xtail2]) hi (closePipe_JA s p false)
            (by rw [h]; exact ho) (by rw [h]; exact hc)
        | ok b =>
          simp only [] at hi' hop' ⊢
          unfold tryput at hi' hop' ⊢
          cases hgq : s.getq with
          | cons r rs =>
            have hq : s.q = [] := hi.wait (by simp [hgq])
            simp only [hgq] at hi' hop' ⊢
            refine xsim_finish s _ _ _ false ho hc (by simp [notExecuted, deliver]) ?_ (by simp [xtail2]) hi'
              (by simp [hasBlocked, deliver]) ho hc
            have hnd := ha.nodup
            rw [hgq, List.map_cons, List.nodup_cons] at hnd
            have hflt : (r.aio :: rs.map (·.aio)).filter (· != r.aio) = rs.map (·.aio) := by
              simp only [List.filter_cons, bne_self_eq_false, Bool.false_eq_true, if_false]
              rw [List.filter_eq_self]
              intro z hz
              have : z ≠ r.aio := fun e => hnd.1 (e ▸ hz)
              simp [this]
            simp only [xMid, xEv, rvOf, List.cons_append, List.nil_append, List.findSome?_cons, JA, JX, hgq, hq,
              List.map_cons, List.map_nil, List.foldl_cons, List.foldl_nil, xsubDone, deliver]
            simp [hflt]
          | nil =>
            simp only [hgq] at hi' hop' ⊢
            by_cases hroom : s.q.length < s.cap
            · rw [if_pos hroom] at hi' hop' ⊢
              refine xsim_finish s _ _ _ false ho hc (by simp [notExecuted]) ?_ (by simp [xtail2]) hi'
                (by simp [hasBlocked]) ho hc
              simp [xMid, xEv, rvOf, JA, JX, hgq, xsubDone, hroom]
            · rw [if_neg hroom] at hi' hop' ⊢
              refine xsim_finish s _ _ _ false ho hc (by simp [notExecuted]) ?_ (by simp [xtail2]) hi'
                (by simp [hasBlocked]) ho hc
              simp [xMid, xEv, rvOf, JA, JX, hgq, xsubDone, hroom]
  | recv c a mode =>
    simp only [stepOpen] at hi' hop' ⊢
    unfold opRecv at hi' hop' ⊢
    by_cases hb : (s.getq.any (·.aio == a)) = true
    · rw [if_pos hb]; exact hskip _ (by simp)
    · rw [if_neg hb] at hi' hop' ⊢
      have hfree : a ∉ s.getq.map (·.aio) := (notbusy_iff s a).1 (by simpa using hb)
      have hcon : (List.map (fun x => x.aio) s.getq).contains a = false := by simpa using hfree
      have hfilt : ((s.getq.map (·.aio)) ++ [a]).filter (· != a) = s.getq.map (·.aio) := by
        rw [List.filter_append]
        have : (s.getq.map (·.aio)).filter (· != a) = s.getq.map (·.aio) := by
          rw [List.filter_eq_self]; intro z hz
          have : z ≠ a := fun e => hfree (e ▸ hz)
          simp [this]
        simp [this]
      cases c with
      | some k =>
        simp only []
        have htail : xtail2 (.recv (some k) a mode) [Out.done a Err.eclosed none false] (JA s false) = JA s false := by
          cases mode with
          | nb => simp only [xtail2, JA, JX, hcon]; rfl
          | ms n => cases n <;> (simp only [xtail2, JA, JX, hcon]; try rfl)
          | inf => rfl
          | dflt => rfl
        exact xsim_quiet s s _ _ ho hc (by simp [notExecuted]) (by simp [hasBlocked])
          (by simp only [xMid, xEv, List.foldl_cons, List.foldl_nil, xsubDone, JA, JX, hcon]
              simp [Err.eclosed]) htail hi rfl ho hc
      | none =>
        simp only [] at hi' hop' ⊢
        cases hq : s.q with
        | cons m ms =>
          have hg : s.getq = [] := by
            cases hgq : s.getq with
            | nil => rfl
            | cons r rs => have := hi.wait (by simp [hgq]); rw [hq] at this; cases this
          rw [aioGet_deliver s a mode m ms hg hq] at hi' hop' ⊢
          refine xsim_finish s _ _ _ false ho hc (by simp [notExecuted, deliver]) ?_ ?_ hi'
            (by simp [hasBlocked, deliver]) ho hc
          · simp [xMid, xEv, JA, JX, hg, hq, xsubDone, deliver]
          · cases mode with
            | nb => simp [xtail2, JA, JX, hg]
            | ms n => cases n <;> simp [xtail2, JA, JX, hg]
            | inf => rfl
            | dflt => rfl
        | nil =>
          rw [aioGet_wait s a mode hq] at hi' hop' ⊢
          have hfail : ∀ rv : Nat, rv ≠ 0 → (mode = .nb ∨ mode = .ms 0) →
              xsubStep (absJ s) (.recv none a mode) [Out.done a rv none false] = absJ s := by
            intro rv hrv hmode
            refine xsim_quiet s s _ _ ho hc (by simp [notExecuted]) (by simp [hasBlocked]) ?_ ?_ hi rfl ho hc
            · have e1 : xEv (JA s false) (.recv none a mode) [Out.done a rv none false] =
                  JX s.cap [] (s.getq.map (·.aio) ++ [a]) false := by
                simp [xEv, JA, JX, hq]
              simp only [xMid, e1, List.foldl_cons, List.foldl_nil]
              rw [xsubDone_fail _ _ _ _ a rv (by simp) hrv (by simp [xfailureAllowed]), hfilt]
              simp [JA, JX, hq]
            · rcases hmode with rfl | rfl <;> (simp only [xtail2, JA, JX, hcon]; rfl)
          have hpark : ∀ dl : Option Nat, mode ≠ .nb → mode ≠ .ms 0 →
              Inv { s with getq := s.getq ++ [⟨a, dl⟩] } →
              xsubStep (absJ s) (.recv none a mode) [] = absJ { s with getq := s.getq ++ [⟨a, dl⟩] } := by
            intro dl h1 h2 hi2
            refine xsim_finish s _ _ _ false ho hc (by simp [notExecuted]) ?_ ?_ hi2 (by simp [hasBlocked]) ho hc
            · simp [xMid, xEv, JA, JX, hq]
            · cases mode with
              | nb => exact absurd rfl h1
              | ms n =>
                cases n with
                | zero => exact absurd rfl h2
                | succ n => rfl
              | inf => rfl
              | dflt => rfl
          cases mode with
          | nb => exact hfail _ (by decide) (Or.inl rfl)
          | ms n =>
            cases n with
            | zero => exact hfail _ (by decide) (Or.inr rfl)
            | succ n => exact hpark _ (by simp) (by simp) hi'
          | inf => exact hpark _ (by simp) (by simp) hi'
          | dflt => exact hpark _ (by simp) (by simp) hi'

theorem xsubStep_unopened (ev : Ev) (outs : List Out) (hn : notExecuted outs = false) :
    xsubStep {} ev outs =
      match ev with
      | .openSock _ _ => if outs.contains (.rv 0) then { ({} : XsubJ) with opened := true } else {}
      | _ => {} := by
  have h1 : ¬ ((({} : XsubJ).err.isSome) = true) := by simp
  have h3 : ¬ (notExecuted outs = true) := by simp [hn]
  have h4 : (!({} : XsubJ).opened) = true := rfl
  unfold xsubStep
  rw [if_neg h1, if_neg h3, if_pos h4]
  rfl

theorem sim_step {s : State} (ev : Ev) (hnz : ∀ a, ev ≠ .abort a 0) (hi : Inv s) (ha : AInv s) :
    xsubStep (absJ s) ev (step s ev).2 = absJ (step s ev).1 := by
  unfold step
  by_cases ho : s.opened = true
  · have h1 : ¬ ((!s.opened) = true) := by simp [ho]
    rw [if_neg h1]
    by_cases hc : s.closed = true
    · rw [if_pos hc]
      have hj : absJ s = JA s true := by rw [absJ_open ho, hc]
      have hnosock : xsubStep (absJ s) ev [.other "nosock"] = absJ s :=
        xsubStep_skip _ _ _ (absJ_err s) (by simp [notExecuted])
      cases ev with
      | advance ms =>
        simp only []
        rw [hj, xsubStep_closed _ _ _ rfl rfl rfl]
        simp [absJ, ho, hc, JA, JX]
      | _ => exact hnosock
    · rw [if_neg hc]; exact sim_open ev hnz hi ha ho (by simpa using hc)
  · have ho' : s.opened = false := by simpa using ho
    have h1 : (!s.opened) = true := by simp [ho']
    rw [if_pos h1]
    have hj : absJ s = {} := by simp [absJ, ho']
    have hu := ha.unopened ho'
    have hnosock : xsubStep (absJ s) ev [.other "nosock"] = absJ s :=
      xsubStep_skip _ _ _ (absJ_err s) (by simp [notExecuted])
    cases ev with
    | openSock _ _ =>
      simp only []
      rw [hj, xsubStep_unopened _ _ (by simp [notExecuted])]
      simp [absJ, JA, JX, hu]
    | advance ms =>
      simp only []
      rw [hj, xsubStep_unopened _ _ (by simp [notExecuted])]
      simp [absJ, ho']
    | _ => exact hnosock

def NoAbort0 (evs : List Ev) : Prop := ∀ e ∈ evs, ∀ a, e ≠ Ev.abort a 0

theorem judge_from : ∀ (evs : List Ev) (s : State), NoAbort0 evs → Inv s → AInv s →
    (traceOf s evs).foldl (fun j x => xsubStep j x.1 x.2) (absJ s) =
      absJ (evs.foldl (fun s e => (step s e).1) s)
  | [], _, _, _, _ => rfl
  | e :: es, s, hn, hi, ha => by
    simp only [traceOf, List.foldl_cons]
    rw [sim_step e (hn e (by simp)) hi ha]
    exact judge_from es _ (fun e' he' => hn e' (by simp [he'])) (step_inv e hi) (step_ainv e ha hi)

/-- JUDGE (raw SUB): for every event sequence without `abort aio 0` the trace produced by the
    XSUB model is accepted by the executable trace predicate `xsubJudge` -/
theorem xsub_judge_ok (evs : List Ev) (hn : NoAbort0 evs) : xsubJudge (traceOf {} evs) = none := by
  unfold xsubJudge
  have := judge_from evs {} hn inv_init ainv_init
  have h0 : absJ ({} : State) = {} := rfl
  rw [h0] at this
  rw [this]
  exact absJ_err _

end Nng.Xsub
