/-
  C11T — isolation (frame / non-interference), FIFO and transmit-ring lemmas for the general SP/UDP
  endpoint model (Model/HostileNetQ.lean).
-/
import NngModel.Proofs.HostileNetQ
namespace Nng.Hostile
open Nng

/-! ### what one address sees -/

/-- the outputs of the events of address `B`, in order: every answer nng sends to `B`, every message it hands
    over from `B`'s pipe, every pipe event of `B` -/
def viewOf (B : Nat) (outs : List (Nat × QOut)) : List QOut := (outs.filter (·.1 == B)).map (·.2)

/-- the events of address `B` -/
def evsOf (B : Nat) (evs : List (Nat × QEv)) : List (Nat × QEv) := evs.filter (·.1 == B)

/-- `B` alone: its pipe, its events, and for each event one bit of the rest of the endpoint — "at the peer limit" -/
def soloRun (c : QCfg) : Option QPipe → List (Bool × QEv) → List QOut × Option QPipe
  | p, [] => ([], p)
  | p, (lim, e) :: rest =>
    let r := p1Step c lim p e
    let x := soloRun c r.1 rest
    (r.2 :: x.1, x.2)

/-- the bits the whole run shows to the events of `B` -/
def limitBits (B : Nat) : QEp → List (Nat × QEv) → List (Bool × QEv)
  | _, [] => []
  | ep, (s, e) :: rest => (if s = B then [(ep.limit, e)] else []) ++ limitBits B (qStep ep s e).1 rest

theorem viewOf_cons (B s : Nat) (o : QOut) (rest : List (Nat × QOut)) :
    viewOf B ((s, o) :: rest) = (if s = B then [o] else []) ++ viewOf B rest := by
  unfold viewOf
  by_cases h : s = B
  · simp [h]
  · simp [h]

/-- ISOLATION, exact form: what `B` sees of any run, and the pipe it ends with, is what `B` alone produces from
    its own events and the peer-limit bits — nothing else of the other addresses' datagrams reaches it. -/
theorem iso_oracle (B : Nat) (evs : List (Nat × QEv)) : ∀ (ep : QEp),
    viewOf B (qRun ep evs) = (soloRun ep.cfg (qLookup ep.pipes B) (limitBits B ep evs)).1 ∧
    qLookup (qFinal ep evs).pipes B = (soloRun ep.cfg (qLookup ep.pipes B) (limitBits B ep evs)).2 := by
  induction evs with
  | nil => intro ep; exact ⟨rfl, rfl⟩
  | cons ev rest ih =>
    intro ep
    obtain ⟨s, e⟩ := ev
    have h := ih (qStep ep s e).1
    rw [qStep_cfg] at h
    simp only [qRun, qFinal, limitBits, viewOf_cons]
    by_cases hs : s = B
    · subst hs
      rw [qStep_lookup_self] at h
      simp only [if_true, List.singleton_append, soloRun]
      exact ⟨by rw [h.1]; rfl, h.2⟩
    · rw [qStep_lookup_ne ep s B e (fun x => hs x.symm)] at h
      simp only [if_neg hs, List.nil_append]
      exact h

/-! ### below the peer limit -/

/-- room for `n` more pipes (or no limit at all) -/
def Slack (ep : QEp) (n : Nat) : Prop := ep.cfg.maxPeers = 0 ∨ ep.peerCount + n < ep.cfg.maxPeers

theorem Slack.mono {ep : QEp} {n m : Nat} (h : Slack ep n) (hm : m ≤ n) : Slack ep m := by
  rcases h with h | h
  · exact Or.inl h
  · exact Or.inr (by omega)

theorem Slack.limit {ep : QEp} {n : Nat} (h : Slack ep n) : ep.limit = false := by
  unfold QEp.limit
  rcases h with h | h
  · simp [h]
  · simp; intro _; omega

theorem Slack.step {ep : QEp} {n : Nat} (h : Slack ep (n + 1)) (s : Nat) (e : QEv) : Slack (qStep ep s e).1 n := by
  rcases h with h | h
  · exact Or.inl h
  · right
    have := (qStep_count ep s e).1
    unfold QEp.peerCount at h ⊢
    rw [qStep_others, qStep_cfg]
    omega

theorem limitBits_slack (B : Nat) (evs : List (Nat × QEv)) : ∀ (ep : QEp), Slack ep evs.length →
    limitBits B ep evs = (evsOf B evs).map fun x => (false, x.2) := by
  induction evs with
  | nil => intro ep _; rfl
  | cons ev rest ih =>
    intro ep h
    obtain ⟨s, e⟩ := ev
    simp only [List.length_cons] at h
    simp only [limitBits, ih _ (h.step s e), (h.mono (Nat.zero_le _)).limit]
    unfold evsOf
    by_cases hs : s = B
    · simp [hs]
    · simp [hs]

theorem evsOf_idem (B : Nat) (evs : List (Nat × QEv)) : evsOf B (evsOf B evs) = evsOf B evs := by
  unfold evsOf; simp

theorem evsOf_length_le (B : Nat) (evs : List (Nat × QEv)) : (evsOf B evs).length ≤ evs.length :=
  List.length_filter_le _ _

/-- NON-INTERFERENCE below the peer limit: deleting every event of every other address changes nothing of
    what `B` sees nor of the pipe `B` ends with. -/
theorem iso_slack (B : Nat) (evs : List (Nat × QEv)) (ep : QEp) (h : Slack ep evs.length) :
    viewOf B (qRun ep evs) = viewOf B (qRun ep (evsOf B evs)) ∧
    qLookup (qFinal ep evs).pipes B = qLookup (qFinal ep (evsOf B evs)).pipes B := by
  have h1 := iso_oracle B evs ep
  have h2 := iso_oracle B (evsOf B evs) ep
  rw [limitBits_slack B evs ep h] at h1
  rw [limitBits_slack B (evsOf B evs) ep (h.mono (evsOf_length_le B evs)), evsOf_idem] at h2
  exact ⟨h1.1.trans h2.1.symm, h1.2.trans h2.2.symm⟩

/-! ### FIFO over runs -/

def handedOf (B : Nat) (outs : List (Nat × QOut)) : List Bytes := (viewOf B outs).flatMap (·.handed)
def acceptedOf (B : Nat) (outs : List (Nat × QOut)) : List Bytes := (viewOf B outs).flatMap accOf

theorem fifo_run (B : Nat) (evs : List (Nat × QEv)) : ∀ (ep : QEp),
    (handedOf B (qRun ep evs) ++ rxqOf (qLookup (qFinal ep evs).pipes B)).Sublist
      (rxqOf (qLookup ep.pipes B) ++ acceptedOf B (qRun ep evs)) := by
  induction evs with
  | nil => intro ep; simp [handedOf, acceptedOf, viewOf, qRun, qFinal]
  | cons ev rest ih =>
    intro ep
    obtain ⟨s, e⟩ := ev
    have h := ih (qStep ep s e).1
    simp only [qRun, qFinal, handedOf, acceptedOf, viewOf_cons] at h ⊢
    by_cases hs : s = B
    · subst hs
      rw [qStep_lookup_self] at h
      have h0 := p1Step_fifo ep.cfg ep.limit (qLookup ep.pipes s) e
      simp only [if_true, List.singleton_append, List.flatMap_cons, List.append_assoc]
      rw [qStep_out]
      -- handed₀ ++ (handed_rest ++ q_final) ⊑ handed₀ ++ (q₁ ++ acc_rest) ⊑ (q₀ ++ acc₀) ++ acc_rest
      have a1 := List.Sublist.append_left h (p1Step ep.cfg ep.limit (qLookup ep.pipes s) e).2.handed
      have a2 := List.Sublist.append_right h0 ((viewOf s (qRun (qStep ep s e).1 rest)).flatMap accOf)
      simp only [List.append_assoc] at a1 a2
      exact a1.trans a2
    · rw [qStep_lookup_ne ep s B e (fun x => hs x.symm)] at h
      simpa [if_neg hs] using h

/-! ### garbage is inert -/

theorem qSet_lookup_same (l : List (Nat × QPipe)) (s : Nat) : qSet l s (qLookup l s) = l := by
  cases h : qLookup l s with
  | none => exact qSet_none_of_none l s h
  | some x => exact qPut_same l s x h

/-- a step whose per-address part returns the pipe it found leaves the whole endpoint as it was -/
theorem qStep_same (ep : QEp) (s : Nat) (e : QEv)
    (h : (p1Step ep.cfg ep.limit (qLookup ep.pipes s) e).1 = qLookup ep.pipes s) : (qStep ep s e).1 = ep := by
  unfold qStep
  simp only [h, qSet_lookup_same]

/-! ### the transmit ring -/

theorem txQueue_spec (size : Nat) (rs : List URep) : ∀ (tx : Nat), tx ≤ size →
    (txQueue size tx rs).1 ≤ size ∧ tx ≤ (txQueue size tx rs).1 ∧
    (txQueue size tx rs).2.map (·.1) = rs ∧
    (txQueue size tx rs).1 = tx + ((txQueue size tx rs).2.filter (·.2)).length ∧
    (∀ x ∈ (txQueue size tx rs).2, x.2 = false → (txQueue size tx rs).1 = size) := by
  induction rs with
  | nil => intro tx h; simp [txQueue, h]
  | cons r rs ih =>
    intro tx h
    unfold txQueue
    by_cases hf : tx = size
    · have := ih tx h
      simp only [if_pos hf, List.map_cons, List.mem_cons]
      refine ⟨this.1, this.2.1, by rw [this.2.2.1], ?_, ?_⟩
      · simpa using this.2.2.2.1
      · intro x hx hx2
        rcases hx with hx | hx
        · have := this.2.1; omega
        · exact this.2.2.2.2 x hx hx2
    · have := ih (tx + 1) (by omega)
      simp only [if_neg hf, List.map_cons, List.mem_cons]
      refine ⟨this.1, by omega, by rw [this.2.2.1], ?_, ?_⟩
      · have := this.2.2.2.1
        simp only [List.filter_cons, if_true]
        simp only [List.length_cons]
        omega
      · intro x hx hx2
        rcases hx with hx | hx
        · rw [hx] at hx2; cases hx2
        · exact this.2.2.2.2 x hx hx2

/-- the events of the endpoint proper -/
def tErase : List TEv → List (Nat × QEv)
  | [] => []
  | .ev s e :: rest => (s, e) :: tErase rest
  | .txDone :: rest => tErase rest

/-- the ring never holds more than its size, whatever arrives and whenever transmissions complete; and the
    transmit ring decides nothing but the fate of the answers: erasing it gives the run of the endpoint. -/
theorem tRun_spec (tevs : List TEv) : ∀ (t : TEp), t.tx ≤ t.ep.cfg.txSize →
    (tFinal t tevs).tx ≤ t.ep.cfg.txSize ∧ (tFinal t tevs).ep = qFinal t.ep (tErase tevs) ∧
    (tRun t tevs).map (fun o => (o.src, o.out)) = qRun t.ep (tErase tevs) ∧
    (∀ o ∈ tRun t tevs, o.sent.map (·.1) = o.out.replies) := by
  induction tevs with
  | nil => intro t h; simp [tFinal, tRun, tErase, qFinal, qRun, h]
  | cons ev rest ih =>
    intro t h
    cases ev with
    | txDone =>
      have := ih { t with tx := t.tx - 1 } (by simp; omega)
      simpa [tFinal, tRun, tStep, tErase] using this
    | ev s e =>
      have hq := txQueue_spec t.ep.cfg.txSize (qStep t.ep s e).2.replies t.tx h
      have := ih (tStep t (.ev s e)).1 (by simp only [tStep, qStep_cfg]; exact hq.1)
      simp only [tStep, qStep_cfg] at this
      simp only [tFinal, tRun, tStep, tErase, qFinal, qRun, List.map_cons, List.mem_cons]
      refine ⟨this.1, this.2.1, by rw [this.2.2.1], ?_⟩
      intro o ho
      rcases ho with ho | ho
      · rw [ho]; exact hq.2.2.1
      · exact this.2.2.2 o ho

end Nng.Hostile
