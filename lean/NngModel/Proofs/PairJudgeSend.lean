/-
  C08 judge simulation, part 8: the application's send.
-/
import NngModel.Proofs.PairJudge7
namespace Nng.Pair0
open Nng Nng.Proto Nng.PairSpec

def evSend : Ev → List Bytes
  | .send _ _ m _ => [m.body]
  | _ => []

/-! ### the judge's bookkeeping for a send -/

def nbOf (a : Nat) (m : WMsg) (mode : Mode) : Nb := if mode = .nb then .send a m else .none

def preJ (j0 : PairJ) (a : Nat) (m : WMsg) (mode : Mode) : PairJ :=
  if mode = .nb then j0 else { j0 with pendingS := j0.pendingS ++ [(a, m)] }

theorem pre_send (j0 : PairJ) (c : Option Nat) (a : Nat) (m : WMsg) (mode : Mode) (outs : List Out) :
    pairPre false j0 (.send c a m mode) outs = (preJ j0 a m mode, nbOf a m mode) := by
  cases mode <;> simp [pairPre, preJ, nbOf]

theorem preJ_nb (j0 : PairJ) (a : Nat) (m : WMsg) : preJ j0 a m .nb = j0 := by simp [preJ]

theorem nbOf_nb (a : Nat) (m : WMsg) : nbOf a m .nb = .send a m := by simp [nbOf]

theorem preJ_ne {j0 : PairJ} {a : Nat} {m : WMsg} {mode : Mode} (h : mode ≠ .nb) :
    preJ j0 a m mode = { j0 with pendingS := j0.pendingS ++ [(a, m)] } := by simp [preJ, h]

theorem nbOf_ne {a : Nat} {m : WMsg} {mode : Mode} (h : mode ≠ .nb) : nbOf a m mode = .none := by
  simp [nbOf, h]

theorem preJ_racing (j0 : PairJ) (a : Nat) (m : WMsg) (mode : Mode) : (preJ j0 a m mode).racing = j0.racing := by
  unfold preJ; split <;> rfl

theorem preJ_live (j0 : PairJ) (a : Nat) (m : WMsg) (mode : Mode) : (preJ j0 a m mode).live = j0.live := by
  unfold preJ; split <;> rfl

theorem filter_ne_self {l : List (Nat × WMsg)} {a : Nat} (h : ∀ x ∈ l, x.1 ≠ a) :
    l.filter (·.1 != a) = l := by
  rw [List.filter_eq_self]; intro x hx; simpa using h x hx

theorem filter_snoc {l : List (Nat × WMsg)} {a : Nat} (m : WMsg) (h : ∀ x ∈ l, x.1 ≠ a) :
    (l ++ [(a, m)]).filter (·.1 != a) = l := by
  simp [List.filter_append, filter_ne_self h]

theorem find_none_of {l : List (Nat × WMsg)} {a : Nat} (h : ∀ x ∈ l, x.1 ≠ a) :
    l.find? (·.1 == a) = none := by
  rw [List.find?_eq_none]; intro x hx; simpa using h x hx

theorem done_send_now (j0 : PairJ) (a : Nat) (m : WMsg) (mode : Mode) (rv : Nat) (mb : Bool)
    (hfn : ∀ x ∈ j0.pendingS, x.1 ≠ a) :
    pairOut (nbOf a m mode) (preJ j0 a m mode) (.done a rv none mb) =
      sendCompletion (preJ j0 a m mode) a rv m mb := by
  by_cases hm : mode = .nb
  · subst hm
    rw [preJ_nb, nbOf_nb]
    exact pairOut_done_send (Or.inr ⟨find_none_of hfn, rfl⟩)
  · rw [preJ_ne hm]
    exact pairOut_done_send (Or.inl ⟨a, by simp [List.find?_append, find_none_of hfn]⟩)

theorem done_ok {j0 : PairJ} {a : Nat} {m : WMsg} {mode : Mode} (hfn : ∀ x ∈ j0.pendingS, x.1 ≠ a)
    (hb : badHdr j0.v1 j0.raw m = false) :
    pairOut (nbOf a m mode) (preJ j0 a m mode) (.done a 0 none false) =
      { j0 with unsent := j0.unsent ++ [⟨wireForm j0.v1 j0.raw m, false⟩] } := by
  rw [done_send_now _ _ _ _ _ _ hfn]
  by_cases hm : mode = .nb
  · subst hm
    rw [preJ_nb, sendCompletion_ok hb, filter_ne_self hfn]
  · rw [preJ_ne hm, sendCompletion_ok (by exact hb)]
    simp only []
    rw [filter_snoc m hfn]

theorem done_fail {j0 : PairJ} {a : Nat} {m : WMsg} {mode : Mode} {rv : Nat} (hfn : ∀ x ∈ j0.pendingS, x.1 ≠ a)
    (hrv : rv ≠ 0) (hb : badHdr j0.v1 j0.raw m = (rv == Err.eproto)) :
    pairOut (nbOf a m mode) (preJ j0 a m mode) (.done a rv none true) = j0 := by
  rw [done_send_now _ _ _ _ _ _ hfn]
  by_cases hm : mode = .nb
  · subst hm
    rw [preJ_nb, sendCompletion_fail hrv hb, filter_ne_self hfn]
  · rw [preJ_ne hm, sendCompletion_fail hrv (by exact hb)]
    simp only []
    rw [filter_snoc m hfn]

theorem pairPost_sendMode {polled : Option (Bool × Bool)} {ev : Ev} {outs : List Out} {j : PairJ} {a rv : Nat}
    {m : WMsg} {mode : Mode}
    (hp : isPoll ev = false) (hb : noBlocked outs) (hr : j.racing = false) (hd : doneOf outs a = some rv)
    (hpoll : mode = .nb → ∀ r w, polled = some (r, w) → ¬ (w = true ∧ rv = Err.eagain) ∧ ¬ (w = false ∧ rv = 0)) :
    pairPost false polled (nbOf a m mode) ev outs j = j := by
  by_cases hm : mode = .nb
  · subst hm; rw [nbOf_nb]; exact pairPost_send hp hb hr hd (hpoll rfl)
  · rw [nbOf_ne hm]; exact pairPost_none hp hb hr

/-! ### facts about an aio that is not parked -/

theorem busy_facts {V : Variant} {v1 : Bool} {sS sR : List Bytes} {s : State} {j0 : PairJ}
    (hR0 : R V v1 sS sR s j0) {a : Nat} (hbz : aioBusy s a = false) :
    (∀ x ∈ j0.pendingS, x.1 ≠ a) ∧ (∀ pk ∈ s.waq, pk.aio ≠ a) ∧ (∀ r ∈ s.raq, r.aio ≠ a) := by
  unfold aioBusy at hbz
  simp only [Bool.or_eq_false_iff, List.any_eq_false] at hbz
  have h1 : ∀ pk ∈ s.waq, pk.aio ≠ a := fun pk h => by simpa using hbz.1 pk h
  have h2 : ∀ r ∈ s.raq, r.aio ≠ a := fun r h => by simpa using hbz.2 r h
  refine ⟨?_, h1, h2⟩
  intro x hx e
  have : x.1 ∈ s.waq.map (·.aio) := by
    rw [← fsts_of_pend hR0.pend]; exact List.mem_map.2 ⟨x, hx, rfl⟩
  obtain ⟨pk, hpk, e'⟩ := List.mem_map.1 this
  exact h1 pk hpk (e'.trans e)

theorem accept_fresh {j0 : PairJ} {wf : WMsg} {b : Bytes} (hbody : wf.body = b) (hn : (allB j0).Nodup)
    (hfr : b ∉ allB j0) :
    (allB { j0 with unsent := j0.unsent ++ [⟨wf, false⟩] }).Nodup ∧
    ∀ b' ∈ allB { j0 with unsent := j0.unsent ++ [⟨wf, false⟩] }, b' ∈ allB j0 ∨ b' = b := by
  constructor
  · have h : ((b :: j0.pendingS.map (·.2.body)) ++ (j0.unsent.map (·.m.body) ++ j0.wired.map (·.body))).Nodup :=
      List.nodup_cons.2 ⟨hfr, hn⟩
    have := nodup_accept _ _ _ _ h
    simpa [allB, hbody] using this
  · intro b' hb'
    simp only [allB, List.map_append, List.map_cons, List.map_nil, List.mem_append, List.mem_singleton, hbody] at hb' ⊢
    rcases hb' with h | (h | h) | h
    · exact Or.inl (Or.inl h)
    · exact Or.inl (Or.inr (Or.inl h))
    · exact Or.inr h
    · exact Or.inl (Or.inr (Or.inr h))

theorem fresh_allB {V : Variant} {v1 : Bool} {sS sR : List Bytes} {s : State} {j0 : PairJ}
    (hR0 : R V v1 sS sR s j0) {b : Bytes} (hfr : b ∉ sS) : b ∉ allB j0 :=
  fun h => hfr (hR0.subS b h)

/-! ### the leaves -/

/-- the send fails at once (malformed header, no room for a non-blocking / zero-timeout send) -/
theorem send_fail_leaf {V : Variant} {v1 : Bool} {sS sR : List Bytes} {s s' : State} {j : PairJ} {a : Nat}
    (hR : R' V v1 sS sR s j) (hbz : aioBusy s a = false) (c : Option Nat) (m : WMsg) (mode : Mode) (rv : Nat)
    (hv : view s' = view s) (hA' : All V s') (hrv : rv ≠ 0) (hb : badHdr v1 s.raw m = (rv == Err.eproto))
    (hpoll : mode = .nb → ∀ r w, j.lastPoll = some (r, w) → ¬ (w = true ∧ rv = Err.eagain)) :
    R' V v1 (sS ++ [m.body]) sR s' (pairStepOld j (.send c a m mode) [.done a rv none true]) := by
  obtain ⟨j0, hj0⟩ : ∃ j0 : PairJ, j0 = { j with lastPoll := none } := ⟨_, rfl⟩
  have hR0 : R V v1 sS sR s j0 := hj0 ▸ hR.1
  obtain ⟨hfn, _, _⟩ := busy_facts hR0 hbz
  have hd := done_fail (mode := mode) (m := m) hfn hrv (by rw [hR0.jv1, hR0.raw]; exact hb)
  refine step_general (jm := j0) (j1 := preJ j0 a m mode) (nb := nbOf a m mode) hR (by simp [notExecuted])
    (by rw [← hj0]; exact pre_send j0 c a m mode _) ?_ ?_ hA' ?_
  · rw [pairMid_dones (by rw [preJ_racing]; exact hR0.racing) rfl (by simp [isDone])]
    exact hd
  · exact pairPost_sendMode rfl (by simp [noBlocked, isBlocked]) hR0.racing (by simp [doneOf])
      (fun hm r w h => ⟨hpoll hm r w h, fun h' => hrv h'.2⟩)
  · exact R_mono (fun _ h => List.mem_append_left _ h) (fun _ h => h) (R_view hv hR0)

/-- the message goes to the send buffer -/
theorem send_buf_leaf {V : Variant} {v1 : Bool} {sS sR : List Bytes} {s s' : State} {j : PairJ} {a g : Nat}
    {m' : WMsg}
    (hR : R' V v1 sS sR s j) (hbz : aioBusy s a = false) (c : Option Nat) (m : WMsg) (mode : Mode)
    (hbad : badHdr v1 s.raw m = false) (hwire : V.txWire m' = wireForm v1 s.raw m)
    (hv : view s' = view { s with wmq := s.wmq ++ [⟨g, m'⟩] }) (hA' : All V s') (hfr : m.body ∉ sS)
    (hpoll : mode = .nb → ∀ r w, j.lastPoll = some (r, w) → w = true) :
    R' V v1 (sS ++ [m.body]) sR s' (pairStepOld j (.send c a m mode) [.done a 0 none false]) := by
  obtain ⟨j0, hj0⟩ : ∃ j0 : PairJ, j0 = { j with lastPoll := none } := ⟨_, rfl⟩
  have hR0 : R V v1 sS sR s j0 := hj0 ▸ hR.1
  obtain ⟨hfn, _, _⟩ := busy_facts hR0 hbz
  have hwf : wireForm j0.v1 j0.raw m = V.txWire m' := by rw [hR0.jv1, hR0.raw, hwire]
  have hd := done_ok (mode := mode) (m := m) hfn (by rw [hR0.jv1, hR0.raw]; exact hbad)
  rw [hwf] at hd
  obtain ⟨n1, s1⟩ := accept_fresh (j0 := j0) (wf := V.txWire m') (b := m.body)
    (by rw [hwire]; exact wireForm_body _ _ _) hR0.nodupS (fresh_allB hR0 hfr)
  refine step_general (jm := { j0 with unsent := j0.unsent ++ [⟨V.txWire m', false⟩] })
    (j1 := preJ j0 a m mode) (nb := nbOf a m mode) hR (by simp [notExecuted])
    (by rw [← hj0]; exact pre_send j0 c a m mode _) ?_ ?_ hA' ?_
  · rw [pairMid_dones (by rw [preJ_racing]; exact hR0.racing) rfl (by simp [isDone])]
    exact hd
  · refine pairPost_sendMode (rv := 0) rfl (by simp [noBlocked, isBlocked]) hR0.racing (by simp [doneOf])
      (fun hm r w h => ⟨fun h' => ?_, fun h' => ?_⟩)
    · simp [Err.eagain] at h'
    · have := hpoll hm r w h; rw [this] at h'; simp at h'
  · refine R_view hv ?_
    refine { hR0 with unsent := ?_, nodupS := n1, subS := ?_ }
    · simpa using hR0.unsent.snoc (V.txWire m')
    · intro b hb
      rcases s1 b hb with h | h
      · exact List.mem_append_left _ (hR0.subS b h)
      · simp [h]

/-- the attached pipe is idle: the message goes straight to it -/
theorem send_wire_leaf {V : Variant} {v1 : Bool} {sS sR : List Bytes} {s s' : State} {j : PairJ} {a p : Nat}
    {m' : WMsg} {gw : GMsg}
    (hR : R' V v1 sS sR s j) (hbz : aioBusy s a = false) (c : Option Nat) (m : WMsg) (mode : Mode)
    (hbad : badHdr v1 s.raw m = false) (hwire : V.txWire m' = wireForm v1 s.raw m)
    (hw : s.wrReady = true) (hc : s.cur = some p) (hq : s.wmq = [])
    (hv : view s' = view { s with wrReady := false,
                                  pipes := s.pipes.map fun q => if q.id == p then { q with busy := some gw } else q })
    (hA' : All V s') (hfr : m.body ∉ sS)
    (hpoll : mode = .nb → ∀ r w, j.lastPoll = some (r, w) → w = true) :
    R' V v1 (sS ++ [m.body]) sR s'
      (pairStepOld j (.send c a m mode) [.done a 0 none false, .psend p (V.txWire m')]) := by
  obtain ⟨j0, hj0⟩ : ∃ j0 : PairJ, j0 = { j with lastPoll := none } := ⟨_, rfl⟩
  have hR0 : R V v1 sS sR s j0 := hj0 ▸ hR.1
  obtain ⟨hfn, _, _⟩ := busy_facts hR0 hbz
  have hwf : wireForm j0.v1 j0.raw m = V.txWire m' := by rw [hR0.jv1, hR0.raw, hwire]
  have hd := done_ok (mode := mode) (m := m) hfn (by rw [hR0.jv1, hR0.raw]; exact hbad)
  rw [hwf] at hd
  obtain ⟨n1, s1⟩ := accept_fresh (j0 := j0) (wf := V.txWire m') (b := m.body)
    (by rw [hwire]; exact wireForm_body _ _ _) hR0.nodupS (fresh_allB hR0 hfr)
  have hlive : j0.live = some p := hR0.live.trans hc
  have hbusy : j0.busy = false := by rw [hR0.busy, hw, hc]; rfl
  have hU : UR (j0.unsent ++ [⟨V.txWire m', false⟩]) (V.txWire m' :: []) := by
    have := hR0.unsent; rw [hq] at this; exact this.snoc _
  obtain ⟨B, e2, hB, n2, s2⟩ := psend_step (p := p) (nbOf a m mode)
    (j := { j0 with unsent := j0.unsent ++ [⟨V.txWire m', false⟩] }) hlive hbusy hU n1
  refine step_general (jm := { j0 with unsent := B, wired := j0.wired ++ [V.txWire m'], busy := true })
    (j1 := preJ j0 a m mode) (nb := nbOf a m mode) hR (by simp [notExecuted])
    (by rw [← hj0]; exact pre_send j0 c a m mode _) ?_ ?_ hA' ?_
  · rw [pairMid_shape (outs := [.done a 0 none false, .psend p (V.txWire m')]) (p := p)
      (dn := [.done a 0 none false]) (ps := [.psend p (V.txWire m')]) (gn := [])
      (by rw [preJ_racing]; exact hR0.racing) rfl (by rw [preJ_live]; exact hlive)
      rfl (by simp [isDone, onOld]) (by simp [isDone, oldGone])
      (by simp [isDone, onOld, oldGone])]
    simp only [List.foldl_cons, List.foldl_nil]
    rw [hd, e2]
  · refine pairPost_sendMode (rv := 0) rfl (by simp [noBlocked, isBlocked]) hR0.racing (by simp [doneOf])
      (fun hm r w h => ⟨fun h' => ?_, fun h' => ?_⟩)
    · simp [Err.eagain] at h'
    · have := hpoll hm r w h; rw [this] at h'; simp at h'
  · refine R_view hv ?_
    refine { hR0 with busy := ?_, armed := ?_, unsent := ?_, nodupS := n2, subS := ?_ }
    · simp [hc]
    · simp only [any_armed_busy]; exact hR0.armed
    · simpa [hq] using hB
    · intro b hb
      rcases s1 b (s2 b hb) with h | h
      · exact List.mem_append_left _ (hR0.subS b h)
      · simp [h]

/-- no room: the send is parked -/
theorem send_park_leaf {V : Variant} {v1 : Bool} {sS sR : List Bytes} {s s' : State} {j : PairJ} {a g : Nat}
    {m' : WMsg} {dl : Option Nat}
    (hR : R' V v1 sS sR s j) (hbz : aioBusy s a = false) (c : Option Nat) (m : WMsg) (mode : Mode)
    (hmode : mode ≠ .nb)
    (hbad : badHdr v1 s.raw m = false) (hwire : V.txWire m' = wireForm v1 s.raw m)
    (hv : view s' = view { s with waq := s.waq ++ [⟨a, ⟨g, m'⟩, dl⟩] }) (hA' : All V s') (hfr : m.body ∉ sS) :
    R' V v1 (sS ++ [m.body]) sR s' (pairStepOld j (.send c a m mode) []) := by
  obtain ⟨j0, hj0⟩ : ∃ j0 : PairJ, j0 = { j with lastPoll := none } := ⟨_, rfl⟩
  have hR0 : R V v1 sS sR s j0 := hj0 ▸ hR.1
  obtain ⟨hfn, hwa, hra⟩ := busy_facts hR0 hbz
  have hfr' := fresh_allB hR0 hfr
  refine step_general (jm := { j0 with pendingS := j0.pendingS ++ [(a, m)] })
    (j1 := preJ j0 a m mode) (nb := nbOf a m mode) hR (by simp [notExecuted])
    (by rw [← hj0]; exact pre_send j0 c a m mode _) ?_ ?_ hA' ?_
  · rw [pairMid_neutral (by rw [preJ_racing]; exact hR0.racing) rfl (by simp), preJ_ne hmode]
  · rw [nbOf_ne hmode]; exact pairPost_none rfl (by simp [noBlocked]) hR0.racing
  · refine R_view hv ?_
    have hall : allB { j0 with pendingS := j0.pendingS ++ [(a, m)] } =
        j0.pendingS.map (·.2.body) ++ m.body :: (j0.unsent.map (·.m.body) ++ j0.wired.map (·.body)) := by
      simp [allB]
    refine { hR0 with pend := ?_, pendOk := ?_, disj := ?_, waqNd := ?_, nodupS := ?_, subS := ?_ }
    · show List.map _ (j0.pendingS ++ [(a, m)]) = List.map _ (s.waq ++ [_])
      rw [List.map_append, List.map_append, hR0.pend]
      simp [hwire]
    · intro x hx
      rcases List.mem_append.1 hx with h | h
      · exact hR0.pendOk x h
      · simp only [List.mem_singleton] at h; subst h; exact hbad
    · intro pk hpk r hr
      rcases List.mem_append.1 hpk with h | h
      · exact hR0.disj pk h r hr
      · simp only [List.mem_singleton] at h; subst h; exact fun e => hra r hr e.symm
    · show (List.map _ (s.waq ++ [_])).Nodup
      rw [List.map_append, List.nodup_append]
      refine ⟨hR0.waqNd, by simp, ?_⟩
      intro x hx y hy
      simp only [List.map_cons, List.map_nil, List.mem_singleton] at hy
      subst hy
      obtain ⟨pk, hpk, rfl⟩ := List.mem_map.1 hx
      exact hwa pk hpk
    · rw [hall]
      exact List.perm_middle.nodup_iff.2 (List.nodup_cons.2 ⟨hfr', hR0.nodupS⟩)
    · intro b hb
      rw [hall] at hb
      simp only [List.mem_append, List.mem_cons] at hb
      rcases hb with h | h | h
      · exact List.mem_append_left _ (hR0.subS b (by simp [allB, h]))
      · simp [h]
      · exact List.mem_append_left _ (hR0.subS b (by simpa [allB] using Or.inr h))

/-! ### the event -/

theorem ev_send {V : Variant} {v1 : Bool} {sS sR : List Bytes} {s : State} {j : PairJ} (hV : VJ V v1)
    (hA : All V s) (hR : R' V v1 sS sR s j) (hcl : s.closed = false) (c : Option Nat) (a : Nat) (m : WMsg) (mode : Mode)
    (hfr : m.body ∉ sS)
    (hA' : All V (stepLive V s (.send c a m mode)).1) :
    R' V v1 (sS ++ [m.body]) sR (stepLive V s (.send c a m mode)).1
      (pairStepOld j (.send c a m mode) (stepLive V s (.send c a m mode)).2) := by
  simp only [stepLive] at hA' ⊢
  by_cases hbz : aioBusy s a = true
  · simp only [hbz, if_true] at hA' ⊢
    rw [pairStep_refused (by simp [notExecuted])]
    exact ⟨R_mono (fun _ h => List.mem_append_left _ h) (fun _ h => h) hR.1, hR.2⟩
  · have hbz' : aioBusy s a = false := by simpa using hbz
    simp only [hbz', Bool.false_eq_true, if_false] at hA' ⊢
    have hI := hA.inv
    have hwr : ∀ r w, j.lastPoll = some (r, w) → w = (s.wrReady || !wmqFull s) := by
      intro r w h; rw [(hR.2 r w h).2]; exact hI.writableEq hcl
    unfold sockSend at hA' ⊢
    cases hprep : V.txPrep s.raw m with
    | error e =>
      simp only [hprep] at hA' ⊢
      obtain ⟨he, hbad⟩ := hV.prepErr _ _ _ hprep
      subst he
      exact send_fail_leaf hR hbz' c m mode Err.eproto rfl hA' (by simp [Err.eproto]) (by simp [hbad])
        (fun _ r w _ h => by simp [Err.eproto, Err.eagain] at h)
    | ok m' =>
      simp only [hprep] at hA' ⊢
      obtain ⟨hbad, hwire⟩ := hV.prepOk _ _ _ hprep
      unfold sockSendLocked at hA' ⊢
      by_cases hw : s.wrReady = true
      · simp only [hw, if_true] at hA' ⊢
        obtain ⟨hq, _⟩ := hI.wrEmpty hw
        obtain ⟨p, hc⟩ := Option.isSome_iff_exists.1 (hI.wrCur hw)
        simp only [hc, pipeSend, List.cons_append, List.nil_append] at hA' ⊢
        exact send_wire_leaf (gw := ⟨s.nsend, V.txWire m'⟩) hR hbz' c m mode hbad hwire hw hc hq (by simp [view, modPipe, hc]) hA' hfr
          (fun _ r w h => by rw [hwr r w h, hw]; rfl)
      · have hw' : s.wrReady = false := by simpa using hw
        simp only [hw', Bool.false_eq_true, if_false] at hA' ⊢
        by_cases hroom : s.wmq.length < s.wmqCap
        · simp only [hroom, if_true] at hA' ⊢
          exact send_buf_leaf (g := s.nsend) hR hbz' c m mode hbad hwire (by simp [view, hw']) hA' hfr
            (fun _ r w h => by rw [hwr r w h, hw']; simp [wmqFull]; omega)
        · simp only [hroom, if_false] at hA' ⊢
          have hfull : wmqFull s = true := by simp [wmqFull]; omega
          have hnw : ∀ r w, j.lastPoll = some (r, w) → ¬ (w = true ∧ Err.eagain = Err.eagain) := by
            intro r w h h'; rw [hwr r w h, hw', hfull] at h'; simp at h'
          cases mode with
          | nb =>
            simp only [parkSend] at hA' ⊢
            exact send_fail_leaf hR hbz' c m .nb Err.eagain (by simp [view, hw']) hA' (by simp [Err.eagain])
              (by simp [hbad, Err.eagain, Err.eproto]) (fun _ => hnw)
          | inf =>
            simp only [parkSend] at hA' ⊢
            exact send_park_leaf (g := s.nsend) (dl := deadlineOf s.now .inf) hR hbz' c m .inf (by simp) hbad hwire (by simp [view, hw']) hA' hfr
          | dflt =>
            simp only [parkSend] at hA' ⊢
            exact send_park_leaf (g := s.nsend) (dl := deadlineOf s.now .dflt) hR hbz' c m .dflt (by simp) hbad hwire (by simp [view, hw']) hA' hfr
          | ms n =>
            cases n with
            | zero =>
              simp only [parkSend] at hA' ⊢
              exact send_fail_leaf hR hbz' c m (.ms 0) Err.etimedout (by simp [view, hw']) hA' (by simp [Err.etimedout])
                (by simp [hbad, Err.etimedout, Err.eproto]) (fun hm => by cases hm)
            | succ n =>
              simp only [parkSend] at hA' ⊢
              exact send_park_leaf (g := s.nsend) (dl := deadlineOf s.now (.ms (n + 1))) hR hbz' c m (.ms (n + 1)) (by simp) hbad hwire (by simp [view, hw']) hA' hfr

end Nng.Pair0
