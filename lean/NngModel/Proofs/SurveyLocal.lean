/-
  Step-local facts about the SURVEYOR and RESPONDENT models (S2–S7): what one callback
  does, for every state.
-/
import NngModel.Proofs.SurveyStep
import NngModel.Proofs.SurveyResp
namespace Nng.Survey
open Nng Nng.Proto

/-- S3 -/
theorem recv_estate (s : State) (c : Ctx) (a : Nat) (mode : Mode)
    (h : c.surveyId = 0 ∨ (s.now : Int) ≥ c.expire) :
    ctxRecv s c a mode = (s, [Out.done a Err.estate none false]) := by
  unfold ctxRecv
  rw [if_pos]
  simp only [Bool.or_eq_true, beq_iff_eq, decide_eq_true_eq]
  exact h

/-- S7: a zero-timeout receive (the non-blocking call, or an aio with timeout 0) completes
    in the call; it is never parked -/
theorem recv_zero_completes (s : State) (c : Ctx) (a : Nat) (mode : Mode) (hz : timeoutOf mode = 0) :
    ∃ rv m, (ctxRecv s c a mode).2 = [Out.done a rv m false] := by
  unfold ctxRecv
  by_cases h0 : (c.surveyId == 0 || decide ((s.now : Int) ≥ c.expire)) = true
  · rw [if_pos h0]; exact ⟨_, _, rfl⟩
  · rw [if_neg h0]
    simp only [Bool.or_eq_true, beq_iff_eq, decide_eq_true_eq, not_or] at h0
    cases hq : c.recvQ with
    | nil =>
      simp only [hz, clampBelow_eq]
      rw [if_pos]
      · exact ⟨_, _, rfl⟩
      · simp only [Int.add_zero, Bool.and_eq_true, Bool.not_eq_true', Bool.or_eq_false_iff,
          decide_eq_false_iff_not, beq_self_eq_true, and_true]
        omega
    | cons gm rest => exact ⟨_, _, rfl⟩

theorem recv_nb_completes (s : State) (c : Ctx) (a : Nat) :
    ∃ rv m, (ctxRecv s c a .nb).2 = [Out.done a rv m false] := recv_zero_completes s c a .nb rfl

/-- S7: the three outcomes of a non-blocking receive: NNG_ESTATE without a live survey,
    NNG_EAGAIN with a live survey and an empty queue, otherwise the oldest queued response -/
theorem recv_nb_cases (s : State) (c : Ctx) (a : Nat) :
    ((c.surveyId = 0 ∨ (s.now : Int) ≥ c.expire) ∧ (ctxRecv s c a .nb).2 = [Out.done a Err.estate none false]) ∨
    (¬(c.surveyId = 0 ∨ (s.now : Int) ≥ c.expire) ∧ c.recvQ = [] ∧ (ctxRecv s c a .nb).2 = [Out.done a Err.eagain none false]) ∨
    (¬(c.surveyId = 0 ∨ (s.now : Int) ≥ c.expire) ∧ ∃ gm rest, c.recvQ = gm :: rest ∧
      (ctxRecv s c a .nb).2 = [Out.done a 0 (some gm.m) false]) := by
  by_cases h : c.surveyId = 0 ∨ (s.now : Int) ≥ c.expire
  · exact Or.inl ⟨h, by rw [recv_estate s c a .nb h]⟩
  · refine Or.inr ?_
    have h0 : ¬ (c.surveyId == 0 || decide ((s.now : Int) ≥ c.expire)) = true := by
      simpa [Bool.or_eq_true, beq_iff_eq, decide_eq_true_eq] using h
    unfold ctxRecv
    rw [if_neg h0]
    cases hq : c.recvQ with
    | nil =>
      refine Or.inl ⟨h, rfl, ?_⟩
      simp only [timeoutOf, clampBelow_eq]
      rw [if_pos]
      · rfl
      · simp only [Int.add_zero, Bool.and_eq_true, Bool.not_eq_true', Bool.or_eq_false_iff,
          decide_eq_false_iff_not, beq_self_eq_true, and_true]
        omega
    | cons gm rest => exact Or.inr ⟨h, gm, rest, rfl, rfl⟩

/-- S4: a new survey cancels every receive parked on the context -/
theorem send_cancels (s : State) (c : Ctx) (a : Nat) (m : WMsg) :
    ∀ pk ∈ c.rq, Out.done pk.aio Err.ecanceled none false ∈ (ctxSend s c a m).2 := by
  intro pk hpk
  have : Out.done pk.aio Err.ecanceled none false ∈ (abortCtx c Err.ecanceled).2 := by
    simp only [abortCtx, List.mem_map]
    exact ⟨pk, hpk, rfl⟩
  unfold ctxSend
  simp only
  split
  · simp [this]
  · simp [this]

/-- S4: the id chosen by the scan is not registered to any context -/
theorem idScan_fresh (s : State) (f v id dv : Nat) (h : idScan s f v = some (id, dv)) : idInUse s id = false := by
  induction f generalizing v with
  | zero => simp [idScan] at h
  | succ n ih =>
    unfold idScan at h
    by_cases hu : idInUse s v = true
    · rw [if_pos hu] at h; exact ih _ h
    · rw [if_neg hu] at h
      simp only [Option.some.injEq, Prod.mk.injEq] at h
      rw [← h.1]; simpa using hu

theorem mem_setCtx_key {s : State} {c' q : Ctx} (h : q ∈ (setCtx s c').ctxs) (hk : q.key = c'.key) : q = c' := by
  simp only [setCtx, List.mem_map] at h
  obtain ⟨x, _, rfl⟩ := h
  by_cases hx : (x.key == c'.key) = true
  · simp [hx]
  · simp only [hx] at hk ⊢
    simp at hx
    exact absurd hk hx

/-- S4: after the send the context has no parked receive and no queued response; on success
    it is registered under the id just issued -/
theorem send_resets (s : State) (c : Ctx) (a : Nat) (m : WMsg) :
    ∀ q ∈ (ctxSend s c a m).1.ctxs, q.key = c.key → q.rq = [] ∧ q.recvQ = [] ∧
      (q.surveyId = 0 ∨ (ctxSend s c a m).1.issued.getLast? = some q.surveyId) := by
  intro q hq hk
  unfold ctxSend at hq ⊢
  simp only at hq ⊢
  split at hq
  · rename_i hal
    simp only [hal]
    have : q ∈ (setCtx s (abortCtx c Err.ecanceled).1).ctxs := by
      unfold clearReadableIf at hq; split at hq <;> exact hq
    have := mem_setCtx_key this hk
    subst this
    simp [abortCtx]
  · rename_i id dv hal
    simp only [hal]
    have := mem_setCtx_key hq hk
    subst this
    simp [abortCtx, setCtx]

/-- S2: when time passes, every parked receive whose expiry is behind the new time is
    completed with NNG_ETIMEDOUT in that step -/
theorem advance_times_out (s : State) (ms : Nat) (c : Ctx) (pk : Parked) (hc : c ∈ s.ctxs) (hpk : pk ∈ c.rq)
    (hd : pk.deadline < ((s.now + ms : Nat) : Int)) :
    Out.done pk.aio Err.etimedout none false ∈ (expire { s with now := s.now + ms }).2 := by
  unfold expire
  simp only [List.mem_flatMap]
  refine ⟨c, hc, ?_⟩
  unfold expireCtx
  simp only
  have hmem : pk ∈ c.rq.filter (fun pk => decide (pk.deadline < ((s.now + ms : Nat) : Int))) := by
    simp only [List.mem_filter, hpk, true_and, decide_eq_true_eq]; omega
  split
  · rename_i he
    rw [List.isEmpty_iff] at he
    rw [he] at hmem; simp at hmem
  · simp only [List.mem_map]
    exact ⟨pk, hmem, rfl⟩

/-- S5: an arriving response touches at most contexts registered under exactly its id -/
theorem response_frame (s : State) (p : Nat) (b : Bytes) :
    ∀ q ∈ (pipeRecv s p b).1.ctxs, q ∈ s.ctxs ∨
      (4 ≤ b.length ∧ q.surveyId ≠ 0 ∧ q.surveyId = beDecode (b.take 4)) := by
  intro q hq
  unfold pipeRecv at hq
  split at hq
  · rw [(closePipe_fields s p).1] at hq; exact Or.inl hq
  · rename_i hlen
    simp only at hq
    split at hq
    · exact Or.inl hq
    · rename_i c hl
      have hl' : lookup s (beDecode (List.take 4 b)) = some c := hl
      obtain ⟨hc, hne, hid⟩ := lookup_spec hl'
      split at hq
      · exact Or.inl hq
      · split at hq
        · rcases mem_setCtx hq with rfl | hq
          · exact Or.inr ⟨by omega, hne, hid⟩
          · exact Or.inl hq
        · have hq' : q ∈ (setCtx { s with narrive := s.narrive + 1 }
              { c with recvQ := c.recvQ ++ [⟨s.narrive, p, beDecode (List.take 4 b), ⟨List.take 4 b, List.drop 4 b⟩⟩] }).ctxs := by
            split at hq <;> exact hq
          rcases mem_setCtx hq' with rfl | hq'
          · exact Or.inr ⟨by omega, hne, hid⟩
          · exact Or.inl hq'

/-- S5: a response shorter than an id changes no context (it only costs the peer its pipe) -/
theorem short_response_ignored (s : State) (p : Nat) (b : Bytes) (h : b.length < 4) :
    (pipeRecv s p b).1.ctxs = s.ctxs := by
  unfold pipeRecv
  rw [if_pos h]
  exact (closePipe_fields s p).1

/-- S5: an id no context is registered under changes nothing but the arrival counter -/
theorem unknown_response_ignored (s : State) (p : Nat) (b : Bytes) (h4 : ¬ b.length < 4)
    (h : lookup s (beDecode (b.take 4)) = none) :
    (pipeRecv s p b).1 = { s with narrive := s.narrive + 1 } := by
  unfold pipeRecv
  rw [if_neg h4]
  simp only
  have : lookup { s with narrive := s.narrive + 1 } (beDecode (List.take 4 b)) = none := h
  rw [this]

end Nng.Survey

namespace Nng.Respond
open Nng Nng.Proto

/-- S6: sending (with a timeout that allows waiting) with no pending survey fails with
    NNG_ESTATE and changes nothing but the send pollable -/
theorem send_estate (s : State) (c : Ctx) (a : Nat) (m : WMsg) (mode : Mode) (hz : zeroRv mode = none)
    (h : c.btrace = []) :
    (ctxSend s c a m mode).2 = [Out.done a Err.estate none true] ∧
    (ctxSend s c a m mode).1.ctxs = s.ctxs ∧ (ctxSend s c a m mode).1.pipes = s.pipes ∧
    (ctxSend s c a m mode).1.wire = s.wire := by
  unfold ctxSend
  simp only [hz, h, List.isEmpty_nil, if_true]
  split
  · refine ⟨rfl, ?_, ?_, ?_⟩ <;> (split <;> rfl)
  · refine ⟨rfl, ?_, ?_, ?_⟩ <;> (split <;> rfl)

/-- S7 as the code is (F8 open): a zero-timeout send — the non-blocking call, or an aio with
    timeout 0 — never parks and never sends: it fails at once (NNG_EAGAIN resp. NNG_ETIMEDOUT)
    with the message returned, whatever the protocol state, and leaves contexts (so also a
    pending survey), pipes and wire untouched; only the socket context's send pollable has
    already been cleared -/
theorem send_zero_fails (s : State) (c : Ctx) (a : Nat) (m : WMsg) (mode : Mode) (rv : Nat) (hz : zeroRv mode = some rv) :
    (ctxSend s c a m mode).2 = [Out.done a rv none true] ∧
    (ctxSend s c a m mode).1.ctxs = s.ctxs ∧ (ctxSend s c a m mode).1.pipes = s.pipes ∧
    (ctxSend s c a m mode).1.wire = s.wire ∧
    (ctxSend s c a m mode).1.writable = (if c.key == none then false else s.writable) := by
  unfold ctxSend
  simp only [hz]
  refine ⟨?_, ?_, ?_, ?_, ?_⟩ <;> first | trivial | rfl | (split <;> rfl)

theorem mem_setCtx_key {s : State} {c' q : Ctx} (h : q ∈ (setCtx s c').ctxs) (hk : q.key = c'.key) : q = c' := by
  simp only [setCtx, List.mem_map] at h
  obtain ⟨x, _, rfl⟩ := h
  by_cases hx : (x.key == c'.key) = true
  · simp [hx]
  · simp only [hx] at hk ⊢
    simp at hx
    exact absurd hk hx

/-- S6: a send that is accepted (may wait, pending survey, no earlier response still parked)
    consumes the pending survey, whatever becomes of the response -/
theorem send_consumes (s : State) (c : Ctx) (a : Nat) (m : WMsg) (mode : Mode) (hz : zeroRv mode = none)
    (hb : c.btrace ≠ []) (hs : c.saio = none) :
    ∀ q ∈ (ctxSend s c a m mode).1.ctxs, q.key = c.key → q.btrace = [] ∧ q.pipeId = none := by
  intro q hq hk
  unfold ctxSend at hq
  simp only [hz] at hq
  have hbe : c.btrace.isEmpty = false := by
    cases hbt : c.btrace with
    | nil => exact absurd hbt hb
    | cons _ _ => rfl
  split at hq
  · rename_i he; rw [hs] at he; simp at he
  · split at hq
    · rename_i he; rw [hbe] at he; simp at he
    · split at hq
      · have := mem_setCtx_key hq hk; subst this; simp
      · split at hq
        · have hq' : q ∈ (setCtx (if c.key == none then { s with writable := false } else s)
              { c with btrace := [], pipeId := none }).ctxs := by
            rw [(handOver_fields _ _ _).1] at hq; exact hq
          have := mem_setCtx_key hq' hk; subst this; simp
        · rename_i pp _ _
          have hq' : q ∈ (setCtx (setCtx (if c.key == none then { s with writable := false } else s)
              { c with btrace := [], pipeId := none })
              { c with btrace := [], pipeId := none, saio := some ⟨a, ⟨c.btrace, m.body⟩,
                deadlineOf (setCtx (if c.key == none then { s with writable := false } else s) { c with btrace := [], pipeId := none }).now mode,
                pp.id, c.last⟩ }).ctxs := by simpa [setPipe] using hq
          have := mem_setCtx_key hq' hk; subst this; simp

theorem handOver_writable_false (s : State) (pp : Pipe) (w : Wire) (h : s.writable = false) :
    (handOver s pp w).writable = false := by
  unfold handOver
  simp only
  split <;> simp [setPipe, h]

/-- the clear at the top of resp0_ctx_send: after any send attempt on the socket's own context
    — accepted, parked, refused or failed on a zero timeout — the send pollable is down -/
theorem send_clears_writable (s : State) (c : Ctx) (a : Nat) (m : WMsg) (mode : Mode) (hk : c.key = none) :
    (ctxSend s c a m mode).1.writable = false := by
  unfold ctxSend
  simp only [hk, beq_self_eq_true, if_true]
  split
  · rfl
  · split
    · rfl
    · split
      · rfl
      · split
        · rfl
        · split
          · exact handOver_writable_false _ _ _ rfl
          · rfl

/-- S7: a zero-timeout receive completes in the call -/
theorem recv_zero_completes (s : State) (c : Ctx) (a : Nat) (mode : Mode) (rv : Nat) (hz : zeroRv mode = some rv) :
    (ctxRecv s c a mode).2 ≠ [] := by
  unfold ctxRecv
  split
  · simp only [hz]; simp
  · split
    · simp
    · split <;> simp

end Nng.Respond
