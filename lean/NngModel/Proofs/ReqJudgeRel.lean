/-
  The relation between the REQ model's state (Model/Req.lean) and the state of the C04/C12 judge
  (Spec/Req.lean), for the proof that the judge accepts every trace of the model.

  `MI`  : facts about the model state alone (beyond `Inv`, `Inv2`)
  `RQ`  : the judge's record of an outstanding request vs the context holding it
  `RCx` : one context
  `G`   : the global part (clock, connections, ids seen on the wire, resend tick)
  `M`   : all of it; `pend` lists the contexts of a pipe that is being closed for which the judge has
          already processed the loss (it handles `pclosed` before the transmissions of the same step)
          while the model has not yet reached them in `closeLoop`.
-/
import NngModel.Proofs.ReqJudgeJ
import NngModel.Proofs.ReqPlaceSteps
import NngModel.Proofs.ReqDrained
import NngModel.Proofs.ReqAlias
namespace Nng.ReqJ
open Nng Nng.Proto Nng.Req Nng.ReqSpec

/-- request bodies submitted by a list of events -/
def sendBodies (evs : List Ev) : List Bytes :=
  evs.filterMap fun e => match e with | .send _ _ m _ => some m.body | _ => none

/-- the aio parked as send (`true`) / receive (`false`) of context `k` -/
def aioOf (s : State) (k : Nat) (b : Bool) : Option Nat :=
  if b then (s.ctx k).sendAio.map (·.aio) else (s.ctx k).recvAio.map (·.aio)

/-- a request handle that is still referred to: it has a wire name or a context holds it -/
def LiveH (s : State) (h : Nat) : Prop := h ∈ s.alias ∨ ∃ k, (s.ctx k).reqMsg = some h

structure MI (rest : List Ev) (s : State) : Prop where
  biglive : ∀ k, nCtxSlots < k → (s.ctx k).live = false
  dead : ∀ k, (s.ctx k).live = false → (s.ctx k).sendAio = none ∧ (s.ctx k).recvAio = none ∧
    (s.ctx k).reqMsg = none ∧ (s.ctx k).repMsg = none ∧ (s.ctx k).connReset = false
  park : ∀ k b k' b' a, aioOf s k b = some a → aioOf s k' b' = some a → k = k' ∧ b = b'
  creset : ∀ k, (s.ctx k).connReset = true → (s.ctx k).reqMsg = none ∧ (s.ctx k).repMsg = none ∧
    (s.ctx k).recvAio = none ∧ (s.ctx k).sendAio = none
  rep : ∀ k, (s.ctx k).repMsg.isSome = true → (s.ctx k).reqMsg = none ∧ (s.ctx k).sendAio = none
  onp : ∀ k p, k ∈ (s.pipe p).ctxs → (s.ctx k).reqMsg.isSome = true ∧ (s.ctx k).wired = true
  wir : ∀ k h, (s.ctx k).reqMsg = some h → (s.ctx k).wired = true →
    (s.ctx k).sendAio = none ∧ h ∈ s.alias ∧ 1 ≤ (s.ctx k).wireCount
  unw : ∀ k h, (s.ctx k).reqMsg = some h → (s.ctx k).wired = false →
    (s.ctx k).sendAio.isSome = true ∧ k ∈ s.sendQueue ∧ (s.ctx k).wireCount = 0
  sa : ∀ k, (s.ctx k).sendAio.isSome = true → (s.ctx k).reqMsg.isSome = true ∧ (s.ctx k).wired = false
  rid : ∀ k, (s.ctx k).requestId ≠ 0 → (s.ctx k).reqMsg = some (s.ctx k).requestId
  al_nodup : s.alias.Nodup
  al_le : ∀ h, h ∈ s.alias → h ≠ 0 ∧ h ≤ s.nalloc
  fresh : ∀ h, LiveH s h → (s.msgs h).body ∉ sendBodies rest
  inj : ∀ h h', LiveH s h → LiveH s h' → (s.msgs h).body = (s.msgs h').body → h = h'
  bound : s.nalloc + (sendBodies rest).length ≤ relBase
  open_ : s.opened = true
  notgone : s.gone = false
  notclosed : s.sClosed = false

/-- the judge's record `r` of the request `h` that context `k` holds -/
structure RQ (s : State) (j : J) (k h : Nat) (r : RJ) : Prop where
  ans : r.answered = false
  body : r.body = (s.msgs h).body
  wired : r.wired = (s.ctx k).wired
  unsent : (s.ctx k).wired = false → ∃ dl, (s.ctx k).sendAio = some ⟨r.sendAio, dl⟩
  id : (s.ctx k).wired = true → ∃ n, s.alias.idxOf? h = some n ∧ r.id = some (wireHdr n)
  lp : (s.ctx k).wired = true → r.lastPipe < s.npipes ∧
    (k ∈ (s.pipe r.lastPipe).ctxs ∨ ((s.pipe r.lastPipe).closed = true ∧ ∀ q, k ∉ (s.pipe q).ctxs))
  cnt : r.txCount = (s.ctx k).wireCount
  ever : r.everRetry = (s.ctx k).everRetry
  dl : ∀ d, r.deadline = some d → d = (s.ctx k).retryTime
  clean : r.clean = true → (s.ctx k).retryAtSend = (s.ctx k).retry
  need : r.needTx = true → k ∈ s.sendQueue
  early : k ∈ s.sendQueue → (s.ctx k).wired = true → r.needTx = false → ∀ d, r.deadline = some d → d ≤ s.now
  over : j.tickStable = true → 0 < j.tick → (s.ctx k).wired = true → r.clean = true → 0 < (s.ctx k).retry →
    ∀ d, r.deadline = some d →
      r.txSince = true ∨ k ∈ s.sendQueue ∨ ∃ T, s.tickAt = some T ∧ T ≤ d + j.tick.toNat

/-- context `k` of the model vs the judge's record `cj` of it -/
structure RCx (s : State) (j : J) (k : Nat) (cj : CJ) : Prop where
  opened : cj.opened = (s.ctx k).live
  retry : (s.ctx k).live = true → cj.retry = (s.ctx k).retry
  rw : cj.recvWait = (s.ctx k).recvAio.map (·.aio)
  stash : cj.stash = (s.ctx k).repMsg
  latched : cj.latched = (s.ctx k).connReset
  none : (s.ctx k).reqMsg = none → (s.ctx k).repMsg = none → cj.req = none
  ansd : (s.ctx k).repMsg.isSome = true → ∃ r, cj.req = some r ∧ r.answered = true ∧ r.wired = true
  req : ∀ h, (s.ctx k).reqMsg = some h → ∃ r, cj.req = some r ∧ RQ s j k h r

structure G (s : State) (j : J) : Prop where
  now : j.now = s.now
  idle : ∀ p, p ∈ j.idle ↔ p ∈ s.readyPipes
  busy : ∀ p, p ∈ j.busy ↔ (p < s.npipes ∧ (s.pipe p).closed = false ∧ (s.pipe p).busy.isSome = true)
  sock : j.sockRetry = s.sockRetry
  closed : j.closed = false
  seen : ∀ id b, (id, b) ∈ j.seen ↔ ∃ n h, s.alias[n]? = some h ∧ id = wireHdr n ∧ b = (s.msgs h).body
  tick : j.tick = s.retryTick
  tkle : j.tickStable = true → ∀ T, s.tickAt = some T → T ≤ s.now + j.tick.toNat
  tknv : j.tickStable = true → 0 < j.tick → s.tickNever = false
  nosend : j.anySend = false → (∀ k, (s.ctx k).reqMsg = none) ∧ s.tickAt = none ∧ s.tickNever = false
  stab : j.anySend = false → j.tickStable = true

structure M (pend : List Nat) (rest : List Ev) (s : State) (j : J) : Prop where
  mi : MI rest s
  g : G s j
  rc : ∀ k, k ∉ pend → RCx s j k (j.ctx k)
  rl : ∀ k, k ∈ pend → ∃ cj0, RCx s j k cj0 ∧ j.ctx k = lostC s.now cj0 ∧
    (∃ r, cj0.req = some r ∧ r.wired = true ∧ r.answered = false)

abbrev R (rest : List Ev) (s : State) (j : J) : Prop := M [] rest s j

end Nng.ReqJ
