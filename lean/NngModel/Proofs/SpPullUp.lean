/- nni_msg_pull_up (inproc) on the C17 message model -/
import NngModel.Model.SpStream
import NngModel.Proofs.MsgStep
namespace Nng.Sp
open Nng Nng.Msg

theorem msgPoke_ok (m : Msg.Msg) (h : MWF m) (o : Nat) (d : Bytes) (hin : o + d.length ≤ m.body.len) :
    MWF (msgPoke m o d).c ∧ (msgPoke m o d).c.hlen = m.hlen ∧ (msgPoke m o d).c.body.len = m.body.len ∧
    (msgPoke m o d).c.body.data = m.body.data.take o ++ d ++ m.body.data.drop (o + d.length) := by
  obtain ⟨w, dd⟩ := poke_data m.body h.body o d hin
  unfold msgPoke
  rw [if_pos hin]
  exact ⟨⟨w, h.hbuflen, h.hfits⟩, rfl, rfl, dd⟩

/-- nni_msg_pull_up never touches memory outside the two messages, and returns either NULL
    (the caller then drops the message) or a well-formed message with an empty header whose
    body is the old header followed by the old body. -/
theorem pullUp_spec (m : Msg.Msg) (h : MWF m) (refcnt : Nat) (fail : Option Nat)
    (hsz : m.body.len + m.hlen + 64 ≤ sizeMax) :
    (pullUp m refcnt fail).2 = true ∧
    ((pullUp m refcnt fail).1 = none ∨
     ∃ m', (pullUp m refcnt fail).1 = some m' ∧ MWF m' ∧ m'.header = [] ∧
        m'.body.data = m.header ++ m.body.data) := by
  have hb := h.body
  have hhl := header_length h
  have hdl := data_length hb
  have hhr : readAt m.hbuf 0 m.hlen = m.header := (header_eq_readAt m).symm
  have hbr : readAt m.body.buf m.body.off m.body.len = m.body.data := rfl
  have hin1 : inRange hdrCap 0 m.hlen = true := by
    rw [inRange_iff]; right; have := h.hfits; omega
  have hin2 : inRange m.body.cap m.body.off m.body.len = true := by
    rw [inRange_iff]; right; exact hb.fits
  unfold pullUp
  rw [hhr, hbr]
  by_cases hc : m.body.cap - m.body.len < m.hlen ∨ refcnt ≠ 1
  · rw [if_pos hc]
    obtain ⟨hs, ha⟩ := alloc_spec (m.body.len + m.hlen) (by omega) fail
    generalize alloc (m.body.len + m.hlen) fail = r at hs ha
    rcases ha with ⟨_, hnone, _⟩ | ⟨m2, hm2, _, hwf2, hl2, hlen2, hdat2⟩
    · simp only [hnone]; exact ⟨hs, Or.inl trivial⟩
    · simp only [hm2]
      have hd2l := data_length hwf2.body
      obtain ⟨w1, l1, n1, d1⟩ := msgPoke_ok m2 hwf2 0 m.header (by rw [hhl, hlen2]; omega)
      generalize (msgPoke m2 0 m.header).c = m3 at w1 l1 n1 d1
      obtain ⟨w2, l2, n2, d2⟩ := msgPoke_ok m3 w1 m.hlen m.body.data (by rw [hdl, n1, hlen2]; omega)
      generalize (msgPoke m3 m.hlen m.body.data).c = m4 at w2 l2 n2 d2
      refine ⟨by simp [hs, hin1, hin2, hlen2]; omega, Or.inr ⟨_, rfl, w2, ?_, ?_⟩⟩
      · simp [Msg.header, l2, l1, hl2]
      · rw [d2, d1]
        have hd1len : (List.take 0 m2.body.data ++ m.header ++ List.drop (0 + m.header.length) m2.body.data).length
            = m.body.len + m.hlen := by
          simp [hd2l, hlen2, hhl]; omega
        rw [List.take_append_of_le_length (by simp [hhl])]
        rw [List.drop_of_length_le (by rw [hd1len, hdl]; omega)]
        simp [← hhl]
  · rw [if_neg hc]
    obtain ⟨hs, ha⟩ := refines_insert m h m.header (fail != some 0)
    generalize msgInsert m m.header (fail != some 0) = r at hs ha
    rcases ha with ⟨hrv, _⟩ | ⟨hrv, hwf, habs⟩
    · have : (r.rv != 0) = true := by simp [hrv, Err.enomem]
      rw [if_pos this]; exact ⟨hs, Or.inl rfl⟩
    · have : ¬ (r.rv != 0) = true := by simp [hrv]
      rw [if_neg this]
      refine ⟨by simp [hs, hin1], Or.inr ⟨_, rfl, ⟨hwf.body, hwf.hbuflen, by simp⟩, by simp [Msg.header], ?_⟩⟩
      have := congrArg (fun a => a.body) habs
      simp only [abs_body] at this
      simp only []
      rw [this]

end Nng.Sp
