/- consequences of the invariants used by Props/C10Pfd.lean -/
import NngModel.Proofs.PfdTermStep
namespace Nng.Pfd
open Nng.PfdSpec

set_option hygiene false in
local macro "cs_cases" : tactic => `(tactic| (
  cases f with
  | idle =>
    cases op with
    | arm m => simp [callStep, touch, *]
    | close => cases hc : g.closing <;> simp [callStep, touch, *]
    | stop => cases hc : g.stopped <;> simp [callStep, touch, *]
    | fini => simp [callStep, touch, *]
    | free => simp [callStep, touch, *]
    | kick => simp [callStep, touch, *]
  | armCtl e rq w => cases w <;> simp [callStep, touch, *]
  | closeShut => simp [callStep, touch, *]
  | closeDel => by_cases ho : op = .stop <;> simp [callStep, touch, *]
  | stopClose => cases hc : g.closing <;> simp [callStep, touch, *]
  | stopLock => cases hc : g.mtx <;> simp [callStep, touch, *]
  | stopWrite => cases hc : g.onReap <;> simp [callStep, touch, syncRet, *]
  | stopSleep => simp [callStep, *]
  | stopChk => cases hm : g.mtx <;> cases hc : g.onReap <;> simp [callStep, touch, syncRet, *]))

theorem callStep_cbBegun (g : G) (t : Tid) (f : Frame) (op : Op) : (callStep g t f op).g.cbBegun = g.cbBegun := by
  cs_cases

theorem callStep_synced (g : G) (t : Tid) (f : Frame) (op : Op) (h : g.synced = true) : (callStep g t f op).g.synced = true := by
  cs_cases

/-- once the synchronising stop has returned, no step begins a callback -/
theorem synced_step {s : State} (hs : SInv s) (hk : KInv s) (hsy : s.g.synced = true) (ch : Choice) :
    (step s ch).g.synced = true ∧ (step s ch).g.cbBegun = s.g.cbBegun := by
  rcases step_cases s ch with e | ⟨f, op, r⟩ | r
  · rw [e]; exact ⟨hsy, rfl⟩
  · rw [r.hg]
    simp only [acct_synced, acct_cbBegun]
    exact ⟨callStep_synced _ _ _ _ hsy, callStep_cbBegun _ _ _ _⟩
  · have hnb := (hk.syn hsy).1
    simp only [pfdBusy, pfdCount] at hnb
    revert r
    generalize step s ch = s'
    intro r
    cases r with
    | harvest hpc hne => exact ⟨hsy, rfl⟩
    | dispNil hpc hb => exact ⟨hsy, rfl⟩
    | dispWake rest hpc hb => exact ⟨hsy, rfl⟩
    | dispPfd m rest hpc hb => exact ⟨hsy, rfl⟩
    | cbBegin hpc => exact absurd (Or.inl (by simp [hpc])) hnb
    | cbEnd hpc hr => exact ⟨hsy, rfl⟩
    | reap hpc hm => exact ⟨hsy, rfl⟩

theorem synced_run {s : State} (hs : SInv s) (hk : KInv s) (hsy : s.g.synced = true) (more : List Choice)
    (hr : respects s more = true) : (run s more).g.synced = true ∧ (run s more).g.cbBegun = s.g.cbBegun := by
  induction more generalizing s with
  | nil => exact ⟨hsy, rfl⟩
  | cons ch rest ih =>
    simp only [respects, Bool.and_eq_true] at hr
    have h1 := synced_step hs hk hsy ch
    have h2 := ih (sinv_step hs ch) (kinv_step hs hk ch hr.1) h1.1 hr.2
    exact ⟨h2.1, by rw [← h1.2]; exact h2.2⟩

theorem respects_append (s : State) (a b : List Choice) :
    respects s (a ++ b) = (respects s a && respects (run s a) b) := by
  induction a generalizing s with
  | nil => simp [respects, run]
  | cons ch rest ih =>
    simp only [List.cons_append, respects, ih, Bool.and_assoc]
    rfl

theorem run_append (s : State) (a b : List Choice) : run s (a ++ b) = run (run s a) b := by
  simp [run, List.foldl_append]

/-- total number of calls in the client programs and callback scripts -/
def nOps (progs scripts : List (List Op)) : Nat := (progs.map List.length).sum + (scripts.map List.length).sum

theorem W_le (K : Nat) (op : Op) : W K op ≤ 14 + K := by
  cases op <;> simp [W, CA, CW] <;> omega

theorem sumW_le (K : Nat) (l : List Op) : (l.map (W K)).sum ≤ (14 + K) * l.length := by
  induction l with
  | nil => simp
  | cons op l ih =>
    have := W_le K op
    simp only [List.map_cons, List.sum_cons, List.length_cons, Nat.mul_add, Nat.mul_one]
    omega

theorem sum_sumW_le (K : Nat) (ls : List (List Op)) :
    (ls.map fun l => (l.map (W K)).sum).sum ≤ (14 + K) * (ls.map List.length).sum := by
  induction ls with
  | nil => simp
  | cons l ls ih =>
    have := sumW_le K l
    simp only [List.map_cons, List.sum_cons, Nat.mul_add]
    omega

theorem mu_init (progs scripts : List (List Op)) :
    mu (init progs scripts) ≤ (14 + progs.length) * nOps progs scripts := by
  have h1 := sum_sumW_le progs.length progs
  have h2 := sum_sumW_le progs.length scripts
  have hc : ((progs.map fun p => ({ frame := .idle, prog := p, res := [] } : Client)).map (cw progs.length)) =
      progs.map fun l => (l.map (W progs.length)).sum := by
    simp [cw, progW_idle]
  simp only [mu, init, G.init, List.length_map, hc, nOps, Nat.mul_add]
  simp [gpot, reapW, pcW, progW]
  omega

end Nng.Pfd
