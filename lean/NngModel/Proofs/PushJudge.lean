/-
  The PUSH model satisfies the C06 trace predicate `pushJudge` (Spec/Pipeline.lean) on
  every event sequence with pairwise distinct message bodies: simulation between the model
  state and the judge state.
-/
import NngModel.Proofs.Push
import NngModel.Spec.Pipeline
namespace Nng.Push
open Nng Nng.Proto Nng.PipelineSpec

/-! ### the judge without the FIFO-admission clause

  `pushStep` = `pushStepOld` preceded by the clause `parkedOvertaken` (FIFO admission of parked
  senders).  The simulation below is carried out for `pushStepOld`; `step_fifo` shows separately
  that the model never trips the clause, `step_R` puts the two together. -/

def pushStepOld (j : PushJ) (ev : Ev) (outs : List Out) : PushJ :=
  if j.err.isSome then j else
  if notExecuted outs then j else
  match ev with
  | .recv .. => j
  | _ =>
  let (j, nb) := pushPre j ev outs
  let j := pushNewPipes outs j
  let j := (outs.filter isDone).foldl (pushOut nb) j
  let j := (outs.filter (fun o => !isDone o)).foldl (pushOut nb) j
  pushPost nb outs j

theorem pushStep_old {j : PushJ} {ev : Ev} {outs : List Out}
    (hf : parkedOvertaken j.pending outs = false) : pushStep j ev outs = pushStepOld j ev outs := by
  cases ev <;> simp only [pushStep, pushStepOld, hf, Bool.false_eq_true, if_false]

/-! ### pipe table lemmas -/

theorem getP_some {ps : List Pipe} {p : Nat} {pp : Pipe} (h : getP ps p = some pp) :
    pp ∈ ps ∧ pp.id = p := by
  unfold getP at h
  exact ⟨List.mem_of_find?_eq_some h, by simpa using List.find?_some h⟩

theorem getP_setP (ps : List Pipe) (pp' : Pipe) (p : Nat) :
    getP (setP ps pp') p = if p = pp'.id then (getP ps p).map (fun _ => pp') else getP ps p := by
  induction ps with
  | nil => simp [getP, setP]
  | cons q l ih =>
    simp only [getP, setP, List.map_cons, List.find?_cons] at ih ⊢
    by_cases h1 : q.id = pp'.id <;> by_cases h2 : p = pp'.id <;> simp [h1, h2] <;> grind

theorem getP_append (ps : List Pipe) (n : Pipe) (p : Nat) :
    getP (ps ++ [n]) p = (getP ps p).or (if n.id = p then some n else none) := by
  simp only [getP, List.find?_append, List.find?_cons, List.find?_nil]
  congr 1
  by_cases h : n.id = p
  · simp [h]
  · have : (n.id == p) = false := by simpa using h
    simp [this, h]

theorem setP_ids (ps : List Pipe) (pp' : Pipe) : (setP ps pp').map (·.id) = ps.map (·.id) := by
  simp only [setP, List.map_map]
  apply List.map_congr_left
  intro a _
  by_cases h : a.id = pp'.id <;> simp [h]

theorem setP_length (ps : List Pipe) (pp' : Pipe) : (setP ps pp').length = ps.length := by
  simp [setP]

theorem getP_lt {ps : List Pipe} (hids : ps.map (·.id) = List.range ps.length) {p : Nat} {pp : Pipe}
    (h : getP ps p = some pp) : p < ps.length := by
  have := getP_some h
  have h2 : pp.id ∈ ps.map (·.id) := List.mem_map.2 ⟨pp, this.1, rfl⟩
  rw [hids, List.mem_range] at h2; omega

theorem getP_snoc {ps : List Pipe} (hids : ps.map (·.id) = List.range ps.length) (n : Pipe)
    (hn : n.id = ps.length) (p : Nat) :
    getP (ps ++ [n]) p = if p = ps.length then some n else getP ps p := by
  rw [getP_append]
  by_cases hp : p = ps.length
  · have : getP ps p = none := by
      cases h : getP ps p with
      | none => rfl
      | some pp => have := getP_lt hids h; omega
    rw [this]; simp [hp, hn]
  · have : ¬ n.id = p := by omega
    simp [hp, this]

theorem setBusy_ids (ps : List Pipe) (p : Nat) (m : GMsg) :
    (setBusy ps p m).map (·.id) = ps.map (·.id) ∧ (setBusy ps p m).length = ps.length := by
  unfold setBusy; split
  · exact ⟨setP_ids _ _, setP_length _ _⟩
  · exact ⟨rfl, rfl⟩

theorem getP_setBusy_other (ps : List Pipe) (p q : Nat) (m : GMsg) (hq : q ≠ p) :
    getP (setBusy ps p m) q = getP ps q := by
  unfold setBusy; split
  · rename_i pp hget
    rw [getP_setP, if_neg]; simp only []; rw [(getP_some hget).2]; exact hq
  · rfl

theorem getP_setBusy_same (ps : List Pipe) (p : Nat) (m : GMsg) {pp : Pipe} (hget : getP ps p = some pp) :
    getP (setBusy ps p m) p = some { pp with busy := some m } := by
  unfold setBusy; rw [hget]; simp only []
  rw [getP_setP, if_pos (by simp [(getP_some hget).2]), hget]; rfl

/-- pipe `p` is connected, open and has a send in flight -/
def busyP (ps : List Pipe) (p : Nat) : Prop :=
  ∃ pp, getP ps p = some pp ∧ pp.closed = false ∧ pp.busy.isSome = true

/-- pipe `p` is connected, open and has no send in flight -/
def idleP (ps : List Pipe) (p : Nat) : Prop :=
  ∃ pp, getP ps p = some pp ∧ pp.closed = false ∧ pp.busy = none

/-- the pipe-table part of the invariant -/
structure Inv2 (s : State) : Prop where
  ids : s.pipes.map (·.id) = List.range s.pipes.length
  plSub : ∀ p ∈ s.pl, idleP s.pipes p
  plNodup : s.pl.Nodup

theorem inv2_init : Inv2 ({} : State) := by constructor <;> simp


theorem Inv2_frame {s s' : State} (h1 : s'.pl = s.pl) (h2 : s'.pipes = s.pipes) (h : Inv2 s) : Inv2 s' := by
  obtain ⟨a, b, c⟩ := h
  constructor
  · rw [h2]; exact a
  · rw [h1, h2]; exact b
  · rw [h1]; exact c

theorem idleP_setBusy_other {ps : List Pipe} {p q : Nat} {m : GMsg} (hq : q ≠ p) (h : idleP ps q) :
    idleP (setBusy ps p m) q := by
  unfold idleP; rw [getP_setBusy_other _ _ _ _ hq]; exact h

theorem closePipe_inv2 {s : State} (h : Inv2 s) (p : Nat) : Inv2 (closePipe s p).1 := by
  unfold closePipe getPipe
  split
  · exact h
  · rename_i pp hget
    split
    · exact h
    · obtain ⟨a, b, c⟩ := h
      have hpid := (getP_some hget).2
      constructor <;> simp only []
      · rw [setP_ids, setP_length]; exact a
      · intro q hq
        have hq' := List.mem_filter.1 hq
        have hne : q ≠ p := by simpa using hq'.2
        unfold idleP; rw [getP_setP, if_neg (by simpa [hpid] using hne)]; exact b q hq'.1
      · exact c.sublist List.filter_sublist

theorem closeAll_inv2 (l : List Nat) : ∀ {s : State}, Inv2 s → Inv2 (closeAll s l).1 := by
  induction l with
  | nil => intro s h; exact h
  | cons a l ih => intro s h; exact ih (closePipe_inv2 h a)

theorem pipeReady_inv2 {s : State} (h : Inv2 s) (p : Nat) (hp : idleP s.pipes p) (hnp : p ∉ s.pl) :
    Inv2 (pipeReady s p).1 := by
  have hcore : Inv2 (pipeReadyCore s p).1 := by
    obtain ⟨a, b, c⟩ := h
    have hsb : ∀ m, Inv2 { s with pipes := setBusy s.pipes p m } := by
      intro m
      constructor <;> simp only []
      · rw [(setBusy_ids _ _ _).1, (setBusy_ids _ _ _).2]; exact a
      · intro q hq; exact idleP_setBusy_other (fun h => hnp (h ▸ hq)) (b q hq)
      · exact c
    unfold pipeReadyCore
    split
    · split
      · exact Inv2_frame (s := { s with pipes := setBusy s.pipes p _ }) rfl rfl (hsb _)
      · exact Inv2_frame (s := { s with pipes := setBusy s.pipes p _ }) rfl rfl (hsb _)
    · split
      · exact Inv2_frame (s := { s with pipes := setBusy s.pipes p _ }) rfl rfl (hsb _)
      · constructor <;> simp only []
        · exact a
        · intro q hq; rcases List.mem_append.1 hq with h | h
          · exact b q h
          · simp at h; subst h; exact hp
        · rw [List.nodup_append]; exact ⟨c, by simp, by intro x hx y hy; simp at hy; subst hy; exact fun h => hnp (h ▸ hx)⟩
  unfold pipeReady
  simp only []
  split
  · exact Inv2_frame (s := (pipeReadyCore s p).1) rfl rfl hcore
  · exact hcore


theorem pl_lt {s : State} (h : Inv2 s) {q : Nat} (hq : q ∈ s.pl) : q < s.pipes.length := by
  obtain ⟨pp, h1, _⟩ := h.plSub q hq
  exact getP_lt h.ids h1

theorem addPipe_inv2 {s : State} (h : Inv2 s) (n : Pipe) (hn : n.id = s.pipes.length) :
    Inv2 { s with pipes := s.pipes ++ [n] } := by
  have hsn := getP_snoc h.ids n hn
  constructor <;> simp only []
  · simp [h.ids, hn, List.range_succ]
  · intro q hq
    have := pl_lt h hq
    unfold idleP; rw [hsn, if_neg (by omega)]; exact h.plSub q hq
  · exact h.plNodup

theorem evPipeAdd_inv2 {s : State} (h : Inv2 s) (peer : Nat) : Inv2 (evPipeAdd s peer).1 := by
  unfold evPipeAdd
  split
  · exact addPipe_inv2 h _ rfl
  · refine pipeReady_inv2 (addPipe_inv2 h _ rfl) _ ?_ ?_
    · exact ⟨{ id := s.pipes.length, armed := true }, by rw [getP_snoc h.ids _ rfl]; simp, rfl, rfl⟩
    · intro hq; have := pl_lt h hq; omega

theorem evPipeDrop_inv2 {s : State} (h : Inv2 s) (p : Nat) : Inv2 (evPipeDrop s p).1 := by
  unfold evPipeDrop
  split
  · split
    · exact h
    · exact closePipe_inv2 h p
  · exact h

theorem evSendDone_inv2 {s : State} (h : Inv2 s) (p rv : Nat) : Inv2 (evSendDone s p rv).1 := by
  unfold evSendDone getPipe
  split
  · rename_i pp hget
    split
    · rename_i m hbusy
      split
      · exact h
      · rename_i hopen
        split
        · exact closePipe_inv2 h p
        · have hpid := (getP_some hget).2
          have hnp : p ∉ s.pl := by
            intro hp; obtain ⟨pp1, h1, _, h3⟩ := h.plSub p hp
            rw [hget] at h1; cases h1; simp [hbusy] at h3
          refine pipeReady_inv2 ?_ p ?_ hnp
          · constructor <;> simp only []
            · rw [setP_ids, setP_length]; exact h.ids
            · intro q hq
              have hne : q ≠ p := fun hh => hnp (hh ▸ hq)
              unfold idleP; rw [getP_setP, if_neg (by simpa [hpid] using hne)]; exact h.plSub q hq
            · exact h.plNodup
          · refine ⟨{ pp with busy := none }, ?_, by simpa using hopen, rfl⟩
            rw [getP_setP, if_pos (by simp [hpid]), hget]; rfl
    · exact h
  · exact h

theorem evRecvDone_inv2 {s : State} (h : Inv2 s) (p : Nat) (r : Except Nat Bytes) :
    Inv2 (evRecvDone s p r).1 := by
  unfold evRecvDone
  split
  · split
    · exact h
    · split
      · exact h
      · exact closePipe_inv2 h p
  · exact h

theorem evSend_inv2 {s : State} (h : Inv2 s) (a : Nat) (m : WMsg) (mode : Mode) :
    Inv2 (evSend s a m mode).1 := by
  unfold evSend
  split
  · exact h
  · split
    · rename_i p rest hpl
      obtain ⟨a1, b, c⟩ := h
      rw [hpl] at b c
      have hc := List.nodup_cons.1 c
      constructor <;> simp only []
      · rw [(setBusy_ids _ _ _).1, (setBusy_ids _ _ _).2]; exact a1
      · intro q hq
        exact idleP_setBusy_other (fun hh => hc.1 (hh ▸ hq)) (b q (List.mem_cons_of_mem _ hq))
      · exact hc.2
    · split
      · exact Inv2_frame (s := s) rfl rfl h
      · split
        · exact Inv2_frame (s := s) rfl rfl h
        · exact Inv2_frame (s := s) rfl rfl h

theorem failParked_frame (s : State) (a rv : Nat) :
    (failParked s a rv).1.pl = s.pl ∧ (failParked s a rv).1.pipes = s.pipes ∧
    (failParked s a rv).1.wq = s.wq ∧ (failParked s a rv).1.wire = s.wire ∧
    (failParked s a rv).1.wqCap = s.wqCap ∧ (failParked s a rv).1.dropped = s.dropped ∧
    (failParked s a rv).1.offered = s.offered := by
  unfold failParked; split <;> simp

theorem failParked_inv2 {s : State} (h : Inv2 s) (a rv : Nat) : Inv2 (failParked s a rv).1 :=
  Inv2_frame (failParked_frame s a rv).1 (failParked_frame s a rv).2.1 h

theorem failEach_inv2 (rv : Nat) (l : List Nat) : ∀ {s : State}, Inv2 s → Inv2 (failEach s rv l).1 := by
  induction l with
  | nil => intro s h; exact h
  | cons a l ih => intro s h; exact ih (failParked_inv2 h a rv)

theorem evClose_inv2 {s : State} (h : Inv2 s) : Inv2 (evClose s).1 := by
  unfold evClose
  have h1 : Inv2 { s with returned := s.returned ++ s.aq.map Parked.msg, aq := [] } := Inv2_frame (s := s) rfl rfl h
  have h2 := closeAll_inv2 (s.pipes.map (·.id)) h1
  exact Inv2_frame (s := (closeAll _ _).1) rfl rfl h2

theorem stepLive_inv2 {s : State} (h : Inv2 s) (ev : Ev) : Inv2 (stepLive s ev).1 := by
  cases ev <;> simp only [stepLive]
  case pipeAdd peer => exact evPipeAdd_inv2 h peer
  case pipeDrop p => exact evPipeDrop_inv2 h p
  case sendDone p rv => exact evSendDone_inv2 h p rv
  case recvDone p r => exact evRecvDone_inv2 h p r
  case send c a m mode => exact evSend_inv2 h a m mode
  case recv c a mode => unfold evRecv; split <;> exact h
  case cancel a => exact failParked_inv2 h a _
  case abort a rv => exact failParked_inv2 h a rv
  case advance ms => exact failEach_inv2 _ _ (Inv2_frame (s := s) rfl rfl h)
  case setopt c n t v =>
    split
    · unfold evSetBuf; split
      · exact h
      · exact Inv2_frame (s := s) rfl rfl h
    · exact h
  case getopt c n t => split <;> exact h
  case close => exact evClose_inv2 h
  all_goals exact h

theorem stepIdle_inv2 {s : State} (h : Inv2 s) (ev : Ev) : Inv2 (stepIdle s ev).1 := by
  cases ev <;> simp only [stepIdle] <;> first | exact h | exact Inv2_frame (s := s) rfl rfl h

theorem step_inv2 {s : State} (h : Inv2 s) (ev : Ev) : Inv2 (step s ev).1 := by
  unfold step
  split
  · split
    · exact Inv2_frame (s := s) rfl rfl h
    · exact stepIdle_inv2 h _
  · split
    · exact stepIdle_inv2 h _
    · exact stepLive_inv2 h ev


/-! ### the judge's "accepted, not yet wired" list versus the model's send buffer -/

/-- `UR D u w`: the judge's list `u` is the buffer `w` (in order, any flag) interleaved with
    entries of messages already discarded by a shrink (`D`), which are all flagged -/
inductive UR (D : List GMsg) : List Acc → List GMsg → Prop
  | nil : UR D [] []
  | keep (x : GMsg) (b : Bool) {u : List Acc} {w : List GMsg} : UR D u w → UR D (⟨x.m, b⟩ :: u) (x :: w)
  | skip (y : GMsg) (hy : y ∈ D) {u : List Acc} {w : List GMsg} : UR D u w → UR D (⟨y.m, true⟩ :: u) w

def flagAll (u : List Acc) : List Acc := u.map (fun a => { a with shrinkSince := true })

theorem UR.mono {D D' : List GMsg} (hD : ∀ y ∈ D, y ∈ D') {u : List Acc} {w : List GMsg} (h : UR D u w) :
    UR D' u w := by
  induction h with
  | nil => exact .nil
  | keep x b _ ih => exact .keep x b ih
  | skip y hy _ ih => exact .skip y (hD y hy) ih

theorem UR.snoc {D : List GMsg} {u : List Acc} {w : List GMsg} (h : UR D u w) (x : GMsg) :
    UR D (u ++ [⟨x.m, false⟩]) (w ++ [x]) := by
  induction h with
  | nil => exact .keep x false .nil
  | keep x' b _ ih => exact .keep x' b ih
  | skip y hy _ ih => exact .skip y hy ih

theorem UR.shrink {D : List GMsg} {u : List Acc} {w : List GMsg} (h : UR D u w) :
    ∀ c, UR (D ++ w.drop c) (flagAll u) (w.take c) := by
  induction h with
  | nil => intro c; simpa [flagAll] using (UR.nil : UR (D ++ []) [] [])
  | keep x b _ ih =>
    rename_i u w
    intro c
    cases c with
    | zero =>
      have := ih 0
      simp only [List.drop_zero, List.take_zero, flagAll, List.map_cons] at this ⊢
      exact .skip x (by simp) (this.mono (by intro y hy; simp at hy ⊢; rcases hy with h | h <;> simp [h]))
    | succ c =>
      have := ih c
      simp only [List.drop_succ_cons, List.take_succ_cons, flagAll, List.map_cons] at this ⊢
      exact .keep x true this
  | skip y hy _ ih =>
    intro c
    have := ih c
    simp only [flagAll, List.map_cons] at this ⊢
    exact .skip y (by simp [hy]) this

theorem UR.nil_flagged {D : List GMsg} {u : List Acc} {w : List GMsg} (h : UR D u w) (hw : w = []) :
    ∀ e ∈ u, e.shrinkSince = true := by
  induction h with
  | nil => simp
  | keep x b _ _ => simp at hw
  | skip y hy _ ih => intro e he; rcases List.mem_cons.1 he with rfl | h'; rfl; exact ih hw e h'

theorem UR.live_len {D : List GMsg} {u : List Acc} {w : List GMsg} (h : UR D u w) :
    (u.filter (fun a => !a.shrinkSince)).length ≤ w.length := by
  induction h with
  | nil => simp
  | keep x b _ ih => simp only [List.filter_cons]; split <;> simp <;> omega
  | skip y hy _ ih => simpa [List.filter_cons] using ih

/-- wiring the head of the buffer: the judge finds it behind flagged entries only -/
theorem UR.pop {D : List GMsg} {u : List Acc} {w0 : List GMsg} (h : UR D u w0) :
    ∀ {x : GMsg} {w : List GMsg}, w0 = x :: w → (∀ y ∈ D, y.m ≠ x.m) →
    ∃ i, u.findIdx? (·.m == x.m) = some i ∧ ((u.take i).any (fun a => !a.shrinkSince)) = false ∧
      UR D (u.drop (i + 1)) w := by
  induction h with
  | nil => intro x w hw; simp at hw
  | keep x' b hrest _ =>
    intro x w hw _
    simp only [List.cons.injEq] at hw
    obtain ⟨rfl, rfl⟩ := hw
    exact ⟨0, by simp [List.findIdx?_cons], by simp, by simpa using hrest⟩
  | skip y hy _ ih =>
    intro x w hw hD
    obtain ⟨i, h1, h2, h3⟩ := ih hw hD
    refine ⟨i + 1, ?_, ?_, ?_⟩
    · have : (y.m == x.m) = false := by simpa using hD y hy
      simp [List.findIdx?_cons, this, h1]
    · simpa [List.take_succ_cons] using h2
    · simpa using h3


/-! ### the judge on single outputs -/

theorem pushOut_accept {nb : Option (Nat × WMsg)} {j : PushJ} {a : Nat} {m : WMsg} {msg : Option WMsg}
    (h : (∃ a', j.pending.find? (·.1 == a) = some (a', m)) ∨
         (j.pending.find? (·.1 == a) = none ∧ nb = some (a, m))) :
    pushOut nb j (.done a 0 msg false) =
      { j with pending := j.pending.filter (·.1 != a), unsent := j.unsent ++ [⟨m, false⟩] } := by
  unfold pushOut
  rcases h with ⟨a', h⟩ | ⟨h, rfl⟩
  · simp [h]
  · simp [h]

theorem pushOut_fail {nb : Option (Nat × WMsg)} {j : PushJ} {a rv : Nat} {m : WMsg} {msg : Option WMsg}
    (hrv : rv ≠ 0)
    (h : (∃ a', j.pending.find? (·.1 == a) = some (a', m)) ∨
         (j.pending.find? (·.1 == a) = none ∧ nb = some (a, m))) :
    pushOut nb j (.done a rv msg true) = { j with pending := j.pending.filter (·.1 != a) } := by
  unfold pushOut
  rcases h with ⟨a', h⟩ | ⟨h, rfl⟩
  · simp [h, hrv]
  · simp [h, hrv]

theorem pushOut_psend {nb : Option (Nat × WMsg)} {j : PushJ} {p i : Nat} {m : WMsg}
    (h1 : m ∉ j.wired) (h2 : p ∈ j.idle) (h3 : j.unsent.findIdx? (·.m == m) = some i)
    (h4 : ((j.unsent.take i).any (fun a => !a.shrinkSince)) = false) :
    pushOut nb j (.psend p m) =
      { j with unsent := j.unsent.drop (i + 1), wired := j.wired ++ [m],
               idle := j.idle.filter (· != p), busy := j.busy ++ [p] } := by
  unfold pushOut
  have h1' : j.wired.contains m = false := by simpa using h1
  have h2' : j.idle.contains p = true := by simpa using h2
  simp only [h1', h2', h3, h4]
  simp

theorem pushOut_pclosed (nb : Option (Nat × WMsg)) (j : PushJ) (p : Nat) :
    pushOut nb j (.pclosed p) = { j with idle := j.idle.filter (· != p), busy := j.busy.filter (· != p) } := rfl
theorem pushOut_rv (nb : Option (Nat × WMsg)) (j : PushJ) (n : Int) : pushOut nb j (.rv n) = j := rfl
theorem pushOut_rv2 (nb : Option (Nat × WMsg)) (j : PushJ) (n v : Int) : pushOut nb j (.rv2 n v) = j := rfl
theorem pushOut_pipe (nb : Option (Nat × WMsg)) (j : PushJ) (n : Int) : pushOut nb j (.pipe n) = j := rfl
theorem pushOut_parm (nb : Option (Nat × WMsg)) (j : PushJ) (n : Nat) : pushOut nb j (.parm n) = j := rfl
theorem pushOut_poll (nb : Option (Nat × WMsg)) (j : PushJ) (r w : Option Bool) : pushOut nb j (.poll r w) = j := rfl

/-! ### simulation relation -/

structure R (s : State) (j : PushJ) : Prop where
  err : j.err = none
  pending : j.pending = s.aq.map (fun pk => (pk.aio, pk.msg.m))
  unsent : UR s.dropped j.unsent s.wq
  wired : j.wired = s.wire.map (·.2.m)
  idle : ∀ p, p ∈ j.idle ↔ p ∈ s.pl
  busy : ∀ p, p ∈ j.busy ↔ busyP s.pipes p
  cap : j.cap = s.wqCap

theorem R_init : R ({} : State) ({} : PushJ) := by
  constructor <;> simp [busyP, getP]
  exact .nil

/-- all message bodies the model knows are pairwise distinct -/
def Dist (s : State) : Prop :=
  ((s.wire.map (·.2) ++ s.wq ++ s.dropped ++ s.returned ++ s.aq.map (·.msg)).map (·.m)).Nodup

theorem dist_of {s : State} (hI : Inv s) (hb : (s.offered.map (·.m)).Nodup) : Dist s := by
  have h1 : s.offered.Perm (s.accepted ++ s.returned ++ s.aq.map (·.msg)) := by
    rw [List.perm_iff_count]; intro x; have := hI.off x; simp only [List.count_append]; omega
  have h2 : s.accepted.Perm (s.wire.map (·.2) ++ s.wq ++ s.dropped) := by
    rw [List.perm_iff_count]; intro x; have := hI.cons x; simp only [List.count_append]; omega
  have h3 : s.offered.Perm (s.wire.map (·.2) ++ s.wq ++ s.dropped ++ s.returned ++ s.aq.map (·.msg)) :=
    h1.trans ((h2.append_right _).append_right _)
  exact (h3.map (·.m)).nodup_iff.1 hb

theorem pushQuiescent_ok {s : State} {j : PushJ} (hI : Inv s) (hR : R s j) : pushQuiescent j = j := by
  unfold pushQuiescent
  split
  · rfl
  · have hidle : j.idle ≠ [] → s.pl ≠ [] := by
      intro h; cases hj : j.idle with
      | nil => exact absurd hj h
      | cons p l => have := (hR.idle p).1 (by simp [hj]); intro h0; simp [h0] at this
    have c1 : (!j.idle.isEmpty && !(j.unsent.filter (fun a => !a.shrinkSince)).isEmpty) = false := by
      by_cases h : j.idle = []
      · simp [h]
      · have hwq := (hI.plEmpty (hidle h)).1
        have := hR.unsent.nil_flagged hwq
        have : j.unsent.filter (fun a => !a.shrinkSince) = [] := by
          rw [List.filter_eq_nil_iff]; intro e he; simp [this e he]
        simp [this]
    have c2 : ¬ (j.unsent.filter (fun a => !a.shrinkSince)).length > j.cap := by
      have := hR.unsent.live_len; have := hI.bound; rw [hR.cap]; omega
    have c3 : (!j.idle.isEmpty && !j.pending.isEmpty) = false := by
      by_cases h : j.idle = []
      · simp [h]
      · have haq := (hI.plEmpty (hidle h)).2
        simp [hR.pending, haq]
    simp only [c1, c2, c3]; simp


/-! ### the judge on one step -/

def procOuts (nb : Option (Nat × WMsg)) (outs : List Out) (j : PushJ) : PushJ :=
  (outs.filter (fun o => !isDone o)).foldl (pushOut nb) ((outs.filter isDone).foldl (pushOut nb) j)

theorem pushStep_eq {j : PushJ} {ev : Ev} {outs : List Out} (herr : j.err = none)
    (hne : notExecuted outs = false) (hnr : isRecv ev = false) :
    pushStepOld j ev outs =
      pushPost (pushPre j ev outs).2 outs
        (procOuts (pushPre j ev outs).2 outs (pushNewPipes outs (pushPre j ev outs).1)) := by
  unfold pushStepOld procOuts
  simp only [herr, hne]
  cases ev <;> first | (simp [isRecv] at hnr; done) | rfl

theorem pushStep_refused {j : PushJ} {ev : Ev} {outs : List Out} (hne : notExecuted outs = true) :
    pushStepOld j ev outs = j := by
  unfold pushStepOld; simp [hne]

def isPipeOut : Out → Bool | .pipe _ => true | _ => false

theorem pushNewPipes_fold (outs l : List Out) (j : PushJ) (h : ∀ o ∈ l, isPipeOut o = false) :
    l.foldl (newPipeStep outs) j = j := by
  induction l generalizing j with
  | nil => rfl
  | cons o l ih =>
    simp only [List.foldl_cons]
    have ho := h o (by simp)
    have : newPipeStep outs j o = j := by cases o <;> simp [isPipeOut] at ho <;> rfl
    rw [this]
    exact ih _ (fun o' ho' => h o' (by simp [ho']))

theorem pushNewPipes_none {outs : List Out} {j : PushJ} (h : ∀ o ∈ outs, isPipeOut o = false) :
    pushNewPipes outs j = j := pushNewPipes_fold outs outs j h

def tame : Out → Bool
  | .blocked _ => false
  | .other _ => false
  | _ => true

theorem tame_all {outs : List Out} (h : ∀ o ∈ outs, tame o = true) :
    notExecuted outs = false ∧ outs.any isBlocked = false := by
  constructor
  · unfold notExecuted; rw [List.any_eq_false]; intro o ho
    have := h o ho; cases o <;> simp_all [tame]
  · rw [List.any_eq_false]; intro o ho
    have := h o ho; cases o <;> simp_all [tame, isBlocked]

theorem tame_append {a b : List Out} (ha : ∀ o ∈ a, tame o = true) (hb : ∀ o ∈ b, tame o = true) :
    ∀ o ∈ a ++ b, tame o = true := by
  intro o ho; rcases List.mem_append.1 ho with h | h
  · exact ha o h
  · exact hb o h

/-- closing the step: the end-of-step checks pass in a state related to a model state -/
theorem finish {s' : State} {j' : PushJ} {nb : Option (Nat × WMsg)} {outs : List Out} (hI' : Inv s')
    (hR' : R s' j') (hb : outs.any isBlocked = false)
    (hnb : nb = none ∨ ∃ a m, nb = some (a, m) ∧ outs.any (isDoneOf a) = true) :
    R s' (pushPost nb outs j') := by
  have hq := pushQuiescent_ok hI' hR'
  unfold pushPost
  rcases hnb with rfl | ⟨a, m, rfl, hd⟩
  · simp only [hb, Bool.false_eq_true, if_false, hq]; exact hR'
  · simp only [hb, hd, Bool.false_eq_true, if_false, if_true, hq]; exact hR'


/-! ### handing a message to a pipe -/

theorem psend_step {D : List GMsg} {j : PushJ} {x : GMsg} {w : List GMsg} {p : Nat}
    (nb : Option (Nat × WMsg)) (hU : UR D j.unsent (x :: w)) (hD : ∀ y ∈ D, y.m ≠ x.m)
    (hw : x.m ∉ j.wired) (hp : p ∈ j.idle) :
    ∃ u', UR D u' w ∧ pushOut nb j (.psend p x.m) =
      { j with unsent := u', wired := j.wired ++ [x.m], idle := j.idle.filter (· != p), busy := j.busy ++ [p] } := by
  obtain ⟨i, h1, h2, h3⟩ := hU.pop rfl hD
  exact ⟨_, h3, pushOut_psend hw hp h1 h2⟩

theorem busyP_setBusy {ps : List Pipe} {p : Nat} {x : GMsg} (hp : idleP ps p) (q : Nat) :
    busyP (setBusy ps p x) q ↔ (busyP ps q ∨ q = p) := by
  obtain ⟨pp, h1, h2, h3⟩ := hp
  by_cases hq : q = p
  · subst hq
    constructor
    · intro _; right; rfl
    · intro _; exact ⟨_, getP_setBusy_same ps q x h1, h2, rfl⟩
  · unfold busyP; rw [getP_setBusy_other _ _ _ _ hq]; simp [hq]

/-- the relation after `x` went from the head of the buffer to pipe `p` -/
theorem R_wire {s s' : State} {j : PushJ} {p : Nat} {x : GMsg} {u' : List Acc} {P' : List (Nat × WMsg)}
    (herr : j.err = none) (hwired : j.wired = s.wire.map (·.2.m)) (hbusy : ∀ q, q ∈ j.busy ↔ busyP s.pipes q)
    (hcap : j.cap = s'.wqCap) (hidleP : idleP s.pipes p)
    (hU : UR s'.dropped u' s'.wq) (hwire : s'.wire = s.wire ++ [(p, x)])
    (hpipes : s'.pipes = setBusy s.pipes p x) (hpl : ∀ q, q ∈ s'.pl ↔ (q ∈ j.idle ∧ q ≠ p))
    (hpend : P' = s'.aq.map (fun pk => (pk.aio, pk.msg.m))) :
    R s' { j with pending := P', unsent := u', wired := j.wired ++ [x.m],
                  idle := j.idle.filter (· != p), busy := j.busy ++ [p] } := by
  constructor <;> simp only []
  · exact herr
  · exact hpend
  · exact hU
  · rw [hwired, hwire]; simp
  · intro q; rw [hpl q]; simp [List.mem_filter]
  · intro q; rw [hpipes, busyP_setBusy hidleP, ← hbusy q]; simp
  · exact hcap

theorem procOuts_pre {nb : Option (Nat × WMsg)} {pre O : List Out} {j : PushJ}
    (hpre : ∀ o ∈ pre, isDone o = false ∧ ∀ j, pushOut nb j o = j) :
    procOuts nb (pre ++ O) j = procOuts nb O j := by
  unfold procOuts
  have e1 : pre.filter isDone = [] := by
    rw [List.filter_eq_nil_iff]; intro o ho; simp [(hpre o ho).1]
  have e2 : pre.filter (fun o => !isDone o) = pre := by
    rw [List.filter_eq_self]; intro o ho; simp [(hpre o ho).1]
  have e3 : ∀ j, pre.foldl (pushOut nb) j = j := by
    intro j
    induction pre generalizing j with
    | nil => rfl
    | cons o l ih =>
      simp only [List.foldl_cons]
      rw [(hpre o (by simp)).2]
      exact ih (fun o' ho' => hpre o' (by simp [ho'])) (by
        rw [List.filter_eq_nil_iff]; intro o' ho'; simp [(hpre o' (by simp [ho'])).1]) (by
        rw [List.filter_eq_self]; intro o' ho'; simp [(hpre o' (by simp [ho'])).1]) j
  rw [List.filter_append, List.filter_append, e1, e2, List.nil_append, List.foldl_append, e3]


theorem R_frame {s s' : State} {j : PushJ} (h1 : s'.aq = s.aq) (h2 : s'.dropped = s.dropped) (h3 : s'.wq = s.wq)
    (h4 : s'.wire = s.wire) (h5 : s'.pl = s.pl) (h6 : s'.pipes = s.pipes) (h7 : s'.wqCap = s.wqCap)
    (hR : R s j) : R s' j := by
  obtain ⟨a, b, c, d, e, f, g⟩ := hR
  constructor
  · exact a
  · rw [h1]; exact b
  · rw [h2, h3]; exact c
  · rw [h4]; exact d
  · rw [h5]; exact e
  · rw [h6]; exact f
  · rw [h7]; exact g

theorem dist_facts {s : State} (hD : Dist s) :
    (∀ x ∈ s.wq, x.m ∉ s.wire.map (·.2.m) ∧ ∀ y ∈ s.dropped, y.m ≠ x.m) ∧
    (∀ pk ∈ s.aq, pk.msg.m ∉ s.wire.map (·.2.m) ∧ ∀ y ∈ s.dropped, y.m ≠ pk.msg.m) := by
  unfold Dist at hD
  simp only [List.map_append, List.map_map] at hD
  have hdis := fun a => (List.nodup_append.1 hD).2.2 a
  have hABCD := (List.nodup_append.1 hD).1
  have hABC := (List.nodup_append.1 hABCD).1
  have hdis2 := fun a => (List.nodup_append.1 hABC).2.2 a
  have hAB := (List.nodup_append.1 hABC).1
  have hdis3 := fun a => (List.nodup_append.1 hAB).2.2 a
  constructor
  · intro x hx
    constructor
    · intro hm; obtain ⟨y, hy, hym⟩ := List.mem_map.1 hm
      exact hdis3 (y.2.m) (List.mem_map.2 ⟨y, hy, rfl⟩) x.m (List.mem_map.2 ⟨x, hx, rfl⟩) hym
    · intro y hy hym
      exact hdis2 x.m (List.mem_append.2 (Or.inr (List.mem_map.2 ⟨x, hx, rfl⟩))) y.m
        (List.mem_map.2 ⟨y, hy, rfl⟩) hym.symm
  · intro pk hpk
    have hE : pk.msg.m ∈ List.map ((fun x => x.m) ∘ fun x => x.msg) s.aq := List.mem_map.2 ⟨pk, hpk, rfl⟩
    constructor
    · intro hm; obtain ⟨y, hy, hym⟩ := List.mem_map.1 hm
      refine hdis y.2.m ?_ pk.msg.m hE hym
      simp only [List.mem_append]
      exact Or.inl (Or.inl (Or.inl (List.mem_map.2 ⟨y, hy, rfl⟩)))
    · intro y hy hym
      refine hdis y.m ?_ pk.msg.m hE hym
      simp only [List.mem_append]
      exact Or.inl (Or.inr (List.mem_map.2 ⟨y, hy, rfl⟩))


theorem find_head {l : List Parked} {a : Parked} :
    ((a :: l).map (fun pk => (pk.aio, pk.msg.m))).find? (·.1 == a.aio) = some (a.aio, a.msg.m) := by
  simp [List.find?_cons]

theorem filter_head {l : List Parked} {a : Parked} (hn : ((a :: l).map (·.aio)).Nodup) :
    ((a :: l).map (fun pk => (pk.aio, pk.msg.m))).filter (·.1 != a.aio) = l.map (fun pk => (pk.aio, pk.msg.m)) := by
  simp only [List.map_cons, List.nodup_cons, List.mem_map, not_exists, not_and] at hn
  rw [List.map_cons, List.filter_cons]
  simp only [bne_self_eq_false, Bool.false_eq_true, if_false]
  rw [List.filter_eq_self]
  intro x hx; obtain ⟨pk, hpk, rfl⟩ := List.mem_map.1 hx
  simp; intro h; exact hn.1 pk hpk h

/-- push0_pipe_ready seen by the judge: `p` is idle for the judge but not yet in the ready list -/
theorem pipeReady_R {s : State} {j : PushJ} {p : Nat} {nb : Option (Nat × WMsg)} {pre : List Out}
    (hI : Inv s) (hD : Dist s) (hidleP : idleP s.pipes p) (hnp : p ∉ s.pl)
    (herr : j.err = none) (hpend : j.pending = s.aq.map (fun pk => (pk.aio, pk.msg.m)))
    (hU : UR s.dropped j.unsent s.wq) (hwired : j.wired = s.wire.map (·.2.m))
    (hidle : ∀ q, q ∈ j.idle ↔ (q ∈ s.pl ∨ q = p)) (hbusy : ∀ q, q ∈ j.busy ↔ busyP s.pipes q)
    (hcap : j.cap = s.wqCap)
    (hpre : ∀ o ∈ pre, isDone o = false ∧ ∀ j, pushOut nb j o = j) :
    R (pipeReady s p).1 (procOuts nb (pre ++ (pipeReady s p).2) j) := by
  rw [procOuts_pre hpre]
  have hpj : p ∈ j.idle := (hidle p).2 (Or.inr rfl)
  have hplj : ∀ q, q ∈ s.pl ↔ (q ∈ j.idle ∧ q ≠ p) := by
    intro q; rw [hidle q]; constructor
    · intro h; exact ⟨Or.inl h, fun hq => hnp (hq ▸ h)⟩
    · rintro ⟨h | h, hne⟩; exact h; exact absurd h hne
  have hcore : R (pipeReadyCore s p).1 (procOuts nb (pipeReadyCore s p).2 j) := by
    unfold pipeReadyCore
    split
    · rename_i m rest hwq
      have hdm := (dist_facts hD).1 m (by simp [hwq])
      split
      · rename_i a arest haq
        simp only [procOuts, List.filter, isDone, Bool.not_true, Bool.not_false, List.foldl_cons, List.foldl_nil]
        rw [pushOut_accept (m := a.msg.m) (Or.inl ⟨a.aio, by rw [hpend, haq]; exact find_head⟩)]
        have hU1 : UR s.dropped (j.unsent ++ [⟨a.msg.m, false⟩]) (m :: (rest ++ [a.msg])) := by
          have := hU.snoc a.msg; rw [hwq] at this; exact this
        obtain ⟨u', hU2, hps⟩ := psend_step (j := { j with
              pending := j.pending.filter (·.1 != a.aio),
              unsent := j.unsent ++ [⟨a.msg.m, false⟩] }) (p := p) nb hU1 hdm.2 (by rw [hwired]; exact hdm.1) hpj
        rw [hps]
        refine R_wire (s := s) herr hwired hbusy hcap hidleP hU2 rfl rfl hplj ?_
        rw [hpend, haq]; exact filter_head (by have := hI.aqNodup; rw [haq] at this; exact this)
      · rename_i haq
        simp only [procOuts, List.filter, isDone, Bool.not_true, Bool.not_false, List.foldl_cons, List.foldl_nil]
        obtain ⟨u', hU2, hps⟩ := psend_step (j := j) (p := p) nb (hwq ▸ hU) hdm.2 (by rw [hwired]; exact hdm.1) hpj
        rw [hps]
        have := R_wire (s := s) (s' := { s with wq := rest, wire := s.wire ++ [(p, m)], pipes := setBusy s.pipes p m })
          (P' := j.pending) herr hwired hbusy hcap hidleP hU2 rfl rfl hplj hpend
        exact this
    · rename_i hwq
      split
      · rename_i a arest haq
        have hda := (dist_facts hD).2 a (by simp [haq])
        simp only [procOuts, List.filter, isDone, Bool.not_true, Bool.not_false, List.foldl_cons, List.foldl_nil]
        rw [pushOut_accept (m := a.msg.m) (Or.inl ⟨a.aio, by rw [hpend, haq]; exact find_head⟩)]
        have hU1 : UR s.dropped (j.unsent ++ [⟨a.msg.m, false⟩]) (a.msg :: []) := by
          have := hU.snoc a.msg; rw [hwq] at this; exact this
        obtain ⟨u', hU2, hps⟩ := psend_step (j := { j with
              pending := j.pending.filter (·.1 != a.aio),
              unsent := j.unsent ++ [⟨a.msg.m, false⟩] }) (p := p) nb hU1 hda.2 (by rw [hwired]; exact hda.1) hpj
        rw [hps]
        refine R_wire (s := s) herr hwired hbusy hcap hidleP (hwq ▸ hU2) rfl rfl hplj ?_
        rw [hpend, haq]; exact filter_head (by have := hI.aqNodup; rw [haq] at this; exact this)
      · simp only [procOuts, List.filter, List.foldl_nil]
        constructor <;> (try simp only []) <;> first | assumption | skip
        intro q; rw [hidle q]; simp
  unfold pipeReady
  simp only []
  split
  · exact R_frame (s := (pipeReadyCore s p).1) rfl rfl rfl rfl rfl rfl rfl hcore
  · exact hcore


/-! ### pipe close, failed completions -/

theorem closePipe_R {s : State} {j : PushJ} (hR : R s j) (nb : Option (Nat × WMsg)) (p : Nat) :
    R (closePipe s p).1 ((closePipe s p).2.foldl (pushOut nb) j) := by
  unfold closePipe getPipe
  split
  · exact hR
  · rename_i pp hget
    split
    · exact hR
    · have hpid : pp.id = p := (getP_some hget).2
      obtain ⟨a, b, c, d, e, f, g⟩ := hR
      simp only [List.foldl_cons, List.foldl_nil, pushOut_pclosed]
      constructor <;> (try simp only []) <;> first | assumption | skip
      · intro q; simp only [List.mem_filter]; rw [e q]
      · intro q; simp only [List.mem_filter]; rw [f q]
        unfold busyP; rw [getP_setP]
        by_cases hq : q = p
        · subst hq; simp [hpid, hget]
        · simp [hq, hpid]

theorem closeAll_R (nb : Option (Nat × WMsg)) (l : List Nat) : ∀ {s : State} {j : PushJ}, R s j →
    R (closeAll s l).1 ((closeAll s l).2.foldl (pushOut nb) j) := by
  induction l with
  | nil => intro s j h; exact h
  | cons a l ih =>
    intro s j h
    simp only [closeAll, List.foldl_append]
    exact ih (closePipe_R h nb a)

theorem closePipe_outs (s : State) (p : Nat) :
    ∀ o ∈ (closePipe s p).2, isDone o = false ∧ tame o = true ∧ isPipeOut o = false := by
  unfold closePipe; split
  · simp
  · split <;> simp [isDone, tame, isPipeOut]

theorem closeAll_outs (l : List Nat) : ∀ (s : State),
    ∀ o ∈ (closeAll s l).2, isDone o = false ∧ tame o = true ∧ isPipeOut o = false := by
  induction l with
  | nil => intro s o ho; simp [closeAll] at ho
  | cons a l ih =>
    intro s o ho
    simp only [closeAll, List.mem_append] at ho
    rcases ho with ho | ho
    · exact closePipe_outs s a o ho
    · exact ih _ o ho

theorem closePipe_outs_open {s : State} {p : Nat} {pp : Pipe} (hget : getP s.pipes p = some pp)
    (hopen : pp.closed = false) : (closePipe s p).2 = [Out.pclosed p] := by
  unfold closePipe getPipe; simp [hget, hopen]

theorem procOuts_notDone {nb : Option (Nat × WMsg)} {outs : List Out} {j : PushJ}
    (h : ∀ o ∈ outs, isDone o = false) : procOuts nb outs j = outs.foldl (pushOut nb) j := by
  unfold procOuts
  have h1 : outs.filter isDone = [] := by
    rw [List.filter_eq_nil_iff]; intro o ho; simp [h o ho]
  have h2 : outs.filter (fun o => !isDone o) = outs := by
    rw [List.filter_eq_self]; intro o ho; simp [h o ho]
  rw [h1, h2]; rfl

theorem procOuts_allDone {nb : Option (Nat × WMsg)} {outs : List Out} {j : PushJ}
    (h : ∀ o ∈ outs, isDone o = true) : procOuts nb outs j = outs.foldl (pushOut nb) j := by
  unfold procOuts
  have h1 : outs.filter isDone = outs := by
    rw [List.filter_eq_self]; intro o ho; simp [h o ho]
  have h2 : outs.filter (fun o => !isDone o) = [] := by
    rw [List.filter_eq_nil_iff]; intro o ho; simp [h o ho]
  rw [h1, h2]; rfl

theorem find_filter_pending {l : List Parked} {a : Nat} {pk : Parked} (hf : l.find? (·.aio == a) = some pk) :
    (l.map (fun pk => (pk.aio, pk.msg.m))).find? (·.1 == a) = some (pk.aio, pk.msg.m) ∧
    (l.map (fun pk => (pk.aio, pk.msg.m))).filter (·.1 != a) =
      (l.filter (·.aio != a)).map (fun pk => (pk.aio, pk.msg.m)) := by
  constructor
  · rw [List.find?_map]; simp only [Function.comp_def]; rw [hf]; rfl
  · rw [List.filter_map]; rfl

theorem failParked_R {s : State} {j : PushJ} (hR : R s j) (nb : Option (Nat × WMsg)) (a rv : Nat)
    (hrv : rv ≠ 0) : R (failParked s a rv).1 ((failParked s a rv).2.foldl (pushOut nb) j) := by
  unfold failParked
  split
  · rename_i pk hf
    obtain ⟨a1, b, c, d, e, f, g⟩ := hR
    have := find_filter_pending hf
    simp only [List.foldl_cons, List.foldl_nil]
    rw [pushOut_fail (m := pk.msg.m) hrv (Or.inl ⟨pk.aio, by rw [b]; exact this.1⟩)]
    constructor <;> (try simp only []) <;> first | assumption | skip
    rw [b]; exact this.2
  · exact hR

theorem failEach_R (nb : Option (Nat × WMsg)) (rv : Nat) (hrv : rv ≠ 0) (l : List Nat) :
    ∀ {s : State} {j : PushJ}, R s j → R (failEach s rv l).1 ((failEach s rv l).2.foldl (pushOut nb) j) := by
  induction l with
  | nil => intro s j h; exact h
  | cons a l ih =>
    intro s j h
    simp only [failEach, List.foldl_append]
    exact ih (failParked_R h nb a rv hrv)

theorem failParked_outs (s : State) (a rv : Nat) :
    ∀ o ∈ (failParked s a rv).2, tame o = true ∧ isDone o = true ∧ isPipeOut o = false := by
  unfold failParked; split <;> simp [tame, isDone, isPipeOut]

theorem failEach_outs (rv : Nat) (l : List Nat) :
    ∀ (s : State), ∀ o ∈ (failEach s rv l).2, tame o = true ∧ isDone o = true ∧ isPipeOut o = false := by
  induction l with
  | nil => intro s o ho; simp [failEach] at ho
  | cons a l ih =>
    intro s o ho
    simp only [failEach, List.mem_append] at ho
    rcases ho with ho | ho
    · exact failParked_outs s a rv o ho
    · exact ih _ o ho

/-- cancel / abort / timer expiry: a batch of failed completions -/
theorem failBatch_R {s : State} {j : PushJ} {ev : Ev} (hR : R s j) (rv : Nat) (hrv : rv ≠ 0) (l : List Nat)
    (hI' : Inv (failEach s rv l).1) (hnr : isRecv ev = false)
    (hpre : pushPre j ev (failEach s rv l).2 = (j, none)) :
    R (failEach s rv l).1 (pushStepOld j ev (failEach s rv l).2) := by
  have ho := failEach_outs rv l s
  rw [pushStep_eq hR.err (tame_all (fun o h => (ho o h).1)).1 hnr, hpre]
  refine finish hI' ?_ (tame_all (fun o h => (ho o h).1)).2 (Or.inl rfl)
  simp only []
  rw [pushNewPipes_none (fun o h => (ho o h).2.2), procOuts_allDone (fun o h => (ho o h).2.1)]
  exact failEach_R none rv hrv l hR


/-! ### events -/

theorem step_plain {s : State} {j : PushJ} {ev : Ev} {outs : List Out} (hI : Inv s) (hR : R s j)
    (hne : notExecuted outs = false) (hnr : isRecv ev = false)
    (hpre : pushPre j ev outs = (j, none)) (hnp : ∀ o ∈ outs, isPipeOut o = false)
    (hproc : procOuts none outs j = j) (hb : outs.any isBlocked = false) : pushStepOld j ev outs = j := by
  rw [pushStep_eq hR.err hne hnr, hpre]
  simp only [pushNewPipes_none hnp, hproc]
  have := finish (nb := none) (outs := outs) hI hR hb (Or.inl rfl)
  unfold pushPost at this ⊢
  simp only [hb, Bool.false_eq_true, if_false, pushQuiescent_ok hI hR]

/-- an event that closes pipe `p` after printing `rv 0` -/
theorem rvClose_R {s : State} {j : PushJ} {ev : Ev} (hI : Inv s) (hR : R s j) (p : Nat)
    (hnr : isRecv ev = false) (hpre : ∀ outs, pushPre j ev outs = (j, none)) :
    R (closePipe s p).1 (pushStepOld j ev ([Out.rv 0] ++ (closePipe s p).2)) := by
  have ho := closePipe_outs s p
  have ht : ∀ o ∈ [Out.rv 0] ++ (closePipe s p).2, tame o = true :=
    tame_append (by simp [tame]) (fun o h => (ho o h).2.1)
  rw [pushStep_eq hR.err (tame_all ht).1 hnr, hpre]
  refine finish (closePipe_inv hI p) ?_ (tame_all ht).2 (Or.inl rfl)
  simp only []
  rw [pushNewPipes_none (by
    intro o h; rcases List.mem_append.1 h with h | h
    · simp at h; subst h; rfl
    · exact (ho o h).2.2)]
  rw [procOuts_notDone (by
    intro o h; rcases List.mem_append.1 h with h | h
    · simp at h; subst h; rfl
    · exact (ho o h).1)]
  rw [List.foldl_append]
  exact closePipe_R hR none p

theorem evPipeDrop_R {s : State} {j : PushJ} (hI : Inv s) (hR : R s j) (p : Nat) :
    R (evPipeDrop s p).1 (pushStepOld j (.pipeDrop p) (evPipeDrop s p).2) := by
  unfold evPipeDrop
  split
  · split
    · rw [step_plain hI hR (by simp [notExecuted]) rfl rfl (by simp [isPipeOut]) rfl (by simp [isBlocked])]; exact hR
    · exact rvClose_R hI hR p rfl (fun _ => rfl)
  · rw [step_plain hI hR (by simp [notExecuted]) rfl rfl (by simp [isPipeOut]) rfl (by simp [isBlocked])]; exact hR

theorem evRecvDone_R {s : State} {j : PushJ} (hI : Inv s) (hR : R s j) (p : Nat) (r : Except Nat Bytes) :
    R (evRecvDone s p r).1 (pushStepOld j (.recvDone p r) (evRecvDone s p r).2) := by
  unfold evRecvDone
  split
  · split
    · rw [step_plain hI hR (by simp [notExecuted]) rfl rfl (by simp [isPipeOut]) rfl (by simp [isBlocked])]; exact hR
    · split
      · rw [step_plain hI hR (by simp [notExecuted]) rfl rfl (by simp [isPipeOut]) rfl (by simp [isBlocked])]; exact hR
      · exact rvClose_R hI hR p rfl (fun _ => rfl)
  · rw [step_plain hI hR (by simp [notExecuted]) rfl rfl (by simp [isPipeOut]) rfl (by simp [isBlocked])]; exact hR

theorem pipeReady_outs (s : State) (p : Nat) :
    ∀ o ∈ (pipeReady s p).2, tame o = true ∧ isPipeOut o = false ∧ ∀ q, o ≠ Out.pclosed q := by
  unfold pipeReady pipeReadyCore
  split <;> split <;> simp [tame, isPipeOut]

theorem Dist_frame {s s' : State} (h1 : s'.aq = s.aq) (h2 : s'.dropped = s.dropped) (h3 : s'.wq = s.wq)
    (h4 : s'.wire = s.wire) (h5 : s'.returned = s.returned) (hD : Dist s) : Dist s' := by
  unfold Dist at hD ⊢; rw [h1, h2, h3, h4, h5]; exact hD

theorem evSendDone_R {s : State} {j : PushJ} (hI : Inv s) (hI2 : Inv2 s) (hD : Dist s) (hR : R s j)
    (p rv : Nat) : R (evSendDone s p rv).1 (pushStepOld j (.sendDone p rv) (evSendDone s p rv).2) := by
  have hplain : pushStepOld j (.sendDone p rv) [Out.rv (-1)] = j :=
    step_plain hI hR (by simp [notExecuted]) rfl (by simp [pushPre]) (by simp [isPipeOut]) rfl (by simp [isBlocked])
  unfold evSendDone getPipe
  split
  · rename_i pp hget
    split
    · rename_i m hbusy
      split
      · rw [hplain]; exact hR
      · rename_i hopen
        have hopen' : pp.closed = false := by simpa using hopen
        have hpid := (getP_some hget).2
        split
        · rename_i hrv
          refine rvClose_R hI hR p rfl (fun outs => ?_)
          have : (rv == 0) = false := by simpa using hrv
          simp [pushPre, this]
        · rename_i hrv
          have hrv0 : rv = 0 := by simpa using hrv
          subst hrv0
          have hpb : p ∈ j.busy := (hR.busy p).2 ⟨pp, hget, hopen', by simp [hbusy]⟩
          have hnp : p ∉ s.pl := by
            intro hp; obtain ⟨pp1, h1, _, h3⟩ := hI2.plSub p hp
            rw [hget] at h1; cases h1; simp [hbusy] at h3
          have hI0 : Inv { s with pipes := setP s.pipes { pp with busy := none } } := pipes_inv hI _
          have hI' := pipeReady_inv hI0 p
          have ho := pipeReady_outs { s with pipes := setP s.pipes { pp with busy := none } } p
          have ht : ∀ o ∈ [Out.rv 0] ++ (pipeReady { s with pipes := setP s.pipes { pp with busy := none } } p).2,
              tame o = true := tame_append (by simp [tame]) (fun o h => (ho o h).1)
          rw [pushStep_eq hR.err (tame_all ht).1 rfl]
          have hpre : pushPre j (.sendDone p 0)
              ([Out.rv 0] ++ (pipeReady { s with pipes := setP s.pipes { pp with busy := none } } p).2) =
              ({ j with busy := j.busy.filter (· != p), idle := j.idle ++ [p] }, none) := by
            simp [pushPre, hpb]
          rw [hpre]
          refine finish hI' ?_ (tame_all ht).2 (Or.inl rfl)
          simp only []
          rw [pushNewPipes_none (by
            intro o h; rcases List.mem_append.1 h with h | h
            · simp at h; subst h; rfl
            · exact (ho o h).2.1)]
          obtain ⟨a, b, c, d, e, f, g⟩ := hR
          refine pipeReady_R (s := { s with pipes := setP s.pipes { pp with busy := none } })
            hI0 (Dist_frame (s := s) rfl rfl rfl rfl rfl hD) ?_ hnp a b c d ?_ ?_ g ?_
          · refine ⟨{ pp with busy := none }, ?_, hopen', rfl⟩
            rw [getP_setP, if_pos (by simp [hpid]), hget]; rfl
          · intro q; simp only [List.mem_append, List.mem_singleton]; rw [e q]
          · intro q; simp only [List.mem_filter]; rw [f q]
            unfold busyP; rw [getP_setP]
            by_cases hq : q = p
            · subst hq; simp [hpid, hget]
            · simp [hq, hpid]
          · intro o h; simp at h; subst h; exact ⟨rfl, fun _ => rfl⟩
    · rw [hplain]; exact hR
  · rw [hplain]; exact hR


theorem busyP_snoc {ps : List Pipe} (hids : ps.map (·.id) = List.range ps.length) (n : Pipe)
    (hn : n.id = ps.length) (hnb : n.busy = none) (q : Nat) : busyP (ps ++ [n]) q ↔ busyP ps q := by
  unfold busyP; rw [getP_snoc hids n hn]
  by_cases hq : q = ps.length
  · simp only [hq, if_true]
    constructor
    · rintro ⟨pp, h1, _, h3⟩; cases h1; simp [hnb] at h3
    · rintro ⟨pp, h1, _⟩; have := getP_lt hids h1; omega
  · simp [hq]

theorem pushNewPipes_cons_pipe (id : Nat) (tl : List Out) (j : PushJ) (htl : ∀ o ∈ tl, isPipeOut o = false)
    (hc : (Out.pipe (id : Int) :: tl).contains (Out.pclosed id) = false) :
    pushNewPipes (Out.pipe (id : Int) :: tl) j = { j with idle := j.idle ++ [id] } := by
  unfold pushNewPipes
  rw [List.foldl_cons, pushNewPipes_fold (Out.pipe (id : Int) :: tl) tl _ htl]
  simp only [newPipeStep, Int.toNat_natCast, hc]
  simp

theorem evPipeAdd_R {s : State} {j : PushJ} (hI : Inv s) (hI2 : Inv2 s) (hD : Dist s) (hR : R s j)
    (peer : Nat) : R (evPipeAdd s peer).1 (pushStepOld j (.pipeAdd peer) (evPipeAdd s peer).2) := by
  have hnidle : s.pipes.length ∉ j.idle := by
    intro h; have := pl_lt hI2 ((hR.idle _).1 h); omega
  have hnbusy : s.pipes.length ∉ j.busy := by
    intro h; obtain ⟨pp, h1, _⟩ := (hR.busy _).1 h; have := getP_lt hI2.ids h1; omega
  unfold evPipeAdd
  split
  · -- rejected peer
    have hI' : Inv { s with pipes := s.pipes ++ [{ id := s.pipes.length, closed := true }] } := pipes_inv hI _
    rw [pushStep_eq hR.err (by simp [notExecuted]) rfl]
    simp only [pushPre]
    refine finish hI' ?_ (by simp [isBlocked]) (Or.inl rfl)
    have hnp : pushNewPipes [Out.pipe (s.pipes.length : Int), Out.pclosed s.pipes.length] j = j := by
      simp [pushNewPipes, newPipeStep]
    rw [hnp]
    simp only [procOuts, List.filter, isDone, Bool.not_false, List.foldl_cons, List.foldl_nil, pushOut_pipe,
      pushOut_pclosed]
    obtain ⟨a, b, c, d, e, f, g⟩ := hR
    constructor <;> (try simp only []) <;> first | assumption | skip
    · intro q; simp only [List.mem_filter]; rw [← e q]
      constructor
      · exact fun h => h.1
      · intro h; exact ⟨h, by simp; intro hq; exact hnidle (hq ▸ h)⟩
    · intro q; simp only [List.mem_filter]; rw [busyP_snoc hI2.ids _ rfl rfl, ← f q]
      constructor
      · exact fun h => h.1
      · intro h; exact ⟨h, by simp; intro hq; exact hnbusy (hq ▸ h)⟩
  · -- compatible peer: push0_pipe_start
    have hI0 : Inv { s with pipes := s.pipes ++ [{ id := s.pipes.length, armed := true }] } := pipes_inv hI _
    have hI20 := addPipe_inv2 hI2 { id := s.pipes.length, armed := true } rfl
    have hI' := pipeReady_inv hI0 s.pipes.length
    have ho := pipeReady_outs { s with pipes := s.pipes ++ [{ id := s.pipes.length, armed := true }] } s.pipes.length
    have ht : ∀ o ∈ [Out.pipe (s.pipes.length : Int), Out.parm s.pipes.length] ++
        (pipeReady { s with pipes := s.pipes ++ [{ id := s.pipes.length, armed := true }] } s.pipes.length).2,
        tame o = true := tame_append (by simp [tame]) (fun o h => (ho o h).1)
    rw [pushStep_eq hR.err (tame_all ht).1 rfl]
    simp only [pushPre]
    refine finish hI' ?_ (tame_all ht).2 (Or.inl rfl)
    have hnp : pushNewPipes ([Out.pipe (s.pipes.length : Int), Out.parm s.pipes.length] ++
        (pipeReady { s with pipes := s.pipes ++ [{ id := s.pipes.length, armed := true }] } s.pipes.length).2) j =
        { j with idle := j.idle ++ [s.pipes.length] } := by
      have hnc : (Out.pipe (s.pipes.length : Int) :: ([Out.parm s.pipes.length] ++
          (pipeReady { s with pipes := s.pipes ++ [{ id := s.pipes.length, armed := true }] } s.pipes.length).2)).contains
          (Out.pclosed s.pipes.length) = false := by
        cases hc : (Out.pipe (s.pipes.length : Int) :: ([Out.parm s.pipes.length] ++
          (pipeReady { s with pipes := s.pipes ++ [{ id := s.pipes.length, armed := true }] } s.pipes.length).2)).contains
          (Out.pclosed s.pipes.length) with
        | false => rfl
        | true =>
          have : Out.pclosed s.pipes.length ∈ (pipeReady { s with pipes := s.pipes ++ [{ id := s.pipes.length, armed := true }] } s.pipes.length).2 := by
            simpa using hc
          exact absurd rfl ((ho _ this).2.2 _)
      exact pushNewPipes_cons_pipe s.pipes.length _ j (by
        intro o h; rcases List.mem_append.1 h with h | h
        · simp at h; subst h; rfl
        · exact (ho o h).2.1) hnc
    rw [hnp]
    obtain ⟨a, b, c, d, e, f, g⟩ := hR
    refine pipeReady_R (s := { s with pipes := s.pipes ++ [{ id := s.pipes.length, armed := true }] })
      hI0 (Dist_frame (s := s) rfl rfl rfl rfl rfl hD) ?_ ?_ a b c d ?_ ?_ g ?_
    · exact ⟨{ id := s.pipes.length, armed := true }, by rw [getP_snoc hI2.ids _ rfl]; simp, rfl, rfl⟩
    · intro hq; have := pl_lt hI2 hq; omega
    · intro q; simp only [List.mem_append, List.mem_singleton]; rw [e q]
    · intro q; rw [busyP_snoc hI2.ids _ rfl rfl]; exact f q
    · intro o h; simp at h; rcases h with rfl | rfl <;> exact ⟨rfl, fun _ => rfl⟩


theorem mem_offered {s : State} (hI : Inv s) {y : GMsg}
    (h : y ∈ s.wire.map (·.2) ∨ y ∈ s.wq ∨ y ∈ s.dropped) : y ∈ s.offered := by
  have h1 := hI.cons y
  have h2 := hI.off y
  rw [← List.count_pos_iff]
  rcases h with h | h | h <;> have := List.count_pos_iff.2 h <;> omega

theorem fresh_facts {s : State} (hI : Inv s) {m : WMsg} (hm : m ∉ s.offered.map (·.m)) :
    m ∉ s.wire.map (·.2.m) ∧ ∀ y ∈ s.dropped, y.m ≠ m := by
  constructor
  · intro h; obtain ⟨y, hy, rfl⟩ := List.mem_map.1 h
    exact hm (List.mem_map.2 ⟨y.2, mem_offered hI (Or.inl (List.mem_map.2 ⟨y, hy, rfl⟩)), rfl⟩)
  · intro y hy hym
    exact hm (List.mem_map.2 ⟨y, mem_offered hI (Or.inr (Or.inr hy)), hym⟩)

theorem pushPre_send (j : PushJ) (c : Option Nat) (a : Nat) (m : WMsg) (mode : Mode) (outs : List Out) :
    pushPre j (.send c a m mode) outs =
      if mode = .nb then (j, some (a, m)) else ({ j with pending := j.pending ++ [(a, m)] }, none) := by
  cases mode <;> simp [pushPre]

theorem evSend_R {s : State} {j : PushJ} (hI : Inv s) (hI2 : Inv2 s) (hR : R s j) (c : Option Nat) (a : Nat)
    (m : WMsg) (mode : Mode) (hm : m ∉ s.offered.map (·.m)) :
    R (evSend s a m mode).1 (pushStepOld j (.send c a m mode) (evSend s a m mode).2) := by
  have hI' := evSend_inv hI a m mode
  unfold evSend at hI' ⊢
  split
  · rw [pushStep_refused (by simp [notExecuted])]; exact hR
  · rename_i hbusy
    simp only [hbusy] at hI'
    have hbusy' : ∀ x ∈ s.aq, ¬ x.aio = a := by simpa using hbusy
    have hfind : j.pending.find? (·.1 == a) = none := by
      rw [hR.pending, List.find?_eq_none]; intro x hx
      obtain ⟨pk, hpk, rfl⟩ := List.mem_map.1 hx; simpa using hbusy' pk hpk
    have hfilt : j.pending.filter (·.1 != a) = j.pending := by
      rw [List.filter_eq_self]; intro x hx
      have := List.find?_eq_none.1 hfind x hx; simpa using this
    -- the judge's state after its bookkeeping, and the lookup of the aio's message
    have hlook : ∀ j0 nb, (j0, nb) = (if mode = .nb then (j, some (a, m)) else ({ j with pending := j.pending ++ [(a, m)] }, none)) →
        ((∃ a', j0.pending.find? (·.1 == a) = some (a', m)) ∨ (j0.pending.find? (·.1 == a) = none ∧ nb = some (a, m))) ∧
        j0.pending.filter (·.1 != a) = j.pending ∧ j0.unsent = j.unsent ∧ j0.wired = j.wired ∧ j0.idle = j.idle ∧
        j0.busy = j.busy ∧ j0.cap = j.cap ∧ j0.err = j.err ∧
        (nb = none ∨ ∃ a' m', nb = some (a', m') ∧ a' = a) := by
      intro j0 nb h
      by_cases hmode : mode = .nb
      · simp only [hmode, if_true, Prod.mk.injEq] at h
        obtain ⟨rfl, rfl⟩ := h
        exact ⟨Or.inr ⟨hfind, rfl⟩, hfilt, rfl, rfl, rfl, rfl, rfl, rfl, Or.inr ⟨a, m, rfl, rfl⟩⟩
      · simp only [hmode, if_false, Prod.mk.injEq] at h
        obtain ⟨rfl, rfl⟩ := h
        refine ⟨Or.inl ⟨a, ?_⟩, ?_, rfl, rfl, rfl, rfl, rfl, rfl, Or.inl rfl⟩
        · simp [List.find?_append, hfind]
        · simp [List.filter_append, hfilt]
    have hfr := fresh_facts hI hm
    split
    · -- a pipe is ready: straight to the wire
      rename_i p rest hpl
      simp only [hpl] at hI'
      have hwq : s.wq = [] := (hI.plEmpty (by simp [hpl])).1
      rw [pushStep_eq hR.err (by simp [notExecuted]) rfl, pushPre_send]
      generalize hj0 : (if mode = .nb then (j, some (a, m)) else
        (({ j with pending := j.pending ++ [(a, m)] } : PushJ), (none : Option (Nat × WMsg)))) = pr
      obtain ⟨j0, nb⟩ := pr
      obtain ⟨hl1, hl2, hl3, hl4, hl5, hl6, hl7, hl8, hl9⟩ := hlook j0 nb hj0.symm
      refine finish hI' ?_ (by simp [isBlocked]) ?_
      · simp only []
        rw [pushNewPipes_none (by simp [isPipeOut])]
        simp only [procOuts, List.filter, isDone, Bool.not_true, Bool.not_false, List.foldl_cons, List.foldl_nil]
        rw [pushOut_accept hl1]
        have hU1 : UR s.dropped (j0.unsent ++ [⟨m, false⟩]) ((⟨s.nsend, m⟩ : GMsg) :: []) := by
          have := hR.unsent.snoc ⟨s.nsend, m⟩; rw [hwq] at this; rw [hl3]; exact this
        have hpj : p ∈ j0.idle := by rw [hl5]; exact (hR.idle p).2 (by simp [hpl])
        obtain ⟨u', hU2, hps⟩ := psend_step (j := { j0 with
              pending := j0.pending.filter (·.1 != a),
              unsent := j0.unsent ++ [⟨m, false⟩] }) (p := p) nb hU1 hfr.2 (by rw [hl4, hR.wired]; exact hfr.1) hpj
        rw [hps]
        have hnd := hI2.plNodup; rw [hpl] at hnd
        refine R_wire (s := s) (hl8.trans hR.err) (by rw [hl4]; exact hR.wired) (by rw [hl6]; exact hR.busy)
          (by rw [hl7]; exact hR.cap) (hI2.plSub p (by simp [hpl])) (hwq ▸ hU2) rfl rfl ?_ (by rw [hl2]; exact hR.pending)
        intro q; rw [hl5, hR.idle q, hpl]
        constructor
        · intro h; exact ⟨List.mem_cons_of_mem _ h, fun hq => (List.nodup_cons.1 hnd).1 (hq ▸ h)⟩
        · rintro ⟨h, hne⟩; rcases List.mem_cons.1 h with h | h
          · exact absurd h hne
          · exact h
      · rcases hl9 with h | ⟨a', m', h, rfl⟩
        · exact Or.inl h
        · exact Or.inr ⟨a', m', h, by simp [isDoneOf]⟩
    · rename_i hpl
      clear hI'
      by_cases hroom : s.wq.length < s.wqCap
      · -- room in the send buffer
        have hev : evSend s a m mode =
            ({ s with nsend := s.nsend + 1, offered := s.offered ++ [⟨s.nsend, m⟩],
                      wq := s.wq ++ [⟨s.nsend, m⟩], accepted := s.accepted ++ [⟨s.nsend, m⟩],
                      writable := if full (s.wq ++ [⟨s.nsend, m⟩]) s.wqCap then false else s.writable },
              [.done a 0 none false]) := by
          unfold evSend; simp only [hbusy, hpl, hroom, Bool.false_eq_true, if_true, if_false]
        have hI' := evSend_inv hI a m mode
        rw [hev] at hI'
        simp only [hroom, if_true]
        rw [pushStep_eq hR.err (by simp [notExecuted]) rfl, pushPre_send]
        generalize hj0 : (if mode = .nb then (j, some (a, m)) else
          (({ j with pending := j.pending ++ [(a, m)] } : PushJ), (none : Option (Nat × WMsg)))) = pr
        obtain ⟨j0, nb⟩ := pr
        obtain ⟨hl1, hl2, hl3, hl4, hl5, hl6, hl7, hl8, hl9⟩ := hlook j0 nb hj0.symm
        refine finish hI' ?_ (by simp [isBlocked]) ?_
        · simp only []
          rw [pushNewPipes_none (by simp [isPipeOut])]
          simp only [procOuts, List.filter, isDone, Bool.not_true, List.foldl_cons, List.foldl_nil]
          rw [pushOut_accept hl1]
          obtain ⟨a1, b, c1, d, e, f, g⟩ := hR
          constructor <;> (try simp only []) <;> first | assumption | skip
          · exact hl8.trans a1
          · rw [hl2]; exact b
          · rw [hl3]; exact c1.snoc ⟨s.nsend, m⟩
          · rw [hl4]; exact d
          · intro q; rw [hl5]; exact e q
          · intro q; rw [hl6]; exact f q
          · rw [hl7]; exact g
        · rcases hl9 with h | ⟨a', m', h, rfl⟩
          · exact Or.inl h
          · exact Or.inr ⟨a', m', h, by simp [isDoneOf]⟩
      · simp only [hroom, if_false]
        cases hfn : failNow mode with
        | some rv =>
          -- immediate failure, message back
          have hev : evSend s a m mode =
              ({ s with nsend := s.nsend + 1, offered := s.offered ++ [⟨s.nsend, m⟩],
                        returned := s.returned ++ [⟨s.nsend, m⟩] },
                [.done a rv none true]) := by
            unfold evSend; simp only [hbusy, hpl, hroom, hfn, Bool.false_eq_true, if_true, if_false]
          have hI' := evSend_inv hI a m mode
          rw [hev] at hI'
          have hrv := failNow_ne_zero hfn
          simp only []
          rw [pushStep_eq hR.err (by simp [notExecuted]) rfl, pushPre_send]
          generalize hj0 : (if mode = .nb then (j, some (a, m)) else
            (({ j with pending := j.pending ++ [(a, m)] } : PushJ), (none : Option (Nat × WMsg)))) = pr
          obtain ⟨j0, nb⟩ := pr
          obtain ⟨hl1, hl2, hl3, hl4, hl5, hl6, hl7, hl8, hl9⟩ := hlook j0 nb hj0.symm
          refine finish hI' ?_ (by simp [isBlocked]) ?_
          · simp only []
            rw [pushNewPipes_none (by simp [isPipeOut])]
            simp only [procOuts, List.filter, isDone, Bool.not_true, List.foldl_cons, List.foldl_nil]
            rw [pushOut_fail hrv hl1]
            obtain ⟨a1, b, c1, d, e, f, g⟩ := hR
            constructor <;> (try simp only []) <;> first | assumption | skip
            · exact hl8.trans a1
            · rw [hl2]; exact b
            · rw [hl3]; exact c1
            · rw [hl4]; exact d
            · intro q; rw [hl5]; exact e q
            · intro q; rw [hl6]; exact f q
            · rw [hl7]; exact g
          · rcases hl9 with h | ⟨a', m', h, rfl⟩
            · exact Or.inl h
            · exact Or.inr ⟨a', m', h, by simp [isDoneOf]⟩
        | none =>
          -- park the sender
          have hev : evSend s a m mode =
              ({ s with nsend := s.nsend + 1, offered := s.offered ++ [⟨s.nsend, m⟩],
                        aq := s.aq ++ [⟨a, ⟨s.nsend, m⟩, deadlineOf s.now mode⟩] }, []) := by
            unfold evSend; simp only [hbusy, hpl, hroom, hfn, Bool.false_eq_true, if_true, if_false]
          have hI' := evSend_inv hI a m mode
          rw [hev] at hI'
          have hmode : mode ≠ .nb := by intro h; subst h; simp [failNow] at hfn
          simp only []
          rw [pushStep_eq hR.err (by simp [notExecuted]) rfl, pushPre_send]
          simp only [hmode, if_false]
          refine finish hI' ?_ (by simp) (Or.inl rfl)
          rw [pushNewPipes_none (by simp)]
          simp only [procOuts, List.filter, List.foldl_nil]
          obtain ⟨a1, b, c1, d, e, f, g⟩ := hR
          constructor <;> (try simp only []) <;> first | assumption | skip
          rw [b]; simp


theorem UR.flag {D : List GMsg} {u : List Acc} {w : List GMsg} (h : UR D u w) : UR D (flagAll u) w := by
  induction h with
  | nil => exact .nil
  | keep x b _ ih => exact .keep x true ih
  | skip y hy _ ih => exact .skip y hy ih

theorem UR.flagged_drop {D : List GMsg} {u : List Acc} {w : List GMsg} (h : UR D u w)
    (hf : ∀ e ∈ u, e.shrinkSince = true) : UR (D ++ w) u [] := by
  induction h with
  | nil => simpa using (UR.nil : UR (D ++ []) [] [])
  | keep x b _ ih =>
    have hb : b = true := hf ⟨x.m, b⟩ (by simp)
    subst hb
    exact .skip x (by simp) ((ih (fun e he => hf e (by simp [he]))).mono (by
      intro y hy; simp at hy ⊢; rcases hy with h | h <;> simp [h]))
  | skip y hy _ ih =>
    exact .skip y (by simp [hy]) (ih (fun e he => hf e (by simp [he])))

theorem flagAll_flagged (u : List Acc) : ∀ e ∈ flagAll u, e.shrinkSince = true := by
  intro e he; obtain ⟨x, _, rfl⟩ := List.mem_map.1 he; rfl

theorem evSetBuf_R {s : State} {j : PushJ} (hI : Inv s) (hop : s.opened = true) (hR : R s j)
    (c : Option Nat) (name ty : String) (v : Int) (hsb : isSendBuf c name ty = true) :
    R (evSetBuf s v).1 (pushStepOld j (.setopt c name ty v) (evSetBuf s v).2) := by
  have hI' := evSetBuf_inv hI hop v
  unfold isSendBuf at hsb
  unfold evSetBuf at hI' ⊢
  split
  · rw [step_plain hI hR (by simp [notExecuted]) rfl (by simp [pushPre, Err.einval]) (by simp [isPipeOut])
      rfl (by simp [isBlocked])]
    exact hR
  · rename_i hv
    simp only [hv, if_false] at hI'
    rw [pushStep_eq hR.err (by simp [notExecuted]) rfl]
    have hpre : pushPre j (.setopt c name ty v) [Out.rv 0] =
        ({ j with cap := v.toNat,
                  unsent := if v.toNat < j.cap then flagAll j.unsent else j.unsent }, none) := by
      simp only [pushPre, hsb, List.contains_cons, beq_self_eq_true, Bool.true_or, Bool.and_self, if_true, flagAll]
    rw [hpre]
    refine finish hI' ?_ (by simp [isBlocked]) (Or.inl rfl)
    simp only []
    rw [pushNewPipes_none (by simp [isPipeOut])]
    simp only [procOuts, List.filter, isDone, Bool.not_false, List.foldl_cons, List.foldl_nil, pushOut_rv]
    obtain ⟨a1, b, c1, d, e, f, g⟩ := hR
    constructor <;> (try simp only []) <;> first | assumption | skip
    by_cases hlt : v.toNat < j.cap
    · simp only [hlt, if_true]; exact c1.shrink v.toNat
    · simp only [hlt, if_false]
      have hlen : s.wq.length ≤ v.toNat := by have := hI.bound; rw [g] at hlt; omega
      rw [List.take_of_length_le hlen, List.drop_eq_nil_of_le hlen, List.append_nil]; exact c1


def keepsUnsent : Out → Bool
  | .pclosed _ => true
  | .done _ rv _ _ => rv != 0
  | _ => false

theorem fail_unsent (j : PushJ) (msg : String) : (j.fail msg).unsent = j.unsent := by
  unfold PushJ.fail; split <;> rfl

theorem pushOut_unsent (nb : Option (Nat × WMsg)) (j : PushJ) (o : Out) (h : keepsUnsent o = true) :
    (pushOut nb j o).unsent = j.unsent := by
  cases o <;> simp [keepsUnsent] at h
  case pclosed p => rfl
  case done a rv msg mb =>
    unfold pushOut
    simp only []
    split
    · exact fail_unsent _ _
    · have : (rv == 0) = false := by simpa using h
      simp only [this, Bool.false_eq_true, if_false]
      split
      · exact fail_unsent _ _
      · rfl

theorem foldl_unsent (nb : Option (Nat × WMsg)) (l : List Out) : ∀ (j : PushJ),
    (∀ o ∈ l, keepsUnsent o = true) → (l.foldl (pushOut nb) j).unsent = j.unsent := by
  induction l with
  | nil => intro j _; rfl
  | cons o l ih =>
    intro j h
    simp only [List.foldl_cons]
    rw [ih _ (fun o' ho' => h o' (by simp [ho'])), pushOut_unsent nb j o (h o (by simp))]

theorem closePipe_keeps (s : State) (p : Nat) : ∀ o ∈ (closePipe s p).2, keepsUnsent o = true := by
  unfold closePipe; split
  · simp
  · split <;> simp [keepsUnsent]

theorem closeAll_keeps (l : List Nat) : ∀ (s : State), ∀ o ∈ (closeAll s l).2, keepsUnsent o = true := by
  induction l with
  | nil => intro s o ho; simp [closeAll] at ho
  | cons a l ih =>
    intro s o ho
    simp only [closeAll, List.mem_append] at ho
    rcases ho with ho | ho
    · exact closePipe_keeps s a o ho
    · exact ih _ o ho

theorem procOuts_split {nb : Option (Nat × WMsg)} {a b : List Out} {j : PushJ}
    (ha : ∀ o ∈ a, isDone o = true) (hb : ∀ o ∈ b, isDone o = false) :
    procOuts nb (a ++ b) j = b.foldl (pushOut nb) (a.foldl (pushOut nb) j) := by
  unfold procOuts
  have e1 : a.filter isDone = a := by rw [List.filter_eq_self]; intro o ho; exact ha o ho
  have e2 : b.filter isDone = [] := by rw [List.filter_eq_nil_iff]; intro o ho; simp [hb o ho]
  have e3 : a.filter (fun o => !isDone o) = [] := by
    rw [List.filter_eq_nil_iff]; intro o ho; simp [ha o ho]
  have e4 : b.filter (fun o => !isDone o) = b := by
    rw [List.filter_eq_self]; intro o ho; simp [hb o ho]
  rw [List.filter_append, List.filter_append, e1, e2, e3, e4]; simp

/-- push0_sock_close: every parked sender fails with NNG_ECLOSED, message back -/
theorem closeDones_R (nb : Option (Nat × WMsg)) (l : List Parked) : ∀ {s : State} {j : PushJ} {ret : List GMsg},
    R { s with aq := l } j → (l.map (·.aio)).Nodup →
    R { s with returned := ret, aq := [] }
      ((l.map fun pk => Out.done pk.aio Err.eclosed none true).foldl (pushOut nb) j) := by
  induction l with
  | nil => intro s j ret h _; exact R_frame (s := { s with aq := [] }) rfl rfl rfl rfl rfl rfl rfl h
  | cons x l ih =>
    intro s j ret h hn
    simp only [List.map_cons, List.foldl_cons]
    apply ih _ (List.nodup_cons.1 hn).2
    obtain ⟨a, b, c, d, e, f, g⟩ := h
    simp only [] at b
    rw [pushOut_fail (m := x.msg.m) (by simp [Err.eclosed]) (Or.inl ⟨x.aio, by rw [b]; exact find_head⟩)]
    constructor <;> (try simp only []) <;> first | assumption | skip
    rw [b]; exact filter_head hn

theorem evClose_R {s : State} {j : PushJ} (hI : Inv s) (hR : R s j) :
    R (evClose s).1 (pushStepOld j .close (evClose s).2) := by
  have hI' := evClose_inv hI
  have hd : ∀ o ∈ (s.aq.map fun pk => Out.done pk.aio Err.eclosed none true),
      isDone o = true ∧ tame o = true ∧ isPipeOut o = false := by
    intro o ho; obtain ⟨x, _, rfl⟩ := List.mem_map.1 ho; exact ⟨rfl, rfl, rfl⟩
  have hc := closeAll_outs (s.pipes.map (·.id)) { s with returned := s.returned ++ s.aq.map Parked.msg, aq := [] }
  have hR0 : R { s with aq := s.aq } { j with closed := true, unsent := flagAll j.unsent } := by
    obtain ⟨a, b, c, d, e, f, g⟩ := hR
    constructor <;> (try simp only []) <;> first | assumption | skip
    exact c.flag
  have hR1 := closeDones_R none s.aq (ret := s.returned ++ s.aq.map Parked.msg) hR0 hI.aqNodup
  have hR2 := closeAll_R none (s.pipes.map (·.id)) hR1
  unfold evClose at hI' ⊢
  simp only [] at hI' ⊢
  have htame := tame_all (tame_append (fun o ho => (hd o ho).2.1) (fun o ho => (hc o ho).2.1))
  rw [pushStep_eq hR.err htame.1 rfl]
  have hpre : ∀ outs, pushPre j .close outs = ({ j with closed := true, unsent := flagAll j.unsent }, none) := by
    intro outs; rfl
  rw [hpre]
  refine finish hI' ?_ htame.2 (Or.inl rfl)
  simp only []
  rw [pushNewPipes_none (by
    intro o h; rcases List.mem_append.1 h with h | h
    · exact (hd o h).2.2
    · exact (hc o h).2.2)]
  rw [procOuts_split (fun o ho => (hd o ho).1) (fun o ho => (hc o ho).1)]
  have hun : ((closeAll { s with returned := s.returned ++ s.aq.map Parked.msg, aq := [] } (s.pipes.map (·.id))).2.foldl
      (pushOut none) ((s.aq.map fun pk => Out.done pk.aio Err.eclosed none true).foldl (pushOut none)
        { j with closed := true, unsent := flagAll j.unsent })).unsent = flagAll j.unsent := by
    rw [foldl_unsent _ _ _ (closeAll_keeps _ _), foldl_unsent _ _ _ (by
      intro o ho; obtain ⟨x, _, rfl⟩ := List.mem_map.1 ho; simp [keepsUnsent, Err.eclosed])]
  obtain ⟨a, b, c, d, e, f, g⟩ := hR2
  constructor <;> (try simp only []) <;> first | assumption | skip
  refine c.flagged_drop ?_
  rw [hun]; exact flagAll_flagged _


/-! ### the whole step, the whole trace -/

def evBodies : Ev → List WMsg
  | .send _ _ m _ => [m]
  | _ => []

theorem failEach_one (s : State) (a rv : Nat) : failEach s rv [a] = failParked s a rv := by
  simp [failEach]

theorem stepLive_R {s : State} {j : PushJ} (hI : Inv s) (hI2 : Inv2 s) (hD : Dist s) (hop : s.opened = true)
    (hR : R s j) (ev : Ev) (ha : isAbort0 ev = false) (hfresh : ∀ m ∈ evBodies ev, m ∉ s.offered.map (·.m)) :
    R (stepLive s ev).1 (pushStepOld j ev (stepLive s ev).2) := by
  have plain : ∀ (ev : Ev) (o : Out), isRecv ev = false → (∀ outs, pushPre j ev outs = (j, none)) →
      tame o = true → isDone o = false → isPipeOut o = false → (∀ nb j, pushOut nb j o = j) →
      R s (pushStepOld j ev [o]) := by
    intro ev o h1 h2 h3 h4 h5 h6
    have ht := tame_all (outs := [o]) (by simpa using h3)
    rw [step_plain hI hR ht.1 h1 (h2 _) (by simpa using h5) (by simp [procOuts, List.filter, h4, h6]) ht.2]
    exact hR
  cases ev <;> simp only [stepLive]
  case openSock p r => rw [pushStep_refused (by simp [notExecuted])]; exact hR
  case pipeAdd peer => exact evPipeAdd_R hI hI2 hD hR peer
  case pipeDrop p => exact evPipeDrop_R hI hR p
  case sendDone p rv => exact evSendDone_R hI hI2 hD hR p rv
  case recvDone p r => exact evRecvDone_R hI hR p r
  case send c a m mode => exact evSend_R hI hI2 hR c a m mode (hfresh m (by simp [evBodies]))
  case recv c a mode =>
    have : ∀ outs, pushStepOld j (.recv c a mode) outs = j := by
      intro outs; unfold pushStepOld; split; rfl; split <;> rfl
    rw [this]; unfold evRecv; split <;> exact hR
  case cancel a =>
    rw [← failEach_one]
    exact failBatch_R hR _ (by simp [Err.ecanceled]) [a] (by rw [failEach_one]; exact failParked_inv hI a _) rfl rfl
  case abort a rv =>
    have hrv : rv ≠ 0 := by intro h; subst h; simp [isAbort0] at ha
    rw [← failEach_one]
    exact failBatch_R hR _ hrv [a] (by rw [failEach_one]; exact failParked_inv hI a _) rfl rfl
  case advance ms =>
    have hR0 : R { s with now := s.now + ms } j := R_frame (s := s) rfl rfl rfl rfl rfl rfl rfl hR
    exact failBatch_R hR0 _ (by simp [Err.etimedout]) _ (expire_inv (now_inv hI _)) rfl rfl
  case ctxOpen c => exact plain _ _ rfl (fun _ => rfl) rfl rfl rfl (fun _ _ => rfl)
  case ctxClose c => exact plain _ _ rfl (fun _ => rfl) rfl rfl rfl (fun _ _ => rfl)
  case setopt c n t v =>
    split
    · rename_i hsb; exact evSetBuf_R hI hop hR c n t v hsb
    · rw [pushStep_refused (by simp [notExecuted])]; exact hR
  case getopt c n t =>
    split
    · exact plain _ _ rfl (fun _ => rfl) rfl rfl rfl (fun _ _ => rfl)
    · rw [pushStep_refused (by simp [notExecuted])]; exact hR
  case poll => exact plain _ _ rfl (fun _ => rfl) rfl rfl rfl (fun _ _ => rfl)
  case sub c t => rw [pushStep_refused (by simp [notExecuted])]; exact hR
  case unsub c t => rw [pushStep_refused (by simp [notExecuted])]; exact hR
  case close => exact evClose_R hI hR

theorem stepIdle_R {s : State} {j : PushJ} (hI : Inv s) (hR : R s j) (ev : Ev) :
    R (stepIdle s ev).1 (pushStepOld j ev (stepIdle s ev).2) := by
  cases ev <;> simp only [stepIdle] <;>
    first
    | (rw [pushStep_refused (by simp [notExecuted])]; exact hR)
    | skip
  case advance ms =>
    rw [step_plain hI hR (by simp [notExecuted]) rfl rfl (by simp) (by simp [procOuts]) (by simp)]
    exact R_frame (s := s) rfl rfl rfl rfl rfl rfl rfl hR

theorem step_R_old {s : State} {j : PushJ} (hI : Inv s) (hI2 : Inv2 s) (hD : Dist s) (hR : R s j) (ev : Ev)
    (ha : isAbort0 ev = false) (hfresh : ∀ m ∈ evBodies ev, m ∉ s.offered.map (·.m)) :
    R (step s ev).1 (pushStepOld j ev (step s ev).2) := by
  unfold step
  split
  · rename_i hop
    split
    · rw [step_plain hI hR (by simp [notExecuted]) rfl rfl (by simp [isPipeOut])
        (by simp [procOuts, List.filter, isDone, pushOut_rv]) (by simp [isBlocked])]
      have hcap := hI.capInit (by simpa using hop)
      obtain ⟨a, b, c, d, e, f, g⟩ := hR
      constructor <;> (try simp only []) <;> first | assumption | skip
      rw [g, hcap]
    · exact stepIdle_R hI hR _
  · rename_i hop
    split
    · exact stepIdle_R hI hR _
    · exact stepLive_R hI hI2 hD (by simpa using hop) hR _ ha hfresh


/-! ### FIFO admission of parked senders -/

/-- no output of the list is a successful completion -/
def NoOk (outs : List Out) : Prop := ∀ o ∈ outs, ∀ a, isDoneOk a o = false

theorem NoOk.append {a b : List Out} (ha : NoOk a) (hb : NoOk b) : NoOk (a ++ b) := by
  intro o ho; rcases List.mem_append.1 ho with h | h
  · exact ha o h
  · exact hb o h

theorem noOk_of_notDone {outs : List Out} (h : ∀ o ∈ outs, isDone o = false) : NoOk outs := by
  intro o ho a; have := h o ho; cases o <;> simp_all [isDone, isDoneOk]

theorem overtaken_noOk {pending : List (Nat × WMsg)} {outs : List Out} (h : NoOk outs) :
    parkedOvertaken pending outs = false := by
  unfold parkedOvertaken
  rw [List.any_eq_false]; intro x _
  rw [Bool.not_eq_true, List.any_eq_false]; intro o ho
  simp [h o ho x.1]

/-- no parked sender completes successfully -/
theorem overtaken_none {pending : List (Nat × WMsg)} {outs : List Out}
    (h : ∀ x ∈ pending, outs.any (isDoneOk x.1) = false) : parkedOvertaken pending outs = false := by
  unfold parkedOvertaken
  rw [List.any_eq_false]; intro x hx
  have hx' : x ∈ pending := (List.dropWhile_suffix _).subset hx
  simp [h x hx']

/-- only the first parked sender completes successfully -/
theorem overtaken_head {h0 : Nat × WMsg} {t : List (Nat × WMsg)} {outs : List Out}
    (hh : outs.any (isDoneOf h0.1) = true) (ht : ∀ x ∈ t, outs.any (isDoneOk x.1) = false) :
    parkedOvertaken (h0 :: t) outs = false := by
  unfold parkedOvertaken
  rw [List.dropWhile_cons_of_pos (by simpa using hh)]
  exact overtaken_none ht

theorem closePipe_noOk (s : State) (p : Nat) : NoOk (closePipe s p).2 :=
  noOk_of_notDone (fun o ho => (closePipe_outs s p o ho).1)

theorem closeAll_noOk (l : List Nat) (s : State) : NoOk (closeAll s l).2 :=
  noOk_of_notDone (fun o ho => (closeAll_outs l s o ho).1)

theorem failParked_noOk (s : State) (a rv : Nat) (hrv : rv ≠ 0) : NoOk (failParked s a rv).2 := by
  unfold failParked; split
  · intro o ho b; simp at ho; subst ho; simp [isDoneOk, hrv]
  · intro o ho; simp at ho

theorem failEach_noOk (rv : Nat) (hrv : rv ≠ 0) (l : List Nat) : ∀ s : State, NoOk (failEach s rv l).2 := by
  induction l with
  | nil => intro s o ho; simp [failEach] at ho
  | cons a l ih => intro s; simp only [failEach]; exact (failParked_noOk s a rv hrv).append (ih _)

/-- push0_pipe_ready admits at most the FIRST parked sender -/
theorem pipeReady_fifo {s : State} (hnd : (s.aq.map (·.aio)).Nodup) (p : Nat) (pre : List Out) (hpre : NoOk pre) :
    parkedOvertaken (s.aq.map (fun pk => (pk.aio, pk.msg.m))) (pre ++ (pipeReady s p).2) = false := by
  have key : ∀ outs, (pipeReady s p).2 = outs →
      (NoOk outs ∨ ∃ a arest, s.aq = a :: arest ∧ Out.done a.aio 0 none false ∈ outs ∧
        ∀ o ∈ outs, ∀ b, isDoneOk b o = true → b = a.aio) := by
    intro outs ho
    unfold pipeReady pipeReadyCore at ho
    simp only [] at ho
    split at ho
    · split at ho
      · rename_i a arest haq
        right; refine ⟨a, arest, haq, by rw [← ho]; simp, ?_⟩
        intro o hmem b hb; rw [← ho] at hmem; simp at hmem
        rcases hmem with rfl | rfl
        · simp [isDoneOk] at hb
        · simp [isDoneOk] at hb; exact hb.symm
      · left; rw [← ho]; intro o hmem b; simp at hmem; subst hmem; rfl
    · split at ho
      · rename_i a arest haq
        right; refine ⟨a, arest, haq, by rw [← ho]; simp, ?_⟩
        intro o hmem b hb; rw [← ho] at hmem; simp at hmem
        rcases hmem with rfl | rfl
        · simp [isDoneOk] at hb
        · simp [isDoneOk] at hb; exact hb.symm
      · left; rw [← ho]; intro o hmem; simp at hmem
  rcases key _ rfl with h | ⟨a, arest, haq, hmem, honly⟩
  · exact overtaken_noOk (hpre.append h)
  · rw [haq, List.map_cons]
    rw [haq] at hnd
    simp only [List.map_cons, List.nodup_cons, List.mem_map, not_exists, not_and] at hnd
    refine overtaken_head ?_ ?_
    · rw [List.any_eq_true]; exact ⟨_, List.mem_append.2 (Or.inr hmem), by simp [isDoneOf]⟩
    · intro x hx
      obtain ⟨pk, hpk, rfl⟩ := List.mem_map.1 hx
      rw [List.any_eq_false]; intro o ho
      rcases List.mem_append.1 ho with h | h
      · simp [hpre o h pk.aio]
      · intro hb
        have := honly o h pk.aio hb
        exact hnd.1 pk hpk this

/-- the model never trips the FIFO-admission clause -/
theorem stepLive_fifo {s : State} {j : PushJ} (hI : Inv s) (hR : R s j) (ev : Ev) (ha : isAbort0 ev = false) :
    parkedOvertaken j.pending (stepLive s ev).2 = false := by
  rw [hR.pending]
  have single : ∀ o : Out, (∀ a, isDoneOk a o = false) → NoOk [o] := by
    intro o h o' ho'; simp at ho'; subst ho'; exact h
  cases ev <;> simp only [stepLive]
  case openSock p r => exact overtaken_noOk (single _ (fun _ => rfl))
  case pipeAdd peer =>
    unfold evPipeAdd; simp only []
    split
    · exact overtaken_noOk (by intro o ho a; simp at ho; rcases ho with rfl | rfl <;> rfl)
    · exact pipeReady_fifo (s := { s with pipes := s.pipes ++ [{ id := s.pipes.length, armed := true }] })
        hI.aqNodup s.pipes.length [Out.pipe s.pipes.length, Out.parm s.pipes.length] (by intro o ho a; simp at ho; rcases ho with rfl | rfl <;> rfl)
  case pipeDrop p =>
    unfold evPipeDrop
    split
    · split
      · exact overtaken_noOk (single _ (fun _ => rfl))
      · exact overtaken_noOk ((single _ (fun _ => rfl)).append (closePipe_noOk s p))
    · exact overtaken_noOk (single _ (fun _ => rfl))
  case sendDone p rv =>
    unfold evSendDone getPipe
    split
    · rename_i pp hget
      split
      · split
        · exact overtaken_noOk (single _ (fun _ => rfl))
        · split
          · exact overtaken_noOk ((single _ (fun _ => rfl)).append (closePipe_noOk s p))
          · exact pipeReady_fifo (s := { s with pipes := setP s.pipes { pp with busy := none } })
              hI.aqNodup p [Out.rv 0] (single _ (fun _ => rfl))
      · exact overtaken_noOk (single _ (fun _ => rfl))
    · exact overtaken_noOk (single _ (fun _ => rfl))
  case recvDone p r =>
    unfold evRecvDone
    split
    · split
      · exact overtaken_noOk (single _ (fun _ => rfl))
      · split
        · exact overtaken_noOk (by intro o ho a; simp at ho; rcases ho with rfl | rfl <;> rfl)
        · exact overtaken_noOk ((single _ (fun _ => rfl)).append (closePipe_noOk s p))
    · exact overtaken_noOk (single _ (fun _ => rfl))
  case send c a m mode =>
    unfold evSend
    split
    · exact overtaken_noOk (single _ (fun _ => rfl))
    · rename_i hbusy
      have hbusy' : ∀ x ∈ s.aq, ¬ x.aio = a := by simpa using hbusy
      have fresh : ∀ outs : List Out, (∀ o ∈ outs, ∀ b, isDoneOk b o = true → b = a) →
          parkedOvertaken (s.aq.map (fun pk => (pk.aio, pk.msg.m))) outs = false := by
        intro outs h
        refine overtaken_none ?_
        intro x hx; obtain ⟨pk, hpk, rfl⟩ := List.mem_map.1 hx
        rw [List.any_eq_false]; intro o ho hb
        exact hbusy' pk hpk (h o ho pk.aio hb)
      split
      · refine fresh _ ?_
        intro o ho b hb; simp at ho; rcases ho with rfl | rfl
        · simp [isDoneOk] at hb; exact hb.symm
        · simp [isDoneOk] at hb
      · split
        · refine fresh _ ?_
          intro o ho b hb; simp at ho; subst ho; simp [isDoneOk] at hb; exact hb.symm
        · split
          · refine fresh _ ?_
            intro o ho b hb; simp at ho; subst ho; simp [isDoneOk] at hb; exact hb.1.symm
          · exact overtaken_noOk (by intro o ho; simp at ho)
  case recv c a mode =>
    unfold evRecv
    split
    · exact overtaken_noOk (single _ (fun _ => rfl))
    · exact overtaken_noOk (single _ (by intro b; simp [isDoneOk, Err.enotsup]))
  case cancel a => exact overtaken_noOk (failParked_noOk s a _ (by simp [Err.ecanceled]))
  case abort a rv =>
    have hrv : rv ≠ 0 := by intro h; subst h; simp [isAbort0] at ha
    exact overtaken_noOk (failParked_noOk s a rv hrv)
  case advance ms =>
    exact overtaken_noOk (failEach_noOk _ (by simp [Err.etimedout]) _ _)
  case ctxOpen c => exact overtaken_noOk (single _ (fun _ => rfl))
  case ctxClose c => exact overtaken_noOk (single _ (fun _ => rfl))
  case setopt c n t v =>
    split
    · unfold evSetBuf; split <;> exact overtaken_noOk (single _ (fun _ => rfl))
    · exact overtaken_noOk (single _ (fun _ => rfl))
  case getopt c n t =>
    split <;> exact overtaken_noOk (single _ (fun _ => rfl))
  case poll => exact overtaken_noOk (single _ (fun _ => rfl))
  case sub c t => exact overtaken_noOk (single _ (fun _ => rfl))
  case unsub c t => exact overtaken_noOk (single _ (fun _ => rfl))
  case close =>
    unfold evClose
    refine overtaken_noOk (NoOk.append ?_ (closeAll_noOk _ _))
    intro o ho b; simp at ho; obtain ⟨pk, _, rfl⟩ := ho; simp [isDoneOk, Err.eclosed]

theorem step_fifo {s : State} {j : PushJ} (hI : Inv s) (hR : R s j) (ev : Ev) (ha : isAbort0 ev = false) :
    parkedOvertaken j.pending (step s ev).2 = false := by
  have idle : ∀ ev, parkedOvertaken j.pending (stepIdle s ev).2 = false := by
    intro ev; cases ev <;> simp only [stepIdle] <;>
      exact overtaken_noOk (by intro o ho a; simp at ho; try (subst ho; rfl))
  unfold step
  split
  · split
    · exact overtaken_noOk (by intro o ho a; simp at ho; subst ho; rfl)
    · exact idle _
  · split
    · exact idle _
    · exact stepLive_fifo hI hR _ ha

theorem step_R {s : State} {j : PushJ} (hI : Inv s) (hI2 : Inv2 s) (hD : Dist s) (hR : R s j) (ev : Ev)
    (ha : isAbort0 ev = false) (hfresh : ∀ m ∈ evBodies ev, m ∉ s.offered.map (·.m)) :
    R (step s ev).1 (pushStep j ev (step s ev).2) := by
  rw [pushStep_old (step_fifo hI hR ev ha)]
  exact step_R_old hI hI2 hD hR ev ha hfresh


/-! ### which messages a step offers -/

theorem closePipe_offered (s : State) (p : Nat) : (closePipe s p).1.offered = s.offered := by
  unfold closePipe; split
  · rfl
  · split <;> rfl

theorem closeAll_offered (l : List Nat) : ∀ s : State, (closeAll s l).1.offered = s.offered := by
  induction l with
  | nil => intro s; rfl
  | cons a l ih => intro s; simp only [closeAll]; rw [ih, closePipe_offered]

theorem failEach_offered (rv : Nat) (l : List Nat) : ∀ s : State, (failEach s rv l).1.offered = s.offered := by
  induction l with
  | nil => intro s; rfl
  | cons a l ih => intro s; simp only [failEach]; rw [ih, (failParked_frame s a rv).2.2.2.2.2.2]

theorem pipeReady_offered (s : State) (p : Nat) : (pipeReady s p).1.offered = s.offered := by
  unfold pipeReady pipeReadyCore
  simp only []
  split <;> split <;> split <;> rfl

theorem stepLive_offered (s : State) (ev : Ev) :
    ∃ l, (stepLive s ev).1.offered = s.offered ++ l ∧ (l.map (·.m)).Sublist (evBodies ev) := by
  have same : ∀ {s' : State}, s'.offered = s.offered →
      ∃ l, s'.offered = s.offered ++ l ∧ (l.map (·.m)).Sublist (evBodies ev) :=
    fun h => ⟨[], by simp [h], by simp⟩
  cases ev <;> simp only [stepLive]
  case pipeAdd peer =>
    apply same; unfold evPipeAdd; split
    · rfl
    · exact pipeReady_offered _ _
  case pipeDrop p =>
    apply same; unfold evPipeDrop; split
    · split
      · rfl
      · exact closePipe_offered _ _
    · rfl
  case sendDone p rv =>
    apply same; unfold evSendDone; split
    · split
      · split
        · rfl
        · split
          · exact closePipe_offered _ _
          · exact pipeReady_offered _ _
      · rfl
    · rfl
  case recvDone p r =>
    apply same; unfold evRecvDone; split
    · split
      · rfl
      · split
        · rfl
        · exact closePipe_offered _ _
    · rfl
  case send c a m mode =>
    unfold evSend
    split
    · exact same rfl
    · split
      · exact ⟨[⟨s.nsend, m⟩], rfl, by simp [evBodies]⟩
      · split
        · exact ⟨[⟨s.nsend, m⟩], rfl, by simp [evBodies]⟩
        · split
          · exact ⟨[⟨s.nsend, m⟩], rfl, by simp [evBodies]⟩
          · exact ⟨[⟨s.nsend, m⟩], rfl, by simp [evBodies]⟩
  case recv c a mode => apply same; unfold evRecv; split <;> rfl
  case cancel a => exact same (failParked_frame s a _).2.2.2.2.2.2
  case abort a rv => exact same (failParked_frame s a _).2.2.2.2.2.2
  case advance ms => apply same; unfold expire; rw [failEach_offered]
  case setopt c n t v =>
    apply same; split
    · unfold evSetBuf; split <;> rfl
    · rfl
  case getopt c n t => apply same; split <;> rfl
  case close => apply same; unfold evClose; simp only []; rw [closeAll_offered]
  all_goals exact same rfl

theorem step_offered (s : State) (ev : Ev) :
    ∃ l, (step s ev).1.offered = s.offered ++ l ∧ (l.map (·.m)).Sublist (evBodies ev) := by
  have idle : ∀ ev', ∃ l, (stepIdle s ev').1.offered = s.offered ++ l ∧ (l.map (·.m)).Sublist (evBodies ev') := by
    intro ev'; refine ⟨[], ?_, by simp⟩
    cases ev' <;> simp [stepIdle]
  unfold step
  split
  · split
    · exact ⟨[], by simp, by simp⟩
    · exact idle _
  · split
    · exact idle _
    · exact stepLive_offered s ev

/-- the trace (event, outputs) the model produces from state `s` -/
def traceOf (s : State) : List Ev → List (Ev × List Out)
  | [] => []
  | e :: es => (e, (step s e).2) :: traceOf (step s e).1 es

def sendBodies (evs : List Ev) : List WMsg := evs.flatMap evBodies

/-- the messages sent in a case are pairwise distinct (the check generates them so): the
    judge identifies messages by content -/
def DistinctBodies (evs : List Ev) : Prop := (sendBodies evs).Nodup

/-- `nng_aio_abort(aio, 0)` is API misuse (the send completes "successfully" with the message
    still attached) -/
def NoAbort0 (evs : List Ev) : Prop := ∀ ev ∈ evs, isAbort0 ev = false

theorem judge_from (evs : List Ev) : ∀ {s : State} {j : PushJ}, Inv s → Inv2 s → R s j →
    (s.offered.map (·.m) ++ sendBodies evs).Nodup → NoAbort0 evs →
    ((traceOf s evs).foldl (fun j x => pushStep j x.1 x.2) j).err = none := by
  induction evs with
  | nil => intro s j _ _ hR _ _; exact hR.err
  | cons e es ih =>
    intro s j hI hI2 hR hn ha
    simp only [traceOf, List.foldl_cons]
    simp only [sendBodies, List.flatMap_cons] at hn
    have hn' := List.nodup_append.1 hn
    have hfresh : ∀ m ∈ evBodies e, m ∉ s.offered.map (·.m) := by
      intro m hm hmo; exact hn'.2.2 m hmo m (List.mem_append.2 (Or.inl hm)) rfl
    obtain ⟨l, hl1, hl2⟩ := step_offered s e
    refine ih (step_inv hI e) (step_inv2 hI2 e)
      (step_R hI hI2 (dist_of hI hn'.1) hR e (ha e (by simp)) hfresh) ?_ (fun ev hev => ha ev (by simp [hev]))
    rw [hl1, List.map_append, List.append_assoc]
    refine hn.sublist ?_
    refine (List.Sublist.refl _).append ?_
    exact hl2.append (List.Sublist.refl _)

/-- JUDGE (PUSH): on every event sequence with distinct bodies the model's trace satisfies
    the C06 trace predicate -/
theorem push_judge_ok (evs : List Ev) (hd : DistinctBodies evs) (hn : NoAbort0 evs) :
    pushJudge (traceOf {} evs) = none :=
  judge_from evs inv_init inv2_init R_init (by simpa [DistinctBodies] using hd) hn

end Nng.Push
