import NngModel.Proofs.WsRx
import NngModel.Generated.C16
namespace Nng.Ws

def isDelivery : Ev → Bool
  | .msg _ => true
  | .data _ => true
  | _ => false

/-- header-level violations of the property's rules, as `checks` sees them -/
def HdrViolation (cfg : Cfg) (s : St) (f0 : RxFrame) : Prop :=
  (f0.b1.toNat % 128 = 127 ∧ hdrLen f0 < 65536) ∨            -- non-minimal 64-bit length
  (f0.b1.toNat % 128 = 126 ∧ hdrLen f0 < 126) ∨              -- non-minimal 16-bit length
  (hdrLen f0 > cfg.maxframe ∧ cfg.maxframe > 0) ∨            -- frame above the maximum
  (cfg.isstream = false ∧ cfg.recvmax > 0 ∧ f0.op / 8 % 2 = 0 ∧ totlen s (hdrLen f0) > cfg.recvmax) ∨  -- message above recvmax
  (f0.masked = true ∧ cfg.server = false) ∨                  -- masked toward a client
  (f0.masked = false ∧ cfg.server = true)                    -- unmasked toward a server

theorem fail_props (cfg : Cfg) (s : St) (code : Nat) :
    (fail cfg s code).1.closed = true ∧ (fail cfg s code).1.want = 0 ∧ (fail cfg s code).2.all (fun e => !isDelivery e) = true := by
  unfold fail wsClose
  by_cases hc : s.closed = true
  · simp [hc]
  · simp only [hc]
    cases encodeControl cfg.server s.rng opClose (beEncode 2 code) with
    | none => simp [isDelivery]
    | some p => simp [isDelivery]

theorem checks_rejects (cfg : Cfg) (s : St) (f0 : RxFrame) (h : HdrViolation cfg s f0) :
    ∃ code, checks cfg s f0 = fail cfg s code := by
  unfold checks
  by_cases c1 : f0.b1.toNat % 128 = 127 ∧ hdrLen f0 < 65536
  · rw [if_pos c1]; exact ⟨_, rfl⟩
  rw [if_neg c1]
  by_cases c2 : f0.b1.toNat % 128 = 126 ∧ hdrLen f0 < 126
  · rw [if_pos c2]; exact ⟨_, rfl⟩
  rw [if_neg c2]
  by_cases c3 : hdrLen f0 > cfg.maxframe ∧ cfg.maxframe > 0
  · rw [if_pos c3]; exact ⟨_, rfl⟩
  rw [if_neg c3]
  by_cases c4 : cfg.isstream = false ∧ cfg.recvmax > 0 ∧ (Generated.wsRecvmaxSkipsControl = false ∨ f0.op / 8 % 2 = 0) ∧
      totlen s (hdrLen f0) > cfg.recvmax
  · rw [if_pos c4]; exact ⟨_, rfl⟩
  rw [if_neg c4]
  by_cases c5 : f0.masked = true ∧ cfg.server = false
  · rw [if_pos c5]; exact ⟨_, rfl⟩
  rw [if_neg c5]
  by_cases c6 : f0.masked = false ∧ cfg.server = true
  · rw [if_pos c6]; exact ⟨_, rfl⟩
  exfalso
  unfold HdrViolation at h
  rcases h with h | h | h | h | h | h
  · exact c1 h
  · exact c2 h
  · exact c3 h
  · exact c4 ⟨h.1, h.2.1, Or.inr h.2.2.1, h.2.2.2⟩
  · exact c5 h
  · exact c6 h

/-- header-level rule enforcement on the byte stream: whatever follows the offending header, the
    connection is closed, no read is outstanding any more, and nothing is delivered -/
theorem rx_rejects_header (cfg : Cfg) (s : St) (hb : Boundary s) (b0 b1 : UInt8) (ek more : Bytes)
    (hek : ek.length = (if b1.toNat ≥ 128 then 4 else 0) +
       (if b1.toNat % 128 = 127 then 8 else if b1.toNat % 128 = 126 then 2 else 0))
    (hv : HdrViolation cfg (idleOf s) (mkF0 b0 b1 ek)) :
    let r := rx cfg s (b0 :: b1 :: (ek ++ more))
    r.1.closed = true ∧ r.1.want = 0 ∧ r.2.all (fun e => !isDelivery e) = true := by
  intro r
  have h := rx_header cfg s hb b0 b1 ek more hek
  simp only [] at h
  obtain ⟨code, hc⟩ := checks_rejects cfg (idleOf s) _ hv
  have hr : r = rx cfg s (b0 :: b1 :: (ek ++ more)) := rfl
  rw [h, hc] at hr
  have fp := fail_props cfg (idleOf s) code
  rw [rx_idle cfg _ fp.2.1 more] at hr
  rw [hr]
  refine ⟨fp.1, fp.2.1, ?_⟩
  simpa using fp.2.2

/-- frame-level violations, detected by ws_read_frame_cb once the payload has been read -/
def FrameViolation (cfg : Cfg) (s : St) (f : RxFrame) : Prop :=
  (f.op ∉ [0, 1, 2, 8, 9, 10]) ∨                   -- reserved opcode, or any RSV bit (op = head[0] & 0x7f)
  ((f.op = 9 ∨ f.op = 10) ∧ f.len > 125) ∨          -- PING/PONG above 125 bytes
  (f.op = 0 ∧ s.inmsg = false) ∨                    -- continuation with no message open
  ((f.op = 1 ∨ f.op = 2) ∧ s.inmsg = true) ∨        -- new data frame while a message is open
  (f.op = 1 ∧ cfg.recvText = false)                 -- TEXT when not configured to accept it

theorem frameCb_rejects (cfg : Cfg) (s : St) (f : RxFrame) (payload : Bytes) (h : FrameViolation cfg s f) :
    ∃ code, frameCb cfg s f payload = fail cfg s code := by
  unfold FrameViolation at h
  unfold frameCb dataFrame
  repeat' (first | exact ⟨_, rfl⟩ | split)
  all_goals (exfalso; simp_all)

end Nng.Ws
