/-
  C05: the PUB model satisfies the executable trace predicate `pubJudge` (Spec/PubSub.lean)
  on EVERY event sequence.  Simulation: the judge's state is a function (`absJ`) of the
  model's state — the connected (listed) pipes with `busy`, depth and queued bodies, the
  configured send buffer — and one judge step on the model's outputs lands on `absJ` of the
  model's next state.
-/
import NngModel.Proofs.PubInv
import NngModel.Spec.PubSub
namespace Nng.Pub
open Nng Nng.Proto Nng.PubSubSpec

/-- the trace (event, outputs) the model produces from state `s` -/
def traceOf (s : State) : List Ev → List (Ev × List Out)
  | [] => []
  | e :: es => (e, (step s e).2) :: traceOf (step s e).1 es

/-! ### the judge's state as a function of the model's state -/

def absP (p : Pipe) : JPipe :=
  { id := p.id, busy := p.busy.isSome, cap := p.cap, queue := p.q.map (·.m), owed := none }

def absPs (ps : List Pipe) : List JPipe := (ps.filter (·.listed)).map absP

def absJ (s : State) : PubJ :=
  if s.opened then
    { opened := true, closed := s.closed, pipes := absPs s.pipes, sendbuf := s.sendbuf, err := none }
  else {}

theorem absJ_err (s : State) : (absJ s).err = none := by unfold absJ; split <;> rfl

/-- extra invariants the simulation needs: pipe ids are list positions, a pipe is on the
    socket's list iff it is not closed, nothing exists before the socket is opened -/
structure SInv (s : State) : Prop where
  ids : s.pipes.map (·.id) = List.range s.pipes.length
  lc : ∀ p ∈ s.pipes, p.listed = !p.closed
  unopened : s.opened = false → s.closed = false ∧ s.pipes = []

theorem sinv_init : SInv ({} : State) := ⟨rfl, (by intro p hp; cases hp), fun _ => ⟨rfl, rfl⟩⟩

theorem SInv.nodup {s : State} (h : SInv s) : (s.pipes.map (·.id)).Nodup := by
  rw [h.ids]; exact List.nodup_range

theorem SInv.lt {s : State} (h : SInv s) {p : Pipe} (hp : p ∈ s.pipes) : p.id < s.pipes.length := by
  have : p.id ∈ s.pipes.map (·.id) := List.mem_map.2 ⟨p, hp, rfl⟩
  rw [h.ids] at this
  exact List.mem_range.1 this

/-- pointwise update of the pipes that keeps ids and the listed/closed link -/
theorem sinv_map {s : State} (h : SInv s) (ho : s.opened = true) (f : Pipe → Pipe)
    (hid : ∀ p, (f p).id = p.id) (hlc : ∀ p, p.listed = !p.closed → (f p).listed = !(f p).closed)
    (s' : State) (hp : s'.pipes = s.pipes.map f) (ho' : s'.opened = true) : SInv s' := by
  refine ⟨?_, ?_, ?_⟩
  · rw [hp, List.map_map, List.length_map]
    have : ((fun x => x.id) ∘ f) = (fun x : Pipe => x.id) := by funext p; exact hid p
    rw [this]; exact h.ids
  · intro p hp'
    rw [hp] at hp'
    obtain ⟨q, hq, rfl⟩ := List.mem_map.1 hp'
    exact hlc q (h.lc q hq)
  · intro h0; rw [ho'] at h0; cases h0

theorem closePipeP_id (p : Pipe) : (closePipeP p).1.id = p.id := by unfold closePipeP; split <;> rfl
theorem closePipeP_lc (p : Pipe) (h : p.listed = !p.closed) : (closePipeP p).1.listed = !(closePipeP p).1.closed := by
  unfold closePipeP; split
  · exact h
  · rfl
theorem sendPipe_id_lc (gm : GMsg) (p : Pipe) :
    (sendPipe gm p).1.id = p.id ∧ (sendPipe gm p).1.listed = p.listed ∧ (sendPipe gm p).1.closed = p.closed := by
  rcases p with ⟨id, closed, listed, armed, busy, cap, q, wire, offered, dropped⟩
  cases listed <;> cases busy <;> cases q <;> simp [sendPipe, lmqFull, lmqPut] <;> (repeat' split) <;> simp
theorem sendPipe_id (gm : GMsg) (p : Pipe) : (sendPipe gm p).1.id = p.id := (sendPipe_id_lc gm p).1
theorem sendPipe_lc (gm : GMsg) (p : Pipe) :
    (sendPipe gm p).1.listed = p.listed ∧ (sendPipe gm p).1.closed = p.closed := (sendPipe_id_lc gm p).2
theorem sendDonePipe_id (p : Pipe) : (sendDonePipe p).1.id = p.id := by unfold sendDonePipe; split <;> rfl
theorem sendDonePipe_lc (p : Pipe) : (sendDonePipe p).1.listed = p.listed ∧ (sendDonePipe p).1.closed = p.closed := by
  unfold sendDonePipe; split <;> exact ⟨rfl, rfl⟩
theorem resizePipe_id (c : Nat) (p : Pipe) : (resizePipe c p).id = p.id := by unfold resizePipe; split <;> rfl
theorem resizePipe_lc (c : Nat) (p : Pipe) : (resizePipe c p).listed = p.listed ∧ (resizePipe c p).closed = p.closed := by
  unfold resizePipe; split <;> exact ⟨rfl, rfl⟩

theorem setPipe_sinv {s : State} (h : SInv s) (ho : s.opened = true) (pp : Pipe)
    (hlc : pp.listed = !pp.closed) : SInv (setPipe s pp) := by
  refine sinv_map h ho (fun q => if q.id == pp.id then pp else q) ?_ ?_ _ rfl ho
  · intro p; by_cases hq : (p.id == pp.id) = true
    · simp only [hq, if_true]; exact (beq_iff_eq.1 hq).symm
    · simp only [hq]; rfl
  · intro p hp; by_cases hq : (p.id == pp.id) = true
    · simp only [hq, if_true]; exact hlc
    · simp only [hq]; exact hp

theorem closePipe_sinv {s : State} (h : SInv s) (ho : s.opened = true) (p : Nat) : SInv (closePipe s p).1 := by
  unfold closePipe
  split
  · exact h
  · next pp hpp => exact setPipe_sinv h ho _ (closePipeP_lc pp (h.lc pp (getPipe_mem hpp)))

theorem closePipe_opened (s : State) (p : Nat) : (closePipe s p).1.opened = s.opened := by
  unfold closePipe; split <;> rfl

theorem stepOpen_sinv {s : State} (ev : Ev) (h : SInv s) (ho : s.opened = true) : SInv (stepOpen s ev).1 := by
  cases ev with
  | pipeAdd peer =>
    show SInv (opPipeAdd s peer).1
    unfold opPipeAdd
    split
    · refine ⟨?_, ?_, fun h0 => by simp [ho] at h0⟩
      · simp [List.range_succ, h.ids]
      · intro p hp
        simp only [List.mem_append, List.mem_singleton] at hp
        rcases hp with hp | rfl
        · exact h.lc p hp
        · rfl
    · refine ⟨?_, ?_, fun h0 => by simp [ho] at h0⟩
      · simp [List.range_succ, h.ids]
      · intro p hp
        simp only [List.mem_append, List.mem_singleton] at hp
        rcases hp with hp | rfl
        · exact h.lc p hp
        · rfl
  | pipeDrop p =>
    show SInv (opPipeDrop s p).1
    unfold opPipeDrop
    split
    · split
      · exact h
      · exact closePipe_sinv h ho p
    · exact h
  | sendDone p rv =>
    show SInv (opSendDone s p rv).1
    unfold opSendDone
    split
    · next pp hpp =>
      split
      · split
        · exact h
        · split
          · exact closePipe_sinv h ho p
          · refine setPipe_sinv h ho _ ?_
            rw [(sendDonePipe_lc pp).1, (sendDonePipe_lc pp).2]
            exact h.lc pp (getPipe_mem hpp)
      · exact h
    · exact h
  | recvDone p r =>
    show SInv (opRecvDone s p).1
    unfold opRecvDone
    split
    · split
      · exact h
      · exact closePipe_sinv h ho p
    · exact h
  | send c a m mode =>
    show SInv (opSend s c a m).1
    unfold opSend
    split
    · exact h
    · refine sinv_map h ho (fun p => (sendPipe ⟨s.nsend, m⟩ p).1) (sendPipe_id _) ?_ _ (sendList_eq_map _ _) ho
      intro p hp; rw [(sendPipe_lc _ p).1, (sendPipe_lc _ p).2]; exact hp
  | setopt c name ty v =>
    show SInv (opSetopt s c name ty v).1
    unfold opSetopt
    split
    · split
      · exact h
      · refine sinv_map h ho (resizePipe v.toNat) (resizePipe_id _) ?_ _ rfl ho
        intro p hp; rw [(resizePipe_lc _ p).1, (resizePipe_lc _ p).2]; exact hp
    · exact h
  | getopt c name ty => simp only [stepOpen]; split <;> exact h
  | close =>
    refine sinv_map h ho (fun p => (closePipeP p).1) closePipeP_id closePipeP_lc _ (closeList_eq_map _) ho
  | recv c a mode => simp only [stepOpen]; split <;> exact h
  | advance ms => exact ⟨h.ids, h.lc, fun h0 => by simp [stepOpen, ho] at h0⟩
  | openSock _ _ => exact h
  | cancel _ => exact h
  | abort _ _ => exact h
  | ctxOpen _ => exact h
  | ctxClose _ => exact h
  | poll => exact h
  | sub _ _ => exact h
  | unsub _ _ => exact h

theorem step_sinv {s : State} (ev : Ev) (h : SInv s) : SInv (step s ev).1 := by
  unfold step
  split
  · next hno =>
    have ho : s.opened = false := by simpa using hno
    have hu := h.unopened ho
    split
    · exact ⟨by simp [hu.2], by simp [hu.2], fun h0 => by simp at h0⟩
    · exact ⟨h.ids, h.lc, h.unopened⟩
    · exact h
  · next hno =>
    have ho : s.opened = true := by simpa using hno
    split
    · split
      · exact ⟨h.ids, h.lc, fun h0 => by simp [ho] at h0⟩
      · exact h
    · exact stepOpen_sinv ev h ho

end Nng.Pub
