/-
  C19, buffer model = functional model, part 6: "[…]" / name and the ':' of the port
  (`stageHostPort` = `splitHostPort`), and the final reads (`finish` = the tail of `finishParse`).
-/
import NngModel.Proofs.UrlBufEqStages
set_option linter.unusedSimpArgs false
set_option linter.unusedVariables false
namespace Nng.UrlBufEq
open Nng Nng.Url Nng.UrlBuf Nng.UrlBufProofs Nng.UrlProofs

/-! ### functional side: `splitHostPort` case by case -/

theorem shp_br_norbr (h' : Bytes) (h : RBR ∉ h') : splitHostPort (LBR :: h') = none := by
  have e1 := (hasChr_false h' RBR).2 h
  simp [splitHostPort, e1]

theorem shp_br_lbr (A t : Bytes) (hr : RBR ∉ A) (hl : LBR ∈ A) :
    splitHostPort (LBR :: (A ++ RBR :: t)) = none := by
  have e1 : hasChr (A ++ RBR :: t) RBR = true := by simp [hasChr]
  have e2 := upTo_append RBR A t hr
  have e3 := (hasChr_true A LBR).2 hl
  simp [splitHostPort, e1, e2, e3]

theorem shp_br_end (A : Bytes) (hr : RBR ∉ A) (hl : LBR ∉ A) :
    splitHostPort (LBR :: (A ++ [RBR])) = some (A, none) := by
  have e1 : hasChr (A ++ [RBR]) RBR = true := by simp [hasChr]
  have e2 := upTo_append RBR A [] hr
  have e3 := (hasChr_false A LBR).2 hl
  have e4 := after_append RBR A [] hr
  simp [splitHostPort, e1, e2, e3, e4]

theorem shp_br_next (A : Bytes) (c : UInt8) (P : Bytes) (hr : RBR ∉ A) (hl : LBR ∉ A) :
    splitHostPort (LBR :: (A ++ RBR :: c :: P)) = if c = COLON then some (A, some P) else none := by
  have e1 : hasChr (A ++ RBR :: c :: P) RBR = true := by simp [hasChr]
  have e2 := upTo_append RBR A (c :: P) hr
  have e3 := (hasChr_false A LBR).2 hl
  have e4 := after_append RBR A (c :: P) hr
  simp [splitHostPort, e1, e2, e3, e4]

theorem shp_plain (H : Bytes) (hb : H.headD 0 ≠ LBR) (hc : COLON ∉ H) :
    splitHostPort H = some (H, none) := by
  unfold splitHostPort
  rw [if_neg hb, dropWhile_ne_all COLON H hc, upTo_all COLON H hc]

theorem shp_colon (A T : Bytes) (hb : (A ++ COLON :: T).headD 0 ≠ LBR) (hc : COLON ∉ A) :
    splitHostPort (A ++ COLON :: T) = some (A, some T) := by
  unfold splitHostPort
  rw [if_neg hb, dropWhile_ne_append COLON A T hc, upTo_append COLON A T hc]

/-! ### a scan with its split -/

theorem scan_split (stop : UInt8 → Bool) {len : Nat} (l : Bytes) (fuel : Nat) (m : Mem) (p : Nat)
    (h : Inv len m) (hs : CStr len m p l) (hf : len < p + fuel) :
    ∃ A B, l = A ++ B ∧ (∀ x ∈ A, stop x = false) ∧ (∀ y t, B = y :: t → stop y = true) ∧
      (scan stop fuel m p).2 = p + A.length ∧ (scan stop fuel m p).1.buf = m.buf ∧
      Inv len (scan stop fuel m p).1 := by
  obtain ⟨a, b, c⟩ := scan_cstr stop l fuel m p h hs hf
  refine ⟨l.takeWhile (fun c => !stop c), l.dropWhile (fun c => !stop c),
    (List.takeWhile_append_dropWhile).symm, ?_, ?_, a, b, c⟩
  · intro x hx
    have := mem_takeWhile_true _ l x hx
    simpa using this
  · intro y t e
    have := dropWhile_head_false _ l y t e
    simpa using this

/-! ### stageHostPort -/

theorem stageHostPort_eq {len : Nat} (fuel : Nat) (H : Bytes) (m : Mem) (hI : Nat) (h : Inv len m)
    (hs : CStr len m hI H) (hf : len < fuel) :
    (splitHostPort H = none ∧ (stageHostPort fuel m hI).2 = none) ∨
    (∃ name pt hi pi, splitHostPort H = some (name, pt) ∧ (stageHostPort fuel m hI).2 = some (hi, pi) ∧
      Inv len (stageHostPort fuel m hI).1 ∧ CStr len (stageHostPort fuel m hI).1 hi name ∧
      OptStr 0 len (stageHostPort fuel m hI).1 pi pt ∧
      ∀ i, (i < hI ∨ hI + H.length < i) → (stageHostPort fuel m hI).1.rd i = m.rd i) := by
  have hle := hs.le
  have hhead := cstr_head H hs
  have hc0 := chk_inv h (i := hI) (by omega)
  unfold stageHostPort
  simp only
  by_cases hb : H.headD 0 = LBR
  · rw [if_pos (show (m.chk hI).rd hI = LBR from by rw [rd_chk, hhead, hb])]
    match H, hs, hle, hhead, hb with
    | [], _, _, _, hb => simp at hb; exact absurd hb (by decide)
    | x :: h', hs, hle, hhead, hb =>
      simp only [List.headD_cons] at hb
      subst hb
      simp only [List.length_cons] at hle
      have ht := cstr_tail _ _ hs
      obtain ⟨A, B, hsplit, hA, hB, s1, s1b, s1i⟩ :=
        scan_split (fun x => decide (x = RBR) || decide (x = LBR)) h' fuel (m.chk hI) (hI + 1) hc0
          (cstr_buf ht rfl) (by omega)
      subst hsplit
      have hrA : RBR ∉ A := fun hm => by have := hA _ hm; simp at this
      have hlA : LBR ∉ A := fun hm => by have := hA _ hm; simp at this
      simp only [List.length_append] at hle
      have htm : CStr len m (hI + 1) (A ++ B) := ht
      have hmid := cstr_mid A B htm
      generalize scan (fun x => decide (x = RBR) || decide (x = LBR)) fuel (m.chk hI) (hI + 1) = r at *
      obtain ⟨rm, rp⟩ := r
      simp only at s1 s1b s1i ⊢
      subst s1
      have s1b' : rm.buf = m.buf := s1b
      match B, hB, hle, htm, hmid with
      | [], _, hle, htm, hmid =>
        left
        simp only [List.headD_nil] at hmid
        rw [if_pos (by rw [rd_buf s1b', hmid]; decide)]
        refine ⟨shp_br_norbr _ ?_, rfl⟩
        simpa using hrA
      | y :: B', hB, hle, htm, hmid =>
        simp only [List.headD_cons] at hmid
        simp only [List.length_cons] at hle
        have hy := hB y B' rfl
        by_cases hyr : y = RBR
        · subst hyr
          rw [if_neg (by rw [rd_buf s1b', hmid]; simp)]
          have hw1 : ∀ j, (rm.wr (hI + 1 + A.length) 0).rd j = if hI + 1 + A.length = j then 0 else m.rd j := by
            intro j; rw [rd_wr_inv s1i (by omega), rd_buf s1b']
          have hm1 := chk_inv (wr_zero s1i (i := hI + 1 + A.length) (by omega))
            (i := hI + 1 + A.length + 1) (by omega)
          have hname : CStr len ((rm.wr (hI + 1 + A.length) 0).chk (hI + 1 + A.length + 1)) (hI + 1) A :=
            ⟨seg_frame ((seg_append _ _ _).1 htm.seg).1 (fun i _ hi => by rw [rd_chk, hw1, if_neg (by omega)]),
              by rw [rd_chk, hw1, if_pos rfl], fun hm => htm.nz (List.mem_append_left _ hm), by omega⟩
          have hB' : CStr len m (hI + 1 + A.length + 1) B' := by
            have := cstr_suffix (A ++ [RBR]) B' (p := hI + 1) (by simpa using htm)
            simp only [List.length_append, List.length_cons, List.length_nil] at this
            rw [show hI + 1 + (A.length + (0 + 1)) = hI + 1 + A.length + 1 by omega] at this
            exact this
          have hnext := cstr_head B' hB'
          match B', hle, hB', hnext, htm with
          | [], hle, hB', hnext, htm =>
            right
            simp only [List.headD_nil] at hnext
            have e0 : ((rm.wr (hI + 1 + A.length) 0).chk (hI + 1 + A.length + 1)).rd (hI + 1 + A.length + 1) = 0 := by
              rw [rd_chk, hw1, if_neg (by omega), hnext]
            rw [if_neg (by rw [e0]; simp), if_neg (by rw [e0]; decide)]
            refine ⟨A, none, hI + 1, none, shp_br_end A hrA hlA, rfl, hm1, hname, trivial, ?_⟩
            intro i hi
            simp only [List.length_cons, List.length_append, List.length_nil] at hi
            rw [rd_chk, hw1, if_neg (by omega)]
          | c :: P, hle, hB', hnext, htm =>
            simp only [List.headD_cons] at hnext
            simp only [List.length_cons] at hle
            have hcz : c ≠ 0 := fun e => hB'.nz (by simp [e])
            have e0 : ((rm.wr (hI + 1 + A.length) 0).chk (hI + 1 + A.length + 1)).rd (hI + 1 + A.length + 1) = c := by
              rw [rd_chk, hw1, if_neg (by omega), hnext]
            by_cases hcc : c = COLON
            · right
              subst hcc
              rw [if_neg (by rw [e0]; simp), if_pos e0]
              have hw2 : ∀ j, (((rm.wr (hI + 1 + A.length) 0).chk (hI + 1 + A.length + 1)).wr
                  (hI + 1 + A.length + 1) 0).rd j = if hI + 1 + A.length + 1 = j then 0 else
                    if hI + 1 + A.length = j then 0 else m.rd j := by
                intro j; rw [rd_wr_inv hm1 (by omega), rd_chk, hw1]
              refine ⟨A, some P, hI + 1, some (hI + 1 + A.length + 2), ?_, rfl, wr_zero hm1 (by omega),
                cstr_frame hname (fun i _ hi => by rw [hw2, if_neg (by omega), rd_chk, hw1]),
                ⟨Nat.zero_le _, ?_⟩, ?_⟩
              · rw [shp_br_next A COLON P hrA hlA, if_pos rfl]
              · have := cstr_tail _ _ hB'
                rw [show hI + 1 + A.length + 1 + 1 = hI + 1 + A.length + 2 by omega] at this
                exact cstr_frame this (fun i a _ => by rw [hw2, if_neg (by omega), if_neg (by omega)])
              · intro i hi
                simp only [List.length_cons, List.length_append] at hi
                rw [hw2, if_neg (by omega), if_neg (by omega)]
            · left
              rw [if_pos (by rw [e0]; simp [hcc, hcz])]
              refine ⟨?_, rfl⟩
              rw [shp_br_next A c P hrA hlA, if_neg hcc]
        · left
          have hyl : y = LBR := by simpa [hyr] using hy
          subst hyl
          rw [if_pos (by rw [rd_buf s1b', hmid]; decide)]
          refine ⟨?_, rfl⟩
          rcases split_chr RBR B' with ⟨_, hnm⟩ | ⟨B1, B2, hsp, hn1, _, _, _⟩
          · apply shp_br_norbr
            simp only [List.mem_append, List.mem_cons, not_or]
            exact ⟨hrA, by decide, hnm⟩
          · subst hsp
            have := shp_br_lbr (A ++ LBR :: B1) B2 (by
              simp only [List.mem_append, List.mem_cons, not_or]; exact ⟨hrA, by decide, hn1⟩) (by simp)
            simpa using this
  · rw [if_neg (show ¬ (m.chk hI).rd hI = LBR from by rw [rd_chk, hhead]; exact hb)]
    right
    rcases split_chr COLON H with ⟨_, hnm⟩ | ⟨A, T, hsplit, hnA, _, _, _⟩
    · have s1 := scan_stop (fun x => decide (x = COLON)) H fuel (m.chk hI) hI hc0 (seg_buf hs.seg rfl)
        (fun x hx => ⟨fun e => hs.nz (e ▸ hx), stop_false (fun e => hnm (e ▸ hx))⟩)
        (Or.inl (by rw [rd_chk]; exact hs.term)) hle (by omega)
      obtain ⟨s1i, _, _, s1b⟩ := scan_inv (fun x => decide (x = COLON)) fuel (m.chk hI) hI hc0 (by omega) (by omega)
      generalize scan (fun x => decide (x = COLON)) fuel (m.chk hI) hI = r at *
      obtain ⟨rm, rp⟩ := r
      simp only at s1 s1b s1i ⊢
      subst s1
      have s1b' : rm.buf = m.buf := s1b
      rw [if_neg (by rw [rd_buf s1b', hs.term]; decide)]
      exact ⟨H, none, hI, none, shp_plain H hb hnm, rfl, s1i, cstr_buf hs s1b', trivial,
        fun i _ => rd_buf s1b' i⟩
    · subst hsplit
      simp only [List.length_append, List.length_cons] at hle
      have hmid : m.rd (hI + A.length) = COLON := seg_mid A COLON T hI hs.seg
      have s1 := scan_stop (fun x => decide (x = COLON)) A fuel (m.chk hI) hI hc0
        (seg_buf ((seg_append _ _ _).1 hs.seg).1 rfl)
        (fun x hx => ⟨fun e => hs.nz (e ▸ List.mem_append_left _ hx), stop_false (fun e => hnA (e ▸ hx))⟩)
        (Or.inr (by rw [rd_chk, hmid]; decide)) (by omega) (by omega)
      obtain ⟨s1i, _, _, s1b⟩ := scan_inv (fun x => decide (x = COLON)) fuel (m.chk hI) hI hc0 (by omega) (by omega)
      generalize scan (fun x => decide (x = COLON)) fuel (m.chk hI) hI = r at *
      obtain ⟨rm, rp⟩ := r
      simp only at s1 s1b s1i ⊢
      subst s1
      have s1b' : rm.buf = m.buf := s1b
      rw [if_pos (by rw [rd_buf s1b', hmid])]
      have hw1 : ∀ j, (rm.wr (hI + A.length) 0).rd j = if hI + A.length = j then 0 else m.rd j := by
        intro j; rw [rd_wr_inv s1i (by omega), rd_buf s1b']
      refine ⟨A, some T, hI, some (hI + A.length + 1), shp_colon A T hb hnA, rfl, wr_zero s1i (by omega),
        ?_, ⟨Nat.zero_le _, ?_⟩, ?_⟩
      · exact ⟨seg_frame ((seg_append _ _ _).1 hs.seg).1 (fun i _ hi => by rw [hw1, if_neg (by omega)]),
          by rw [hw1, if_pos rfl], fun hm => hs.nz (List.mem_append_left _ hm), by omega⟩
      · have := cstr_suffix (A ++ [COLON]) T (p := hI) (by simpa using hs)
        simp only [List.length_append, List.length_cons, List.length_nil] at this
        rw [show hI + (A.length + (0 + 1)) = hI + A.length + 1 by omega] at this
        exact cstr_frame this (fun i a _ => by rw [hw1, if_neg (by omega)])
      · intro i hi
        simp only [List.length_append, List.length_cons] at hi
        rw [hw1, if_neg (by omega)]

end Nng.UrlBufEq
