/-
  Raw judges vs raw models: `recv_done` (recv_cb: header processing, then the upper read queue).
-/
import NngModel.Proofs.RawJudgeEvD
namespace Nng.RawSurv
open Nng Nng.Proto Nng.RawMq Nng.RawSurveySpec

attribute [local simp] xOut_rv xOut_rv2 xOut_parm xOut_pipe

/-- C13's classification of an arrival, as the judge applies it -/
def verdictOf (resp : Bool) (ttl : Nat) (b : Bytes) : BtSpec.Verdict :=
  if resp then BtSpec.classify ttl b else BtSpec.classifyNoTtl capWords b

/-- what recv_cb must do for a verdict: the raw RESPONDENT puts the pipe id in front of the backtrace -/
def verdictOut (resp : Bool) (p : Nat) : BtSpec.Verdict → Bt.Outcome
  | .accept bt pl => .deliver ((if resp then idWord p else []) ++ bt) pl
  | .drop => .drop
  | .malformed => .closePipe

/-- the kind's recv_cb follows the classification (discharged per kind from `C13.D5_classification`) -/
def RecvSpec (resp : Bool) (k : Kind) : Prop :=
  ∀ ttl p b, ttl ≤ Nng.Generated.maxMaxTtl → k.recvFn ttl p b = verdictOut resp p (verdictOf resp ttl b)

theorem arrival_accept (resp : Bool) (j : XJ) (p : Nat) (b : Bytes) (outs : List Out) (bt pl : Bytes)
    (hv : verdictOf resp j.ttl b = .accept bt pl) (ho : outs.contains (.pclosed p) = false) :
    arrival resp j p b outs = { j with held := j.held ++ [⟨p, (if resp then idWord p else []) ++ bt, pl, false⟩] } := by
  unfold arrival
  unfold verdictOf at hv
  simp only [hv, ho]
  cases resp <;> simp

theorem arrival_malformed (resp : Bool) (j : XJ) (p : Nat) (b : Bytes) (outs : List Out)
    (hv : verdictOf resp j.ttl b = .malformed) (ho : outs.contains (.pclosed p) = true) :
    arrival resp j p b outs = j := by
  unfold arrival
  unfold verdictOf at hv
  simp only [hv, ho]
  rfl

theorem arrival_drop (resp : Bool) (j : XJ) (p : Nat) (b : Bytes) (outs : List Out)
    (hv : verdictOf resp j.ttl b = .drop) (ho : outs.contains (.pclosed p) = false) :
    arrival resp j p b outs = j := by
  unfold arrival
  unfold verdictOf at hv
  simp only [hv, ho]
  rfl

theorem xPre_recvDone (resp : Bool) (j : XJ) (p : Nat) (b : Bytes) (o : List Out) :
    xPre resp j (.recvDone p (.ok b)) ([Out.rv 0] ++ o) = (arrival resp j p b ([Out.rv 0] ++ o), none) := by
  simp [xPre]

theorem strip_set2 {ps : List Pipe} {p : Nat} {pp x y : Pipe} (hg : ps[p]? = some pp) (e : strip y = strip pp) :
    ((ps.set p x).set p y).map strip = ps.map strip := by
  rw [List.set_set]; exact strip_set hg e

theorem mem_parm_not_pclosed {os : List Out} (h : ∀ o ∈ os, ∃ p, o = Out.parm p) (p : Nat) :
    ([Out.rv 0] ++ os).contains (.pclosed p) = false := by
  rw [List.contains_eq_mem, decide_eq_false_iff_not]
  intro hm
  rcases List.mem_append.1 hm with h1 | h1
  · simp at h1
  · obtain ⟨q, hq⟩ := h _ h1; cases hq

theorem filter_head_tags (g : Get) (gs : List Get) (hn : ((g :: gs).map (·.tag)).Nodup) :
    ((g :: gs).map (fun g => (g.tag, false))).filter (·.1 != g.tag) = gs.map (fun g => (g.tag, false)) := by
  simp only [List.map_cons, List.nodup_cons] at hn
  simp only [List.map_cons, List.filter_cons, bne_self_eq_false, Bool.false_eq_true, if_false]
  rw [List.filter_eq_self]
  intro x hx
  obtain ⟨y, hy, rfl⟩ := List.mem_map.1 hx
  simp only [bne_iff_ne, ne_eq]
  intro e
  exact hn.1 (List.mem_map.2 ⟨y, hy, e⟩)

/-! ### recv_cb, by what the header processing says and whether a reader waits -/

theorem pipeRecv_drop {k : Kind} {s : State} {p : Nat} {pp : Pipe} {b : Bytes} (h : k.recvFn s.ttl p b = .drop) :
    pipeRecv k s p pp b = (setPipe (setPipe s p { pp with armed := false }) p { pp with armed := true }, [.parm p]) := by
  unfold pipeRecv
  have httl : (setPipe s p { pp with armed := false }).ttl = s.ttl := rfl
  simp only [httl, h]

theorem pipeRecv_close {k : Kind} {s : State} {p : Nat} {pp : Pipe} {b : Bytes} (h : k.recvFn s.ttl p b = .closePipe) :
    pipeRecv k s p pp b = closePipe (setPipe s p { pp with armed := false }) p := by
  unfold pipeRecv
  have httl : (setPipe s p { pp with armed := false }).ttl = s.ttl := rfl
  simp only [httl, h]

/-- accepted, a reader waits: handed over at once -/
theorem pipeRecv_reader {k : Kind} {s : State} {p : Nat} {pp : Pipe} {b hd pl : Bytes} {g : Get} {gs : List Get}
    (hg : getPipe s p = some pp) (h : k.recvFn s.ttl p b = .deliver hd pl) (hgq : s.urq.getq = g :: gs) (hq : s.urq.putq = []) :
    ∃ s1, pipeRecv k s p pp b = (s1, [.done g.tag 0 (some ⟨hd, pl⟩) false, .parm p]) ∧ s1.ttl = s.ttl ∧
      s1.pipes.map strip = s.pipes.map strip ∧ s1.urq = { s.urq with putq := [], getq := gs } ∧
      s1.accepted = s.accepted ++ [⟨p, s.ttl, b, ⟨hd, pl⟩⟩] := by
  unfold pipeRecv
  have httl : (setPipe s p { pp with armed := false }).ttl = s.ttl := rfl
  have hurq : (setPipe s p { pp with armed := false }).urq = s.urq := rfl
  simp only [httl, h, hurq]
  rw [aioPut_reader s.urq _ g gs hgq hq]
  simp only [applyEvents_one, urqEvent_handed]
  refine ⟨_, rfl, ?_, ?_, ?_, ?_⟩
  · exact (armPipe_rest _ _).1
  · show (armPipe _ _).pipes.map strip = _
    rw [armPipe_strip]; exact setPipe_armed_strip hg false
  · exact (armPipe_rest _ _).2.1
  · exact (armPipe_rest _ _).2.2.2.1

/-- accepted, no reader: stored, or the pipe's writer parks -/
theorem pipeRecv_queue {k : Kind} {s : State} {p : Nat} {pp : Pipe} {b hd pl : Bytes}
    (hg : getPipe s p = some pp) (h : k.recvFn s.ttl p b = .deliver hd pl) (hgq : s.urq.getq = []) :
    ∃ s1 os, pipeRecv k s p pp b = (s1, os) ∧ (∀ o ∈ os, ∃ q, o = Out.parm q) ∧ s1.ttl = s.ttl ∧
      s1.pipes.map strip = s.pipes.map strip ∧ s1.urq.getq = [] ∧
      (∀ ips, ips.length = s.urq.items.length →
        ∃ ips1, ips1.length = s1.urq.items.length ∧ pendP ips1 s1.urq = pendP ips s.urq ++ [(p, ⟨hd, pl⟩)]) ∧
      s1.accepted = s.accepted ++ [⟨p, s.ttl, b, ⟨hd, pl⟩⟩] := by
  unfold pipeRecv
  have httl : (setPipe s p { pp with armed := false }).ttl = s.ttl := rfl
  have hurq : (setPipe s p { pp with armed := false }).urq = s.urq := rfl
  simp only [httl, h, hurq]
  obtain ⟨a1, _, _, _, _, a6⟩ := aioPut_noreader s.urq ⟨p, ⟨hd, pl⟩, none⟩ hgq
  have hP := fun ips hl => aioPut_noreaderP s.urq ⟨p, ⟨hd, pl⟩, none⟩ ips hgq hl
  revert a1 a6 hP
  generalize aioPut s.urq ⟨p, ⟨hd, pl⟩, none⟩ = rr
  obtain ⟨q1, es⟩ := rr
  intro a1 a6 hP
  simp only [] at a1 a6 hP ⊢
  unfold applyEvents
  obtain ⟨ps, os, e1, e2, e3⟩ := applyQueued_sim es _ [] a6
  refine ⟨_, _, e1, ?_, rfl, ?_, a1, hP, rfl⟩
  · simpa using e3
  · show ps.map strip = _
    rw [e2]; exact setPipe_armed_strip hg false

theorem ev_recvDone {k : Kind} {sel : Sel} {resp : Bool} {s : State} {j : XJ} (hk : KindOK k sel) (hrf : RecvSpec resp k)
    (hI : Inv k sel s) (hR : R s j) (ho : s.opened = true) (hc : s.closed = false) (p : Nat) (r : Except Nat Bytes)
    (hA : ((step k s (.recvDone p r)).1.accepted.map (·.m.body)).Nodup) :
    R (step k s (.recvDone p r)).1 (xStep resp j (.recvDone p r) (step k s (.recvDone p r)).2) := by
  have hI1 := step_inv hk s (.recvDone p r) hI
  revert hI1 hA
  unfold step
  rw [if_neg (by simp [ho]), if_neg (by simp [hc])]
  simp only []
  have hc0 := hR.core
  cases hg : getPipe s p with
  | none =>
    intro _ hI1
    exact step_inert hI1 hc0 (by simp [inert]) (by cases r <;> simp [xPre])
  | some pp =>
    simp only []
    by_cases hcb : (pp.closed || !pp.armed) = true
    · rw [if_pos hcb]
      intro _ hI1
      exact step_inert hI1 hc0 (by simp [inert]) (by cases r <;> simp [xPre])
    · rw [if_neg hcb]
      simp only [Bool.or_eq_true, Bool.not_eq_true', not_or, Bool.not_eq_true, Bool.not_eq_false] at hcb
      obtain ⟨hcl, _⟩ := hcb
      have hg0 : s.pipes[p]? = some pp := hg
      have hpr := hc0.pipes p pp hg0
      have hplive : p ∈ j.live := hpr.live.2 hcl
      have hplt : p < s.pipes.length := lt_of_get hg0
      cases r with
      | error e =>
        simp only []
        have e1 : (closePipe s p).2 = [.pclosed p] := by rw [closePipe_eq hg hcl]
        rw [e1]
        intro _ hI1
        refine step_finish hI1 hc0.err (by simp [notExecuted]) ?_ (by rfl) (by simp [isBlocked]) (by simp [pollOf])
        have : procOuts resp ([Out.rv 0] ++ [.pclosed p]) (xPre resp j (.recvDone p (.error e)) ([Out.rv 0] ++ [.pclosed p])).1 =
            xOut resp j (.pclosed p) := by
          simp [procOuts, isDone, pipeStep, xPre]
        rw [this]
        exact closePipe_Rc hc0 hg hcl
      | ok b =>
        simp only []
        -- the state with the receive disarmed
        have hg1 : getPipe (setPipe s p { pp with armed := false }) p = some { pp with armed := false } := set_get_self hg0
        have hR0 : Rc (setPipe s p { pp with armed := false }) j :=
          hc0.frame rfl (setPipe_armed_strip hg false) rfl rfl
        have hrf1 := hrf s.ttl p b hI.core.ttl
        have hjt : verdictOf resp j.ttl b = verdictOf resp s.ttl b := by rw [hc0.ttl]
        cases hv : verdictOf resp s.ttl b with
        | drop =>
          rw [hv] at hrf1
          rw [pipeRecv_drop hrf1]
          intro _ hI1
          have hpre : xPre resp j (.recvDone p (.ok b)) ([Out.rv 0] ++ [.parm p]) = (j, none) := by
            rw [xPre_recvDone, arrival_drop resp j p b _ (by rw [hjt, hv]) (by simp)]
          refine step_inert hI1 ?_ (by simp [inert]) hpre
          exact hc0.frame rfl (strip_set2 hg0 rfl) rfl rfl
        | malformed =>
          rw [hv] at hrf1
          rw [pipeRecv_close hrf1]
          have hcl1 : ({ pp with armed := false } : Pipe).closed = false := hcl
          have e1 : (closePipe (setPipe s p { pp with armed := false }) p).2 = [.pclosed p] := by rw [closePipe_eq hg1 hcl1]
          rw [e1]
          intro _ hI1
          refine step_finish hI1 hc0.err (by simp [notExecuted]) ?_ ?_ (by simp [isBlocked]) (by simp [pollOf])
          · rw [xPre_recvDone, arrival_malformed resp j p b _ (by rw [hjt, hv]) (by simp)]
            have : procOuts resp ([Out.rv 0] ++ [.pclosed p]) j = xOut resp j (.pclosed p) := by
              simp [procOuts, isDone, pipeStep]
            rw [this]
            exact closePipe_Rc hR0 hg1 hcl1
          · rw [xPre_recvDone]; rfl
        | accept bt pl =>
          rw [hv] at hrf1
          simp only [verdictOut] at hrf1
          have harr : ∀ outs : List Out, outs.contains (.pclosed p) = false →
              arrival resp j p b outs = { j with held := j.held ++ [⟨p, (if resp then idWord p else []) ++ bt, pl, false⟩] } :=
            fun outs h => arrival_accept resp j p b outs bt pl (by rw [hjt, hv]) h
          revert harr hrf1
          generalize (if resp then idWord p else []) ++ bt = hd
          intro hrf1 harr
          obtain ⟨ips, hl, hr⟩ := hc0.held
          have hu := hI.core.urq
          have hnD : ¬ (p < s.pipes.length ∧ p ∉ j.live) := fun h => h.2 hplive
          -- consequences of the freshness of the payload
          have hfacts : ((s.accepted ++ [(⟨p, s.ttl, b, ⟨hd, pl⟩⟩ : Arr)]).map (·.m.body)).Nodup →
              ((j.held ++ [(⟨p, hd, pl, false⟩ : Held)]).map (·.body)).Nodup ∧
              (∀ x ∈ j.held ++ [(⟨p, hd, pl, false⟩ : Held)], x.body ∈ (s.accepted ++ [(⟨p, s.ttl, b, ⟨hd, pl⟩⟩ : Arr)]).map (·.m.body)) ∧
              (∀ x ∈ j.held ++ [(⟨p, hd, pl, false⟩ : Held)], x.pipe < s.pipes.length) := by
            intro hAcc
            have hfresh : pl ∉ s.accepted.map (·.m.body) := by
              rw [List.map_append, List.nodup_append] at hAcc
              intro hm; exact hAcc.2.2 _ hm _ (by simp) rfl
            have hfh : pl ∉ j.held.map (·.body) := by
              intro hm
              obtain ⟨x, hx, e⟩ := List.mem_map.1 hm
              rw [← e] at hfresh
              exact hfresh (hc0.heldA x hx)
            refine ⟨?_, ?_, ?_⟩
            · rw [List.map_append, List.nodup_append]
              refine ⟨hc0.heldN, by simp, ?_⟩
              intro x hx y hy
              simp only [List.map_cons, List.map_nil, List.mem_singleton] at hy
              subst hy
              intro e; subst e; exact hfh hx
            · intro x hx
              rcases List.mem_append.1 hx with h1 | h1
              · have := hc0.heldA x h1
                simp only [List.map_append, List.mem_append]
                exact Or.inl this
              · simp only [List.mem_singleton] at h1; subst h1; simp
            · intro x hx
              rcases List.mem_append.1 hx with h1 | h1
              · exact hc0.heldP x h1
              · simp only [List.mem_singleton] at h1; subst h1; exact hplt
          cases hgq : s.urq.getq with
          | cons g gs =>
            -- a reader waits: the arrival goes straight to it
            obtain ⟨hi, hq⟩ := hu.rd (by rw [hgq]; simp)
            obtain ⟨s1, e1, t1, t2, t3, t4⟩ := pipeRecv_reader (gs := gs) hg hrf1 hgq hq
            rw [e1]
            simp only []
            intro hA hI1
            rw [t4] at hA
            obtain ⟨hnd, hsub, hbd⟩ := hfacts hA
            rw [pendP_nil _ _ hi hq] at hr
            have hr1 := hr.snoc p ⟨hd, pl⟩ false hnD
            simp only [List.nil_append] at hr1
            refine step_finish hI1 hc0.err (by simp [notExecuted]) ?_ ?_ (by simp [isBlocked]) (by simp [pollOf])
            · rw [xPre_recvDone, harr _ (by simp)]
              simp only [procOuts, List.cons_append, List.nil_append, List.foldl_cons, List.foldl_nil, pipeStep, List.filter,
                isDone, doneStep, Bool.not_true, Bool.not_false, xOut_parm, xOut_rv]
              have hfind : ({ j with held := j.held ++ [⟨p, hd, pl, false⟩] } : XJ).recvs.find?
                  (·.1 == g.tag) = some (g.tag, false) := by
                show j.recvs.find? (·.1 == g.tag) = _
                rw [hc0.recvs, hgq]; simp
              rw [xDone_recv_ok resp _ g.tag g.tag false false _ hfind (fun hx => by cases hx)]
              obtain ⟨h, e1, e2⟩ := deliver_head { j with held := j.held ++ [⟨p, hd, pl, false⟩], recvs := j.recvs.filter (·.1 != g.tag) } g.tag p ⟨hd, pl⟩ [] hr1 hnd
              rw [e1]
              refine hc0.urq t1 t2 _ _ ?_ ?_ ⟨[], ?_, ?_⟩ (erase_nodup_body _ _ hnd) ?_ ?_
              · rw [t3, hc0.recvs, hgq]
                have := hc0.tags; rw [hgq] at this
                exact filter_head_tags g gs this
              · rw [t3]
                have := hc0.tags; rw [hgq] at this
                simp only [List.map_cons, List.nodup_cons] at this
                exact this.2
              · rw [t3]; exact hi.symm ▸ rfl
              · rw [t3, pendP_nil [] { s.urq with putq := [], getq := gs } hi rfl]; exact e2
              · intro x hx; rw [t4]; exact hsub x (List.mem_of_mem_erase hx)
              · intro x hx; exact hbd x (List.mem_of_mem_erase hx)
            · rw [xPre_recvDone]; rfl
          | nil =>
            -- no reader: the arrival is stored or its writer parks
            obtain ⟨s1, os, e1, e3, t1, t2, t3, t5, t4⟩ := pipeRecv_queue hg hrf1 hgq
            rw [e1]
            simp only []
            intro hA hI1
            rw [t4] at hA
            obtain ⟨hnd, hsub, hbd⟩ := hfacts hA
            obtain ⟨ips1, l1, p1⟩ := t5 ips hl
            have hin : ∀ o ∈ [Out.rv 0] ++ os, inert o = true := by
              intro o ho
              rcases List.mem_append.1 ho with h1 | h1
              · simp at h1; subst h1; rfl
              · obtain ⟨q, rfl⟩ := e3 o h1; rfl
            refine step_finish hI1 hc0.err (notExecuted_inert _ hin) ?_ ?_ (blocked_inert _ hin) ?_
            · rw [xPre_recvDone, harr _ (mem_parm_not_pclosed e3 p)]
              rw [procOuts_inert _ _ _ hin]
              have : ({ j with held := j.held ++ [⟨p, hd, pl, false⟩] } : XJ) =
                  { j with recvs := j.recvs, held := j.held ++ [⟨p, hd, pl, false⟩] } := rfl
              rw [this]
              refine hc0.urq t1 t2 _ _ ?_ ?_ ⟨ips1, l1, ?_⟩ hnd ?_ hbd
              · rw [t3, hc0.recvs, hgq]
              · rw [t3]; simp
              · rw [p1]; exact hr.snoc p ⟨hd, pl⟩ false hnD
              · rw [t4]; exact hsub
            · rw [xPre_recvDone]; rfl
            · intro rd wr hp; rw [pollOf_inert _ hin] at hp; cases hp

end Nng.RawSurv
