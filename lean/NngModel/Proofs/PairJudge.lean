/-
  C08: every trace of the PAIR machine (any variant that agrees with the judge's protocol
  version, see `VJ`) is accepted by the trace predicate of Spec/Pair.lean.  Simulation: a
  relation `R` between the model state and the judge state is preserved by one model step
  and one judge step on the model's outputs.

  This file: the judge's lists versus the model's buffers (`UR`), the judge on single
  outputs, the relation, the end-of-step clauses.
-/
import NngModel.Proofs.PairStep
import NngModel.Proofs.PairFresh
import NngModel.Proofs.PairHop
import NngModel.Spec.Pair
namespace Nng.Pair0
open Nng Nng.Proto Nng.PairSpec

/-! ### the judge without the receive-liveness clause

  `pairStepWith` = `pairStepWithOld` followed (at quiescent steps) by the clause `pairLive`.  The
  simulation (`R`, `R'`, the per-event lemmas) is carried out for `pairStepOld`; Proofs/PairLive.lean
  and the end of Proofs/PairJudgeMain.lean add the clause. -/

def pairStepWithOld (nq : Bool) (j : PairJ) (ev : Ev) (outs : List Out) : PairJ :=
  if j.err.isSome then j else
  if notExecuted outs then j else
  let pre := pairPre nq { j with lastPoll := none } ev outs
  let j' := pairPost nq j.lastPoll pre.2 ev outs (pairMid nq pre.2 ev outs pre.1)
  if nq then j' else pairQuiescent j'

def pairStepOld (j : PairJ) (ev : Ev) (outs : List Out) : PairJ := pairStepWithOld false j ev outs

/-! ### the judge's "accepted, not yet handed off" lists versus the model's buffers -/

/-- `UR u w`: the judge's list `u` is the buffer `w` (in order, any flag) interleaved with
    entries of messages discarded meanwhile (shrink, close, peer loss), which are all excused -/
inductive UR : List Acc → List WMsg → Prop
  | nil : UR [] []
  | keep (x : WMsg) (b : Bool) {u : List Acc} {w : List WMsg} : UR u w → UR (⟨x, b⟩ :: u) (x :: w)
  | skip (y : WMsg) {u : List Acc} {w : List WMsg} : UR u w → UR (⟨y, true⟩ :: u) w

theorem UR.snoc {u : List Acc} {w : List WMsg} (h : UR u w) (x : WMsg) :
    UR (u ++ [⟨x, false⟩]) (w ++ [x]) := by
  induction h with
  | nil => exact .keep x false .nil
  | keep x' b _ ih => exact .keep x' b ih
  | skip y _ ih => exact .skip y ih

/-- once everything is excused, any part of the buffer may disappear -/
theorem UR.sub {u : List Acc} {w : List WMsg} (h : UR u w) :
    ∀ {w' : List WMsg}, w'.Sublist w → UR (excuseAll u) w' := by
  induction h with
  | nil => intro w' hs; cases hs; exact .nil
  | keep x b _ ih =>
    intro w' hs
    cases hs with
    | cons _ hs' => exact .skip x (ih hs')
    | cons_cons _ hs' => exact .keep x true (ih hs')
  | skip y _ ih => intro w' hs; exact .skip y (ih hs)

theorem UR.excuse {u : List Acc} {w : List WMsg} (h : UR u w) : UR (excuseAll u) w :=
  h.sub (List.Sublist.refl w)

theorem UR.nil_live {u : List Acc} (h : UR u []) : liveCount u = 0 := by
  generalize hw : ([] : List WMsg) = w at h
  induction h with
  | nil => rfl
  | keep x b _ _ => simp at hw
  | skip y _ ih => simpa [liveCount, List.filter_cons] using ih hw

theorem UR.live_len {u : List Acc} {w : List WMsg} (h : UR u w) : liveCount u ≤ w.length := by
  induction h with
  | nil => simp [liveCount]
  | keep x b _ ih =>
    simp only [liveCount, List.filter_cons] at ih ⊢
    split <;> simp <;> omega
  | skip y _ ih => simpa [liveCount, List.filter_cons] using ih

theorem UR.mem {u : List Acc} {w : List WMsg} (h : UR u w) : ∀ x ∈ w, x ∈ u.map (·.m) := by
  induction h with
  | nil => simp
  | keep x' b _ ih =>
    intro x hx
    rcases List.mem_cons.1 hx with rfl | hx
    · simp
    · simpa using Or.inr (by simpa using ih x hx)
  | skip y _ ih => intro x hx; simpa using Or.inr (by simpa using ih x hx)

/-- handing off the head of the buffer: the judge finds it behind excused entries only -/
theorem UR.pop {u : List Acc} {w0 : List WMsg} (h : UR u w0) :
    ∀ {x : WMsg} {w : List WMsg}, w0 = x :: w → (u.map (·.m)).Nodup →
    ∃ i, u.findIdx? (·.m == x) = some i ∧ ((u.take i).any (fun a => !a.excused)) = false ∧
      UR (u.drop (i + 1)) w := by
  induction h with
  | nil => intro x w hw; simp at hw
  | keep x' b hrest _ =>
    intro x w hw _
    simp only [List.cons.injEq] at hw
    obtain ⟨rfl, rfl⟩ := hw
    exact ⟨0, by simp [List.findIdx?_cons], by simp, by simpa using hrest⟩
  | skip y hrest ih =>
    intro x w hw hn
    simp only [List.map_cons, List.nodup_cons] at hn
    obtain ⟨i, h1, h2, h3⟩ := ih hw hn.2
    refine ⟨i + 1, ?_, ?_, ?_⟩
    · have hx := hrest.mem x (by rw [hw]; simp)
      have : (y == x) = false := by
        cases hyx : (y == x) with
        | false => rfl
        | true =>
          have : y = x := by simpa using hyx
          exact absurd (this ▸ hx) hn.1
      simp [List.findIdx?_cons, this, h1]
    · simpa [List.take_succ_cons] using h2
    · simpa using h3

/-! ### the judge on single outputs -/

theorem pairOut_rv (nb : Nb) (j : PairJ) (n : Int) : pairOut nb j (.rv n) = j := rfl
theorem pairOut_rv2 (nb : Nb) (j : PairJ) (n v : Int) : pairOut nb j (.rv2 n v) = j := rfl
theorem pairOut_pipe (nb : Nb) (j : PairJ) (n : Int) : pairOut nb j (.pipe n) = j := rfl
theorem pairOut_poll (nb : Nb) (j : PairJ) (r w : Option Bool) : pairOut nb j (.poll r w) = j := rfl

theorem pairOut_pclosed_live {nb : Nb} {j : PairJ} {p : Nat} (h : j.live = some p) :
    pairOut nb j (.pclosed p) = { j with live := none, busy := false, armed := false, held := excuseAll j.held } := by
  simp [pairOut, h]

theorem pairOut_pclosed_other {nb : Nb} {j : PairJ} {p : Nat} (h : j.live ≠ some p) :
    pairOut nb j (.pclosed p) = j := by
  simp [pairOut, h]

theorem pairOut_parm {nb : Nb} {j : PairJ} {p : Nat} (h : j.live = some p) (ha : j.armed = false) :
    pairOut nb j (.parm p) = { j with armed := true } := by
  simp [pairOut, h, ha]

theorem pairOut_psend {nb : Nb} {j : PairJ} {p i : Nat} {m : WMsg} (hl : j.live = some p) (hb : j.busy = false)
    (h1 : m ∉ j.wired) (h3 : j.unsent.findIdx? (·.m == m) = some i)
    (h4 : ((j.unsent.take i).any (fun a => !a.excused)) = false) :
    pairOut nb j (.psend p m) =
      { j with unsent := j.unsent.drop (i + 1), wired := j.wired ++ [m], busy := true } := by
  have h1' : j.wired.contains m = false := by simpa using h1
  simp only [pairOut, hl, hb, h1', h3, h4]
  simp

def badHdr (v1 raw : Bool) (m : WMsg) : Bool := v1 && raw && !rawHeaderOk m.hdr

theorem sendCompletion_ok {j : PairJ} {a : Nat} {m : WMsg} (hb : badHdr j.v1 j.raw m = false) :
    sendCompletion j a 0 m false =
      { j with pendingS := j.pendingS.filter (·.1 != a),
               unsent := j.unsent ++ [⟨wireForm j.v1 j.raw m, false⟩] } := by
  unfold badHdr at hb
  simp [sendCompletion, hb, Err.eproto]

theorem sendCompletion_fail {j : PairJ} {a rv : Nat} {m : WMsg} (hrv : rv ≠ 0)
    (hb : badHdr j.v1 j.raw m = (rv == Err.eproto)) :
    sendCompletion j a rv m true = { j with pendingS := j.pendingS.filter (·.1 != a) } := by
  unfold badHdr at hb
  unfold sendCompletion
  simp only [hb]
  cases h : (rv == Err.eproto) <;> simp [hrv]

theorem pairOut_done_send {nb : Nb} {j : PairJ} {a rv : Nat} {msg : Option WMsg} {mb : Bool} {m : WMsg}
    (h : (∃ a', j.pendingS.find? (·.1 == a) = some (a', m)) ∨
         (j.pendingS.find? (·.1 == a) = none ∧ nb = .send a m)) :
    pairOut nb j (.done a rv msg mb) = sendCompletion j a rv m mb := by
  unfold pairOut
  rcases h with ⟨a', h⟩ | ⟨h, rfl⟩
  · simp [h]
  · simp [h]

def nbNotSend (nb : Nb) (a : Nat) : Prop := match nb with | .send a' _ => a' ≠ a | _ => True

theorem pairOut_done_recv {nb : Nb} {j : PairJ} {a rv : Nat} {msg : Option WMsg} {mb : Bool}
    (h1 : j.pendingS.find? (·.1 == a) = none) (h2 : nbNotSend nb a)
    (h3 : a ∈ j.waitingR ∨ nb = .recv a) :
    pairOut nb j (.done a rv msg mb) = recvCompletion j a rv msg := by
  unfold pairOut
  simp only [h1]
  cases nb with
  | none => rcases h3 with h | h; simp [h]; cases h
  | recv a' =>
    rcases h3 with h | h
    · simp [h]
    · cases h; simp
  | send a' m =>
    have : (a' == a) = false := by simpa [nbNotSend] using h2
    rcases h3 with h | h
    · simp [this, h]
    · cases h

theorem recvCompletion_fail {j : PairJ} {a rv : Nat} (hrv : rv ≠ 0) :
    recvCompletion j a rv none = { j with waitingR := j.waitingR.filter (· != a) } := by
  unfold recvCompletion
  cases rv with
  | zero => exact absurd rfl hrv
  | succ n => rfl

theorem recvCompletion_ok {j : PairJ} {a i : Nat} {m : WMsg}
    (h3 : j.held.findIdx? (·.m == m) = some i)
    (h4 : ((j.held.take i).any (fun a => !a.excused)) = false) :
    recvCompletion j a 0 (some m) =
      { j with waitingR := j.waitingR.filter (· != a), held := j.held.drop (i + 1),
               delivered := j.delivered ++ [m] } := by
  simp [recvCompletion, h3, h4]

/-! ### the end-of-step clauses -/

theorem pairQuiescent_eq (j : PairJ)
    (h1 : (j.live.isSome && !j.busy) = true → liveCount j.unsent = 0 ∧ j.pendingS = [])
    (h2 : liveCount j.unsent ≤ j.scap)
    (h3 : j.waitingR ≠ [] → liveCount j.held = 0)
    (h4 : liveCount j.held ≤ j.rcap + 1)
    (h5 : j.armed = true → liveCount j.held ≤ j.rcap) : pairQuiescent j = j := by
  unfold pairQuiescent
  split
  · rfl
  · simp only []
    rw [if_neg, if_neg, if_neg, if_neg, if_neg, if_neg]
    · intro h; simp only [Bool.and_eq_true, decide_eq_true_eq] at h; have := h5 h.1; omega
    · intro h; omega
    · intro h; simp only [Bool.and_eq_true, decide_eq_true_eq, Bool.not_eq_true', List.isEmpty_eq_false_iff] at h
      have := h3 h.1; omega
    · intro h; simp only [Bool.and_eq_true, Bool.not_eq_true', List.isEmpty_eq_false_iff] at h
      exact h.2 (h1 (by simpa using h.1)).2
    · intro h; omega
    · intro h; simp only [Bool.and_eq_true, decide_eq_true_eq] at h
      have := (h1 (by simpa using h.1)).1; omega

/-! ### the relation -/

/-- what the variant must have in common with the judge's protocol version `v1` -/
structure VJ (V : Variant) (v1 : Bool) : Prop where
  bufS : V.sendBufInit = 0
  bufR : V.recvBufInit = 0
  hasTtl : V.hasTtl = v1
  ttlInit : v1 = true → V.ttlInit = defaultTtl
  prepOk : ∀ raw m m', V.txPrep raw m = .ok m' → badHdr v1 raw m = false ∧ V.txWire m' = wireForm v1 raw m
  prepErr : ∀ raw m e, V.txPrep raw m = .error e → e = Err.eproto ∧ badHdr v1 raw m = true
  rx : ∀ ttl b, Nng.Pair1.toSpec (V.rxDecide ttl b) = arrivalRule v1 ttl b

/-- an arrived message is identified by its bytes -/
def key (e : Acc) : Bytes := e.m.hdr ++ e.m.body

/-- the bodies of all send operations the judge still knows about -/
def allB (j : PairJ) : List Bytes :=
  j.pendingS.map (·.2.body) ++ (j.unsent.map (·.m.body) ++ j.wired.map (·.body))

structure R (V : Variant) (v1 : Bool) (seenS seenR : List Bytes) (s : State) (j : PairJ) : Prop where
  err : j.err = none
  jv1 : j.v1 = v1
  peer : j.peerProto = V.peer
  raw : j.raw = s.raw
  ttl : v1 = true → j.ttl = s.ttl
  live : j.live = s.cur
  busy : j.busy = (s.cur.isSome && !s.wrReady)
  armed : j.armed = s.pipes.any (·.armed)
  pend : j.pendingS.map (fun x => (x.1, wireForm v1 s.raw x.2)) = s.waq.map (fun pk => (pk.aio, V.txWire pk.msg.m))
  pendOk : ∀ x ∈ j.pendingS, badHdr v1 s.raw x.2 = false
  unsent : UR j.unsent (s.wmq.map (fun g => V.txWire g.m))
  scap : j.scap = s.wmqCap
  rcap : j.rcap = s.rmqCap
  waitR : j.waitingR = s.raq.map (·.aio)
  held : UR j.held ((s.rmq ++ s.held.toList).map (·.m))
  closed : j.closed = s.closed
  disj : ∀ pk ∈ s.waq, ∀ r ∈ s.raq, pk.aio ≠ r.aio
  waqNd : (s.waq.map (·.aio)).Nodup
  raqNd : (s.raq.map (·.aio)).Nodup
  racing : j.racing = false
  nopoll : j.lastPoll = none
  nodupS : (allB j).Nodup
  subS : ∀ b ∈ allB j, b ∈ seenS
  nodupR : (j.held.map key).Nodup
  subR : ∀ e ∈ j.held, key e ∈ seenR

theorem quiescent_ok {V : Variant} {v1 : Bool} {sS sR : List Bytes} {s : State} {j : PairJ}
    (hA : All V s) (hR : R V v1 sS sR s j) : pairQuiescent j = j := by
  have hi := hA.inv
  have hheld : s.rdReady = false → s.held = none := fun h => held_none_of s hi h
  apply pairQuiescent_eq
  · intro h
    rw [hR.live, hR.busy] at h
    have hw : s.wrReady = true := by
      cases hc : s.cur <;> cases hw : s.wrReady <;> simp [hc, hw] at h ⊢
    obtain ⟨e1, e2⟩ := hi.wrEmpty hw
    have hu := hR.unsent
    rw [e1] at hu
    refine ⟨hu.nil_live, ?_⟩
    have := hR.pend
    rw [e2] at this
    simpa using this
  · have := hR.unsent.live_len
    rw [hR.scap]; simp only [List.length_map] at this; have := hi.wmqLe; omega
  · intro h
    rw [hR.waitR] at h
    have hr : s.raq ≠ [] := by intro e; simp [e] at h
    obtain ⟨e1, e2⟩ := hi.raqEmpty hr
    have hu := hR.held
    rw [e1, hheld e2] at hu
    exact hu.nil_live
  · have := hR.held.live_len
    rw [hR.rcap]
    simp only [List.length_map, List.length_append] at this
    have := hi.rmqLe
    have : s.held.toList.length ≤ 1 := by cases s.held <;> simp
    omega
  · intro h
    rw [hR.armed] at h
    obtain ⟨pp, hpp, ha⟩ := List.any_eq_true.1 h
    have hrd : s.rdReady = false := by
      cases hr : s.rdReady with
      | false => rfl
      | true => have := hA.pinv.heldNotArmed hr pp hpp; rw [ha] at this; cases this
    have := hR.held.live_len
    rw [hheld hrd] at this
    rw [hR.rcap]
    simp only [List.length_map, List.length_append, Option.toList_none, List.length_nil] at this
    have := hi.rmqLe
    omega

end Nng.Pair0
