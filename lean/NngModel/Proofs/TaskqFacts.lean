/- consequences of the invariants used by Props/C02Taskq.lean -/
import NngModel.Proofs.TaskqJudge
namespace Nng.Taskq
open Nng.TaskqSpec

/-- executions of the callback in progress (on workers and inside nni_task_exec) -/
def running (s : State) : Nat := cw .inCb s.ws + cc .execCb s.cs

theorem mem_cw_pos {ws : List WPc} {w : WPc} (h : w ∈ ws) : 1 ≤ cw w ws := by
  obtain ⟨j, hl, hj⟩ := List.getElem_of_mem h
  exact cw_pos (List.getElem?_eq_some_iff.mpr ⟨hl, hj⟩)

/-- the completion counter never goes back -/
theorem dn_wstep (s : State) (j : Nat) (w : WPc) : s.dn ≤ (wstep s j w).dn := by
  cases w <;> unfold wstep
  · by_cases hq : s.onq = true <;> simp [hq]
  · exact Nat.le_refl _
  · simp
  · simp
  · simp [decBusy]

theorem dn_cstep (hasCb : Bool) (s : State) (i : Nat) (c : Client) (pick : Nat) : s.dn ≤ (cstep hasCb s i c pick).dn := by
  obtain ⟨pc, prog, res⟩ := c
  cases pc with
  | idle =>
    cases prog with
    | nil => exact Nat.le_refl _
    | cons op r =>
      cases op <;> unfold cstep
      · simp
      · cases hasCb <;> by_cases hp : s.prep = true <;> simp [take, decBusy, hp]
      · cases hasCb <;> by_cases hp : s.prep = true <;> simp [take, decBusy, hp]
      · by_cases hb : s.busy = 0 <;> simp [hb]
      · simp
  | dispEnq => unfold cstep; by_cases hq : s.onq = true <;> simp [hq]
  | execPop => simp [cstep]
  | execCb => simp [cstep]
  | execAfter => simp [cstep, decBusy]
  | waitSleep => exact Nat.le_refl _
  | waitChk => unfold cstep; by_cases hb : s.busy = 0 <;> simp [hb]

theorem dn_step (hasCb : Bool) (s : State) (ch : Choice) : s.dn ≤ (step hasCb s ch).dn := by
  unfold step
  split
  · exact Nat.le_refl _
  · cases ch.tid with
    | w j =>
      simp only []
      cases s.ws[j]? with
      | none => exact Nat.le_refl _
      | some w => exact dn_wstep s j w
    | c i =>
      simp only []
      cases s.cs[i]? with
      | none => exact Nat.le_refl _
      | some c => exact dn_cstep hasCb s i c ch.pick

theorem dn_run (hasCb : Bool) (s : State) (sched : List Choice) : s.dn ≤ (run hasCb s sched).dn := by
  induction sched generalizing s with
  | nil => exact Nat.le_refl _
  | cons c cs ih => exact Nat.le_trans (dn_step hasCb s c) (ih _)

/-- a client is at one program counter: the four "holds the task" counts together never exceed the number of clients -/
theorem cc_hold_le (cs : List Client) :
    cc .dispEnq cs + cc .execPop cs + cc .execCb cs + cc .execAfter cs ≤ cs.length := by
  induction cs with
  | nil => simp [cc]
  | cons x xs ih =>
    simp only [cc_cons, List.length_cons]
    obtain ⟨pc, prog, res⟩ := x
    cases pc <;> simp [indC] <;> omega

theorem cw_hold_le (ws : List WPc) : cw .popped ws + cw .inCb ws + cw .after ws ≤ ws.length := by
  induction ws with
  | nil => simp [cw]
  | cons x xs ih =>
    simp only [cw_cons, List.length_cons]
    cases x <;> simp [indW] <;> omega

/-- nothing scheduled, nothing running, nothing prepared -/
structure Idle (s : State) : Prop where
  prep : s.prep = false
  owed : s.owed = 0
  onq : s.onq = false
  workers : ∀ w ∈ s.ws, w = .ready ∨ w = .sleep
  clients : ∀ c ∈ s.cs, c.pc = .idle ∨ c.pc = .waitChk
  allRun : s.bw + s.bx = s.sd + s.sx ∧ s.ce = s.sd + s.sx ∧ s.dn = s.sd + s.sx

theorem idle_of_busy_zero {s : State} (hI : Inv s) (hb : s.busy = 0) : Idle s := by
  have h1 := hI.busyEq; have h2 := hI.sdEq; have h3 := hI.sxEq; have h4 := hI.bEq; have h5 := hI.ceEq
  have h8 := hI.sleepers hb
  refine ⟨?_, by omega, ?_, ?_, ?_, by omega⟩
  · cases hp : s.prep with
    | false => rfl
    | true => have := hI.prepOwed hp; omega
  · cases hq : s.onq with
    | false => rfl
    | true => simp [hq] at h1; omega
  · intro w hw
    have := mem_cw_pos hw
    cases w <;> simp <;> omega
  · intro c hc
    have := mem_cc_pos hc
    obtain ⟨pc, prog, res⟩ := c
    cases pc <;> simp at this ⊢ <;> omega

theorem counters_le {s : State} (h : Inv s) : s.bw ≤ s.sd ∧ s.bx ≤ s.sx ∧ s.ce ≤ s.bw + s.bx ∧ s.dn ≤ s.ce := by
  have := h.sdEq; have := h.sxEq; have := h.bEq; have := h.ceEq
  exact ⟨by omega, by omega, by omega, by omega⟩

theorem at_rest {s : State} (h : Inv s) (hp : s.panic = false) (hst : ∀ ch, enabled s ch = false) :
    s.bw = s.sd ∧ s.bx = s.sx ∧ s.ce = s.sd + s.sx ∧ s.dn = s.sd + s.sx := by
  obtain ⟨_, _, hb, _, _⟩ := stuck_shape h hp hst
  have h1 := busy_law h
  have := h.sdEq; have := h.sxEq; have := h.bEq; have := h.ceEq
  refine ⟨by omega, by omega, by omega, by omega⟩

theorem running_le {s : State} (h : Inv s) : running s + s.ce ≤ s.sd + s.sx := by
  have := h.sdEq; have := h.sxEq; have := h.bEq
  simp only [running]; omega

theorem running_le_one {s : State} (h : Inv s) (hs : Serial s) : running s ≤ 1 := by
  have := h.sdEq; have := h.sxEq; have := h.bEq
  unfold Serial at hs
  simp only [running]; omega

theorem no_lost_wakeup_inv {s : State} (h : Inv s) :
    (∀ c ∈ s.cs, c.pc = .waitSleep → 0 < s.busy) ∧ (s.onq = true → ∃ w ∈ s.ws, w ≠ .sleep) := by
  constructor
  · intro c hc hs
    cases hb : s.busy with
    | succ n => omega
    | zero =>
      have := h.sleepers hb
      have := mem_cc_pos hc
      rw [hs] at this
      omega
  · intro hq
    have hlt := h.qworker hq
    cases hall : s.ws.all (· == .sleep) with
    | true =>
      have : cw .sleep s.ws = s.ws.length := cw_all (fun w hw => by simpa using List.all_eq_true.mp hall w hw)
      omega
    | false =>
      simp only [List.all_eq_false, beq_iff_eq] at hall
      exact hall

theorem busy_zero_iff {s : State} (h : Inv s) : s.busy = 0 ↔ (s.owed = 0 ∧ s.sd + s.sx = s.dn) := by
  have h1 := busy_law h
  have := h.sdEq; have := h.sxEq; have := h.bEq; have := h.ceEq
  constructor
  · intro hb; constructor <;> omega
  · intro ⟨_, _⟩; omega

theorem busy_bound {s : State} (h : Inv s) (hK : InvK s) : s.busy ≤ 2 + s.cs.length + s.ws.length := by
  have h1 := h.busyEq
  have h2 := cc_hold_le s.cs
  have h3 := cw_hold_le s.ws
  have h4 : s.owed ≤ 1 := by
    have := hK.k2
    cases hp : s.prep <;> simp [hp] at this <;> omega
  have h5 : s.onq.toNat ≤ 1 := by cases s.onq <;> simp
  omega

theorem no_new_callbacks {s s' : State} (hI : Inv s) (hI' : Inv s') (hdn : s.dn ≤ s'.dn) (hb : s.busy = 0)
    (hsame : s'.sd + s'.sx = s.sd + s.sx) : s'.bw + s'.bx = s.bw + s.bx := by
  have hid := (idle_of_busy_zero hI hb).allRun
  have := hI'.sdEq; have := hI'.sxEq; have := hI'.bEq; have := hI'.ceEq
  omega

theorem respects_snoc (hasCb : Bool) (ch : Choice) (s0 : State) (l : List Choice)
    (h : respects hasCb s0 (l ++ [ch]) = true) :
    respects hasCb s0 l = true ∧ allowed (run hasCb s0 l) ch = true := by
  induction l generalizing s0 with
  | nil => simpa [respects, run] using h
  | cons a as ih =>
    simp only [List.cons_append, respects, Bool.and_eq_true, run, List.foldl_cons] at h ⊢
    have := ih _ h.2
    exact ⟨⟨h.1, this.1⟩, this.2⟩

end Nng.Taskq
