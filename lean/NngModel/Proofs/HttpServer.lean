/-
  C16, HTTP server layer — helper lemmas for Props/C16Server.lean:
  the byte order `strGt` (= strcmp > 0) is a strict linear order, nni_http_server_add_handler keeps the handler
  list sorted, prefixes of one string are ordered by length, and the handler loop `findGo` is "first eligible
  handler, else the last GET candidate for HEAD, else 405/404".
-/
import NngModel.Model.HttpServer
set_option linter.unusedSimpArgs false
namespace Nng.HttpSrv
open Nng Nng.HttpConn

/-! ### strcmp order -/

theorem strGt_irrefl : ∀ a : Bytes, strGt a a = false
  | [] => rfl
  | a :: as => by simp [strGt, strGt_irrefl as]

theorem strGt_trans : ∀ a b c : Bytes, strGt a b = true → strGt b c = true → strGt a c = true
  | [], _, _, h, _ => by simp [strGt] at h
  | _ :: _, [], _, _, h => by simp [strGt] at h
  | _ :: _, _ :: _, [], _, _ => by simp [strGt]
  | a :: as, b :: bs, c :: cs, h1, h2 => by
    simp only [strGt] at h1 h2 ⊢
    by_cases hab : a = b
    · subst hab
      rw [if_pos rfl] at h1
      by_cases hac : a = c
      · subst hac
        rw [if_pos rfl] at h2 ⊢
        exact strGt_trans as bs cs h1 h2
      · rw [if_neg hac] at h2 ⊢
        exact h2
    · rw [if_neg hab] at h1
      by_cases hbc : b = c
      · subst hbc
        rw [if_neg hab]
        exact h1
      · rw [if_neg hbc] at h2
        have h1' : b < a := by simpa using h1
        have h2' : c < b := by simpa using h2
        have hac : a ≠ c := by
          intro e; subst e
          have := UInt8.lt_iff_toNat_lt.1 h1'
          have := UInt8.lt_iff_toNat_lt.1 h2'
          omega
        rw [if_neg hac]
        have := UInt8.lt_iff_toNat_lt.1 h1'
        have := UInt8.lt_iff_toNat_lt.1 h2'
        simp only [gt_iff_lt, decide_eq_true_eq]
        exact UInt8.lt_iff_toNat_lt.2 (by omega)

/-- totality: neither greater ⇒ equal -/
theorem strGt_total : ∀ a b : Bytes, strGt a b = false → strGt b a = false → a = b
  | [], [], _, _ => rfl
  | [], _ :: _, _, h => by simp [strGt] at h
  | _ :: _, [], h, _ => by simp [strGt] at h
  | a :: as, b :: bs, h1, h2 => by
    simp only [strGt] at h1 h2
    by_cases hab : a = b
    · subst hab
      rw [if_pos rfl] at h1 h2
      rw [strGt_total as bs h1 h2]
    · have hba : ¬ b = a := fun e => hab e.symm
      rw [if_neg hab] at h1
      rw [if_neg hba] at h2
      have h1' : ¬ b < a := by simpa using h1
      have h2' : ¬ a < b := by simpa using h2
      have e : a.toNat = b.toNat := by
        have := mt UInt8.lt_iff_toNat_lt.2 h1'
        have := mt UInt8.lt_iff_toNat_lt.2 h2'
        omega
      exact absurd (UInt8.toNat_inj.1 e) hab

/-- `a ≥ b` and `b ≥ c` give `a ≥ c` (where `x ≥ y` is `strGt y x = false`) -/
theorem strGe_trans (a b c : Bytes) (h1 : strGt b a = false) (h2 : strGt c b = false) : strGt c a = false := by
  cases h : strGt c a with
  | false => rfl
  | true =>
    -- c > a and b ≤ a: is c > b?  compare b and c
    cases hbc : strGt b c with
    | true =>
      -- b > c > a contradicts b ≤ a
      have := strGt_trans b c a hbc h
      rw [this] at h1; cases h1
    | false =>
      have e := strGt_total c b h2 hbc
      subst e
      rw [h] at h1; cases h1

/-- `a > b` and `b ≥ c` give `a > c` -/
theorem strGt_of_gt_ge (a b c : Bytes) (h1 : strGt a b = true) (h2 : strGt c b = false) : strGt a c = true := by
  cases hbc : strGt b c with
  | true => exact strGt_trans a b c h1 hbc
  | false =>
    have e := strGt_total c b h2 hbc
    subst e; exact h1

/-- a proper extension of a string is greater than the string -/
theorem strGt_append (p : Bytes) (x : UInt8) (xs : Bytes) : strGt (p ++ x :: xs) p = true := by
  induction p with
  | nil => rfl
  | cons a r ih => simp [strGt, ih]

/-! ### the sorted handler list -/

/-- earlier handlers have uris that are not smaller (strcmp) than those of later ones -/
def Sorted (t : List Handler) : Prop := t.Pairwise fun a b => strGt b.uri a.uri = false

theorem mem_insertSorted (h x : Handler) (t : List Handler) : x ∈ insertSorted h t ↔ x = h ∨ x ∈ t := by
  induction t with
  | nil => simp [insertSorted]
  | cons h2 r ih =>
    unfold insertSorted
    by_cases hg : strGt h.uri h2.uri = true
    · rw [if_pos hg]; simp
    · rw [if_neg hg]
      simp only [List.mem_cons, ih]
      constructor
      · rintro (e | e | e)
        · exact Or.inr (Or.inl e)
        · exact Or.inl e
        · exact Or.inr (Or.inr e)
      · rintro (e | e | e)
        · exact Or.inr (Or.inl e)
        · exact Or.inl e
        · exact Or.inr (Or.inr e)

theorem insertSorted_sorted (h : Handler) (t : List Handler) (hs : Sorted t) : Sorted (insertSorted h t) := by
  induction t with
  | nil => simp [insertSorted, Sorted]
  | cons h2 r ih =>
    have hs' : Sorted r := (List.pairwise_cons.1 hs).2
    have hall : ∀ x ∈ r, strGt x.uri h2.uri = false := (List.pairwise_cons.1 hs).1
    unfold insertSorted
    by_cases hg : strGt h.uri h2.uri = true
    · rw [if_pos hg]
      refine List.pairwise_cons.2 ⟨?_, hs⟩
      intro x hx
      rcases List.mem_cons.1 hx with e | e
      · subst e
        cases hq : strGt x.uri h.uri with
        | false => rfl
        | true => have := strGt_trans _ _ _ hq hg; rw [strGt_irrefl] at this; cases this
      · have hx2 := hall x e
        cases hq : strGt x.uri h.uri with
        | false => rfl
        | true =>
          have := strGt_trans _ _ _ hq hg
          rw [this] at hx2; cases hx2
    · rw [if_neg hg]
      have hg' : strGt h.uri h2.uri = false := by simpa using hg
      refine List.pairwise_cons.2 ⟨?_, ih hs'⟩
      intro x hx
      rcases (mem_insertSorted h x r).1 hx with e | e
      · subst e; exact hg'
      · exact hall x e

/-- every table built with nni_http_server_add_handler from the empty one is sorted -/
theorem addHandler_sorted (t t' : List Handler) (h : Handler) (hs : Sorted t) (ha : addHandler t h = .ok t') : Sorted t' := by
  unfold addHandler at ha
  split at ha
  · cases ha
  · split at ha
    · cases ha
    · cases ha; exact insertSorted_sorted h t hs

/-- the handlers of the new table are the old ones and the new one -/
theorem addHandler_mem (t t' : List Handler) (h x : Handler) (ha : addHandler t h = .ok t') : x ∈ t' ↔ x = h ∨ x ∈ t := by
  unfold addHandler at ha
  split at ha
  · cases ha
  · split at ha
    · cases ha
    · cases ha; exact mem_insertSorted h x t

/-- handlers with the same uri stay in the order they were added: the new one goes behind them -/
theorem insertSorted_after_equal (h : Handler) (t : List Handler) :
    ∃ l1 l2, insertSorted h t = l1 ++ h :: l2 ∧ t = l1 ++ l2 ∧ (∀ x ∈ l1, strGt h.uri x.uri = false) := by
  induction t with
  | nil => exact ⟨[], [], rfl, rfl, by simp⟩
  | cons h2 r ih =>
    unfold insertSorted
    by_cases hg : strGt h.uri h2.uri = true
    · rw [if_pos hg]; exact ⟨[], h2 :: r, rfl, rfl, by simp⟩
    · rw [if_neg hg]
      obtain ⟨l1, l2, e1, e2, e3⟩ := ih
      refine ⟨h2 :: l1, l2, by rw [e1]; rfl, by rw [e2]; rfl, ?_⟩
      intro x hx
      rcases List.mem_cons.1 hx with e | e
      · subst e; simpa using hg
      · exact e3 x e

/-! ### prefixes of one string -/

theorem pathMatch_prefix (h : Handler) (uri : Bytes) (hm : pathMatch h uri = true) : uri.take h.uri.length = h.uri := by
  unfold pathMatch at hm
  by_cases hp : (uri.take h.uri.length != h.uri) = true
  · simp only [hp, if_true] at hm; cases hm
  · simpa using hp

/-- of two prefixes of the same string, the one that is not smaller in byte order is not shorter -/
theorem prefix_order (u p q : Bytes) (hp : u.take p.length = p) (hq : u.take q.length = q) (hge : strGt q p = false) :
    q.length ≤ p.length := by
  by_cases hlt : p.length < q.length
  · exfalso
    -- q = p ++ nonempty
    have hpq : q.take p.length = p := by
      rw [← hq, List.take_take, Nat.min_eq_left (Nat.le_of_lt hlt), hp]
    have hsplit : q = p ++ q.drop p.length := by
      have := List.take_append_drop p.length q
      rw [hpq] at this; exact this.symm
    have hne : q.drop p.length ≠ [] := by
      intro e
      have := congrArg List.length e
      simp at this; omega
    cases hd : q.drop p.length with
    | nil => exact hne hd
    | cons x xs =>
      rw [hd] at hsplit
      rw [hsplit, strGt_append] at hge
      cases hge
  · omega

/-! ### the handler loop -/

/-- candidate: host and path match -/
def cand (host : Option Bytes) (uri : Bytes) (h : Handler) : Bool := hostMatch h.host host && pathMatch h uri
/-- eligible: candidate that takes the method -/
def elig (meth : Bytes) (host : Option Bytes) (uri : Bytes) (h : Handler) : Bool :=
  cand host uri h && (h.method.isEmpty || meth == h.method)
/-- GET candidate for a HEAD request (not eligible itself) -/
def headGet (meth : Bytes) (host : Option Bytes) (uri : Bytes) (h : Handler) : Bool :=
  cand host uri h && !(h.method.isEmpty || meth == h.method) && (meth == sHEAD && h.method == sGET)

/-- the code after the loop -/
def finishFind : Option Handler × Option Handler × Bool → Except Nat Handler
  | (some h, _, _) => .ok h
  | (none, some h, _) => .ok h
  | (none, none, bad) => .error (if bad then stMethodNotAllowed else stNotFound)

theorem findHandler_eq_finish (t : List Handler) (meth : Bytes) (host : Option Bytes) (uri : Bytes) :
    findHandler t meth host uri = finishFind (findGo meth host uri t none false) := by
  unfold findHandler finishFind
  rcases findGo meth host uri t none false with ⟨_ | h, _ | hd, bad⟩ <;> rfl

/-- the loop with its accumulators -/
theorem findGo_spec (meth : Bytes) (host : Option Bytes) (uri : Bytes) :
    ∀ (t : List Handler) (head : Option Handler) (bad : Bool),
      finishFind (findGo meth host uri t head bad) =
        match t.find? (elig meth host uri) with
        | some h => .ok h
        | none =>
          match ((t.filter (headGet meth host uri)).getLast?).or head with
          | some h => .ok h
          | none => .error (if bad || t.any (fun h => cand host uri h && !headGet meth host uri h) then stMethodNotAllowed else stNotFound) := by
  intro t
  induction t with
  | nil =>
    intro head bad
    cases head <;> simp [findGo, finishFind]
  | cons h r ih =>
    intro head bad
    unfold findGo
    by_cases h1 : hostMatch h.host host = true
    · by_cases h2 : pathMatch h uri = true
      · have hc : cand host uri h = true := by simp [cand, h1, h2]
        simp only [h1, h2, Bool.not_true, Bool.false_eq_true, if_false]
        by_cases h3 : h.method.isEmpty = true
        · have he : elig meth host uri h = true := by simp [elig, hc, h3]
          rw [if_pos h3]
          simp [List.find?_cons, he, finishFind]
        · rw [if_neg h3]
          by_cases h4 : (meth == h.method) = true
          · have he : elig meth host uri h = true := by simp [elig, hc, h4]
            rw [if_pos h4]
            simp [List.find?_cons, he, finishFind]
          · rw [if_neg h4]
            have h3' : h.method.isEmpty = false := by simpa using h3
            have h4' : (meth == h.method) = false := by simpa using h4
            have he : elig meth host uri h = false := by simp [elig, hc, h3', h4']
            by_cases h5 : (meth == sHEAD && h.method == sGET) = true
            · rw [if_pos h5]
              have hg : headGet meth host uri h = true := by simp [headGet, hc, h3', h4', h5]
              rw [ih (some h) bad]
              simp only [List.find?_cons, he, List.filter_cons, hg, if_true]
              cases hf : r.find? (elig meth host uri) with
              | some x => rfl
              | none =>
                simp only
                have hany : (h :: r).any (fun h => cand host uri h && !headGet meth host uri h) =
                    r.any (fun h => cand host uri h && !headGet meth host uri h) := by
                  simp [List.any_cons, hg]
                rw [hany]
                cases hl : (r.filter (headGet meth host uri)) with
                | nil => simp [List.getLast?]
                | cons y ys =>
                  have : (h :: y :: ys).getLast? = (y :: ys).getLast? := by simp [List.getLast?_cons_cons]
                  rw [this]
                  cases hq : (y :: ys).getLast? with
                  | none => simp [List.getLast?_eq_none_iff] at hq
                  | some z => simp
            · rw [if_neg h5]
              have h5' : (meth == sHEAD && h.method == sGET) = false := by simpa using h5
              have hg : headGet meth host uri h = false := by simp [headGet, h5']
              rw [ih head true]
              simp only [List.find?_cons, he, List.filter_cons, hg, Bool.false_eq_true, if_false]
              cases hf : r.find? (elig meth host uri) with
              | some x => rfl
              | none =>
                simp only
                have hany : (h :: r).any (fun h => cand host uri h && !headGet meth host uri h) = true := by
                  simp [List.any_cons, hc, hg]
                rw [hany]
                simp
      · have h2' : pathMatch h uri = false := by simpa using h2
        have hc : cand host uri h = false := by simp [cand, h2']
        have he : elig meth host uri h = false := by simp [elig, hc]
        have hg : headGet meth host uri h = false := by simp [headGet, hc]
        simp only [h1, h2', Bool.not_true, Bool.not_false, Bool.false_eq_true, if_false, if_true]
        rw [ih head bad]
        simp [List.find?_cons, he, List.filter_cons, hg, List.any_cons, hc]
    · have h1' : hostMatch h.host host = false := by simpa using h1
      have hc : cand host uri h = false := by simp [cand, h1']
      have he : elig meth host uri h = false := by simp [elig, hc]
      have hg : headGet meth host uri h = false := by simp [headGet, hc]
      simp only [h1', Bool.not_false, if_true]
      rw [ih head bad]
      simp [List.find?_cons, he, List.filter_cons, hg, List.any_cons, hc]

end Nng.HttpSrv
