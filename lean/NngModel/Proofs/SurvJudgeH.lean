/-
  SURVEYOR judge accepts the model, part H: a response is handed to a parked receive, and
  `surv0_pipe_recv_cb` as a whole.
-/
import NngModel.Proofs.SurvJudgeG
namespace Nng.SurvProofs
open Nng Nng.Proto Nng.Survey Nng.SurveySpec Nng.SurvJudge

theorem markUsed_append_new {arr : List Arrival} (an : Arrival) (hb : ∀ a ∈ arr, a.seq < an.seq) :
    markUsed (arr ++ [an]) an.seq = arr ++ [{ an with used := true }] := by
  unfold markUsed
  rw [List.map_append]
  congr 1
  · conv => rhs; rw [← List.map_id arr]
    apply List.map_congr_left
    intro a ha
    have := hb a ha
    have hne : ¬ (a.seq == an.seq) = true := by simp only [beq_iff_eq]; omega
    simp [hne]
  · simp

/-- the relation after the head of `c`'s parked receives got the arriving response -/
theorem deliver_parked_R0 {s : State} {j : SurvJ} (h : R0 s j) (hm : MInv s) {c : Ctx} {pk : Parked} {rest : List Parked}
    {pr : PendRecv} (hc : getCtx s c.key = some c) (hrq : c.rq = pk :: rest) (hpr : pr.aio = pk.aio) (an : Arrival)
    (hu : an.used = true) (hn : an.seq = j.nseq) :
    R0 (setCtx { s with narrive := s.narrive + 1 } { c with rq := rest })
      { j with pend := j.pend.filter (·.aio != pr.aio), arrivals := j.arrivals ++ [an], nseq := j.nseq + 1 } := by
  have hcm := m_getCtx_mem hc
  obtain ⟨s1, s2⟩ := arr_append_sorted an h.arrS h.arrB hn
  have hk' : ({ c with rq := rest } : Ctx).key = c.key := rfl
  have hc' : getCtx { s with narrive := s.narrive + 1 } c.key = some c := hc
  have hrqn := (hm.x.cx c hcm).rqn
  rw [hrq, List.map_cons, List.nodup_cons] at hrqn
  refine ⟨h.err, h.now, h.ncl, dom_setCtx (s := { s with narrive := s.narrive + 1 }) h.dom hc' hk', ?_, ?_, ?_, ?_,
    h.sentV, h.sentN, h.sq, s1, s2, by show j.nseq + 1 = s.narrive + 1; rw [h.nseq]⟩
  · intro k c' cj h1 h2
    rw [m_getCtx_setCtx_k hk'] at h1
    by_cases hkk : k = c.key
    · subst hkk
      rw [if_pos rfl] at h1
      have h1' : (getCtx s c.key).map (fun _ => ({ c with rq := rest } : Ctx)) = some c' := h1
      rw [hc] at h1'
      simp only [Option.map_some, Option.some.injEq] at h1'
      subst h1'
      have hcr := CR_arrive_used (h.ctx c.key c cj hc h2) an hu
      refine ⟨hcr.st, ?_, hcr.sv, hcr.qa, hcr.qb, hcr.qc⟩
      intro hn'
      have := (hcr.nos hn').2
      rw [hrq] at this; cases this
    · simp only [hkk, if_false] at h1
      have h1' : getCtx s k = some c' := h1
      exact CR_arrive_used (h.ctx k c' cj h1' h2) an hu
  · exact List.Nodup.sublist (List.filter_sublist.map _) h.p1
  · intro q hq
    have hm1 := List.mem_filter.mp hq
    have hne : q.aio ≠ pk.aio := by rw [← hpr]; simpa using hm1.2
    obtain ⟨hz, c0, hc0, pk0, hpk0, hpa0, hdl0⟩ := h.p2 q hm1.1
    by_cases hkk : q.ctx = c.key
    · have : c0 = c := by rw [hkk, hc] at hc0; exact (Option.some.inj hc0).symm
      subst this
      refine ⟨hz, { c0 with rq := rest }, ?_, pk0, ?_, hpa0, hdl0⟩
      · rw [m_getCtx_setCtx_k hk', if_pos hkk, hkk]
        show (getCtx s c0.key).map _ = _
        rw [hc]; rfl
      · rw [hrq] at hpk0
        rcases List.mem_cons.mp hpk0 with e | hr
        · exact absurd (by rw [← hpa0, e]) hne
        · exact hr
    · refine ⟨hz, c0, ?_, pk0, hpk0, hpa0, hdl0⟩
      rw [m_getCtx_setCtx_k hk', if_neg hkk]; exact hc0
  · intro k c' h1 pk' hpk'
    rw [m_getCtx_setCtx_k hk'] at h1
    by_cases hkk : k = c.key
    · subst hkk
      rw [if_pos rfl] at h1
      have h1' : (getCtx s c.key).map (fun _ => ({ c with rq := rest } : Ctx)) = some c' := h1
      rw [hc] at h1'
      simp only [Option.map_some, Option.some.injEq] at h1'
      subst h1'
      obtain ⟨q, hq, e1, e2⟩ := h.p3 c.key c hc pk' (by rw [hrq]; exact List.mem_cons_of_mem _ hpk')
      refine ⟨q, List.mem_filter.mpr ⟨hq, ?_⟩, e1, e2⟩
      simp only [bne_iff_ne, ne_eq]
      rw [e1, hpr]
      intro he
      exact hrqn.1 (by rw [← he]; exact List.mem_map.mpr ⟨pk', hpk', rfl⟩)
    · simp only [hkk, if_false] at h1
      have h1' : getCtx s k = some c' := h1
      obtain ⟨q, hq, e1, e2⟩ := h.p3 k c' h1' pk' hpk'
      refine ⟨q, List.mem_filter.mpr ⟨hq, ?_⟩, e1, e2⟩
      simp only [bne_iff_ne, ne_eq]
      rw [e1, hpr]
      intro he
      have := (hm.x.px c' (m_getCtx_mem h1') c hcm).aiou pk' hpk' pk (by rw [hrq]; simp) he
      rw [m_key h1'] at this
      exact hkk this

/-- `surv0_pipe_recv_cb` on a message with at least four bytes -/
theorem pipeRecv_sim {s : State} {j : SurvJ} (hR : R s j) (hm : MInv s) (p : Nat) (b : Bytes)
    (hjk : (keysOf j).Nodup)
    (hblind : ¬ b.length < 4 → ∀ c, lookup s (beDecode (b.take 4)) = some c → c.recvQ.length ≥ c.recvCap →
      j.knownId (b.take 4) = true)
    (hm' : MInv (pipeRecv s p b).1) :
    R (pipeRecv s p b).1 (survStep j (.recvDone p (.ok b)) (pipeRecv s p b).2) := by
  have h := hR.r0
  generalize hres : pipeRecv s p b = res at hm' ⊢
  unfold pipeRecv at hres
  by_cases h4 : b.length < 4
  · -- too short: the pipe is closed
    rw [if_pos h4] at hres
    subst hres
    dsimp only at hm' ⊢
    exact closePipe_sim p [.rv 0] hR hm' (fun outs => pre_arrive_short j p b outs h4)
      (by intro o ho; simp only [List.mem_singleton] at ho; subst ho; rfl) (fun _ _ => rfl)
      (fun lp outs => pollClause_other (by intro a h; cases h) (by intro a m h; cases h)) (fun _ => rfl)
  · rw [if_neg h4] at hres
    simp only at hres
    have hlk : ∀ x, lookup { s with narrive := s.narrive + 1 } x = lookup s x := fun _ => rfl
    rw [hlk] at hres
    have hpc : ∀ lp outs, pollClause lp (.recvDone p (.ok b)) outs = none :=
      fun lp outs => pollClause_other (by intro a h; cases h) (by intro a m h; cases h)
    cases hl : lookup s (beDecode (b.take 4)) with
    | none =>
      rw [hl] at hres
      subst hres
      dsimp only at hm' ⊢
      have hfull : j.queueFull (b.take 4) = false :=
        queueFull_false h hm hjk (by intro c hc; rw [hl] at hc; cases hc)
      apply finish h.err (by rfl) (j2 := _) _ (arrive_none_R0 h hm b h4 hl) hm' (by rfl) (hpc _ _) (Or.inl rfl)
      rw [pre_arrive j p b _ (by rfl) h4, hfull]
      rfl
    | some c =>
      rw [hl] at hres
      simp only at hres
      obtain ⟨hc, hne, hid⟩ := lookup_getCtx hm hl
      have hcm := m_getCtx_mem hc
      by_cases hov : c.recvQ.length ≥ c.recvCap
      · -- the queue is full: the response is dropped, and the judge (knowing the survey's id) has not counted it
        rw [if_pos hov] at hres
        subst hres
        dsimp only at hm' ⊢
        have henc : b.take 4 = enc c.surveyId := by rw [hid, enc_dec4 _ (take4_len h4)]
        have hfull : j.queueFull (b.take 4) = true := by
          rw [henc]
          exact queueFull_true h hm hc hne hov (by rw [← henc]; exact hblind h4 c hl hov)
        apply finish h.err (by rfl) (j2 := _) _ (arrive_drop_R0 h b) hm' (by rfl) (hpc _ _) (Or.inl rfl)
        rw [pre_arrive j p b _ (by rfl) h4, hfull]
        rfl
      rw [if_neg hov] at hres
      have hfull : j.queueFull (b.take 4) = false :=
        queueFull_false h hm hjk (by intro c' hc'; rw [hl] at hc'; cases hc'; exact hov)
      generalize hc2 : ({ c with recvQ := c.recvQ ++ [⟨s.narrive, p, beDecode (b.take 4), ⟨b.take 4, b.drop 4⟩⟩] } : Ctx) = c2 at hres
      cases hrq : c.rq with
      | nil =>
        -- nobody waits: queued
        rw [hrq] at hres
        simp only at hres
        subst hres
        have hA := arrive_queue_R0 h hm p b h4 hl hrq
        rw [hc2] at hA
        by_cases hk : (c.key == none) = true
        · simp only [hk, if_true] at hm' ⊢
          have hB : R0 { (setCtx { s with narrive := s.narrive + 1 } c2) with readable := true } _ :=
            R0_frame hA (by rfl) (by rfl) (by rfl) (by rfl) (fun pp hpp m hmm => ⟨pp, hpp, hmm⟩)
          apply finish h.err (by rfl) (j2 := _) _ hB hm' (by rfl) (hpc _ _) (Or.inl rfl)
          rw [pre_arrive j p b _ (by rfl) h4, hfull]
          rfl
        · simp only [hk, Bool.false_eq_true, if_false] at hm' ⊢
          apply finish h.err (by rfl) (j2 := _) _ hA hm' (by rfl) (hpc _ _) (Or.inl rfl)
          rw [pre_arrive j p b _ (by rfl) h4, hfull]
          rfl
      | cons pk rest =>
        rw [hrq] at hres
        simp only at hres
        subst hres
        dsimp only at hm' ⊢
        -- the judge's view of the context
        obtain ⟨cj, hcj, hcr⟩ := R0_ctx_some h hc
        obtain ⟨sv, hs, hdl⟩ := CR_survey_of_rq hcr (by rw [hrq]; simp)
        obtain ⟨_, hdead, hlk', hst⟩ := hcr.sv sv hs
        have hd : sv.dead = false := hdead.mpr hne
        obtain ⟨e1, i1⟩ := cur_issued hm.x hcm hne
        have hq : c.recvQ = [] := (hm.i.ctxsOK c hcm).excl (by rw [hrq]; simp)
        have henc : b.take 4 = enc c.surveyId := by rw [hid, enc_dec4 _ (take4_len h4)]
        obtain ⟨pr, hpr, hpa, hpk⟩ := h.p3 c.key c hc pk (by rw [hrq]; simp)
        have hstrict := ((hm.i.ctxsOK c hcm).dl pk (by rw [hrq]; simp)).1
        have hdle := ((hm.i.ctxsOK c hcm).dl pk (by rw [hrq]; simp)).2
        generalize han : ({ seq := j.nseq, id := b.take 4, body := b.drop 4 } : Arrival) = an
        have hanu : an.used = false := by rw [← han]
        have hans : an.seq = j.nseq := by rw [← han]
        have hpre := pre_arrive j p b [.rv 0, .done pk.aio 0 (some ⟨b.take 4, b.drop 4⟩) false, .parm p] (by rfl) h4
        rw [hfull] at hpre
        rw [han] at hpre
        -- the search of the judge finds the new arrival
        have hfind : (j.arrivals ++ [an]).find? (arrP sv ⟨b.take 4, b.drop 4⟩) = some an := by
          rw [List.find?_append]
          have hnone : j.arrivals.find? (arrP sv ⟨b.take 4, b.drop 4⟩) = none := by
            rw [List.find?_eq_none]
            intro a ha hp
            simp only [arrP, Bool.and_eq_true, Bool.not_eq_true', decide_eq_true_eq, beq_iff_eq] at hp
            obtain ⟨gm, hgm, _⟩ := hcr.qa sv hs hne a ha hp.1.1.1 hp.1.1.2 (by rw [hp.1.2, henc])
            rw [hq] at hgm; cases hgm
          rw [hnone]
          have : arrP sv ⟨b.take 4, b.drop 4⟩ an = true := by
            rw [← han]
            simp only [arrP, Bool.not_false, Bool.true_and, beq_self_eq_true, Bool.and_true, decide_eq_true_eq]
            exact hst
          simp [this]
        have hnow : ¬ sv.deadline < ((j.now : Nat) : Int) := by rw [hdl, h.now]; omega
        have hj2 : ∃ S', SentStep s.issued j.sent S' ∧
            survPostA (.recvDone p (.ok b)) [.rv 0, .done pk.aio 0 (some ⟨b.take 4, b.drop 4⟩) false, .parm p]
              (survProc (.recvDone p (.ok b)) (survPre j (.recvDone p (.ok b)) [.rv 0, .done pk.aio 0 (some ⟨b.take 4, b.drop 4⟩) false, .parm p]).2
                [.rv 0, .done pk.aio 0 (some ⟨b.take 4, b.drop 4⟩) false, .parm p]
                (survPre j (.recvDone p (.ok b)) [.rv 0, .done pk.aio 0 (some ⟨b.take 4, b.drop 4⟩) false, .parm p]).1) =
            { j with pend := j.pend.filter (·.aio != pr.aio), arrivals := j.arrivals ++ [{ an with used := true }],
                     nseq := j.nseq + 1, sent := S' } := by
          rw [hpre]
          simp only
          have hpd := proc_dones (ev := .recvDone p (.ok b)) (by intro _ _ _ _ h; cases h) none [.rv 0]
            [.done pk.aio 0 (some ⟨b.take 4, b.drop 4⟩) false] [.parm p]
            (by intro o ho; simp only [List.mem_singleton] at ho; subst ho; rfl)
            (by intro o ho; simp only [List.mem_singleton] at ho; subst ho; rfl)
            (by intro o ho; simp only [List.mem_singleton] at ho; subst ho; rfl)
            { j with arrivals := j.arrivals ++ [an], nseq := j.nseq + 1 }
          simp only [List.cons_append, List.nil_append] at hpd
          rw [hpd]
          simp only [List.foldl_cons, List.foldl_nil]
          have hfa : SurvJ.pend { j with arrivals := j.arrivals ++ [an], nseq := j.nseq + 1 } = j.pend := rfl
          have hfp : List.find? (fun x => x.aio == pk.aio) (SurvJ.pend { j with arrivals := j.arrivals ++ [an], nseq := j.nseq + 1 }) = some pr := by
            rw [hfa, ← hpa]; exact find_aio_of_mem h.p1 hpr
          rw [survOut_done_recv (pr := pr) (by simp) hfp]
          have hg' : SurvJ.getCtx { j with arrivals := j.arrivals ++ [an], nseq := j.nseq + 1 } pr.ctx = some cj := by
            rw [hpk]; exact hcj
          rcases idOfL_of_lookup h.sentV hlk' with ho | ho
          · refine ⟨bindL j.sent sv.body (b.take 4), sentStep_bind h.sentV h.sentN hlk' (by rw [henc, e1]), ?_⟩
            have hb1 := issued_bound hm.x _ i1
            rw [survRecvDone_ok_bind (c := cj) (sv := sv) (a := an) (m := ⟨b.take 4, b.drop 4⟩) hg' hs hd hnow ho
              (by show validId (b.take 4) = true; rw [henc]; exact validId_enc hb1.1 hb1.2)
              (knownId_false (by
                show ∀ e ∈ j.sent, e.2 ≠ some (b.take 4)
                rw [henc, e1]
                exact not_known_of_unbound h.sentV hm.x.nodup (issued_lt hm.x) hlk' ho))
              hfind]
            show survPostA _ _ _ = _
            simp only [survPostA]
            rw [markUsed_append_new an (by rw [hans]; exact h.arrB)]
          · refine ⟨j.sent, sentStep_refl h.sentV, ?_⟩
            rw [survRecvDone_ok_known (c := cj) (sv := sv) (a := an) (m := ⟨b.take 4, b.drop 4⟩) hg' hs hd hnow
              (by show j.idOf sv.body = some (b.take 4); rw [henc, e1]; exact ho) hfind]
            show survPostA _ _ _ = _
            simp only [survPostA]
            rw [markUsed_append_new an (by rw [hans]; exact h.arrB)]
        obtain ⟨S', hS, hj2⟩ := hj2
        apply finish h.err (by rfl) hj2 _ hm' (by rfl) (hpc _ _) (Or.inl rfl)
        have hA : R0 s { j with sent := S' } := R0_sent h hS rfl rfl rfl rfl rfl rfl rfl
        have hB := deliver_parked_R0 hA hm hc hrq hpa { an with used := true } rfl hans
        exact R0_frame hB (by rfl) (by rfl) (by rfl) (by rfl) (fun pp hpp m hmm => ⟨pp, hpp, hmm⟩)

end Nng.SurvProofs
