/- lemmas about the id-map model (Model/IdHash.lean): the allocation cursor, bounds of table
   accesses, the probe cycle -/
import NngModel.Model.IdHash
import NngModel.Spec.Queues
import NngModel.Generated.C18
namespace Nng.IdHash

/-- the allocation range and cursor are well formed (what nni_id_map_init establishes for hi ≥ lo) -/
structure CurWF (m : IdMap) : Prop where
  lo_pos : 1 ≤ m.minVal
  lo_hi : m.minVal ≤ m.maxVal
  hi_u64 : m.maxVal < u64
  cur : m.dynVal = 0 ∨ (m.minVal ≤ m.dynVal ∧ m.dynVal ≤ m.maxVal)

/-! ### the cursor loop -/

theorem allocLoop_spec (m : IdMap) : ∀ (f dyn : Nat) (w s : Bool), m.minVal ≤ dyn → dyn ≤ m.maxVal →
    (m.minVal ≤ (allocLoop m f dyn w s).2.1 ∧ (allocLoop m f dyn w s).2.1 ≤ m.maxVal) ∧
    ((allocLoop m f dyn w s).2.2.1 = false → w = false ∧ dyn ≤ (allocLoop m f dyn w s).2.1) ∧
    (∀ id, (allocLoop m f dyn w s).1 = some id →
        m.minVal ≤ id ∧ id ≤ m.maxVal ∧ (idFind m id).1 = none ∧
        ((allocLoop m f dyn w s).2.2.1 = false → dyn ≤ id ∧ (allocLoop m f dyn w s).2.1 = id + 1)) ∧
    ((allocLoop m f dyn w s).1 = none → (allocLoop m f dyn w s).2.2.2 = false) := by
  intro f
  induction f with
  | zero =>
    intro dyn w s h1 h2
    simp only [allocLoop]
    refine ⟨⟨h1, h2⟩, fun hw => ⟨hw, Nat.le_refl _⟩, by intro id h; simp at h, by simp⟩
  | succ f ih =>
    intro dyn w s h1 h2
    by_cases hfd : (idFind m dyn).1 = none
    · by_cases hw : dyn ≥ m.maxVal
      · simp only [allocLoop, hfd, if_true, hw, decide_true, Bool.or_true]
        refine ⟨⟨Nat.le_refl _, by omega⟩, by intro h; simp at h, ?_, by intro h; simp at h⟩
        intro id hid
        simp at hid; subst hid
        exact ⟨h1, h2, hfd, by intro h; simp at h⟩
      · simp only [allocLoop, hfd, if_true, hw, decide_false, Bool.or_false, Bool.false_eq_true, if_false]
        refine ⟨⟨by omega, by omega⟩, fun h => ⟨h, by omega⟩, ?_, by intro h; simp at h⟩
        intro id hid
        simp at hid; subst hid
        exact ⟨h1, h2, hfd, fun _ => ⟨Nat.le_refl _, rfl⟩⟩
    · by_cases hw : dyn ≥ m.maxVal
      · have := ih m.minVal (w || true) (s && (idFind m dyn).2) (Nat.le_refl _) (by omega)
        simp only [allocLoop, hfd, if_false, hw, decide_true, if_true]
        obtain ⟨a, b, c, d⟩ := this
        refine ⟨a, ?_, ?_, d⟩
        · intro h; have := (b h).1; simp at this
        · intro id hid
          obtain ⟨c1, c2, c3, c4⟩ := c id hid
          refine ⟨c1, c2, c3, ?_⟩
          intro h; have := (b h).1; simp at this
      · have := ih (dyn + 1) (w || false) (s && (idFind m dyn).2) (by omega) (by omega)
        simp only [allocLoop, hfd, if_false, hw, decide_false, Bool.false_eq_true]
        obtain ⟨a, b, c, d⟩ := this
        refine ⟨a, ?_, ?_, d⟩
        · intro h; obtain ⟨b1, b2⟩ := b h; exact ⟨by simpa using b1, by omega⟩
        · intro id hid
          obtain ⟨c1, c2, c3, c4⟩ := c id hid
          refine ⟨c1, c2, c3, ?_⟩
          intro h; obtain ⟨c5, c6⟩ := c4 h; exact ⟨by omega, c6⟩

/-! ### the cursor fields are untouched by resize / set / remove -/

theorem idResize_cur (m : IdMap) (ok : Bool) :
    (idResize m ok).1.dynVal = m.dynVal ∧ (idResize m ok).1.minVal = m.minVal ∧
    (idResize m ok).1.maxVal = m.maxVal ∧ (idResize m ok).1.random = m.random ∧
    (ok = true → (idResize m ok).2.1 = 0) := by
  by_cases h1 : m.load < m.maxLoad ∧ m.load ≥ m.minLoad
  · simp only [idResize, if_pos h1]; simp
  · by_cases h2 : (capLoop m.count m.count minCap).1 = m.cap
    · simp only [idResize, if_neg h1, if_pos h2]; simp
    · cases ok
      · simp only [idResize, if_neg h1, if_neg h2]; simp
      · simp only [idResize, if_neg h1, if_neg h2]; simp

theorem idSet_cur (m : IdMap) (k v : Nat) (ok : Bool) :
    (idSet m k v ok).1.dynVal = m.dynVal ∧ (idSet m k v ok).1.minVal = m.minVal ∧
    (idSet m k v ok).1.maxVal = m.maxVal ∧ (idSet m k v ok).1.random = m.random ∧
    (ok = true → (idSet m k v ok).2.1 = 0) ∧ ((idSet m k v ok).2.1 = 0 ∨ (idSet m k v ok).2.1 = Err.enomem) := by
  obtain ⟨a, b, c, d, e⟩ := idResize_cur m ok
  by_cases h1 : (idResize m ok).2.1 ≠ 0
  · simp only [idSet, if_pos h1]
    refine ⟨trivial, trivial, trivial, trivial, ?_, Or.inr trivial⟩
    intro h; exact absurd (e h) h1
  · cases hf : (idFind (idResize m ok).1 k).1 with
    | none => simp only [idSet, if_neg h1, hf]; exact ⟨a, b, c, d, fun _ => (by trivial), Or.inl (by trivial)⟩
    | some i => simp only [idSet, if_neg h1, hf]; exact ⟨a, b, c, d, fun _ => (by trivial), Or.inl (by trivial)⟩

theorem idRemove_cur (m : IdMap) (k : Nat) (ok : Bool) :
    (idRemove m k ok).1.dynVal = m.dynVal ∧ (idRemove m k ok).1.minVal = m.minVal ∧
    (idRemove m k ok).1.maxVal = m.maxVal ∧ (idRemove m k ok).1.random = m.random := by
  cases hf : (idFind m k).1 with
  | none => simp only [idRemove, hf]; exact ⟨(by trivial), (by trivial), (by trivial), (by trivial)⟩
  | some i =>
    simp only [idRemove, hf]
    obtain ⟨a, b, c, d, _⟩ := idResize_cur
      { m with entries := (removeLoop m.cap i m.cap m.entries (idIndex m.cap k) m.load true).1,
               load := (removeLoop m.cap i m.cap m.entries (idIndex m.cap k) m.load true).2.1,
               count := m.count - 1 } ok
    exact ⟨a, b, c, d⟩

theorem CurWF.of_eq {m m' : IdMap} (h : CurWF m) (a : m'.dynVal = m.dynVal) (b : m'.minVal = m.minVal)
    (c : m'.maxVal = m.maxVal) : CurWF m' :=
  ⟨by rw [b]; exact h.lo_pos, by rw [b, c]; exact h.lo_hi, by rw [c]; exact h.hi_u64, by rw [a, b, c]; exact h.cur⟩

theorem dyn0_range {m : IdMap} (h : CurWF m) (rnd : Nat) :
    m.minVal ≤ dyn0 m rnd ∧ dyn0 m rnd ≤ m.maxVal ∧ (m.dynVal ≠ 0 → dyn0 m rnd = m.dynVal) := by
  have h1 := h.lo_hi
  have h2 := h.hi_u64
  unfold dyn0
  split
  · split
    · have : rnd % (m.maxVal - m.minVal + 1) < m.maxVal - m.minVal + 1 := Nat.mod_lt _ (by omega)
      rw [Nat.mod_eq_of_lt (by omega)]
      exact ⟨by omega, by omega, fun hh => absurd ‹m.dynVal = 0› hh⟩
    · exact ⟨Nat.le_refl _, h1, fun hh => absurd ‹m.dynVal = 0› hh⟩
  · rcases h.cur with hc | hc
    · exact absurd hc ‹_›
    · exact ⟨hc.1, hc.2, fun _ => rfl⟩

/-- everything the property says about one nni_id_alloc call, relative to id_find -/
theorem idAlloc_spec {m : IdMap} (h : CurWF m) (v rnd : Nat) (ok : Bool) :
    CurWF (idAlloc m v rnd ok).m ∧
    ((idAlloc m v rnd ok).rv = 0 →
        m.minVal ≤ (idAlloc m v rnd ok).id ∧ (idAlloc m v rnd ok).id ≤ m.maxVal ∧
        (idFind m (idAlloc m v rnd ok).id).1 = none) ∧
    ((idAlloc m v rnd ok).rv ≠ 0 →
        (idAlloc m v rnd ok).rv = Err.enomem ∧
        (m.count > m.maxVal - m.minVal ∨ ok = false ∨ (idAlloc m v rnd ok).safe = false)) ∧
    ((idAlloc m v rnd ok).wrapped = false →
        m.dynVal ≤ (idAlloc m v rnd ok).m.dynVal ∧
        ((idAlloc m v rnd ok).rv = 0 →
          (m.dynVal ≠ 0 → m.dynVal ≤ (idAlloc m v rnd ok).id) ∧
          (idAlloc m v rnd ok).m.dynVal = (idAlloc m v rnd ok).id + 1)) := by
  obtain ⟨d1, d2, d3⟩ := dyn0_range h rnd
  obtain ⟨⟨a1, a2⟩, b, c, d⟩ := allocLoop_spec m (m.count + 1) (dyn0 m rnd) false true d1 d2
  have hcur : m.dynVal ≤ dyn0 m rnd := by
    by_cases hz : m.dynVal = 0
    · omega
    · rw [d3 hz]; exact Nat.le_refl _
  unfold idAlloc
  by_cases hfull : m.count > m.maxVal - m.minVal
  · simp only [if_pos hfull]
    exact ⟨h, by intro hh; simp [Err.enomem] at hh, fun _ => ⟨(by trivial), Or.inl hfull⟩, fun _ => ⟨Nat.le_refl _, by intro hh; simp [Err.enomem] at hh⟩⟩
  · simp only [if_neg hfull]
    change _ ∧ _ ∧ _ ∧ _
    cases hl : (allocLoop m (m.count + 1) (dyn0 m rnd) false true).1 with
    | none =>
      simp only [hl]
      refine ⟨⟨h.lo_pos, h.lo_hi, h.hi_u64, Or.inr ⟨a1, a2⟩⟩, by intro hh; simp [Err.enomem] at hh,
        fun _ => ⟨(by trivial), Or.inr (Or.inr (by trivial))⟩, ?_⟩
      intro hw
      exact ⟨Nat.le_trans hcur (b hw).2, by intro hh; simp [Err.enomem] at hh⟩
    | some id =>
      simp only [hl]
      obtain ⟨c1, c2, c3, c4⟩ := c id hl
      obtain ⟨s1, s2, s3, _, s5, s6⟩ := idSet_cur
        { m with dynVal := (allocLoop m (m.count + 1) (dyn0 m rnd) false true).2.1 } id v ok
      refine ⟨?_, fun _ => ⟨c1, c2, c3⟩, ?_, ?_⟩
      · exact ⟨by rw [s2]; exact h.lo_pos, by rw [s2, s3]; exact h.lo_hi, by rw [s3]; exact h.hi_u64,
          by rw [s1, s2, s3]; exact Or.inr ⟨a1, a2⟩⟩
      · intro hne
        rcases s6 with s6 | s6
        · exact absurd s6 hne
        · refine ⟨s6, Or.inr (Or.inl ?_)⟩
          cases ok with
          | false => rfl
          | true => exact absurd (s5 rfl) hne
      · intro hw
        have hw' : (allocLoop m (m.count + 1) (dyn0 m rnd) false true).2.2.1 = false := hw
        obtain ⟨c5, c6⟩ := c4 hw'
        refine ⟨?_, fun _ => ⟨fun hz => ?_, ?_⟩⟩
        · rw [s1]; exact Nat.le_trans hcur (b hw').2
        · rw [← d3 hz]; exact c5
        · rw [s1]; exact c6

/-! ### table accesses of id_find stay in bounds, and its loop ends, when the probe cycle closes -/

/-- `k` applications of ID_NEXT -/
def iter (cap : Nat) : Nat → Nat → Nat
  | 0, s => s
  | k + 1, s => idNext cap (iter cap k s)

/-- the probe sequence returns to its start after `cap` steps (true for every power of two, since
    `j ↦ 5j+1 (mod 2^n)` is a single cycle; proved here for the capacities 8 … 4096) -/
def ProbeCycle (cap : Nat) : Prop := ∀ s, s < cap → iter cap cap s = s

theorem idNext_lt {cap : Nat} (h : 0 < cap) (j : Nat) : idNext cap j < cap := by
  unfold idNext
  have := @Nat.and_le_right (j * Nng.Generated.c18IdProbeMul + Nng.Generated.c18IdProbeAdd) (cap - 1)
  omega

theorem idIndex_lt {cap : Nat} (h : 0 < cap) (j : Nat) : idIndex cap j < cap := by
  unfold idIndex
  have := @Nat.and_le_right j (cap - 1)
  omega

theorem findLoop_safe (es : List Entry) (cap id start : Nat) (hlen : es.length = cap) (hcyc : iter cap cap start = start) :
    ∀ (f j : Nat), f + 1 + j = cap → iter cap j start < cap →
      (findLoop es cap id start (f + 1) (iter cap j start) true).2 = true ∧
      ∀ i, (findLoop es cap id start (f + 1) (iter cap j start) true).1 = some i → i < cap := by
  intro f
  induction f with
  | zero =>
    intro j hj hlt
    have hrd : (rdE es (iter cap j start)).2 = true := by
      unfold rdE; rw [List.getElem?_eq_getElem (by omega)]
    have hnext : idNext cap (iter cap j start) = start := by
      have : iter cap (j + 1) start = start := by rw [show j + 1 = cap by omega]; exact hcyc
      exact this
    unfold findLoop
    simp only [hrd, Bool.and_true, Bool.true_and]
    by_cases h1 : (rdE es (iter cap j start)).1.key = id ∧ (rdE es (iter cap j start)).1.val ≠ 0
    · rw [if_pos h1]; exact ⟨rfl, by intro i hi; simp at hi; omega⟩
    · rw [if_neg h1]
      by_cases h2 : (rdE es (iter cap j start)).1.skips = 0
      · rw [if_pos h2]; exact ⟨rfl, by intro i hi; simp at hi⟩
      · rw [if_neg h2, hnext, if_pos rfl]; exact ⟨rfl, by intro i hi; simp at hi⟩
  | succ f ih =>
    intro j hj hlt
    have hcap : 0 < cap := by omega
    have hrd : (rdE es (iter cap j start)).2 = true := by
      unfold rdE; rw [List.getElem?_eq_getElem (by omega)]
    have hstep := ih (j + 1) (by omega) (idNext_lt hcap _)
    unfold findLoop
    simp only [hrd, Bool.and_true, Bool.true_and]
    by_cases h1 : (rdE es (iter cap j start)).1.key = id ∧ (rdE es (iter cap j start)).1.val ≠ 0
    · rw [if_pos h1]; exact ⟨rfl, by intro i hi; simp at hi; omega⟩
    · rw [if_neg h1]
      by_cases h2 : (rdE es (iter cap j start)).1.skips = 0
      · rw [if_pos h2]; exact ⟨rfl, by intro i hi; simp at hi⟩
      · rw [if_neg h2]
        by_cases h3 : idNext cap (iter cap j start) = start
        · rw [if_pos h3]; exact ⟨rfl, by intro i hi; simp at hi⟩
        · rw [if_neg h3]; exact hstep

/-- id_find never reads outside the table and never runs out of fuel; an index it returns is
    inside the table -/
theorem idFind_safe {m : IdMap} (hlen : m.entries.length = m.cap) (hcap : m.count ≠ 0 → 0 < m.cap)
    (hcyc : ProbeCycle m.cap) (id : Nat) :
    (idFind m id).2 = true ∧ ∀ i, (idFind m id).1 = some i → i < m.cap := by
  unfold idFind
  by_cases hz : m.count = 0
  · simp [hz]
  · simp only [if_neg hz]
    have hc := hcap hz
    have hs := idIndex_lt hc id
    have := findLoop_safe m.entries m.cap id (idIndex m.cap id) hlen (hcyc _ hs) (m.cap - 1) 0 (by omega) hs
    rw [show m.cap - 1 + 1 = m.cap by omega] at this
    exact this

/-- nni_id_get stays in bounds -/
theorem idGet_safe {m : IdMap} (hlen : m.entries.length = m.cap) (hcap : m.count ≠ 0 → 0 < m.cap)
    (hcyc : ProbeCycle m.cap) (id : Nat) : (idGet m id).2 = true := by
  obtain ⟨h1, h2⟩ := idFind_safe hlen hcap hcyc id
  unfold idGet
  cases hf : (idFind m id).1 with
  | none => simp only [hf]; exact h1
  | some i =>
    have hi := h2 i hf
    have hrd : (rdE m.entries i).2 = true := by
      unfold rdE; rw [List.getElem?_eq_getElem (by omega)]
    simp only [hf, h1, hrd, Bool.and_true]

/-! ### runs of map operations: identifiers are not reissued before the cursor wraps -/

inductive IOp
  | set (k v : Nat) | remove (k : Nat) | alloc (v rnd : Nat)
deriving Repr, DecidableEq

/-- the allocation calls of a run (each op carries the allocator's answer), in order -/
def allocRuns : IdMap → List (IOp × Bool) → List AllocRes
  | _, [] => []
  | m, (op, ok) :: rest =>
    match op with
    | .set k v => allocRuns (idSet m k v ok).1 rest
    | .remove k => allocRuns (idRemove m k ok).1 rest
    | .alloc v rnd => idAlloc m v rnd ok :: allocRuns (idAlloc m v rnd ok).m rest

/-- the identifiers handed out by the successful allocations of a run -/
def issued (rs : List AllocRes) : List Nat := rs.filterMap (fun r => if r.rv = 0 then some r.id else none)

theorem issued_increasing : ∀ (ops : List (IOp × Bool)) (m : IdMap), CurWF m →
    (∀ r, r ∈ allocRuns m ops → r.wrapped = false) →
    (∀ x, x ∈ issued (allocRuns m ops) → m.dynVal ≤ x) ∧ (issued (allocRuns m ops)).Pairwise (· < ·) := by
  intro ops
  induction ops with
  | nil => intro m _ _; simp [allocRuns, issued]
  | cons p rest ih =>
    intro m h hw
    obtain ⟨op, ok⟩ := p
    cases op with
    | set k v =>
      obtain ⟨a, b, c, _⟩ := idSet_cur m k v ok
      have := ih (idSet m k v ok).1 (h.of_eq a b c) (by simpa [allocRuns] using hw)
      simpa [allocRuns, a] using this
    | remove k =>
      obtain ⟨a, b, c, _⟩ := idRemove_cur m k ok
      have := ih (idRemove m k ok).1 (h.of_eq a b c) (by simpa [allocRuns] using hw)
      simpa [allocRuns, a] using this
    | alloc v rnd =>
      obtain ⟨hwf, _, _, hmono⟩ := idAlloc_spec h v rnd ok
      have hw0 : (idAlloc m v rnd ok).wrapped = false := hw _ (by simp [allocRuns])
      obtain ⟨hle, hok⟩ := hmono hw0
      obtain ⟨ih1, ih2⟩ := ih (idAlloc m v rnd ok).m hwf (by intro r hr; exact hw r (by simp [allocRuns, hr]))
      by_cases hrv : (idAlloc m v rnd ok).rv = 0
      · obtain ⟨hge, hnext⟩ := hok hrv
        have hge' : m.dynVal ≤ (idAlloc m v rnd ok).id := by
          by_cases hz : m.dynVal = 0
          · omega
          · exact hge hz
        have hiss : issued (allocRuns m ((IOp.alloc v rnd, ok) :: rest)) =
            (idAlloc m v rnd ok).id :: issued (allocRuns (idAlloc m v rnd ok).m rest) := by
          simp [allocRuns, issued, hrv]
        rw [hiss]
        refine ⟨?_, List.pairwise_cons.mpr ⟨?_, ih2⟩⟩
        · intro x hx
          rcases List.mem_cons.mp hx with hx | hx
          · rw [hx]; exact hge'
          · exact Nat.le_trans hle (ih1 x hx)
        · intro x hx; have := ih1 x hx; omega
      · have hiss : issued (allocRuns m ((IOp.alloc v rnd, ok) :: rest)) =
            issued (allocRuns (idAlloc m v rnd ok).m rest) := by
          simp [allocRuns, issued, hrv]
        rw [hiss]
        exact ⟨fun x hx => Nat.le_trans hle (ih1 x hx), ih2⟩

theorem mapInit_curWF (lo hi : Nat) (random : Bool) (hhi : hi < u64)
    (hlh : (if lo = 0 then Nng.Generated.c18IdDefaultLo else lo) ≤ (if hi = 0 then Nng.Generated.c18IdDefaultHi else hi)) :
    CurWF (mapInit lo hi random) := by
  refine ⟨?_, hlh, ?_, Or.inl rfl⟩
  · show 1 ≤ (if lo = 0 then Nng.Generated.c18IdDefaultLo else lo)
    split
    · decide
    · omega
  · show (if hi = 0 then Nng.Generated.c18IdDefaultHi else hi) < u64
    split
    · decide
    · exact hhi

end Nng.IdHash
