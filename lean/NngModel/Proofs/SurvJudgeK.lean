/-
  SURVEYOR judge, judge-only fact: the bodies recorded in `sent` are bodies of `send` events — a step
  keeps the recorded bodies (in order) and a `send` appends at most its own body.
-/
import NngModel.Proofs.SurvJudgeOut
namespace Nng.SurvJudge
open Nng Nng.Proto Nng.SurveySpec

def fstOf (j : SurvJ) : List Bytes := j.sent.map (·.1)

@[simp] theorem fstOf_fail (j : SurvJ) (msg : String) : fstOf (j.fail msg) = fstOf j := by
  unfold SurvJ.fail; cases j.err <;> rfl

@[simp] theorem fstOf_bind (j : SurvJ) (b i : Bytes) : fstOf (j.bind b i) = fstOf j := by
  unfold fstOf; rw [bind_sent, bindL_fst]

@[simp] theorem fstOf_setCtx (j : SurvJ) (c : CtxJ) : fstOf (j.setCtx c) = fstOf j := rfl
@[simp] theorem fstOf_pend (j : SurvJ) (p : List PendRecv) : fstOf { j with pend := p } = fstOf j := rfl
@[simp] theorem fstOf_arrivals (j : SurvJ) (p : List Arrival) : fstOf { j with arrivals := p } = fstOf j := rfl
@[simp] theorem fstOf_ctxs (j : SurvJ) (p : List CtxJ) : fstOf { j with ctxs := p } = fstOf j := rfl
@[simp] theorem fstOf_lastPoll (j : SurvJ) (p : Option (Option Bool × Option Bool)) : fstOf { j with lastPoll := p } = fstOf j := rfl
@[simp] theorem fstOf_now (j : SurvJ) (p : Nat) : fstOf { j with now := p } = fstOf j := rfl
@[simp] theorem fstOf_closed (j : SurvJ) (p : Bool) : fstOf { j with closed := p } = fstOf j := rfl

theorem fstOf_survWire (j : SurvJ) (p : Nat) (m : WMsg) : fstOf (survWire j p m) = fstOf j := by
  unfold survWire
  split
  · simp
  · split
    · split <;> simp
    · split
      · simp
      · split <;> simp

theorem fstOf_survRecvDone (j : SurvJ) (ev : Ev) (pr : PendRecv) (rv : Nat) (msg : Option WMsg) :
    fstOf (survRecvDone j ev pr rv msg) = fstOf j := by
  unfold survRecvDone
  simp only
  repeat' split
  all_goals (first | rfl | exact bindL_fst _ _ _ | simp)

theorem fstOf_survOut (ev : Ev) (sa : Option Nat) (j : SurvJ) (o : Out) : fstOf (survOut ev sa j o) = fstOf j := by
  cases o with
  | psend p m => exact fstOf_survWire j p m
  | done a rv msg b =>
    unfold survOut
    simp only
    split
    · rfl
    · split
      · simp
      · exact fstOf_survRecvDone _ _ _ _ _
  | _ => rfl

theorem fstOf_foldl (ev : Ev) (sa : Option Nat) (l : List Out) (j : SurvJ) :
    fstOf (l.foldl (survOut ev sa) j) = fstOf j := by
  induction l generalizing j with
  | nil => rfl
  | cons o t ih => simp only [List.foldl_cons]; rw [ih, fstOf_survOut]

theorem fstOf_survProc (ev : Ev) (sa : Option Nat) (outs : List Out) (j : SurvJ) :
    fstOf (survProc ev sa outs j) = fstOf j := by
  unfold survProc
  cases ev <;> simp only [fstOf_foldl]

theorem fstOf_survPostA (ev : Ev) (outs : List Out) (j : SurvJ) : fstOf (survPostA ev outs j) = fstOf j := by
  unfold survPostA
  cases ev <;> simp only []
  · split
    · split <;> simp
    · rfl
  · split <;> simp

theorem fstOf_survQuiescent (j : SurvJ) (ev : Ev) : fstOf (survQuiescent j ev) = fstOf j := by
  unfold survQuiescent
  simp only
  repeat' split
  all_goals (first | rfl | simp)

theorem fstOf_survPostB (ev : Ev) (outs : List Out) (j : SurvJ) : fstOf (survPostB ev outs j) = fstOf j := by
  unfold survPostB
  simp only
  rw [fstOf_survQuiescent]
  repeat' split
  all_goals (first | rfl | simp)

@[simp] theorem fstOf_append (j : SurvJ) (b : Bytes) :
    fstOf { j with sent := j.sent ++ [(b, none)] } = fstOf j ++ [b] := by simp [fstOf]

def evBody : Ev → Option Bytes
  | .send _ _ m _ => some m.body
  | _ => none

/-- the event part of a step records at most the body of the survey being sent -/
theorem fstOf_survPre (j : SurvJ) (ev : Ev) (outs : List Out) :
    fstOf (survPre j ev outs).1 = fstOf j ∨ ∃ b, evBody ev = some b ∧ fstOf (survPre j ev outs).1 = fstOf j ++ [b] := by
  cases ev with
  | send k a m md =>
    unfold survPre
    simp only
    repeat' split
    all_goals (first | (left; rfl) | (left; simp; done) | (right; exact ⟨m.body, rfl, by simp⟩))
  | recv k a md =>
    left
    unfold survPre
    simp only
    repeat' split
    all_goals (first | rfl | simp)
  | openSock _ _ => left; unfold survPre; simp only; split <;> rfl
  | advance _ => left; rfl
  | ctxOpen _ => left; unfold survPre; simp only; split <;> rfl
  | setopt _ _ _ _ =>
    left; unfold survPre; simp only
    split
    · split <;> rfl
    · rfl
  | recvDone _ r =>
    left
    cases r with
    | error _ => rfl
    | ok b => unfold survPre; simp only; split <;> rfl
  | close => left; rfl
  | pipeAdd _ => left; rfl
  | pipeDrop _ => left; rfl
  | sendDone _ _ => left; rfl
  | cancel _ => left; rfl
  | abort _ _ => left; rfl
  | ctxClose _ => left; rfl
  | getopt _ _ _ => left; rfl
  | poll => left; rfl
  | sub _ _ => left; rfl
  | unsub _ _ => left; rfl

/-- a step of the judge keeps the recorded survey bodies and appends at most the body being sent -/
theorem fstOf_survStep (j : SurvJ) (ev : Ev) (outs : List Out) :
    fstOf (survStep j ev outs) = fstOf j ∨ ∃ b, evBody ev = some b ∧ fstOf (survStep j ev outs) = fstOf j ++ [b] := by
  cases herr : j.err with
  | some e => left; rw [survStep_err herr]
  | none =>
    cases hne : notExecuted outs with
    | true => left; rw [survStep_refused hne]
    | false =>
      rw [survStep_eq herr hne, fstOf_survPostB, fstOf_survPostA, fstOf_survProc]
      exact fstOf_survPre j ev outs

end Nng.SurvJudge
