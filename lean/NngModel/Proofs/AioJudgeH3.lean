/- relation preservation: steps without an observation (the monitor's state does not change) -/
import NngModel.Proofs.AioJudgeRel
namespace Nng.Aio
open Nng.AioSpec

variable {s s' : State} {g : G} {j : J} {k : Nat}

set_option maxHeartbeats 1000000 in
theorem rel_stopMark (hR : R k s g j) (i1 : Inv1 s) (i2 : Inv2 s) (i3 : Inv3 s) (i4 : Inv4 s)
    (hs : step Cfg.fixed s .stopMark = some s') :
    R k s' (gStep s g .stopMark) (judgeFrom j (obsX s g .stopMark)) := by
  simp only [obsX, obsOf, obsExtra, gStep, judgeFrom, List.append_nil, List.foldl]
  step_cases hs
  all_goals r_same hR

set_option maxHeartbeats 1000000 in
theorem rel_stopTake (hR : R k s g j) (i1 : Inv1 s) (i2 : Inv2 s) (i3 : Inv3 s) (i4 : Inv4 s)
    (hs : step Cfg.fixed s .stopTake = some s') :
    R k s' (gStep s g .stopTake) (judgeFrom j (obsX s g .stopTake)) := by
  simp only [obsX, obsOf, obsExtra, gStep, judgeFrom, List.append_nil, List.foldl]
  step_cases hs
  all_goals r_same hR

set_option maxHeartbeats 1000000 in
theorem rel_stopWait (hR : R k s g j) (i1 : Inv1 s) (i2 : Inv2 s) (i3 : Inv3 s) (i4 : Inv4 s)
    (hs : step Cfg.fixed s .stopWait = some s') :
    R k s' (gStep s g .stopWait) (judgeFrom j (obsX s g .stopWait)) := by
  simp only [obsX, obsOf, obsExtra, gStep, judgeFrom, List.append_nil, List.foldl]
  have hb : s.busy = 0 := by
    simp only [step] at hs
    split at hs
    · rename_i hg; simp_all
    · cases hs
  obtain ⟨z1,z2,z3,z4,z5,z6,z7,z8,z9,z10⟩ := busy_zero i1 hb
  step_cases hs
  all_goals r_same hR

set_option maxHeartbeats 1000000 in
theorem rel_expScan (hR : R k s g j) (i1 : Inv1 s) (i2 : Inv2 s) (i3 : Inv3 s) (i4 : Inv4 s)
    (hs : step Cfg.fixed s .expScan = some s') :
    R k s' (gStep s g .expScan) (judgeFrom j (obsX s g .expScan)) := by
  simp only [obsX, obsOf, obsExtra, gStep, judgeFrom, List.append_nil, List.foldl]
  step_cases hs
  all_goals r_same hR

end Nng.Aio
