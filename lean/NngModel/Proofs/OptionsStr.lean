/- string functions of the option plumbing: nni_strnlen, nni_copyin_str (repaired too-long test), nni_strlcpy -/
import NngModel.Proofs.OptionsBytes
namespace Nng.Opt
open Nng

theorem strnlen_le (v : Bytes) (n : Nat) : (strnlen v n).1 ≤ n := by
  induction v generalizing n with
  | nil => cases n <;> simp [strnlen]
  | cons x xs ih =>
    cases n with
    | zero => simp [strnlen]
    | succ n =>
      by_cases hx : x = 0
      · simp [strnlen, hx]
      · have := ih n
        simp [strnlen, hx]; omega

/-- a terminator inside the first `n` bytes: nni_strnlen stops there, inside the buffer, and returns strlen -/
theorem strnlen_found (v : Bytes) (n : Nat) (h : (v.take n).contains 0 = true) :
    (strnlen v n).2 = true ∧ (strnlen v n).1 < n ∧ (strnlen v n).1 = (cstr v).length ∧
      v.take (strnlen v n).1 = cstr v ∧ v[(strnlen v n).1]? = some 0 := by
  induction v generalizing n with
  | nil => cases n <;> simp at h
  | cons x xs ih =>
    cases n with
    | zero => simp at h
    | succ n =>
      by_cases hx : x = 0
      · subst hx; simp [strnlen, cstr]
      · have hx' : (x == 0) = false := by simpa using hx
        have h' : (xs.take n).contains 0 = true := by
          simp only [List.take_succ_cons, List.contains_cons] at h
          rcases Bool.or_eq_true_iff.mp h with h | h
          · have : (0 : UInt8) = x := by simpa using h
            exact absurd this.symm hx
          · exact h
        obtain ⟨h1, h2, h3, h4, h5⟩ := ih n h'
        simp only [strnlen, hx, if_false, cstr, List.length_cons, List.take_succ_cons, List.getElem?_cons_succ]
        exact ⟨h1, by omega, by omega, by rw [h4], h5⟩

/-- no terminator inside the first `n` bytes and `n` bytes readable: nni_strnlen returns `n`, inside the buffer -/
theorem strnlen_full (v : Bytes) (n : Nat) (h : (v.take n).contains 0 = false) (hl : n ≤ v.length) :
    (strnlen v n).2 = true ∧ (strnlen v n).1 = n := by
  induction v generalizing n with
  | nil =>
    have : n = 0 := by simpa using hl
    subst this; simp [strnlen]
  | cons x xs ih =>
    cases n with
    | zero => simp [strnlen]
    | succ n =>
      simp only [List.take_succ_cons, List.contains_cons, Bool.or_eq_false_iff] at h
      have hx : x ≠ 0 := by
        intro hx; subst hx; simp at h
      obtain ⟨h1, h2⟩ := ih n h.2 (by simpa using hl)
      simp [strnlen, hx, h1, h2]

/-! ### nni_strlcpy -/

theorem poke_length (b : Bytes) (i : Nat) (c : UInt8) : (poke b i c).length = b.length := by
  unfold poke; split <;> simp

theorem strlcpyGo_length (len : Nat) (cs : Bytes) (n : Nat) (dst : Bytes) (safe : Bool) :
    (strlcpyGo len cs n dst safe).1.length = dst.length := by
  induction cs generalizing n dst safe with
  | nil => simp [strlcpyGo]
  | cons c cs ih =>
    unfold strlcpyGo
    split
    · rw [ih, poke_length]
    · split
      · rw [ih, poke_length]
      · rw [ih]

theorem strlcpyGo_safe (len : Nat) (cs : Bytes) (n : Nat) (dst : Bytes) (hl : len ≤ dst.length) :
    (strlcpyGo len cs n dst true).2 = true := by
  induction cs generalizing n dst with
  | nil => simp [strlcpyGo]
  | cons c cs ih =>
    unfold strlcpyGo
    split
    · have : n < dst.length := by omega
      simp only [this, decide_true, Bool.and_self]
      exact ih _ _ (by rw [poke_length]; exact hl)
    · split
      · have : n < dst.length := by omega
        simp only [this, decide_true, Bool.and_self]
        exact ih _ _ (by rw [poke_length]; exact hl)
      · exact ih _ _ hl

theorem poke_get (b : Bytes) (n : Nat) (c : UInt8) (i : Nat) (hn : n < b.length) :
    (poke b n c)[i]? = if i = n then some c else b[i]? := by
  unfold poke
  simp only [hn, if_true, List.getElem?_set]
  by_cases h : n = i
  · subst h; simp [hn]
  · have : ¬ i = n := fun e => h e.symm
    simp [h, this]

/-- every byte of the destination after the loop -/
theorem strlcpyGo_get (len : Nat) (cs : Bytes) (n : Nat) (dst : Bytes) (safe : Bool) (hl : len ≤ dst.length) (i : Nat) :
    ((strlcpyGo len cs n dst safe).1)[i]? =
      if n ≤ i ∧ i < n + cs.length ∧ i + 1 < len then cs[i - n]?
      else if n ≤ i ∧ i < n + cs.length ∧ i + 1 = len then some 0
      else dst[i]? := by
  induction cs generalizing n dst safe with
  | nil =>
    have h1 : ¬ (n ≤ i ∧ i < n + 0 ∧ i + 1 < len) := by omega
    have h2 : ¬ (n ≤ i ∧ i < n + 0 ∧ i + 1 = len) := by omega
    simp only [strlcpyGo, List.length_nil]
    rw [if_neg h1, if_neg h2]
  | cons c cs ih =>
    unfold strlcpyGo
    by_cases b1 : n + 1 < len
    · rw [if_pos b1, ih _ _ _ (by rw [poke_length]; exact hl), poke_get _ _ _ _ (by omega)]
      simp only [List.length_cons]
      by_cases e : i = n
      · subst e
        have c1 : ¬ (i + 1 ≤ i ∧ i < i + 1 + cs.length ∧ i + 1 < len) := by omega
        have c2 : ¬ (i + 1 ≤ i ∧ i < i + 1 + cs.length ∧ i + 1 = len) := by omega
        have c3 : i ≤ i ∧ i < i + (cs.length + 1) ∧ i + 1 < len := by omega
        rw [if_neg c1, if_neg c2, if_pos c3]
        simp
      · by_cases c1 : n + 1 ≤ i ∧ i < n + 1 + cs.length ∧ i + 1 < len
        · have c3 : n ≤ i ∧ i < n + (cs.length + 1) ∧ i + 1 < len := by omega
          rw [if_pos c1, if_pos c3]
          have : i - n = (i - (n + 1)) + 1 := by omega
          rw [this, List.getElem?_cons_succ]
        · by_cases c2 : n + 1 ≤ i ∧ i < n + 1 + cs.length ∧ i + 1 = len
          · have c3 : ¬ (n ≤ i ∧ i < n + (cs.length + 1) ∧ i + 1 < len) := by omega
            have c4 : n ≤ i ∧ i < n + (cs.length + 1) ∧ i + 1 = len := by omega
            rw [if_neg c1, if_pos c2, if_neg c3, if_pos c4]
          · have c3 : ¬ (n ≤ i ∧ i < n + (cs.length + 1) ∧ i + 1 < len) := by omega
            have c4 : ¬ (n ≤ i ∧ i < n + (cs.length + 1) ∧ i + 1 = len) := by omega
            rw [if_neg c1, if_neg c2, if_neg c3, if_neg c4, if_neg e]
    · rw [if_neg b1]
      by_cases b2 : n + 1 = len
      · rw [if_pos b2, ih _ _ _ (by rw [poke_length]; exact hl), poke_get _ _ _ _ (by omega)]
        simp only [List.length_cons]
        by_cases e : i = n
        · subst e
          have c1 : ¬ (i + 1 ≤ i ∧ i < i + 1 + cs.length ∧ i + 1 < len) := by omega
          have c2 : ¬ (i + 1 ≤ i ∧ i < i + 1 + cs.length ∧ i + 1 = len) := by omega
          have c3 : ¬ (i ≤ i ∧ i < i + (cs.length + 1) ∧ i + 1 < len) := by omega
          have c4 : i ≤ i ∧ i < i + (cs.length + 1) ∧ i + 1 = len := by omega
          rw [if_neg c1, if_neg c2, if_neg c3, if_pos c4]
          simp
        · have c1 : ¬ (n + 1 ≤ i ∧ i < n + 1 + cs.length ∧ i + 1 < len) := by omega
          have c2 : ¬ (n + 1 ≤ i ∧ i < n + 1 + cs.length ∧ i + 1 = len) := by omega
          have c3 : ¬ (n ≤ i ∧ i < n + (cs.length + 1) ∧ i + 1 < len) := by omega
          have c4 : ¬ (n ≤ i ∧ i < n + (cs.length + 1) ∧ i + 1 = len) := by omega
          rw [if_neg c1, if_neg c2, if_neg c3, if_neg c4, if_neg e]
      · rw [if_neg b2, ih _ _ _ hl]
        simp only [List.length_cons]
        have c1 : ¬ (n + 1 ≤ i ∧ i < n + 1 + cs.length ∧ i + 1 < len) := by omega
        have c2 : ¬ (n + 1 ≤ i ∧ i < n + 1 + cs.length ∧ i + 1 = len) := by omega
        have c3 : ¬ (n ≤ i ∧ i < n + (cs.length + 1) ∧ i + 1 < len) := by omega
        have c4 : ¬ (n ≤ i ∧ i < n + (cs.length + 1) ∧ i + 1 = len) := by omega
        rw [if_neg c1, if_neg c2, if_neg c3, if_neg c4]

end Nng.Opt
