/-
  Lemmas for Props/C16Queue.lean, part 3: invariants of the queue model under ALL events (user close included),
  message and stream mode: nobody waits on a closed connection, frame ownership (every ws_frame allocated by
  ws_start_read is in rxq, is the rxframe, or was released), a complete message in rxq means reading is paused.
-/
import NngModel.Model.WsQueue
set_option linter.unusedSimpArgs false
namespace Nng.WsQ
open Nng Nng.Ws

def live (q : QSt) : Nat := q.w.rxq.length + (if q.rxframe then 1 else 0)

structure GInv (cfg : Cfg) (q : QSt) : Prop where
  closedNoWait : q.w.closed = true → q.recvq = []
  own : q.allocs = q.frees + live q
  heldPaused : cfg.isstream = false → q.w.inmsg = false → q.w.rxq ≠ [] → q.recvq = [] ∧ q.w.want = 0
  rdframe : q.w.want ≠ 0 → q.rxframe = true

/-- inside ws_read_cb -/
structure GCb (cfg : Cfg) (q : QSt) : Prop where
  closedNoWait : q.w.closed = true → q.recvq = []
  own : q.allocs = q.frees + q.w.rxq.length + 1
  cur : cfg.isstream = false → q.w.inmsg = false → q.w.rxq = []
  idle : q.w.want = 0
  frame : q.rxframe = true

theorem G_close (cfg : Cfg) (q : QSt) (code : Nat) (h : GInv cfg q) : GInv cfg (qClose cfg q code).1 := by
  have h1 := h.closedNoWait; have h2 := h.own; have h3 := h.heldPaused; have h4 := h.rdframe
  unfold qClose
  split
  · constructor <;> simp_all [live]
  · split <;> (constructor <;> simp_all [live])

theorem G_fail (cfg : Cfg) (q : QSt) (code : Nat) (h : GCb cfg q) : GInv cfg (qFail cfg q code).1 := by
  have h1 := h.closedNoWait; have h2 := h.own; have h3 := h.cur; have h4 := h.idle; have h5 := h.frame
  unfold qFail qClose
  split
  · constructor <;> simp_all [live] <;> omega
  · split <;> (constructor <;> simp_all [live] <;> omega)

theorem strCopy_count : ∀ (l : List Bytes) (cap : Nat), (strCopy cap l).2.1.length + (strCopy cap l).2.2 = l.length := by
  intro l
  induction l with
  | nil => intro cap; rfl
  | cons f fs ih =>
    intro cap
    unfold strCopy
    split
    · rfl
    · split
      · have := ih (cap - f.length); simp only [List.length_cons]; omega
      · simp

/-- what ws_read_finish may change -/
structure FinOk (q q' : QSt) : Prop where
  w : q'.w.closed = q.w.closed ∧ q'.w.want = q.w.want ∧ q'.w.inmsg = q.w.inmsg
  frame : q'.rxframe = q.rxframe
  own : q'.allocs = q.allocs ∧ q'.frees + q'.w.rxq.length = q.frees + q.w.rxq.length
  recvq : q.recvq = [] → q' = q
  closedNoWait : (q.w.closed = true → q.recvq = []) → (q'.w.closed = true → q'.recvq = [])
  suffix : ∃ k, q'.recvq = q.recvq.drop k

theorem FinOk.refl (q : QSt) : FinOk q q := ⟨⟨rfl, rfl, rfl⟩, rfl, ⟨rfl, rfl⟩, fun _ => rfl, fun h => h, ⟨0, rfl⟩⟩

theorem fin_strLoop : ∀ (fuel : Nat) (q : QSt), FinOk q (qReadFinishStrLoop fuel q).1 := by
  intro fuel
  induction fuel with
  | zero => intro q; exact FinOk.refl q
  | succ n ih =>
    intro q
    unfold qReadFinishStrLoop
    split
    · exact FinOk.refl q
    · rename_i r rest hr
      split
      · exact FinOk.refl q
      · rename_i f fs hq
        split
        · have := ih { q with frees := q.frees + 1, w := { q.w with rxq := fs } }
          refine ⟨?_, ?_, ?_, ?_, ?_, ?_⟩
          · simpa using this.w
          · simpa using this.frame
          · have := this.own; simp only [] at this; simp only [hq, List.length_cons]; omega
          · intro h; simp [hr] at h
          · intro hc; exact this.closedNoWait hc
          · exact this.suffix
        · have hcnt := strCopy_count (f :: fs) r.cap
          have := ih { q with recvq := rest, frees := q.frees + (strCopy r.cap (f :: fs)).2.2, w := { q.w with rxq := (strCopy r.cap (f :: fs)).2.1 } }
          refine ⟨?_, ?_, ?_, ?_, ?_, ?_⟩
          · simpa using this.w
          · simpa using this.frame
          · have := this.own; simp only [] at this; simp only [hq]
            simp only [List.length_cons] at hcnt ⊢; omega
          · intro h; simp [hr] at h
          · intro hc; have h2 := this.closedNoWait; simp only [] at h2
            intro hcl
            apply h2
            · intro hcl2; have := hc hcl2; simp [hr] at this
            · exact hcl
          · obtain ⟨k, hk⟩ := this.suffix
            exact ⟨k + 1, by rw [hk, hr]; rfl⟩

theorem fin_msg (q : QSt) : FinOk q (qReadFinishMsg q).1 := by
  unfold qReadFinishMsg
  split
  · exact FinOk.refl q
  · rename_i r rest hr
    split
    · exact FinOk.refl q
    · refine ⟨⟨rfl, rfl, rfl⟩, rfl, ⟨rfl, by simp⟩, ?_, ?_, ⟨1, by rw [hr]; rfl⟩⟩
      · intro h; simp [hr] at h
      · intro hc hcl; have := hc hcl; simp [hr] at this

theorem fin_any (cfg : Cfg) (q : QSt) : FinOk q (qReadFinish cfg q).1 := by
  unfold qReadFinish qReadFinishStr
  split
  · exact fin_strLoop _ q
  · exact fin_msg q

/-- after ws_read_finish_msg, a complete message is still queued only if nobody waits -/
theorem fin_msg_held (q : QSt) : (qReadFinishMsg q).1.w.inmsg = false → (qReadFinishMsg q).1.w.rxq ≠ [] → (qReadFinishMsg q).1.recvq = [] := by
  unfold qReadFinishMsg
  split
  · rename_i hr; intro _ _; exact hr
  · split
    · rename_i hc; intro a b; simp only [] at a b; simp [a] at hc; exact absurd hc b
    · intro _ b; simp at b

end Nng.WsQ

namespace Nng.WsQ
open Nng Nng.Ws

theorem G_far (cfg : Cfg) (q : QSt) (o : List Out) (hcw : q.w.closed = true → q.recvq = [])
    (hown : q.allocs = q.frees + q.w.rxq.length) (hidle : q.w.want = 0) (hf : q.rxframe = false) :
    GInv cfg (qFinishAndRestart cfg q o).1 := by
  unfold qFinishAndRestart
  simp only []
  have hfin := fin_any cfg q
  have hheld : cfg.isstream = false → (qReadFinish cfg q).1.w.inmsg = false → (qReadFinish cfg q).1.w.rxq ≠ [] → (qReadFinish cfg q).1.recvq = [] := by
    intro hst
    have : qReadFinish cfg q = qReadFinishMsg q := by unfold qReadFinish; simp [hst]
    rw [this]; exact fin_msg_held q
  generalize (qReadFinish cfg q).1 = f at hfin hheld
  obtain ⟨⟨w1, w2, w3⟩, fr, ⟨o1, o2⟩, _, cw, _⟩ := hfin
  have hcw' := cw hcw
  unfold qStartRead
  by_cases c1 : (f.rxframe || f.w.closed) = true
  · rw [if_pos c1]
    refine ⟨hcw', ?_, ?_, ?_⟩
    · simp [live, fr, hf]; omega
    · intro a b c; exact ⟨hheld a b c, by rw [w2]; exact hidle⟩
    · intro h; rw [w2] at h; exact absurd hidle h
  · rw [if_neg c1]
    by_cases c2 : (f.recvq.isEmpty && !f.w.rxq.isEmpty) = true
    · rw [if_pos c2]
      refine ⟨hcw', ?_, ?_, ?_⟩
      · simp [live, fr, hf]; omega
      · intro a b c; exact ⟨hheld a b c, by rw [w2]; exact hidle⟩
      · intro h; rw [w2] at h; exact absurd hidle h
    · rw [if_neg c2]
      refine ⟨hcw', ?_, ?_, ?_⟩
      · simp [live]; omega
      · intro a b c
        have := hheld a b c
        simp [this] at c2
        exact absurd c2 c
      · intro _; rfl

theorem G_more (cfg : Cfg) (q : QSt) (h : GCb cfg q) (ph : Phase) (n : Nat) :
    GInv cfg { q with w := { q.w with phase := ph, want := n, got := 0, accR := [] } } := by
  have h1 := h.closedNoWait; have h2 := h.own; have h3 := h.cur; have h5 := h.frame
  refine ⟨h1, ?_, ?_, fun _ => h5⟩
  · simp [live, h5]; omega
  · intro a b c; exact absurd (h3 a b) c

theorem G_sendControl (cfg : Cfg) (q : QSt) (op : Nat) (p : Bytes) :
    (qSendControl cfg q op p).1.w.closed = q.w.closed ∧ (qSendControl cfg q op p).1.w.want = q.w.want ∧
    (qSendControl cfg q op p).1.w.rxq = q.w.rxq ∧ (qSendControl cfg q op p).1.w.inmsg = q.w.inmsg ∧
    (qSendControl cfg q op p).1.recvq = q.recvq ∧ (qSendControl cfg q op p).1.rxframe = q.rxframe ∧
    (qSendControl cfg q op p).1.allocs = q.allocs ∧ (qSendControl cfg q op p).1.frees = q.frees := by
  unfold qSendControl
  split
  · simp
  · split <;> simp

theorem G_frameCb (cfg : Cfg) (q : QSt) (h : GCb cfg q) (f : RxFrame) (p : Bytes) : GInv cfg (qFrameCb cfg q f p).1 := by
  have h1 := h.closedNoWait; have h2 := h.own; have h4 := h.idle
  have happ : ∀ im, GInv cfg (qFinishAndRestart cfg (qAppend q im p) []).1 :=
    fun im => G_far cfg (qAppend q im p) [] h1 (by simp [qAppend]; omega) h4 rfl
  have hdata : GInv cfg (qDataFrame cfg q f p).1 := by
    unfold qDataFrame
    split
    · exact G_fail cfg q _ h
    · exact happ _
  unfold qFrameCb
  split
  · split
    · exact G_fail cfg q _ h
    · exact happ _
  · split
    · split
      · exact G_fail cfg q _ h
      · exact hdata
    · split
      · exact hdata
      · split
        · split
          · exact G_fail cfg q _ h
          · obtain ⟨e1, e2, e3, e4, e5, e6, e7, e8⟩ := G_sendControl cfg q opPong p
            exact G_far cfg _ _ (by simp [qDrop, e1, e5]; exact h1) (by simp [qDrop, e7, e8, e3]; omega) (by simp [qDrop, e2, h4]) rfl
        · split
          · split
            · exact G_fail cfg q _ h
            · exact G_far cfg _ _ (by simp [qDrop]; exact h1) (by simp [qDrop]; omega) (by simp [qDrop, h4]) rfl
          · split
            · split
              · refine ⟨h1, ?_, ?_, fun hw => absurd rfl hw⟩
                · simp [live, h.frame]; omega
                · intro a b c; exact absurd (h.cur a b) c
              · exact G_fail cfg _ _ ⟨h1, h2, h.cur, h4, h.frame⟩
            · exact G_fail cfg q _ h

end Nng.WsQ

namespace Nng.WsQ
open Nng Nng.Ws

theorem G_acceptHdr (cfg : Cfg) (q : QSt) (h : GCb cfg q) (f0 : RxFrame) : GInv cfg (qAcceptHdr cfg q f0).1 := by
  unfold qAcceptHdr qComplete
  simp only []
  split
  · split
    · exact G_fail cfg q _ h
    · exact G_more cfg q h _ _
  · exact G_frameCb cfg q h _ _

theorem G_checks (cfg : Cfg) (q : QSt) (h : GCb cfg q) (f0 : RxFrame) : GInv cfg (qChecks cfg q f0).1 := by
  unfold qChecks
  repeat' split
  all_goals first | exact G_fail cfg q _ h | exact G_acceptHdr cfg q h f0

theorem G_headCb (cfg : Cfg) (q : QSt) (h : GCb cfg q) (b0 b1 : UInt8) : GInv cfg (qHeadCb cfg q b0 b1).1 := by
  unfold qHeadCb
  simp only []
  generalize (2 + (if decide (b1.toNat ≥ 128) = true then 4 else 0) +
    (if b1.toNat % 128 = 127 then 8 else if b1.toNat % 128 = 126 then 2 else 0)) = hl
  by_cases hne : hl ≠ 2
  · rw [if_pos hne]; exact G_more cfg q h _ _
  · rw [if_neg hne]; exact G_checks cfg q h _

theorem GCb_idle (cfg : Cfg) (q : QSt) (h : GInv cfg q) (hw : q.w.want ≠ 0) : GCb cfg (qIdle q) := by
  have hf := h.rdframe hw
  refine ⟨h.closedNoWait, ?_, ?_, rfl, hf⟩
  · have := h.own; simp [live, hf] at this; simp [qIdle, idleOf]; omega
  · intro a b
    show q.w.rxq = []
    cases hq : q.w.rxq with
    | nil => rfl
    | cons x xs => exact absurd (h.heldPaused a b (by simp [hq])).2 hw

/-- GInv does not mention the transport fields -/
theorem GInv_io (cfg : Cfg) (q q' : QSt) (hw : q'.w = q.w) (hr : q'.recvq = q.recvq) (hf : q'.rxframe = q.rxframe)
    (ha : q'.allocs = q.allocs) (hfr : q'.frees = q.frees) (h : GInv cfg q) : GInv cfg q' := by
  refine ⟨?_, ?_, ?_, ?_⟩
  · rw [hw, hr]; exact h.closedNoWait
  · have := h.own; simp only [live] at this ⊢; rw [hw, hf, ha, hfr]; exact this
  · rw [hw, hr]; exact h.heldPaused
  · rw [hw, hf]; exact h.rdframe

theorem G_readCb (cfg : Cfg) (q : QSt) (h : GInv cfg q) (hw : q.w.want ≠ 0) (bytes : Bytes) : GInv cfg (qReadCb cfg q bytes).1 := by
  have hcb := GCb_idle cfg q h hw
  unfold qReadCb
  split
  · exact G_headCb cfg _ hcb _ _
  · exact G_checks cfg _ hcb _
  · exact G_frameCb cfg _ hcb _ _
  · -- (phase idle with a read outstanding does not occur; the invariant holds anyway)
    refine ⟨h.closedNoWait, ?_, ?_, fun hx => absurd rfl hx⟩
    · exact h.own
    · intro a b c
      exact absurd (h.heldPaused a b c).2 hw

theorem G_pump (cfg : Cfg) : ∀ (fuel : Nat) (q : QSt), GInv cfg q → GInv cfg (pump cfg fuel q).1 := by
  intro fuel
  induction fuel with
  | zero => intro q h; exact h
  | succ n ih =>
    intro q h
    unfold pump
    by_cases hstop : q.w.want = 0 ∨ q.pend.length < q.w.want
    · rw [if_pos hstop]; exact h
    · rw [if_neg hstop]
      have hw : q.w.want ≠ 0 := fun hx => hstop (Or.inl hx)
      exact ih _ (G_readCb cfg _ (GInv_io cfg q { q with pend := q.pend.drop q.w.want, used := q.used ++ q.pend.take q.w.want } rfl rfl rfl rfl rfl h) hw _)

theorem G_startRead (cfg : Cfg) (q : QSt) (h : GInv cfg q)
    (hx : cfg.isstream = false → q.w.inmsg = false → q.w.rxq ≠ [] → q.recvq = []) : GInv cfg (qStartRead q) := by
  have h1 := h.closedNoWait; have h2 := h.own; have h3 := h.heldPaused; have h4 := h.rdframe
  unfold qStartRead
  by_cases c1 : (q.rxframe || q.w.closed) = true
  · rw [if_pos c1]; exact h
  · rw [if_neg c1]
    by_cases c2 : (q.recvq.isEmpty && !q.w.rxq.isEmpty) = true
    · rw [if_pos c2]; exact h
    · rw [if_neg c2]
      have hf : q.rxframe = false := by simp at c1; exact c1.1
      refine ⟨h1, ?_, ?_, fun _ => rfl⟩
      · simp [live, hf] at h2 ⊢; omega
      · intro a b c
        have := hx a b c
        simp [this] at c2
        exact absurd c2 c

theorem drop_single {α} (r : α) (k : Nat) : [r].drop k = [] ∨ [r].drop k = [r] := by
  cases k with
  | zero => right; rfl
  | succ n => left; simp

theorem G_recv (cfg : Cfg) (q : QSt) (h : GInv cfg q) (r : Rcv) : GInv cfg (qRecv cfg q r).1 := by
  have h1 := h.closedNoWait; have h2 := h.own; have h3 := h.heldPaused; have h4 := h.rdframe
  unfold qRecv
  simp only []
  -- the state after the append and the conditional ws_read_finish
  have key : ∀ f : QSt × List Out, f = (if q.recvq.isEmpty then qReadFinish cfg { q with recvq := q.recvq ++ [r] } else ({ q with recvq := q.recvq ++ [r] }, [])) →
      (f.1.w.closed = q.w.closed ∧ f.1.w.want = q.w.want ∧ f.1.rxframe = q.rxframe ∧ f.1.allocs = q.allocs ∧
       f.1.frees + f.1.w.rxq.length = q.frees + q.w.rxq.length) ∧
      (cfg.isstream = false → f.1.w.inmsg = false → f.1.w.rxq ≠ [] → False) ∧
      (q.recvq = [] → f.1.recvq = [] ∨ f.1.recvq = [r]) := by
    intro f hf
    by_cases he : q.recvq.isEmpty = true
    · rw [if_pos he] at hf
      have hre : q.recvq = [] := by simpa using he
      have hfin := fin_any cfg { q with recvq := q.recvq ++ [r] }
      rw [← hf] at hfin
      refine ⟨⟨hfin.w.1, hfin.w.2.1, hfin.frame, hfin.own.1, hfin.own.2⟩, ?_, ?_⟩
      · intro hst a b
        have hm : qReadFinish cfg { q with recvq := q.recvq ++ [r] } = qReadFinishMsg { q with recvq := q.recvq ++ [r] } := by
          unfold qReadFinish; simp [hst]
        rw [hm] at hf
        rw [hf] at a b
        unfold qReadFinishMsg at a b
        simp only [hre, List.nil_append] at a b
        split at a
        · simp_all
        · simp_all
      · intro _
        obtain ⟨k, hk⟩ := hfin.suffix
        simp only [hre, List.nil_append] at hk
        rw [hk]; exact drop_single r k
    · rw [if_neg he] at hf
      rw [hf]
      refine ⟨⟨rfl, rfl, rfl, rfl, rfl⟩, ?_, ?_⟩
      · intro hst a b
        have := (h3 hst a b).1
        simp [this] at he
      · intro hre; simp [hre] at he
  generalize hfdef : (if q.recvq.isEmpty then qReadFinish cfg { q with recvq := q.recvq ++ [r] } else ({ q with recvq := q.recvq ++ [r] }, [])) = f
  obtain ⟨⟨k1, k2, k3, k4, k5⟩, k6, k7⟩ := key f hfdef.symm
  by_cases hc : (f.1.w.closed && f.1.recvq.any (·.id == r.id)) = true
  · rw [if_pos hc]
    have hcl : q.w.closed = true := by simp at hc; rw [← k1]; exact hc.1
    have hre : q.recvq = [] := h1 hcl
    refine ⟨?_, ?_, ?_, ?_⟩
    · intro _
      rcases k7 hre with h0 | h0 <;> simp [h0]
    · simp only [live, k3, k4]; simp only [live] at h2; omega
    · intro a b c; exact absurd c (fun c' => k6 a b c')
    · intro hw; simp only [] at hw; rw [k2] at hw; simp only []; rw [k3]; exact h4 hw
  · rw [if_neg hc]
    apply G_startRead
    · refine ⟨?_, ?_, ?_, ?_⟩
      · intro hcl
        have hcl0 : q.w.closed = true := by rw [← k1]; exact hcl
        have hre : q.recvq = [] := h1 hcl0
        simp [hcl] at hc
        rcases k7 hre with h0 | h0
        · exact h0
        · rw [h0] at hc; simp at hc
      · simp only [live, k3, k4]; simp only [live] at h2; omega
      · intro a b c; exact absurd c (fun c' => k6 a b c')
      · intro hw; rw [k2] at hw; rw [k3]; exact h4 hw
    · intro a b c; exact absurd c (fun c' => k6 a b c')

end Nng.WsQ

namespace Nng.WsQ
open Nng Nng.Ws

theorem G_cancel (cfg : Cfg) (q : QSt) (h : GInv cfg q) (id rv : Nat) : GInv cfg (qCancel q id rv).1 := by
  unfold qCancel
  split
  · refine ⟨?_, h.own, ?_, h.rdframe⟩
    · intro hc; simp [h.closedNoWait hc]
    · intro a b c; have := h.heldPaused a b c; exact ⟨by simp [this.1], this.2⟩
  · exact h

theorem G_step (cfg : Cfg) (q : QSt) (h : GInv cfg q) (e : QEv) : GInv cfg (step cfg q e).1 := by
  cases e with
  | bytes bs => exact G_pump cfg _ _ (GInv_io cfg q _ rfl rfl rfl rfl rfl h)
  | post id cap => exact G_pump cfg _ _ (G_recv cfg q h _)
  | cancel id rv => exact G_cancel cfg q h id rv
  | close => exact G_close cfg q 1000 h

theorem G_init (cfg : Cfg) : GInv cfg init := by
  constructor <;> simp [init, live]

theorem G_run (cfg : Cfg) : ∀ (evs : List QEv) (q : QSt), GInv cfg q → GInv cfg (run cfg q evs).1 := by
  intro evs
  induction evs with
  | nil => intro q h; exact h
  | cons e es ih => intro q h; exact ih _ (G_step cfg q h e)

/-- ws_close: exactly the waiting receives complete, each with NNG_ECLOSED and no data, and nobody waits afterwards -/
theorem close_fails_waiters (cfg : Cfg) (q : QSt) (code : Nat) :
    (qClose cfg q code).1.recvq = [] ∧ (qClose cfg q code).1.w.closed = true ∧
    (qClose cfg q code).1.w.rxq = q.w.rxq ∧
    ∃ t, (qClose cfg q code).2 = (q.recvq.map fun r => Out.done r.id closeErr []) ++ t ∧ ∀ o ∈ t, ∃ b, o = Out.tx b := by
  unfold qClose
  split
  · rename_i hc; exact ⟨rfl, hc, rfl, [], by simp, by simp⟩
  · split
    · rename_i fr rng' _
      exact ⟨by simp, by simp, by simp, [.tx fr], by simp, by simp⟩
    · exact ⟨by simp, by simp, by simp, [], by simp, by simp⟩

theorem fini_releases (cfg : Cfg) (q : QSt) (h : GInv cfg q) :
    (qFini cfg q).1.allocs = (qFini cfg q).1.frees ∧ (qFini cfg q).1.recvq = [] ∧ (qFini cfg q).1.w.rxq = [] ∧
    (qFini cfg q).1.rxframe = false := by
  have hc := G_close cfg q 1000 h
  have hcl := close_fails_waiters cfg q 1000
  unfold qFini
  refine ⟨?_, hcl.1, rfl, rfl⟩
  have := hc.own
  simp only [live] at this
  show (qClose cfg q 1000).1.allocs = (qClose cfg q 1000).1.frees + (qClose cfg q 1000).1.w.rxq.length + (if (qClose cfg q 1000).1.rxframe then 1 else 0)
  omega

end Nng.WsQ
