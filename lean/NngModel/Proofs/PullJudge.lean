/-
  The PULL model satisfies the C06 trace predicate `pullJudge` (Spec/Pipeline.lean) on
  every event sequence: simulation between the model state and the judge state.
-/
import NngModel.Proofs.Pull
import NngModel.Spec.Pipeline
namespace Nng.Pull
open Nng Nng.Proto Nng.PipelineSpec

/-- the judge without the receive-liveness clause: `pullStep` = `pullStepOld` followed by the
    bookkeeping of connected pipes (`trackLive`) and the clause `pullLive`.  The simulation `R`
    below is carried out for `pullStepOld`; the section "receive liveness" at the end adds the rest. -/
def pullStepOld (j : PullJ) (ev : Ev) (outs : List Out) : PullJ :=
  if j.err.isSome then j else
  if notExecuted outs then j else
  match ev with
  | .send .. => j
  | _ =>
  let (j, nb) := pullPre j ev outs
  let j := (outs.filter isDone).foldl (pullOut nb) j
  let j := (outs.filter (fun o => !isDone o)).foldl (pullOut nb) j
  pullPost nb outs j

/-- the trace (event, outputs) the model produces from state `s` -/
def traceOf (s : State) : List Ev → List (Ev × List Out)
  | [] => []
  | e :: es => (e, (step s e).2) :: traceOf (step s e).1 es

/-- what the judge remembers about the message held by pipe `p` -/
def hm (ps : List Pipe) (p : Nat) : Nat × WMsg :=
  (p, ((heldOf ps p).head?.map (·.m)).getD default)

/-- simulation relation between model state and judge state -/
structure R (s : State) (j : PullJ) : Prop where
  err : j.err = none
  waiting : j.waiting = s.rq.map (·.aio)
  held : j.held = s.pl.map (hm s.pipes)
  armed : ∀ p, p ∈ j.armed ↔ ∃ pp, getP s.pipes p = some pp ∧ pp.armed = true
  rqNodup : (s.rq.map (·.aio)).Nodup

theorem R_init : R ({} : State) ({} : PullJ) := by
  constructor <;> simp [getP]

/-! ### the judge on single outputs -/

theorem pullOut_rv (nb : Option Nat) (j : PullJ) (n : Int) : pullOut nb j (.rv n) = j := rfl
theorem pullOut_pipe (nb : Option Nat) (j : PullJ) (n : Int) : pullOut nb j (.pipe n) = j := rfl
theorem pullOut_poll (nb : Option Nat) (j : PullJ) (r w : Option Bool) : pullOut nb j (.poll r w) = j := rfl
theorem pullOut_pclosed (nb : Option Nat) (j : PullJ) (p : Nat) :
    pullOut nb j (.pclosed p) =
      { j with armed := j.armed.filter (· != p), held := j.held.filter (·.1 != p),
               closedPipes := j.closedPipes ++ [p] } := rfl

theorem pullOut_parm (nb : Option Nat) (j : PullJ) (p : Nat) (h1 : p ∉ j.armed)
    (h2 : ∀ x ∈ j.held, x.1 ≠ p) :
    pullOut nb j (.parm p) = { j with armed := j.armed ++ [p] } := by
  have h2' : (j.held.any (·.1 == p)) = false := by
    rw [List.any_eq_false]; intro x hx; simpa using h2 x hx
  simp [pullOut, h1, h2']

theorem pullOut_fail (nb : Option Nat) (j : PullJ) (a rv : Nat) (mb : Bool) (hrv : rv ≠ 0)
    (ha : a ∈ j.waiting ∨ nb = some a) :
    pullOut nb j (.done a rv none mb) = { j with waiting := j.waiting.filter (· != a) } := by
  have : (!(j.waiting.contains a) && nb != some a) = false := by
    rcases ha with h | h <;> simp [h]
  unfold pullOut
  simp only [this]
  cases rv with
  | zero => exact absurd rfl hrv
  | succ n => simp

theorem pullOut_deliver (nb : Option Nat) (j : PullJ) (a p : Nat) (m : WMsg) (mb : Bool)
    (rest : List (Nat × WMsg)) (hh : j.held = (p, m) :: rest)
    (ha : a ∈ j.waiting ∨ nb = some a) :
    pullOut nb j (.done a 0 (some m) mb) =
      { j with waiting := j.waiting.filter (· != a), held := rest, delivered := j.delivered ++ [m] } := by
  have : (!(j.waiting.contains a) && nb != some a) = false := by
    rcases ha with h | h <;> simp [h]
  unfold pullOut
  simp only [this]
  simp [hh, List.find?_cons]


/-! ### the judge on one step -/

def Quiet (j : PullJ) : Prop := j.waiting = [] ∨ j.held = []

theorem pullPost_none {outs : List Out} {j : PullJ} (hb : outs.any isBlocked = false) (hq : Quiet j) :
    pullPost none outs j = j := by
  unfold pullPost
  simp only [hb]
  rcases hq with h | h <;> simp [h]

theorem pullPost_some {outs : List Out} {j : PullJ} {a : Nat} (hb : outs.any isBlocked = false)
    (hd : outs.any (isDoneOf a) = true) (hq : Quiet j) : pullPost (some a) outs j = j := by
  unfold pullPost
  simp only [hb, hd]
  rcases hq with h | h <;> simp [h]

theorem R_quiet {s : State} {j : PullJ} (hI : Inv s) (hR : R s j) : Quiet j := by
  by_cases h : s.rq = []
  · left; rw [hR.waiting, h]; rfl
  · right; rw [hR.held, hI.rqpl h]; rfl

def procOuts (nb : Option Nat) (outs : List Out) (j : PullJ) : PullJ :=
  (outs.filter (fun o => !isDone o)).foldl (pullOut nb) ((outs.filter isDone).foldl (pullOut nb) j)

def isSend : Ev → Bool | .send .. => true | _ => false

theorem pullStep_eq {j : PullJ} {ev : Ev} {outs : List Out} (herr : j.err = none)
    (hne : notExecuted outs = false) (hns : isSend ev = false) :
    pullStepOld j ev outs =
      pullPost (pullPre j ev outs).2 outs (procOuts (pullPre j ev outs).2 outs (pullPre j ev outs).1) := by
  unfold pullStepOld procOuts
  simp only [herr, hne]
  cases ev <;> first | (simp [isSend] at hns; done) | rfl

theorem pullStep_refused {j : PullJ} {ev : Ev} {outs : List Out} (hne : notExecuted outs = true) :
    pullStepOld j ev outs = j := by
  unfold pullStepOld; simp [hne]

theorem R_frame {s s' : State} {j : PullJ} (h1 : s'.rq = s.rq) (h2 : s'.pl = s.pl) (h3 : s'.pipes = s.pipes)
    (hR : R s j) : R s' j := by
  obtain ⟨a, b, c, d, f⟩ := hR
  constructor
  · exact a
  · rw [h1]; exact b
  · rw [h2, h3]; exact c
  · rw [h3]; exact d
  · rw [h1]; exact f

/-- an executed event that the judge does no bookkeeping for and whose outputs it ignores -/
theorem step_plain {s : State} {j : PullJ} {ev : Ev} {outs : List Out} (hI : Inv s) (hR : R s j)
    (hne : notExecuted outs = false) (hns : isSend ev = false)
    (hpre : pullPre j ev outs = (j, none)) (hproc : procOuts none outs j = j)
    (hb : outs.any isBlocked = false) : pullStepOld j ev outs = j := by
  rw [pullStep_eq hR.err hne hns, hpre]
  simp only [hproc]
  exact pullPost_none hb (R_quiet hI hR)


/-! ### pipe close -/

theorem hm_setP_other {ps : List Pipe} {q : Nat} {pp' : Pipe} (hq : q ≠ pp'.id) :
    hm (setP ps pp') q = hm ps q := by
  unfold hm; rw [heldOf_setP_other hq]

theorem closePipe_R {s : State} {j : PullJ} (hR : R s j) (nb : Option Nat) (p : Nat) :
    R (closePipe s p).1 ((closePipe s p).2.foldl (pullOut nb) j) := by
  unfold closePipe getPipe
  split
  · exact hR
  · rename_i pp hget
    split
    · exact hR
    · rename_i hopen
      have hpid : pp.id = p := (getP_some hget).2
      obtain ⟨a, b, c, d, f⟩ := hR
      simp only [List.foldl_cons, List.foldl_nil, pullOut_pclosed]
      constructor <;> simp only []
      · exact a
      · exact b
      · rw [c, List.filter_map]
        have : ((fun x : Nat × WMsg => x.1 != p) ∘ hm s.pipes) = (fun x => x != p) := by
          funext x; simp [hm]
        rw [this]
        apply List.map_congr_left
        intro q hq
        have : q ≠ p := by simpa using (List.mem_filter.1 hq).2
        exact (hm_setP_other (by simpa [hpid] using this)).symm
      · intro q; rw [getP_setP]; have := d q; simp only [List.mem_filter]; grind
      · exact f

theorem closeAll_R (nb : Option Nat) (l : List Nat) : ∀ {s : State} {j : PullJ}, R s j →
    R (closeAll s l).1 ((closeAll s l).2.foldl (pullOut nb) j) := by
  induction l with
  | nil => intro s j h; exact h
  | cons a l ih =>
    intro s j h
    simp only [closeAll, List.foldl_append]
    exact ih (closePipe_R h nb a)

theorem closePipe_outs_notDone (s : State) (p : Nat) : ∀ o ∈ (closePipe s p).2, isDone o = false := by
  unfold closePipe; split
  · simp
  · split <;> simp [isDone]

theorem closeAll_outs_notDone (l : List Nat) : ∀ (s : State), ∀ o ∈ (closeAll s l).2, isDone o = false := by
  induction l with
  | nil => intro s o ho; simp [closeAll] at ho
  | cons a l ih =>
    intro s o ho
    simp only [closeAll, List.mem_append] at ho
    rcases ho with ho | ho
    · exact closePipe_outs_notDone s a o ho
    · exact ih _ o ho


/-! ### output side conditions -/

def tame : Out → Bool
  | .blocked _ => false
  | .other _ => false
  | _ => true

theorem tame_all {outs : List Out} (h : ∀ o ∈ outs, tame o = true) :
    notExecuted outs = false ∧ outs.any isBlocked = false := by
  constructor
  · unfold notExecuted; rw [List.any_eq_false]; intro o ho
    have := h o ho; cases o <;> simp_all [tame]
  · rw [List.any_eq_false]; intro o ho
    have := h o ho; cases o <;> simp_all [tame, isBlocked]

theorem tame_append {a b : List Out} (ha : ∀ o ∈ a, tame o = true) (hb : ∀ o ∈ b, tame o = true) :
    ∀ o ∈ a ++ b, tame o = true := by
  intro o ho; rcases List.mem_append.1 ho with h | h
  · exact ha o h
  · exact hb o h

theorem closePipe_tame (s : State) (p : Nat) : ∀ o ∈ (closePipe s p).2, tame o = true := by
  unfold closePipe; split
  · simp
  · split <;> simp [tame]

theorem closeAll_tame (l : List Nat) : ∀ (s : State), ∀ o ∈ (closeAll s l).2, tame o = true := by
  induction l with
  | nil => intro s o ho; simp [closeAll] at ho
  | cons a l ih =>
    intro s; simp only [closeAll]
    exact tame_append (closePipe_tame s a) (ih _)

theorem procOuts_notDone {nb : Option Nat} {outs : List Out} {j : PullJ}
    (h : ∀ o ∈ outs, isDone o = false) : procOuts nb outs j = outs.foldl (pullOut nb) j := by
  unfold procOuts
  have h1 : outs.filter isDone = [] := by
    rw [List.filter_eq_nil_iff]; intro o ho; simp [h o ho]
  have h2 : outs.filter (fun o => !isDone o) = outs := by
    rw [List.filter_eq_self]; intro o ho; simp [h o ho]
  rw [h1, h2]; rfl

theorem procOuts_allDone {nb : Option Nat} {outs : List Out} {j : PullJ}
    (h : ∀ o ∈ outs, isDone o = true) : procOuts nb outs j = outs.foldl (pullOut nb) j := by
  unfold procOuts
  have h1 : outs.filter isDone = outs := by
    rw [List.filter_eq_self]; intro o ho; simp [h o ho]
  have h2 : outs.filter (fun o => !isDone o) = [] := by
    rw [List.filter_eq_nil_iff]; intro o ho; simp [h o ho]
  rw [h1, h2]; rfl

/-- closing the step: the end-of-step checks pass in a state related to a model state -/
theorem finish {s' : State} {j' : PullJ} {nb : Option Nat} {outs : List Out} (hI' : Inv s') (hR' : R s' j')
    (hb : outs.any isBlocked = false)
    (hnb : nb = none ∨ ∃ a, nb = some a ∧ outs.any (isDoneOf a) = true) :
    R s' (pullPost nb outs j') := by
  rcases hnb with rfl | ⟨a, rfl, hd⟩
  · rw [pullPost_none hb (R_quiet hI' hR')]; exact hR'
  · rw [pullPost_some hb hd (R_quiet hI' hR')]; exact hR'

/-! ### events -/

theorem evPipeDrop_R {s : State} {j : PullJ} (hI : Inv s) (hR : R s j) (p : Nat) :
    R (evPipeDrop s p).1 (pullStepOld j (.pipeDrop p) (evPipeDrop s p).2) := by
  have hI' := evPipeDrop_inv hI p
  unfold evPipeDrop at hI' ⊢
  split
  · split
    · rw [step_plain hI hR (by simp [notExecuted]) rfl rfl rfl (by simp [isBlocked])]; exact hR
    · rename_i pp hget hopen
      simp only [hget, hopen] at hI'
      have ht : ∀ o ∈ [Out.rv 0] ++ (closePipe s p).2, tame o = true :=
        tame_append (by simp [tame]) (closePipe_tame s p)
      rw [pullStep_eq hR.err (tame_all ht).1 rfl]
      simp only [pullPre]
      refine finish hI' ?_ (tame_all ht).2 (Or.inl rfl)
      rw [procOuts_notDone (by
        intro o ho; rcases List.mem_append.1 ho with h | h
        · simp at h; subst h; rfl
        · exact closePipe_outs_notDone s p o h)]
      rw [List.foldl_append]
      exact closePipe_R hR none p
  · rw [step_plain hI hR (by simp [notExecuted]) rfl rfl rfl (by simp [isBlocked])]; exact hR


theorem heldOf_snoc {ps : List Pipe} (hids : ps.map (·.id) = List.range ps.length) (n : Pipe)
    (hn : n.id = ps.length) {q : Nat} (hq : q ≠ ps.length) : heldOf (ps ++ [n]) q = heldOf ps q := by
  unfold heldOf; rw [getP_snoc hids n hn, if_neg hq]

theorem pl_lt {s : State} (hI : Inv s) {q : Nat} (hq : q ∈ s.pl) : q < s.pipes.length := by
  obtain ⟨pp, h1, _⟩ := (hI.plSpec q).1 hq
  exact getP_lt hI.ids h1

theorem addPipe_R {s : State} {j : PullJ} (hI : Inv s) (hR : R s j) (n : Pipe) (hn : n.id = s.pipes.length) :
    R { s with pipes := s.pipes ++ [n] }
      { j with armed := if n.armed then j.armed ++ [n.id] else j.armed } := by
  obtain ⟨a, b, c, d, f⟩ := hR
  have hsn := getP_snoc hI.ids n hn
  have hlt := @getP_lt s.pipes hI.ids
  constructor <;> simp only []
  · exact a
  · exact b
  · rw [c]; apply List.map_congr_left; intro q hq
    have := pl_lt hI hq
    unfold hm; rw [heldOf_snoc hI.ids n hn (by omega)]
  · intro q; rw [hsn]; have := d q
    by_cases hq : q = s.pipes.length
    · have hnone : ¬ ∃ pp, getP s.pipes q = some pp ∧ pp.armed = true := by
        rintro ⟨pp, h1, _⟩; have := hlt h1; omega
      cases hna : n.armed <;> simp [hq, hn, hna] <;> grind
    · cases hna : n.armed <;> simp [hq, hn, hna] <;> grind
  · exact f

theorem evPipeAdd_R {s : State} {j : PullJ} (hI : Inv s) (hR : R s j) (peer : Nat) :
    R (evPipeAdd s peer).1 (pullStepOld j (.pipeAdd peer) (evPipeAdd s peer).2) := by
  have hI' := evPipeAdd_inv hI peer
  have hnarm : s.pipes.length ∉ j.armed := by
    intro h; obtain ⟨pp, h1, _⟩ := (hR.armed _).1 h; have := getP_lt hI.ids h1; omega
  have hnheld : ∀ x ∈ j.held, x.1 ≠ s.pipes.length := by
    intro x hx; rw [hR.held] at hx
    obtain ⟨q, hq, rfl⟩ := List.mem_map.1 hx
    have := pl_lt hI hq; simp [hm]; omega
  unfold evPipeAdd at hI' ⊢
  split
  · rename_i hpeer
    simp only [hpeer, if_true] at hI'
    rw [pullStep_eq hR.err (by simp [notExecuted]) rfl]
    simp only [pullPre]
    refine finish hI' ?_ (by simp [isBlocked]) (Or.inl rfl)
    have := addPipe_R hI hR { id := s.pipes.length, closed := true } rfl
    simp only [procOuts, List.filter, isDone, Bool.not_false, Bool.not_true, List.foldl_cons, List.foldl_nil,
      pullOut_pipe, pullOut_pclosed]
    obtain ⟨a, b, c, d, f⟩ := this
    constructor <;> simp only [] <;> first | assumption | skip
    · rw [← c]; simp only [] ; rw [List.filter_eq_self]; intro x hx; simpa using hnheld x hx
    · intro q; rw [← d q]; simp only [Bool.false_eq_true, if_false, List.mem_filter]
      constructor
      · exact fun h => h.1
      · intro h; exact ⟨h, by simp; intro hq; exact hnarm (hq ▸ h)⟩
  · rename_i hpeer
    simp only [hpeer, if_false] at hI'
    rw [pullStep_eq hR.err (by simp [notExecuted]) rfl]
    simp only [pullPre]
    refine finish hI' ?_ (by simp [isBlocked]) (Or.inl rfl)
    have := addPipe_R hI hR { id := s.pipes.length, armed := true } rfl
    simp only [procOuts, List.filter, isDone, Bool.not_false, Bool.not_true, List.foldl_cons, List.foldl_nil,
      pullOut_pipe]
    rw [pullOut_parm none j _ hnarm hnheld]
    exact this


theorem failParked_R {s : State} {j : PullJ} (hR : R s j) (nb : Option Nat) (a rv : Nat) (hrv : rv ≠ 0) :
    R (failParked s a rv).1 ((failParked s a rv).2.foldl (pullOut nb) j) := by
  unfold failParked
  split
  · rename_i hany
    obtain ⟨a1, b, c, d, f⟩ := hR
    have hmem : a ∈ j.waiting := by
      rw [b]; simp only [List.any_eq_true, beq_iff_eq] at hany
      obtain ⟨x, hx, rfl⟩ := hany; exact List.mem_map.2 ⟨x, hx, rfl⟩
    simp only [List.foldl_cons, List.foldl_nil]
    rw [pullOut_fail nb j a rv false hrv (Or.inl hmem)]
    constructor <;> simp only [] <;> first | assumption | skip
    · rw [b, List.filter_map]; rfl
    · exact f.sublist (List.filter_sublist.map _)
  · exact hR

theorem failEach_R (nb : Option Nat) (rv : Nat) (hrv : rv ≠ 0) (l : List Nat) :
    ∀ {s : State} {j : PullJ}, R s j → R (failEach s rv l).1 ((failEach s rv l).2.foldl (pullOut nb) j) := by
  induction l with
  | nil => intro s j h; exact h
  | cons a l ih =>
    intro s j h
    simp only [failEach, List.foldl_append]
    exact ih (failParked_R h nb a rv hrv)

theorem failParked_outs (s : State) (a rv : Nat) :
    ∀ o ∈ (failParked s a rv).2, tame o = true ∧ isDone o = true := by
  unfold failParked; split <;> simp [tame, isDone]

theorem failEach_outs (rv : Nat) (l : List Nat) :
    ∀ (s : State), ∀ o ∈ (failEach s rv l).2, tame o = true ∧ isDone o = true := by
  induction l with
  | nil => intro s o ho; simp [failEach] at ho
  | cons a l ih =>
    intro s o ho
    simp only [failEach, List.mem_append] at ho
    rcases ho with ho | ho
    · exact failParked_outs s a rv o ho
    · exact ih _ o ho

/-- cancel / abort / timer expiry: a batch of failed completions -/
theorem failBatch_R {s : State} {j : PullJ} {ev : Ev} (hR : R s j) (rv : Nat) (hrv : rv ≠ 0) (l : List Nat)
    (hI' : Inv (failEach s rv l).1) (hns : isSend ev = false) (hpre : pullPre j ev (failEach s rv l).2 = (j, none)) :
    R (failEach s rv l).1 (pullStepOld j ev (failEach s rv l).2) := by
  have ho := failEach_outs rv l s
  rw [pullStep_eq hR.err (tame_all (fun o h => (ho o h).1)).1 hns, hpre]
  refine finish hI' ?_ (tame_all (fun o h => (ho o h).1)).2 (Or.inl rfl)
  simp only []
  rw [procOuts_allDone (fun o h => (ho o h).2)]
  exact failEach_R none rv hrv l hR


theorem hm_setP_same {ps : List Pipe} {p : Nat} {pp pp' : Pipe} {gm : GMsg} (hget : getP ps p = some pp)
    (e1 : pp'.id = p) (e4 : pp'.held = some gm) : hm (setP ps pp') p = (p, gm.m) := by
  unfold hm; rw [heldOf_setP_same hget e1, e4]; rfl

theorem closePipe_outs_open {s : State} {p : Nat} {pp : Pipe} (hget : getP s.pipes p = some pp)
    (hopen : pp.closed = false) : (closePipe s p).2 = [Out.pclosed p] := by
  unfold closePipe getPipe; simp [hget, hopen]

theorem evRecvDone_R {s : State} {j : PullJ} (hI : Inv s) (hR : R s j) (p : Nat) (r : Except Nat Bytes) :
    R (evRecvDone s p r).1 (pullStepOld j (.recvDone p r) (evRecvDone s p r).2) := by
  have hplain : ∀ r, pullStepOld j (.recvDone p r) [Out.rv (-1)] = j := by
    intro r
    refine step_plain hI hR (by simp [notExecuted]) rfl ?_ rfl (by simp [isBlocked])
    cases r <;> simp [pullPre]
  unfold evRecvDone getPipe
  split
  · rename_i pp hget
    split
    · rw [hplain]; exact hR
    · rename_i hok
      simp only [Bool.or_eq_true, Bool.not_eq_true', not_or, Bool.not_eq_true, Bool.not_eq_false] at hok
      obtain ⟨hheld, hdp, hho, hpnot⟩ := armed_facts hI hget hok.1 hok.2
      have hpid : pp.id = p := (getP_some hget).2
      have hparm : p ∈ j.armed := (hR.armed p).2 ⟨pp, hget, hok.2⟩
      have hc : j.armed.contains p = true := by simpa using hparm
      split
      · -- transport error: the pipe is closed
        rename_i e
        have hR' := closePipe_R hR none p
        have hI' := closePipe_inv hI p
        have hco := closePipe_outs_open hget hok.1
        show R (closePipe s p).1 (pullStepOld j _ ([Out.rv 0] ++ (closePipe s p).2))
        rw [hco] at hR' ⊢
        rw [pullStep_eq hR.err (by simp [notExecuted]) rfl]
        refine finish hI' ?_ (by simp [isBlocked]) (Or.inl (by simp [pullPre]))
        simp only [pullPre, List.contains_cons, beq_self_eq_true, Bool.true_or, if_true,
          procOuts, List.filter, isDone, Bool.not_false, List.foldl_cons, List.foldl_nil, pullOut_rv,
          pullOut_pclosed, List.cons_append, List.nil_append] at hR' ⊢
        obtain ⟨a, b, c, d, f⟩ := hR'
        constructor <;> (try simp only []) <;> first | assumption | skip
        intro q; rw [← d q]; simp [List.mem_filter]
      · rename_i b
        simp only []
        split
        · -- nobody waiting: the pipe keeps the message
          rename_i hrq0
          have hI' := hold_inv (pp' := { pp with armed := false, held := some ⟨s.narrive, p, ⟨[], b⟩⟩ })
            (gm := ⟨s.narrive, p, ⟨[], b⟩⟩) hI hget hok.1 hok.2 hrq0 rfl hok.1 rfl rfl rfl rfl
          rw [pullStep_eq hR.err (by simp [notExecuted]) rfl]
          refine finish hI' ?_ (by simp [isBlocked]) (Or.inl (by simp [pullPre, hparm]))
          simp only [pullPre, List.contains_cons, beq_self_eq_true, Bool.true_or, if_true, hc,
            Bool.not_true, Bool.false_eq_true, if_false,
            procOuts, List.filter, isDone, Bool.not_false, List.foldl_cons, List.foldl_nil, pullOut_rv]
          obtain ⟨a, b1, c, d, f⟩ := hR
          constructor <;> simp only [] <;> first | assumption | skip
          · rw [List.map_append, c]
            congr 1
            · apply List.map_congr_left; intro q hq
              have : q ≠ p := fun h => hpnot (h ▸ hq)
              exact (hm_setP_other (by simpa [hpid] using this)).symm
            · simp only [List.map_cons, List.map_nil]
              have := hm_setP_same (pp' := { pp with armed := false, held := some ⟨s.narrive, p, ⟨[], b⟩⟩ })
                (gm := ⟨s.narrive, p, ⟨[], b⟩⟩) hget hpid rfl
              rw [this]
          · intro q; rw [getP_setP]; have := d q; simp only [List.mem_filter]; grind
        · -- a receiver is waiting: straight up
          rename_i a rest hrq1
          have hI' := direct_inv (gm := ⟨s.narrive, p, ⟨[], b⟩⟩) hI hget hok.1 hok.2 hrq1 rfl rfl
          have hpl0 : s.pl = [] := hI.rqpl (by simp [hrq1])
          rw [pullStep_eq hR.err (by simp [notExecuted]) rfl]
          refine finish hI' ?_ (by simp [isBlocked]) (Or.inl (by simp [pullPre, hparm]))
          obtain ⟨a1, b1, c, d, f⟩ := hR
          have hheld0 : j.held = [] := by rw [c, hpl0]; rfl
          have hwait : j.waiting = a.aio :: rest.map (·.aio) := by rw [b1, hrq1]; rfl
          rw [hrq1] at f
          have hanot : a.aio ∉ rest.map (·.aio) := (List.nodup_cons.1 f).1
          simp only [pullPre, List.contains_cons, beq_self_eq_true, Bool.true_or, if_true, hc,
            Bool.not_true, Bool.false_eq_true, if_false,
            procOuts, List.filter, isDone, Bool.not_false, List.foldl_cons, List.foldl_nil, pullOut_rv]
          rw [pullOut_deliver none _ a.aio p ⟨[], b⟩ false [] (by simp [hheld0]) (Or.inl (by simp [hwait]))]
          rw [pullOut_parm none _ p (by simp) (by simp)]
          constructor <;> simp only [] <;> first | assumption | skip
          · rw [hwait, List.filter_cons]
            simp only [bne_self_eq_false, Bool.false_eq_true, if_false]
            rw [List.filter_eq_self]; intro x hx; simp; intro h; exact hanot (h ▸ hx)
          · rw [hpl0]; rfl
          · intro q; rw [← d q]; simp [List.mem_filter]; grind
          · exact (List.nodup_cons.1 f).2
  · rw [hplain]; exact hR


theorem pullPre_recv (j : PullJ) (c : Option Nat) (a : Nat) (mode : Mode) (outs : List Out) :
    pullPre j (.recv c a mode) outs =
      if mode = .nb then (j, some a) else ({ j with waiting := j.waiting ++ [a] }, none) := by
  cases mode <;> simp [pullPre]

theorem park_inv {s : State} (hI : Inv s) (x : Parked) (hpl0 : s.pl = []) :
    Inv { s with rq := s.rq ++ [x] } := by
  obtain ⟨hids, hc, hg, hpp, hwf, hd, hpl, hnd, hrq, hrd⟩ := hI
  constructor <;> (try simp only []) <;> first | assumption | skip
  intro _; exact hpl0

theorem filter_ne_self {l : List Nat} {a : Nat} (h : a ∉ l) : l.filter (· != a) = l := by
  rw [List.filter_eq_self]; intro x hx; simp; intro hxa; exact h (hxa ▸ hx)

theorem evRecv_R {s : State} {j : PullJ} (hI : Inv s) (hR : R s j) (c : Option Nat) (a : Nat) (mode : Mode) :
    R (evRecv s a mode).1 (pullStepOld j (.recv c a mode) (evRecv s a mode).2) := by
  unfold evRecv getPipe
  split
  · rw [pullStep_refused (by simp [notExecuted])]; exact hR
  · rename_i hbusy
    have hbusy' : ∀ x ∈ s.rq, ¬ x.aio = a := by simpa using hbusy
    have hanot : a ∉ j.waiting := by
      rw [hR.waiting]; intro h; obtain ⟨x, hx, hxa⟩ := List.mem_map.1 h; exact hbusy' x hx hxa
    split
    · rename_i hpl0
      split
      · -- immediate failure
        rename_i rv hfn
        have hrv : rv ≠ 0 := by
          unfold failNow at hfn; split at hfn <;> simp [Err.eagain, Err.etimedout] at hfn <;> omega
        rw [pullStep_eq hR.err (by simp [notExecuted]) rfl, pullPre_recv]
        by_cases hmode : mode = .nb
        · simp only [hmode, if_true]
          refine finish hI ?_ (by simp [isBlocked]) (Or.inr ⟨a, rfl, by simp [isDoneOf]⟩)
          simp only [procOuts, List.filter, isDone, Bool.not_true, List.foldl_cons, List.foldl_nil]
          rw [pullOut_fail (some a) j a rv false hrv (Or.inr rfl), filter_ne_self hanot]
          exact hR
        · simp only [hmode, if_false]
          refine finish hI ?_ (by simp [isBlocked]) (Or.inl rfl)
          simp only [procOuts, List.filter, isDone, Bool.not_true, List.foldl_cons, List.foldl_nil]
          rw [pullOut_fail none _ a rv false hrv (Or.inl (by simp))]
          simp only [List.filter_append, filter_ne_self hanot]
          simp only [List.filter, bne_self_eq_false, List.append_nil]
          exact hR
      · -- park the receiver
        rename_i hfn
        have hmode : mode ≠ .nb := by intro h; subst h; simp [failNow] at hfn
        have hI' := park_inv hI ⟨a, deadlineOf s.now mode⟩ hpl0
        rw [pullStep_eq hR.err (by simp [notExecuted]) rfl, pullPre_recv]
        simp only [hmode, if_false]
        refine finish hI' ?_ (by simp [isBlocked]) (Or.inl rfl)
        simp only [procOuts, List.filter, List.foldl_nil]
        obtain ⟨a1, b1, c1, d, f⟩ := hR
        constructor <;> (try simp only []) <;> first | assumption | skip
        · rw [b1]; simp
        · rw [List.map_append, List.nodup_append]; refine ⟨f, by simp, ?_⟩
          intro x hx y hy; simp at hy; subst hy
          obtain ⟨z, hz, rfl⟩ := List.mem_map.1 hx; exact hbusy' z hz
    · rename_i p rest hpl0
      split
      · rename_i pp hget
        split
        · -- hand the held message of the first ready pipe up
          rename_i gm hheld
          have hI' := take_inv (pp' := { pp with held := none, armed := true }) hI hpl0 hget hheld rfl rfl rfl rfl
          have hrq0 : s.rq = [] := by
            cases h : s.rq with
            | nil => rfl
            | cons x l => have := hI.rqpl (by simp [h]); simp [hpl0] at this
          have hw0 : j.waiting = [] := by rw [hR.waiting, hrq0]; rfl
          have hpid : pp.id = p := (getP_some hget).2
          have hheldj : j.held = (p, gm.m) :: rest.map (hm s.pipes) := by
            rw [hR.held, hpl0]; simp [hm, heldOf, hget, hheld]
          have hnd := hI.plNodup; rw [hpl0] at hnd
          have hprest : p ∉ rest := (List.nodup_cons.1 hnd).1
          have hnarm : p ∉ j.armed := by
            intro h; obtain ⟨pp1, h1, h2⟩ := (hR.armed p).1 h
            rw [hget] at h1; cases h1
            have := ((hI.wf p pp hget).1.1 h2).2; simp [hheld] at this
          have hnh : ∀ x ∈ rest.map (hm s.pipes), x.1 ≠ p := by
            intro x hx; obtain ⟨q, hq, rfl⟩ := List.mem_map.1 hx
            simp [hm]; intro h; exact hprest (h ▸ hq)
          rw [pullStep_eq hR.err (by simp [notExecuted]) rfl, pullPre_recv]
          obtain ⟨a1, b1, c1, d, f⟩ := hR
          have hfinal : R { s with
                                pl := rest, delivered := s.delivered ++ [gm],
                                readable := if rest.isEmpty then false else s.readable,
                                pipes := setP s.pipes { pp with held := none, armed := true } }
              { j with
                  waiting := [], held := rest.map (hm s.pipes), delivered := j.delivered ++ [gm.m],
                  armed := j.armed ++ [p] } := by
            constructor <;> (try simp only []) <;> first | assumption | skip
            · rw [hrq0]; rfl
            · apply List.map_congr_left; intro q hq
              have : q ≠ p := fun h => hprest (h ▸ hq)
              exact (hm_setP_other (by simpa [hpid] using this)).symm
            · intro q; rw [getP_setP]; have := d q; simp only [List.mem_append, List.mem_singleton]; grind
          by_cases hmode : mode = .nb
          · simp only [hmode, if_true]
            refine finish hI' ?_ (by simp [isBlocked]) (Or.inr ⟨a, rfl, by simp [isDoneOf]⟩)
            simp only [procOuts, List.filter, isDone, Bool.not_true, Bool.not_false, List.foldl_cons, List.foldl_nil]
            rw [pullOut_deliver (some a) j a p gm.m false _ hheldj (Or.inr rfl)]
            rw [pullOut_parm (some a) _ p (by exact hnarm) (by exact hnh)]
            simpa [hw0] using hfinal
          · simp only [hmode, if_false]
            refine finish hI' ?_ (by simp [isBlocked]) (Or.inl rfl)
            simp only [procOuts, List.filter, isDone, Bool.not_true, Bool.not_false, List.foldl_cons, List.foldl_nil]
            rw [pullOut_deliver none { j with waiting := j.waiting ++ [a] } a p gm.m false _ hheldj
              (Or.inl (by simp))]
            rw [pullOut_parm none _ p (by exact hnarm) (by exact hnh)]
            simpa [hw0] using hfinal
        · show R s (pullStepOld j _ [Out.other "model-invariant-broken"])
          rw [pullStep_refused (by simp [notExecuted])]; exact hR
      · show R s (pullStepOld j _ [Out.other "model-invariant-broken"])
        rw [pullStep_refused (by simp [notExecuted])]; exact hR


theorem procOuts_split {nb : Option Nat} {a b : List Out} {j : PullJ}
    (ha : ∀ o ∈ a, isDone o = true) (hb : ∀ o ∈ b, isDone o = false) :
    procOuts nb (a ++ b) j = b.foldl (pullOut nb) (a.foldl (pullOut nb) j) := by
  unfold procOuts
  have e1 : a.filter isDone = a := by rw [List.filter_eq_self]; intro o ho; exact ha o ho
  have e2 : b.filter isDone = [] := by rw [List.filter_eq_nil_iff]; intro o ho; simp [hb o ho]
  have e3 : a.filter (fun o => !isDone o) = [] := by
    rw [List.filter_eq_nil_iff]; intro o ho; simp [ha o ho]
  have e4 : b.filter (fun o => !isDone o) = b := by
    rw [List.filter_eq_self]; intro o ho; simp [hb o ho]
  rw [List.filter_append, List.filter_append, e1, e2, e3, e4]; simp

theorem closeDones_R (nb : Option Nat) (l : List Parked) : ∀ {s : State} {j : PullJ}, R { s with rq := l } j →
    R { s with rq := [] }
      ((l.map fun pk => Out.done pk.aio Err.eclosed none false).foldl (pullOut nb) j) := by
  induction l with
  | nil => intro s j h; exact h
  | cons x l ih =>
    intro s j h
    simp only [List.map_cons, List.foldl_cons]
    apply ih
    obtain ⟨a, b, c, d, f⟩ := h
    simp only [List.map_cons] at b f
    rw [pullOut_fail nb j x.aio Err.eclosed false (by simp [Err.eclosed]) (Or.inl (by simp [b]))]
    constructor <;> (try simp only []) <;> first | assumption | skip
    · rw [b, List.filter_cons]
      simp only [bne_self_eq_false, Bool.false_eq_true, if_false]
      exact filter_ne_self (List.nodup_cons.1 f).1
    · exact (List.nodup_cons.1 f).2

theorem evClose_R {s : State} {j : PullJ} (hI : Inv s) (hR : R s j) :
    R (evClose s).1 (pullStepOld j .close (evClose s).2) := by
  have hI' := evClose_inv hI
  have hd : ∀ o ∈ (s.rq.map fun pk => Out.done pk.aio Err.eclosed none false), isDone o = true ∧ tame o = true := by
    intro o ho; obtain ⟨x, _, rfl⟩ := List.mem_map.1 ho; exact ⟨rfl, rfl⟩
  have hc := closeAll_outs_notDone (s.pipes.map (·.id)) { s with rq := [] }
  have ht := closeAll_tame (s.pipes.map (·.id)) { s with rq := [] }
  have hR0 : R { s with rq := s.rq } { j with closed := true } := by
    obtain ⟨a, b, c, d, f⟩ := hR; constructor <;> assumption
  have hR1 := closeDones_R none s.rq hR0
  have hR2 := closeAll_R none (s.pipes.map (·.id)) hR1
  unfold evClose at hI' ⊢
  simp only [] at hI' ⊢
  have htame := tame_all (tame_append (fun o ho => (hd o ho).2) ht)
  rw [pullStep_eq hR.err htame.1 rfl]
  simp only [pullPre]
  refine finish hI' ?_ htame.2 (Or.inl rfl)
  rw [procOuts_split (fun o ho => (hd o ho).1) hc]
  exact R_frame (s := (closeAll { s with rq := [] } (s.pipes.map (·.id))).1) rfl rfl rfl hR2


def isAbort0 : Ev → Bool | .abort _ 0 => true | _ => false

theorem failEach_one (s : State) (a rv : Nat) : failEach s rv [a] = failParked s a rv := by
  simp [failEach]

theorem stepLive_R {s : State} {j : PullJ} (hI : Inv s) (hR : R s j) (ev : Ev) (ha : isAbort0 ev = false) :
    R (stepLive s ev).1 (pullStepOld j ev (stepLive s ev).2) := by
  have plain : ∀ (ev : Ev) (o : Out), isSend ev = false → (∀ outs, pullPre j ev outs = (j, none)) →
      tame o = true → isDone o = false → (∀ nb j, pullOut nb j o = j) → R s (pullStepOld j ev [o]) := by
    intro ev o h1 h2 h3 h4 h5
    have ht := tame_all (outs := [o]) (by simpa using h3)
    rw [step_plain hI hR ht.1 h1 (h2 _) (by simp [procOuts, List.filter, h4, h5]) ht.2]; exact hR
  cases ev <;> simp only [stepLive]
  case openSock p r => rw [pullStep_refused (by simp [notExecuted])]; exact hR
  case pipeAdd peer => exact evPipeAdd_R hI hR peer
  case pipeDrop p => exact evPipeDrop_R hI hR p
  case sendDone p rv => exact plain _ _ rfl (fun _ => rfl) rfl rfl (fun _ _ => rfl)
  case recvDone p r => exact evRecvDone_R hI hR p r
  case send c a m mode => simp [pullStepOld]; unfold evSend; split <;> exact hR
  case recv c a mode => exact evRecv_R hI hR c a mode
  case cancel a =>
    rw [← failEach_one]
    exact failBatch_R hR _ (by simp [Err.ecanceled]) [a] (by rw [failEach_one]; exact failParked_inv hI a _) rfl rfl
  case abort a rv =>
    have hrv : rv ≠ 0 := by intro h; subst h; simp [isAbort0] at ha
    rw [← failEach_one]
    exact failBatch_R hR _ hrv [a] (by rw [failEach_one]; exact failParked_inv hI a _) rfl rfl
  case advance ms =>
    have hR0 : R { s with now := s.now + ms } j := R_frame (s := s) rfl rfl rfl hR
    exact failBatch_R hR0 _ (by simp [Err.etimedout]) _ (expire_inv (now_inv hI _)) rfl rfl
  case ctxOpen c => exact plain _ _ rfl (fun _ => rfl) rfl rfl (fun _ _ => rfl)
  case ctxClose c => exact plain _ _ rfl (fun _ => rfl) rfl rfl (fun _ _ => rfl)
  case setopt c n t v => rw [pullStep_refused (by simp [notExecuted])]; exact hR
  case getopt c n t => rw [pullStep_refused (by simp [notExecuted])]; exact hR
  case poll => exact plain _ _ rfl (fun _ => rfl) rfl rfl (fun _ _ => rfl)
  case sub c t => rw [pullStep_refused (by simp [notExecuted])]; exact hR
  case unsub c t => rw [pullStep_refused (by simp [notExecuted])]; exact hR
  case close => exact evClose_R hI hR

theorem stepIdle_R {s : State} {j : PullJ} (hI : Inv s) (hR : R s j) (ev : Ev) :
    R (stepIdle s ev).1 (pullStepOld j ev (stepIdle s ev).2) := by
  cases ev <;> simp only [stepIdle] <;>
    first
    | (rw [pullStep_refused (by simp [notExecuted])]; exact hR)
    | skip
  case advance ms =>
    rw [step_plain hI hR (by simp [notExecuted]) rfl rfl (by simp [procOuts]) (by simp)]
    exact R_frame (s := s) rfl rfl rfl hR

theorem step_R_old {s : State} {j : PullJ} (hI : Inv s) (hR : R s j) (ev : Ev) (ha : isAbort0 ev = false) :
    R (step s ev).1 (pullStepOld j ev (step s ev).2) := by
  unfold step
  split
  · split
    · rw [step_plain hI hR (by simp [notExecuted]) rfl rfl (by simp [procOuts, List.filter, isDone, pullOut_rv])
        (by simp [isBlocked])]
      exact R_frame (s := s) rfl rfl rfl hR
    · exact stepIdle_R hI hR _
  · split
    · exact stepIdle_R hI hR _
    · exact stepLive_R hI hR _ ha


/-! ### receive liveness -/

/-- pipe `p` is connected and not closed -/
def openP (ps : List Pipe) (p : Nat) : Prop := ∃ pp, getP ps p = some pp ∧ pp.closed = false

/-- the step from `s` to `s'` with outputs `outs` reports every connection and every close -/
def Track (s s' : State) (outs : List Out) : Prop :=
  ∀ p, openP s'.pipes p ↔ ((openP s.pipes p ∨ p ∈ newPipes outs) ∧ Out.pclosed p ∉ outs)

/-- outputs that say nothing about connections -/
def quietOut : Out → Bool
  | .pipe _ => false
  | .pclosed _ => false
  | _ => true

theorem quiet_newPipes {outs : List Out} (h : ∀ o ∈ outs, quietOut o = true) : newPipes outs = [] := by
  unfold newPipes
  rw [List.filterMap_eq_nil_iff]
  intro o ho; have := h o ho; cases o <;> simp_all [quietOut]

theorem quiet_noClosed {outs : List Out} (h : ∀ o ∈ outs, quietOut o = true) (p : Nat) :
    Out.pclosed p ∉ outs := by
  intro hm; have := h _ hm; simp [quietOut] at this

theorem newPipes_append (a b : List Out) : newPipes (a ++ b) = newPipes a ++ newPipes b := by
  simp [newPipes, List.filterMap_append]

theorem track_quiet {s s' : State} {outs : List Out} (hp : s'.pipes = s.pipes)
    (h : ∀ o ∈ outs, quietOut o = true) : Track s s' outs := by
  intro p; rw [hp, quiet_newPipes h]
  simp [quiet_noClosed h p]

theorem track_pre {s s' : State} {pre outs : List Out} (h : ∀ o ∈ pre, quietOut o = true)
    (ht : Track s s' outs) : Track s s' (pre ++ outs) := by
  intro p; rw [ht p, newPipes_append, quiet_newPipes h]
  have := quiet_noClosed h p
  simp [this]

/-- two steps in a row, the second of which connects nobody -/
theorem track_seq {s s1 s2 : State} {o1 o2 : List Out} (h1 : Track s s1 o1) (h2 : Track s1 s2 o2)
    (hn : newPipes o2 = []) : Track s s2 (o1 ++ o2) := by
  intro p; rw [h2 p, h1 p, newPipes_append, hn]
  simp only [List.append_nil, List.mem_append, List.not_mem_nil, or_false, not_or]
  constructor
  · rintro ⟨⟨a, b⟩, c⟩; exact ⟨a, b, c⟩
  · rintro ⟨a, b, c⟩; exact ⟨⟨a, b⟩, c⟩

theorem openP_setP {ps : List Pipe} {pp' : Pipe} (p : Nat) :
    openP (setP ps pp') p ↔ if p = pp'.id then ((getP ps p).isSome ∧ pp'.closed = false) else openP ps p := by
  unfold openP; rw [getP_setP]
  by_cases h : p = pp'.id
  · simp only [h, if_true]
    cases hg : getP ps pp'.id <;> simp
  · simp [h]

theorem closePipe_track (s : State) (p : Nat) : Track s (closePipe s p).1 (closePipe s p).2 := by
  unfold closePipe getPipe
  split
  · exact track_quiet rfl (by simp)
  · rename_i pp hget
    split
    · exact track_quiet rfl (by simp)
    · rename_i hopen
      have hid := (getP_some hget).2
      intro q
      simp only [newPipes, List.filterMap_cons, List.filterMap_nil, List.not_mem_nil, or_false,
        List.mem_cons, Out.pclosed.injEq]
      rw [openP_setP]
      simp only [hid]
      by_cases hq : q = p
      · subst hq; simp
      · simp [hq]

theorem closePipe_newPipes (s : State) (p : Nat) : newPipes (closePipe s p).2 = [] := by
  unfold closePipe; split
  · rfl
  · split <;> rfl

theorem closeAll_newPipes (l : List Nat) : ∀ s : State, newPipes (closeAll s l).2 = [] := by
  induction l with
  | nil => intro s; rfl
  | cons a l ih => intro s; simp only [closeAll, newPipes_append, closePipe_newPipes, ih, List.append_nil]

theorem closeAll_track (l : List Nat) : ∀ s : State, Track s (closeAll s l).1 (closeAll s l).2 := by
  induction l with
  | nil => intro s; exact track_quiet rfl (by simp [closeAll])
  | cons a l ih =>
    intro s; simp only [closeAll]
    exact track_seq (closePipe_track s a) (ih _) (closeAll_newPipes l _)

theorem failParked_pipes (s : State) (a rv : Nat) : (failParked s a rv).1.pipes = s.pipes := by
  unfold failParked; split <;> rfl

theorem failParked_quiet (s : State) (a rv : Nat) : ∀ o ∈ (failParked s a rv).2, quietOut o = true := by
  unfold failParked; split <;> simp [quietOut]

theorem failEach_pipes (rv : Nat) (l : List Nat) : ∀ s : State, (failEach s rv l).1.pipes = s.pipes := by
  induction l with
  | nil => intro s; rfl
  | cons a l ih => intro s; simp only [failEach]; rw [ih, failParked_pipes]

theorem failEach_quiet (rv : Nat) (l : List Nat) : ∀ s : State, ∀ o ∈ (failEach s rv l).2, quietOut o = true := by
  induction l with
  | nil => intro s o ho; simp [failEach] at ho
  | cons a l ih =>
    intro s o ho
    simp only [failEach, List.mem_append] at ho
    rcases ho with ho | ho
    · exact failParked_quiet s a rv o ho
    · exact ih _ o ho

theorem openP_lt {ps : List Pipe} (hids : ps.map (·.id) = List.range ps.length) {p : Nat}
    (h : openP ps p) : p < ps.length := by
  obtain ⟨pp, hg, _⟩ := h; exact getP_lt hids hg

theorem evPipeAdd_track {s : State} (hI : Inv s) (peer : Nat) :
    Track s (evPipeAdd s peer).1 (evPipeAdd s peer).2 := by
  have hnone : getP s.pipes s.pipes.length = none := by
    cases hg : getP s.pipes s.pipes.length with
    | none => rfl
    | some pp => exact absurd (getP_lt hI.ids hg) (Nat.lt_irrefl _)
  unfold evPipeAdd
  simp only []
  split
  · intro p
    simp only [newPipes, List.filterMap_cons, List.filterMap_nil, Int.natCast_nonneg, ge_iff_le, if_true,
      Int.toNat_natCast, List.mem_cons, List.not_mem_nil, or_false, Out.pclosed.injEq, reduceCtorEq, false_or]
    unfold openP; rw [getP_append]
    by_cases hp : p = s.pipes.length
    · subst hp; simp [hnone]
    · have : ¬ s.pipes.length = p := fun h => hp h.symm
      simp [hp, this]
  · intro p
    simp only [newPipes, List.filterMap_cons, List.filterMap_nil, Int.natCast_nonneg, ge_iff_le, if_true,
      Int.toNat_natCast, List.mem_cons, List.not_mem_nil, or_false, reduceCtorEq, not_false_eq_true, and_true]
    unfold openP; rw [getP_append]
    by_cases hp : p = s.pipes.length
    · subst hp; simp [hnone]
    · have : ¬ s.pipes.length = p := fun h => hp h.symm
      simp [hp, this]

/-- a pipe-table update that leaves every `closed` flag alone -/
theorem track_setP {s s' : State} {outs : List Out} {p : Nat} {pp pp' : Pipe} (hget : getP s.pipes p = some pp)
    (hp : s'.pipes = setP s.pipes pp') (hid : pp'.id = pp.id) (hc : pp'.closed = pp.closed)
    (h : ∀ o ∈ outs, quietOut o = true) : Track s s' outs := by
  have hpid := (getP_some hget).2
  intro q; rw [hp, quiet_newPipes h, openP_setP]
  have := quiet_noClosed h q
  simp only [List.not_mem_nil, or_false, this, not_false_eq_true, and_true]
  by_cases hq : q = pp'.id
  · simp only [hq, if_true]
    have hq' : pp'.id = p := by omega
    unfold openP; rw [hq', hget]; simp [hc]
  · simp [hq]

theorem stepLive_track {s : State} (hI : Inv s) (ev : Ev) : Track s (stepLive s ev).1 (stepLive s ev).2 := by
  cases ev <;> simp only [stepLive]
  case openSock p r => exact track_quiet rfl (by simp [quietOut])
  case pipeAdd peer => exact evPipeAdd_track hI peer
  case pipeDrop p =>
    unfold evPipeDrop; split
    · split
      · exact track_quiet rfl (by simp [quietOut])
      · exact track_pre (by simp [quietOut]) (closePipe_track s p)
    · exact track_quiet rfl (by simp [quietOut])
  case sendDone p rv => exact track_quiet rfl (by simp [quietOut])
  case recvDone p r =>
    unfold evRecvDone getPipe; split
    · rename_i pp hget
      split
      · exact track_quiet rfl (by simp [quietOut])
      · split
        · exact track_pre (by simp [quietOut]) (closePipe_track s p)
        · split
          · exact track_setP hget rfl rfl rfl (by simp [quietOut])
          · exact track_quiet rfl (by simp [quietOut])
    · exact track_quiet rfl (by simp [quietOut])
  case send c a m mode => unfold evSend; split <;> exact track_quiet rfl (by simp [quietOut])
  case recv c a mode =>
    unfold evRecv getPipe; split
    · exact track_quiet rfl (by simp [quietOut])
    · split
      · split <;> exact track_quiet rfl (by simp [quietOut])
      · split
        · rename_i pp hget
          split
          · exact track_setP hget rfl rfl rfl (by simp [quietOut])
          · exact track_quiet rfl (by simp [quietOut])
        · exact track_quiet rfl (by simp [quietOut])
  case cancel a => exact track_quiet (failParked_pipes s a _) (failParked_quiet s a _)
  case abort a rv => exact track_quiet (failParked_pipes s a _) (failParked_quiet s a _)
  case advance ms => exact track_quiet (failEach_pipes _ _ _) (failEach_quiet _ _ _)
  case ctxOpen c => exact track_quiet rfl (by simp [quietOut])
  case ctxClose c => exact track_quiet rfl (by simp [quietOut])
  case setopt c n t v => exact track_quiet rfl (by simp [quietOut])
  case getopt c n t => exact track_quiet rfl (by simp [quietOut])
  case poll => exact track_quiet rfl (by simp [quietOut])
  case sub c t => exact track_quiet rfl (by simp [quietOut])
  case unsub c t => exact track_quiet rfl (by simp [quietOut])
  case close =>
    unfold evClose
    have h1 := closeAll_track (s.pipes.map (·.id)) { s with rq := [] }
    have h2 : Track s { (closeAll { s with rq := [] } (s.pipes.map (·.id))).1 with closed := true }
        (closeAll { s with rq := [] } (s.pipes.map (·.id))).2 := h1
    exact track_pre (by intro o ho; simp at ho; obtain ⟨pk, _, rfl⟩ := ho; rfl) h2

theorem step_track {s : State} (hI : Inv s) (ev : Ev) : Track s (step s ev).1 (step s ev).2 := by
  have idle : ∀ ev, Track s (stepIdle s ev).1 (stepIdle s ev).2 := by
    intro ev; cases ev <;> simp only [stepIdle] <;> exact track_quiet rfl (by simp [quietOut])
  unfold step
  split
  · split
    · exact track_quiet rfl (by simp [quietOut])
    · exact idle _
  · split
    · exact idle _
    · exact stepLive_track hI _

/-! the old judge step never touches the list of connected pipes -/

theorem fail_live (j : PullJ) (msg : String) : (j.fail msg).live = j.live := by
  unfold PullJ.fail; split <;> rfl

theorem pullOut_live (nb : Option Nat) (j : PullJ) (o : Out) : (pullOut nb j o).live = j.live := by
  cases o <;> simp only [pullOut] <;> (repeat' split) <;> simp [fail_live]

theorem foldl_live (nb : Option Nat) (l : List Out) : ∀ j : PullJ, (l.foldl (pullOut nb) j).live = j.live := by
  induction l with
  | nil => intro j; rfl
  | cons o l ih => intro j; rw [List.foldl_cons, ih, pullOut_live]

theorem pullPre_live (j : PullJ) (ev : Ev) (outs : List Out) : (pullPre j ev outs).1.live = j.live := by
  cases ev <;> simp only [pullPre] <;> (repeat' split) <;> simp [fail_live]

theorem ite_fail_live (c : Prop) [Decidable c] (j : PullJ) (msg : String) :
    (if c then j.fail msg else j).live = j.live := by
  split
  · exact fail_live j msg
  · rfl

theorem pullPost_live (nb : Option Nat) (outs : List Out) (j : PullJ) : (pullPost nb outs j).live = j.live := by
  unfold pullPost
  simp only [ite_fail_live]
  cases nb
  · rfl
  · simp only []; split
    · rfl
    · exact fail_live _ _

theorem pullStepOld_live (j : PullJ) (ev : Ev) (outs : List Out) : (pullStepOld j ev outs).live = j.live := by
  unfold pullStepOld
  split; rfl
  split; rfl
  split; rfl
  simp only []
  rw [pullPost_live, foldl_live, foldl_live, pullPre_live]

/-- the relation `R` does not read the list of connected pipes -/
theorem R_live {s : State} {j : PullJ} (l : List Nat) (hR : R s j) : R s { j with live := l } := by
  obtain ⟨a, b, c, d, f⟩ := hR
  exact ⟨a, b, c, d, f⟩

/-- simulation relation extended to the connected pipes -/
structure R2 (s : State) (j : PullJ) : Prop where
  r : R s j
  live : ∀ p, p ∈ j.live ↔ openP s.pipes p

theorem R2_init : R2 ({} : State) ({} : PullJ) := ⟨R_init, by intro p; simp [openP, getP]⟩

theorem hm_fst (ps : List Pipe) (p : Nat) : (hm ps p).1 = p := rfl

/-- in a state related to a model state every connected pipe is served -/
theorem pullLive_ok {s : State} {j : PullJ} (hI : Inv s) (h : R2 s j) : pullLive j = j := by
  unfold pullLive
  split
  · rfl
  · have : j.live.find? (fun p => !pullServed j p) = none := by
      rw [List.find?_eq_none]; intro p hp
      obtain ⟨pp, hg, hopen⟩ := (h.live p).1 hp
      have hw := (hI.wf p pp hg).1
      simp only [Bool.not_eq_eq_eq_not, Bool.not_true, Bool.not_eq_false]
      unfold pullServed
      cases hh : pp.held with
      | none =>
        have : p ∈ j.armed := (h.r.armed p).2 ⟨pp, hg, hw.2 ⟨hopen, hh⟩⟩
        simp [this]
      | some gm =>
        have hpl : p ∈ s.pl := (hI.plSpec p).2 ⟨pp, hg, hopen, by simp [hh]⟩
        have : (j.held.any (·.1 == p)) = true := by
          rw [h.r.held, List.any_eq_true]
          exact ⟨hm s.pipes p, List.mem_map.2 ⟨p, hpl, rfl⟩, by simp [hm_fst]⟩
        simp [this]
    rw [this]

theorem pullStep_run {j : PullJ} {ev : Ev} {outs : List Out} (herr : j.err = none)
    (hne : notExecuted outs = false) (hns : isSend ev = false) :
    pullStep j ev outs = pullLive (trackLive outs (pullStepOld j ev outs)) := by
  unfold pullStep pullStepOld
  simp only [herr, hne]
  cases ev <;> first | (simp [isSend] at hns; done) | rfl

theorem pullStep_skip {j : PullJ} {ev : Ev} {outs : List Out}
    (h : notExecuted outs = true ∨ isSend ev = true) :
    pullStep j ev outs = j ∧ pullStepOld j ev outs = j := by
  unfold pullStep pullStepOld
  split
  · exact ⟨rfl, rfl⟩
  · split
    · exact ⟨rfl, rfl⟩
    · rename_i hne
      rcases h with h | h
      · exact absurd h hne
      · cases ev <;> first | (simp [isSend] at h; done) | exact ⟨rfl, rfl⟩

/-- a step that the judge skips (refused line, or a send on the PULL socket) leaves the pipes alone -/
theorem stepLive_skip {s : State} (ev : Ev)
    (h : notExecuted (stepLive s ev).2 = true ∨ isSend ev = true) : (stepLive s ev).1.pipes = s.pipes := by
  have no : ∀ {outs : List Out}, (∀ o ∈ outs, tame o = true) → isSend ev = false →
      (notExecuted outs = true ∨ isSend ev = true) → False := by
    intro outs ht hs h
    rcases h with h | h
    · rw [(tame_all ht).1] at h; exact Bool.noConfusion h
    · rw [hs] at h; exact Bool.noConfusion h
  cases ev <;> simp only [stepLive] at h ⊢
  case pipeAdd peer =>
    exfalso; unfold evPipeAdd at h; simp only [] at h
    split at h <;> exact no (by simp [tame]) rfl h
  case pipeDrop p =>
    unfold evPipeDrop at h ⊢
    split
    · split
      · rfl
      · rename_i pp hget hopen
        simp only [hget, hopen] at h
        exact (no (tame_append (by simp [tame]) (closePipe_tame s p)) rfl h).elim
    · rfl
  case recvDone p r =>
    unfold evRecvDone at h ⊢
    split
    · rename_i pp hget
      simp only [hget] at h
      split
      · rfl
      · rename_i hc
        simp only [hc] at h
        split
        · exact (no (tame_append (by simp [tame]) (closePipe_tame s p)) rfl h).elim
        · split
          · rename_i hrq; simp only [hrq] at h; exact (no (by simp [tame]) rfl h).elim
          · rename_i hrq; simp only [hrq] at h; exact (no (by simp [tame]) rfl h).elim
    · rfl
  case send c a m mode => unfold evSend; split <;> rfl
  case recv c a mode =>
    unfold evRecv at h ⊢
    split
    · rfl
    · rename_i hb
      simp only [hb] at h
      split
      · split <;> rfl
      · rename_i p rest hpl
        simp only [hpl] at h
        split
        · rename_i pp hget
          simp only [hget] at h
          split
          · rename_i gm hh; simp only [hh] at h; exact (no (by simp [tame]) rfl h).elim
          · rfl
        · rfl
  case cancel a => exact failParked_pipes s a _
  case abort a rv => exact failParked_pipes s a _
  case advance ms => exact failEach_pipes _ _ _
  case close =>
    exfalso; unfold evClose at h
    refine no (tame_append ?_ (closeAll_tame _ _)) rfl h
    intro o ho; simp at ho; obtain ⟨pk, _, rfl⟩ := ho; rfl

theorem step_skip {s : State} (ev : Ev)
    (h : notExecuted (step s ev).2 = true ∨ isSend ev = true) : (step s ev).1.pipes = s.pipes := by
  have idle : ∀ ev, (stepIdle s ev).1.pipes = s.pipes := by
    intro ev; cases ev <;> rfl
  unfold step at h ⊢
  split
  · split
    · rfl
    · exact idle _
  · rename_i hop
    simp only [hop] at h
    split
    · exact idle _
    · rename_i hcl
      simp only [hcl] at h
      exact stepLive_skip _ h

theorem step_R {s : State} {j : PullJ} (hI : Inv s) (hR : R2 s j) (ev : Ev) (ha : isAbort0 ev = false) :
    R2 (step s ev).1 (pullStep j ev (step s ev).2) := by
  have hold := step_R_old hI hR.r ev ha
  by_cases h : notExecuted (step s ev).2 = true ∨ isSend ev = true
  · obtain ⟨e1, e2⟩ := pullStep_skip (j := j) h
    rw [e1]; rw [e2] at hold
    exact ⟨hold, by intro p; rw [step_skip ev h]; exact hR.live p⟩
  · have hne : notExecuted (step s ev).2 = false := by
      cases hx : notExecuted (step s ev).2 with
      | false => rfl
      | true => exact absurd (Or.inl hx) h
    have hns : isSend ev = false := by
      cases hx : isSend ev with
      | false => rfl
      | true => exact absurd (Or.inr hx) h
    rw [pullStep_run hR.r.err hne hns]
    have hI' := step_inv hI ev
    have hlive := pullStepOld_live j ev (step s ev).2
    have h2 : R2 (step s ev).1 (trackLive (step s ev).2 (pullStepOld j ev (step s ev).2)) := by
      refine ⟨R_live _ hold, ?_⟩
      intro p
      rw [step_track hI ev p]
      simp only [trackLive, List.mem_filter, List.mem_append, hlive, hR.live p]
      simp
    rw [pullLive_ok hI' h2]; exact h2

/-- hypothesis on event lists: `nng_aio_abort(aio, 0)` is API misuse (it completes the
    receive "successfully" without a message) -/
def NoAbort0 (evs : List Ev) : Prop := ∀ ev ∈ evs, isAbort0 ev = false

theorem judge_from (evs : List Ev) : ∀ {s : State} {j : PullJ}, Inv s → R2 s j → NoAbort0 evs →
    ((traceOf s evs).foldl (fun j x => pullStep j x.1 x.2) j).err = none := by
  induction evs with
  | nil => intro s j _ hR _; exact hR.r.err
  | cons e es ih =>
    intro s j hI hR hn
    simp only [traceOf, List.foldl_cons]
    exact ih (step_inv hI e) (step_R hI hR e (hn e (by simp))) (fun ev hev => hn ev (by simp [hev]))

/-- JUDGE (PULL): on every event sequence the model's trace satisfies the C06 trace predicate -/
theorem pull_judge_ok (evs : List Ev) (hn : NoAbort0 evs) : pullJudge (traceOf {} evs) = none :=
  judge_from evs inv_init R2_init hn

end Nng.Pull
