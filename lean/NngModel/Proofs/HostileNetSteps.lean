/-
  C11T — single steps of the general SP/UDP endpoint model spelled out: oversize DATA, garbage, a closed pipe,
  the drop-oldest law, the peer limit; the lift of a `udpStep` endpoint into the general model.
-/
import NngModel.Proofs.HostileNetIso
import NngModel.Proofs.HostileNetArmed
namespace Nng.Hostile
open Nng

/-! ### the header decision, by cases on the bytes -/

def hdrOk (d : Bytes) : Prop := d.length ≥ 8 ∧ (d.getD 0 0).toNat = 1
def opOf (d : Bytes) : Nat := (d.getD 1 0).toNat

instance (d : Bytes) : Decidable (hdrOk d) := by unfold hdrOk; infer_instance

/-- udp_rx_cb with the extracted constants written out -/
theorem udpRxCb_eq (d : Bytes) (known : Bool) (rcvmax : Nat) :
    udpRxCb d known rcvmax =
      if d.length ≥ 8 ∧ (d.getD 0 0).toNat = 1 then
        if opOf d = 0 then udpRecvData known rcvmax (le16 d 4) (d.drop 8)
        else if opOf d = 1 then .creq (le16 d 2) (le16 d 4) (le16 d 6)
        else if opOf d = 2 then .cack (le16 d 2) (le16 d 4) (le16 d 6)
        else if opOf d = 3 then .disc (le16 d 4)
        else .discProto
      else .ignore := by
  rfl

theorem udpRxCb_bad_header (d : Bytes) (known : Bool) (rcvmax : Nat) (h : ¬ hdrOk d) : udpRxCb d known rcvmax = .ignore := by
  rw [udpRxCb_eq]; unfold hdrOk at h; rw [if_neg h]

theorem udpRxCb_unknown_op (d : Bytes) (known : Bool) (rcvmax : Nat) (h : hdrOk d) (ho : opOf d > 3) :
    udpRxCb d known rcvmax = .discProto := by
  rw [udpRxCb_eq]; unfold hdrOk at h
  rw [if_pos h, if_neg (by omega), if_neg (by omega), if_neg (by omega), if_neg (by omega)]

theorem udpRxCb_data (d : Bytes) (known : Bool) (rcvmax : Nat) (h : hdrOk d) (ho : opOf d = 0) :
    udpRxCb d known rcvmax = udpRecvData known rcvmax (le16 d 4) (d.drop 8) := by
  rw [udpRxCb_eq]; unfold hdrOk at h
  rw [if_pos h, if_pos ho]

theorem udpRxCb_creq (d : Bytes) (known : Bool) (rcvmax : Nat) (h : hdrOk d) (ho : opOf d = 1) :
    udpRxCb d known rcvmax = .creq (le16 d 2) (le16 d 4) (le16 d 6) := by
  rw [udpRxCb_eq]; unfold hdrOk at h
  rw [if_pos h, if_neg (by omega), if_pos ho]

theorem udpRxCb_cack (d : Bytes) (known : Bool) (rcvmax : Nat) (h : hdrOk d) (ho : opOf d = 2) :
    udpRxCb d known rcvmax = .cack (le16 d 2) (le16 d 4) (le16 d 6) := by
  rw [udpRxCb_eq]; unfold hdrOk at h
  rw [if_pos h, if_neg (by omega), if_neg (by omega), if_pos ho]

theorem udpRxCb_disc (d : Bytes) (known : Bool) (rcvmax : Nat) (h : hdrOk d) (ho : opOf d = 3) :
    udpRxCb d known rcvmax = .disc (le16 d 4) := by
  rw [udpRxCb_eq]; unfold hdrOk at h
  rw [if_pos h, if_neg (by omega), if_neg (by omega), if_neg (by omega), if_pos ho]

/-! ### steps -/

theorem qStep_dgram (ep : QEp) (s : Nat) (d : Bytes) :
    qStep ep s (.dgram d) =
      (let r := qOnAct ep.cfg ep.limit (udpRxCb d (qLookup ep.pipes s).isSome ep.cfg.rcvmax) (qLookup ep.pipes s)
       ({ ep with pipes := qSet ep.pipes s r.1 }, r.2)) := rfl

/-- a step that returns the pipe it found: nothing changes -/
theorem qStep_dgram_same (ep : QEp) (s : Nat) (d : Bytes) (o : QOut)
    (h : qOnAct ep.cfg ep.limit (udpRxCb d (qLookup ep.pipes s).isSome ep.cfg.rcvmax) (qLookup ep.pipes s) =
      (qLookup ep.pipes s, o)) : qStep ep s (.dgram d) = (ep, o) := by
  rw [qStep_dgram, h]
  simp only [qSet_lookup_same]

/-- DATA that lies about its length or exceeds the limit, to an open pipe -/
theorem oversize_step (ep : QEp) (s : Nat) (d : Bytes) (x : QPipe) (hx : qLookup ep.pipes s = some x) (hc : x.closed = false)
    (h : hdrOk d) (ho : opOf d = 0) (hl : le16 d 4 > d.length - 8 ∨ le16 d 4 > ep.cfg.rcvmax) :
    (qStep ep s (.dgram d)).2 =
      { act := .discMsgsize, replies := [.disc discMsgsize], failed := x.aios, pclose := true, stats := [.rcvToobig] } ∧
    qLookup (qStep ep s (.dgram d)).1.pipes s = some { x with closed := true, aios := 0 } := by
  have hact : udpRxCb d true ep.cfg.rcvmax = .discMsgsize := by
    rw [udpRxCb_data d _ _ h ho]
    unfold udpRecvData
    have : (d.drop 8).length = d.length - 8 := by simp
    simp only [Bool.not_true, Bool.false_eq_true, if_false, this]
    rw [if_pos hl]
  rw [qStep_lookup_self, qStep_out]
  simp only [p1Step, qDgram, hx, Option.isSome_some]
  rw [hact]
  simp [qOnAct, qSendDisc, hc]

/-- a closed pipe hands nothing over, answers only refreshes, and stays closed until it is forgotten -/
theorem closed_pipe_step (c : QCfg) (lim : Bool) (x : QPipe) (e : QEv) (hc : x.closed = true) (ha : x.aios = 0) :
    (p1Step c lim (some x) e).2.handed = [] ∧
    (∀ y, (p1Step c lim (some x) e).1 = some y → y.closed = true ∧ y.aios = 0) := by
  cases e with
  | dgram d =>
    simp only [p1Step, qDgram]
    generalize udpRxCb d (some x).isSome c.rcvmax = act
    cases act <;> simp only [qOnAct]
    · exact ⟨by first | rfl | trivial, fun y hy => by cases hy; exact ⟨hc, ha⟩⟩
    · exact ⟨by first | rfl | trivial, fun y hy => by cases hy; exact ⟨hc, ha⟩⟩
    · rename_i pl
      simp only [qRecvData, ha]
      refine ⟨by simp, fun y hy => ?_⟩
      cases hy
      exact ⟨hc, by simp⟩
    · simp only [qSendDisc, hc, if_true]
      exact ⟨by first | rfl | trivial, fun y hy => by cases hy; exact ⟨hc, ha⟩⟩
    · rename_i t rm rf
      unfold qCreqKnown
      simp only [qSendDisc, hc, if_true]
      split
      · exact ⟨by first | rfl | trivial, fun y hy => by cases hy; exact ⟨hc, ha⟩⟩
      · split
        · exact ⟨by first | rfl | trivial, fun y hy => by cases hy; exact ⟨hc, ha⟩⟩
        · exact ⟨by first | rfl | trivial, fun y hy => by cases hy; exact ⟨hc, ha⟩⟩
    · rename_i t rm rf
      unfold qCackKnown
      simp only [hc, if_true]
      exact ⟨by first | rfl | trivial, fun y hy => by cases hy; exact ⟨hc, ha⟩⟩
    · exact ⟨by first | rfl | trivial, fun y hy => by cases hy; exact ⟨rfl, rfl⟩⟩
    · exact ⟨by first | rfl | trivial, fun y hy => by cases hy; exact ⟨hc, ha⟩⟩
  | recv =>
    simp only [p1Step, qRecv, hc, if_true]
    exact ⟨by first | rfl | trivial, fun y hy => by cases hy; exact ⟨hc, ha⟩⟩
  | close => exact ⟨by first | rfl | trivial, fun y hy => by simp [p1Step, qClose] at hy⟩
  | timeout =>
    simp only [p1Step, qTimeout, qSendDisc, hc, if_true]
    exact ⟨by first | rfl | trivial, fun y hy => by cases hy; exact ⟨hc, ha⟩⟩

/-- the drop-oldest law of one accepted DATA -/
theorem data_step_fifo (c : QCfg) (x : QPipe) (pl : Bytes) :
    ((qRecvData c x pl).2.handed ++ (qRecvData c x pl).1.rxq =
        (if x.rxq.length < c.qcap then x.rxq else x.rxq.drop 1) ++ [pl]) ∧
    (QStat.rcvNobuf ∈ (qRecvData c x pl).2.stats ↔ x.rxq.length ≥ c.qcap) := by
  constructor
  · rw [qRecvData_split]
    unfold qAfterPut
    by_cases h : x.rxq.length < c.qcap
    · have : ¬ x.rxq.length ≥ c.qcap := by omega
      simp [h, this]
    · have : x.rxq.length ≥ c.qcap := by omega
      simp [h, this]
  · simp only [qRecvData]
    by_cases h : x.rxq.length ≥ c.qcap
    · simp [h]
    · simp [h]
      split <;> simp

/-! ### lifting a `udpStep` endpoint -/

/-- the settled general-model endpoint behind a `udpStep` endpoint -/
def liftEp (u : UEp) : QEp :=
  { cfg := { rcvmax := u.rcvmax, maxPeers := u.maxPeers }, others := u.others,
    pipes := u.assocs.map fun e => (e.1, ({ peer := e.2.peer, aios := 1 } : QPipe)) }

theorem liftEp_abs (u : UEp) : (liftEp u).abs = u := by
  unfold liftEp QEp.abs
  simp only [List.map_map]
  have : ((fun e : Nat × QPipe => (e.1, (⟨e.2.peer⟩ : UAssoc))) ∘ fun e : Nat × UAssoc => (e.1, ({ peer := e.2.peer, aios := 1 } : QPipe))) = id := by
    funext e; rfl
  rw [this, List.map_id]

theorem liftEp_settled (u : UEp) : EpSettled (liftEp u) := by
  intro s x hx
  have := mem_of_qLookup _ _ _ hx
  unfold liftEp at this
  simp only [List.mem_map] at this
  obtain ⟨e, _, he⟩ := this
  cases he
  rfl

theorem settled_ok (ep : QEp) (h : EpSettled ep) (hq : 1 ≤ ep.cfg.qcap) : EpOk ep := by
  refine ⟨fun s x hx => ?_, hq⟩
  obtain ⟨h1, h2, h3⟩ := (settled_iff x).1 (h s x hx)
  exact ⟨by rw [h2]; simp, by rw [h2]; simp, fun hc => by rw [h1] at hc; cases hc⟩

end Nng.Hostile
