/-
  "The lifecycle judge accepts every trace of the lifecycle model" (C14 / C10), part 8:
  the ops without judge bookkeeping after the events: advance, setopt_sock, probe, pipe_close,
  pipe_drop, dial, listen.
-/
import NngModel.Proofs.LifeJudgeStep
namespace Nng.LifeModel
open Nng.Life Nng.Generated
open Nng.LifeSpec (J JPipe JEp JSock upd put KU onOut opConnEp preOp postOp quiescent flat isRace)

theorem fire_ctxs (orc : List Nat) (st : State) : (fireTimers orc st).1.ctxs = st.ctxs := rfl
theorem fire_pend (orc : List Nat) (st : State) : (fireTimers orc st).1.pend = st.pend := rfl

theorem CtxsRel_of {st st' : State} {j j' : J} (h : CtxsRel st j) (h1 : st'.ctxs = st.ctxs) (h2 : j'.ctxs = j.ctxs) :
    CtxsRel st' j' := by unfold CtxsRel; rw [h1, h2]; exact h
theorem PendRel_of {st st' : State} {j j' : J} (h : PendRel st j) (h1 : st'.pend = st.pend) (h2 : j'.pend = j.pend) :
    PendRel st' j' := by unfold PendRel; rw [h1, h2]; exact h

/-- a step whose op has no bookkeeping after the events -/
theorem finish_simple (st : State) (j : J) (op : LOp) (orc : List Nat) (hr : Rel st j) (hu : st.unmodelled = false)
    (hrace : isRace op = false) (hpost : ∀ outs j', postOp outs j' op = j') (hnp : NP (apply st op).2)
    (S : SelE) (ja : J)
    (hja : (apply st op).2.foldl (onOut op)
      (preOp false ((apply st op).2 ++ (fireTimers orc (apply st op).1).2) (advJ j op) op) = ja)
    (hm : Mid S (apply st op).1 ja) (hS : ∀ e ∈ (apply st op).1.eps, S e.idx e.sock e.dialer = true → e.closed = true)
    (hc : CtxsRel (apply st op).1 ja) (hp : PendRel (apply st op).1 ja) :
    Rel (step st op orc).1 (Nng.LifeSpec.step j op (step st op orc).2) := by
  obtain ⟨h1, s1⟩ := fire_fin S op orc (apply st op).1 ja hm hS
  apply assemble st j op orc hr (((fireTimers orc (apply st op).1).2).foldl (onOut op) ja)
  · rw [step_def st op orc hu]
    simp only
    rw [jstep_np j op _ _ hrace hnp (fire_NP _ _), hpost, hja]
  · rw [step_def st op orc hu]; exact h1
  · rw [step_def st op orc hu]; exact CtxsRel_of hc rfl s1.2.2.1
  · rw [step_def st op orc hu]; exact PendRel_of hp rfl s1.2.2.2.1

theorem noSel_triv (st : State) : ∀ e ∈ st.eps, noSel e.idx e.sock e.dialer = true → e.closed = true := by
  intro e _ h; cases h

theorem Mid_of_same {S : SelE} {st st' : State} {j j' : J} (h : Mid S st j) (hw : W st')
    (hp : st'.pipes = st.pipes) (he : st'.eps = st.eps)
    (hs : ∀ s, (st'.socks s).opened = (st.socks s).opened ∧ (st'.socks s).closed = (st.socks s).closed ∧
      (st'.socks s).mask = (st.socks s).mask ∧ (st'.socks s).cip = (st.socks s).cip)
    (hn : j'.now = st'.now) (h14 : j'.err14 = none) (h10 : j'.err10 = none) (hjs : j'.socks = j.socks)
    (hje : j'.eps = j.eps) (hjp : j'.pipes = j.pipes) : Mid S st' j' := by
  refine ⟨hw, ?_, ?_, hn, h14, h10, ?_, h.eps.congr he hje, ?_⟩
  · intro p hp'; rw [hp] at hp'; exact h.pinv p hp'
  · intro p hp' hl
    rw [hp] at hp'
    have := h.lso p hp' hl
    unfold sockOpen; rw [(hs p.sock).1, (hs p.sock).2.1]; exact this
  · intro s; rw [hjs]
    exact SR_congr (h.socks s) (hs s).1 (hs s).2.1 (hs s).2.2.1 (hs s).2.2.2
  · unfold PipesRel; rw [hjp, hp]; exact h.pipes

theorem sim_advance (st : State) (j : J) (ms : Nat) (orc : List Nat) (hr : Rel st j) (hu : st.unmodelled = false) :
    Rel (step st (.advance ms) orc).1 (Nng.LifeSpec.step j (.advance ms) (step st (.advance ms) orc).2) := by
  refine finish_simple st j (.advance ms) orc hr hu rfl (fun _ _ => rfl) NP_nil noSel { j with now := j.now + ms } rfl ?_
    (noSel_triv _) (CtxsRel_of hr.ctxs rfl rfl) (PendRel_of hr.pend rfl rfl)
  exact Mid_of_same hr.mid (advance_G st ms hr.inv.g).s.w rfl rfl (fun _ => ⟨rfl, rfl, rfl, rfl⟩)
    (by show j.now + ms = st.now + ms; rw [hr.mid.now]) hr.mid.e14 hr.mid.e10 rfl rfl rfl


/-- an op that changes nothing the judge looks at and reports one result the judge ignores -/
theorem sim_trivial (st : State) (j : J) (op : LOp) (orc : List Nat) (hr : Rel st j) (hu : st.unmodelled = false)
    (hrace : isRace op = false) (hpost : ∀ outs j', postOp outs j' op = j') (hpre : ∀ outs j', preOp false outs j' op = j')
    (hadv : advJ j op = j) (x : Int) (hout : (apply st op).2 = [.rv x]) (hrv : ∀ j', onOut op j' (.rv x) = j')
    (hp : (apply st op).1.pipes = st.pipes) (he : (apply st op).1.eps = st.eps) (hn : (apply st op).1.now = st.now)
    (hs : ∀ s, ((apply st op).1.socks s).opened = (st.socks s).opened ∧ ((apply st op).1.socks s).closed = (st.socks s).closed ∧
      ((apply st op).1.socks s).mask = (st.socks s).mask ∧ ((apply st op).1.socks s).cip = (st.socks s).cip)
    (hc : (apply st op).1.ctxs = st.ctxs) (hpd : (apply st op).1.pend = st.pend) :
    Rel (step st op orc).1 (Nng.LifeSpec.step j op (step st op orc).2) := by
  refine finish_simple st j op orc hr hu hrace hpost (by rw [hout]; intro o ho; rw [List.mem_singleton.mp ho]; rfl) noSel j ?_ ?_
    (noSel_triv _) (CtxsRel_of hr.ctxs hc rfl) (PendRel_of hr.pend hpd rfl)
  · rw [hout, hpre, hadv]; simp only [List.foldl_cons, List.foldl_nil, hrv]
  · exact Mid_of_same hr.mid (apply_G st op hr.inv.g).s.w hp he hs (by rw [hn]; exact hr.mid.now) hr.mid.e14 hr.mid.e10 rfl rfl rfl

theorem unmodelled_apply {st : State} {op : LOp} {orc : List Nat} (hu : st.unmodelled = false)
    (hu' : (step st op orc).1.unmodelled = false) : (apply st op).1.unmodelled = false := by
  rw [step_def st op orc hu] at hu'; exact hu'

theorem opSetoptSock_shape (st : State) (s : Nat) (n : String) (v : Int) (hua : (opSetoptSock st s n v).1.unmodelled = false) :
    ∃ x : Int, (opSetoptSock st s n v).2 = [.rv x] ∧
      (opSetoptSock st s n v).1.pipes = st.pipes ∧ (opSetoptSock st s n v).1.eps = st.eps ∧
      (opSetoptSock st s n v).1.now = st.now ∧
      (∀ s', ((opSetoptSock st s n v).1.socks s').opened = (st.socks s').opened ∧
        ((opSetoptSock st s n v).1.socks s').closed = (st.socks s').closed ∧
        ((opSetoptSock st s n v).1.socks s').mask = (st.socks s').mask ∧
        ((opSetoptSock st s n v).1.socks s').cip = (st.socks s').cip) ∧
      (opSetoptSock st s n v).1.ctxs = st.ctxs ∧ (opSetoptSock st s n v).1.pend = st.pend := by
  revert hua
  unfold opSetoptSock
  simp only
  split
  · intro _; exact ⟨_, rfl, rfl, rfl, rfl, fun _ => ⟨rfl, rfl, rfl, rfl⟩, rfl, rfl⟩
  · split
    · intro _; exact ⟨_, rfl, rfl, rfl, rfl, fun _ => ⟨rfl, rfl, rfl, rfl⟩, rfl, rfl⟩
    · split
      · intro _
        refine ⟨_, rfl, rfl, rfl, rfl, fun s' => ?_, rfl, rfl⟩
        simp only [setSock]; split <;> exact ⟨rfl, rfl, rfl, rfl⟩
      · split
        · intro _
          refine ⟨_, rfl, rfl, rfl, rfl, fun s' => ?_, rfl, rfl⟩
          simp only [setSock]; split <;> exact ⟨rfl, rfl, rfl, rfl⟩
        · intro hua; cases hua

theorem sim_setoptSock (st : State) (j : J) (s : Nat) (n : String) (v : Int) (orc : List Nat) (hr : Rel st j)
    (hu : st.unmodelled = false) (hu' : (step st (.setoptSock s n v) orc).1.unmodelled = false) :
    Rel (step st (.setoptSock s n v) orc).1 (Nng.LifeSpec.step j (.setoptSock s n v) (step st (.setoptSock s n v) orc).2) := by
  obtain ⟨x, h1, h2, h3, h4, h5, h6, h7⟩ := opSetoptSock_shape st s n v (unmodelled_apply hu hu')
  exact sim_trivial st j _ orc hr hu rfl (fun _ _ => rfl) (fun _ _ => rfl) rfl x h1 (fun _ => rfl) h2 h3 h4 h5 h6 h7


theorem foldl_noop (op : LOp) (l : List LOut) (j : J) (h : ∀ o ∈ l, ∀ j', onOut op j' o = j') : l.foldl (onOut op) j = j := by
  induction l with
  | nil => rfl
  | cons a rest ih =>
    simp only [List.foldl_cons]
    rw [h a List.mem_cons_self]
    exact ih (fun o ho => h o (List.mem_cons_of_mem _ ho))

theorem probe_noop (op : LOp) (imm : Bool) (i : Nat) (j : J) :
    onOut op j (probeSock imm i) = j ∧ onOut op j (probeCtx imm i) = j ∧ onOut op j (probeEp imm i) = j ∧
    onOut op j (probePipe imm i) = j := ⟨rfl, rfl, rfl, rfl⟩

theorem sim_probe (st : State) (j : J) (orc : List Nat) (hr : Rel st j) (hu : st.unmodelled = false) :
    Rel (step st .probe orc).1 (Nng.LifeSpec.step j .probe (step st .probe orc).2) := by
  have hmem : ∀ o ∈ (apply st .probe).2, (∃ i, o = probeSock false i) ∨ (∃ i, o = probeCtx false i) ∨
      (∃ i, o = probeEp false i) ∨ (∃ i, o = probePipe false i) := by
    intro o ho
    change o ∈ (opProbe st).2 at ho
    unfold opProbe at ho
    simp only [List.mem_append, List.mem_map] at ho
    rcases ho with ((⟨s, _, rfl⟩ | ⟨c, _, rfl⟩) | ⟨e, _, rfl⟩) | ⟨p, _, rfl⟩
    · exact Or.inl ⟨_, rfl⟩
    · exact Or.inr (Or.inl ⟨_, rfl⟩)
    · exact Or.inr (Or.inr (Or.inl ⟨_, rfl⟩))
    · exact Or.inr (Or.inr (Or.inr ⟨_, rfl⟩))
  refine finish_simple st j .probe orc hr hu rfl (fun _ _ => rfl) ?_ noSel j ?_ hr.mid (noSel_triv _) hr.ctxs hr.pend
  · intro o ho
    rcases hmem o ho with ⟨i, rfl⟩ | ⟨i, rfl⟩ | ⟨i, rfl⟩ | ⟨i, rfl⟩ <;> rfl
  · apply foldl_noop
    intro o ho j'
    rcases hmem o ho with ⟨i, rfl⟩ | ⟨i, rfl⟩ | ⟨i, rfl⟩ | ⟨i, rfl⟩
    · exact (probe_noop _ _ _ _).1
    · exact (probe_noop _ _ _ _).2.1
    · exact (probe_noop _ _ _ _).2.2.1
    · exact (probe_noop _ _ _ _).2.2.2

/-! ### pipe_close / pipe_drop -/

theorem sim_kill (st : State) (j : J) (op : LOp) (p : Nat) (orc : List Nat) (hr : Rel st j) (hu : st.unmodelled = false)
    (hrace : isRace op = false) (hpost : ∀ outs j', postOp outs j' op = j') (hpre : ∀ outs j', preOp false outs j' op = j')
    (hadv : advJ j op = j) (hrv : ∀ (x : Int) j', x = 0 ∨ x = 12 ∨ x = -1 → onOut op j' (.rv x) = j')
    (happ : apply st op = (match st.pipes.find? (·.idx == p) with
      | none => (st, [.rv (-1)])
      | some q => if q.reaped then (st, [.rv (-1)]) else let r := killPipe st p; (r.1, [.rv 0] ++ r.2)) ∨
      apply st op = (match st.pipes.find? (·.idx == p) with
      | none => (st, [.rv (-1)])
      | some q => if q.reaped then (st, [.rv lifeEnoent]) else let r := killPipe st p; (r.1, [.rv 0] ++ r.2))) :
    Rel (step st op orc).1 (Nng.LifeSpec.step j op (step st op orc).2) := by
  have key : (apply st op = (st, [.rv (-1)]) ∨ apply st op = (st, [.rv lifeEnoent])) ∨
      apply st op = ((killPipe st p).1, [.rv 0] ++ (killPipe st p).2) := by
    rcases happ with h | h <;> rw [h] <;> split
    · left; left; rfl
    · split
      · left; left; rfl
      · right; rfl
    · left; left; rfl
    · split
      · left; right; rfl
      · right; rfl
  rcases key with (h | h) | h
  · refine finish_simple st j op orc hr hu hrace hpost (by rw [h]; intro o ho; rw [List.mem_singleton.mp ho]; rfl) noSel j ?_ ?_
      (noSel_triv _) ?_ ?_
    · rw [h, hpre, hadv]; simp only [List.foldl_cons, List.foldl_nil]; exact hrv _ _ (Or.inr (Or.inr rfl))
    · rw [h]; exact hr.mid
    · rw [h]; exact hr.ctxs
    · rw [h]; exact hr.pend
  · refine finish_simple st j op orc hr hu hrace hpost (by rw [h]; intro o ho; rw [List.mem_singleton.mp ho]; rfl) noSel j ?_ ?_
      (noSel_triv _) ?_ ?_
    · rw [h, hpre, hadv]; simp only [List.foldl_cons, List.foldl_nil]; exact hrv _ _ (Or.inr (Or.inl rfl))
    · rw [h]; exact hr.mid
    · rw [h]; exact hr.ctxs
    · rw [h]; exact hr.pend
  · obtain ⟨h1, s1⟩ := killPipe_sim noSel op hrace st j p hr.mid hr.cb
    have hsame := killPipe_same st p
    refine finish_simple st j op orc hr hu hrace hpost ?_ noSel ((killPipe st p).2.foldl (onOut op) j) ?_ ?_ (noSel_triv _) ?_ ?_
    · rw [h]
      exact NP.append (by intro o ho; rw [List.mem_singleton.mp ho]; rfl) (NP_of_evs (killPipe_evs st p))
    · rw [h, hpre, hadv]
      simp only [List.foldl_append, List.foldl_cons, List.foldl_nil]
      rw [hrv _ _ (Or.inl rfl)]
    · rw [h]; exact h1
    · rw [h]; exact CtxsRel_of hr.ctxs hsame.2.2.2 s1.2.2.1
    · rw [h]; exact PendRel_of hr.pend hsame.1 s1.2.2.2.1

theorem sim_pipeDrop (st : State) (j : J) (p : Nat) (orc : List Nat) (hr : Rel st j) (hu : st.unmodelled = false) :
    Rel (step st (.pipeDrop p) orc).1 (Nng.LifeSpec.step j (.pipeDrop p) (step st (.pipeDrop p) orc).2) :=
  sim_kill st j (.pipeDrop p) p orc hr hu rfl (fun _ _ => rfl) (fun _ _ => rfl) rfl (fun _ _ _ => rfl) (Or.inl rfl)

theorem sim_pipeClose (st : State) (j : J) (p : Nat) (orc : List Nat) (hr : Rel st j) (hu : st.unmodelled = false) :
    Rel (step st (.pipeClose p) orc).1 (Nng.LifeSpec.step j (.pipeClose p) (step st (.pipeClose p) orc).2) := by
  refine sim_kill st j (.pipeClose p) p orc hr hu rfl (fun _ _ => rfl) (fun _ _ => rfl) rfl ?_ (Or.inr rfl)
  intro x j' hx
  rcases hx with rfl | rfl | rfl <;> rfl


theorem EpsRel.append {S : SelE} {st st' : State} {j j' : J} (h : EpsRel S st j) (e : Ep) (x : JEp)
    (hm : st'.eps = st.eps ++ [e]) (hidx : e.idx = st.eps.length) (hj : j'.eps = j.eps ++ [(e.idx, x)]) (hr : ER S e x) :
    EpsRel S st' j' := by
  have hnone : j.eps.lookup e.idx = none := h.lookup_none (by omega)
  constructor
  · intro e' he'
    rw [hm] at he'
    rw [hj, Nng.LifeSpec.lookup_append]
    rcases List.mem_append.mp he' with he' | he'
    · obtain ⟨x', hx', hr'⟩ := h.fwd e' he'
      exact ⟨x', by rw [hx']; rfl, hr'⟩
    · rw [List.mem_singleton.mp he', hnone]
      exact ⟨x, by simp, hr⟩
  · intro i y hy
    rw [hj] at hy ⊢
    rw [Nng.LifeSpec.lookup_append, hm]
    rcases List.mem_append.mp hy with hy | hy
    · obtain ⟨hl, hlt⟩ := h.bwd i y hy
      exact ⟨by rw [hl]; rfl, by simp; omega⟩
    · simp only [List.mem_singleton, Prod.mk.injEq] at hy
      obtain ⟨rfl, rfl⟩ := hy
      exact ⟨by rw [hnone]; simp, by simp; omega⟩

theorem eps_fresh {S : SelE} {st : State} {j : J} (h : EpsRel S st j) : ∀ kx ∈ j.eps, kx.1 ≠ st.eps.length := by
  intro ⟨k, x⟩ hkx
  exact Nat.ne_of_lt (h.bwd k x hkx).2

def jNewEp (d : Bool) (s : Nat) (nb : Bool) (mn mx : Option Int) : JEp :=
  { dialer := d, sock := s, cfgMax := max (mn.getD 0) (mx.getD 0), background := d && nb, syncPending := d && !nb }

/-- the judge on the two events of a successful dial / listen -/
theorem newEp_fold (op : LOp) (j : J) (n : Nat) (d : Bool) (s : Nat) (nb : Bool) (rv : Int) (mn mx : Option Int)
    (hop : Nng.LifeSpec.opEpSock op = some (d, s, nb)) (hfresh : ∀ kx ∈ j.eps, kx.1 ≠ n) :
    [LOut.ep n rv mn mx, LOut.earm n].foldl (onOut op) j = { j with eps := j.eps ++ [(n, jNewEp d s nb mn mx)] } := by
  have hneg : ¬ ((n : Int) < 0) := by omega
  simp only [List.foldl_cons, List.foldl_nil]
  have h1 : onOut op j (.ep n rv mn mx) = { j with eps := put j.eps n (jNewEp d s nb mn mx) } := by
    simp only [onOut, hneg, if_false, hop, Int.toNat_natCast]; rfl
  rw [h1, Nng.LifeSpec.put_fresh _ _ _ hfresh]
  rw [onOut_earm op _ n (jNewEp d s nb mn mx)]
  · simp only [Nng.LifeSpec.upd_append, Nng.LifeSpec.upd_fresh j.eps n _ hfresh]
    simp [upd, jClr, jNewEp]
  · simp only [Nng.LifeSpec.lookup_append, Nng.LifeSpec.lookup_fresh j.eps n hfresh]
    simp
  · rfl

theorem sim_dial (st : State) (j : J) (s : Nat) (nb : Bool) (orc : List Nat) (hr : Rel st j) (hu : st.unmodelled = false) :
    Rel (step st (.dial s nb) orc).1 (Nng.LifeSpec.step j (.dial s nb) (step st (.dial s nb) orc).2) := by
  have hG := apply_G st (.dial s nb) hr.inv.g
  by_cases hc : (!(st.socks s).opened || (st.socks s).closed) = true
  · have happ : apply st (.dial s nb) = (st, [.ep (-1) lifeEclosed (some (-2)) (some (-2))]) := by
      show opDial st s nb = _
      unfold opDial; simp only [hc, if_true]
    refine finish_simple st j _ orc hr hu rfl (fun _ _ => rfl) (by rw [happ]; intro o ho; rw [List.mem_singleton.mp ho]; rfl)
      noSel j ?_ ?_ (noSel_triv _) ?_ ?_
    · rw [happ]; rfl
    · rw [happ]; exact hr.mid
    · rw [happ]; exact hr.ctxs
    · rw [happ]; exact hr.pend
  · let e : Ep :=
      { idx := st.eps.length, dialer := true, sock := s, inir := (st.socks s).reconn, maxr := (st.socks s).reconnmax,
        curr := (st.socks s).reconn, armed := true, userAio := !nb,
        cap := max (st.socks s).reconn (st.socks s).reconnmax, background := nb }
    have happ : apply st (.dial s nb) =
        ({ st with eps := st.eps ++ [e] }, [.ep e.idx 0 (some e.inir) (some e.maxr), .earm e.idx]) := by
      show opDial st s nb = _
      unfold opDial; simp only [hc, if_false, Bool.false_eq_true]; rfl
    rw [happ] at hG
    have hfold := newEp_fold (.dial s nb) j st.eps.length true s nb 0 (some e.inir) (some e.maxr) rfl (eps_fresh hr.mid.eps)
    refine finish_simple st j _ orc hr hu rfl (fun _ _ => rfl) ?_ noSel
      { j with eps := j.eps ++ [(st.eps.length, jNewEp true s nb (some e.inir) (some e.maxr))] } ?_ ?_ (noSel_triv _) ?_ ?_
    · rw [happ]; intro o ho; simp at ho; rcases ho with rfl | rfl <;> rfl
    · rw [happ]; exact hfold
    · rw [happ]
      refine ⟨hG.s.w, hr.mid.pinv, hr.mid.lso, hr.mid.now, hr.mid.e14, hr.mid.e10, hr.mid.socks, ?_, hr.mid.pipes⟩
      refine hr.mid.eps.append e _ rfl rfl rfl ?_
      constructor
      · rfl
      · rfl
      · rfl
      · rfl
      · show (true && !nb) = !nb; simp
      · intro _ _; show (true && nb) = !(!nb); simp
      · intro _ h; rcases h with h | h <;> cases h
      · intro _ t ht; cases ht
      · intro _ t ht; cases ht
    · rw [happ]; exact hr.ctxs
    · rw [happ]; exact hr.pend

theorem sim_listen (st : State) (j : J) (s : Nat) (orc : List Nat) (hr : Rel st j) (hu : st.unmodelled = false) :
    Rel (step st (.listen s) orc).1 (Nng.LifeSpec.step j (.listen s) (step st (.listen s) orc).2) := by
  have hG := apply_G st (.listen s) hr.inv.g
  by_cases hc : (!(st.socks s).opened || (st.socks s).closed) = true
  · have happ : apply st (.listen s) = (st, [.ep (-1) lifeEclosed none none]) := by
      show opListen st s = _
      unfold opListen; simp only [hc, if_true]
    refine finish_simple st j _ orc hr hu rfl (fun _ _ => rfl) (by rw [happ]; intro o ho; rw [List.mem_singleton.mp ho]; rfl)
      noSel j ?_ ?_ (noSel_triv _) ?_ ?_
    · rw [happ]; rfl
    · rw [happ]; exact hr.mid
    · rw [happ]; exact hr.ctxs
    · rw [happ]; exact hr.pend
  · let e : Ep := { idx := st.eps.length, dialer := false, sock := s, armed := true }
    have happ : apply st (.listen s) = ({ st with eps := st.eps ++ [e] }, [.ep e.idx 0 none none, .earm e.idx]) := by
      show opListen st s = _
      unfold opListen; simp only [hc, if_false, Bool.false_eq_true]; rfl
    rw [happ] at hG
    have hfold := newEp_fold (.listen s) j st.eps.length false s true 0 none none rfl (eps_fresh hr.mid.eps)
    refine finish_simple st j _ orc hr hu rfl (fun _ _ => rfl) ?_ noSel
      { j with eps := j.eps ++ [(st.eps.length, jNewEp false s true none none)] } ?_ ?_ (noSel_triv _) ?_ ?_
    · rw [happ]; intro o ho; simp at ho; rcases ho with rfl | rfl <;> rfl
    · rw [happ]; exact hfold
    · rw [happ]
      refine ⟨hG.s.w, hr.mid.pinv, hr.mid.lso, hr.mid.now, hr.mid.e14, hr.mid.e10, hr.mid.socks, ?_, hr.mid.pipes⟩
      refine hr.mid.eps.append e _ rfl rfl rfl ?_
      constructor
      · rfl
      · rfl
      · rfl
      · rfl
      · rfl
      · intro h; cases h
      · intro h; cases h
      · intro _ t ht; cases ht
      · intro _ t ht; cases ht
    · rw [happ]; exact hr.ctxs
    · rw [happ]; exact hr.pend

end Nng.LifeModel
