/- byte-level lemmas for the option model: little-endian round trip, loads and stores on the caller's buffer -/
import NngModel.Model.Options
namespace Nng.Opt
open Nng

theorem csize_bool : csize .bool = 1 := by decide
theorem csize_int : csize .int = 4 := by decide
theorem csize_size : csize .size = 8 := by decide
theorem csize_ms : csize .ms = 4 := by decide
theorem csize_str : csize .str = 8 := by decide
theorem csize_addr_pos : 0 < csize .addr := by decide

@[simp] theorem leEncode_length (n v : Nat) : (leEncode n v).length = n := by
  induction n generalizing v with
  | zero => rfl
  | succ n ih => simp [leEncode, ih]

theorem leDecode_leEncode (n v : Nat) : leDecode (leEncode n v) = v % 256 ^ n := by
  induction n generalizing v with
  | zero => simp [leEncode, leDecode, Nat.mod_one]
  | succ n ih =>
    simp only [leEncode, leDecode, ih]
    have h : (UInt8.ofNat (v % 256)).toNat = v % 256 := by
      simp [UInt8.toNat_ofNat']
    rw [h, Nat.pow_succ, Nat.mul_comm (256 ^ n) 256, Nat.mod_mul]

theorem leDecode_lt (b : Bytes) : leDecode b < 256 ^ b.length := by
  induction b with
  | nil => simp [leDecode]
  | cons x xs ih =>
    simp only [leDecode, List.length_cons, Nat.pow_succ]
    have := x.toNat_lt
    omega

theorem toI32_ofI32 (i : Int) (h : -2147483648 ≤ i ∧ i < 2147483648) :
    toI32 (ofI32 i % 4294967296) = i := by
  unfold toI32 ofI32
  have h1 : (0 : Int) ≤ i % 4294967296 := Int.emod_nonneg _ (by decide)
  have h2 : i % 4294967296 < 4294967296 := Int.emod_lt_of_pos _ (by decide)
  have h3 : ((i % 4294967296).toNat : Int) = i % 4294967296 := Int.toNat_of_nonneg h1
  have h4 : (i % 4294967296).toNat % 4294967296 = (i % 4294967296).toNat := by
    apply Nat.mod_eq_of_lt; omega
  rw [h4]
  split <;> omega

/-- a load inside the buffer sees the buffer's first bytes -/
theorem load_inside (b : Bytes) (n : Nat) (h : n ≤ b.length) : load b n = (b.take n, true) := by
  simp [load, h, Nat.sub_eq_zero_of_le h]

theorem load_exact (b : Bytes) : load b b.length = (b, true) := by
  simp [load]

/-- a store inside the buffer replaces exactly the first `d.length` bytes -/
theorem store_inside (b d : Bytes) (h : d.length ≤ b.length) : store b d = (d ++ b.drop d.length, true) := by
  simp [store, h, List.take_of_length_le h]

theorem store_length (b d : Bytes) : (store b d).1.length = b.length := by
  simp [store]; omega

end Nng.Opt
