/- every op of the lifecycle model preserves the per-pipe invariants -/
import NngModel.Proofs.LifePipe
namespace Nng.LifeModel
open Nng.Life

theorem PipesInv_congr {st st' : State} (h : st'.pipes = st.pipes) (hi : PipesInv st) : PipesInv st' := by
  intro p hp; rw [h] at hp; exact hi p hp

@[simp] theorem completeWhere_pipes (st : State) (f : PAio → Bool) (rv : Nat) :
    (completeWhere st f rv).1.pipes = st.pipes := rfl
@[simp] theorem finishNow_pipes (st : State) (a rv : Nat) : (finishNow st a rv).1.pipes = st.pipes := rfl
@[simp] theorem park_pipes (st : State) (a : Nat) (t : Tgt) : (park st a t).1.pipes = st.pipes := rfl
@[simp] theorem fireTimers_pipes (orc : List Nat) (st : State) : (fireTimers orc st).1.pipes = st.pipes := rfl

macro "pipes_same" h:ident : tactic =>
  `(tactic| ((repeat' split) <;> first | exact $h | exact PipesInv_congr rfl $h))

theorem closeEp_inv (st : State) (e : Ep) (h : PipesInv st) : PipesInv (closeEp st e).1 := by
  unfold closeEp
  exact killPipes_inv' _ _ (PipesInv_congr rfl h)

theorem closeEps_inv (es : List Ep) (st : State) (outs : List LOut) (h : PipesInv st) :
    PipesInv (es.foldl (fun (acc : R) e => let r := closeEp acc.1 e; (r.1, acc.2 ++ r.2)) (st, outs)).1 := by
  induction es generalizing st outs with
  | nil => exact h
  | cons e rest ih => exact ih _ _ (closeEp_inv st e h)

theorem connDialer_inv (st : State) (e : Ep) (r : Except Nat Nat) (h : PipesInv st) : PipesInv (connDialer st e r).1 := by
  unfold connDialer
  cases r with
  | ok peer => exact startPipe_inv _ _ _ _ _ (PipesInv_congr rfl h)
  | error rv =>
    simp only
    pipes_same h

theorem connListener_inv (st : State) (e : Ep) (r : Except Nat Nat) (h : PipesInv st) : PipesInv (connListener st e r).1 := by
  unfold connListener
  cases r with
  | ok peer =>
    exact PipesInv_congr rfl (startPipe_inv _ _ _ _ _ (PipesInv_congr rfl h))
  | error rv =>
    simp only
    pipes_same h

theorem opClose_inv (st : State) (s : Nat) (h : PipesInv st) : PipesInv (opClose st s).1 := by
  unfold opClose
  simp only
  split
  · exact h
  · have h1 := closeEps_inv (st.eps.filter fun e => e.sock == s && !e.closed) st [] h
    have h2 := killPipes_inv' _ (liveOf (closeEps st (st.eps.filter fun e => e.sock == s && !e.closed)).1 fun p => p.sock == s) h1
    exact PipesInv_congr rfl h2

theorem opConnDone_inv (st : State) (e : Nat) (r : Except Nat Nat) (h : PipesInv st) : PipesInv (opConnDone st e r).1 := by
  unfold opConnDone
  split
  · exact h
  · split
    · exact h
    · split
      · exact connDialer_inv _ _ _ h
      · exact connListener_inv _ _ _ h

theorem opPipeClose_inv (st : State) (p : Nat) (h : PipesInv st) : PipesInv (opPipeClose st p).1 := by
  unfold opPipeClose
  split
  · exact h
  · split
    · exact h
    · exact killPipe_inv _ _ h

theorem opPipeDrop_inv (st : State) (p : Nat) (h : PipesInv st) : PipesInv (opPipeDrop st p).1 := by
  unfold opPipeDrop
  split
  · exact h
  · split
    · exact h
    · exact killPipe_inv _ _ h

theorem opCloseEp_inv (st : State) (e : Nat) (d : Bool) (h : PipesInv st) : PipesInv (opCloseEp st e d).1 := by
  unfold opCloseEp
  split
  · exact h
  · split
    · exact h
    · split
      · exact h
      · exact closeEp_inv _ _ h

theorem apply_inv (st : State) (op : LOp) (h : PipesInv st) : PipesInv (apply st op).1 := by
  cases op with
  | openSock s p => show PipesInv (opOpen st s p).1; unfold opOpen; pipes_same h
  | notify s m c => show PipesInv (opNotify st s m c).1; unfold opNotify; simp only; pipes_same h
  | setoptSock s n v => show PipesInv (opSetoptSock st s n v).1; unfold opSetoptSock; simp only; pipes_same h
  | setoptEp e n v => show PipesInv (opSetoptEp st e n v).1; unfold opSetoptEp; pipes_same h
  | dial s nb => show PipesInv (opDial st s nb).1; unfold opDial; simp only; pipes_same h
  | listen s => show PipesInv (opListen st s).1; unfold opListen; simp only; pipes_same h
  | connDone e r => exact opConnDone_inv _ _ _ h
  | pipeClose p => exact opPipeClose_inv _ _ h
  | pipeDrop p => exact opPipeDrop_inv _ _ h
  | dialerClose e => exact opCloseEp_inv _ _ _ h
  | listenerClose e => exact opCloseEp_inv _ _ _ h
  | ctxOpen s c => show PipesInv (opCtxOpen st s c).1; unfold opCtxOpen; simp only; pipes_same h
  | ctxClose c => show PipesInv (opCtxClose st c).1; unfold opCtxClose; pipes_same h
  | send t a => show PipesInv (opSend st t a).1; unfold opSend; simp only; pipes_same h
  | recv t a => show PipesInv (opRecv st t a).1; unfold opRecv; simp only; pipes_same h
  | advance ms => exact PipesInv_congr rfl h
  | close s => exact opClose_inv _ _ h
  | close2 s => exact PipesInv_congr rfl h
  | race o l a b => exact PipesInv_congr rfl h
  | probe => exact h

theorem step_inv (st : State) (op : LOp) (orc : List Nat) (h : PipesInv st) : PipesInv (step st op orc).1 := by
  unfold step
  split
  · exact h
  · exact PipesInv_congr rfl (apply_inv st op h)

theorem init_inv : PipesInv ({} : State) := by intro p hp; cases hp

theorem run_inv (tr : List (LOp × List Nat)) (st : State) (h : PipesInv st) : PipesInv (run st tr) := by
  induction tr generalizing st with
  | nil => exact h
  | cons x rest ih => exact ih _ (step_inv st x.1 x.2 h)

end Nng.LifeModel
