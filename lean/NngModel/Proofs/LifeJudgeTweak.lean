/-
  "The lifecycle judge accepts every trace of the lifecycle model" (C14 / C10), part 13:
  the judge's handlers for the events of one pipe (`pipe`, `pev`, `parm`, `pclosed`) commute with a
  change of an endpoint record that touches neither `dialer`, `closed`, `sock` nor the redial
  bookkeeping.  Used for `conn_done`: the model clears the blocking dial / re-arms the listener
  before it starts the pipe, the harness prints `dialrv` / `earm` after the pipe's events.
-/
import NngModel.Proofs.LifeJudgeStart
namespace Nng.LifeModel
open Nng.Life Nng.Generated
open Nng.LifeSpec (J JPipe JEp JSock upd put KU onOut opConnEp)

theorem fail14_eps (j : J) (E : List (Nat × JEp)) (m : String) :
    ({ j with eps := E } : J).fail14 m = { j.fail14 m with eps := E } := by
  obtain ⟨now, socks, eps, pipes, ctxs, pend, e14, e10⟩ := j
  cases e14 <;> rfl

theorem sock_eps (j : J) (E : List (Nat × JEp)) (s : Nat) : ({ j with eps := E } : J).sock s = j.sock s := rfl

/-- `pev` / `parm` do not look at the endpoint records -/
theorem onOut_eps_pev (op : LOp) (j : J) (E : List (Nat × JEp)) (p : Int) (k : PEv) :
    onOut op { j with eps := E } (.pev p k) = { onOut op j (.pev p k) with eps := E } := by
  simp only [onOut]
  split
  · exact fail14_eps _ _ _
  · split
    · exact fail14_eps _ _ _
    · simp only [sock_eps]
      repeat' split
      all_goals simp_all [fail14_eps]

theorem onOut_eps_parm (op : LOp) (j : J) (E : List (Nat × JEp)) (p : Nat) :
    onOut op { j with eps := E } (.parm p) = { onOut op j (.parm p) with eps := E } := by
  simp only [onOut]
  have hp : ({ j with eps := E } : J).pipes = j.pipes := rfl
  rw [hp]
  cases hl : j.pipes.lookup p with
  | none => rfl
  | some q =>
    simp only [sock_eps]
    cases h1 : q.closedInPre with
    | true => simp only [if_true, fail14_eps]
    | false =>
      cases h2 : q.preWait with
      | true => simp only [Bool.false_eq_true, if_false, if_true, fail14_eps]
      | false => simp only [Bool.false_eq_true, if_false]


/-- a change of one endpoint record that the pipe event handlers do not see -/
structure Tweak (f : JEp → JEp) : Prop where
  dialer : ∀ x, (f x).dialer = x.dialer
  closed : ∀ x, (f x).closed = x.closed
  sock : ∀ x, (f x).sock = x.sock
  comm : ∀ (now : Nat) (x : JEp),
    f { x with redialSince := some now, background := true } = { f x with redialSince := some now, background := true }

def Tf (f : JEp → JEp) (ei : Nat) (j : J) : J := { j with eps := upd j.eps ei f }

theorem lookup_Tf (f : JEp → JEp) (ei : Nat) (j : J) (k : Nat) :
    (Tf f ei j).eps.lookup k = if k = ei then (j.eps.lookup k).map f else j.eps.lookup k :=
  Nng.LifeSpec.lookup_upd _ _ _ _

theorem upd_comm {α : Type} (l : List (Nat × α)) (a b : Nat) (f g : α → α) (h : ∀ x, f (g x) = g (f x)) :
    upd (upd l a f) b g = upd (upd l b g) a f := by
  unfold upd
  rw [List.map_map, List.map_map]
  apply List.map_congr_left
  intro kx _
  obtain ⟨k, x⟩ := kx
  simp only [Function.comp]
  by_cases h1 : k = a <;> by_cases h2 : k = b
  · subst h1; subst h2; simp [h]
  · have : (k == b) = false := by simpa using h2
    subst h1; simp [this]
  · have : (k == a) = false := by simpa using h1
    subst h2; simp [this]
  · have e1 : (k == a) = false := by simpa using h1
    have e2 : (k == b) = false := by simpa using h2
    simp [e1, e2]

theorem fail14_Tf (f : JEp → JEp) (ei : Nat) (j : J) (m : String) : (Tf f ei j).fail14 m = Tf f ei (j.fail14 m) := by
  obtain ⟨now, socks, eps, pipes, ctxs, pend, e14, e10⟩ := j
  cases e14 <;> rfl

theorem Tf_pipe (op : LOp) (f : JEp → JEp) (hf : Tweak f) (ei : Nat) (j : J) (p : Nat) :
    onOut op (Tf f ei j) (.pipe p) = Tf f ei (onOut op j (.pipe p)) := by
  simp only [onOut]
  split
  · rename_i e _
    simp only [lookup_Tf]
    have hp : (Tf f ei j).pipes = j.pipes := rfl
    have hs : ∀ s, (Tf f ei j).sock s = j.sock s := fun _ => rfl
    by_cases he : e = ei
    · subst he
      simp only [if_true]
      cases hl : j.eps.lookup e with
      | none => rfl
      | some x =>
        simp only [Option.map_some]
        rw [hf.dialer, hf.sock, hp, hs]
        by_cases hc : (x.dialer && j.pipes.any fun (_, q) => q.ep == e && !q.lost) = true
        · rw [if_pos hc, if_pos hc, fail14_Tf]; rfl
        · rw [if_neg hc, if_neg hc]; rfl
    · simp only [he, if_false]
      cases hl : j.eps.lookup e with
      | none => rfl
      | some x =>
        simp only
        rw [hp, hs]
        by_cases hc : (x.dialer && j.pipes.any fun (_, q) => q.ep == e && !q.lost) = true
        · rw [if_pos hc, if_pos hc, fail14_Tf]; rfl
        · rw [if_neg hc, if_neg hc]; rfl
  · rfl

theorem Tf_pclosed (op : LOp) (f : JEp → JEp) (hf : Tweak f) (ei : Nat) (j : J) (p : Nat) :
    onOut op (Tf f ei j) (.pclosed p) = Tf f ei (onOut op j (.pclosed p)) := by
  simp only [onOut]
  have hp : (Tf f ei j).pipes = j.pipes := rfl
  rw [hp]
  cases hl : j.pipes.lookup p with
  | none => rfl
  | some q =>
    simp only
    have he : ∀ (P : List (Nat × JPipe)), ({ Tf f ei j with pipes := P } : J).eps.lookup q.ep =
        if q.ep = ei then (j.eps.lookup q.ep).map f else j.eps.lookup q.ep := fun _ => lookup_Tf f ei j q.ep
    rw [he]
    have hj : ∀ (P : List (Nat × JPipe)), ({ j with pipes := P } : J).eps.lookup q.ep = j.eps.lookup q.ep := fun _ => rfl
    rw [hj]
    have hcomm : ∀ (now : Nat) (E : List (Nat × JEp)),
        upd (upd E ei f) q.ep (fun x => { x with redialSince := some now, background := true }) =
        upd (upd E q.ep (fun x => { x with redialSince := some now, background := true })) ei f := by
      intro now E
      apply upd_comm
      intro x; exact hf.comm now x
    by_cases hq : q.ep = ei
    · subst hq
      simp only [if_true]
      cases hle : j.eps.lookup q.ep with
      | none => rfl
      | some x =>
        simp only [Option.map_some]
        rw [hf.dialer, hf.closed]
        split
        · unfold Tf
          simp only
          rw [hcomm]
          rfl
        · rfl
    · simp only [hq, if_false]
      cases hle : j.eps.lookup q.ep with
      | none => rfl
      | some x =>
        simp only
        split
        · unfold Tf
          simp only
          rw [hcomm]
          rfl
        · rfl

theorem Tf_ev (op : LOp) (f : JEp → JEp) (hf : Tweak f) (ei : Nat) (j : J) (o : LOut) (h : isPipeEv o = true) :
    onOut op (Tf f ei j) o = Tf f ei (onOut op j o) := by
  cases o <;> simp only [isPipeEv, Bool.false_eq_true] at h
  · rename_i p k
    have h0 := onOut_eps_pev op j j.eps p k
    have h1 : (onOut op j (.pev p k)).eps = j.eps := by
      have := congrArg J.eps h0; exact this
    unfold Tf
    rw [h1]; exact onOut_eps_pev op j _ _ _
  · rename_i p
    have h0 := onOut_eps_parm op j j.eps p
    have h1 : (onOut op j (.parm p)).eps = j.eps := by
      have := congrArg J.eps h0; exact this
    unfold Tf
    rw [h1]; exact onOut_eps_parm op j _ _
  · exact Tf_pclosed op f hf ei j _

theorem Tf_fold (op : LOp) (f : JEp → JEp) (hf : Tweak f) (ei : Nat) (l : List LOut) (j : J) (h : ∀ o ∈ l, isPipeEv o = true) :
    l.foldl (onOut op) (Tf f ei j) = Tf f ei (l.foldl (onOut op) j) := by
  induction l generalizing j with
  | nil => rfl
  | cons a rest ih =>
    simp only [List.foldl_cons]
    rw [Tf_ev op f hf ei j a (h a List.mem_cons_self), ih _ (fun o ho => h o (List.mem_cons_of_mem _ ho))]

def jAcc (t : Nat) (x : JEp) : JEp := { x with acceptBy := some t }

theorem tweak_syncOff : Tweak (jSyncOff 0) := ⟨fun _ => rfl, fun _ => rfl, fun _ => rfl, fun _ x => by simp [jSyncOff]⟩
theorem tweak_acc (t : Nat) : Tweak (jAcc t) := ⟨fun _ => rfl, fun _ => rfl, fun _ => rfl, fun _ _ => rfl⟩

end Nng.LifeModel
