/-
  C19, buffer model = functional model, part 5: the parser stages around the canonicaliser —
  the host `memmove` (`stageHost`), the '@' split and lower-casing (`stageUser`), the
  query/fragment split (`stageQF`), "[…]" / ':' of the port (`stageHostPort`).  Each lemma says
  which C strings are where afterwards (= the lists the functional model holds at that point)
  and which indices are untouched.
-/
import NngModel.Proofs.UrlBufEqBase
set_option linter.unusedSimpArgs false
set_option linter.unusedVariables false
namespace Nng.UrlBufEq
open Nng Nng.Url Nng.UrlBuf Nng.UrlBufProofs Nng.UrlProofs

/-- an optional field: absent on both sides, or index `i ≥ lo` holding the C string -/
def OptStr (lo len : Nat) (m : Mem) : Option Nat → Option Bytes → Prop
  | none, none => True
  | some i, some l => lo ≤ i ∧ CStr len m i l
  | _, _ => False

theorem optStr_frame {lo len : Nat} {m m' : Mem} {oi : Option Nat} {ol : Option Bytes}
    (h : OptStr lo len m oi ol) (hf : ∀ i, lo ≤ i → m'.rd i = m.rd i) : OptStr lo len m' oi ol := by
  match oi, ol, h with
  | none, none, _ => trivial
  | some i, some l, h => exact ⟨h.1, cstr_frame h.2 (fun j a _ => hf j (by have := h.1; omega))⟩

/-- first occurrence of `c` in `l`, if any -/
theorem split_chr (c : UInt8) (l : Bytes) :
    (hasChr l c = false ∧ c ∉ l) ∨
    (∃ a t, l = a ++ c :: t ∧ c ∉ a ∧ hasChr l c = true ∧ upTo c l = a ∧ after c l = t) := by
  cases h : hasChr l c with
  | false => left; exact ⟨rfl, (hasChr_false l c).1 h⟩
  | true =>
    right
    have hsplit := upTo_after c l h
    have hna : c ∉ upTo c l := fun hm => (mem_upTo c l c hm).2 rfl
    exact ⟨upTo c l, after c l, hsplit.symm, hna, rfl, rfl, rfl⟩

theorem stop_false {c x : UInt8} (h : x ≠ c) : (fun y => decide (y = c)) x = false := by simp [h]

/-! ### stageHost -/

theorem stageHost_eq {len : Nat} (fuel : Nat) (p : Bytes) (m : Mem) (h : Inv len m)
    (hs : CStr len m 3 p) (hf : len < fuel) :
    (stageHost fuel m).2 = 3 + (p.takeWhile (fun c => !isAuthEnd c)).length ∧
    Inv len (stageHost fuel m).1 ∧
    CStr len (stageHost fuel m).1 0 (p.takeWhile (fun c => !isAuthEnd c)) ∧
    CStr len (stageHost fuel m).1 (3 + (p.takeWhile (fun c => !isAuthEnd c)).length)
      (p.dropWhile (fun c => !isAuthEnd c)) := by
  obtain ⟨s1, s1b, s1i⟩ := scan_cstr isAuthEnd p fuel m 3 h hs (by omega)
  have hsplit : p = p.takeWhile (fun c => !isAuthEnd c) ++ p.dropWhile (fun c => !isAuthEnd c) :=
    (List.takeWhile_append_dropWhile).symm
  generalize p.takeWhile (fun c => !isAuthEnd c) = auth at *
  generalize p.dropWhile (fun c => !isAuthEnd c) = pqf at *
  subst hsplit
  unfold stageHost
  simp only
  generalize scan isAuthEnd fuel m 3 = r at *
  obtain ⟨rm, rp⟩ := r
  simp only at s1 s1b s1i ⊢
  subst s1
  have hP : 3 + auth.length ≤ len := by
    have := hs.le; simp only [List.length_append] at this; omega
  have hsr : CStr len rm 3 (auth ++ pqf) := cstr_buf hs s1b
  have hm1 := wr_zero s1i hP
  have hw1 : ∀ j, (rm.wr (3 + auth.length) 0).rd j = if 3 + auth.length = j then 0 else rm.rd j :=
    fun j => rd_wr_inv s1i hP j 0
  have hnzA : (0 : UInt8) ∉ auth := fun hm => hsr.nz (List.mem_append_left _ hm)
  have hs1 : CStr len (rm.wr (3 + auth.length) 0) 3 auth :=
    ⟨seg_frame ((seg_append _ _ 3).1 hsr.seg).1 (fun i _ hi => by rw [hw1, if_neg (by omega)]),
      by rw [hw1, if_pos rfl], hnzA, hP⟩
  have s2 := scan_stop (fun _ => false) auth fuel _ 3 hm1 hs1.seg
    (fun x hx => ⟨fun e => hnzA (e ▸ hx), rfl⟩) (Or.inl hs1.term) hP (by omega)
  obtain ⟨s2i, _, _, s2b⟩ := scan_inv (fun _ => false) fuel _ 3 hm1 (by omega) (by omega)
  generalize scan (fun _ => false) fuel (rm.wr (3 + auth.length) 0) 3 = e at *
  obtain ⟨em, ep⟩ := e
  simp only at s2 s2i s2b ⊢
  subst s2
  have hn : 3 + auth.length - 3 + 1 = auth.length + 1 := by omega
  rw [hn]
  obtain ⟨c1, c2⟩ := copyDown_spec (auth.length + 1) em 0 3 s2i (by omega) (by omega)
  have c3 := copyDown_inv (auth.length + 1) em 0 3 s2i (by omega) (by omega)
  generalize copyDown (auth.length + 1) em 0 3 = m2 at *
  have hw3 : ∀ j, (m2.wr (3 + auth.length) (rm.rd (3 + auth.length))).rd j =
      if 3 + auth.length = j then rm.rd (3 + auth.length) else m2.rd j := fun j => rd_wr_inv c3 hP j _
  refine ⟨trivial, ?_, ?_, ?_⟩
  · refine wr_inv c3 hP (fun e => ?_)
    have := s1i.2.2; rw [← e] at this; exact this
  · refine ⟨seg_transfer auth 0 3 hs1.seg (fun k hk => ?_), ?_, hnzA, by omega⟩
    · rw [hw3, if_neg (by omega), c1 k (by omega), rd_buf s2b]
    · rw [hw3, if_neg (by omega), c1 auth.length (by omega), rd_buf s2b]; exact hs1.term
  · refine cstr_frame (cstr_suffix auth pqf hsr) (fun i a _ => ?_)
    rw [hw3]
    by_cases e : 3 + auth.length = i
    · rw [if_pos e, e]
    · rw [if_neg e, c2 i (Or.inr (by omega)), rd_buf s2b, hw1, if_neg e]

/-! ### stageUser -/

/-- what the '@' split leaves in the buffer -/
theorem stageUser_eq {len : Nat} (fuel : Nat) (auth : Bytes) (m : Mem) (h : Inv len m)
    (hs : CStr len m 0 auth) (hf : len < fuel) :
    (hasChr auth AT = true ∧ hasChr (after AT auth) AT = true ∧ (stageUser fuel m).2 = none) ∨
    (hasChr auth AT = true ∧ hasChr (after AT auth) AT = false ∧
      (stageUser fuel m).2 = some (some 0, (upTo AT auth).length + 1) ∧
      Inv len (stageUser fuel m).1 ∧ CStr len (stageUser fuel m).1 0 (upTo AT auth) ∧
      CStr len (stageUser fuel m).1 ((upTo AT auth).length + 1) ((after AT auth).map toLower) ∧
      (upTo AT auth).length + 1 + (after AT auth).length = auth.length ∧
      ∀ i, auth.length < i → (stageUser fuel m).1.rd i = m.rd i) ∨
    (hasChr auth AT = false ∧ (stageUser fuel m).2 = some (none, 0) ∧
      Inv len (stageUser fuel m).1 ∧ CStr len (stageUser fuel m).1 0 (auth.map toLower) ∧
      ∀ i, auth.length < i → (stageUser fuel m).1.rd i = m.rd i) := by
  have hle := hs.le
  rcases split_chr AT auth with ⟨hno, hnm⟩ | ⟨U, T, hsplit, hnU, hyes, hup, haf⟩
  · -- no '@'
    right; right
    have s1 := scan_stop (fun x => decide (x = AT)) auth fuel m 0 h hs.seg
      (fun x hx => ⟨fun e => hs.nz (e ▸ hx), stop_false (fun e => hnm (e ▸ hx))⟩)
      (Or.inl hs.term) hle (by omega)
    obtain ⟨s1i, _, _, s1b⟩ := scan_inv (fun x => decide (x = AT)) fuel m 0 h (Nat.zero_le _) (by omega)
    unfold stageUser
    simp only
    generalize scan (fun x => decide (x = AT)) fuel m 0 = r at *
    obtain ⟨rm, rp⟩ := r
    simp only at s1 s1i s1b ⊢
    subst s1
    rw [if_neg (by rw [rd_buf s1b, hs.term]; decide)]
    obtain ⟨l1, l2⟩ := lowerLoop_spec auth fuel rm 0 s1i (cstr_buf hs s1b) (by omega)
    exact ⟨hno, rfl, lowerLoop_inv fuel rm 0 s1i (Nat.zero_le _) (by omega), l1,
      fun i hi => by rw [l2 i (Or.inr (by omega)), rd_buf s1b]⟩
  · subst hsplit
    rw [hup, haf]
    simp only [List.length_append, List.length_cons] at hle
    have hmid : m.rd (0 + U.length) = AT := seg_mid U AT T 0 hs.seg
    have s1 := scan_stop (fun x => decide (x = AT)) U fuel m 0 h ((seg_append _ _ 0).1 hs.seg).1
      (fun x hx => ⟨fun e => hs.nz (e ▸ List.mem_append_left _ hx), stop_false (fun e => hnU (e ▸ hx))⟩)
      (Or.inr (by rw [hmid]; decide)) (by omega) (by omega)
    obtain ⟨s1i, _, _, s1b⟩ := scan_inv (fun x => decide (x = AT)) fuel m 0 h (Nat.zero_le _) (by omega)
    unfold stageUser
    simp only
    generalize scan (fun x => decide (x = AT)) fuel m 0 = r at *
    obtain ⟨rm, rp⟩ := r
    simp only at s1 s1i s1b ⊢
    subst s1
    rw [if_pos (by rw [rd_buf s1b, hmid])]
    simp only [Nat.zero_add] at hmid ⊢
    have hw1 : ∀ j, (rm.wr U.length 0).rd j = if U.length = j then 0 else m.rd j := by
      intro j; rw [rd_wr_inv s1i (by omega), rd_buf s1b]
    have hm1 := wr_zero s1i (i := U.length) (by omega)
    have hnzU : (0 : UInt8) ∉ U := fun hm => hs.nz (List.mem_append_left _ hm)
    have hU : CStr len (rm.wr U.length 0) 0 U :=
      ⟨seg_frame ((seg_append _ _ 0).1 hs.seg).1 (fun i _ hi => by rw [hw1, if_neg (by omega)]),
        by rw [hw1, Nat.zero_add, if_pos rfl], hnzU, by omega⟩
    have hT : CStr len (rm.wr U.length 0) (U.length + 1) T := by
      have := cstr_suffix (U ++ [AT]) T (p := 0) (by simpa using hs)
      simp only [List.length_append, List.length_cons, List.length_nil, Nat.zero_add] at this
      exact cstr_frame this (fun i a _ => by rw [hw1, if_neg (by omega)])
    rcases split_chr AT T with ⟨hno2, hnm2⟩ | ⟨T1, T2, hsplit2, hnT1, hyes2, _, _⟩
    · -- exactly one '@'
      right; left
      have s2 := scan_stop (fun x => decide (x = AT)) T fuel _ (U.length + 1) hm1 hT.seg
        (fun x hx => ⟨fun e => hT.nz (e ▸ hx), stop_false (fun e => hnm2 (e ▸ hx))⟩)
        (Or.inl hT.term) hT.le (by omega)
      obtain ⟨s2i, _, _, s2b⟩ := scan_inv (fun x => decide (x = AT)) fuel _ (U.length + 1) hm1
        (by have := hT.le; omega) (by omega)
      generalize scan (fun x => decide (x = AT)) fuel (rm.wr U.length 0) (U.length + 1) = r2 at *
      obtain ⟨rm2, rp2⟩ := r2
      simp only at s2 s2i s2b ⊢
      subst s2
      rw [if_neg (by rw [rd_buf s2b, hT.term]; decide)]
      obtain ⟨l1, l2⟩ := lowerLoop_spec T fuel rm2 (U.length + 1) s2i (cstr_buf hT s2b) (by omega)
      refine ⟨hyes, hno2, rfl, lowerLoop_inv fuel rm2 _ s2i (by have := hT.le; omega) (by omega), ?_, l1,
        by simp only [List.length_append, List.length_cons]; omega, ?_⟩
      · exact cstr_frame (cstr_buf hU s2b) (fun i _ hi => by
          rw [Nat.zero_add] at hi; exact l2 i (Or.inl (by omega)))
      · intro i hi
        simp only [List.length_append, List.length_cons] at hi
        rw [l2 i (Or.inr (by omega)), rd_buf s2b, hw1, if_neg (by omega)]
    · -- a second '@'
      left
      subst hsplit2
      have hmid2 : (rm.wr U.length 0).rd (U.length + 1 + T1.length) = AT := seg_mid T1 AT T2 _ hT.seg
      have hTle := hT.le
      simp only [List.length_append, List.length_cons] at hTle
      have s2 := scan_stop (fun x => decide (x = AT)) T1 fuel _ (U.length + 1) hm1
        ((seg_append _ _ _).1 hT.seg).1
        (fun x hx => ⟨fun e => hT.nz (e ▸ List.mem_append_left _ hx), stop_false (fun e => hnT1 (e ▸ hx))⟩)
        (Or.inr (by rw [hmid2]; decide)) (by omega) (by omega)
      obtain ⟨s2i, _, _, s2b⟩ := scan_inv (fun x => decide (x = AT)) fuel _ (U.length + 1) hm1
        (by omega) (by omega)
      generalize scan (fun x => decide (x = AT)) fuel (rm.wr U.length 0) (U.length + 1) = r2 at *
      obtain ⟨rm2, rp2⟩ := r2
      simp only at s2 s2i s2b ⊢
      subst s2
      rw [if_pos (by rw [rd_buf s2b, hmid2])]
      exact ⟨hyes, hyes2, rfl⟩

/-! ### stageQF -/

theorem stageQF_eq {len : Nat} (fuel : Nat) (c : Bytes) (m : Mem) (p : Nat) (h : Inv len m)
    (hs : CStr len m p c) (hf : len < fuel) :
    Inv len (stageQF fuel m p).1 ∧ CStr len (stageQF fuel m p).1 p (splitPQF c).1 ∧
    OptStr p len (stageQF fuel m p).1 (stageQF fuel m p).2.1 (splitPQF c).2.1 ∧
    OptStr p len (stageQF fuel m p).1 (stageQF fuel m p).2.2 (splitPQF c).2.2 ∧
    ∀ i, i < p → (stageQF fuel m p).1.rd i = m.rd i := by
  have hinv := (stageQF_inv fuel m p h (by have := hs.le; omega) hf).1
  refine ⟨hinv, ?_⟩
  obtain ⟨s1, s1b, s1i⟩ := scan_cstr isPathEnd c fuel m p h hs (by have := hs.le; omega)
  have hsplit : c = c.takeWhile (fun c => !isPathEnd c) ++ c.dropWhile (fun c => !isPathEnd c) :=
    (List.takeWhile_append_dropWhile).symm
  unfold splitPQF
  simp only
  have hdrop : ∀ x t, c.dropWhile (fun c => !isPathEnd c) = x :: t → isPathEnd x = true := by
    intro x t e
    have := dropWhile_head_false _ c x t e
    simpa using this
  generalize c.takeWhile (fun c => !isPathEnd c) = path at *
  generalize c.dropWhile (fun c => !isPathEnd c) = rest at *
  subst hsplit
  have hle := hs.le
  simp only [List.length_append] at hle
  unfold stageQF
  simp only
  generalize scan isPathEnd fuel m p = r at *
  obtain ⟨rm, rp⟩ := r
  simp only at s1 s1b s1i ⊢
  subst s1
  have hsr : CStr len rm p (path ++ rest) := cstr_buf hs s1b
  have hmid := cstr_mid path rest hsr
  have hnzP : (0 : UInt8) ∉ path := fun hm => hsr.nz (List.mem_append_left _ hm)
  have hw1 : ∀ j, (rm.wr (p + path.length) 0).rd j = if p + path.length = j then 0 else m.rd j := by
    intro j; rw [rd_wr_inv s1i (by omega), rd_buf s1b]
  have hm1 := wr_zero s1i (i := p + path.length) (by omega)
  have hpath : CStr len (rm.wr (p + path.length) 0) p path :=
    ⟨seg_frame ((seg_append _ _ p).1 hsr.seg).1 (fun i _ hi => by rw [hw1, rd_buf s1b, if_neg (by omega)]),
      by rw [hw1, if_pos rfl], hnzP, by omega⟩
  match rest, hs, hle, hsr, hmid, hdrop with
  | [], hs, hle, hsr, hmid, _ =>
    simp only [List.headD_nil] at hmid
    rw [if_neg (by rw [hmid]; decide), if_neg (by rw [hmid]; decide)]
    refine ⟨?_, trivial, trivial, fun i _ => rd_buf s1b i⟩
    have := hsr; simp only [List.append_nil] at this; exact this
  | x :: r', hs, hle, hsr, hmid, hdrop =>
    simp only [List.headD_cons] at hmid
    simp only [List.length_cons] at hle
    have hx := hdrop x r' rfl
    have hr' : CStr len (rm.wr (p + path.length) 0) (p + path.length + 1) r' := by
      have := cstr_suffix (path ++ [x]) r' (p := p) (by simpa using hsr)
      simp only [List.length_append, List.length_cons, List.length_nil] at this
      rw [show p + (path.length + (0 + 1)) = p + path.length + 1 by omega] at this
      exact cstr_frame this (fun i a _ => by rw [hw1, rd_buf s1b, if_neg (by omega)])
    by_cases hq : x = QM
    · subst hq
      rw [if_pos hmid]
      simp only [if_true]
      have hr'le := hr'.le
      rcases split_chr HASH r' with ⟨hno, hnm⟩ | ⟨A, T, hsplit, hnA, hyes, hup, haf⟩
      · have s2 := scan_stop (fun x => decide (x = HASH)) r' fuel _ (p + path.length + 1) hm1 hr'.seg
          (fun x hx => ⟨fun e => hr'.nz (e ▸ hx), stop_false (fun e => hnm (e ▸ hx))⟩)
          (Or.inl hr'.term) hr'.le (by omega)
        obtain ⟨s2i, _, _, s2b⟩ := scan_inv (fun x => decide (x = HASH)) fuel _ (p + path.length + 1) hm1
          (by omega) (by omega)
        generalize scan (fun x => decide (x = HASH)) fuel (rm.wr (p + path.length) 0) (p + path.length + 1) = r2 at *
        obtain ⟨rm2, rp2⟩ := r2
        simp only at s2 s2i s2b ⊢
        subst s2
        rw [if_neg (by rw [rd_buf s2b, hr'.term]; decide), hno]
        simp only [Bool.false_eq_true, if_false]
        exact ⟨cstr_buf hpath s2b, ⟨by omega, cstr_buf hr' s2b⟩, trivial,
          fun i hi => by rw [rd_buf s2b, hw1, if_neg (by omega)]⟩
      · subst hsplit
        rw [hyes, hup, haf]
        simp only [if_true]
        simp only [List.length_append, List.length_cons] at hr'le
        have hmid2 : (rm.wr (p + path.length) 0).rd (p + path.length + 1 + A.length) = HASH :=
          seg_mid A HASH T _ hr'.seg
        have s2 := scan_stop (fun x => decide (x = HASH)) A fuel _ (p + path.length + 1) hm1
          ((seg_append _ _ _).1 hr'.seg).1
          (fun x hx => ⟨fun e => hr'.nz (e ▸ List.mem_append_left _ hx), stop_false (fun e => hnA (e ▸ hx))⟩)
          (Or.inr (by rw [hmid2]; decide)) (by omega) (by omega)
        obtain ⟨s2i, _, _, s2b⟩ := scan_inv (fun x => decide (x = HASH)) fuel _ (p + path.length + 1) hm1
          (by omega) (by omega)
        generalize scan (fun x => decide (x = HASH)) fuel (rm.wr (p + path.length) 0) (p + path.length + 1) = r2 at *
        obtain ⟨rm2, rp2⟩ := r2
        simp only at s2 s2i s2b ⊢
        subst s2
        rw [if_pos (by rw [rd_buf s2b, hmid2])]
        simp only
        have hw2 : ∀ j, (rm2.wr (p + path.length + 1 + A.length) 0).rd j =
            if p + path.length + 1 + A.length = j then 0 else (rm.wr (p + path.length) 0).rd j := by
          intro j; rw [rd_wr_inv s2i (by omega), rd_buf s2b]
        refine ⟨cstr_frame hpath (fun i _ hi => by rw [hw2, if_neg (by omega)]), ⟨by omega, ?_⟩, ⟨by omega, ?_⟩, ?_⟩
        · exact ⟨seg_frame ((seg_append _ _ _).1 hr'.seg).1 (fun i _ hi => by rw [hw2, if_neg (by omega)]),
            by rw [hw2, if_pos rfl], fun hm => hr'.nz (List.mem_append_left _ hm), by omega⟩
        · have := cstr_suffix (A ++ [HASH]) T (p := p + path.length + 1) (by simpa using hr')
          simp only [List.length_append, List.length_cons, List.length_nil] at this
          rw [show p + path.length + 1 + (A.length + (0 + 1)) = p + path.length + 1 + A.length + 1 by omega] at this
          exact cstr_frame this (fun i a _ => by rw [hw2, if_neg (by omega)])
        · intro i hi; rw [hw2, if_neg (by omega), hw1, if_neg (by omega)]
    · have hh : x = HASH := by
        simp only [isPathEnd, Bool.or_eq_true, decide_eq_true_eq] at hx
        rcases hx with e | e
        · exact absurd e hq
        · exact e
      subst hh
      rw [if_neg (by rw [hmid]; decide), if_pos hmid]
      simp only [show (HASH = QM) = False from by decide, if_false]
      exact ⟨hpath, trivial, ⟨by omega, hr'⟩, fun i hi => by rw [hw1, if_neg (by omega)]⟩

end Nng.UrlBufEq
