/-
  Judge simulation for REP, part H: the `close` event (contexts, then all pipes, then the socket's own context).
-/
import NngModel.Proofs.RepJudgeC
namespace Nng.RepProofs
open Nng Nng.Proto Nng.Rep Nng.RepSpec

/-- the judge's completion phase on a list of outputs -/
def D (outs : List Out) (j : RepJ) : RepJ := (outs.filter isDone).foldl doneStep j

theorem D_append (a b : List Out) (j : RepJ) : D (a ++ b) j = D b (D a j) := by
  unfold D; rw [List.filter_append, List.foldl_append]

theorem D_nil (j : RepJ) : D [] j = j := rfl

theorem D_allDone {outs : List Out} (h : ∀ o ∈ outs, isDone o = true) (j : RepJ) : D outs j = outs.foldl doneStep j := by
  unfold D; rw [List.filter_eq_self.2 h]

theorem closeAll_acc (f : State → Nat → State × List Out) (ks : List Nat) : ∀ (s : State) (o : List Out),
    ks.foldl (fun (acc : State × List Out) k => let (s', o') := f acc.1 k; (s', acc.2 ++ o')) (s, o) =
      ((closeAll s ks f).1, o ++ (closeAll s ks f).2) := by
  induction ks with
  | nil => intro s o; simp [closeAll]
  | cons k ks ih =>
    intro s o
    unfold closeAll
    simp only [List.foldl_cons]
    rw [ih, ih (f s k).1 ([] ++ (f s k).2)]
    simp [closeAll, List.append_assoc]

theorem closeAll_nil (f : State → Nat → State × List Out) (s : State) : closeAll s [] f = (s, []) := rfl

theorem closeAll_cons (f : State → Nat → State × List Out) (k : Nat) (ks : List Nat) (s : State) :
    closeAll s (k :: ks) f = ((closeAll (f s k).1 ks f).1, (f s k).2 ++ (closeAll (f s k).1 ks f).2) := by
  have := closeAll_acc f ks (f s k).1 ([] ++ (f s k).2)
  unfold closeAll at this ⊢
  simp only [List.foldl_cons]
  rw [this]; simp

/-- what holds between the model and the judge while the socket is being torn down -/
structure CI (O : List Out) (used : List Bytes) (s : State) (j : RepJ) : Prop where
  inv : Inv5 s used
  ops : OpsRel s j
  err : j.err = none
  acc : ∀ x ∈ j.acc, Out.pclosed x.pipe ∈ O

/-- all outputs of a teardown step are completions or `pclosed` -/
def Tame (outs : List Out) : Prop :=
  ∀ o ∈ outs, (isDone o = true ∨ ∃ p, o = Out.pclosed p) ∧ isBlocked o = false ∧ isPollOut o = false ∧
    isPipeOut o = false ∧ notExecuted [o] = false

theorem ctxCloseParked_CI {O : List Out} {used : List Bytes} {s : State} {j : RepJ} (k : Nat) (h : CI O used s j) :
    CI O used (ctxCloseParked s k).1 (D (ctxCloseParked s k).2 j) ∧ JFrame j (D (ctxCloseParked s k).2 j) ∧
    Tame (ctxCloseParked s k).2 := by
  obtain ⟨ho, hf, ha, _, ht⟩ := ctxCloseParked_ops h.ops h.inv k
  rw [D_allDone (fun o ho => (ht o ho).1)]
  refine ⟨⟨ctxCloseParked_inv5 s k used h.inv, ho, hf.err.trans h.err, by rw [ha]; exact h.acc⟩, hf, ?_⟩
  intro o hoo
  have := ht o hoo
  refine ⟨Or.inl this.1, this.2.1, ?_, ?_, this.2.2⟩
  · cases o <;> first | rfl | (have := this.1; cases this)
  · cases o <;> first | rfl | (have := this.1; cases this)

theorem closePipe_CI {O : List Out} {used : List Bytes} {s : State} {j : RepJ} (p : Nat) (h : CI O used s j)
    (hO : ∀ o ∈ (closePipe s p).2, o ∈ O) :
    CI O used (closePipe s p).1 (D (closePipe s p).2 j) ∧ JFrame j (D (closePipe s p).2 j) ∧
    Tame (closePipe s p).2 := by
  cases hl : livePipe s p with
  | false =>
    have : closePipe s p = (s, []) := by unfold closePipe; simp [hl]
    rw [this]
    exact ⟨h, JFrame.refl j, by intro o ho; cases ho⟩
  | true =>
    obtain ⟨_, _, houts⟩ := closePipe_frameC s p hl
    obtain ⟨hfold, hops⟩ := closePipe_ops h.ops h.inv p hl
    have hD : D (closePipe s p).2 j = (closeDones (s.pipe p).sendq).foldl doneStep j := by
      rw [houts]
      show D (closeDones _ ++ [Out.pclosed p]) j = _
      rw [D_append, D_allDone (closeDones_isDone _)]; rfl
    rw [hD, hfold]
    refine ⟨⟨closePipe_inv5 s p used h.inv, hops, h.err, ?_⟩, ⟨rfl, rfl, rfl, rfl, rfl, rfl, rfl, rfl, rfl⟩, ?_⟩
    · intro x hx
      rcases List.mem_append.1 hx with hx | hx
      · exact h.acc x hx
      · obtain ⟨e, _, rfl⟩ := List.mem_map.1 hx
        exact hO _ (by rw [houts]; simp)
    · rw [houts]
      intro o ho
      rcases List.mem_append.1 ho with ho | ho
      · obtain ⟨e, _, rfl⟩ := List.mem_map.1 ho
        exact ⟨Or.inl rfl, rfl, rfl, rfl, rfl⟩
      · simp at ho; subst ho
        exact ⟨Or.inr ⟨p, rfl⟩, rfl, rfl, rfl, rfl⟩

theorem closeAll_CI {O : List Out} {used : List Bytes} (f : State → Nat → State × List Out)
    (hf : ∀ (s : State) (j : RepJ) (k : Nat), CI O used s j → (∀ o ∈ (f s k).2, o ∈ O) →
      CI O used (f s k).1 (D (f s k).2 j) ∧ JFrame j (D (f s k).2 j) ∧ Tame (f s k).2) :
    ∀ (ks : List Nat) (s : State) (j : RepJ), CI O used s j → (∀ o ∈ (closeAll s ks f).2, o ∈ O) →
      CI O used (closeAll s ks f).1 (D (closeAll s ks f).2 j) ∧ JFrame j (D (closeAll s ks f).2 j) ∧
      Tame (closeAll s ks f).2 := by
  intro ks
  induction ks with
  | nil => intro s j h _; exact ⟨h, JFrame.refl j, by intro o ho; cases ho⟩
  | cons k ks ih =>
    intro s j h hO
    rw [closeAll_cons] at hO ⊢
    obtain ⟨h1, f1, t1⟩ := hf s j k h (fun o ho => hO o (List.mem_append.2 (Or.inl ho)))
    obtain ⟨h2, f2, t2⟩ := ih (f s k).1 _ h1 (fun o ho => hO o (List.mem_append.2 (Or.inr ho)))
    simp only
    rw [D_append]
    refine ⟨h2, f1.trans f2, ?_⟩
    intro o ho
    rcases List.mem_append.1 ho with ho | ho
    · exact t1 o ho
    · exact t2 o ho

/-- the judge's second phase on a teardown output list: only `pclosed` is left -/
theorem rest_pclosed : ∀ (L : List Out) (J : RepJ), (∀ o ∈ L, isDone o = true ∨ ∃ p, o = Out.pclosed p) →
    ((L.filter (fun o => !isDone o)).foldl repOut J).err = J.err ∧
    ((L.filter (fun o => !isDone o)).foldl repOut J).acc = J.acc ∧
    ((L.filter (fun o => !isDone o)).foldl repOut J).waiting = J.waiting ∧
    ((L.filter (fun o => !isDone o)).foldl repOut J).closed = J.closed ∧
    (∀ p, p ∈ ((L.filter (fun o => !isDone o)).foldl repOut J).live → p ∈ J.live ∧ Out.pclosed p ∉ L) := by
  intro L
  induction L with
  | nil => intro J _; exact ⟨rfl, rfl, rfl, rfl, fun p hp => ⟨hp, by simp⟩⟩
  | cons o L ih =>
    intro J h
    have hL : ∀ o ∈ L, isDone o = true ∨ ∃ p, o = Out.pclosed p := fun o ho => h o (by simp [ho])
    rcases h o (by simp) with hd | ⟨q, rfl⟩
    · rw [List.filter_cons]; simp only [hd, Bool.not_true, Bool.false_eq_true, if_false]
      obtain ⟨a, b, c, d, e⟩ := ih J hL
      refine ⟨a, b, c, d, ?_⟩
      intro p hp
      refine ⟨(e p hp).1, ?_⟩
      intro hm
      rcases List.mem_cons.1 hm with hm | hm
      · rw [← hm] at hd; cases hd
      · exact (e p hp).2 hm
    · rw [List.filter_cons]
      have : isDone (Out.pclosed q) = false := rfl
      simp only [this, Bool.not_false, if_true, List.foldl_cons, repOut_pclosed]
      obtain ⟨a, b, c, d, e⟩ := ih (repOut J (Out.pclosed q)) hL
      rw [repOut_pclosed] at a b c d e
      refine ⟨a, b, c, d, ?_⟩
      intro p hp
      obtain ⟨h1, h2⟩ := e p hp
      have h1' := List.mem_filter.1 h1
      refine ⟨h1'.1, ?_⟩
      intro hm
      rcases List.mem_cons.1 hm with hm | hm
      · injection hm with hm; subst hm; simp at h1'
      · exact h2 hm

theorem tame_all {O : List Out} (h : Tame O) :
    notExecuted O = false ∧ O.any isBlocked = false ∧ (∀ o ∈ O, isPollOut o = false) ∧ (∀ o ∈ O, isPipeOut o = false) := by
  refine ⟨?_, ?_, fun o ho => (h o ho).2.2.1, fun o ho => (h o ho).2.2.2.1⟩
  · unfold notExecuted; rw [List.any_eq_false]; intro o ho
    have := (h o ho).2.2.2.2
    unfold notExecuted at this
    simpa using this
  · rw [List.any_eq_false]; intro o ho
    simp [(h o ho).2.1]

theorem close_sim {s : State} {j : RepJ} {used : List Bytes} (hR : R s j) (h5 : Inv5 s used)
    (ks1 : List Nat) (ps ks3 : State → List Nat) :
    Rc (repStep j .close
      ((closeAll s ks1 ctxCloseParked).2 ++
        (closeAll (closeAll s ks1 ctxCloseParked).1 (ps (closeAll s ks1 ctxCloseParked).1) closePipe).2 ++
        (closeAll (closeAll (closeAll s ks1 ctxCloseParked).1 (ps (closeAll s ks1 ctxCloseParked).1) closePipe).1
          (ks3 (closeAll (closeAll s ks1 ctxCloseParked).1 (ps (closeAll s ks1 ctxCloseParked).1) closePipe).1)
          ctxCloseParked).2)) := by
  generalize hr1 : closeAll s ks1 ctxCloseParked = r1
  generalize hr2 : closeAll r1.1 (ps r1.1) closePipe = r2
  generalize hr3 : closeAll r2.1 (ks3 r2.1) ctxCloseParked = r3
  generalize hO : r1.2 ++ r2.2 ++ r3.2 = O
  have hu := R0_unfresh hR.r0
  have hacc : (unfresh j).acc = [] := hR.acc
  generalize hj0 : unfresh j = j0 at hu hacc
  have hci0 : CI O used s { j0 with closed := true } :=
    ⟨h5, ⟨hu.ops.w1, hu.ops.w2, hu.ops.s1, hu.ops.s2⟩, hu.err, by
      intro x hx; have : x ∈ j0.acc := hx; rw [hacc] at this; cases this⟩
  obtain ⟨c1, f1, t1⟩ := closeAll_CI (O := O) (used := used) ctxCloseParked (fun s j k h _ => ctxCloseParked_CI k h) ks1 s _ hci0
    (by intro o ho; rw [hr1] at ho; rw [← hO]; simp [ho])
  rw [hr1] at c1 f1 t1
  obtain ⟨c2, f2, t2⟩ := closeAll_CI (O := O) (used := used) closePipe (fun s j k h hO => closePipe_CI k h hO) (ps r1.1) r1.1 _ c1
    (by intro o ho; rw [hr2] at ho; rw [← hO]; simp [ho])
  rw [hr2] at c2 f2 t2
  obtain ⟨c3, f3, t3⟩ := closeAll_CI (O := O) (used := used) ctxCloseParked (fun s j k h _ => ctxCloseParked_CI k h) (ks3 r2.1) r2.1 _ c2
    (by intro o ho; rw [hr3] at ho; rw [← hO]; simp [ho])
  rw [hr3] at c3 f3 t3
  have hDO : D O { j0 with closed := true } = D r3.2 (D r2.2 (D r1.2 { j0 with closed := true })) := by
    rw [← hO, D_append, D_append]
  have hframe : JFrame { j0 with closed := true } (D O { j0 with closed := true }) := by
    rw [hDO]; exact (f1.trans f2).trans f3
  have htame : Tame O := by
    rw [← hO]; intro o ho
    rcases List.mem_append.1 ho with ho | ho
    · rcases List.mem_append.1 ho with ho | ho
      · exact t1 o ho
      · exact t2 o ho
    · exact t3 o ho
  obtain ⟨hne, hbl, hpoll, hpipe⟩ := tame_all htame
  rw [repStep_eq hR.r0.err hne, hj0]
  have hpre : repPre j0 .close O = ({ j0 with closed := true }, none) := rfl
  rw [hpre]
  have hproc : procOuts O { j0 with closed := true } =
      (O.filter (fun o => !isDone o)).foldl repOut (D O { j0 with closed := true }) := by
    rw [procOuts_nopipe hpipe]; rfl
  rw [hproc]
  obtain ⟨e1, e2, e3, e4, e5⟩ := rest_pclosed O (D O { j0 with closed := true }) (fun o ho => (htame o ho).1)
  have hci : CI O used r3.1 (D O { j0 with closed := true }) := by rw [hDO]; exact c3
  have hcl : ((O.filter (fun o => !isDone o)).foldl repOut (D O { j0 with closed := true })).closed = true := by
    rw [e4, hframe.closed]
  rw [repPost_ok (by
      intro x hx; rw [e2] at hx
      intro hl
      exact (e5 _ hl).2 (hci.acc x hx)) (by
      intro r hr; rw [e3] at hr
      exact Or.inl (hci.ops.w1 r hr).1) (Or.inl rfl) hbl hpoll (Or.inl hcl)]
  exact ⟨by show _ = none; rw [e1]; exact hci.err, hcl, rfl⟩

end Nng.RepProofs
