/- the monitor's clause "timer liveness" (observation `settled`) is sound for the aio model:
   in a state of the repaired model in which no internal step is enabled (`settledB`: every thread
   of the library and every call in progress is blocked; only the clock or a new call of the
   environment can move the system) no operation accepted by the generic provider is pending with
   its deadline strictly in the past -- otherwise the expire thread's scan (`expScan`) would be
   enabled.  Layer 5 of the invariants: who holds the cancel function of a parked operation, and
   that a parked operation whose cancel function is still registered sits on the expire list
   exactly when it has a deadline. -/
import NngModel.Proofs.AioJudgeMain
import NngModel.Proofs.AioJudgeTrace
set_option linter.unusedSimpArgs false
namespace Nng.Aio
open Nng.AioSpec

structure Inv5 (s : State) : Prop where
  provC : s.cancelFn ≠ some .slp
  provCalls : ∀ rv, (Prov.slp, rv) ∉ s.calls
  provStop : s.stopFn ≠ some .slp
  provExp : s.expFn = .gen
  /-- somebody can still cancel a parked operation -/
  holder : s.parked = true → s.cancelFn.isSome = true ∨ s.calls ≠ [] ∨ (s.stopPc = 3 ∧ s.stopFn.isSome = true) ∨ s.expPc = 2
  /-- while its cancel function is registered, a parked operation is on the expire list iff it has
      a deadline (or the expire thread has just scanned it) -/
  onq : s.parked = true → s.cancelFn.isSome = true → (s.expPc = 0 ∧ s.onExp = s.opDeadline.isSome) ∨ s.expPc = 1
  taken : 2 ≤ s.expPc → s.cancelFn = none

theorem inv5_init : Inv5 ({} : State) := by
  constructor <;> simp

macro "inv5_auto" : tactic => `(tactic| (
  rcases ‹Inv1 _› with ⟨h1,h2,h3,h4,h5,h6,h7,h8,h9,h10,h11,h12,h13,h14,h15,h16,h17,h18⟩
  rcases ‹Inv2 _› with ⟨g1,g2,g3,g4,g5,g6,g7⟩
  rcases ‹Inv5 _› with ⟨m1,m2,m3,m4,m5,m6,m7⟩
  constructor <;> (try dsimp only) <;> (try simp only [prov_gen_beq, List.mem_cons, Prod.mk.injEq, List.not_mem_nil]) <;> grind [b2n, idle]))

macro "inv5_lab" hs:ident : tactic => `(tactic| (
  try simp only [step, Cfg.fixed, dispatch_eq, release_eq, cancelGen_eq, cancelSlp_eq, completed, finishCore, takeFn, Bool.true_and] at $hs:ident
  repeat' (split at $hs:ident)
  all_goals (try (cases $hs:ident))
  all_goals inv5_auto))

macro "inv5_labk" hs:ident hk:ident : tactic => `(tactic| (
  try simp only [step, $hk:ident, Cfg.fixed, dispatch_eq, release_eq, cancelGen_eq, cancelSlp_eq, completed, finishCore, takeFn, Bool.true_and] at $hs:ident
  repeat' (split at $hs:ident)
  all_goals (try (cases $hs:ident))
  all_goals inv5_auto))

set_option maxHeartbeats 1000000 in
theorem inv5_step_a {s s' : State} {l : Label} (h : Inv1 s) (g : Inv2 s) (m : Inv5 s) (hl : NoSleepL l)
    (hs : step Cfg.fixed s l = some s') (ha : labA l = true) : Inv5 s' := by
  cases l with
  | tick d => inv5_lab hs
  | setTimeout t => inv5_lab hs
  | setExpire e => inv5_lab hs
  | skipArm => inv5_lab hs
  | subCall k f => inv5_lab hs
  | prepare => cases hk : s.subKind <;> inv5_labk hs hk
  | begin => cases hk : s.subKind <;> inv5_labk hs hk
  | direct => cases hk : s.subKind <;> inv5_labk hs hk
  | subRet g v => inv5_lab hs
  | _ => cases ha

set_option maxHeartbeats 1000000 in
theorem inv5_step_b {s s' : State} {l : Label} (h : Inv1 s) (g : Inv2 s) (m : Inv5 s)
    (hs : step Cfg.fixed s l = some s') (ha : labB l = true) : Inv5 s' := by
  cases l with
  | complete rv => inv5_lab hs
  | finish => inv5_lab hs
  | abortCall rv => inv5_lab hs
  | abortSec rv => inv5_lab hs
  | closeCall => inv5_lab hs
  | closeSec => inv5_lab hs
  | callCancel p rv => cases p <;> inv5_lab hs
  | stopCall f => inv5_lab hs
  | stopMark => inv5_lab hs
  | stopTake => inv5_lab hs
  | _ => cases ha

set_option maxHeartbeats 1000000 in
theorem inv5_step_c {s s' : State} {l : Label} (h : Inv1 s) (g : Inv2 s) (m : Inv5 s)
    (hs : step Cfg.fixed s l = some s') (ha : labA l = false) (hb : labB l = false) :
    Inv5 s' := by
  cases l with
  | stopCancel =>
    cases hk : s.stopFn with
    | none => inv5_labk hs hk
    | some p => cases p <;> inv5_labk hs hk
  | stopWait => inv5_lab hs
  | stopRet => inv5_lab hs
  | expScan => inv5_lab hs
  | expTake =>
    cases hk : s.cancelFn with
    | none => inv5_labk hs hk
    | some p => cases p <;> inv5_labk hs hk
  | expCall => cases hk : s.expFn <;> inv5_labk hs hk
  | expRelease => inv5_lab hs
  | pop => inv5_lab hs
  | cbRead => inv5_lab hs
  | cbDone => inv5_lab hs
  | peek => inv5_lab hs
  | _ => first | (cases ha; done) | (cases hb; done)

/-- every step of the repaired model on the generic provider preserves the layer-5 invariant -/
theorem inv5_step {s s' : State} {l : Label} (h : Inv1 s) (g : Inv2 s) (m : Inv5 s) (hl : NoSleepL l)
    (hs : step Cfg.fixed s l = some s') : Inv5 s' := by
  cases ha : labA l
  · cases hb : labB l
    · exact inv5_step_c h g m hs ha hb
    · exact inv5_step_b h g m hs hb
  · exact inv5_step_a h g m hl hs ha


-- settled states ------------------------------------------------------------------------------

/-- every internal step that can be enabled in `s`: the steps of the library's threads (expire, task)
    and of calls in progress (start, finish, abort, close, stop), including the returns of calls.
    Not in the list: the clock and the new calls of the environment (`tick`, `setTimeout`, `setExpire`,
    `skipArm`, `subCall`, `complete`, `abortCall`, `closeCall`, `stopCall`, `peek`). -/
def internalLabels (s : State) : List Label :=
  [.prepare, .begin, .direct, .finish, .closeSec, .stopMark, .stopTake, .stopCancel, .stopWait, .stopRet,
   .expScan, .expTake, .expCall, .expRelease, .pop, .cbRead, .cbDone] ++
  s.aborts.map .abortSec ++ s.calls.map (fun c => .callCancel c.1 c.2) ++ s.subRets.map (fun e => .subRet e.1 e.2)

/-- nothing more happens unless virtual time passes or the environment makes a call -/
def settledB (s : State) : Bool := (internalLabels s).all fun l => (step Cfg.fixed s l).isNone

def isInternal : Label → Bool
  | .tick _ | .setTimeout _ | .setExpire _ | .skipArm | .subCall _ _ | .complete _ | .abortCall _ | .closeCall
  | .stopCall _ | .peek => false
  | _ => true

/-- `internalLabels` misses no enabled internal step -/
theorem settledB_complete {s : State} (hq : settledB s = true) (l : Label) (hi : isInternal l = true) :
    step Cfg.fixed s l = none := by
  simp only [settledB, List.all_eq_true, Option.isNone_iff_eq_none] at hq
  cases l with
  | abortSec rv =>
    by_cases hm : rv ∈ s.aborts
    · exact hq _ (by simp [internalLabels, hm])
    · simp [step, hm]
  | callCancel p rv =>
    by_cases hm : (p, rv) ∈ s.calls
    · exact hq _ (by simp only [internalLabels, List.mem_append, List.mem_map]; exact Or.inl (Or.inr ⟨(p, rv), hm, rfl⟩))
    · simp [step, hm]
  | subRet b v =>
    by_cases hm : (b, v) ∈ s.subRets
    · exact hq _ (by simp only [internalLabels, List.mem_append, List.mem_map]; exact Or.inr ⟨(b, v), hm, rfl⟩)
    · simp [step, hm]
  | tick _ | setTimeout _ | setExpire _ | skipArm | subCall _ _ | complete _ | abortCall _ | closeCall
  | stopCall _ | peek => cases hi
  | _ => exact hq _ (by simp [internalLabels])

/-- what a settled state looks like -/
theorem settled_facts {s : State} (i1 : Inv1 s) (hq : settledB s = true) :
    s.subPc = 0 ∧ s.subRets = [] ∧ s.pendFin = none ∧ s.queued = 0 ∧ s.popped = 0 ∧ s.expPc = 0 ∧
    s.calls = [] ∧ s.stopPc ≠ 3 ∧ step Cfg.fixed s .expScan = none := by
  have hc := settledB_complete hq
  have hsub : s.subPc = 0 := by
    have h1 := hc .prepare rfl
    have h2 := hc .begin rfl
    have h3 := hc .direct rfl
    have := i1.subPcLe
    by_cases ha : s.subPc = 1
    · cases hk : s.subKind <;> simp [step, ha, hk] at h1 h3
    · by_cases hb : s.subPc = 2
      · simp only [step, hb, bne_self_eq_false, Bool.false_eq_true, ↓reduceIte] at h2
        repeat' (split at h2)
        all_goals (cases h2)
      · omega
  have hrets : s.subRets = [] := by
    cases hr : s.subRets with
    | nil => rfl
    | cons e r =>
      have := hc (.subRet e.1 e.2) rfl
      simp [step, hr] at this
  have hpend : s.pendFin = none := by
    have := hc .finish rfl
    cases hp : s.pendFin with
    | none => rfl
    | some rv => simp [step, hp] at this
  have hq0 : s.queued = 0 := by
    have := hc .pop rfl
    simp only [step] at this
    split at this
    · cases this
    · omega
  have hp0 : s.popped = 0 := by
    have := hc .cbRead rfl
    simp only [step] at this
    split at this
    · cases this
    · omega
  have hlock : provLocked s = false := by simp [provLocked, hsub, hrets]
  have hexp : s.expPc = 0 := by
    have h1 := hc .expTake rfl
    have h2 := hc .expCall rfl
    have h3 := hc .expRelease rfl
    have := i1.expPcLe
    by_cases ha : s.expPc = 1
    · simp only [step, ha, bne_self_eq_false, Bool.false_eq_true, ↓reduceIte] at h1
      repeat' (split at h1)
      all_goals (cases h1)
    · by_cases hb : s.expPc = 2
      · simp [step, hb, hlock] at h2
      · by_cases hc3 : s.expPc = 3
        · simp [step, hc3] at h3
        · omega
  have hcalls : s.calls = [] := by
    cases hr : s.calls with
    | nil => rfl
    | cons e r =>
      have := hc (.callCancel e.1 e.2) rfl
      simp [step, hr, hlock] at this
  have hstop : s.stopPc ≠ 3 := by
    intro h3
    have := hc .stopCancel rfl
    simp only [step, h3, bne_self_eq_false, Bool.false_eq_true, ↓reduceIte, hlock, Bool.and_false] at this
    repeat' (split at this)
    all_goals (cases this)
  exact ⟨hsub, hrets, hpend, hq0, hp0, hexp, hcalls, hstop, hc .expScan rfl⟩

/-- in a settled state the monitor's clause "timer liveness" holds: the observation `settled`
    leaves the monitor as it is -/
theorem settled_id {s : State} {g : G} {j : J} (hR : R 0 s g j) (i1 : Inv1 s) (i2 : Inv2 s) (i5 : Inv5 s)
    (hq : settledB s = true) : AioSpec.step j .settled = j := by
  obtain ⟨f1, f2, f3, f4, f5, f6, f7, f8, f9⟩ := settled_facts i1 hq
  simp only [AioSpec.step.eq_def, hR.base.err, hR.base.nfree, Option.isSome_none, Bool.false_eq_true, ↓reduceIte]
  cases hj : j.ops with
  | nil => rfl
  | cons o r =>
    simp only
    rw [if_neg]
    intro hcond
    simp only [Bool.and_eq_true, beq_iff_eq, Bool.not_eq_true', kind_beq_gen] at hcond
    obtain ⟨⟨⟨hk, hret⟩, hrep⟩, hov⟩ := hcond
    have hH := hR.head o (by simp [hj])
    have hu : unrep s := by
      by_cases h : unrep s
      · exact h
      · rw [hH.rep1 h] at hrep; cases hrep
    -- the operation is parked
    have hpk : s.parked = true := by
      have hp := pend_nil f2
      have hexpd : s.expDispatch = false := by
        cases hd : s.expDispatch
        · rfl
        · have := (i1.expPcIff.1 f6); rw [i1.dispOnlyExp hd] at this; cases this
      have hrp := i1.rep; have hcn := i1.cnt; have htk := i1.tok
      simp only [unrep, hp] at hu
      cases ht : s.opTok
      · simp only [ht, hexpd, b2n, Bool.false_eq_true, ↓reduceIte] at hcn hrp; omega
      · rw [ht, f1, f3] at htk
        simpa using htk.symm
    -- its cancel function is still registered, so it is on the expire list iff it has a deadline
    have hfn : s.cancelFn.isSome = true := by
      rcases i5.holder hpk with h | h | h | h
      · exact h
      · exact absurd f7 h
      · exact absurd h.1 f8
      · omega
    have hon : s.onExp = s.opDeadline.isSome := by
      rcases i5.onq hpk hfn with h | h
      · exact h.2
      · omega
    -- the deadline has passed
    have hret' : o.ret ≠ none := by rw [hret]; simp
    have hdl : ∃ d, s.opDeadline = some d ∧ d < s.now := by
      rw [hR.base.now] at hov
      unfold overdue at hov
      cases ha : o.absExp with
      | some e =>
        simp only [ha, decide_eq_true_eq] at hov
        exact ⟨e, hH.dlA e ha (Or.inr hpk), hov⟩
      | none =>
        simp only [ha] at hov
        cases ht : o.tmo with
        | zero => simp [ht] at hov
        | never => simp [ht] at hov
        | ms m =>
          simp only [ht, decide_eq_true_eq] at hov
          have hs := hH.dlS m ha ht (Or.inr hpk)
          cases hd : s.opDeadline with
          | none => rw [hd] at hs; cases hs
          | some d =>
            have := ((hH.dlU m d ha ht hd (Or.inr hpk)).2 hret')
            exact ⟨d, rfl, by omega⟩
    obtain ⟨d, hd1, hd2⟩ := hdl
    have hone : s.onExp = true := by rw [hon, hd1]; rfl
    have hexp : s.expire = some d := by rw [i2.dl hone, hd1]
    simp [step, hexp, f6, hone, hd2] at f9

-- the trace with the observation `settled` ----------------------------------------------------

/-- the extended observable trace, with the observation `settled` after every step that leaves the
    model in a settled state -/
def traceS (cfg : Cfg) (s : State) (g : G) : List Label → List Obs
  | [] => []
  | l :: ls => match step cfg s l with
    | some s' => obsX s g l ++ (if settledB s' then [.settled] else []) ++ traceS cfg s' (gStep s g l) ls
    | none => []

/-- the `settled` observations do not change the monitor's state along an execution -/
theorem traceS_judge (ls : List Label) : ∀ (s : State) (g : G) (j : J) (se : State),
    Inv1 s → Inv2 s → Inv3 s → Inv4 s → Inv5 s → (R 0 s g j ∨ Rf s j) → (∀ l ∈ ls, NoSleepL l) →
    Contract Cfg.fixed s g ls → run Cfg.fixed s ls = some se →
    judgeFrom j (traceS Cfg.fixed s g ls) = judgeFrom j (traceX Cfg.fixed s g ls) := by
  induction ls with
  | nil => intro s g j se _ _ _ _ _ _ _ _ _; rfl
  | cons l ls ih =>
    intro s g j se i1 i2 i3 i4 i5 hR hn hc hr
    simp only [run] at hr
    cases hs : step Cfg.fixed s l with
    | none => rw [hs] at hr; cases hr
    | some s1 =>
      rw [hs] at hr
      simp only [traceS, traceX, hs, judgeFrom_append]
      have hl : NoSleepL l := hn l (by simp)
      obtain ⟨hok, hc'⟩ := contract_cons hc hs
      have hR' : R 0 s1 (gStep s g l) (judgeFrom j (obsX s g l)) ∨ Rf s1 (judgeFrom j (obsX s g l)) := by
        rcases hR with h | h
        · exact rel_step l h i1 i2 i3 i4 hok hs
        · right
          obtain ⟨h1, h2⟩ := rel_freed (g := g) l h i1 i3 i4 hok hs
          rw [obsX_eq, h2]
          simpa using h1
      have j1 := inv1_step i1 hl hs
      have j2 := inv2_step i1 i2 hl hs
      have j5 := inv5_step i1 i2 i5 hl hs
      have hset : ∀ jx, (R 0 s1 (gStep s g l) jx ∨ Rf s1 jx) →
          judgeFrom jx (if settledB s1 then [Obs.settled] else []) = jx := by
        intro jx hRx
        cases hq : settledB s1
        · rfl
        · simp only [↓reduceIte, judgeFrom, List.foldl]
          rcases hRx with h | h
          · exact settled_id h j1 j2 j5 hq
          · simp [AioSpec.step.eq_def, h.err, h.free]
      rw [hset _ hR']
      exact ih s1 (gStep s g l) _ se j1 j2 (inv3_step i1 i3 hl hs) (inv4_step i1 i3 i4 hl hok hs) j5 hR'
        (fun x hx => hn x (by simp [hx])) hc' hr

/-- the monitor, clause "timer liveness" included, accepts the trace with `settled` observations of
    every execution of the repaired model on the generic provider that keeps to the contract -/
theorem judge_accepts_settled (ls : List Label) (se : State) (hn : ∀ l ∈ ls, NoSleepL l)
    (hc : Contract Cfg.fixed {} {} ls) (hr : run Cfg.fixed {} ls = some se) :
    judge (traceS Cfg.fixed {} {} ls) = none := by
  rw [judge_eq, traceS_judge ls {} {} {} se inv1_init inv2_init inv3_init inv4_init inv5_init (Or.inl init_R) hn hc hr,
    ← judge_eq]
  exact judge_accepts ls se hn hc hr


theorem obsOf_ne_settled {s : State} {l : Label} {o : Obs} (h : obsOf s l = some o) : (o != .settled) = true := by
  cases l with
  | callCancel p rv => cases p <;> simp only [obsOf] at h <;> cases h <;> rfl
  | stopCall f => simp only [obsOf] at h; cases h; cases f <;> rfl
  | stopRet => simp only [obsOf] at h; cases h; cases s.stopFree <;> rfl
  | stopCancel => simp only [obsOf] at h; split at h <;> cases h; rfl
  | expCall => simp only [obsOf] at h; split at h <;> cases h; rfl
  | _ => simp only [obsOf] at h <;> cases h <;> rfl

theorem obsX_ne_settled (s : State) (g : G) (l : Label) : ∀ o ∈ obsX s g l, (o != .settled) = true := by
  intro o ho
  simp only [obsX, List.mem_append] at ho
  rcases ho with h | h
  · cases hob : obsOf s l with
    | none => simp [hob] at h
    | some o' =>
      simp only [hob, List.mem_singleton] at h
      subst h
      exact obsOf_ne_settled hob
  · have := obsExtra_all_extra s g l o h
    cases o <;> first | rfl | cases this

/-- `traceS` is `traceX` with `settled` observations inserted, nothing else -/
theorem traceS_filter (cfg : Cfg) (ls : List Label) : ∀ (s : State) (g : G),
    (traceS cfg s g ls).filter (fun o => o != .settled) = traceX cfg s g ls := by
  induction ls with
  | nil => intro s g; rfl
  | cons l ls ih =>
    intro s g
    simp only [traceS, traceX]
    cases hs : step cfg s l with
    | none => rfl
    | some s1 =>
      simp only [List.filter_append, ih]
      rw [List.filter_eq_self.2 (obsX_ne_settled s g l)]
      cases settledB s1
      · simp
      · have : ([Obs.settled].filter fun o => o != .settled) = [] := rfl
        simp only [↓reduceIte, this, List.append_nil]

end Nng.Aio
